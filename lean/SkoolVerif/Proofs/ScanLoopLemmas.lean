import SkoolVerif.Proofs.ScanBlockLemmas
/-! The `for row in frame.udgs[r0:r1]` loop of `_build_image_data_bd_any` (model `anyRows`). -/
set_option linter.unusedSimpArgs false
set_option linter.unusedVariables false
namespace PngScan
open ZxTile

/-- `scanlines[k]` of a tile row: filter byte 0 and the packed pixels. -/
def lineOf (c : Ctx) (row : List Udg) (k : Nat) : List Nat := 0 :: packLine c (rowPixels c row k)

theorem intRange_eq (a n : Nat) :
    intRange (a : Int) ((a : Int) + n) = (List.range' a n).map (fun k : Nat => (k : Int)) := by
  unfold intRange
  have : ((a : Int) + n - a).toNat = n := by omega
  rw [this, List.range'_eq_map_range, List.map_map]
  apply List.map_congr_left
  intro i _
  simp

theorem flatMap_intRange {β : Type} (g : Int → List β) (a n : Nat) :
    (intRange (a : Int) ((a : Int) + n)).flatMap g = (List.range' a n).flatMap (fun k : Nat => g (k : Int)) := by
  rw [intRange_eq, List.flatMap_map]

theorem flatMap_congr' {α β : Type} (l : List α) (f g : α → List β) (h : ∀ a ∈ l, f a = g a) :
    l.flatMap f = l.flatMap g := by
  induction l with
  | nil => rfl
  | cons a t ih =>
    simp only [List.flatMap_cons]
    rw [h a (by simp), ih (fun b hb => h b (by simp [hb]))]

/-- One iteration of the loop over tile rows, with the Python-int state replaced by the natural
numbers it holds. -/
theorem anyRows_iter (c : Ctx) (row : List Udg) (rest : List (List Udg)) (K0 K1 yN : Nat)
    (hK : K0 < K1) (rws : Int)
    (hrws : rws = min ((yN : Int) + c.scale) ((c.y0 : Int) + c.height) - max (yN : Int) c.y0) :
    anyRows c (row :: rest) K0 K1 yN rws =
      (List.replicate (min (yN + c.scale) (c.y0 + c.height) - max c.y0 yN) (lineOf c row K0) ++
        (if K0 + 1 < K1 then
          (List.range' (K0 + 1) (K1 - K0 - 2)).flatMap (fun k => List.replicate c.scale (lineOf c row k))
            ++ List.replicate (min c.scale (c.y0 + c.height - (yN + (K1 - K0 - 1) * c.scale))) (lineOf c row (K1 - 1))
         else []))
      ++ anyRows c rest 0
          (min 8 (1 + ((c.y0 : Int) + c.height - ((yN : Int) + ((K1 : Int) - K0) * c.scale) - 1) / c.scale))
          ((yN : Int) + ((K1 : Int) - K0) * c.scale)
          (min (c.scale : Int) ((c.y0 : Int) + c.height - ((yN : Int) + ((K1 : Int) - K0) * c.scale))) := by
  rw [anyRows]
  simp only []
  have scanIn (i : Nat) (h1 : K0 ≤ i) (h2 : i < K1) :
      (if (K0 : Int) ≤ (i : Int) ∧ (i : Int) < (K1 : Int) then 0 :: packLine c (rowPixels c row (i : Int).toNat) else [0])
        = lineOf c row i := by
    have : (K0 : Int) ≤ (i : Int) ∧ (i : Int) < (K1 : Int) := by omega
    rw [if_pos this]; simp [lineOf]
  congr 1
  congr 1
  · -- first source row
    unfold repeatLine
    rw [scanIn K0 (Nat.le_refl _) hK, hrws]
    congr 1
    omega
  · by_cases hc : K0 + 1 < K1
    · have hc' : (K1 : Int) > (K0 : Int) + 1 := by omega
      rw [if_pos hc', if_pos hc]
      congr 1
      · have e : (K1 : Int) - 1 = ((K0 + 1 : Nat) : Int) + ((K1 - K0 - 2 : Nat) : Int) := by omega
        have e0 : (K0 : Int) + 1 = ((K0 + 1 : Nat) : Int) := by omega
        rw [e, e0, flatMap_intRange]
        apply flatMap_congr'
        intro k hk
        simp only [List.mem_range'_1] at hk
        unfold repeatLine
        rw [scanIn k (by omega) (by omega)]
        simp
      · unfold repeatLine
        have e : (K1 : Int) - 1 = ((K1 - 1 : Nat) : Int) := by omega
        rw [e, scanIn (K1 - 1) (by omega) (by omega)]
        congr 1
        have hm : ((K1 : Int) - (K0 : Int)) * (c.scale : Int) = (((K1 - K0 - 1) * c.scale + c.scale : Nat) : Int) := by
          have : (K1 : Int) - K0 = ((K1 - K0 - 1 : Nat) : Int) + 1 := by omega
          rw [this, Int.add_mul]; simp
        rw [hm]
        omega
    · have hc' : ¬ ((K1 : Int) > (K0 : Int) + 1) := by omega
      rw [if_neg hc', if_neg hc]

/-- The line shown by output row `yy` (absolute scaled coordinate) when `rows` are the tile rows
starting at tile row `r`. -/
def lineAt (c : Ctx) (rows : List (List Udg)) (r yy : Nat) : List Nat :=
  lineOf c (rows.getD (yy / (8 * c.scale) - r) []) (yy / c.scale % 8)

/-- `k1` as the loop computes it for tile row `r`. -/
def k1Of (c : Ctx) (r : Nat) : Nat :=
  if c.y0 + c.height ≤ 8 * c.scale * r then 0
  else min 8 ((c.y0 + c.height - 1 - 8 * c.scale * r) / c.scale + 1)

theorem neg_ediv_small (s : Nat) (hs : 0 < s) (n : Int) (h1 : -(s : Int) ≤ n) (h2 : n < 0) : n / (s : Int) = -1 := by
  have : n = (n + s) + (-1) * s := by omega
  rw [this, Int.add_mul_ediv_right _ _ (by omega), Int.ediv_eq_zero_of_lt (by omega) (by omega)]
  omega

/-- `min(8, 1 + (y1 - y - 1) // scale)` at `y = 8*scale*r` is `k1Of`, provided the previous tile
row was completely covered. -/
theorem k1_next (c : Ctx) (r : Nat) (hs : 0 < c.scale)
    (hprev : 8 * c.scale * r ≤ c.y0 + c.height + c.scale - 1) :
    min (8 : Int) (1 + ((c.y0 : Int) + c.height - ((8 * c.scale * r : Nat) : Int) - 1) / (c.scale : Int))
      = ((k1Of c r : Nat) : Int) := by
  unfold k1Of
  by_cases h : c.y0 + c.height ≤ 8 * c.scale * r
  · rw [if_pos h]
    have : ((c.y0 : Int) + c.height - ((8 * c.scale * r : Nat) : Int) - 1) / (c.scale : Int) = -1 :=
      neg_ediv_small c.scale hs _ (by omega) (by omega)
    rw [this]; decide
  · rw [if_neg h]
    have e : (c.y0 : Int) + c.height - ((8 * c.scale * r : Nat) : Int) - 1
        = ((c.y0 + c.height - 1 - 8 * c.scale * r : Nat) : Int) := by omega
    rw [e, ← Int.natCast_ediv]
    omega

theorem lineAt_head (c : Ctx) (hs : 0 < c.scale) (row : List Udg) (rest : List (List Udg)) (r yy : Nat)
    (h1 : 8 * c.scale * r ≤ yy) (h2 : yy < 8 * c.scale * (r + 1)) :
    lineAt c (row :: rest) r yy = lineOf c row (yy / c.scale - 8 * r) := by
  have hq : yy / (8 * c.scale) = r := by
    apply Nat.div_eq_of_lt_le
    · rw [Nat.mul_comm]; exact h1
    · rw [Nat.mul_comm]; exact h2
  have hq2 : yy / c.scale / 8 = r := by
    rw [Nat.div_div_eq_div_mul, Nat.mul_comm c.scale 8]; exact hq
  have := Nat.div_add_mod (yy / c.scale) 8
  unfold lineAt
  rw [hq, Nat.sub_self, List.getD_cons_zero]
  congr 1
  omega

theorem lineAt_tail (c : Ctx) (hs : 0 < c.scale) (row : List Udg) (rest : List (List Udg)) (r yy : Nat)
    (h1 : 8 * c.scale * (r + 1) ≤ yy) :
    lineAt c (row :: rest) r yy = lineAt c rest (r + 1) yy := by
  have hq : r + 1 ≤ yy / (8 * c.scale) := by
    rw [Nat.le_div_iff_mul_le (by omega), Nat.mul_comm]; exact h1
  unfold lineAt
  have : yy / (8 * c.scale) - r = (yy / (8 * c.scale) - (r + 1)) + 1 := by omega
  rw [this, List.getD_cons_succ]

theorem pos8 (s r K : Nat) : s * (8 * r + K) = 8 * s * r + s * K := by
  rw [Nat.mul_add, ← Nat.mul_assoc, Nat.mul_comm s 8]

/-- The loop over tile rows emits, for every output row `yy` it covers, the line of source row
`yy / scale` -- for any start state satisfying the loop invariant. -/
theorem anyRows_spec (c : Ctx) (hs : 0 < c.scale) (rows : List (List Udg)) (r K0 : Nat) (hK0 : K0 < 8)
    (hlo : c.y0 < c.scale * (8 * r + K0) + c.scale)
    (hcont : c.y0 + c.height ≤ 8 * c.scale * r ∨ c.scale * (8 * r + K0) < c.y0 + c.height)
    (hb : 8 * c.scale * (r + rows.length) ≤ c.y0 + c.height + 8 * c.scale)
    (rws : Int)
    (hrws : rws = min (((c.scale * (8 * r + K0) : Nat) : Int) + c.scale) ((c.y0 : Int) + c.height)
        - max ((c.scale * (8 * r + K0) : Nat) : Int) c.y0) :
    anyRows c rows (K0 : Int) ((k1Of c r : Nat) : Int) ((c.scale * (8 * r + K0) : Nat) : Int) rws
      = (List.range' (max c.y0 (c.scale * (8 * r + K0)))
          (min (c.y0 + c.height) (8 * c.scale * (r + rows.length)) - max c.y0 (c.scale * (8 * r + K0)))).map
          (lineAt c rows r) := by
  induction rows generalizing r K0 rws with
  | nil =>
    have h1 : 8 * c.scale * r ≤ c.scale * (8 * r + K0) := by rw [pos8]; omega
    simp only [List.length_nil, Nat.add_zero]
    have : min (c.y0 + c.height) (8 * c.scale * r) - max c.y0 (c.scale * (8 * r + K0)) = 0 :=
      Nat.sub_eq_zero_of_le (Nat.le_trans (Nat.min_le_right _ _) (Nat.le_trans h1 (Nat.le_max_right _ _)))
    rw [this]; simp [anyRows]
  | cons row rest ih =>
    have hpos := pos8 c.scale r K0
    by_cases hx : c.y0 + c.height ≤ 8 * c.scale * r
    · -- a tile row below the crop rectangle (y1 is a multiple of 8*scale): nothing is emitted
      have hk : k1Of c r = 0 := by simp [k1Of, hx]
      have hrest : rest = [] := by
        cases rest with
        | nil => rfl
        | cons a t =>
          exfalso
          simp only [List.length_cons] at hb
          have e : 8 * c.scale * (r + (t.length + 1 + 1)) = 8 * c.scale * r + 8 * c.scale * (t.length + 2) := by
            rw [Nat.mul_add]
          have : 8 * c.scale * 2 ≤ 8 * c.scale * (t.length + 2) := Nat.mul_le_mul_left _ (by omega)
          omega
      subst hrest
      have hempty : min (c.y0 + c.height) (8 * c.scale * (r + [row].length)) - max c.y0 (c.scale * (8 * r + K0)) = 0 := by
        apply Nat.sub_eq_zero_of_le
        have h1 := Nat.min_le_left (c.y0 + c.height) (8 * c.scale * (r + [row].length))
        have h2 := Nat.le_max_right c.y0 (c.scale * (8 * r + K0))
        omega
      rw [hempty, hk, anyRows]
      have hr0 : rws.toNat = 0 := by rw [hrws]; omega
      have hno : ¬ (((0 : Nat) : Int) > (K0 : Int) + 1) := by omega
      simp [repeatLine, hr0, hno, anyRows]
      intro h; exfalso; omega
    · -- a tile row with content
      have hx' : 8 * c.scale * r < c.y0 + c.height := by omega
      have hc0 : c.scale * (8 * r + K0) < c.y0 + c.height := by
        rcases hcont with h | h
        · omega
        · exact h
      obtain ⟨d1, d2, -⟩ := div_mod_facts (c.y0 + c.height - 1 - 8 * c.scale * r) c.scale hs
      have hk : k1Of c r = min 8 ((c.y0 + c.height - 1 - 8 * c.scale * r) / c.scale + 1) := by
        simp only [k1Of, hx, if_false]
      generalize (c.y0 + c.height - 1 - 8 * c.scale * r) / c.scale = D at d1 d2 hk
      have hK0D : K0 ≤ D := by
        have : c.scale * K0 < c.scale * (D + 1) := by
          rw [Nat.mul_succ, Nat.mul_comm c.scale D]; omega
        exact Nat.lt_succ_iff.mp (Nat.lt_of_mul_lt_mul_left this)
      generalize hK1 : k1Of c r = K1 at *
      have hK : K0 < K1 := by omega
      have hK8 : K1 ≤ 8 := by omega
      have hK1D : K1 - 1 ≤ D := by omega
      have hsK1 : c.scale * (K1 - 1) ≤ D * c.scale := by
        rw [Nat.mul_comm D]; exact Nat.mul_le_mul_left _ hK1D
      have hlast : c.scale * (8 * r + (K1 - 1)) < c.y0 + c.height := by rw [pos8]; omega
      have hend : K1 = 8 ∨ c.y0 + c.height ≤ c.scale * (8 * r + K1) := by
        by_cases h8 : K1 = 8
        · exact Or.inl h8
        · right
          have : K1 = D + 1 := by omega
          rw [pos8, this, Nat.mul_succ, Nat.mul_comm c.scale D]; omega
      have hlastEq : c.scale * (8 * r + K0) + (K1 - K0 - 1) * c.scale = c.scale * (8 * r + (K1 - 1)) := by
        have : 8 * r + (K1 - 1) = (8 * r + K0) + (K1 - K0 - 1) := by omega
        rw [this, Nat.mul_add c.scale (8 * r + K0), Nat.mul_comm c.scale (K1 - K0 - 1)]
      rw [anyRows_iter c row rest K0 K1 (c.scale * (8 * r + K0)) hK rws hrws, hlastEq,
        step_emit (lineOf c row) c.scale r K0 K1 c.y0 (c.y0 + c.height) hs hK hK8 hlo hlast hend]
      have hhi := Nat.min_le_right (c.y0 + c.height) (8 * c.scale * (r + 1))
      have hlo2 := Nat.le_max_right c.y0 (c.scale * (8 * r + K0))
      have hfirst : (List.range' (max c.y0 (c.scale * (8 * r + K0)))
            (min (c.y0 + c.height) (8 * c.scale * (r + 1)) - max c.y0 (c.scale * (8 * r + K0)))).map
            (fun yy => lineOf c row (yy / c.scale - 8 * r))
          = (List.range' (max c.y0 (c.scale * (8 * r + K0)))
            (min (c.y0 + c.height) (8 * c.scale * (r + 1)) - max c.y0 (c.scale * (8 * r + K0)))).map
            (lineAt c (row :: rest) r) := by
        apply List.map_congr_left
        intro yy hyy
        simp only [List.mem_range'_1] at hyy
        rw [lineAt_head c hs row rest r yy (by omega) (by omega)]
      rw [hfirst]
      by_cases h8 : K1 = 8
      · -- the tile row is covered to its last pixel row: continue with the next tile row
        subst h8
        have hr1 : 8 * c.scale * (r + 1) = 8 * c.scale * r + 8 * c.scale := by rw [Nat.mul_succ]
        have hK0s : K0 * c.scale ≤ 8 * c.scale := Nat.mul_le_mul_right _ (by omega)
        have hK0s1 : c.scale * K0 + c.scale ≤ 8 * c.scale := by
          have : c.scale * (K0 + 1) ≤ c.scale * 8 := Nat.mul_le_mul_left _ (by omega)
          rw [Nat.mul_succ] at this; omega
        have hnat2 : c.scale * (8 * (r + 1) + 0) = 8 * c.scale * (r + 1) := by rw [pos8]; omega
        have hnat : c.scale * (8 * r + K0) + (8 - K0) * c.scale = 8 * c.scale * (r + 1) := by
          rw [hpos, Nat.sub_mul, Nat.mul_comm K0 c.scale, hr1]; omega
        have hyI : (((c.scale * (8 * r + K0) : Nat) : Int)) + (((8 : Nat) : Int) - (K0 : Int)) * (c.scale : Int)
            = ((8 * c.scale * (r + 1) : Nat) : Int) := by
          have : (((8 : Nat) : Int) - (K0 : Int)) * (c.scale : Int) = (((8 - K0) * c.scale : Nat) : Int) := by
            rw [Int.natCast_mul, Int.natCast_sub (by omega)]
          rw [this, ← hnat]; simp
        have hD7 : 7 * c.scale ≤ D * c.scale := Nat.mul_le_mul_right _ (by omega)
        rw [hyI, k1_next c (r + 1) hs (by omega)]
        have ih' := ih (r + 1) 0 (by decide) (by rw [hnat2]; omega)
          (by rw [hnat2]; omega)
          (by simp only [List.length_cons] at hb; rw [show r + 1 + rest.length = r + (rest.length + 1) by omega]; exact hb)
          (min (c.scale : Int) ((c.y0 : Int) + c.height - ((8 * c.scale * (r + 1) : Nat) : Int)))
          (by rw [hnat2]; omega)
        rw [hnat2] at ih'
        simp only [Int.natCast_zero] at ih'
        rw [ih']
        have hlo' : max c.y0 (8 * c.scale * (r + 1)) = 8 * c.scale * (r + 1) := Nat.max_eq_right (by omega)
        rw [hlo']
        have hsecond : (List.range' (8 * c.scale * (r + 1))
              (min (c.y0 + c.height) (8 * c.scale * (r + 1 + rest.length)) - 8 * c.scale * (r + 1))).map
              (lineAt c rest (r + 1))
            = (List.range' (8 * c.scale * (r + 1))
              (min (c.y0 + c.height) (8 * c.scale * (r + 1 + rest.length)) - 8 * c.scale * (r + 1))).map
              (lineAt c (row :: rest) r) := by
          apply List.map_congr_left
          intro yy hyy
          simp only [List.mem_range'_1] at hyy
          rw [lineAt_tail c hs row rest r yy hyy.1]
        rw [hsecond, ← List.map_append]
        congr 1
        have hlen : r + (row :: rest).length = r + 1 + rest.length := by simp only [List.length_cons]; omega
        rw [hlen]
        have hmono : 8 * c.scale * (r + 1) ≤ 8 * c.scale * (r + 1 + rest.length) := Nat.mul_le_mul_left _ (by omega)
        have hloB : max c.y0 (c.scale * (8 * r + K0)) ≤ 8 * c.scale * (r + 1) := by
          apply Nat.max_le.mpr; constructor <;> omega
        by_cases hy : c.y0 + c.height ≤ 8 * c.scale * (r + 1)
        · have e1 : min (c.y0 + c.height) (8 * c.scale * (r + 1)) = c.y0 + c.height := Nat.min_eq_left hy
          have e2 : min (c.y0 + c.height) (8 * c.scale * (r + 1 + rest.length)) = c.y0 + c.height :=
            Nat.min_eq_left (by omega)
          rw [e1, e2, Nat.sub_eq_zero_of_le hy]
          simp
        · have e1 : min (c.y0 + c.height) (8 * c.scale * (r + 1)) = 8 * c.scale * (r + 1) :=
            Nat.min_eq_right (by omega)
          have hm1 := Nat.le_min.mpr ⟨(show 8 * c.scale * (r + 1) ≤ c.y0 + c.height by omega), hmono⟩
          rw [e1]
          generalize min (c.y0 + c.height) (8 * c.scale * (r + 1 + rest.length)) = hiT at *
          generalize max c.y0 (c.scale * (8 * r + K0)) = lo at *
          have : hiT - lo = (8 * c.scale * (r + 1) - lo) + (hiT - 8 * c.scale * (r + 1)) := by omega
          rw [this, range'_split]
          congr 2
          omega
      · -- the crop rectangle ends inside this tile row: it is the last one
        have hy1 : c.y0 + c.height ≤ c.scale * (8 * r + K1) := by
          rcases hend with h | h
          · exact absurd h h8
          · exact h
        have hK7 : c.scale * K1 ≤ c.scale * 7 := Nat.mul_le_mul_left _ (by omega)
        have hp := pos8 c.scale r K1
        have hr1 : 8 * c.scale * (r + 1) = 8 * c.scale * r + 8 * c.scale := by rw [Nat.mul_succ]
        have hrest : rest = [] := by
          cases rest with
          | nil => rfl
          | cons a t =>
            exfalso
            simp only [List.length_cons] at hb
            have e : 8 * c.scale * (r + (t.length + 1 + 1)) = 8 * c.scale * r + 8 * c.scale * (t.length + 2) := by
              rw [Nat.mul_add]
            have : 8 * c.scale * 2 ≤ 8 * c.scale * (t.length + 2) := Nat.mul_le_mul_left _ (by omega)
            omega
        subst hrest
        simp [anyRows]

end PngScan
