import SkoolVerif.Proofs.RzxSim
/-!
The range invariant of C08 (`RInv`) through the RZX end-of-frame code and the recorder, so that the
record → play theorem can be stated for every in-range initial state with no hypothesis about the run.
-/
namespace Rzx
open Z80 Sim TableRanges
variable {μ : Type} [MemLike μ] [CellMem μ]

theorem rinv_acceptInterrupt (cmio : Bool) (prevPc : Int) (s : St μ) (h : RInv s) :
    RInv (acceptInterrupt cmio prevPc s) := by
  unfold acceptInterrupt
  simp only []
  split
  · exact h
  · have hpc := h.pc
    have hsp : Word ((rget s.reg 12 - 2) % 65536) := ⟨by omega, by omega⟩
    have hregs1 := RegsOk_rset_sp h.regs _ hsp
    have hr15 : Byte (r1 (rget (rset s.reg 12 ((rget s.reg 12 - 2) % 65536)) 15)) := by
      rw [r1_eq]
      exact R1_byte _ (hregs1.byte 15 (by omega) (by omega) (by omega))
    have hregs2 := RegsOk_rset_byte hregs1 15 _ (by omega) (by omega) (by omega) (by omega) hr15
    have hlo : Byte (s.pc % 256) := ⟨by omega, by omega⟩
    have hhi : Byte (s.pc / 256) := ⟨by have := hpc.1; omega, by have := hpc.2; omega⟩
    have hm1 : MemOk (if (rget s.reg 12 - 2) % 65536 > 0x3FFF then mset s.mem ((rget s.reg 12 - 2) % 65536) (s.pc % 256) else s.mem) := by
      split
      · exact MemOk_mset h.mem _ _ hlo
      · exact h.mem
    have hm2 : MemOk (if ((rget s.reg 12 - 2) % 65536 + 1) % 65536 > 0x3FFF then
        mset (if (rget s.reg 12 - 2) % 65536 > 0x3FFF then mset s.mem ((rget s.reg 12 - 2) % 65536) (s.pc % 256) else s.mem)
          (((rget s.reg 12 - 2) % 65536 + 1) % 65536) (s.pc / 256)
        else (if (rget s.reg 12 - 2) % 65536 > 0x3FFF then mset s.mem ((rget s.reg 12 - 2) % 65536) (s.pc % 256) else s.mem)) := by
      split
      · exact MemOk_mset hm1 _ _ hhi
      · exact hm1
    have hia : Word (if s.im = 2 then mget s.mem (255 + 256 * rget s.reg 14) + 256 * mget s.mem ((255 + 256 * rget s.reg 14 + 1) % 65536) else 56) := by
      split
      · have a := h.mem.byte (255 + 256 * rget s.reg 14)
        have b := h.mem.byte ((255 + 256 * rget s.reg 14 + 1) % 65536)
        exact ⟨by have := a.1; have := b.1; omega, by have := a.2; have := b.2; omega⟩
      · exact ⟨by omega, by omega⟩
    refine ⟨hregs2, hm2, hia, ?_, Or.inl rfl, h.im, Or.inl rfl, ?_, h.ins⟩
    · show 0 ≤ s.t + (if s.im = 2 then (19 : Int) else 13)
      have := h.t; split <;> omega
    · show Word (if cmio = true then _ else _)
      by_cases hc : cmio = true
      · rw [if_pos hc]; exact hia
      · rw [if_neg hc]; exact h.memptr

theorem rinv_boundaryK (cmio : Bool) (flags : Int) (k : Last) (nextFc : Int) (s : St μ) (h : RInv s) :
    RInv (boundaryK cmio flags k nextFc s) := by
  have h0 : RInv ({ s with t := 0 } : St μ) := ⟨h.regs, h.mem, h.pc, Int.le_refl 0, h.iff, h.im, h.halt, h.memptr, h.ins⟩
  have hpc : RInv ({ s with t := 0, pc := (s.pc + 1) % 65536 } : St μ) :=
    ⟨h.regs, h.mem, (⟨by omega, by omega⟩ : Word ((s.pc + 1) % 65536)), Int.le_refl 0, h.iff, h.im, h.halt, h.memptr, h.ins⟩
  have hf : RInv ({ s with t := 0, reg := rset s.reg 1 (PyInt.land (rget s.reg 1) 251) } : St μ) := by
    have hb : Byte (PyInt.land (rget s.reg 1) 251) := by
      have := land_bounds (rget s.reg 1) 251 (by omega); exact ⟨this.1, by omega⟩
    exact ⟨RegsOk_rset_byte h.regs 1 _ (by omega) (by omega) (by omega) (by omega) hb, h.mem, h.pc, Int.le_refl 0, h.iff, h.im,
      h.halt, h.memptr, h.ins⟩
  unfold boundaryK
  simp only []
  repeat' split
  all_goals first
    | exact rinv_acceptInterrupt cmio 0 _ hpc
    | exact rinv_acceptInterrupt cmio 0 _ hf
    | exact rinv_acceptInterrupt cmio 0 _ h0
    | exact h0

theorem rinv_recFrame (cfg : Cfg) (m1 : St μ → Int) (n : Nat) (src : List Int) (s : St μ) (h : RInv s)
    (hsrc : ∀ v ∈ src, Byte v) : RInv (recFrame (step cfg) m1 n src s).2.1 := by
  unfold recFrame
  rw [recRun_eq]
  have := rinv_iter cfg n (s.withIns src) (rinv_withIns s src h hsrc)
  exact ⟨this.regs, this.mem, this.pc, this.t, this.iff, this.im, this.halt, this.memptr, by simp⟩

/-- The recording plan conditions that do not follow from the range invariant: frame lengths, byte-valued
port sources that outlast the frame, the last instruction of each frame reading back as itself, and the
announced next fetch counters being the ones produced. -/
def PlanOkR (cfg : Cfg) (cmio : Bool) (flags : Int) : List (Nat × List Int × Int) → St μ → Prop
  | [], _ => True
  | (n, src, claim) :: rest, s =>
    1 ≤ n ∧ n < src.length ∧ (∀ v ∈ src, Byte v) ∧
    classify (iter (step cfg) n (s.withIns src)).mem (iter (step cfg) (n - 1) (s.withIns src)).pc =
      classify (iter (step cfg) (n - 1) (s.withIns src)).mem (iter (step cfg) (n - 1) (s.withIns src)).pc ∧
    claim = peekFetch (-1) (recBlock cmio flags (step cfg) m1At rest
      (boundaryK cmio flags (recFrame (step cfg) m1At n src s).2.2 claim (recFrame (step cfg) m1At n src s).2.1)).1 ∧
    PlanOkR cfg cmio flags rest
      (boundaryK cmio flags (recFrame (step cfg) m1At n src s).2.2 claim (recFrame (step cfg) m1At n src s).2.1)

theorem planOk_of_rinv (cfg : Cfg) (cmio : Bool) (flags : Int) (plan : List (Nat × List Int × Int)) (s : St μ)
    (h : RInv s) (hp : PlanOkR cfg cmio flags plan s) : PlanOk (step cfg) cmio flags m1At plan s := by
  induction plan generalizing s with
  | nil => trivial
  | cons e rest ih =>
    obtain ⟨n, src, claim⟩ := e
    obtain ⟨hn, hlong, hsrc, hst, hcl, hrest⟩ := hp
    refine ⟨⟨hn, hlong, fun i _ => decOf_eq_m1At cfg _ (good_iter_of_rinv cfg _ (rinv_withIns s src h hsrc) i)⟩, hst, hcl, ?_⟩
    exact ih _ (rinv_boundaryK cmio flags _ _ _ (rinv_recFrame cfg m1At n src s h hsrc)) hrest

/-! ### The sparse memory of the examples is a lawful byte memory; the example machine is in range -/

theorem lookup_byte (l : List (Int × Int)) (h : ∀ p ∈ l, Byte p.2) (a : Int) (v : Int)
    (hv : SimProto.lookup l a = some v) : Byte v := by
  induction l with
  | nil => simp [SimProto.lookup] at hv
  | cons p rest ih =>
    obtain ⟨k, w⟩ := p
    simp only [SimProto.lookup] at hv
    split at hv
    · cases hv; exact h (k, v) (by simp)
    · exact ih (fun q hq => h q (by simp [hq])) hv

instance : CellMem SimProto.MemLog where
  ok m := (∀ p ∈ m.base, Byte p.2) ∧ (∀ p ∈ m.writes, Byte p.2)
  ok_get := by
    intro m a h
    simp only [MemLike.get]
    cases hw : SimProto.lookup m.writes a with
    | some v => exact lookup_byte _ h.2 a v hw
    | none =>
      simp only []
      cases hb : SimProto.lookup m.base a with
      | some v => exact lookup_byte _ h.1 a v hb
      | none => exact ⟨by decide, by decide⟩
  ok_set := by
    intro m a v h hv
    exact ⟨h.1, fun p hp => by
      simp only [MemLike.set, List.mem_cons] at hp
      rcases hp with rfl | hp
      · exact hv
      · exact h.2 p hp⟩
  ok_portOut := by
    intro m p v h
    simp only [MemLike.portOut]
    split <;> exact h

instance (v : Int) : Decidable (Byte v) := by unfold Byte; exact inferInstance
instance (v : Int) : Decidable (Word v) := by unfold Word; exact inferInstance

theorem Ex.s0_rinv : RInv Ex.s0 := by
  refine ⟨⟨by decide, by decide, by decide, ?_⟩, ?_, by decide, by decide, by decide, by decide, by decide, by decide, by simp [Ex.s0]⟩
  · intro i h0 h1 h2
    have hall : ∀ n : Nat, n < 24 → Byte (rget Ex.s0.reg (n : Int)) ∨ n = 12 := by decide
    rcases hall i.toNat (by omega) with hb | he
    · rwa [Int.toNat_of_nonneg h0] at hb
    · omega
  · exact ⟨by decide, by simp [Ex.s0, Ex.mem0]⟩

end Rzx
