import SkoolVerif.Proofs.C07Dis
/-!
The address-dependent part of the disassembler model: how many bytes the instruction object gets, and
which, for every memory and every address (64K boundary included).
-/
namespace InstrDec

/-- DEFB and relative-jump results come straight from the top-level decoder (no prefix adjustment) -/
def wfOp (so : SOut) : Bool :=
  match so.op with
  | .tmpl _ _ => true
  | .jr _ _ _ off => off == 0 && so.add == 0 && so.fixedLen.isNone
  | .defb off _ => off == 0 && so.add == 0 && so.fixedLen.isNone

/-- the relative jump at `a` has its target within 0..65535 (`jr_arg`) -/
def jrInRange (mem : Mem) (a : Nat) : Prop :=
  let o := mem ((a + 1) % 65536)
  (o < 128 ∧ a + 2 + o < 65536) ∨ (128 ≤ o ∧ 254 ≤ a + o ∧ a + o - 254 < 65536)

instance (mem : Mem) (a : Nat) : Decidable (jrInRange mem a) := by unfold jrInRange; infer_instance

/-- does the operation come out as a DEFB statement of the bytes up to 65536? -/
def isDefbAt (mem : Mem) (a : Nat) (so : SOut) : Bool :=
  match so.op with
  | .tmpl _ _ => false
  | .jr _ _ _ _ => !decide (jrInRange mem a)
  | .defb _ _ => true

theorem slice_length (mem : Mem) (lo hi : Nat) : (slice mem lo hi).length = min hi 65536 - lo := by
  simp [slice]

/-- the bytes `mem[a], mem[a+1], ...` read with wrap-around -/
def bytesAt (mem : Mem) (a n : Nat) : List Nat := (List.range n).map (fun i => mem ((a + i) % 65536))

theorem slice_eq_bytesAt (mem : Mem) (a n : Nat) (h : a + n ≤ 65536) : slice mem a (a + n) = bytesAt mem a n := by
  unfold slice bytesAt
  have : min (a + n) 65536 - a = n := by omega
  rw [this]
  apply List.map_congr_left
  intro i hi
  have : i < n := List.mem_range.1 hi
  rw [Nat.mod_eq_of_lt (by omega)]

theorem slice_wrap_eq_bytesAt (mem : Mem) (a n : Nat) (ha : a < 65536) (h : 65536 < a + n) (hn : n ≤ 65536) :
    slice mem a 65536 ++ slice mem 0 ((a + n) % 65536) = bytesAt mem a n := by
  have hmod : (a + n) % 65536 = a + n - 65536 := by omega
  apply List.ext_getElem
  · simp only [List.length_append, slice_length, bytesAt, List.length_map, List.length_range]; omega
  · intro i h1 h2
    have hi2 : i < n := by simpa [bytesAt] using h2
    simp only [bytesAt, List.getElem_map, List.getElem_range]
    by_cases hi : i < 65536 - a
    · rw [List.getElem_append_left (by simp [slice_length]; omega)]
      simp only [slice, List.getElem_map, List.getElem_range]
      rw [Nat.mod_eq_of_lt (by omega)]
    · rw [List.getElem_append_right (by simp [slice_length]; omega)]
      simp only [slice, List.getElem_map, List.getElem_range, List.length_map, List.length_range, Nat.min_self]
      congr 1
      omega

/-- without `wrap` the instruction object holds `min nominal (65536 - a)` bytes -/
theorem finish_len_nowrap (T : DTables) (c : DCfg) (mem : Mem) (a : Nat) (so : SOut) (hw : c.wrap = false)
    (hwf : wfOp so = true) (ha : a < 65536) :
    (finish T c mem a so).bytes.length = min so.nominal (65536 - a) := by
  obtain ⟨op, add, fixed, flags⟩ := so
  cases op with
  | tmpl ps len =>
    simp only [finish, evalOp, SOut.nominal, hw]
    cases fixed <;> simp only <;> split <;> simp [slice_length] <;> omega
  | defb off n =>
    simp only [wfOp, Bool.and_eq_true, beq_iff_eq, Option.isNone_iff_eq_none] at hwf
    obtain ⟨⟨rfl, rfl⟩, rfl⟩ := hwf
    simp only [finish, evalOp, SOut.nominal, hw, slice_length, Nat.add_zero]
    split <;> simp [slice_length] <;> omega
  | jr pre post hole off =>
    simp only [wfOp, Bool.and_eq_true, beq_iff_eq, Option.isNone_iff_eq_none] at hwf
    obtain ⟨⟨rfl, rfl⟩, rfl⟩ := hwf
    simp only [finish, evalOp, SOut.nominal, hw, Nat.add_zero]
    by_cases hr : (mem ((a + 1) % 65536) < 128 ∧ a + 2 + mem ((a + 1) % 65536) < 65536) ∨
        (128 ≤ mem ((a + 1) % 65536) ∧ 254 ≤ a + mem ((a + 1) % 65536) ∧ a + mem ((a + 1) % 65536) - 254 < 65536)
    · simp only [hr, if_true]
      split <;> simp [slice_length] <;> omega
    · simp only [hr, if_false, slice_length]
      split <;> simp [slice_length] <;> omega

/-- with `wrap` an instruction keeps all its bytes; a DEFB statement is still cut at 65536 -/
theorem finish_len_wrap (T : DTables) (c : DCfg) (mem : Mem) (a : Nat) (so : SOut) (hw : c.wrap = true)
    (hwf : wfOp so = true) (ha : a < 65536) (hn : so.nominal ≤ 65536) :
    (finish T c mem a so).bytes.length =
      if isDefbAt mem a so then min so.nominal (65536 - a) else so.nominal := by
  obtain ⟨op, add, fixed, flags⟩ := so
  cases op with
  | tmpl ps len =>
    simp only [SOut.nominal] at hn
    simp only [finish, evalOp, SOut.nominal, hw, isDefbAt]
    cases fixed <;> simp only at hn ⊢ <;> split <;> simp [slice_length] <;> omega
  | defb off n =>
    simp only [wfOp, Bool.and_eq_true, beq_iff_eq, Option.isNone_iff_eq_none] at hwf
    obtain ⟨⟨rfl, rfl⟩, rfl⟩ := hwf
    simp only [finish, evalOp, SOut.nominal, hw, slice_length, Nat.add_zero, isDefbAt]
    split <;> simp [slice_length] <;> omega
  | jr pre post hole off =>
    simp only [wfOp, Bool.and_eq_true, beq_iff_eq, Option.isNone_iff_eq_none] at hwf
    obtain ⟨⟨rfl, rfl⟩, rfl⟩ := hwf
    simp only [finish, evalOp, SOut.nominal, hw, Nat.add_zero, isDefbAt, jrInRange]
    by_cases hr : (mem ((a + 1) % 65536) < 128 ∧ a + 2 + mem ((a + 1) % 65536) < 65536) ∨
        (128 ≤ mem ((a + 1) % 65536) ∧ 254 ≤ a + mem ((a + 1) % 65536) ∧ a + mem ((a + 1) % 65536) - 254 < 65536)
    · simp only [hr, if_true, decide_true, Bool.not_true, Bool.false_eq_true, if_false]
      split <;> simp [slice_length] <;> omega
    · simp only [hr, if_false, slice_length, decide_false, Bool.not_false, if_true]
      split <;> simp [slice_length] <;> omega

end InstrDec
