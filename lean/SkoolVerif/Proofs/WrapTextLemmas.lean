import SkoolVerif.Proofs.WrapLemmas
/-! Text-level word preservation: re-splitting the wrapped lines gives back the
words of the text (`(wrap t w).flatMap tokens = tokens t`). -/
namespace Wrap

/-- The words of a text: the non-blank chunks of its munged form. -/
def tokens (t : Str) : List Chunk := wordsOf (split (munge t))

/-- A non-empty run of characters of one class (`k` = separator). -/
def Homog (c : Chunk) (k : Bool) : Prop := c ≠ [] ∧ ∀ x ∈ c, twSpace x = k

/-- Chunks alternate between the two classes, starting with class `k`. -/
def Alt : Bool → List Chunk → Prop
  | _, [] => True
  | k, c :: r => Homog c k ∧ Alt (!k) r

theorem alt_append_right {k : Bool} {a b : List Chunk} (h : Alt k (a ++ b)) : ∃ k', Alt k' b := by
  induction a generalizing k with
  | nil => exact ⟨k, h⟩
  | cons c a ih => exact ih h.2

theorem alt_append_left {k : Bool} {a b : List Chunk} (h : Alt k (a ++ b)) : Alt k a := by
  induction a generalizing k with
  | nil => trivial
  | cons c a ih => exact ⟨h.1, ih h.2⟩

/-- absorbing a run of same-class characters into the current chunk -/
theorem splitAux_run (ch : Str) : ∀ (s : Str) (k : Bool) (cur : Str), cur ≠ [] →
    (∀ x ∈ ch, twSpace x = k) → splitAux (ch ++ s) k cur = splitAux s k (ch.reverse ++ cur) := by
  induction ch with
  | nil => intro s k cur _ _; rfl
  | cons x ch ih =>
    intro s k cur hcur hall
    have hx : twSpace x = k := hall x List.mem_cons_self
    simp only [List.cons_append, splitAux, hcur, if_false, hx, if_true]
    rw [ih s k (x :: cur) (by simp) (fun y hy => hall y (List.mem_cons_of_mem _ hy))]
    simp

theorem splitAux_alt (L : List Chunk) : ∀ (k : Bool) (cur : Str), cur ≠ [] → Alt (!k) L →
    splitAux L.flatten k cur = cur.reverse :: L := by
  induction L with
  | nil => intro k cur hcur _; simp [splitAux, hcur]
  | cons ch L ih =>
    intro k cur hcur halt
    obtain ⟨⟨hne, hall⟩, hrest⟩ := halt
    cases ch with
    | nil => exact absurd rfl hne
    | cons x ch' =>
      have hx : twSpace x = !k := hall x List.mem_cons_self
      have hxk : ¬ twSpace x = k := by rw [hx]; cases k <;> simp
      simp only [List.flatten_cons, List.cons_append, splitAux, hcur, if_false, hxk]
      rw [hx, splitAux_run ch' L.flatten (!k) [x] (by simp)
        (fun y hy => hall y (List.mem_cons_of_mem _ hy))]
      rw [ih (!k) (ch'.reverse ++ [x]) (by simp) hrest]
      simp

/-- Re-splitting the concatenation of alternating chunks returns the chunks. -/
theorem split_flatten_alt (k : Bool) (L : List Chunk) (h : Alt k L) : split L.flatten = L := by
  cases L with
  | nil => rfl
  | cons ch L =>
    obtain ⟨⟨hne, hall⟩, hrest⟩ := h
    cases ch with
    | nil => exact absurd rfl hne
    | cons x ch' =>
      have hx : twSpace x = k := hall x List.mem_cons_self
      simp only [split, List.flatten_cons, List.cons_append, splitAux, if_true]
      rw [hx, splitAux_run ch' L.flatten k [x] (by simp)
        (fun y hy => hall y (List.mem_cons_of_mem _ hy))]
      rw [splitAux_alt L k (ch'.reverse ++ [x]) (by simp) hrest]
      simp

/-- `splitAux` produces alternating chunks; the first one continues `cur`. -/
theorem splitAux_is_alt (s : Str) : ∀ (k : Bool) (cur : Str), cur ≠ [] → (∀ x ∈ cur, twSpace x = k) →
    Alt k (splitAux s k cur) := by
  induction s with
  | nil =>
    intro k cur hcur hall
    simp only [splitAux, hcur, if_false]
    exact ⟨⟨by simpa using hcur, fun x hx => hall x (by simpa using hx)⟩, trivial⟩
  | cons c cs ih =>
    intro k cur hcur hall
    simp only [splitAux, hcur, if_false]
    split
    · rename_i hsame
      apply ih k (c :: cur) (by simp)
      intro x hx
      simp only [List.mem_cons] at hx
      rcases hx with rfl | hx
      · exact hsame
      · exact hall x hx
    · rename_i hdiff
      refine ⟨⟨by simpa using hcur, fun x hx => hall x (by simpa using hx)⟩, ?_⟩
      have : twSpace c = !k := by cases k <;> cases h : twSpace c <;> simp_all
      rw [this]
      exact ih (!k) [c] (by simp) (by simpa using this)

theorem split_is_alt (s : Str) : ∃ k, Alt k (split s) := by
  cases s with
  | nil => exact ⟨false, trivial⟩
  | cons c cs =>
    refine ⟨twSpace c, ?_⟩
    simp only [split, splitAux, if_true]
    exact splitAux_is_alt cs (twSpace c) [c] (by simp) (by simp)

/-- Munged text contains no tab and no separator other than the space. -/
def Munged (s : Str) : Prop := ∀ x ∈ s, x ≠ 9 ∧ (twSpace x = true → x = 32)

theorem munge_munged (t : Str) : Munged (munge t) := by
  intro x hx
  simp only [munge, List.mem_map] at hx
  obtain ⟨y, _, rfl⟩ := hx
  split
  · exact ⟨by decide, fun _ => rfl⟩
  · rename_i hn
    refine ⟨?_, fun h => absurd h hn⟩
    intro h9; subst h9; simp [twSpace] at hn

theorem expandTabs_notab (s : Str) (h : ∀ x ∈ s, x ≠ 9) : ∀ col, expandTabs col s = s := by
  induction s with
  | nil => intro col; rfl
  | cons c cs ih =>
    intro col
    have hc : c ≠ 9 := h c List.mem_cons_self
    have ih' := ih (fun x hx => h x (List.mem_cons_of_mem _ hx))
    simp only [expandTabs, hc, if_false]
    split <;> rw [ih']

theorem munge_of_munged (s : Str) (h : Munged s) : munge s = s := by
  unfold munge
  rw [expandTabs_notab s (fun x hx => (h x hx).1) 0]
  have : ∀ (l : Str), (∀ x ∈ l, twSpace x = true → x = 32) →
      l.map (fun c => if twSpace c then 32 else c) = l := by
    intro l
    induction l with
    | nil => intro _; rfl
    | cons c cs ih =>
      intro hl
      simp only [List.map_cons]
      rw [ih (fun x hx => hl x (List.mem_cons_of_mem _ hx))]
      by_cases hc : twSpace c = true
      · simp [hl c List.mem_cons_self hc]
      · simp [hc]
  exact this s (fun x hx => (h x hx).2)

/-- Every line of a wrap is a contiguous piece of the chunk list. -/
theorem wrapped_infix {w : Nat} {s : Bool} {chunks : List Chunk} {lines : List (List Chunk)}
    (h : Wrapped w s chunks lines) : ∀ l ∈ lines, ∃ a b, chunks = a ++ l ++ b := by
  induction h with
  | nil => simp
  | skip s chunks rest lines hs _ ih =>
    obtain ⟨a, b, he, _⟩ := hs
    intro l hl
    obtain ⟨a', b', h'⟩ := ih l hl
    exact ⟨a ++ [] ++ b ++ a', b', by rw [he, h']; simp⟩
  | line s chunks line rest lines _ hs _ ih =>
    obtain ⟨a, b, he, _⟩ := hs
    intro l hl
    simp only [List.mem_cons] at hl
    rcases hl with rfl | hl
    · exact ⟨a, b ++ rest, by rw [he]; simp⟩
    · obtain ⟨a', b', h'⟩ := ih l hl
      exact ⟨a ++ line ++ b ++ a', b', by rw [he, h']; simp⟩

/-- Re-splitting a line of the wrapped text yields the line's chunks. -/
theorem tokens_line (t : Str) (l a b : List Chunk) (h : split (munge t) = a ++ l ++ b) :
    tokens l.flatten = wordsOf l := by
  obtain ⟨k, halt⟩ := split_is_alt (munge t)
  rw [h] at halt
  obtain ⟨k', halt'⟩ := alt_append_right (alt_append_left halt)
  have hm : Munged l.flatten := by
    intro x hx
    apply munge_munged t x
    rw [← split_flatten (munge t), h]
    simp only [List.flatten_append, List.mem_append]
    exact Or.inl (Or.inr hx)
  unfold tokens
  rw [munge_of_munged _ hm, split_flatten_alt k' l halt']

theorem wrapText_tokens (t : Str) (w : Int) (ls : List Str) (h : wrapText t w = .ok ls) :
    ls.flatMap tokens = tokens t := by
  unfold wrapText at h
  split at h
  · simp at h
  · simp only [Except.ok.injEq] at h
    subst h
    have hW := loop_wrapped w.toNat ((split (munge t)).length + 1) false (split (munge t)) (Nat.le_succ _)
    have hinf := wrapped_infix hW
    have hwords := wrapped_words hW
    have : ∀ (lines : List (List Chunk)), (∀ l ∈ lines, ∃ a b, split (munge t) = a ++ l ++ b) →
        (lines.map List.flatten).flatMap tokens = wordsOf lines.flatten := by
      intro lines
      induction lines with
      | nil => intro _; rfl
      | cons l lines ih =>
        intro hl
        obtain ⟨a, b, hab⟩ := hl l List.mem_cons_self
        simp only [List.map_cons, List.flatMap_cons, List.flatten_cons, wordsOf_append]
        rw [tokens_line t l a b hab, ih (fun l' hl' => hl l' (List.mem_cons_of_mem _ hl'))]
    rw [wrapChunks, this _ hinf, hwords]
    rfl

end Wrap
