import SkoolVerif.Proofs.Sem16Lemmas
/-!
Per-closure refinement, family 6: 16-bit arithmetic `add_rr` (ADD HL/IX/IY,rr), `adc_hl`, `sbc_hl`.
-/
namespace C05
open Z80 Sim Spec Z80Isa Z80Spec TableRanges AluCheck
variable {μ : Type} [MemLike μ] [CellMem μ]

/-- the value of a register pair argument is a 16-bit word -/
theorem pair_word (r : Array Int) (hr : RegsOk r) (rh rl : Int) (rp : Reg16) (h : pairOf rh rl = some rp) :
    Word (rget r rl + 256 * rget r rh) := by
  have h13 := hr.sp2
  have hw := hr.word
  have hb : ∀ i : Int, 0 ≤ i → i < 12 → 0 ≤ rget r i ∧ rget r i < 256 := by
    intro i h0 h1; exact hr.byte i h0 (by omega) (by omega)
  unfold Word at *
  rcases pairOf_inv _ _ _ h with ⟨-, rfl, rfl⟩ | ⟨-, rfl, rfl⟩ | ⟨-, rfl, rfl⟩ | ⟨-, rfl, rfl⟩ | ⟨-, rfl, rfl⟩ |
    ⟨-, rfl, rfl⟩ | ⟨-, rfl, rfl⟩
  · have a := hb 2 (by omega) (by omega); have b := hb 3 (by omega) (by omega); omega
  · have a := hb 4 (by omega) (by omega); have b := hb 5 (by omega) (by omega); omega
  · have a := hb 6 (by omega) (by omega); have b := hb 7 (by omega) (by omega); omega
  · rw [h13]; omega
  · have a := hb 8 (by omega) (by omega); have b := hb 9 (by omega) (by omega); omega
  · have a := hb 10 (by omega) (by omega); have b := hb 11 (by omega) (by omega); omega
  · have a := hb 0 (by omega) (by omega); have b := hb 1 (by omega) (by omega); omega

/-- the specification's view of a register-pair argument, read after the R update -/
theorem r16_of_pair (s : St μ) (v : Int) (hr : RegsOk s.reg) (rh rl : Int) (rp : Reg16) (h : pairOf rh rl = some rp) :
    Spec.r16 (Spec.setR8 s .R v) rp = rget s.reg rl + 256 * rget s.reg rh := by
  have h13 := hr.sp2
  have hs : s.reg.size = 24 := hr.1
  pair_cases h <;> (spec_simp []; idx_simp; rsimp hs)
  rw [h13]; omega

theorem sem_adc_hl (cfg : Cfg) (rh rl : Int) (d : Decoded)
    (hz : zinstrOf (.adc_hl rh rl) = some d) (s : St μ) (hi : RInv s) :
    Sim.adc_hl cfg rh rl s = Spec.exec cfg d s := by
  zinv hz
  obtain ⟨rp, hrp, rfl⟩ := hz
  rinv_setup hi
  have hH := hr.byte 6 (by omega) (by omega) (by omega)
  have hL := hr.byte 7 (by omega) (by omega) (by omega)
  have hrr := pair_word _ hr rh rl rp hrp
  obtain ⟨e1, e2⟩ := adc16_spec (rget s.reg 1 % 2) (rget s.reg 6) (rget s.reg 7) _ (mod2_range _) hH hL hrr
  have hx0 : 0 ≤ rget s.reg 7 + 256 * rget s.reg 6 + (rget s.reg rl + 256 * rget s.reg rh) + rget s.reg 1 % 2 := by
    unfold Byte at hH hL; unfold Word at hrr; omega
  simp only [sim_handler, Id.run, pure]
  simp only [Spec.exec]
  rw [r16_of_pair s _ hr rh rl rp hrp]
  generalize hrrv : rget s.reg rl + 256 * rget s.reg rh = rr at *
  spec_simp []; idx_simp; rsimp hs
  rw [e1, e2]
  split
  · split <;> split <;> (rsimp hs; rw [hR2]; st_regs hs)
  · rename_i hnc
    rw [Int.emod_eq_of_lt (b := 65536) hx0 (by omega)]
    split <;> split <;> (rsimp hs; rw [hR2]; st_regs hs)

theorem sem_sbc_hl (cfg : Cfg) (rh rl : Int) (d : Decoded)
    (hz : zinstrOf (.sbc_hl rh rl) = some d) (s : St μ) (hi : RInv s) :
    Sim.sbc_hl cfg rh rl s = Spec.exec cfg d s := by
  zinv hz
  obtain ⟨rp, hrp, rfl⟩ := hz
  rinv_setup hi
  have hH := hr.byte 6 (by omega) (by omega) (by omega)
  have hL := hr.byte 7 (by omega) (by omega) (by omega)
  have hrr := pair_word _ hr rh rl rp hrp
  obtain ⟨e1, e2⟩ := sbc16_spec (rget s.reg 1 % 2) (rget s.reg 6) (rget s.reg 7) _ (mod2_range _) hH hL hrr
  simp only [sim_handler, Id.run, pure]
  simp only [Spec.exec]
  rw [r16_of_pair s _ hr rh rl rp hrp]
  generalize hrrv : rget s.reg rl + 256 * rget s.reg rh = rr at *
  spec_simp []; idx_simp; rsimp hs
  rw [e1, e2]
  split <;> split <;> split <;> (rsimp hs; rw [hR2]; st_regs hs)

theorem sem_add_rr (cfg : Cfg) (r_inc : TblI1) (timing size ah al rh rl : Int) (d : Decoded)
    (hz : zinstrOf (.add_rr r_inc timing size ah al rh rl) = some d) (s : St μ) (hi : RInv s) :
    Sim.add_rr cfg r_inc timing size ah al rh rl s = Spec.exec cfg d s := by
  zinv hz
  obtain ⟨m, hm, dst, hdst, src, hsrc, hz⟩ := hz
  zif hz
  rename_i hok
  subst hz
  rinv_setup hi
  have hR := rinc_spec r_inc m _ hm hb15
  have hF := hr.byte 1 (by omega) (by omega) (by omega)
  have hrr := pair_word _ hr rh rl src hsrc
  have hdd := pair_word _ hr ah al dst hdst
  obtain ⟨e1, e2⟩ := add16_spec (rget s.reg 1) _ _ hF hdd hrr
  have hx0 : 0 ≤ rget s.reg al + 256 * rget s.reg ah + (rget s.reg rl + 256 * rget s.reg rh) := by
    unfold Word at hdd hrr; omega
  simp only [sim_handler, Id.run, pure]
  simp only [Spec.exec]
  rw [r16_of_pair s _ hr rh rl src hsrc, r16_of_pair s _ hr ah al dst hdst]
  generalize hrrv : rget s.reg rl + 256 * rget s.reg rh = rr at *
  pair_cases hdst <;> first
    | (exfalso; simp only [reduceCtorEq, or_self] at hok; done)
    | (spec_simp []; idx_simp; rsimp hs
       rw [e1, e2]
       split
       · split <;> (rsimp hs; rw [hR]; st_regs hs)
       · rename_i hnc
         rw [Int.emod_eq_of_lt (b := 65536) hx0 (by omega)]
         split <;> (rsimp hs; rw [hR]; st_regs hs))

end C05
