import SkoolVerif.Gen.CmioHandlers
/-! Kernel-checked well-formedness of every dispatch-table entry of the generated contention-aware simulator. -/
namespace Cmio

/-- Every entry of the seven dispatch tables has well-formed arguments (kernel-checked). -/
theorem wf_MAIN : (tbl_MAIN.all instrWf && tbl_MAIN.size == 256) = true := by decide +kernel
theorem wf_CB : (tbl_CB.all instrWf && tbl_CB.size == 256) = true := by decide +kernel
theorem wf_ED : (tbl_ED.all instrWf && tbl_ED.size == 256) = true := by decide +kernel
theorem wf_DD : (tbl_DD.all instrWf && tbl_DD.size == 256) = true := by decide +kernel
theorem wf_FD : (tbl_FD.all instrWf && tbl_FD.size == 256) = true := by decide +kernel
theorem wf_DDCB : (tbl_DDCB.all instrWf && tbl_DDCB.size == 256) = true := by decide +kernel
theorem wf_FDCB : (tbl_FDCB.all instrWf && tbl_FDCB.size == 256) = true := by decide +kernel

theorem all_getD {α : Type} (a : Array α) (p : α → Bool) (h : a.all p = true) (d : α) (hd : p d = true)
    (i : Nat) : p (a.getD i d) = true := by
  rw [Array.all_eq_true] at h
  unfold Array.getD
  split
  · rename_i hi; exact h i hi
  · exact hd

theorem arr_wf (t : OpTbl) : t.arr.all instrWf = true := by
  cases t
  · exact (Bool.and_eq_true _ _ ▸ wf_MAIN).1
  · exact (Bool.and_eq_true _ _ ▸ wf_CB).1
  · exact (Bool.and_eq_true _ _ ▸ wf_ED).1
  · exact (Bool.and_eq_true _ _ ▸ wf_DD).1
  · exact (Bool.and_eq_true _ _ ▸ wf_FD).1
  · exact (Bool.and_eq_true _ _ ▸ wf_DDCB).1
  · exact (Bool.and_eq_true _ _ ▸ wf_FDCB).1

theorem get_wf (t : OpTbl) (i : Int) : instrWf (t.get i) = true :=
  all_getD _ _ (arr_wf t) _ rfl _

end Cmio
