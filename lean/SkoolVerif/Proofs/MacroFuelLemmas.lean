import SkoolVerif.Model.MacroExpand
/-! Helper lemmas for C17: the fuel of the expansion model is only a
recursion bound — once an expansion succeeds, more fuel gives the same result. -/
namespace MacroFuelLemmas
open MacroText MacroExpr MacroArgs MacroOps MacroExpand

/-- `y` succeeds wherever `x` does, with the same result. -/
def Le {α : Type} (x y : M α) : Prop := ∀ r, x = .ok r → y = .ok r

/-- `e'` succeeds wherever `e` does, with the same result. -/
def ExpLe (e e' : Exp) : Prop := ∀ s t, Le (e s t) (e' s t)

theorem Le.refl {α : Type} (x : M α) : Le x x := fun _ h => h

theorem Le.bind {α β : Type} {x y : M α} {f g : α → M β} (hx : Le x y) (hf : ∀ a, Le (f a) (g a)) :
    Le (x >>= f) (y >>= g) := by
  intro r h
  cases x with
  | error e => cases h
  | ok a =>
    rw [hx a rfl]
    exact hf a r h

theorem Le.ite {α : Type} {c : Prop} [Decidable c] {a a' b b' : M α} (h1 : Le a a') (h2 : Le b b') :
    Le (if c then a else b) (if c then a' else b') := by
  by_cases h : c <;> simp [h, h1, h2]

theorem parseInts_le {e e' : Exp} (h : ExpLe e e') (st : St) (rest : Text) (num : Nat) (d : List (Option Int)) :
    Le (parseInts e getF st rest num d) (parseInts e' getF st rest num d) := by
  unfold parseInts
  split
  · split
    · exact Le.refl _
    · exact Le.bind (h _ _) (fun a => Le.refl _)
  · exact Le.refl _

theorem writerExpand_le {e e' : Exp} (h : ExpLe e e') : ExpLe (writerExpand e) (writerExpand e') := by
  intro s t
  unfold writerExpand
  exact Le.bind (h _ _) (fun a => Le.refl _)

/-- Handlers that can only gain from a better expander and more fuel. -/
def Mono (h : Handler) : Prop :=
  ∀ (e e' : Exp) (n m : Nat) (st : St) (rest : Text), ExpLe e e' → n ≤ m → Le (h e n st rest) (h e' m st rest)

theorem macroEval_le : Mono (fun e _ st rest => macroEval e st rest) := by
  intro e e' n m st rest he _
  show Le (macroEval e st rest) (macroEval e' st rest)
  unfold macroEval
  exact Le.bind (parseInts_le he _ _ _ _) (fun a => Le.refl _)

theorem macroN_le : Mono (fun e _ st rest => macroN e st rest) := by
  intro e e' n m st rest he _
  show Le (macroN e st rest) (macroN e' st rest)
  unfold macroN
  exact Le.bind (parseInts_le he _ _ _ _) (fun a => Le.refl _)

theorem macroFor_le : Mono (fun e _ st rest => macroFor e st rest) := by
  intro e e' n m st rest he _
  show Le (macroFor e st rest) (macroFor e' st rest)
  unfold macroFor
  exact Le.bind (parseInts_le he _ _ _ _) (fun a => Le.refl _)

theorem macroPeek_le : Mono (fun e _ st rest => macroPeek e st rest) := by
  intro e e' n m st rest he _
  show Le (macroPeek e st rest) (macroPeek e' st rest)
  unfold macroPeek
  exact Le.bind (parseInts_le he _ _ _ _) (fun a => Le.refl _)

theorem macroChr_le : Mono (fun e _ st rest => macroChr e st rest) := by
  intro e e' n m st rest he _
  show Le (macroChr e st rest) (macroChr e' st rest)
  unfold macroChr
  exact Le.bind (parseInts_le he _ _ _ _) (fun a => Le.refl _)

theorem macroSpace_le : Mono (fun e _ st rest => macroSpace e st rest) := by
  intro e e' n m st rest he _
  show Le (macroSpace e st rest) (macroSpace e' st rest)
  unfold macroSpace
  exact Le.bind (parseInts_le he _ _ _ _) (fun a => Le.refl _)

theorem macroStr_le : Mono (fun e _ st rest => macroStr e st rest) := by
  intro e e' n m st rest he _
  show Le (macroStr e st rest) (macroStr e' st rest)
  unfold macroStr
  exact Le.bind (parseInts_le he _ _ _ _) (fun a => Le.refl _)

theorem macroIf_le : Mono (fun e _ st rest => macroIf e st rest) := by
  intro e e' n m st rest he _
  show Le (macroIf e st rest) (macroIf e' st rest)
  intro r hr
  unfold macroIf at hr ⊢
  cases hp : parseInts e getF st rest 1 [] with
  | error x => rw [hp] at hr; cases x <;> simp at hr
  | ok p => rw [hp] at hr; rw [parseInts_le he st rest 1 [] p hp]; exact hr

theorem macroMap_le : Mono (fun e _ st rest => macroMap e st rest) := by
  intro e e' n m st rest he _
  show Le (macroMap e st rest) (macroMap e' st rest)
  intro r hr
  unfold macroMap at hr ⊢
  cases hp : parseInts e getF st rest 1 [] with
  | error x => rw [hp] at hr; cases x <;> simp at hr
  | ok p => rw [hp] at hr; rw [parseInts_le he st rest 1 [] p hp]; exact hr

theorem const_le (f : St → Text → MacroRes) : Mono (fun _ _ st rest => f st rest) := by
  intro e e' n m st rest _ _; exact Le.refl _

theorem macroForeach_le : Mono (fun e _ st rest => macroForeach e st rest) := by
  intro e e' n m st rest _ _
  show Le (macroForeach e st rest) (macroForeach e' st rest)
  unfold macroForeach
  exact Le.refl _

theorem macroLet_le : Mono (fun e _ st rest => macroLet e st rest) := by
  intro e e' n m st rest he _
  show Le (macroLet e st rest) (macroLet e' st rest)
  unfold macroLet
  apply Le.bind (Le.refl _)
  intro p
  obtain ⟨stmt, r⟩ := p
  dsimp only
  apply Le.ite _ (Le.refl _)
  apply Le.ite (Le.refl _)
  exact Le.bind (he _ _) (fun a => Le.refl _)

theorem macroFormat_le : Mono (fun e _ st rest => macroFormat e st rest) := by
  intro e e' n m st rest he _
  show Le (macroFormat e st rest) (macroFormat e' st rest)
  unfold macroFormat
  apply Le.bind _ (fun a => Le.refl _)
  split
  · split
    · exact Le.refl _
    · exact Le.bind (he _ _) (fun a => Le.refl _)
  · exact Le.bind (parseInts_le he _ _ _ _) (fun a => Le.refl _)

theorem macroPokes_le : Mono (fun e fuel st rest => macroPokes e fuel st rest) := by
  intro e e' n
  induction n with
  | zero => intro m st rest _ _ r hr; simp [macroPokes] at hr
  | succ n ih =>
    intro m st rest he hnm
    obtain ⟨m', rfl⟩ : ∃ m', m = m' + 1 := ⟨m - 1, by omega⟩
    show Le (macroPokes e (n + 1) st rest) (macroPokes e' (m' + 1) st rest)
    unfold macroPokes
    apply Le.bind (parseInts_le he _ _ _ _)
    intro a
    obtain ⟨st1, vals, r⟩ := a
    dsimp only
    split
    · apply Le.ite (Le.refl _)
      split
      · exact ih m' _ _ he (by omega)
      · exact Le.refl _
    · exact Le.refl _

theorem whileLoop_le {e e' : Exp} (he : ExpLe e e') (expr body : Text) : ∀ (n m : Nat) (st : St) (out : Text),
    n ≤ m → Le (whileLoop e expr body n st out) (whileLoop e' expr body m st out) := by
  intro n
  induction n with
  | zero => intro m st out _ r hr; simp [whileLoop] at hr
  | succ n ih =>
    intro m st out hnm
    obtain ⟨m', rfl⟩ : ∃ m', m = m' + 1 := ⟨m - 1, by omega⟩
    unfold whileLoop
    apply Le.bind (he _ _)
    intro a
    obtain ⟨st1, params⟩ := a
    dsimp only
    apply Le.bind (Le.refl _)
    intro params'
    apply Le.bind (Le.refl _)
    intro vals
    split
    · apply Le.ite (Le.refl _)
      apply Le.bind (he _ _)
      intro b
      obtain ⟨st2, bt⟩ := b
      exact ih m' _ _ (by omega)
    · exact Le.refl _

theorem macroWhile_le : Mono (fun e fuel st rest => macroWhile e fuel st rest) := by
  intro e e' n m st rest he hnm
  show Le (macroWhile e n st rest) (macroWhile e' m st rest)
  unfold macroWhile
  apply Le.bind (Le.refl _)
  intro a
  obtain ⟨eo, r⟩ := a
  dsimp only
  split
  · exact Le.refl _
  · exact Le.refl _
  · apply Le.bind (Le.refl _)
    intro b
    obtain ⟨body, r'⟩ := b
    dsimp only
    exact Le.bind (whileLoop_le he _ _ n m st [] hnm) (fun a => Le.refl _)

theorem table_mono : ∀ p ∈ macroTable, Mono p.2 := by
  intro p hp
  simp only [macroTable, List.mem_cons, List.not_mem_nil, or_false] at hp
  rcases hp with rfl | rfl | rfl | rfl | rfl | rfl | rfl | rfl | rfl | rfl | rfl | rfl | rfl | rfl | rfl | rfl | rfl | rfl
  · exact macroEval_le
  · exact macroN_le
  · exact macroIf_le
  · exact macroMap_le
  · exact macroFor_le
  · exact macroForeach_le
  · exact macroLet_le
  · exact macroFormat_le
  · exact macroPeek_le
  · exact macroPokes_le
  · exact const_le macroPushs
  · exact const_le macroPops
  · exact macroChr_le
  · exact macroSpace_le
  · exact macroStr_le
  · exact const_le _
  · exact const_le macroRaw
  · exact macroWhile_le

theorem lookup_mem {α : Type} (l : List (Text × α)) (k : Text) (v : α) (h : l.lookup k = some v) : (k, v) ∈ l := by
  induction l with
  | nil => simp at h
  | cons p ps ih =>
    obtain ⟨k', v'⟩ := p
    simp only [List.lookup] at h
    split at h
    · rename_i heq
      simp only [Option.some.injEq] at h
      subst h
      have : k = k' := by simpa using heq
      subst this
      simp
    · simp only [List.mem_cons]; right; exact ih h

theorem runMacro_le (e e' : Exp) (n m : Nat) (name : Text) (st : St) (rest : Text)
    (he : ExpLe e e') (hnm : n ≤ m) : Le (runMacro e n name st rest) (runMacro e' m name st rest) := by
  unfold runMacro
  cases hl : lookupMacro name with
  | none => exact Le.refl _
  | some h => exact table_mono (name, h) (lookup_mem _ _ _ hl) e e' n m st rest he hnm

theorem preExpand_le {raw raw' : Exp} (he : ExpLe raw raw') : ∀ (n m : Nat) (st : St) (a : Text),
    n ≤ m → Le (preExpand raw n st a) (preExpand raw' m st a) := by
  intro n
  induction n with
  | zero => intro m st a _ r hr; simp [preExpand] at hr
  | succ n ih =>
    intro m st a hnm
    obtain ⟨m', rfl⟩ : ∃ m', m = m' + 1 := ⟨m - 1, by omega⟩
    unfold preExpand
    apply Le.ite _ (Le.refl _)
    split
    · exact Le.refl _
    · rename_i expr r _
      intro res hres
      cases hraw : raw st expr with
      | error x => rw [hraw] at hres; cases hres
      | ok q =>
        rw [hraw] at hres
        rw [he _ _ q hraw]
        exact ih m' _ _ (by omega) res hres

theorem expandLoop_le : ∀ (n m : Nat) (st : St) (acc rest : Text),
    n ≤ m → Le (expandLoop n st acc rest) (expandLoop m st acc rest) := by
  intro n
  induction n with
  | zero => intro m st acc rest _ r hr; simp [expandLoop] at hr
  | succ n ih =>
    intro m st acc rest hnm
    obtain ⟨m', rfl⟩ : ∃ m', m = m' + 1 := ⟨m - 1, by omega⟩
    have hle : n ≤ m' := by omega
    have hraw : ExpLe (fun s t => expandLoop n s [] t) (fun s t => expandLoop m' s [] t) :=
      fun s t => ih m' s [] t hle
    unfold expandLoop
    split
    · exact Le.refl _
    · rename_i before name after _
      dsimp only
      apply Le.ite (Le.refl _)
      intro res hres
      cases hp : preExpand (fun s t => expandLoop n s [] t) n st after with
      | error x => rw [hp] at hres; cases hres
      | ok p1 =>
        rw [hp] at hres
        rw [preExpand_le hraw n m' st after hle p1 hp]
        dsimp only at hres ⊢
        cases hm : runMacro (writerExpand fun s t => expandLoop n s [] t) n name p1.1 p1.2 with
        | error x => rw [hm] at hres; cases hres
        | ok p2 =>
          rw [hm] at hres
          rw [runMacro_le _ _ n m' name p1.1 p1.2 (writerExpand_le hraw) hle p2 hm]
          dsimp only at hres ⊢
          split at hres
          · rename_i hr'
            rw [if_pos hr']
            exact ih m' _ _ _ hle res hres
          · rename_i hr'
            rw [if_neg hr']
            exact ih m' _ _ _ hle res hres

end MacroFuelLemmas
