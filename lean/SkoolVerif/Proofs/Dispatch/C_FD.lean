import SkoolVerif.Gen.CDispatch
/-! The C dispatch table `FD` of c/csimulator.c equals the Python one, slot by slot (kernel-checked). -/
namespace DispatchEq
theorem c_FD : CSim.tbl_FD = Sim.tbl_FD := by decide +kernel
end DispatchEq
