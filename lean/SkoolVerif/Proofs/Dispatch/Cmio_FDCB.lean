import SkoolVerif.Gen.CmioVsSimThms
/-! The contended simulator dispatches slot for slot to the same closures as the plain one (table `FDCB`). -/
namespace DispatchEq
theorem cmio_FDCB : Cmio.tbl_FDCB = Sim.tbl_FDCB.map CmioVsSim.toCmio := by decide +kernel
end DispatchEq
