import SkoolVerif.Gen.CmioVsSimThms
/-! The contended simulator dispatches slot for slot to the same closures as the plain one (table `CB`). -/
namespace DispatchEq
theorem cmio_CB : Cmio.tbl_CB = Sim.tbl_CB.map CmioVsSim.toCmio := by decide +kernel
end DispatchEq
