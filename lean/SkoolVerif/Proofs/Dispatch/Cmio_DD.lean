import SkoolVerif.Gen.CmioVsSimThms
/-! The contended simulator dispatches slot for slot to the same closures as the plain one (table `DD`). -/
namespace DispatchEq
theorem cmio_DD : Cmio.tbl_DD = Sim.tbl_DD.map CmioVsSim.toCmio := by decide +kernel
end DispatchEq
