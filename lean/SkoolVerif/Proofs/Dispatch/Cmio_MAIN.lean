import SkoolVerif.Gen.CmioVsSimThms
/-! The contended simulator dispatches slot for slot to the same closures as the plain one (table `MAIN`). -/
namespace DispatchEq
theorem cmio_MAIN : Cmio.tbl_MAIN = Sim.tbl_MAIN.map CmioVsSim.toCmio := by decide +kernel
end DispatchEq
