import SkoolVerif.Gen.CmioVsSimThms
/-! The contended simulator dispatches slot for slot to the same closures as the plain one (table `DDCB`). -/
namespace DispatchEq
theorem cmio_DDCB : Cmio.tbl_DDCB = Sim.tbl_DDCB.map CmioVsSim.toCmio := by decide +kernel
end DispatchEq
