import SkoolVerif.Gen.CDispatch
/-! The C dispatch table `FDCB` of c/csimulator.c equals the Python one, slot by slot (kernel-checked). -/
namespace DispatchEq
theorem c_FDCB : CSim.tbl_FDCB = Sim.tbl_FDCB := by decide +kernel
end DispatchEq
