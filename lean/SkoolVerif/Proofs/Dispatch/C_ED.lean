import SkoolVerif.Gen.CDispatch
/-! The C dispatch table `ED` of c/csimulator.c equals the Python one, slot by slot (kernel-checked). -/
namespace DispatchEq
theorem c_ED : CSim.tbl_ED = Sim.tbl_ED := by decide +kernel
end DispatchEq
