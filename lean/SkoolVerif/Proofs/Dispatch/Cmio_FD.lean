import SkoolVerif.Gen.CmioVsSimThms
/-! The contended simulator dispatches slot for slot to the same closures as the plain one (table `FD`). -/
namespace DispatchEq
theorem cmio_FD : Cmio.tbl_FD = Sim.tbl_FD.map CmioVsSim.toCmio := by decide +kernel
end DispatchEq
