import SkoolVerif.Gen.CDispatch
/-! The C dispatch table `DDCB` of c/csimulator.c equals the Python one, slot by slot (kernel-checked). -/
namespace DispatchEq
theorem c_DDCB : CSim.tbl_DDCB = Sim.tbl_DDCB := by decide +kernel
end DispatchEq
