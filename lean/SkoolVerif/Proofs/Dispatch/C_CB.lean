import SkoolVerif.Gen.CDispatch
/-! The C dispatch table `CB` of c/csimulator.c equals the Python one, slot by slot (kernel-checked). -/
namespace DispatchEq
theorem c_CB : CSim.tbl_CB = Sim.tbl_CB := by decide +kernel
end DispatchEq
