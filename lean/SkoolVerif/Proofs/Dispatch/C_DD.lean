import SkoolVerif.Gen.CDispatch
/-! The C dispatch table `DD` of c/csimulator.c equals the Python one, slot by slot (kernel-checked). -/
namespace DispatchEq
theorem c_DD : CSim.tbl_DD = Sim.tbl_DD := by decide +kernel
end DispatchEq
