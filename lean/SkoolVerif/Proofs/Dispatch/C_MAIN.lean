import SkoolVerif.Gen.CDispatch
/-! The C dispatch table `MAIN` of c/csimulator.c equals the Python one, slot by slot (kernel-checked). -/
namespace DispatchEq
theorem c_MAIN : CSim.tbl_MAIN = Sim.tbl_MAIN := by decide +kernel
end DispatchEq
