import SkoolVerif.Gen.CmioVsSimThms
/-! The contended simulator dispatches slot for slot to the same closures as the plain one (table `ED`). -/
namespace DispatchEq
theorem cmio_ED : Cmio.tbl_ED = Sim.tbl_ED.map CmioVsSim.toCmio := by decide +kernel
end DispatchEq
