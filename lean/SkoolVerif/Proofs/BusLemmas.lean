import SkoolVerif.Spec.Z80Bus
import SkoolVerif.Proofs.ContendLemmas
/-!
Bridges between the model of `cmiosimulator.py`'s helpers (`Model/Contend.lean`: delay tables,
`contend_*`, `io_contention_*`) and the independent bus specification (`Spec/Z80Bus.lean`):
the closed-form ULA wait equals the delay tables, `contend` is the fold `delayFrom` over
(contended?, T-states) pieces, `io_contention` yields the four documented I/O cases.
-/
namespace Z80Bus
open Z80 Contend
variable {μ : Type} [MemLike μ]

theorem pattern_eq (k : Int) : Z80Bus.pattern k = Contend.pattern k := rfl

/-- the documented 48K layout is what `DELAYS_48K` holds -/
theorem ulaWait48_eq (t : Int) : ulaWait 14335 224 69888 t = delays48 t := by
  unfold ulaWait delays48
  simp only [pattern_eq]
  have e : (t - 14335) % 224 % 8 = (t - (64 * 224 - 1)) % 8 := by omega
  have e2 : t - (64 * 224 - 1) = t - 14335 := by omega
  by_cases h : 0 ≤ t - 14335 ∧ t - 14335 < 192 * 224 ∧ (t - 14335) % 224 < 128 ∧ t < 69888
  · have h2 : 0 ≤ t - (64 * 224 - 1) ∧ (t - (64 * 224 - 1)) / 224 < 192 ∧ (t - (64 * 224 - 1)) % 224 < 128 ∧ t < 69888 := by omega
    rw [if_pos h, if_pos h2, e]
  · have h2 : ¬ (0 ≤ t - (64 * 224 - 1) ∧ (t - (64 * 224 - 1)) / 224 < 192 ∧ (t - (64 * 224 - 1)) % 224 < 128 ∧ t < 69888) := by omega
    rw [if_neg h, if_neg h2]

/-- the documented 128K layout is what `DELAYS_128K` holds -/
theorem ulaWait128_eq (t : Int) : ulaWait 14361 228 70908 t = delays128 t := by
  unfold ulaWait delays128
  simp only [pattern_eq]
  have e2 : t - (63 * 228 - 3) = t - 14361 := by omega
  by_cases h : 0 ≤ t - 14361 ∧ t - 14361 < 192 * 228 ∧ (t - 14361) % 228 < 128 ∧ t < 70908
  · have h2 : 0 ≤ t - (63 * 228 - 3) ∧ (t - (63 * 228 - 3)) / 228 < 192 ∧ (t - (63 * 228 - 3)) % 228 < 128 ∧ t < 70908 := by omega
    rw [if_pos h, if_pos h2, e2]
  · have h2 : ¬ (0 ≤ t - (63 * 228 - 3) ∧ (t - (63 * 228 - 3)) / 228 < 192 ∧ (t - (63 * 228 - 3)) % 228 < 128 ∧ t < 70908) := by omega
    rw [if_neg h, if_neg h2]

theorem wait_eq (m : μ) (t : Int) :
    wait m t = if MemLike.is128 m then delays128 t else delays48 t := by
  unfold wait; rw [ulaWait48_eq, ulaWait128_eq]

/-- the simulators' (address, T-states) pairs as pieces -/
def toPieces (m : μ) (l : List (Int × Int)) : List (Bool × Int) := l.map (fun x => (contended m x.1, x.2))

@[simp] theorem toPieces_nil (m : μ) : toPieces m [] = [] := rfl
@[simp] theorem toPieces_cons (m : μ) (a n : Int) (l : List (Int × Int)) :
    toPieces m ((a, n) :: l) = (contended m a, n) :: toPieces m l := rfl
theorem toPieces_append (m : μ) (a b : List (Int × Int)) : toPieces m (a ++ b) = toPieces m a ++ toPieces m b := by
  simp [toPieces]

theorem contend48_fold (l : List (Int × Int)) (m : μ) (h : MemLike.is128 m = false) (d t : Int) :
    (l.foldl (fun (acc : Int × Int) (at_ : Int × Int) =>
      let (delay, t) := acc
      let (address, tstates) := at_
      if 0x4000 ≤ address ∧ address < 0x8000 then
        let cd := delays48 t
        (delay + cd, t + cd + tstates)
      else (delay, t + tstates)) (d, t)).1 = d + delayFrom m t (toPieces m l) := by
  induction l generalizing d t with
  | nil => simp [delayFrom]
  | cons x l ih =>
    obtain ⟨a, n⟩ := x
    simp only [List.foldl_cons, toPieces_cons, delayFrom]
    by_cases hc : 0x4000 ≤ a ∧ a < 0x8000
    · have hcc : contended m a = true := by simp [contended, hc.1, hc.2]
      simp only [hc, and_self, if_true, hcc]
      rw [ih, wait_eq, h]; simp; omega
    · have hcc : contended m a = false := by
        simp only [contended, h, Bool.false_and, Bool.or_false, Bool.and_eq_false_iff, decide_eq_false_iff_not]
        omega
      simp only [hc, if_false, hcc]
      rw [ih]; simp

theorem contend128_fold (l : List (Int × Int)) (m : μ) (h : MemLike.is128 m = true) (d t : Int) :
    (l.foldl (fun (acc : Int × Int) (at_ : Int × Int) =>
      let (delay, t) := acc
      let (address, tstates) := at_
      if (0x4000 ≤ address ∧ address < 0x8000) ∨ (MemLike.o7ffd m % 2 ≠ 0 ∧ address ≥ 0xC000) then
        let cd := delays128 t
        (delay + cd, t + cd + tstates)
      else (delay, t + tstates)) (d, t)).1 = d + delayFrom m t (toPieces m l) := by
  induction l generalizing d t with
  | nil => simp [delayFrom]
  | cons x l ih =>
    obtain ⟨a, n⟩ := x
    simp only [List.foldl_cons, toPieces_cons, delayFrom]
    by_cases hc : (0x4000 ≤ a ∧ a < 0x8000) ∨ (MemLike.o7ffd m % 2 ≠ 0 ∧ a ≥ 0xC000)
    · have hcc : contended m a = true := by
        simp only [contended, h, Bool.true_and, Bool.or_eq_true, Bool.and_eq_true, decide_eq_true_eq]
        rcases hc with hc | hc
        · exact Or.inl hc
        · exact Or.inr ⟨hc.1, by omega⟩
      simp only [hc, if_true, hcc]
      rw [ih, wait_eq, h]; simp; omega
    · have hcc : contended m a = false := by
        rw [Bool.eq_false_iff]
        intro hh
        simp only [contended, h, Bool.true_and, Bool.or_eq_true, Bool.and_eq_true, decide_eq_true_eq] at hh
        apply hc
        rcases hh with hh | hh
        · exact Or.inl hh
        · exact Or.inr ⟨hh.1, by omega⟩
      simp only [hc, if_false, hcc]
      rw [ih]; simp

/-- `self.contend(t, timings)` is the specification's fold over the pattern's pieces -/
theorem contend_eq (cfg : Cfg) (m : μ) (t : Int) (l : List (Int × Int)) :
    contend cfg m t l = delayFrom m t (toPieces m l) := by
  unfold contend
  cases h : MemLike.is128 m
  · simp only [Bool.false_eq_true, if_false]
    unfold contend48
    rw [contend48_fold l m h 0 t]; simp
  · simp only [if_true]
    unfold contend128
    simp only
    rw [contend128_fold l m h 0 t]; simp

theorem ioContended_iff (m : μ) (port : Int) : ioContended m port ↔ contended m port = true := by
  unfold ioContended contended
  simp only [Bool.or_eq_true, Bool.and_eq_true, decide_eq_true_eq, ge_iff_le]
  constructor
  · rintro (h | h)
    · exact Or.inl h
    · exact Or.inr ⟨⟨h.1, h.2.1⟩, h.2.2⟩
  · rintro (h | h)
    · exact Or.inl h
    · exact Or.inr ⟨h.1.1, h.1.2, h.2⟩

/-- `self.io_contention(port)` yields the four documented I/O cases (its pseudo-addresses 0x4000 and
0 stand for "contended" and "not contended") -/
theorem io_pieces (cfg : Cfg) (m : μ) (port : Int) :
    toPieces m (io_contention cfg m port) = ioPieces (contended m port) (port % 2 != 0) := by
  have c4 : contended m 0x4000 = true := by simp [contended]
  have c0 : contended m 0 = false := by simp [contended]
  unfold io_contention
  by_cases h2 : port % 2 ≠ 0 <;> by_cases hc : ioContended m port
  all_goals
    have hc' := hc
    rw [ioContended_iff] at hc'
    have hb : (port % 2 != 0) = decide (port % 2 ≠ 0) := by
      by_cases h : port % 2 = 0 <;> simp [h]
    rw [hb]
    simp_all [ioPieces]

theorem delayFrom_append (m : μ) (t : Int) (a b : List (Bool × Int)) :
    delayFrom m t (a ++ b) = delayFrom m t a + delayFrom m (t + delayFrom m t a + (a.map Prod.snd).sum) b := by
  induction a generalizing t with
  | nil => simp [delayFrom]
  | cons x a ih =>
    obtain ⟨c, n⟩ := x
    simp only [List.cons_append, delayFrom, List.map_cons, List.sum_cons]
    rw [ih]
    have e : t + (if c = true then wait m t else 0) + n + delayFrom m (t + (if c = true then wait m t else 0) + n) a + (a.map Prod.snd).sum
        = t + ((if c = true then wait m t else 0) + delayFrom m (t + (if c = true then wait m t else 0) + n) a) + (n + (a.map Prod.snd).sum) := by omega
    rw [e]; omega

theorem ioPieces_sum (a b : Bool) : ((ioPieces a b).map Prod.snd).sum = 4 := by
  cases a <;> cases b <;> rfl

theorem wait_nonneg (m : μ) (t : Int) : 0 ≤ wait m t := by
  rw [wait_eq]; split
  · exact (delays128_range t).1
  · exact (delays48_range t).1

theorem delayFrom_nonneg (m : μ) (t : Int) (l : List (Bool × Int)) : 0 ≤ delayFrom m t l := by
  induction l generalizing t with
  | nil => simp [delayFrom]
  | cons x l ih =>
    obtain ⟨c, n⟩ := x
    simp only [delayFrom]
    have := wait_nonneg m t
    cases c
    · have := ih (t + 0 + n); simp only [Bool.false_eq_true, if_false]; omega
    · have := ih (t + wait m t + n); simp only [if_true]; omega

/-- no contended piece, no delay -/
theorem delayFrom_zero_of_uncontended (m : μ) (t : Int) (l : List (Bool × Int)) (h : l.any (fun p => p.1) = false) :
    delayFrom m t l = 0 := by
  induction l generalizing t with
  | nil => simp [delayFrom]
  | cons x l ih =>
    obtain ⟨c, n⟩ := x
    simp only [List.any_cons, Bool.or_eq_false_iff] at h
    simp only [delayFrom, h.1, Bool.false_eq_true, if_false]
    rw [ih _ h.2]; simp

end Z80Bus
