import SkoolVerif.Proofs.SemStep
import SkoolVerif.Proofs.CmioVsSimStep
import SkoolVerif.Proofs.Dispatch.All
/-!
Corollaries of the refinement theorem: documented durations, the contended simulator against the
specification (through C06/C19's closure-by-closure equivalence), the C dispatch tables against
the independent decoder (through C06's table equality).
-/
namespace C05
open Z80 Sim Spec Z80Isa Z80Decode TableRanges AluCheck
variable {μ : Type} [MemLike μ]

theorem t_setR8 (s : St μ) (r : Reg8) (v : Int) : (setR8 s r v).t = s.t := rfl
theorem t_setSP (s : St μ) (v : Int) : (setSP s v).t = s.t := rfl
theorem t_wr (s : St μ) (a v : Int) : (wr s a v).t = s.t := rfl
theorem t_wrPair (s : St μ) (a lo hi : Int) : (wrPair s a lo hi).t = s.t := rfl
theorem t_setPair (s : St μ) (rp : Reg16) (lo hi : Int) : (setPair s rp lo hi).t = s.t := by
  unfold setPair; split <;> rfl
theorem t_setR16 (s : St μ) (rp : Reg16) (v : Int) : (setR16 s rp v).t = s.t := by
  unfold setR16; split <;> rfl
theorem t_wrLoc (s0 s : St μ) (pc sz : Int) (l : Loc8) (v : Int) : (wrLoc s0 s pc sz l v).t = s.t := by
  cases l <;> rfl
theorem t_copyTo (s : St μ) (c : Option Reg8) (v : Int) : (copyTo s c v).t = s.t := by
  cases c <;> rfl
theorem t_push (s : St μ) (lo hi : Int) : (Spec.push s lo hi).t = s.t := rfl
theorem t_swapShadow (s : St μ) (r : Reg8) : (swapShadow s r).t = s.t := rfl
theorem t_portIn (a : Bool) (d p : Int) (s : St μ) : (portIn a d p s).2.t = s.t := by
  unfold portIn; split <;> rfl
theorem t_portOut (a : Bool) (p v : Int) (s : St μ) : (portOut a p v s).t = s.t := by
  unfold portOut; split <;> rfl

/-- every instruction takes one of its two documented durations -/
theorem exec_tstates (cfg : Cfg) (d : Decoded) (s : St μ) :
    (Spec.exec cfg d s).t = s.t + d.t ∨ (Spec.exec cfg d s).t = s.t + d.tAlt := by
  obtain ⟨i, sz, t, ta, m⟩ := d
  cases i <;> simp only [Spec.exec] <;> (repeat' split) <;>
    simp only [t_setR8, t_setSP, t_wr, t_wrPair, t_setPair, t_setR16, t_wrLoc, t_copyTo, t_push, t_swapShadow,
      t_portIn, t_portOut, true_or, or_true]

/-- the dispatch tables of `c/csimulator.c`, by the same index -/
def cArr : Sim.OpTbl → Array Sim.Instr
  | .MAIN => CSim.tbl_MAIN | .CB => CSim.tbl_CB | .ED => CSim.tbl_ED | .DD => CSim.tbl_DD | .FD => CSim.tbl_FD
  | .DDCB => CSim.tbl_DDCB | .FDCB => CSim.tbl_FDCB

theorem cArr_eq (t : Sim.OpTbl) : cArr t = t.arr := by
  cases t
  · exact DispatchEq.c_MAIN
  · exact DispatchEq.c_CB
  · exact DispatchEq.c_ED
  · exact DispatchEq.c_DD
  · exact DispatchEq.c_FD
  · exact DispatchEq.c_DDCB
  · exact DispatchEq.c_FDCB

/-- what "slot `op` of table `t` is right" means: it denotes an instruction, and that instruction
(with its length, T-states for both branches and M1 count) is, up to encodings with identical
semantics, the one the independent decoder produces -/
def SlotDecodes (t : Sim.OpTbl) (op : Nat) : Prop :=
  ∃ d, zinstrOf (t.arr.getD op (.prefix_ .MAIN)) = some d ∧
    canonD d = canonD (Decoded.of (decode (pfxOf t) op))


/-- `n` consecutive steps of the specification -/
def specRunN {μ : Type} [MemLike μ] (cfg : Cfg) : Nat → St μ → St μ
  | 0, s => s
  | n + 1, s => specRunN cfg n (Spec.step cfg s)


/-! a concrete in-range state (non-vacuity of the refinement theorems) -/
def exState : St Mem48 :=
  { reg := #[0x7F, 0, 1, 0, 0, 0, 0, 0, 0, 0, 0, 0, 0xFFFF, 0, 0, 0x7F, 0, 0, 0, 0, 0, 0, 0, 0],
    mem := ⟨#[0x80]⟩, pc := 0, t := 0, iff := 0, im := 0, halt := 0, memptr := 0, ins := [], outs := [], inLog := [] }

theorem exState_inv : RInv exState := by
  refine ⟨⟨rfl, by unfold Word; decide +kernel, by decide +kernel, ?_⟩, ?_, by unfold Word; decide +kernel, by decide,
    by decide, by decide, by decide, by unfold Word; decide +kernel, by simp [exState]⟩
  · intro i h0 h1 h2
    have : i = 0 ∨ i = 1 ∨ i = 2 ∨ i = 3 ∨ i = 4 ∨ i = 5 ∨ i = 6 ∨ i = 7 ∨ i = 8 ∨ i = 9 ∨ i = 10 ∨ i = 11 ∨
        i = 13 ∨ i = 14 ∨ i = 15 ∨ i = 16 ∨ i = 17 ∨ i = 18 ∨ i = 19 ∨ i = 20 ∨ i = 21 ∨ i = 22 ∨ i = 23 := by omega
    rcases this with h | h | h | h | h | h | h | h | h | h | h | h | h | h | h | h | h | h | h | h | h | h | h <;>
      subst h <;> unfold Byte <;> decide +kernel
  · intro x hx
    simp [exState] at hx
    subst hx; unfold Byte; decide


end C05
