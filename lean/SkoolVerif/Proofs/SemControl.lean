import SkoolVerif.Proofs.SemBasics
/-!
Per-closure refinement, family 2: jumps, calls, returns, interrupt control, 16-bit INC/DEC,
port I/O without flags, RES/SET.
-/
namespace C05
open Z80 Sim Spec Z80Isa TableRanges AluCheck
variable {μ : Type} [MemLike μ] [CellMem μ]

theorem p2i_ne_zero (p : Prop) [Decidable p] : PyInt.p2i p ≠ 0 ↔ p := by
  unfold PyInt.p2i; split <;> simp_all

/-- the not-taken test of `call` -/
theorem call_cond (c_and c_val f : Int) (cc : Option Cond) (h : condInvOf c_and c_val = some cc) (hf : Byte f) :
    ((if c_and ≠ 0 then PyInt.p2i (PyInt.land f c_and = c_val) else c_and) ≠ 0) ↔ ¬ (ccHolds cc f = true) := by
  cases cc with
  | none =>
    have := condInvOf_none _ _ h
    subst this
    simp [ccHolds]
  | some c =>
    obtain ⟨h1, h2⟩ := condInvOf_spec _ _ f c h hf
    rw [if_pos h1, p2i_ne_zero, h2]
    simp [ccHolds]

theorem jr_target (pc e : Int) (hpc : Word pc) (he : Byte e) :
    (pc + Tbl.JR_OFFSETS e) % 65536 = ((pc + 2) % 65536 + Spec.sgn8 e) % 65536 := by
  unfold Tbl.JR_OFFSETS Spec.sgn8; unfold Byte at he; unfold Word at hpc
  simp only
  split <;> omega

theorem sem_jp (cfg : Cfg) (c_and c_val : Int) (d : Decoded)
    (hz : zinstrOf (.jp c_and c_val) = some d) (s : St μ) (hi : RInv s) :
    Sim.jp cfg c_and c_val s = Spec.exec cfg d s := by
  zinv hz
  obtain ⟨cc, hcc, rfl⟩ := hz
  rinv_setup hi
  have hc := condOf_spec c_and c_val _ cc hcc (hr.byte 1 (by omega) (by omega) (by omega))
  simp only [sim_handler, Id.run, pure]
  spec_simp []; idx_simp; rsimp hs; rw [hR1]
  simp only [hc]
  have e1 : s.pc + 3 - 2 = s.pc + 1 := by omega
  have e2 : s.pc + 3 - 1 = s.pc + 2 := by omega
  simp only [e1, e2]

theorem sem_jr (cfg : Cfg) (c_and c_val : Int) (d : Decoded)
    (hz : zinstrOf (.jr c_and c_val) = some d) (s : St μ) (hi : RInv s) :
    Sim.jr cfg c_and c_val s = Spec.exec cfg d s := by
  zinv hz
  obtain ⟨cc, hcc, rfl⟩ := hz
  rinv_setup hi
  have hc := condOf_spec c_and c_val _ cc hcc (hr.byte 1 (by omega) (by omega) (by omega))
  have hb := hmem.byte ((s.pc + 1) % 65536)
  simp only [sim_handler, Id.run, pure]
  spec_simp []; idx_simp; rsimp hs; rw [hR1]
  simp only [hc]
  have e1 : s.pc + 2 - 1 = s.pc + 1 := by omega
  simp only [e1, jr_target _ _ hpc hb]
  split
  · rfl
  · cases cc
    · simp [ccHolds] at *
    · rfl

theorem sem_djnz (cfg : Cfg) (d : Decoded)
    (hz : zinstrOf .djnz = some d) (s : St μ) (hi : RInv s) :
    Sim.djnz cfg s = Spec.exec cfg d s := by
  zinv hz
  subst hz
  rinv_setup hi
  have hb := hmem.byte ((s.pc + 1) % 65536)
  simp only [sim_handler, Id.run, pure]
  spec_simp []; idx_simp; rsimp hs
  have e1 : s.pc + 2 - 1 = s.pc + 1 := by omega
  simp only [e1, jr_target _ _ hpc hb]
  split <;> (rsimp hs; rw [hR1]; st_regs hs)

theorem sem_call (cfg : Cfg) (c_and c_val : Int) (d : Decoded)
    (hz : zinstrOf (.call c_and c_val) = some d) (s : St μ) (hi : RInv s) :
    Sim.call cfg c_and c_val s = Spec.exec cfg d s := by
  zinv hz
  obtain ⟨cc, hcc, rfl⟩ := hz
  rinv_setup hi
  have hc := call_cond c_and c_val _ cc hcc (hr.byte 1 (by omega) (by omega) (by omega))
  simp only [sim_handler, Id.run, pure]
  by_cases hcond : ccHolds cc (rget s.reg 1) = true
  · rw [if_neg (by rw [hc]; simpa using hcond)]
    spec_simp []; idx_simp; rsimp hs; rw [hR1]
    simp only [hcond, if_true]
    have e1 : s.pc + 3 - 2 = s.pc + 1 := by omega
    have e2 : s.pc + 3 - 1 = s.pc + 2 := by omega
    simp only [e1, e2]
    split <;> split <;> st_regs hs
  · rw [if_pos (by rw [hc]; exact hcond)]
    spec_simp []; idx_simp; rsimp hs; rw [hR1]
    simp only [hcond]
    cases cc
    · simp [ccHolds] at hcond
    · rfl
theorem sem_jp_rr (cfg : Cfg) (r_inc : TblI1) (timing rh rl : Int) (d : Decoded)
    (hz : zinstrOf (.jp_rr r_inc timing rh rl) = some d) (s : St μ) (hi : RInv s) :
    Sim.jp_rr cfg r_inc timing rh rl s = Spec.exec cfg d s := by
  zinv hz
  obtain ⟨m, hm, rp, hrp, hz⟩ := hz
  zif hz
  rename_i hok
  subst hz
  rinv_setup hi
  have hR := rinc_spec r_inc m _ hm hb15
  simp only [sim_handler, Id.run, pure]
  pair_cases hrp <;> first
    | (exfalso; simp only [reduceCtorEq, or_self] at hok; done)
    | (spec_simp []; idx_simp; rsimp hs; rw [hR])

theorem sem_ret (cfg : Cfg) (c_and c_val : Int) (d : Decoded)
    (hz : zinstrOf (.ret c_and c_val) = some d) (s : St μ) (hi : RInv s) :
    Sim.ret cfg c_and c_val s = Spec.exec cfg d s := by
  zinv hz
  obtain ⟨cc, hcc, rfl⟩ := hz
  rinv_setup hi
  simp only [sim_handler, Id.run, pure]
  cases cc with
  | none =>
    have := condInvOf_none _ _ hcc
    subst this
    simp only [ne_eq, not_true_eq_false, if_false]
    spec_simp [ccHolds]; idx_simp; rsimp hs; rw [hR1]
    st_regs hs
  | some c =>
    obtain ⟨h1, h2⟩ := condInvOf_spec _ _ _ c hcc (hr.byte 1 (by omega) (by omega) (by omega))
    simp only [h1, ne_eq, not_false_eq_true, if_true, h2]
    spec_simp [ccHolds]; idx_simp; rsimp hs; rw [hR1]
    cases hcv : condHolds c (rget s.reg 1)
    · simp only [if_true, Bool.false_eq_true, if_false]
    · simp only [Bool.true_eq_false, if_false, if_true]
      st_regs hs

theorem sem_reti (cfg : Cfg) (d : Decoded)
    (hz : zinstrOf .reti = some d) (s : St μ) (hi : RInv s) :
    Sim.reti cfg s = Spec.exec cfg d s := by
  zinv hz
  subst hz
  rinv_setup hi
  simp only [sim_handler, Id.run, pure]
  spec_simp []; idx_simp; rsimp hs; rw [hR2]

theorem sem_rst (cfg : Cfg) (addr : Int) (d : Decoded)
    (hz : zinstrOf (.rst addr) = some d) (s : St μ) (hi : RInv s) :
    Sim.rst cfg addr s = Spec.exec cfg d s := by
  zinv hz
  zif hz
  rename_i hok
  subst hz
  rinv_setup hi
  simp only [sim_handler, Id.run, pure]
  spec_simp []; idx_simp; rsimp hs; rw [hR1]
  have e : ((addr.toNat : Nat) : Int) = addr := by omega
  simp only [e]
  split <;> split <;> st_regs hs

theorem sem_di_ei (cfg : Cfg) (iff : Int) (d : Decoded)
    (hz : zinstrOf (.di_ei iff) = some d) (s : St μ) (hi : RInv s) :
    Sim.di_ei cfg iff s = Spec.exec cfg d s := by
  zinv hz
  rinv_setup hi
  simp only [sim_handler, Id.run, pure]
  split at hz
  · simp only [Option.some.injEq] at hz; subst hz; subst_vars
    spec_simp []; idx_simp; rw [hR1]
  · zif hz; subst hz; subst_vars
    spec_simp []; idx_simp; rw [hR1]

theorem sem_im (cfg : Cfg) (mode : Int) (d : Decoded)
    (hz : zinstrOf (.im mode) = some d) (s : St μ) (hi : RInv s) :
    Sim.im cfg mode s = Spec.exec cfg d s := by
  zinv hz
  zif hz
  rename_i hok
  subst hz
  rinv_setup hi
  simp only [sim_handler, Id.run, pure]
  spec_simp []; idx_simp; rw [hR2]
  have e : ((mode.toNat : Nat) : Int) = mode := by omega
  simp only [e]

theorem sem_halt (cfg : Cfg) (d : Decoded)
    (hz : zinstrOf .halt = some d) (s : St μ) (hi : RInv s) :
    Sim.halt cfg s = Spec.exec cfg d s := by
  zinv hz
  subst hz
  rinv_setup hi
  simp only [sim_handler, Id.run, pure]
  spec_simp [Spec.intDue]; idx_simp; rw [hR1]
  by_cases h0 : s.iff = 0
  · simp [h0]
  · by_cases h1 : (s.t + 4) % cfg.frame_duration < cfg.int_active
    · simp [h0, h1, PyInt.p2i]
    · simp [h0, h1, PyInt.p2i]

theorem sem_inc_dec_rr (cfg : Cfg) (r_inc : TblI1) (timing size inc rh rl : Int) (d : Decoded)
    (hz : zinstrOf (.inc_dec_rr r_inc timing size inc rh rl) = some d) (s : St μ) (hi : RInv s) :
    Sim.inc_dec_rr cfg r_inc timing size inc rh rl s = Spec.exec cfg d s := by
  zinv hz
  obtain ⟨m, hm, rp, hrp, dec, hdec, hz⟩ := hz
  zif hz
  rename_i hne
  subst hz
  rinv_setup hi
  have hR := rinc_spec r_inc m _ hm hb15
  simp only [sim_handler, Id.run, pure]
  have hinc : (inc = 1 ∧ dec = false) ∨ (inc = -1 ∧ dec = true) := by
    unfold dirOf at hdec
    split at hdec
    · rename_i h1; simp at hdec; left; exact ⟨h1, hdec⟩
    · split at hdec
      · rename_i h1; simp at hdec; right; exact ⟨h1, hdec⟩
      · simp at hdec
  rcases hinc with ⟨rfl, rfl⟩ | ⟨rfl, rfl⟩ <;>
  (pair_cases hrp <;> first
    | (exfalso; exact hne rfl)
    | (simp only [Int.reduceEq, if_false, if_true, Bool.false_eq_true]; spec_simp []; idx_simp; rsimp hs; rw [hR]
       st_regs hs))

theorem sem_in_a (cfg : Cfg) (d : Decoded)
    (hz : zinstrOf .in_a = some d) (s : St μ) (hi : RInv s) :
    Sim.in_a cfg s = Spec.exec cfg d s := by
  zinv hz
  subst hz
  rinv_setup hi
  simp only [sim_handler, Id.run, pure]
  spec_simp []; idx_simp; rsimp hs
  have e1 : s.pc + 2 - 1 = s.pc + 1 := by omega
  have e2 : s.pc + 1 + 1 = s.pc + 2 := by omega
  simp only [e1, e2]
  split <;> (rsimp hs; rw [hR1]; st_regs hs)

theorem sem_out_a (cfg : Cfg) (d : Decoded)
    (hz : zinstrOf .out_a = some d) (s : St μ) (hi : RInv s) :
    Sim.out_a cfg s = Spec.exec cfg d s := by
  zinv hz
  subst hz
  rinv_setup hi
  simp only [sim_handler, Id.run, pure]
  spec_simp []; idx_simp; rsimp hs; rw [hR1]
  have e1 : s.pc + 2 - 1 = s.pc + 1 := by omega
  have e2 : s.pc + 1 + 1 = s.pc + 2 := by omega
  simp only [e1, e2]
  split <;> rfl

theorem sem_out_c (cfg : Cfg) (reg : Int) (d : Decoded)
    (hz : zinstrOf (.out_c reg) = some d) (s : St μ) (hi : RInv s) :
    Sim.out_c cfg reg s = Spec.exec cfg d s := by
  zinv hz
  rinv_setup hi
  simp only [sim_handler, Id.run, pure]
  split at hz
  · simp only [Option.some.injEq] at hz; subst hz; subst_vars
    spec_simp []; idx_simp; rsimp hs; rw [hR2]
    simp only [ge_iff_le, Int.reduceNeg, Int.reduceLE, if_false]
    split <;> rfl
  · simp only [Option.bind_eq_bind, Option.bind_eq_some_iff, Option.some.injEq] at hz
    obtain ⟨g, hg, rfl⟩ := hz
    obtain ⟨rfl, g2, g3, g4⟩ := gpr_inv reg g hg
    spec_simp []; idx_simp; rsimp hs; rw [hR2]
    have : idx g ≥ 0 := g2
    simp only [this, if_true]
    split <;> rfl

end C05
