import SkoolVerif.Proofs.RzxPlayLemmas
/-!
Recorder vs player (`Model/RzxPlay.lean`), generic in the step function: a frame recorded from a run
of `n` instructions - fetch counter = sum of the M1 counts, readings = the port values consumed -
is played back by `playFrame` through exactly those `n` instructions, with no "port readings
exhausted", none left over, and to the same state.  Needs from the step function only that its
port input is local (`InLocal`, proved for every generated closure) and that the player's
per-instruction decrement equals the recorder's M1 count on the states of the run.
-/
namespace Rzx
open Z80
variable {μ : Type} [MemLike μ]

/-- `n` instructions -/
def iter (step : St μ → St μ) : Nat → St μ → St μ
  | 0, s => s
  | n + 1, s => iter step n (step s)

/-- the player's decrement for the instruction at PC -/
def decOf (step : St μ → St μ) (s : St μ) : Int :=
  fetchDec (mget s.mem s.pc) (rget s.reg 15) (rget (step s).reg 15)

/-- M1 cycles of the next `n` instructions -/
def sumM1 (step : St μ → St μ) (m1 : St μ → Int) : Nat → St μ → Int
  | 0, _ => 0
  | n + 1, s => m1 s + sumM1 step m1 n (step s)

theorem fetchDec_pos (o r0 r1 : Int) : 1 ≤ fetchDec o r0 r1 := by
  unfold fetchDec
  generalize PyInt.xor r1 r0 = x
  split
  · omega
  · split <;> omega

theorem iter_succ' (step : St μ → St μ) (n : Nat) (s : St μ) : iter step (n + 1) s = step (iter step n s) := by
  induction n generalizing s with
  | zero => rfl
  | succ n ih => simp only [iter] at ih ⊢; rw [ih]

@[simp] theorem withIns_withIns (s : St μ) (a b : List Int) : (s.withIns a).withIns b = s.withIns b := rfl
@[simp] theorem withIns_self (s : St μ) : s.withIns s.ins = s := rfl
@[simp] theorem withIns_mem (s : St μ) (a : List Int) : (s.withIns a).mem = s.mem := rfl
@[simp] theorem withIns_pc (s : St μ) (a : List Int) : (s.withIns a).pc = s.pc := rfl
@[simp] theorem withIns_reg (s : St μ) (a : List Int) : (s.withIns a).reg = s.reg := rfl
@[simp] theorem withIns_inLog (s : St μ) (a : List Int) : (s.withIns a).inLog = s.inLog := rfl

theorem recRun_eq (step : St μ → St μ) (m1 : St μ → Int) (n : Nat) (s : St μ) (fc last : Int) (k : Last) :
    recRun step m1 n s fc last k =
      (iter step n s, fc + sumM1 step m1 n s,
       if n = 0 then last else (iter step (n - 1) s).pc,
       if n = 0 then k else classify (iter step (n - 1) s).mem (iter step (n - 1) s).pc) := by
  induction n generalizing s fc last k with
  | zero => simp [recRun, iter, sumM1]
  | succ n ih =>
    simp only [recRun, ih, iter, sumM1]
    cases n with
    | zero => simp [iter, Int.add_assoc]
    | succ m => simp [iter, Int.add_assoc]

variable (step : St μ → St μ) (hloc : ∀ s, InLocal step s)

include hloc in
/-- the reading stream only ever shrinks, by at most one element per instruction -/
theorem ins_len_mono (n : Nat) (s : St μ) :
    (iter step n s).ins.length ≤ s.ins.length ∧ s.ins.length ≤ (iter step n s).ins.length + n := by
  induction n generalizing s with
  | zero => simp [iter]
  | succ n ih =>
    simp only [iter]
    obtain ⟨a, b⟩ := ih (step s)
    rcases (hloc s).1 with ⟨_, h⟩ | ⟨_, h⟩
    · rw [h] at a b; exact ⟨a, by omega⟩
    · rw [h] at a b; simp only [List.length_drop] at a b; exact ⟨by omega, by omega⟩

include hloc in
theorem ins_suffix (n : Nat) (s : St μ) : ∃ c, c ≤ n ∧ (iter step n s).ins = s.ins.drop c := by
  induction n generalizing s with
  | zero => exact ⟨0, by omega, by simp [iter]⟩
  | succ n ih =>
    simp only [iter]
    obtain ⟨c, hc, he⟩ := ih (step s)
    rcases (hloc s).1 with ⟨_, h⟩ | ⟨_, h⟩
    · exact ⟨c, by omega, by rw [he, h]⟩
    · exact ⟨c + 1, by omega, by rw [he, h, List.drop_drop]; congr 1; omega⟩

include hloc in
/-- One instruction of the recorder (stream `R ++ tail`, of which only `tail` is left at the end of the
frame) and of the player (stream `R`) stay in step: the player does not run dry, decrements by the
recorder's M1 count and reaches the recorder's state minus `tail`. -/
theorem step_sync (s : St μ) (R tail : List Int) (hs : s.ins = R ++ tail) (htl : tail ≠ [])
    (hle : tail.length ≤ (step s).ins.length) :
    ¬ ((step (s.withIns R)).inLog.length > (s.withIns R).inLog.length ∧ (s.withIns R).ins = []) ∧
    step s = (step (s.withIns R)).withIns ((step (s.withIns R)).ins ++ tail) := by
  obtain ⟨_, hb, hc⟩ := hloc (s.withIns R)
  have hs' : (s.withIns R).withIns ((s.withIns R).ins ++ tail) = s := by
    simp only [St.withIns_ins, withIns_withIns, ← hs, withIns_self]
  by_cases hR : R = []
  · -- the player's stream is empty: the instruction must not read, or the recorder's stream would
    -- drop below `tail`
    subst hR
    have hst : s.ins = tail := by simpa using hs
    have hnoread : (step (s.withIns [])).inLog.length = (s.withIns []).inLog.length := by
      rcases (hloc s).1 with ⟨h1, _⟩ | ⟨_, h2⟩
      · have := hb s.ins; simp only [withIns_withIns, withIns_self] at this
        rw [← this, h1]; rfl
      · rw [h2, hst, List.length_drop] at hle
        have : 0 < tail.length := List.length_pos_iff.mpr htl
        omega
    refine ⟨fun h => by omega, ?_⟩
    have := hc tail (Or.inr hnoread)
    rw [hs'] at this; exact this
  · refine ⟨fun h => hR (by simpa using h.2), ?_⟩
    have := hc tail (Or.inl (by simpa using hR))
    rw [hs'] at this; exact this

include hloc in
/-- **Frame-level agreement.**  If the recorder's `n` instructions from `s` (stream `R ++ tail`) leave
exactly `tail` unread, then the player's loop on stream `R` with fetch counter = the recorder's
M1 total executes the same `n` instructions without error, ends with no reading left, and the
recorder's state is the player's with `tail` put back. -/
theorem frame_sync (m1 : St μ → Int) (n : Nat) (s : St μ) (R tail : List Int) (fuel : Nat) (last : Int)
    (hs : s.ins = R ++ tail) (hend : (iter step n s).ins = tail) (htl : tail ≠ [])
    (hm1 : ∀ i, i < n → decOf step (iter step i s) = m1 (iter step i s)) (hfuel : n ≤ fuel) :
    ∃ p, runFrame step fuel (sumM1 step m1 n s) (s.withIns R) last =
        .ok (p, if n = 0 then last else (iter step (n - 1) s).pc) ∧
      p.ins = [] ∧ iter step n s = p.withIns tail := by
  induction n generalizing s R fuel last with
  | zero =>
    simp only [iter] at hend
    have hR : R = [] := by
      have : (R ++ tail).length = tail.length := by rw [← hs, hend]
      simp only [List.length_append] at this
      exact List.length_eq_zero_iff.mp (by omega)
    subst hR
    refine ⟨s.withIns [], ?_, rfl, ?_⟩
    · cases fuel <;> simp [runFrame, sumM1]
    · simp only [iter]; rw [← hend]; rfl
  | succ n ih =>
    obtain ⟨fuel', rfl⟩ : ∃ f, fuel = f + 1 := ⟨fuel - 1, by omega⟩
    simp only [iter] at hend
    have hle : tail.length ≤ (step s).ins.length := by
      have := (ins_len_mono step hloc n (step s)).1; rw [hend] at this; exact this
    obtain ⟨hnx, hstep⟩ := step_sync step hloc s R tail hs htl hle
    have hd : decOf step (s.withIns R) = m1 s := by
      have h0 := hm1 0 (by omega)
      simp only [iter] at h0
      rw [← h0]; unfold decOf
      rw [hstep]; rfl
    have hpos : sumM1 step m1 (n + 1) s > 0 := by
      simp only [sumM1]
      have h1 : 1 ≤ m1 s := by rw [← hd]; exact fetchDec_pos _ _ _
      have h2 : 0 ≤ sumM1 step m1 n (step s) := by
        clear ih hend hle hstep hd hnx hs
        have : ∀ (k : Nat) (x : St μ), (∀ i, i < k → 1 ≤ m1 (iter step i x)) → 0 ≤ sumM1 step m1 k x := by
          intro k; induction k with
          | zero => intro x _; simp [sumM1]
          | succ k ihk =>
            intro x hx; simp only [sumM1]
            have a := hx 0 (by omega); simp only [iter] at a
            have b := ihk (step x) (fun i hi => by have := hx (i + 1) (by omega); simpa [iter] using this)
            omega
        exact this n (step s) (fun i hi => by
          have := hm1 (i + 1) (by omega); simp only [iter] at this
          rw [← this]; exact fetchDec_pos _ _ _)
      omega
    have hstep' : (step s).ins = (step (s.withIns R)).ins ++ tail := by rw [hstep]; rfl
    obtain ⟨p, hrun, hp, hfin⟩ := ih (step s) (step (s.withIns R)).ins fuel' s.pc hstep' hend
      (fun i hi => by have := hm1 (i + 1) (by omega); simpa [iter] using this) (by omega)
    refine ⟨p, ?_, hp, by simpa [iter] using hfin⟩
    simp only [runFrame, hpos, if_true, pyIter]
    rw [if_neg hnx]
    simp only [andThen_ok]
    have hd' : fetchDec (mget (s.withIns R).mem (s.withIns R).pc) (rget (s.withIns R).reg 15)
        (rget (step (s.withIns R)).reg 15) = m1 s := hd
    rw [hd']
    have hsum : sumM1 step m1 (n + 1) s - m1 s = sumM1 step m1 n (step s) := by simp only [sumM1]; omega
    rw [hsum]
    have hw : (step s).withIns (step (s.withIns R)).ins = step (s.withIns R) := by
      rw [hstep]; rfl
    rw [hw] at hrun
    rw [show (s.withIns R).pc = s.pc from rfl, hrun]
    cases n with
    | zero => simp [iter]
    | succ m => simp [iter]

/-- What is asked of one recorded frame: at least one instruction, a port source that outlasts the
frame, and - on the states of the run - the player's per-instruction decrement equal to the
recorder's M1 count (for `Sim.step`/`Cmio.step`: `fetchDec_eq_m1` on in-range states). -/
def FrameOk (m1 : St μ → Int) (n : Nat) (src : List Int) (s : St μ) : Prop :=
  1 ≤ n ∧ n < src.length ∧
    ∀ i, i < n → decOf step (iter step i (s.withIns src)) = m1 (iter step i (s.withIns src))

theorem sumM1_ge (m1 : St μ → Int) (n : Nat) (s : St μ)
    (h : ∀ i, i < n → decOf step (iter step i s) = m1 (iter step i s)) : (n : Int) ≤ sumM1 step m1 n s := by
  induction n generalizing s with
  | zero => simp [sumM1]
  | succ n ih =>
    simp only [sumM1]
    have a := h 0 (by omega); simp only [iter] at a
    have b := ih (step s) (fun i hi => by have := h (i + 1) (by omega); simpa [iter] using this)
    have c : 1 ≤ m1 s := by rw [← a]; exact fetchDec_pos _ _ _
    omega

include hloc in
/-- **A recorded frame plays back exactly.** -/
theorem recFrame_play (m1 : St μ → Int) (n : Nat) (src : List Int) (s : St μ) (h : FrameOk step m1 n src s) :
    playFrame .py step (recFrame step m1 n src s).1 s =
        .ok ((recFrame step m1 n src s).2.1, (iter step (n - 1) (s.withIns src)).pc) ∧
      (recFrame step m1 n src s).2.2 =
        classify (iter step (n - 1) (s.withIns src)).mem (iter step (n - 1) (s.withIns src)).pc ∧
      (recFrame step m1 n src s).1.fetch > 0 ∧
      (recFrame step m1 n src s).2.1.mem = (iter step n (s.withIns src)).mem := by
  obtain ⟨hn, hlong, hm1⟩ := h
  have hn0 : n ≠ 0 := by omega
  obtain ⟨c, hc, hsuf⟩ := ins_suffix step hloc n (s.withIns src)
  simp only [St.withIns_ins] at hsuf
  have hrr := recRun_eq step m1 n (s.withIns src) 0 s.pc .other
  have hfr : recFrame step m1 n src s =
      (⟨sumM1 step m1 n (s.withIns src), src.take c⟩, (iter step n (s.withIns src)).withIns [],
        classify (iter step (n - 1) (s.withIns src)).mem (iter step (n - 1) (s.withIns src)).pc) := by
    unfold recFrame
    have : ({ s with ins := src } : St μ) = s.withIns src := rfl
    rw [this, hrr]
    simp only [hn0, if_false, Int.zero_add, hsuf, List.length_drop]
    have : src.length - (src.length - c) = c := by omega
    rw [this]; rfl
  have htl : src.drop c ≠ [] := by
    intro h0; have := congrArg List.length h0; simp only [List.length_drop, List.length_nil] at this; omega
  have hsum := sumM1_ge step m1 n (s.withIns src) hm1
  obtain ⟨p, hrun, hp, hfin⟩ := frame_sync step hloc m1 n (s.withIns src) (src.take c) (src.drop c)
    (sumM1 step m1 n (s.withIns src)).toNat s.pc (by simp) hsuf htl hm1 (by omega)
  rw [hfr]
  refine ⟨?_, rfl, by simp only; omega, ?_⟩
  · unfold playFrame innerLoop
    simp only []
    have e1 : ({ s with ins := src.take c } : St μ) = (s.withIns src).withIns (src.take c) := rfl
    rw [e1, hrun]
    simp only [andThen_ok, hp, ne_eq, not_true_eq_false, if_false, hn0]
    rw [hfin]; simp only [withIns_withIns]
    have : p.withIns [] = p := by rw [← hp]; rfl
    rw [this]
  · simp

/-- What is asked of a recording plan (frame by frame, following the recorder's own states): every
frame is `FrameOk`; the last instruction of the frame still *reads* as what it was when it executed
(`process_block` classifies it by re-reading memory afterwards); and the fetch counter the recorder
announced for the next frame is the one that frame got. -/
def PlanOk (cmio : Bool) (flags : Int) (m1 : St μ → Int) : List (Nat × List Int × Int) → St μ → Prop
  | [], _ => True
  | (n, src, claim) :: rest, s =>
    FrameOk step m1 n src s ∧
    classify (iter step n (s.withIns src)).mem (iter step (n - 1) (s.withIns src)).pc =
      classify (iter step (n - 1) (s.withIns src)).mem (iter step (n - 1) (s.withIns src)).pc ∧
    claim = peekFetch (-1) (recBlock cmio flags step m1 rest
      (boundaryK cmio flags (recFrame step m1 n src s).2.2 claim (recFrame step m1 n src s).2.1)).1 ∧
    PlanOk cmio flags m1 rest
      (boundaryK cmio flags (recFrame step m1 n src s).2.2 claim (recFrame step m1 n src s).2.1)

include hloc in
/-- **Playing a self-made recording reproduces the run** (model level): no desynchronisation - no
"port readings exhausted", none left - and the state the recorder ended in. -/
theorem record_replay (cmio : Bool) (flags : Int) (m1 : St μ → Int) (plan : List (Nat × List Int × Int))
    (s : St μ) (cnt : Nat) (h : PlanOk step cmio flags m1 plan s) :
    playG .py cmio flags step none (-1) (recBlock cmio flags step m1 plan s).1 cnt s =
      .ok (.finished (recBlock cmio flags step m1 plan s).2 (cnt + plan.length)) := by
  induction plan generalizing s cnt with
  | nil => simp [recBlock, playG]
  | cons e rest ih =>
    obtain ⟨n, src, claim⟩ := e
    obtain ⟨hf, hst, hcl, hrest⟩ := h
    obtain ⟨hplay, hk, hpos, hmem⟩ := recFrame_play step hloc m1 n src s hf
    simp only [recBlock, playG, hpos, if_true, hplay, andThen_ok, Bool.false_eq_true, if_false]
    have hb : boundary cmio flags (iter step (n - 1) (s.withIns src)).pc
        (peekFetch (-1) (recBlock cmio flags step m1 rest
          (boundaryK cmio flags (recFrame step m1 n src s).2.2 claim (recFrame step m1 n src s).2.1)).1)
        (recFrame step m1 n src s).2.1 =
        boundaryK cmio flags (recFrame step m1 n src s).2.2 claim (recFrame step m1 n src s).2.1 := by
      unfold boundary
      rw [← hcl, hmem, hst, ← hk]
    rw [hb, ih _ _ hrest]
    simp only [List.length_cons]
    congr 2; omega

end Rzx
