import SkoolVerif.Proofs.AsmInstrChk.Defs
namespace C02Chk
/-- kernel check of the slots of table 4 (0 = unprefixed, 1 = CB, 2 = ED, 3 = DD, 4 = FD, 5 = DDCB, 6 = FDCB) -/
theorem tbl4 : tblChk 4 = true := by decide +kernel
end C02Chk
