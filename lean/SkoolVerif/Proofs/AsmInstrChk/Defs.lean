import SkoolVerif.Gen.C02Tables
import SkoolVerif.Proofs.AsmInstrSlots
import SkoolVerif.Proofs.C07Dis
/-! Shared definitions of the kernel-evaluated slot checks of C02 over the dumped disassembler tables. -/
namespace C02Chk
open InstrDec AsmInstrL

/-- the check at one slot: whatever entry an additional-opcode set puts there must pass `outOk`
(a decoder error is not a claim: the instruction object does not exist) -/
def slotChk (s : Slot) (r : Except DErr SOut) : Bool :=
  match r with
  | .ok so => outOk s so
  | .error _ => true

/-- the check at one slot for every candidate entry × {upper, lower} -/
def disP (s : Slot) : Bool :=
  (candsAt C02Gen.tables s).all (fun cand =>
    slotChk s (disAtC C02Gen.tables false s cand) && slotChk s (disAtC C02Gen.tables true s cand))

/-- `p` at every valid slot of table `t` -/
def rowChk (p : Slot → Bool) (t : Nat) : Bool := allLt 256 (fun i => !(Slot.valid ⟨t, i⟩) || p ⟨t, i⟩)

/-- every slot of table `t` × every candidate entry × {upper, lower} -/
def tblChk (t : Nat) : Bool := rowChk disP t

theorem allLt7 (f : Nat → Bool) (a0 : f 0 = true) (a1 : f 1 = true) (a2 : f 2 = true) (a3 : f 3 = true)
    (a4 : f 4 = true) (a5 : f 5 = true) (a6 : f 6 = true) : allLt 7 f = true := by
  simp [allLt, a0, a1, a2, a3, a4, a5, a6]

theorem allDis_of_tbls (h0 : tblChk 0 = true) (h1 : tblChk 1 = true) (h2 : tblChk 2 = true) (h3 : tblChk 3 = true)
    (h4 : tblChk 4 = true) (h5 : tblChk 5 = true) (h6 : tblChk 6 = true) : allDis C02Gen.tables slotChk = true := by
  have e : allDis C02Gen.tables slotChk = allLt 7 (rowChk disP) := by
    unfold allDis allSlots rowChk disP
    rfl
  rw [e]
  exact allLt7 (rowChk disP) h0 h1 h2 h3 h4 h5 h6

end C02Chk
