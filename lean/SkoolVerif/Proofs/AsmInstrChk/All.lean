import SkoolVerif.Proofs.AsmInstrChk.T0
import SkoolVerif.Proofs.AsmInstrChk.T1
import SkoolVerif.Proofs.AsmInstrChk.T2
import SkoolVerif.Proofs.AsmInstrChk.T3
import SkoolVerif.Proofs.AsmInstrChk.T4
import SkoolVerif.Proofs.AsmInstrChk.T5
import SkoolVerif.Proofs.AsmInstrChk.T6
import SkoolVerif.Proofs.C07Lift
/-! The kernel-evaluated facts about the dumped disassembler tables that C02 uses, collected. -/
namespace C02Chk
open InstrDec AsmInstrL

/-- `ops` sends exactly CB/ED/DD/FD to the prefix decoders, `after_DD` exactly CB to `ddcb_arg` -/
theorem shape_ok : disShape C02Gen.tables = true := by decide +kernel

/-- every slot × every entry an additional-opcode set can put there × {upper, lower} passes `outOk` -/
theorem all_ok : allDis C02Gen.tables slotChk = true := allDis_of_tbls tbl0 tbl1 tbl2 tbl3 tbl4 tbl5 tbl6

/-- the length of the opcode sequences of a slot (taken from the default tables, upper case) -/
def L (s : Slot) : Nat :=
  match disAtC C02Gen.tables false s (baseAt C02Gen.tables s) with
  | .ok so => so.nominal
  | .error _ => 0

/-- no decoder error, well-formed results, and the same length under every additional-opcode set and case -/
theorem len_ok : allDis C02Gen.tables (disLenP L) = true := by decide +kernel

/-- every slot has a positive length -/
theorem lpos_ok : allSlots (fun s => decide (1 ≤ L s)) = true := by decide +kernel

end C02Chk
