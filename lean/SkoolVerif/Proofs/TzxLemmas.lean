import SkoolVerif.Model.TzxFile
import SkoolVerif.Spec.DirectRec
import SkoolVerif.Proofs.TapeFilesLemmas
/-!
TZX: a standard-speed block (0x10, pause 1000 ms) reads back as exactly what `parse_tap`
gives for the same bytes; the direct-recording run-length conversion is faithful.
-/
namespace TzxFile
open Edges TapeFiles DirectRecSpec

/-! ### Direct recording -/

theorem drRuns_sample (tps : Nat) (h : 0 < tps) (prev : Bool) (count : Nat) (bits : List Bool) :
    samplePulses tps prev ((drRuns tps prev count bits).map (·.2)) = List.replicate count prev ++ bits := by
  induction bits generalizing prev count with
  | nil => simp [drRuns, samplePulses, Nat.mul_div_cancel _ h]
  | cons bit rest ih =>
    by_cases hb : bit = prev
    · subst hb
      simp only [drRuns, ↓reduceIte]
      rw [ih, List.replicate_succ', List.append_assoc]
      rfl
    · simp only [drRuns, hb, ↓reduceIte, List.map_cons, samplePulses, Nat.mul_div_cancel _ h]
      have hn : (!prev) = bit := by cases prev <;> cases bit <;> simp_all
      rw [hn, ih]
      simp

theorem drRuns_total (tps : Nat) (prev : Bool) (count : Nat) (bits : List Bool) :
    total ((drRuns tps prev count bits).map (·.2)) = tps * (count + bits.length) := by
  induction bits generalizing prev count with
  | nil => simp [drRuns, total, Nat.mul_comm]
  | cons bit rest ih =>
    by_cases hb : bit = prev
    · simp only [drRuns, hb, ↓reduceIte, ih, List.length_cons]
      congr 1; omega
    · simp only [drRuns, hb, ↓reduceIte, List.map_cons, total, List.foldr_cons] at ih ⊢
      rw [ih]
      simp only [List.length_cons, Nat.mul_add, Nat.mul_one, Nat.mul_comm]
      omega

theorem drRuns_counts (tps : Nat) (prev : Bool) (count : Nat) (bits : List Bool) :
    ∀ cd ∈ drRuns tps prev count bits, cd.1 = 1 := by
  induction bits generalizing prev count with
  | nil => simp [drRuns]
  | cons bit rest ih =>
    by_cases hb : bit = prev
    · simp only [drRuns, hb, ↓reduceIte]; exact ih _ _
    · simp only [drRuns, hb, ↓reduceIte, List.mem_cons]
      rintro cd (rfl | h)
      · rfl
      · exact ih _ _ cd h

/-! ### Standard-speed blocks -/

/-- The bytes of a standard-speed block with a 1000 ms pause. -/
def stdBytes (d : List Nat) : List Nat := [0x10, 232, 3, d.length % 256, d.length / 256] ++ d

def stdBlock (d : List Nat) : TzxBlock := ⟨0x10, some d, tapTimings d, false, true, none⟩

theorem get_std (d R : List Nat) (h : d.length < 65536) :
    getTzxBlock (stdBytes d ++ R) = .ok (R, stdBlock d) := by
  have hl : d.length % 256 + 256 * (d.length / 256) = d.length := by omega
  unfold stdBytes
  generalize d.length % 256 = l0 at hl
  generalize d.length / 256 = l1 at hl
  have hp : w? (232 :: 3 :: l0 :: l1 :: (d ++ R)) 0 = .ok 1000 := rfl
  have hlen : w? (232 :: 3 :: l0 :: l1 :: (d ++ R)) 2 = .ok d.length := by rw [← hl]; rfl
  have htake : ((232 :: 3 :: l0 :: l1 :: (d ++ R)).drop 4).take d.length = d := by simp
  have hdrop : (232 :: 3 :: l0 :: l1 :: (d ++ R)).drop (4 + d.length) = R := by
    rw [Nat.add_comm]; simp
  show getTzxBlock (0x10 :: 232 :: 3 :: l0 :: l1 :: (d ++ R)) = _
  unfold getTzxBlock
  simp only [↓reduceIte, hp, hlen, htake, hdrop, bind, Except.bind, pure, Except.pure]
  cases d with
  | nil => rfl
  | cons b r => rfl

def tzxTail : List (List Nat) → List Nat
  | [] => []
  | d :: rest => stdBytes d ++ tzxTail rest

def numberStd : Nat → List (List Nat) → List (Nat × TzxBlock)
  | _, [] => []
  | bn, d :: rest => (bn, stdBlock d) :: numberStd (bn + 1) rest

theorem stdBytes_ne_nil (d R : List Nat) : stdBytes d ++ R ≠ [] := by simp [stdBytes]

theorem tzxLoop_std (bs : List (List Nat)) (hv : ∀ d ∈ bs, d.length < 65536) (fuel bn : Nat)
    (acc : List (Nat × TzxBlock)) (hf : bs.length ≤ fuel) (hbn : 1 ≤ bn) :
    tzxLoop 1 0 [] fuel (tzxTail bs) bn acc = .ok (acc ++ numberStd bn bs) := by
  induction bs generalizing fuel bn acc with
  | nil => cases fuel <;> simp [tzxLoop, tzxTail, numberStd]
  | cons d rest ih =>
    cases fuel with
    | zero => simp at hf
    | succ fuel =>
      have h1 : ((bn : Int) ≥ 1 ∧ bn ∉ ([] : List Nat)) := ⟨by omega, by simp⟩
      simp only [tzxTail, tzxLoop, stdBytes_ne_nil, ↓reduceIte, get_std d _ (hv d (by simp)), h1, numberStd]
      have : ¬ ((bn : Int) ≥ 0 ∧ (0 : Int) > 0) := by omega
      simp only [this, ↓reduceIte]
      rw [ih (fun x hx => hv x (List.mem_cons_of_mem _ hx)) fuel (bn + 1) _ (by simpa using hf) (by omega)]
      simp

theorem tzxTail_length (bs : List (List Nat)) : bs.length ≤ (tzxTail bs).length := by
  induction bs with
  | nil => simp
  | cons d rest ih => simp [tzxTail, stdBytes]; omega

/-- The blocks handed to `get_edges` for a TAP file (`[b for b in tape.blocks if b.data]`). -/
def tapEdgeBlocks (blocks : List (Nat × List Nat)) : List Block :=
  blocks.filterMap fun nb => match tapTimings nb.2 with
    | some t => some { timings := t, data := nb.2, keys := none }
    | none => none

theorem edgeBlocks_numberStd (bn : Nat) (bs : List (List Nat)) :
    edgeBlocks (numberStd bn bs) = tapEdgeBlocks (number bn bs) := by
  induction bs generalizing bn with
  | nil => rfl
  | cons d rest ih =>
    have ih' := ih (bn + 1)
    unfold edgeBlocks tapEdgeBlocks at ih' ⊢
    simp only [numberStd, number, List.filterMap_cons, stdBlock]
    cases d with
    | nil => simp only [tapTimings]; exact ih'
    | cons b r => simp only [tapTimings, Option.getD_some]; rw [ih']; rfl

end TzxFile
