import SkoolVerif.Proofs.SnapMemLemmas
/-! Lemmas for the bank-prefixed branches of `pokeMem`/`moveMem`/`patchMem`, the window map, and the
spec text (C09). -/
namespace SnapEdit

/-- the range `a1..a2` (step `st`) spec of the POKE option: `N in {a, a+c, a+2c, …, b}` -/
def InRange (a1 a2 st x : Nat) : Prop := a1 ≤ x ∧ x ≤ a2 ∧ (x - a1) % st = 0

instance (a1 a2 st x : Nat) : Decidable (InRange a1 a2 st x) := by unfold InRange; infer_instance

theorem mem_pokeRange {a1 a2 st x : Nat} (hs : 0 < st) :
    x ∈ pyRange a1 (a2 + 1) st ↔ InRange a1 a2 st x := by
  rw [mem_pyRange hs, InRange]; omega

/-- a range shorter than a bank never visits a bank offset twice -/
theorem pokeRange_mod_nodup (a1 a2 st : Nat) (hs : 0 < st) (hspan : a2 < a1 + 0x4000) :
    ((pyRange a1 (a2 + 1) st).map (· % 0x4000)).Nodup := by
  rw [List.Nodup, List.pairwise_map]
  refine List.Pairwise.imp_of_mem ?_ (pyRange_nodup a1 (a2 + 1) st hs)
  intro x y hx hy hne h
  rw [mem_pokeRange hs] at hx hy
  obtain ⟨hx1, hx2, _⟩ := hx
  obtain ⟨hy1, hy2, _⟩ := hy
  apply hne
  omega

theorem mem_map_mod {a1 a2 st j : Nat} (hs : 0 < st) :
    j ∈ (pyRange a1 (a2 + 1) st).map (· % 0x4000) ↔ ∃ x, InRange a1 a2 st x ∧ x % 0x4000 = j := by
  simp only [List.mem_map, mem_pokeRange hs]

/-! ### the window map -/

/-- the three RAM windows are three different banks (false exactly when a 128K snapshot has bank 2 or
5 paged in at 0xC000) -/
def Mem.LocInj (m : Mem) : Prop := m.s1 ≠ m.s2 ∧ m.s1 ≠ m.s3 ∧ m.s2 ≠ m.s3

instance (m : Mem) : Decidable m.LocInj := by unfold Mem.LocInj; infer_instance

theorem loc_lt (m : Mem) (a : Nat) (h : a < 0x10000) : ∃ o, m.loc a = some (o, a % 0x4000) := by
  have : a / 0x4000 = 0 ∨ a / 0x4000 = 1 ∨ a / 0x4000 = 2 ∨ a / 0x4000 = 3 := by omega
  rcases this with h | h | h | h <;> simp [Mem.loc, Mem.slot, h]

theorem loc_ge (m : Mem) (a : Nat) (h : 0x10000 ≤ a) : m.loc a = none := by
  have : 4 ≤ a / 0x4000 := by omega
  simp only [Mem.loc, Mem.slot]
  split <;> first | omega | rfl

theorem loc_inj (m : Mem) (hi : m.LocInj) (a b : Nat) (ha : a < 0x10000) (hb : b < 0x10000)
    (h : m.loc a = m.loc b) : a = b := by
  obtain ⟨h12, h13, h23⟩ := hi
  have qa : a / 0x4000 = 0 ∨ a / 0x4000 = 1 ∨ a / 0x4000 = 2 ∨ a / 0x4000 = 3 := by omega
  have qb : b / 0x4000 = 0 ∨ b / 0x4000 = 1 ∨ b / 0x4000 = 2 ∨ b / 0x4000 = 3 := by omega
  simp only [Mem.loc, Mem.slot] at h
  rcases qa with qa | qa | qa | qa <;> rcases qb with qb | qb | qb | qb <;>
    simp only [qa, qb, Option.map_some, Option.some.injEq, Prod.mk.injEq, Obj.bank.injEq, reduceCtorEq,
      false_and] at h <;> first | omega | (exfalso; omega) | (exfalso; exact absurd h.1 (by assumption)) |
      (exfalso; exact absurd h.1.symm (by assumption))

theorem upto_map_loc_nodup (m : Mem) (hi : m.LocInj) (a n : Nat) (h : a + n ≤ 0x10000) :
    ((upto a (a + n)).map m.loc).Nodup := by
  rw [List.Nodup, List.pairwise_map]
  have hnd : (upto a (a + n)).Nodup := by
    unfold upto
    refine List.Pairwise.map _ (fun x y hxy h => hxy ?_) List.nodup_range
    omega
  refine List.Pairwise.imp_of_mem ?_ hnd
  intro x y hx hy hne h'
  rw [mem_upto] at hx hy
  exact hne (loc_inj m hi x y (by omega) (by omega) h')

theorem lastWrite_not_target (loc : Nat → Option (Obj × Nat)) (c : Obj × Nat) :
    ∀ (addrs vals : List Nat) (cur : Option Nat), (∀ a ∈ addrs, loc a ≠ some c) →
      lastWrite loc c addrs vals cur = cur
  | [], vals, cur, _ => by simp [lastWrite]
  | a :: as, [], cur, _ => by simp [lastWrite]
  | a :: as, v :: vs, cur, h => by
    simp only [lastWrite]
    rw [lastWrite_not_target loc c as vs _ (fun x hx => h x (List.mem_cons_of_mem _ hx))]
    simp [h a List.mem_cons_self]

/-! ### spec text -/

theorem splitFirst_none (c : Char) : ∀ (s : List Char), c ∉ s → splitFirst c s = none
  | [], _ => rfl
  | x :: xs, h => by
    have hx : x ≠ c := fun e => h (by simp [e])
    have := splitFirst_none c xs (fun h' => h (List.mem_cons_of_mem _ h'))
    simp [splitFirst, hx, this]

theorem splitFirst_append (c : Char) : ∀ (a b : List Char), c ∉ a →
    splitFirst c (a ++ c :: b) = some (a, b)
  | [], b, _ => by simp [splitFirst]
  | x :: xs, b, h => by
    have hx : x ≠ c := fun e => h (by simp [e])
    have := splitFirst_append c xs b (fun h' => h (List.mem_cons_of_mem _ h'))
    simp [splitFirst, hx, this]

/-- pairwise distinct target cells: the `k`-th target holds the `k`-th value afterwards -/
theorem lastWrite_at (loc : Nat → Option (Obj × Nat)) (c : Obj × Nat) :
    ∀ (addrs vals : List Nat) (cur : Option Nat) (k : Nat) (hk : k < addrs.length),
      (addrs.map loc).Nodup → k < vals.length → loc addrs[k] = some c →
      lastWrite loc c addrs vals cur = vals[k]?
  | [], _, _, k, hk, _, _, _ => by simp at hk
  | a :: as, [], _, k, _, _, hv, _ => by simp at hv
  | a :: as, v :: vs, cur, 0, _, hn, _, hc => by
    simp only [List.getElem_cons_zero] at hc
    simp only [List.map_cons, List.nodup_cons] at hn
    simp only [lastWrite, hc, if_true]
    rw [lastWrite_not_target loc c as vs _ (fun x hx hx' => hn.1 (by rw [hc, ← hx']; exact List.mem_map_of_mem hx))]
    simp
  | a :: as, v :: vs, cur, k + 1, hk, hn, hv, hc => by
    simp only [List.getElem_cons_succ] at hc
    simp only [List.map_cons, List.nodup_cons] at hn
    have hk' : k < as.length := by simpa using hk
    have hne : loc a ≠ some c := by
      intro h; apply hn.1; rw [h, ← hc]; exact List.mem_map_of_mem (List.getElem_mem hk')
    simp only [lastWrite, hne, if_false]
    rw [lastWrite_at loc c as vs cur k hk' hn.2 (by simpa using hv) hc]
    simp

theorem getPage_no_colon (param : List Char) (d : Option Nat) (h : ':' ∉ param) :
    getPage param d = .ok (d, param) := by
  simp [getPage, splitFirst_none ':' param h]

theorem getPage_prefix (pg rest : List Char) (d : Option Nat) (n : Nat) (h : ':' ∉ pg)
    (hn : getIntParam pg false = some n) : getPage (pg ++ ':' :: rest) d = .ok (some n, rest) := by
  simp [getPage, splitFirst_append ':' pg rest h, hn]

end SnapEdit
