import SkoolVerif.Proofs.SemBasics
/-!
Byte-level facts behind the CB-group closures: RES/SET masks, the `BIT n,(IX+d)` flag patch,
and the INC/DEC/RL/RR table bridge.  The finite ones are kernel-evaluated over all bytes.
-/
namespace C05
open Z80 Sim Spec Z80Isa Z80Spec TableRanges AluCheck

/-- RES: `v & mask` clears exactly bit `n` (all 8 masks × 256 values) -/
theorem res_all : allLt 8 (fun n => allLt 256 (fun v =>
    PyInt.land (v : Int) (255 - (2 : Int) ^ n) == ((resBit n v : Nat) : Int))) = true := by decide +kernel

theorem set_all : allLt 8 (fun n => allLt 256 (fun v =>
    PyInt.lor (v : Int) ((2 : Int) ^ n) == ((setBit n v : Nat) : Int))) = true := by decide +kernel

theorem res_spec (m : Int) (n : Nat) (h : resBitOf m = some n) (v : Int) (hv : Byte v) :
    PyInt.land v m = ((resBit n v.toNat : Nat) : Int) := by
  have hn : n < 8 ∧ m = 255 - (2 : Int) ^ n := by
    unfold resBitOf at h
    repeat (split at h; (· rename_i hc; simp at h; subst h; subst hc; decide))
    simp at h
  have := allLt_spec (allLt_spec res_all n hn.1) v.toNat (by unfold Byte at hv; omega)
  have e : ((v.toNat : Nat) : Int) = v := by unfold Byte at hv; omega
  simp only [e, beq_iff_eq] at this
  rw [hn.2]; exact this

theorem set_spec (m : Int) (n : Nat) (h : setBitOf m = some n) (v : Int) (hv : Byte v) :
    PyInt.lor v m = ((setBit n v.toNat : Nat) : Int) := by
  have hn : n < 8 ∧ m = (2 : Int) ^ n := by
    unfold setBitOf at h
    repeat (split at h; (· rename_i hc; simp at h; subst h; subst hc; decide))
    simp at h
  have := allLt_spec (allLt_spec set_all n hn.1) v.toNat (by unfold Byte at hv; omega)
  have e : ((v.toNat : Nat) : Int) = v := by unfold Byte at hv; omega
  simp only [e, beq_iff_eq] at this
  rw [hn.2]; exact this

/-- `BIT n,(IX+d)`: keeping all but bits 5/3 of the register-form flags and taking bits 5/3 from
`hi` is `bitTestMem` (2 × 8 × 256 table entries, and 256 high bytes, by the kernel) -/
theorem bitmem_all : allLt 2 (fun c => allLt 8 (fun b => allLt 256 (fun v =>
    PyInt.land ((bitTest c b v : Nat) : Int) 215 == ((bitTestMem c b v 0 : Nat) : Int)))) = true := by decide +kernel

theorem hi53_all : allLt 256 (fun h =>
    PyInt.land (h : Int) 40 == ((fl (bit h 5) 32 + fl (bit h 3) 8 : Nat) : Int)) = true := by decide +kernel

theorem bitTestMem_split (c b v hi : Nat) :
    bitTestMem c b v hi = bitTestMem c b v 0 + (fl (bit hi 5) 32 + fl (bit hi 3) 8) := by
  simp only [bitTestMem, mkF, fl, bit]
  have h5 : Nat.testBit 0 5 = false := by decide
  have h3 : Nat.testBit 0 3 = false := by decide
  simp only [h5, h3]
  simp only [Bool.false_eq_true, if_false]
  omega

theorem bit_xy_spec (c b v hi : Int) (hc : 0 ≤ c ∧ c < 2) (hb : 0 ≤ b ∧ b < 8) (hv : Byte v) (hh : Byte hi) :
    PyInt.land (Tbl.BIT c b v) 215 + PyInt.land hi 40 = ((bitTestMem c.toNat b.toNat v.toNat hi.toNat : Nat) : Int) := by
  rw [(BIT_spec c b v hc hb hv).1]
  have h1 := allLt_spec (allLt_spec (allLt_spec bitmem_all c.toNat (by omega)) b.toNat (by omega)) v.toNat
    (by unfold Byte at hv; omega)
  have h2 := allLt_spec hi53_all hi.toNat (by unfold Byte at hh; omega)
  have e : ((hi.toNat : Nat) : Int) = hi := by unfold Byte at hh; omega
  simp only [beq_iff_eq, e] at h1 h2
  rw [h1, h2, bitTestMem_split c.toNat b.toNat v.toNat hi.toNat]
  push_cast
  rfl

/-! ### INC / DEC / RL / RR -/

theorem fcInstr_inv (fc : TblP2) (l : Loc8) (copy : Option Reg8) (i : ZInstr) (h : fcInstr fc l copy = some i) :
    (fc = .INC ∧ copy = none ∧ i = .inc8 l) ∨ (fc = .DEC ∧ copy = none ∧ i = .dec8 l) ∨
    (fc = .RL ∧ i = .rot .RL l copy) ∨ (fc = .RR ∧ i = .rot .RR l copy) := by
  cases fc <;> simp [fcInstr] at h
  · right; left; exact ⟨rfl, h.1, h.2.symm⟩
  · left; exact ⟨rfl, h.1, h.2.symm⟩
  · right; right; left; exact ⟨rfl, h.symm⟩
  · right; right; right; exact ⟨rfl, h.symm⟩

end C05
