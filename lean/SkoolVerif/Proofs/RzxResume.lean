import SkoolVerif.Proofs.RzxPlayLemmas
import SkoolVerif.Proofs.RzxInputLemmas
/-!
Stop → write → read back → play, generically in the step function and in the relation between the
state at the stop and the state restored from the embedded snapshot.
-/
namespace Rzx
open Z80 RzxInput
variable {μ : Type} [MemLike μ]

theorem parseValues_writeFrames (fs : List RzxInput.Frame) (hok : FramesOk fs) (post : List Nat) :
    parseValues fs.length (writeFrames fs ++ post) = .ok fs := by
  obtain ⟨ixs, hp, hm⟩ := parseLoop_writeFrames fs hok [] post 0 0
  simp only [List.nil_append, List.length_nil] at hp hm
  simp only [parseValues, parseFrames, hp, hm]

/-- Stop at frame count `k`; the frames left (`rem`) are a suffix of the block, survive
`write_rzx` → `parse_rzx` unchanged, and played from any state `E`-related to the state at the stop
give the uninterrupted result up to `E`. -/
theorem resume_generic (impl : Impl) (cmio : Bool) (flags : Int) (step : St μ → St μ)
    {E : St μ → St μ → Prop} (hE : RelOk cmio flags E) (hc : StepCongE E step)
    (k : Nat) (fs : List RzxInput.Frame) (hok : FramesOk fs) (cnt : Nat) (s s' : St μ) (cnt' : Nat) (rem : List Rzx.Frame)
    (hstop : playBlock impl cmio flags step (some k) (fs.map Frame.ofInput) cnt s = .ok (.stopped s' cnt' rem)) :
    ∃ remN : List RzxInput.Frame, rem = remN.map Frame.ofInput ∧
      parseValues remN.length (writeFrames remN) = .ok remN ∧
      ∀ s'', E s' s'' →
        RelRes (RelOutE E) (playBlock impl cmio flags step none (fs.map Frame.ofInput) cnt s)
          (playBlock impl cmio flags step none (remN.map Frame.ofInput) cnt' s'') := by
  obtain ⟨pre, hpre⟩ := playG_stopped_suffix impl cmio flags step (some k) (-1) _ cnt s s' cnt' rem hstop
  have hrem : rem = (fs.drop pre.length).map Frame.ofInput := by
    have := congrArg (List.drop pre.length) hpre
    rw [List.drop_left, ← List.map_drop] at this
    exact this.symm
  refine ⟨fs.drop pre.length, hrem, ?_, ?_⟩
  · have hok' : FramesOk (fs.drop pre.length) := fun f hf => hok f (List.mem_of_mem_drop hf)
    have := parseValues_writeFrames (fs.drop pre.length) hok' []
    simpa using this
  · intro s'' heq
    have h1 := playG_stop_resume impl cmio flags step k (-1) (fs.map Frame.ofInput) cnt s
    unfold playBlock at hstop
    rw [hstop] at h1
    simp only at h1
    unfold playBlock
    rw [h1, ← hrem]
    exact playG_congE impl cmio flags step hE hc none (-1) rem cnt' s' s'' heq

end Rzx
