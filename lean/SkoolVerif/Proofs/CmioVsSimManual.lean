import SkoolVerif.Proofs.CmioVsSimDefs
import SkoolVerif.Spec.AluCheck
/-!
Lemmas behind the three closures the one-line generic tactic of `Gen/CmioVsSimThms.lean` does not
close on its own:

* `BIT n,(HL)` — the contended closure ors bits 5 and 3 of MEMPTR's high byte into F
  (`f53_mask`: masking them out gives back the plain closure's value, for any integers);
* `HALT`, `LD A,I/R` — they test `T % frame_duration < int_active` *after* adding the contention
  delay.  Under the frame layout `CfgOk` (the interrupt window ends at or before the contended window
  starts, and the contended window ends at least 100 T-states before the frame does) an instruction
  that starts inside the contended window cannot reach the interrupt window, delayed or not
  (`int_test_plain`, `int_test_delay`, using `contend_le`: at most 6 T-states per bus access).
-/
namespace CmioVsSim
open Z80 Contend
variable {μ : Type} [MemLike μ]

omit [MemLike μ] in
theorem SameButClock.toModF53 {a b : St μ} (h : SameButClock a b) : SameModF53 a b := by
  obtain ⟨h1, h2, h3, h4, h5, h6, h7, h8, h9, h10⟩ := h
  exact ⟨fun i _ => by rw [h1], by rw [h1], h2, h3, h4, h5, h6, h7, h8, h9, h10⟩

/-! ### bits 5 and 3 of F -/

theorem and_low (k m : Nat) (hk : k < 256) : k &&& m = k &&& (m % 256) := by
  have h1 : k &&& m < 256 := Nat.lt_of_le_of_lt Nat.and_le_left hk
  have h2 := Nat.and_mod_two_pow (a := k) (b := m) (n := 8)
  rw [Nat.mod_eq_of_lt (show k &&& m < 2^8 from h1), Nat.mod_eq_of_lt (show k < 2^8 from hk)] at h2
  exact h2

theorem sub215 (j : Nat) (h : j < 256) : (215 - (215 &&& j)) &&& 215 = 215 - (215 &&& j) := by
  have hk : AluCheck.allLt 256 (fun j => (215 - (215 &&& j)) &&& 215 == 215 - (215 &&& j)) = true := by
    decide +kernel
  simpa using AluCheck.allLt_spec hk j h

theorem sub40 (j : Nat) (h : j < 256) : (40 - (40 &&& j)) &&& 40 = 40 - (40 &&& j) := by
  have hk : AluCheck.allLt 256 (fun j => (40 - (40 &&& j)) &&& 40 == 40 - (40 &&& j)) = true := by
    decide +kernel
  simpa using AluCheck.allLt_spec hk j h

/-- Python `x & 0xD7` is a natural number with no bit outside 0xD7, for any integer `x` -/
theorem land215 (x : Int) : ∃ a : Nat, PyInt.land x 215 = (a : Int) ∧ a &&& 215 = a := by
  cases x with
  | ofNat m => exact ⟨m &&& 215, rfl, by rw [Nat.and_assoc]; rfl⟩
  | negSucc m =>
    refine ⟨215 - (215 &&& m), rfl, ?_⟩
    rw [and_low 215 m (by decide)]
    exact sub215 _ (Nat.mod_lt _ (by decide))

theorem land40 (x : Int) : ∃ a : Nat, PyInt.land x 40 = (a : Int) ∧ a &&& 40 = a := by
  cases x with
  | ofNat m => exact ⟨m &&& 40, rfl, by rw [Nat.and_assoc]; rfl⟩
  | negSucc m =>
    refine ⟨40 - (40 &&& m), rfl, ?_⟩
    rw [and_low 40 m (by decide)]
    exact sub40 _ (Nat.mod_lt _ (by decide))

/-- masking out bits 5 and 3 forgets whatever was or-ed into them: `((x & 0xD7) | (y & 0x28)) & 0xD7 = x & 0xD7` -/
theorem f53_mask (x y : Int) :
    PyInt.land (PyInt.lor (PyInt.land x 215) (PyInt.land y 40)) 215 = PyInt.land x 215 := by
  obtain ⟨a, ha, ha2⟩ := land215 x
  obtain ⟨c, hc, hc2⟩ := land40 y
  rw [ha, hc]
  show ((((a ||| c) &&& 215 : Nat)) : Int) = (a : Int)
  congr 1
  rw [Nat.and_or_distrib_right, ha2, ← hc2, Nat.and_assoc]
  simp

/-! ### size of a delay -/

theorem foldl_delay_le (f : Int × Int → Int × Int → Int × Int)
    (hf : ∀ acc x, (f acc x).1 ≤ acc.1 + 6) (l : List (Int × Int)) (acc : Int × Int) :
    (l.foldl f acc).1 ≤ acc.1 + 6 * l.length := by
  induction l generalizing acc with
  | nil => simp
  | cons x l ih =>
    simp only [List.foldl_cons, List.length_cons]
    have h1 := ih (f acc x)
    have h2 := hf acc x
    omega

theorem contend48_le (t : Int) (l : List (Int × Int)) : contend48 t l ≤ 6 * l.length := by
  unfold contend48
  refine Int.le_trans (foldl_delay_le _ ?_ l (0, t)) (by simp)
  intro acc x
  obtain ⟨d, t'⟩ := acc; obtain ⟨a, n⟩ := x
  simp only
  split
  · have := (delays48_range t').2; simp; omega
  · simp; omega

theorem contend128_le (o t : Int) (l : List (Int × Int)) : contend128 o t l ≤ 6 * l.length := by
  unfold contend128
  simp only
  refine Int.le_trans (foldl_delay_le _ ?_ l (0, t)) (by simp)
  intro acc x
  obtain ⟨d, t'⟩ := acc; obtain ⟨a, n⟩ := x
  simp only
  split
  · have := (delays128_range t').2; simp; omega
  · simp; omega

/-- a delay is at most 6 T-states per bus access of the pattern -/
theorem contend_le (cfg : Cfg) (m : μ) (t : Int) (l : List (Int × Int)) :
    contend cfg m t l ≤ 6 * l.length := by
  unfold contend; split
  · exact contend128_le ..
  · exact contend48_le ..

/-! ### frame layout -/

/-- The frame layout `HALT` and `LD A,I/R` rely on: the interrupt window `[0, int_active)` does not
reach into the contended window `(t0, t1)`, which ends at least 100 T-states before the frame does. -/
def CfgOk (cfg : Cfg) : Prop :=
  0 < cfg.frame_duration ∧ 0 ≤ cfg.int_active ∧ cfg.int_active ≤ cfg.t0 ∧ cfg.t1 + 100 ≤ cfg.frame_duration

instance (cfg : Cfg) : Decidable (CfgOk cfg) := by unfold CfgOk; exact inferInstance

/-- both machine configurations of `CMIOSimulator.__init__` have that layout -/
theorem cfgOk_48k : CfgOk (cfgFor false) := by decide
theorem cfgOk_128k : CfgOk (cfgFor true) := by decide

/-- inside the contended window, `k < 100` further T-states stay inside the frame and outside the
interrupt window -/
theorem window_no_int (cfg : Cfg) (h : CfgOk cfg) (t k : Int) (hk0 : 0 ≤ k) (hk : k < 100)
    (hw : cfg.t0 < t % cfg.frame_duration ∧ t % cfg.frame_duration < cfg.t1) :
    ¬ ((t + k) % cfg.frame_duration < cfg.int_active) := by
  obtain ⟨h0, h1, h2, h3⟩ := h
  have e : (t + k) % cfg.frame_duration = t % cfg.frame_duration + k := by
    have hk' : k % cfg.frame_duration = k := Int.emod_eq_of_lt hk0 (by omega)
    rw [Int.add_emod, hk']
    exact Int.emod_eq_of_lt (by omega) (by omega)
  omega

/-- rewrite rule for the plain closure's interrupt-window test (instruction started in the contended window) -/
theorem int_test_plain (cfg : Cfg) (h : CfgOk cfg) (t : Int)
    (hw : cfg.t0 < t % cfg.frame_duration ∧ t % cfg.frame_duration < cfg.t1) (c : Int) (hc0 : 0 ≤ c) (hc : c < 100) :
    ((t + c) % cfg.frame_duration < cfg.int_active) = False :=
  eq_false (window_no_int cfg h t c hc0 hc hw)

/-- rewrite rule for the contended closure's test: `c` T-states plus the delay of a pattern of `l.length` accesses -/
theorem int_test_delay (cfg : Cfg) (h : CfgOk cfg) (t : Int)
    (hw : cfg.t0 < t % cfg.frame_duration ∧ t % cfg.frame_duration < cfg.t1) (m : μ) (tm : Int) (c : Int)
    (l : List (Int × Int)) (hc0 : 0 ≤ c) (hc : c + 6 * l.length < 100) :
    ((t + (c + contend cfg m tm l)) % cfg.frame_duration < cfg.int_active) = False := by
  have := contend_le cfg m tm l
  have := contend_nonneg cfg m tm l
  exact eq_false (window_no_int cfg h t _ (by omega) (by omega) hw)

/-! ### independence of the clock -/

/-- `b` is `a` with the clock moved by `d` (MEMPTR not compared) -/
def ShiftedBy (d : Int) (a b : St μ) : Prop :=
  b.reg = a.reg ∧ b.mem = a.mem ∧ b.pc = a.pc ∧ b.iff = a.iff ∧ b.im = a.im ∧ b.halt = a.halt ∧
    b.ins = a.ins ∧ b.outs = a.outs ∧ b.inLog = a.inLog ∧ b.t = a.t + d

omit [MemLike μ] in
theorem ShiftedBy.self (s : St μ) (t' mp' : Int) : ShiftedBy (t' - s.t) s { s with t := t', memptr := mp' } :=
  ⟨rfl, rfl, rfl, rfl, rfl, rfl, rfl, rfl, rfl, by show t' = s.t + (t' - s.t); omega⟩

omit [MemLike μ] in
/-- plain from `x` / plain from the later clock / contended from the later clock -/
theorem ShiftedBy.trans_same {d : Int} {x y z : St μ} (h1 : ShiftedBy d x y) (h2 : SameButClock y z) (hd : 0 ≤ d) :
    SameButClock x z := by
  obtain ⟨a1, a2, a3, a4, a5, a6, a7, a8, a9, a10⟩ := h1
  obtain ⟨b1, b2, b3, b4, b5, b6, b7, b8, b9, b10⟩ := h2
  exact ⟨b1.trans a1, b2.trans a2, b3.trans a3, b4.trans a4, b5.trans a5, b6.trans a6, b7.trans a7, b8.trans a8,
    b9.trans a9, by omega⟩

omit [MemLike μ] in
/-- two states related by `SameButClock` differ in T and MEMPTR only -/
theorem SameButClock.eq_with {a b : St μ} (h : SameButClock a b) : b = { a with t := b.t, memptr := b.memptr } := by
  obtain ⟨h1, h2, h3, h4, h5, h6, h7, h8, h9, _⟩ := h
  cases a; cases b
  simp only at h1 h2 h3 h4 h5 h6 h7 h8 h9
  subst h1 h2 h3 h4 h5 h6 h7 h8 h9
  rfl

end CmioVsSim
