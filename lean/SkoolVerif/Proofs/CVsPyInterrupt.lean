import SkoolVerif.Gen.CH.accept_interrupt
import SkoolVerif.Gen.CCmioH.accept_interrupt
import SkoolVerif.Model.TraceLoop
import SkoolVerif.Proofs.CVsPyDefs
/-!
The C function `accept_interrupt` (translated by `translate/c2lean.py`, both builds) equals the hand model
`TraceLoop.acceptInterrupt` of `Simulator.accept_interrupt` / `CMIOSimulator.accept_interrupt` that C10 and C20
reason about (that model is tied to the Python methods by their correspondence checks, not by translation).
-/
open Z80 TableRanges
namespace CVsPyInt
variable {μ : Type} [MemLike μ] [CellMem μ]

set_option maxHeartbeats 2000000 in
theorem plain (cfg : Cfg) (p : Int) (hp : 0 ≤ p ∧ p < 65536) (s : St μ) (h : RInv s) (hrep : CRep cfg s) :
    CSimH.accept_interrupt cfg p s =
      ((TraceLoop.acceptInterrupt false s p).1, if (TraceLoop.acceptInterrupt false s p).2 = true then 1 else 0) := by
  obtain ⟨hr, hm, hpc, ht0, hiff, him, hhalt, hmp, hins⟩ := h
  obtain ⟨htlt, hfd0, hfd1, hia, hct0, hct1⟩ := hrep
  unfold_ranges
  split_hyps
  simp only [csim_handler, TraceLoop.acceptInterrupt, TraceLoop.intBlocked, TraceLoop.intAccepted, Id.run, pure]
  ceq_simp
  by_cases hb : mget s.mem p = 251 ∨ (mget s.mem p = 221 ∨ mget s.mem p = 253) ∧ p = (s.pc - 1) % 65536
  · simp only [hb, if_true, Bool.false_eq_true, if_false]
  · simp only [hb, if_false, if_true]
    refine Prod.ext ?_ ?_
    · apply St_ext' <;> (try intro i) <;> grind [rget_rset, rset_size]
    · grind

set_option maxHeartbeats 2000000 in
theorem contended (cfg : Cfg) (p : Int) (hp : 0 ≤ p ∧ p < 65536) (s : St μ) (h : RInv s) (hrep : CRep cfg s) :
    CCmioH.accept_interrupt cfg p s =
      ((TraceLoop.acceptInterrupt true s p).1, if (TraceLoop.acceptInterrupt true s p).2 = true then 1 else 0) := by
  obtain ⟨hr, hm, hpc, ht0, hiff, him, hhalt, hmp, hins⟩ := h
  obtain ⟨htlt, hfd0, hfd1, hia, hct0, hct1⟩ := hrep
  unfold_ranges
  split_hyps
  simp only [csim_handler, TraceLoop.acceptInterrupt, TraceLoop.intBlocked, TraceLoop.intAccepted, Id.run, pure]
  ceq_simp
  by_cases hb : mget s.mem p = 251 ∨ (mget s.mem p = 221 ∨ mget s.mem p = 253) ∧ p = (s.pc - 1) % 65536
  · simp only [hb, if_true, Bool.false_eq_true, if_false]
  · simp only [hb, if_false, if_true]
    refine Prod.ext ?_ ?_
    · apply St_ext' <;> (try intro i) <;> grind [rget_rset, rset_size]
    · grind

end CVsPyInt
