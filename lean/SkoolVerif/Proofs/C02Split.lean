import SkoolVerif.Model.AsmEval
import SkoolVerif.Spec.OperandSpec
/-!
`split_unquoted`: the piecewise Python algorithm (split on the separator, then
re-join the pieces that were inside quotes) equals a one-pass character-level
scanner, and splitting a rendered operand list returns the operands.
-/
namespace C02L
open OpText AsmEval OperandSpec

theorem pySplit_ne_nil (sep : Nat) (t : Txt) : pySplit sep t ≠ [] := by
  cases t with
  | nil => simp [pySplit]
  | cons c rest =>
    simp only [pySplit]
    split
    · simp
    · split <;> simp

theorem scanPiece_nil (q esc : Bool) : scanPiece q esc [] = q := by simp [scanPiece]

/-- Generalised equivalence: resuming the piecewise algorithm in the middle of
a piece. -/
theorem join_eq_splitCL (sep : Nat) (h34 : sep ≠ 34) (h92 : sep ≠ 92) :
    ∀ (t : Txt) (q esc : Bool) (cur : Txt),
      (match pySplit sep t with
       | p :: ps => joinPieces sep (cur ++ p) (scanPiece q esc p) ps
       | [] => []) = splitCL sep q esc cur t := by
  intro t
  induction t with
  | nil => intro q esc cur; simp [pySplit, joinPieces, scanPiece, splitCL]
  | cons c rest ih =>
    intro q esc cur
    by_cases hc : c = sep
    · subst hc
      simp only [pySplit, if_true, List.append_nil, scanPiece_nil, splitCL]
      cases hp : pySplit c rest with
      | nil => exact absurd hp (pySplit_ne_nil c rest)
      | cons p ps =>
        cases q with
        | true =>
          have := ih true false (cur ++ [c])
          simp only [hp, List.append_assoc, List.singleton_append] at this
          simp [joinPieces, this]
        | false =>
          have := ih false false []
          simp only [hp, List.nil_append] at this
          simp [joinPieces, this]
    · cases hp : pySplit sep rest with
      | nil => exact absurd hp (pySplit_ne_nil sep rest)
      | cons p ps =>
        simp only [pySplit, hc, if_false, hp, splitCL]
        by_cases hesc : esc = true
        · have := ih q false (cur ++ [c])
          simp only [hp, List.append_assoc, List.singleton_append] at this
          simp [scanPiece, hesc, this]
        · have hesc' : esc = false := by simpa using hesc
          subst hesc'
          by_cases h1 : c = 34
          · have := ih (!q) false (cur ++ [c])
            simp only [hp, List.append_assoc, List.singleton_append] at this
            simp [scanPiece, h1, this] at this ⊢
            exact this
          · by_cases h2 : c = 92 ∧ q = true
            · have := ih q true (cur ++ [c])
              simp only [hp, List.append_assoc, List.singleton_append] at this
              simp [scanPiece, h1, h2, this] at this ⊢
              exact this
            · have := ih q false (cur ++ [c])
              simp only [hp, List.append_assoc, List.singleton_append] at this
              simp only [scanPiece, h1, h2, if_false, Bool.false_eq_true] at this ⊢
              exact this

theorem pySplit_eq_splitCL_noquote (sep : Nat) : ∀ (t cur : Txt), 34 ∉ t →
    (match pySplit sep t with
     | p :: ps => (cur ++ p) :: ps
     | [] => []) = splitCL sep false false cur t := by
  intro t
  induction t with
  | nil => intro cur _; simp [pySplit, splitCL]
  | cons c rest ih =>
    intro cur h
    have hc34 : c ≠ 34 := by intro e; subst e; simp at h
    have hr : 34 ∉ rest := by intro e; exact h (by simp [e])
    by_cases hc : c = sep
    · subst hc
      have := ih [] hr
      cases hp : pySplit c rest with
      | nil => exact absurd hp (pySplit_ne_nil c rest)
      | cons p ps =>
        simp only [hp, List.nil_append] at this
        simp [pySplit, splitCL, hp, this]
    · have := ih (cur ++ [c]) hr
      cases hp : pySplit sep rest with
      | nil => exact absurd hp (pySplit_ne_nil sep rest)
      | cons p ps =>
        simp only [hp, List.append_assoc, List.singleton_append] at this
        simp [pySplit, splitCL, hc, hp, hc34, this]

/-- **`split_unquoted` meets its character-level specification** for every
text and every separator other than `"` and `\`. -/
theorem splitUnquoted_eq_spec (sep : Nat) (h34 : sep ≠ 34) (h92 : sep ≠ 92) (t : Txt) :
    splitUnquoted sep t = splitCL sep false false [] t := by
  unfold splitUnquoted
  split
  · have := join_eq_splitCL sep h34 h92 t false false []
    simp only [List.nil_append] at this
    exact this
  · rename_i hq
    have := pySplit_eq_splitCL_noquote sep t [] hq
    cases hp : pySplit sep t with
    | nil => exact absurd hp (pySplit_ne_nil sep t)
    | cons p ps => simpa [hp] using this

/-! ### splitting a rendered operand list -/

theorem splitCL_item (sep : Nat) : ∀ (it : Txt) (q esc : Bool) (cur rest : Txt) (q' esc' : Bool),
    itemEnd sep q esc it = some (q', esc') →
    splitCL sep q esc cur (it ++ rest) = splitCL sep q' esc' (cur ++ it) rest := by
  intro it
  induction it with
  | nil => intro q esc cur rest q' esc' h; simp [itemEnd] at h; simp [h.1, h.2]
  | cons c cs ih =>
    intro q esc cur rest q' esc' h
    simp only [itemEnd] at h
    simp only [List.cons_append, splitCL]
    by_cases hc : c = sep
    · simp only [hc, if_true] at h ⊢
      cases q with
      | false => simp at h
      | true =>
        simp only [if_true] at h ⊢
        rw [ih _ _ _ _ _ _ h]; simp
    · simp only [hc, if_false] at h ⊢
      split at h
      · rename_i he; simp only [he, if_true]; rw [ih _ _ _ _ _ _ h]; simp
      · rename_i he
        simp only [he, if_false]
        split at h
        · rename_i h1; simp only [h1, if_true]; rw [ih _ _ _ _ _ _ h]; simp
        · rename_i h1
          simp only [h1, if_false]
          split at h
          · rename_i h2; rw [if_pos h2, ih _ _ _ _ _ _ h]; simp
          · rename_i h2; rw [if_neg h2, ih _ _ _ _ _ _ h]; simp

/-- **split ∘ render = id**: joining safe items with the separator and
splitting on unquoted separators returns the items (a quoted `","`, `"\""`,
`"\\"` included — see the examples in `Props/C02.lean`). -/
theorem splitUnquoted_joinSep (sep : Nat) (h34 : sep ≠ 34) (h92 : sep ≠ 92) :
    ∀ (items : List Txt), items ≠ [] → (∀ it ∈ items, SafeItem sep it) →
      splitUnquoted sep (joinSep sep items) = items := by
  intro items hne hsafe
  rw [splitUnquoted_eq_spec sep h34 h92]
  induction items with
  | nil => exact absurd rfl hne
  | cons x rest ih =>
    have hx : SafeItem sep x := hsafe x (by simp)
    cases rest with
    | nil =>
      have := splitCL_item sep x false false [] [] false false hx
      simp only [List.append_nil, List.nil_append] at this
      simp [joinSep, this, splitCL]
    | cons y ys =>
      have := splitCL_item sep x false false [] (sep :: joinSep sep (y :: ys)) false false hx
      simp only [List.nil_append] at this
      simp only [joinSep, this, splitCL, if_true]
      simp only [Bool.false_eq_true, if_false]
      rw [ih (by simp) (fun it hit => hsafe it (by simp [hit]))]

/-- Text without quotes, backslash-agnostic: safe iff it has no separator. -/
theorem safe_of_plain (sep : Nat) (t : Txt) (h : ∀ c ∈ t, c ≠ sep ∧ c ≠ 34) : SafeItem sep t := by
  unfold SafeItem
  induction t with
  | nil => simp [itemEnd]
  | cons c cs ih =>
    have hc := h c (by simp)
    simp only [itemEnd, hc.1, hc.2, if_false, Bool.false_eq_true, and_false]
    exact ih (fun x hx => h x (by simp [hx]))

theorem itemEnd_plain (sep : Nat) (t : Txt) (h : ∀ c ∈ t, c ≠ sep ∧ c ≠ 34) :
    itemEnd sep false false t = some (false, false) := safe_of_plain sep t h

end C02L
