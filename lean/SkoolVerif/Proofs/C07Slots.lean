import SkoolVerif.Model.InstrDecode
/-!
The 1786 opcode slots (core Lean only): which of the seven tables, and which index, an opcode sequence
selects; a structurally recursive `Bool` checker over all slots that the kernel can evaluate, and the
lemma that lifts its result to every opcode sequence.
-/
namespace InstrDec

/-- `p k` for all `k < n` (structural recursion: kernel-friendly) -/
def allLt : Nat → (Nat → Bool) → Bool
  | 0, _ => true
  | n + 1, p => allLt n p && p n

theorem allLt_spec {n : Nat} {p : Nat → Bool} (h : allLt n p = true) : ∀ k, k < n → p k = true := by
  induction n with
  | zero => intro k hk; omega
  | succ n ih =>
    simp only [allLt, Bool.and_eq_true] at h
    intro k hk
    by_cases hkn : k = n
    · subst hkn; exact h.2
    · exact ih h.1 k (by omega)

/-- table 0 = unprefixed, 1 = CB, 2 = ED, 3 = DD, 4 = FD, 5 = DDCB, 6 = FDCB; `idx` = the selecting byte -/
structure Slot where
  tbl : Nat
  idx : Nat
  deriving DecidableEq, Repr

/-- the slot selected by the opcode bytes `b0 = m[a]`, `b1 = m[a+1]`, `b3 = m[a+3]` -/
def slotOf (b0 b1 b3 : Nat) : Slot :=
  if b0 = 0xCB then ⟨1, b1⟩
  else if b0 = 0xED then ⟨2, b1⟩
  else if b0 = 0xDD then (if b1 = 0xCB then ⟨5, b3⟩ else ⟨3, b1⟩)
  else if b0 = 0xFD then (if b1 = 0xCB then ⟨6, b3⟩ else ⟨4, b1⟩)
  else ⟨0, b0⟩

/-- the slots that an opcode sequence can select -/
def Slot.valid (s : Slot) : Bool :=
  decide (s.tbl < 7) && decide (s.idx < 256) &&
  !(s.tbl == 0 && (s.idx == 0xCB || s.idx == 0xED || s.idx == 0xDD || s.idx == 0xFD)) &&
  !((s.tbl == 3 || s.tbl == 4) && s.idx == 0xCB)

theorem slotOf_valid {b0 b1 b3 : Nat} (h0 : b0 < 256) (h1 : b1 < 256) (h3 : b3 < 256) :
    (slotOf b0 b1 b3).valid = true := by
  unfold slotOf
  split
  · simp [Slot.valid, h1]
  split
  · simp [Slot.valid, h1]
  split
  · split <;> simp_all [Slot.valid]
  split
  · split <;> simp_all [Slot.valid]
  · simp_all [Slot.valid]

/-- a valid slot is selected by some opcode sequence (the enumeration has no spurious members) -/
theorem valid_is_slotOf (s : Slot) (h : s.valid = true) : ∃ b0 b1 b3, b0 < 256 ∧ b1 < 256 ∧ b3 < 256 ∧ slotOf b0 b1 b3 = s := by
  obtain ⟨t, i⟩ := s
  simp only [Slot.valid, Bool.and_eq_true, decide_eq_true_eq, Bool.not_eq_true', Bool.and_eq_false_iff, Bool.or_eq_false_iff,
    beq_eq_false_iff_ne, ne_eq] at h
  obtain ⟨⟨⟨ht, hi⟩, h0⟩, h34⟩ := h
  have : t = 0 ∨ t = 1 ∨ t = 2 ∨ t = 3 ∨ t = 4 ∨ t = 5 ∨ t = 6 := by omega
  rcases this with rfl | rfl | rfl | rfl | rfl | rfl | rfl
  · refine ⟨i, 0, 0, hi, by omega, by omega, ?_⟩
    simp only [slotOf]; split <;> simp_all
  · exact ⟨0xCB, i, 0, by omega, hi, by omega, by simp [slotOf]⟩
  · exact ⟨0xED, i, 0, by omega, hi, by omega, by simp [slotOf]⟩
  · refine ⟨0xDD, i, 0, by omega, hi, by omega, ?_⟩
    simp only [slotOf]; simp_all
  · refine ⟨0xFD, i, 0, by omega, hi, by omega, ?_⟩
    simp only [slotOf]; simp_all
  · exact ⟨0xDD, 0xCB, i, by omega, by omega, hi, by simp [slotOf]⟩
  · exact ⟨0xFD, 0xCB, i, by omega, by omega, hi, by simp [slotOf]⟩

/-- `p` holds at every valid slot (kernel-evaluable) -/
def allSlots (p : Slot → Bool) : Bool :=
  allLt 7 (fun t => allLt 256 (fun i => !(Slot.valid ⟨t, i⟩) || p ⟨t, i⟩))

theorem allSlots_spec {p : Slot → Bool} (h : allSlots p = true) (s : Slot) (hv : s.valid = true) : p s = true := by
  obtain ⟨t, i⟩ := s
  have hv' := hv
  simp only [Slot.valid, Bool.and_eq_true, decide_eq_true_eq] at hv'
  have h1 := allLt_spec (allLt_spec h t hv'.1.1.1) i hv'.1.1.2
  simp only [hv, Bool.not_true, Bool.false_or] at h1
  exact h1

/-- the lifting step used by every per-slot theorem of C07 -/
theorem allSlots_slotOf {p : Slot → Bool} (h : allSlots p = true) {b0 b1 b3 : Nat} (h0 : b0 < 256) (h1 : b1 < 256)
    (h3 : b3 < 256) : p (slotOf b0 b1 b3) = true :=
  allSlots_spec h _ (slotOf_valid h0 h1 h3)

end InstrDec
