import SkoolVerif.Proofs.TraceLoopC
import SkoolVerif.Proofs.TraceLoopPy
/-!
The two trace loops, both translated from source: `CSimulator_trace` (`Gen/CLoops/trace.lean`) and the Python loop of
`Tracer.run` (`Gen/PyLoopCores.lean`) end in the same state with the same operation count and stop condition.
-/
open Z80 TraceLoop

namespace RunLoop
variable {μ : Type} [MemLike μ] [CellMem μ]

/-- the object `trace.py` passes for `options.stop` -/
def stopObj (stop : Option Int) : PyObj := match stop with
  | some v => .int v
  | none => .none

omit [MemLike μ] [CellMem μ] in
theorem objStop_stopObj (stop : Option Int) : objStop (stopObj stop) = stop := by cases stop <;> rfl

/-- plain pair: for every start address and optional stop address in 0..65535, `max_operations`, `max_time` below 2^63, every in-range
state and every fuel for which the clock stays below 2^63 -/
theorem c_trace_eq_py_trace (cfg : Cfg) (hcfg : CSimH.CfgRep cfg) (hf : FrameOk cfg Tshift.maxDur) (hout : CSimH.OutOkAll μ cfg) (fuel : Nat)
    (start : Int) (stop : Option Int) (mo mt : Int) (ints : Bool) (emC kb dis tr : PyObj) (emP tl : Bool) (st0 : Int) (k128 : Bool)
    (logC logP : List (List Int)) (drawsC : List Int) (drawsP : List Bool) (s : St μ) (h : RInv s)
    (hstart : 0 ≤ start ∧ start < 65536) (hstop : ∀ v, stop = some v → 0 ≤ v ∧ v < 65536)
    (hmo : 0 ≤ mo ∧ mo < 9223372036854775808) (hmt : 0 ≤ mt ∧ mt < 9223372036854775808)
    (ht : s.t + fuel * (Tshift.maxDur + 19) < 9223372036854775808) :
    (CSimH.Loop.trace cfg fuel (.int start) (stopObj stop) mo mt ints PyObj.none emC kb dis tr logC drawsC s).1.1 = (PyLoop.Sim.trace_run cfg fuel start stop mo mt ints false emP tl st0 k128 logP drawsP s).1.1 ∧ (CSimH.Loop.trace cfg fuel (.int start) (stopObj stop) mo mt ints PyObj.none emC kb dis tr logC drawsC s).2 = (PyLoop.Sim.trace_run cfg fuel start stop mo mt ints false emP tl st0 k128 logP drawsP s).2 ∧
      ((CSimH.Loop.trace cfg fuel (.int start) (stopObj stop) mo mt ints PyObj.none emC kb dis tr logC drawsC s).2 = true → (CSimH.Loop.trace cfg fuel (.int start) (stopObj stop) mo mt ints PyObj.none emC kb dis tr logC drawsC s).1.2 = ((PyLoop.Sim.trace_run cfg fuel start stop mo mt ints false emP tl st0 k128 logP drawsP s).1.2.stop_cond, (PyLoop.Sim.trace_run cfg fuel start stop mo mt ints false emP tl st0 k128 logP drawsP s).1.2.operations)) := by
  have hc := c_trace cfg hcfg hout fuel (.int start) (stopObj stop) mo mt ints emC kb dis tr logC drawsC s h
    (fun v e => by cases e; exact hstart) (fun v e => by
      cases stop with
      | none => exact nomatch e
      | some w => exact hstop v (by simp only [stopObj, PyObj.int.injEq] at e; rw [e])) hmo hmt ht
  obtain ⟨p1, p2, p3, p4⟩ := py_trace cfg hf fuel start stop mo mt ints emP tl st0 k128 logP drawsP s
  rw [objStop_stopObj] at hc
  have e0 : objStart (.int start) s = { s with pc := start } := rfl
  rw [e0] at hc
  rw [hc]
  unfold traceRet
  rcases hr : traceLoop simM ints cfg mo mt stop fuel 0 { s with pc := start } with ⟨⟨r1, r2⟩, r3⟩
  rw [hr] at p1 p2 p3 p4
  refine ⟨p1.symm, ?_, ?_⟩
  · exact p4.symm
  · intro hd
    cases r3 with
    | none => simp at hd
    | some c => simp only [p2, p3, Option.getD_some]

/-- contended pair -/
theorem c_cmio_trace_eq_py_trace [PageStable μ] (cfg : Cfg) (hcfg : CSimH.CfgRep cfg) (hf : FrameOk cfg Tshift.maxDurCmio) (hout : CSimH.OutOkAll μ cfg)
    (fuel : Nat) (start : Int) (stop : Option Int) (mo mt : Int) (ints : Bool) (emC kb dis tr : PyObj) (emP tl : Bool) (st0 : Int) (k128 : Bool)
    (logC logP : List (List Int)) (drawsC : List Int) (drawsP : List Bool) (s : St μ) (h : RInv s)
    (hstart : 0 ≤ start ∧ start < 65536) (hstop : ∀ v, stop = some v → 0 ≤ v ∧ v < 65536)
    (hmo : 0 ≤ mo ∧ mo < 9223372036854775808) (hmt : 0 ≤ mt ∧ mt < 9223372036854775808)
    (ht : s.t + fuel * (Tshift.maxDurCmio + 19) < 9223372036854775808) :
    (CCmioH.Loop.trace cfg fuel (.int start) (stopObj stop) mo mt ints PyObj.none emC kb dis tr logC drawsC s).1.1 = (PyLoop.Cmio.trace_run cfg fuel start stop mo mt ints false emP tl st0 k128 logP drawsP s).1.1 ∧ (CCmioH.Loop.trace cfg fuel (.int start) (stopObj stop) mo mt ints PyObj.none emC kb dis tr logC drawsC s).2 = (PyLoop.Cmio.trace_run cfg fuel start stop mo mt ints false emP tl st0 k128 logP drawsP s).2 ∧
      ((CCmioH.Loop.trace cfg fuel (.int start) (stopObj stop) mo mt ints PyObj.none emC kb dis tr logC drawsC s).2 = true → (CCmioH.Loop.trace cfg fuel (.int start) (stopObj stop) mo mt ints PyObj.none emC kb dis tr logC drawsC s).1.2 = ((PyLoop.Cmio.trace_run cfg fuel start stop mo mt ints false emP tl st0 k128 logP drawsP s).1.2.stop_cond, (PyLoop.Cmio.trace_run cfg fuel start stop mo mt ints false emP tl st0 k128 logP drawsP s).1.2.operations)) := by
  have hc := c_cmio_trace cfg hcfg hout fuel (.int start) (stopObj stop) mo mt ints emC kb dis tr logC drawsC s h
    (fun v e => by cases e; exact hstart) (fun v e => by
      cases stop with
      | none => exact nomatch e
      | some w => exact hstop v (by simp only [stopObj, PyObj.int.injEq] at e; rw [e])) hmo hmt ht
  obtain ⟨p1, p2, p3, p4⟩ := py_cmio_trace cfg hf fuel start stop mo mt ints emP tl st0 k128 logP drawsP s
  rw [objStop_stopObj] at hc
  have e0 : objStart (.int start) s = { s with pc := start } := rfl
  rw [e0] at hc
  rw [hc]
  unfold traceRet
  rcases hr : traceLoop cmioM ints cfg mo mt stop fuel 0 { s with pc := start } with ⟨⟨r1, r2⟩, r3⟩
  rw [hr] at p1 p2 p3 p4
  refine ⟨p1.symm, ?_, ?_⟩
  · exact p4.symm
  · intro hd
    cases r3 with
    | none => simp at hd
    | some c => simp only [p2, p3, Option.getD_some]

end RunLoop
