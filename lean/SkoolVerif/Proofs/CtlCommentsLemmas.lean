import SkoolVerif.Model.CtlComments
/-! Helper lemmas for the comment round trips (C03). -/
namespace CtlComments
set_option linter.unusedSectionVars false

/-! ### paragraphs -/
section paras
variable {ω : Type} [DecidableEq ω]

theorem wrapGo_spec (len : ω → Nat) (width : Nat) (ws : List ω) :
    ∀ (cur : List ω) (n : Nat),
      (wrapGo len width cur n ws).flatten = cur.reverse ++ ws ∧
      ∀ l ∈ wrapGo len width cur n ws, l ≠ [] := by
  induction ws with
  | nil =>
    intro cur n
    by_cases h : cur = []
    · simp [wrapGo, h]
    · simp [wrapGo, h]
  | cons w t ih =>
    intro cur n
    by_cases h : cur = []
    · subst h
      have := ih [w] (len w)
      simpa [wrapGo] using this
    · by_cases hfit : n + 1 + len w ≤ width
      · have := ih (w :: cur) (n + 1 + len w)
        simpa [wrapGo, h, hfit] using this
      · have := ih [w] (len w)
        simp only [wrapGo, h, hfit, if_false]
        refine ⟨by simp [this.1], ?_⟩
        intro l hl
        simp only [List.mem_cons] at hl
        rcases hl with rfl | hl
        · simpa using h
        · exact this.2 l hl

/-- Lines that are not the separator are appended to the current section. -/
theorem foldl_lines (dot : ω) (lines : List (List ω)) (s : List ω) (r : List (List ω))
    (hnd : ∀ l ∈ lines, l ≠ [dot]) :
    lines.foldl (splitStep dot) (s :: r) = (s ++ lines.flatten) :: r := by
  induction lines generalizing s with
  | nil => simp
  | cons l t ih =>
    have hl : l ≠ [dot] := hnd l (by simp)
    rw [List.foldl_cons]
    have : splitStep dot (s :: r) l = (s ++ l) :: r := by simp [splitStep, hl]
    rw [this, ih _ (fun x hx => hnd x (List.mem_cons_of_mem _ hx))]
    simp

theorem foldl_paras (dot : ω) (wrap : List ω → List (List ω))
    (hw : ∀ ws, (wrap ws).flatten = ws) (ps : List (List ω))
    (hnd : ∀ p ∈ ps, ∀ l ∈ wrap p, l ≠ [dot]) :
    ∀ (p : List ω) (s : List ω) (r : List (List ω)), (∀ l ∈ wrap p, l ≠ [dot]) →
      (writeParas dot wrap (p :: ps)).foldl (splitStep dot) (s :: r) = ps.reverse ++ (s ++ p) :: r := by
  induction ps with
  | nil =>
    intro p s r hp
    simp only [writeParas]
    rw [foldl_lines dot _ s r hp, hw]; simp
  | cons q t ih =>
    intro p s r hp
    simp only [writeParas, List.foldl_append, List.foldl_cons, List.foldl_nil]
    rw [foldl_lines dot _ s r hp, hw]
    have : splitStep dot ((s ++ p) :: r) [dot] = [] :: (s ++ p) :: r := by simp [splitStep]
    rw [this, ih (fun x hx => hnd x (List.mem_cons_of_mem _ hx)) q [] _ (hnd q (by simp))]
    simp

end paras

/-! ### line-preserving instruction comments -/
section grouped
variable {α : Type} [DecidableEq α]

theorem popBlankRev_spec (blank : α) (m : Nat) (l : List (List α)) :
    ∃ j, popBlankRev blank m l = l.drop j ∧ l.take j = List.replicate j [blank] ∧ j ≤ l.length ∧
      (m ≤ l.length → m ≤ (l.drop j).length) := by
  induction l with
  | nil => exact ⟨0, by simp [popBlankRev]⟩
  | cons g r ih =>
    by_cases h : (g :: r).length > m ∧ g = [blank]
    · obtain ⟨j, h1, h2, h3, h4⟩ := ih
      have hpop : popBlankRev blank m (g :: r) = popBlankRev blank m r := by
        simp only [popBlankRev]; rw [if_pos h]
      refine ⟨j + 1, by rw [hpop, h1]; simp, ?_, by simp; omega, ?_⟩
      · simp [List.replicate_succ, h.2, h2]
      · intro _
        have : m ≤ r.length := by have := h.1; simp at this; omega
        simpa using h4 this
    · refine ⟨0, ?_, by simp, by simp, by simp⟩
      simp only [popBlankRev]
      rw [if_neg h]; simp

theorem popBlank_spec (blank : α) (m : Nat) (groups : List (List α)) :
    ∃ j, groups = popBlank blank m groups ++ List.replicate j [blank] ∧
      (m ≤ groups.length → m ≤ (popBlank blank m groups).length) := by
  obtain ⟨j, h1, h2, _, h4⟩ := popBlankRev_spec blank m groups.reverse
  refine ⟨j, ?_, ?_⟩
  · have := congrArg List.reverse (List.take_append_drop j groups.reverse)
    simp only [List.reverse_reverse, List.reverse_append] at this
    rw [popBlank, h1, ← this, h2]; simp
  · intro hm
    simpa [popBlank, h1] using h4 (by simpa using hm)

theorem distr_nil (blank : α) (n : Nat) : distr blank n [] = List.replicate n [blank] := by
  induction n with
  | zero => simp [distr]
  | succ n ih => simp [distr, ih, List.replicate_succ]

theorem takeColons_all (r : List (Bool × α)) :
    (takeColons r).1 ++ (takeColons r).2.map (·.2) = r.map (·.2) := by
  induction r with
  | nil => simp [takeColons]
  | cons h t ih =>
    obtain ⟨c, l⟩ := h
    cases c with
    | true => simp [takeColons, ih]
    | false => simp [takeColons]

theorem takeColons_colons (ls : List α) (E : List (Bool × α)) (hE : ∀ x ∈ E.head?, x.1 = false) :
    takeColons (ls.map (fun x => (true, x)) ++ E) = (ls, E) := by
  induction ls with
  | nil =>
    cases E with
    | nil => simp [takeColons]
    | cons h t =>
      obtain ⟨c, l⟩ := h
      have : c = false := by simpa using hE (c, l) (by simp)
      subst this; simp [takeColons]
  | cons l t ih => simp [takeColons, ih]

theorem emit_head (n idx : Nat) (kept : List (List α)) (hne : ∀ g ∈ kept, g ≠ []) :
    ∀ x ∈ (emit n idx kept).head?, x.1 = false := by
  cases kept with
  | nil => simp [emit]
  | cons g rest =>
    cases g with
    | nil => exact absurd rfl (hne [] (by simp))
    | cons l ls => simp [emit, emitGroup]

theorem distr_emit (blank : α) (n : Nat) (kept : List (List α)) (hne : ∀ g ∈ kept, g ≠ []) :
    ∀ (idx j : Nat), n = idx + kept.length + j →
      distr blank (kept.length + j) (emit n idx kept) = kept ++ List.replicate j [blank] := by
  induction kept with
  | nil => intro idx j _; simp [emit, distr_nil]
  | cons g rest ih =>
    intro idx j hn
    have hrest : ∀ g ∈ rest, g ≠ [] := fun x hx => hne x (List.mem_cons_of_mem _ hx)
    cases g with
    | nil => exact absurd rfl (hne [] (by simp))
    | cons l ls =>
      have hlen : (List.length ((l :: ls) :: rest) + j) = (rest.length + j) + 1 := by simp; omega
      rw [hlen]
      simp only [emit, emitGroup, List.cons_append, distr]
      by_cases hlast : rest.length + j = 0
      · have hr : rest = [] := List.eq_nil_of_length_eq_zero (by omega)
        have hj : j = 0 := by omega
        subst hr; subst hj
        simp only [hlast, if_true, emit, List.append_nil]
        rw [takeColons_all]; simp [Function.comp_def]
      · have hc : decide (idx < n - 1) = true := by simp at hn ⊢; omega
        rw [hc, takeColons_colons ls _ (emit_head n (idx + 1) rest hrest)]
        simp only [hlast, if_false]
        rw [ih hrest (idx + 1) j (by simp at hn ⊢; omega)]

end grouped
end CtlComments
