import SkoolVerif.Proofs.C02Items
/-!
DEFB / DEFM / DEFW / DEFS statements: what the disassembler renders for a
byte list assembles back to that byte list.
-/
namespace C02L
open OpText AsmEval OperandSpec

/-! ### `_assemble_defb` item by item -/

/-- One iteration of the loop in `_assemble_defb`. -/
def itemBytes (it : Txt) : R (List Nat) :=
  match evalString it with
  | some bs => R.ok bs
  | none => (withDefault (parseByte it) 0).bind fun b => .ok [b]

theorem assembleDefb_nil : assembleDefb [] = .ok [] := by simp [assembleDefb, seqR, R.bind]

theorem assembleDefb_eq (items : List Txt) :
    assembleDefb items = (seqR (items.map itemBytes)).bind fun ls => .ok ls.flatten := rfl

theorem assembleDefb_cons (it : Txt) (items : List Txt) :
    assembleDefb (it :: items) =
      (itemBytes it).bind fun a => (assembleDefb items).bind fun b => .ok (a ++ b) := by
  rw [assembleDefb_eq, assembleDefb_eq, List.map_cons, seqR]
  cases itemBytes it with
  | ok a => cases seqR (items.map itemBytes) <;> simp [R.bind]
  | valErr => simp [R.bind]
  | otherErr => simp [R.bind]
  | unsupported => simp [R.bind]

theorem seqR_map_ok {α β : Type} (f : α → R β) (g : α → β) : ∀ l : List α,
    (∀ a ∈ l, f a = .ok (g a)) → seqR (l.map f) = .ok (l.map g)
  | [], _ => rfl
  | a :: l, h => by
    simp only [List.map_cons, seqR, h a (by simp), R.bind,
      seqR_map_ok f g l (fun x hx => h x (by simp [hx]))]

theorem assembleDefb_append (xs ys : List Txt) (a b : List Nat) (hx : assembleDefb xs = .ok a)
    (hy : assembleDefb ys = .ok b) : assembleDefb (xs ++ ys) = .ok (a ++ b) := by
  induction xs generalizing a with
  | nil =>
    rw [assembleDefb_nil] at hx
    cases hx; simpa using hy
  | cons x xs ih =>
    rw [assembleDefb_cons] at hx
    rw [List.cons_append, assembleDefb_cons]
    cases h1 : itemBytes x with
    | ok a1 =>
      rw [h1] at hx
      simp only [R.bind] at hx ⊢
      cases h2 : assembleDefb xs with
      | ok a2 =>
        rw [h2] at hx
        simp only [R.bind] at hx
        cases hx
        rw [ih a2 h2]
        simp [R.bind]
      | valErr => rw [h2] at hx; simp [R.bind] at hx
      | otherErr => rw [h2] at hx; simp [R.bind] at hx
      | unsupported => rw [h2] at hx; simp [R.bind] at hx
    | valErr => rw [h1] at hx; simp [R.bind] at hx
    | otherErr => rw [h1] at hx; simp [R.bind] at hx
    | unsupported => rw [h1] at hx; simp [R.bind] at hx

theorem assembleDefb_single (it : Txt) (bs : List Nat) (h : itemBytes it = .ok bs) :
    assembleDefb [it] = .ok bs := by
  rw [assembleDefb_cons, h, assembleDefb_nil]; simp [R.bind]

/-! ### quoted runs -/

/-- `char` with the escaping of `get_message`. -/
def escB (b : Nat) : Txt := if b = 34 ∨ b = 92 then [92, b] else [b]

def esc : List Nat → Txt
  | [] => []
  | b :: bs => escB b ++ esc bs

theorem esc_append (xs ys : List Nat) : esc (xs ++ ys) = esc xs ++ esc ys := by
  induction xs with
  | nil => rfl
  | cons x xs ih => simp [esc, ih]

theorem evalStrAux_esc (cs : List Nat) : evalStrAux (esc cs ++ [34]) = some cs := by
  induction cs with
  | nil => simp [esc, evalStrAux]
  | cons b bs ih =>
    have hne : ∃ d rest, esc bs ++ [34] = d :: rest := by
      cases h : esc bs ++ [34] with
      | nil => simp at h
      | cons d rest => exact ⟨d, rest, rfl⟩
    obtain ⟨d, rest, hdr⟩ := hne
    by_cases hq : b = 34 ∨ b = 92
    · simp only [esc, escB, hq, if_true, List.cons_append, List.nil_append]
      rw [evalStrAux]
      simp [ih]
    · have h34 : b ≠ 34 := fun e => hq (Or.inl e)
      have h92 : b ≠ 92 := fun e => hq (Or.inr e)
      simp only [esc, escB, hq, if_false, List.cons_append, List.nil_append]
      rw [hdr, evalStrAux]
      simp only [h34, h92, if_false]
      rw [← hdr, ih]; simp

/-- `eval_string('"' + escaped + '"')` gives the characters back. -/
theorem evalString_run (cs : List Nat) : evalString (34 :: esc cs ++ [34]) = some cs := by
  have he : endsWith 34 (34 :: esc cs ++ [34]) = true := by
    rw [endsWith, List.getLast?_append]; simp
  have hs : startsWith [34] (34 :: esc cs ++ [34]) = true := by simp [startsWith, List.isPrefixOf]
  simp only [evalString, hs, he, and_self, if_true]
  show evalStrAux ((34 :: esc cs ++ [34]).drop 1) = some cs
  simpa using evalStrAux_esc cs

theorem itemEnd_esc (cs : List Nat) (rest : Txt) :
    itemEnd 44 true false (esc cs ++ rest) = itemEnd 44 true false rest := by
  induction cs with
  | nil => rfl
  | cons b bs ih =>
    by_cases hq : b = 34 ∨ b = 92
    · have h44 : b ≠ 44 := by omega
      simp only [esc, escB, hq, if_true, List.cons_append, List.nil_append, List.append_assoc]
      simp [itemEnd, h44, ih]
    · have h34 : b ≠ 34 := fun e => hq (Or.inl e)
      have h92 : b ≠ 92 := fun e => hq (Or.inr e)
      simp only [esc, escB, hq, if_false, List.cons_append, List.nil_append, List.append_assoc]
      by_cases h44 : b = 44
      · simp [itemEnd, h44, ih]
      · simp [itemEnd, h44, h34, h92, ih]

theorem run_item (cs : List Nat) : SafeItem 44 (34 :: esc cs ++ [34]) ∧ Tidy (34 :: esc cs ++ [34]) := by
  constructor
  · unfold SafeItem
    have := itemEnd_esc cs [34]
    simp only [List.cons_append, itemEnd] at this ⊢
    simp [this, itemEnd]
  · refine ⟨by simp, by simp [isSpace], ?_⟩
    intro c hc
    have : (34 :: esc cs ++ [34]) = (34 :: esc cs) ++ [34] := by simp
    rw [this, List.getLast?_append] at hc
    simp at hc; rw [← hc]; decide

/-! ### single numbers -/

theorem evalString_none (t : Txt) (h : startsWith [34] t = false ∨ endsWith 34 t = false) :
    evalString t = none := by
  rcases h with h | h <;> simp [evalString, h]

theorem plain_not_quoted (t : Txt) (h : Plain t) : startsWith [34] t = false := by
  cases t with
  | nil => simp [startsWith]
  | cons a as =>
    have := (h.2 a (by simp)).2.1
    simp [startsWith, List.isPrefixOf, Ne.symm this]

/-- `DEFB <format_byte(b, base)>` assembles to `[b]`. -/
theorem itemBytes_formatByte (cfg : Cfg) (b : Nat) (hb : b < 256) (base : Base) :
    itemBytes (formatByte cfg b base) = .ok [b] := by
  have hp : parseByte (formatByte cfg b base) = .ok b := by
    have := parseExpr_numStr cfg 1 (Or.inl rfl) b (by simpa using hb) base
    simpa [parseByte, formatByte] using this
  have viaParse : evalString (formatByte cfg b base) = none → itemBytes (formatByte cfg b base) = .ok [b] := by
    intro h; simp [itemBytes, h, hp, withDefault, R.bind]
  by_cases hch : base = .c ∧ b < 256 ∧ isChar (b % 128) = true
  · obtain ⟨rfl, _, hic⟩ := hch
    have hr := isChar_range _ hic
    by_cases h128 : b ≥ 128
    · apply viaParse
      apply evalString_none; right
      have hpl := numStrNC_plain cfg 128 1 .n
      have hl : ∀ body : Txt, endsWith 34 (body ++ 43 :: numStrNC cfg 128 1 .n) = false := by
        intro body
        have hne := hpl.1
        simp only [endsWith, List.getLast?_append]
        cases hg : (43 :: numStrNC cfg 128 1 .n).getLast? with
        | none => simp at hg
        | some z =>
          have hz : z ∈ (43 :: numStrNC cfg 128 1 .n) := getLast?_mem _ z hg
          simp only [List.mem_cons] at hz
          have : z ≠ 34 := by
            rcases hz with rfl | hz
            · decide
            · exact (hpl.2 z hz).2.1
          simp [this]
      simp only [formatByte, numStr, hb, hic, and_self, if_true, h128]
      split
      · exact hl _
      · exact hl _
    · have hlt : b < 128 := by omega
      have hmod : b % 128 = b := Nat.mod_eq_of_lt hlt
      have hic' : isChar b = true := hmod ▸ hic
      simp only [itemBytes, formatByte, numStr, hb, hic, hic', and_self, if_true, h128, if_false, List.append_nil, hmod]
      by_cases hq : b = 34 ∨ b = 92
      · have := evalString_run [b]
        simp only [esc, escB, hq, if_true, List.cons_append, List.nil_append, List.append_nil] at this
        simp [hq, this]
      · have := evalString_run [b]
        simp only [esc, escB, hq, if_false, List.cons_append, List.nil_append, List.append_nil] at this
        simp [hq, this]
  · apply viaParse
    apply evalString_none; left
    rw [formatByte, numStr_nonchar cfg b 1 base hch]
    exact plain_not_quoted _ (numStrNC_plain _ _ _ _)

theorem assembleDefb_bytes (cfg : Cfg) (base : Base) (chunk : List Nat) (h : ∀ b ∈ chunk, b < 256) :
    assembleDefb (chunk.map fun b => formatByte cfg b base) = .ok chunk := by
  induction chunk with
  | nil => exact assembleDefb_nil
  | cons b bs ih =>
    have h1 := assembleDefb_single _ _ (itemBytes_formatByte cfg b (h b (by simp)) base)
    have h2 := ih (fun x hx => h x (by simp [hx]))
    have := assembleDefb_append _ _ _ _ h1 h2
    simpa using this

/-! ### `get_message` -/

/-- `get_message` result for a loop state. -/
def closeSt (s : MsgSt) : List Txt :=
  match s.cur with
  | some q => s.done ++ [q ++ [34]]
  | none => s.done

/-- Invariant of the `get_message` loop: the items emitted so far assemble to
`B`, and they are all safe and tidy. -/
def MsgInv (s : MsgSt) (B : List Nat) : Prop :=
  (∀ it ∈ s.done, SafeItem 44 it ∧ Tidy it) ∧
  ∃ B1, assembleDefb s.done = .ok B1 ∧
    ((s.cur = none ∧ B = B1) ∨ ∃ cs, s.cur = some (34 :: esc cs) ∧ B = B1 ++ cs)

theorem msgStep_inv (cfg : Cfg) (s : MsgSt) (B : List Nat) (b : Nat) (hb : b < 256) (h : MsgInv s B) :
    MsgInv (msgStep cfg s b) (B ++ [b]) := by
  obtain ⟨hsafe, B1, hB1, hcur⟩ := h
  unfold msgStep
  by_cases hic : isChar b = true
  · simp only [hic, if_true]
    rcases hcur with ⟨hnone, rfl⟩ | ⟨cs, hsome, rfl⟩
    · simp only [hnone]
      refine ⟨hsafe, B, hB1, Or.inr ⟨[b], ?_, rfl⟩⟩
      simp [esc, escB]
    · simp only [hsome]
      refine ⟨hsafe, B1, hB1, Or.inr ⟨cs ++ [b], ?_, by simp⟩⟩
      simp [esc_append, esc, escB]
  · simp only [hic, if_false, Bool.false_eq_true]
    have hnum := assembleDefb_single _ _ (itemBytes_formatByte cfg b hb .n)
    have hitem := numStr_item cfg b 1 .n
    rcases hcur with ⟨hnone, rfl⟩ | ⟨cs, hsome, rfl⟩
    · simp only [hnone]
      refine ⟨?_, B ++ [b], assembleDefb_append _ _ _ _ hB1 hnum, Or.inl ⟨rfl, rfl⟩⟩
      intro it hit
      simp only [List.mem_append, List.mem_singleton] at hit
      rcases hit with hit | rfl
      · exact hsafe it hit
      · exact hitem
    · simp only [hsome]
      have hrun := assembleDefb_single (34 :: esc cs ++ [34]) cs (by rw [itemBytes, evalString_run])
      have h2 := assembleDefb_append _ _ _ _ hrun hnum
      have h3 := assembleDefb_append _ _ _ _ hB1 h2
      refine ⟨?_, B1 ++ (cs ++ [b]), by simpa using h3, Or.inl ⟨rfl, by simp⟩⟩
      intro it hit
      simp only [List.mem_append, List.mem_cons, List.mem_singleton, List.not_mem_nil, or_false] at hit
      rcases hit with hit | rfl | rfl
      · exact hsafe it hit
      · simpa using run_item cs
      · exact hitem

theorem foldl_inv (cfg : Cfg) : ∀ (data : List Nat) (s : MsgSt) (B : List Nat), (∀ b ∈ data, b < 256) →
    MsgInv s B → MsgInv (data.foldl (msgStep cfg) s) (B ++ data) := by
  intro data
  induction data with
  | nil => intro s B _ h; simpa using h
  | cons b bs ih =>
    intro s B hd h
    have := ih (msgStep cfg s b) (B ++ [b]) (fun x hx => hd x (by simp [hx]))
      (msgStep_inv cfg s B b (hd b (by simp)) h)
    simpa using this

/-- **`get_message` round trip**: the items of a DEFM/`c`-base message are
safe and tidy and assemble back to the bytes, for every byte list. -/
theorem getMessage_ok (cfg : Cfg) (data : List Nat) (hd : ∀ b ∈ data, b < 256) :
    (∀ it ∈ getMessage cfg data, SafeItem 44 it ∧ Tidy it) ∧ assembleDefb (getMessage cfg data) = .ok data := by
  have hinit : MsgInv { done := [], cur := none } [] :=
    ⟨by simp, [], assembleDefb_nil, Or.inl ⟨rfl, rfl⟩⟩
  have := foldl_inv cfg data _ [] hd hinit
  obtain ⟨hsafe, B1, hB1, hcur⟩ := this
  simp only [List.nil_append] at hcur
  unfold getMessage
  rcases hcur with ⟨hnone, rfl⟩ | ⟨cs, hsome, rfl⟩
  · simp only [hnone]
    exact ⟨hsafe, hB1⟩
  · simp only [hsome]
    have hrun := assembleDefb_single (34 :: esc cs ++ [34]) cs (by rw [itemBytes, evalString_run])
    refine ⟨?_, by simpa using assembleDefb_append _ _ _ _ hB1 hrun⟩
    intro it hit
    simp only [List.mem_append, List.mem_singleton] at hit
    rcases hit with hit | rfl
    · exact hsafe it hit
    · simpa using run_item cs

/-! ### whole statements -/

/-- The bytes `defb_items` covers (all of `data` when the sublengths add up). -/
def coveredAux (total : Nat) : List Nat → List (Nat × Base) → List Nat
  | _, [] => []
  | data, (size, _) :: subs =>
    let size := if size = 0 then total else size
    data.take size ++ coveredAux total (data.drop size) subs

theorem defbItemsAux_ok (cfg : Cfg) (total : Nat) : ∀ (subs : List (Nat × Base)) (data : List Nat),
    (∀ b ∈ data, b < 256) →
    (∀ it ∈ defbItemsAux cfg total data subs, SafeItem 44 it ∧ Tidy it) ∧
    assembleDefb (defbItemsAux cfg total data subs) = .ok (coveredAux total data subs) := by
  intro subs
  induction subs with
  | nil => intro data _; simp [defbItemsAux, coveredAux, assembleDefb_nil]
  | cons sb subs ih =>
    intro data hd
    obtain ⟨size, base⟩ := sb
    simp only [defbItemsAux, coveredAux]
    generalize hsz : (if size = 0 then total else size) = sz
    have hchunk : ∀ b ∈ data.take sz, b < 256 := fun b hb => hd b (List.mem_of_mem_take hb)
    have hrest := ih (data.drop sz) (fun b hb => hd b (List.mem_of_mem_drop hb))
    have hhead : (∀ it ∈ (if base = .c ∧ sz > 1 then getMessage cfg (data.take sz)
          else (data.take sz).map fun b => formatByte cfg b base), SafeItem 44 it ∧ Tidy it) ∧
        assembleDefb (if base = .c ∧ sz > 1 then getMessage cfg (data.take sz)
          else (data.take sz).map fun b => formatByte cfg b base) = .ok (data.take sz) := by
      split
      · exact getMessage_ok cfg _ hchunk
      · refine ⟨?_, assembleDefb_bytes cfg base _ hchunk⟩
        intro it hit
        simp only [List.mem_map] at hit
        obtain ⟨b, _, rfl⟩ := hit
        exact numStr_item cfg b 1 base
    refine ⟨?_, assembleDefb_append _ _ _ _ hhead.2 hrest.2⟩
    intro it hit
    simp only [List.mem_append] at hit
    rcases hit with hit | hit
    · exact hhead.1 it hit
    · exact hrest.1 it hit

theorem assembleDefb_ne_nil (items : List Txt) (bs : List Nat) (h : assembleDefb items = .ok bs)
    (hne : bs ≠ []) : items ≠ [] := by
  intro e; subst e
  rw [assembleDefb_nil] at h
  cases h; exact hne rfl

/-- **DEFB / DEFM round trip.**  For every non-empty byte list, every sublength
structure (any mix of bases, including character strings with quotes,
backslashes and commas) and every configuration, the statement the
disassembler renders assembles back to the bytes the sublengths cover. -/
theorem defb_roundtrip_covered (cfg : Cfg) (defm : Bool) (data : List Nat) (subs : List (Nat × Base))
    (hd : ∀ b ∈ data, b < 256) (hne : coveredAux data.length data subs ≠ []) :
    assembleData (defbDir cfg defm data subs) = some (.ok (coveredAux data.length data subs)) := by
  obtain ⟨hitems, hasm⟩ := defbItemsAux_ok cfg data.length subs data hd
  have hin := assembleDefb_ne_nil _ _ hasm hne
  unfold defbDir defbItems
  rw [assembleData_render cfg _ (by cases defm <;> simp) _ hin hitems]
  cases defm <;> simp [hasm]

theorem covered_single (data : List Nat) (base : Base) : coveredAux data.length data [(0, base)] = data := by
  simp [coveredAux]

/-- Words → bytes → words. -/
theorem wordsOf_bytes : ∀ (n : Nat) (data : List Nat), data.length = 2 * n →
    ((wordsOf data).map fun w => [w % 256, w / 256]).flatten = data ∨ ∃ b ∈ data, ¬ b < 256 := by
  intro n
  induction n with
  | zero => intro data h; left; cases data with
    | nil => simp [wordsOf]
    | cons a as => simp at h
  | succ n ih =>
    intro data h
    match data, h with
    | lo :: hi :: rest, h =>
      by_cases hlo : lo < 256
      · by_cases hhi : hi < 256
        · rcases ih rest (by simp at h; omega) with h' | ⟨b, hb, hnb⟩
          · left
            simp only [wordsOf, List.map_cons, List.flatten_cons, h']
            have h1 : (lo + 256 * hi) % 256 = lo := by omega
            have h2 : (lo + 256 * hi) / 256 = hi := by omega
            simp [h1, h2]
          · right; exact ⟨b, by simp [hb], hnb⟩
        · right; exact ⟨hi, by simp, hhi⟩
      · right; exact ⟨lo, by simp, hlo⟩
    | [_], h => simp at h; omega
    | [], h => simp at h

theorem assembleDefw_words (cfg : Cfg) (base : Base) (ws : List Nat) (h : ∀ w ∈ ws, w < 65536) :
    assembleDefw (ws.map fun w => formatWord cfg w base) =
      .ok (ws.map fun w => [w % 256, w / 256]).flatten := by
  have hwf : ∀ w ∈ ws, parseWord (formatWord cfg w base) = .ok w := by
    intro w hw
    have := parseExpr_numStr cfg 2 (Or.inr rfl) w (by simpa using h w hw) base
    simpa [parseWord, formatWord] using this
  have hs : seqR ((ws.map fun w => formatWord cfg w base).map fun it => withDefault (parseWord it) 0) = .ok ws := by
    rw [List.map_map]
    have := seqR_map_ok ((fun it => withDefault (parseWord it) 0) ∘ fun w => formatWord cfg w base) id ws (by
      intro w hw; simp only [Function.comp, hwf w hw, withDefault, id])
    simpa using this
  unfold assembleDefw
  rw [hs]; simp [R.bind]

theorem wordsOf_lt (data : List Nat) (hd : ∀ b ∈ data, b < 256) : ∀ w ∈ wordsOf data, w < 65536 := by
  fun_induction wordsOf data with
  | case1 lo hi rest ih =>
    intro w hw
    simp only [List.mem_cons] at hw
    rcases hw with rfl | hw
    · have := hd lo (by simp); have := hd hi (by simp); omega
    · exact ih (fun b hb => hd b (by simp [hb])) w hw
  | case2 t _ => intro w hw; simp at hw

theorem wordsOf_ne_nil (data : List Nat) (h : 2 ≤ data.length) : wordsOf data ≠ [] := by
  match data, h with
  | a :: b :: r, _ => simp [wordsOf]

/-- **DEFW round trip** for every even-length non-empty byte list. -/
theorem defw_roundtrip (cfg : Cfg) (data : List Nat) (base : Base) (n : Nat) (hlen : data.length = 2 * (n + 1))
    (hd : ∀ b ∈ data, b < 256) : assembleData (defwDir cfg data base) = some (.ok data) := by
  have hw := wordsOf_lt data hd
  have hne : (wordsOf data).map (fun w => formatWord cfg w base) ≠ [] := by
    simpa using wordsOf_ne_nil data (by omega)
  have hitems : ∀ it ∈ (wordsOf data).map (fun w => formatWord cfg w base), SafeItem 44 it ∧ Tidy it := by
    intro it hit
    simp only [List.mem_map] at hit
    obtain ⟨w, _, rfl⟩ := hit
    exact numStr_item cfg w 2 base
  unfold defwDir
  rw [assembleData_render cfg 87 (by simp) _ hne hitems]
  simp only [show (87 : Nat) ≠ 83 by decide, if_false, if_true, assembleDefw_words cfg base _ hw]
  rcases wordsOf_bytes (n + 1) data hlen with h | ⟨b, hb, hnb⟩
  · rw [h]
  · exact absurd (hd b hb) hnb

/-- **DEFS round trip**: `count` copies of `value`, the size rendered in any
base but `m`, the value in any base (or omitted when zero). -/
theorem defs_roundtrip (cfg : Cfg) (count value : Nat) (sb : Base) (vb : Option Base)
    (hc : count < 65536) (hv : value < 256) (hsb : sb ≠ .m) :
    assembleData (defsDir cfg count value sb vb) = some (.ok (List.replicate count value)) := by
  have hcount : parseWord (formatByte cfg count sb) = .ok count := by
    have := parseExpr_numStr_wide cfg 1 count 65536 hc sb hsb
    simpa [parseWord, formatByte] using this
  have hval : ∀ b, parseByte (formatByte cfg value b) = .ok value := by
    intro b
    have := parseExpr_numStr cfg 1 (Or.inl rfl) value (by simpa using hv) b
    simpa [parseByte, formatByte] using this
  have hi : ∀ v b, SafeItem 44 (formatByte cfg v b) ∧ Tidy (formatByte cfg v b) := fun v b => numStr_item cfg v 1 b
  unfold defsDir
  cases vb with
  | some b =>
    rw [assembleData_render cfg 83 (by simp) _ (by simp) (by
      intro it hit; simp at hit; rcases hit with rfl | rfl <;> exact hi _ _)]
    simp [assembleDefs, hcount, hval, withDefault, R.bind]
  | none =>
    by_cases h0 : value = 0
    · subst h0
      rw [assembleData_render cfg 83 (by simp) _ (by simp) (by
        intro it hit; simp at hit; rcases hit with rfl; exact hi _ _)]
      simp [assembleDefs, hcount, withDefault, R.bind]
    · rw [assembleData_render cfg 83 (by simp) _ (by simp) (by
        intro it hit; simp [h0] at hit; rcases hit with rfl | rfl <;> exact hi _ _)]
      simp [assembleDefs, hcount, hval, withDefault, R.bind, h0]

end C02L
