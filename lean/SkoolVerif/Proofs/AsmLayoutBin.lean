import SkoolVerif.Spec.AsmLayout
/-! `skool2bin.BinWriter` (model `binLayout`) refines the reference layout (C04). -/
namespace AsmLayout
open Spec

variable {Op : Type} (size : Op → Nat)

theorem binBefore_spec (ops : List Op) : ∀ (st : BinSt Op) (a : Nat) pc' removed' out',
    specChain size a none false st.removed st.out (ops.map (fun o => (false, o))) = some (pc', removed', out') →
    binBefore size st a ops = .ok (pc', { st with out := out' }) ∧ removed' = st.removed := by
  induction ops with
  | nil =>
    intro st a pc' removed' out' h
    simp [specChain] at h
    obtain ⟨rfl, rfl, rfl⟩ := h
    simp [binBefore]
  | cons op ops ih =>
    intro st a pc' removed' out' h
    simp only [List.map_cons, specChain] at h
    by_cases hz : size op = 0
    · simp [hz] at h
    · simp only [hz, if_false, Bool.false_eq_true] at h
      have := ih { st with out := st.out ++ [(a, op)] } (a + size op) pc' removed' out' h
      simp only [binBefore, binEmit, hz, if_false, Bool.false_eq_true]
      exact this

theorem binRest_spec (a1 rb : Nat) (chain : List (Bool × Op)) :
    ∀ (st : BinSt Op) (a : Nat) (cur : Option Nat) (first : Bool) pc' removed' out',
    a1 ≤ a → (∀ c, cur = some c → c = rb + (a - a1)) →
    specChain size a cur first st.removed st.out chain = some (pc', removed', out') →
    binRest size a1 rb st a (chain.map (fun p => (p.1, some p.2))) =
      .ok (pc', { st with removed := removed', out := out' }) := by
  induction chain with
  | nil =>
    intro st a cur first pc' removed' out' _ _ h
    simp [specChain] at h
    obtain ⟨rfl, rfl, rfl⟩ := h
    simp [binRest]
  | cons p chain ih =>
    obtain ⟨ow, op⟩ := p
    intro st a cur first pc' removed' out' ha hc h
    simp only [specChain] at h
    by_cases hz : size op = 0
    · simp [hz] at h
    · simp only [hz, if_false] at h
      cases ow with
      | true =>
        simp only [if_true] at h
        cases cur with
        | none => simp at h
        | some c =>
          simp only at h
          split at h
          · simp at h
          · have hc' := hc c rfl
            have := ih { st with removed := st.removed ++ rangeL c (size op), out := st.out ++ [(a, op)] }
              (a + size op) (some (c + size op)) false pc' removed' out' (by omega)
              (by intro c' h'; cases h'; omega) h
            simp only [List.map_cons, binRest, binEmit, hz, if_false, if_true]
            rw [← hc']
            exact this
      | false =>
        simp only [Bool.false_eq_true, if_false] at h
        have := ih { st with out := st.out ++ [(a, op)] } (a + size op) none false pc' removed' out'
          (by omega) (by intro c' h'; cases h') h
        simp only [List.map_cons, binRest, binEmit, hz, if_false, Bool.false_eq_true]
        exact this

/-- Directives without an operation are skipped by `binRest`. -/
theorem binRest_filterMap (a1 rb : Nat) (subs : List (SubDir Op)) : ∀ (st : BinSt Op) (a : Nat),
    binRest size a1 rb st a (subs.map (fun s => (s.flags.overwrite, s.op))) =
    binRest size a1 rb st a
      ((subs.filterMap (fun s => s.op.map (fun o => (s.flags.overwrite, o)))).map (fun p => (p.1, some p.2))) := by
  induction subs with
  | nil => intro st a; rfl
  | cons s subs ih =>
    intro st a
    cases hs : s.op with
    | none => simp [binRest, hs, ih]
    | some o =>
      simp only [List.map_cons, List.filterMap_cons, hs, Option.map_some, binRest]
      cases binEmit size st a o s.flags.overwrite (rb + (a - a1)) with
      | error e => rfl
      | ok r => exact ih r.2 r.1

theorem binCur_spec (orig : Option Op) (others : List (SubDir Op)) :
    (binCur orig others).1 = curOf orig others ∧
    ((binCur orig others).2.filterMap (fun s => s.op.map (fun o => (s.flags.overwrite, o)))) = restOf others := by
  cases others with
  | nil => simp [binCur, curOf, restOf]
  | cons s r =>
    by_cases h : s.flags.append <;> simp [binCur, curOf, restOf, h]

theorem filterMap_prepend (subs : List (SubDir Op)) :
    (subs.filterMap (fun s => if s.flags.prepend then s.op else none)) =
      ((subs.filter (fun s => s.flags.prepend)).filterMap (·.op)) := by
  induction subs with
  | nil => rfl
  | cons s t ih =>
    by_cases hp : s.flags.prepend
    · simp [List.filterMap_cons, hp, ih]
    · simp [hp, ih]

/-- The line's own instruction followed by the inserted-after ones. -/
theorem binCurRest_spec (st2 : BinSt Op) (a1 : Nat) (sa : Option Nat) (cur : Bool × Option Op)
    (restSubs : List (SubDir Op)) (pc' : Nat) (removed' : List Nat) (out' : List (Nat × Op))
    (h : (match cur.2 with
          | some o => specChain size a1 sa true st2.removed st2.out
              ((cur.1, o) :: restSubs.filterMap (fun s => s.op.map (fun o => (s.flags.overwrite, o))))
          | none => specChain size a1 none false st2.removed st2.out
              (restSubs.filterMap (fun s => s.op.map (fun o => (s.flags.overwrite, o))))) = some (pc', removed', out')) :
    (match (match cur.2 with
            | some op => binEmit size st2 a1 op cur.1 (sa.getD a1)
            | none => (.ok (a1, st2) : Except Err (Nat × BinSt Op))) with
     | .error e => (.error e : Except Err (Nat × BinSt Op))
     | .ok (a2, st3) => binRest size a1 (sa.getD a1) st3 a2 (restSubs.map (fun (s : SubDir Op) => (s.flags.overwrite, s.op)))) =
      .ok (pc', { st2 with removed := removed', out := out' }) := by
  obtain ⟨ow, cop⟩ := cur
  cases cop with
  | none =>
    simp only at h ⊢
    rw [binRest_filterMap]
    exact binRest_spec size a1 (sa.getD a1) _ st2 a1 none false _ _ _ (Nat.le_refl _)
      (by intro c hc; cases hc) h
  | some o =>
    simp only at h ⊢
    have := binRest_spec size a1 (sa.getD a1) _ st2 a1 sa true _ _ _ (Nat.le_refl _)
      (by intro c hc; simp [hc]) h
    simp only [List.map_cons, binRest, Nat.sub_self, Nat.add_zero] at this
    simp only [binRest_filterMap]
    exact this

/-- `_add_instructions` follows the reference for a line that is not removed. -/
theorem binAdd_spec (st : BinSt Op) (a : Nat) (l : Line Op) (pc' : Nat) (removed' : List Nat)
    (out' : List (Nat × Op)) (a1 : Nat)
    (h : specLine size a st.removed st.out l = some (pc', removed', out', a1)) :
    binAdd size st a l = .ok (pc', { st with removed := removed', out := out', amap := setdefault st.amap l.sa a1 }) := by
  unfold specLine at h
  simp only at h
  split at h
  · simp at h
  · rename_i pc1 removed1 out1 hb
    obtain ⟨hbb, hrem⟩ := binBefore_spec size _ st a pc1 removed1 out1 hb
    subst hrem
    obtain ⟨hcur, hrest⟩ := binCur_spec l.op (l.subs.filter (fun s => !s.flags.prepend))
    split at h
    · simp at h
    · rename_i pc2 removed2 out2 hr
      simp only [Option.some.injEq, Prod.mk.injEq] at h
      obtain ⟨rfl, rfl, rfl, rfl⟩ := h
      rw [← hcur, ← hrest] at hr
      have := binCurRest_spec size { st with out := out1, amap := setdefault st.amap l.sa pc1 } pc1 l.sa
        (binCur l.op (l.subs.filter (fun s => !s.flags.prepend))).1
        (binCur l.op (l.subs.filter (fun s => !s.flags.prepend))).2 _ _ _ hr
      unfold binAdd
      simp only [filterMap_prepend, hbb]
      exact this

/-- `address` of `BinWriter._parse_skool` in terms of the reference state. -/
def addrOf (pc : Option Nat) : MOrg → Option Nat
  | .unset => pc
  | .bare => none
  | .val v => some v

/-- Simulation relation between the BinWriter state and the reference state. -/
structure BinRel (b : BinSt Op) (s : St Op) : Prop where
  removed : b.removed = s.removed
  out : b.out = s.out
  amap : b.amap = s.amap
  addr : b.addr = addrOf s.pc s.porg

theorem binItem_spec (b : BinSt Op) (s s' : St Op) (i : Item Op) (hr : BinRel b s)
    (h : specItem size s i = some s') : ∃ b', binItem size b i = .ok b' ∧ BinRel b' s' := by
  obtain ⟨h1, h2, h3, h4⟩ := hr
  cases i with
  | org v =>
    simp only [specItem] at h
    split at h
    · simp at h
    · simp only [Option.some.injEq] at h
      subst h
      refine ⟨_, rfl, ⟨h1, h2, h3, ?_⟩⟩
      cases v <;> simp [addrOf]
  | remove lo hi =>
    simp only [specItem, Option.some.injEq] at h
    subst h
    exact ⟨_, rfl, ⟨by simp [h1], h2, h3, h4⟩⟩
  | line l =>
    simp only [specItem] at h
    simp only [binItem, binLine, h1]
    generalize hg : isRemoved s.removed l.sa = gone at h ⊢
    cases gone with
    | true =>
      simp only [if_true] at h ⊢
      split at h
      · rename_i hc
        simp only [Option.some.injEq] at h
        subst h
        simp only [Bool.and_eq_true, beq_iff_eq] at hc
        obtain ⟨⟨_, hporg⟩, hpc⟩ := hc
        refine ⟨_, rfl, ⟨rfl, h2, h3, ?_⟩⟩
        simp only [h4, hporg, addrOf]
        cases hp : s.pc with
        | none => simp [hp] at hpc
        | some p => rfl
      · simp at h
    | false =>
      simp only [Bool.false_eq_true, if_false] at h ⊢
      split at h
      · simp at h
      · rename_i a ha
        split at h
        · simp at h
        · rename_i pc' removed' out' a1 hl
          simp only [Option.some.injEq] at h
          subst h
          have haddr : b.addr.or l.sa = some a := by
            rw [h4]
            cases hp : s.porg with
            | unset => simp only [hp, startPc] at ha; simp [addrOf, ha]
            | bare => simp only [hp, startPc] at ha; simp [addrOf, ha]
            | val v => simp only [hp, startPc] at ha; simp [addrOf, ← ha]
          rw [haddr]
          rw [← h1, ← h2] at hl
          simp only [binAdd_spec size b a l pc' removed' out' a1 hl]
          exact ⟨_, rfl, ⟨rfl, rfl, by simp [h3], by simp [addrOf]⟩⟩

theorem binItems_spec (is : List (Item Op)) : ∀ (b : BinSt Op) (s s' : St Op), BinRel b s →
    specItems size s is = some s' → ∃ b', binItems size b is = .ok b' ∧ BinRel b' s' := by
  induction is with
  | nil =>
    intro b s s' hr h
    simp only [specItems, Option.some.injEq] at h
    subst h
    exact ⟨b, rfl, hr⟩
  | cons i is ih =>
    intro b s s' hr h
    simp only [specItems] at h
    split at h
    · simp at h
    · rename_i s1 h1
      obtain ⟨b1, hb1, hr1⟩ := binItem_spec size b s s1 i hr h1
      obtain ⟨b', hb', hr'⟩ := ih b1 s1 s' hr1 h
      exact ⟨b', by simp [binItems, hb1, hb'], hr'⟩

theorem binBlocks_spec (bs : List (Block Op)) : ∀ (b : BinSt Op) (s s' : St Op), BinRel b s →
    specBlocks size s bs = some s' → ∃ b', binBlocks size b bs = .ok b' ∧ BinRel b' s' := by
  induction bs with
  | nil =>
    intro b s s' hr h
    simp only [specBlocks, Option.some.injEq] at h
    subst h
    exact ⟨b, rfl, hr⟩
  | cons blk bs ih =>
    intro b s s' hr h
    simp only [specBlocks] at h
    split at h
    · simp at h
    · rename_i s1 h1
      have hr0 : BinRel { b with removed := [] } { s with removed := [], started := false } :=
        ⟨rfl, hr.out, hr.amap, hr.addr⟩
      obtain ⟨b1, hb1, hr1⟩ := binItems_spec size blk _ _ s1 hr0 h1
      obtain ⟨b', hb', hr'⟩ := ih b1 s1 s' hr1 h
      exact ⟨b', by simp [binBlocks, binBlock, hb1, hb'], hr'⟩

theorem binInit_rel : BinRel (binInit Op) (Spec.init Op) := ⟨rfl, rfl, rfl, rfl⟩

end AsmLayout
