import SkoolVerif.Proofs.SimFrame
import SkoolVerif.Proofs.SimWf
import SkoolVerif.Gen.SimRangeThms
/-!
Lifting the per-closure theorems of the plain simulator model to `step` (one `opcodes[memory[pc]]()`
call, through the prefix tables) and to runs of any length.
-/
open Z80
namespace Sim

variable {μ ρ : Type} [MemLike μ]

/-- second level: DDCB/FDCB (`Simulator.prefix2`) -/
def leafOf2 (s : St μ) (i : Instr) : Instr :=
  match i with
  | .prefix2_ tbl2 => tbl2.get (mget s.mem ((s.pc + 3) % 65536))
  | i => i

/-- first level: CB/ED/DD/FD (`Simulator.prefix`) -/
def leafOf1 (s : St μ) (i : Instr) : Instr :=
  match i with
  | .prefix_ tbl => leafOf2 s (tbl.get (mget s.mem ((s.pc + 1) % 65536)))
  | i => leafOf2 s i

/-- The closure that `step` ends up running (after following the prefix tables). -/
def leafOf (s : St μ) : Instr := leafOf1 s (OpTbl.get .MAIN (mget s.mem s.pc))

theorem exec2_eq (cfg : Cfg) (i : Instr) (s : St μ) : exec2 cfg i s = execLeaf cfg (leafOf2 s i) s := by
  cases i <;> rfl

theorem step_eq (cfg : Cfg) (s : St μ) : step cfg s = execLeaf cfg (leafOf s) s := by
  unfold step leafOf
  generalize OpTbl.get .MAIN (mget s.mem s.pc) = i
  cases i <;> simp only [exec, leafOf1] <;> exact exec2_eq cfg _ s

theorem leafOf2_wf (s : St μ) (i : Instr) (h : instrWf i = true) : instrWf (leafOf2 s i) = true := by
  cases i <;> first | exact h | exact get_wf _ _

theorem leafOf_wf (s : St μ) : instrWf (leafOf s) = true := by
  unfold leafOf
  generalize hm : OpTbl.get .MAIN (mget s.mem s.pc) = i
  have hw : instrWf i = true := hm ▸ get_wf _ _
  cases i <;> simp only [leafOf1] <;> first | exact leafOf2_wf s _ hw | exact leafOf2_wf s _ (get_wf _ _)

theorem tmono_step (cfg : Cfg) (s : St μ) : s.t ≤ (step cfg s).t := by
  rw [step_eq]; exact tmono_execLeaf cfg _ (leafOf_wf s) s

theorem rinv_step [CellMem μ] (cfg : Cfg) (s : St μ) (h : RInv s) : RInv (step cfg s) := by
  rw [step_eq]; exact rinv_execLeaf cfg _ (leafOf_wf s) s h

/-- `n` consecutive steps -/
def runN (cfg : Cfg) : Nat → St μ → St μ
  | 0, s => s
  | n + 1, s => runN cfg n (step cfg s)

theorem rom_runN [RomMem μ ρ] (cfg : Cfg) (n : Nat) (s : St μ) :
    RomMem.romView (runN cfg n s).mem = RomMem.romView s.mem := by
  induction n generalizing s with
  | zero => rfl
  | succ n ih => simp only [runN]; rw [ih, rom_step]

theorem tmono_runN (cfg : Cfg) (n : Nat) (s : St μ) : s.t ≤ (runN cfg n s).t := by
  induction n generalizing s with
  | zero => exact Int.le_refl _
  | succ n ih => simp only [runN]; exact Int.le_trans (tmono_step cfg s) (ih _)

theorem rinv_runN [CellMem μ] (cfg : Cfg) (n : Nat) (s : St μ) (h : RInv s) : RInv (runN cfg n s) := by
  induction n generalizing s with
  | zero => exact h
  | succ n ih => simp only [runN]; exact ih _ (rinv_step cfg s h)

end Sim
