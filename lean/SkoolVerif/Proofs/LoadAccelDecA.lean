import SkoolVerif.Model.LoadAccel
import SkoolVerif.Proofs.SimStep
import SkoolVerif.Proofs.TableRanges
import SkoolVerif.Spec.AluCheck
/-!
`DEC A: JR NZ,$-1` / `DEC A: JP NZ,$-1` acceleration (`loadtracer.dec_a`) against the generated
Z80 model: the state the accelerator writes is exactly the state reached by iterating
`Sim.step` until the loop exits.
-/
open Z80 Sim
namespace LoadAccel

variable {μ : Type} [MemLike μ]

/-! ### register-array algebra -/

theorem arr_ext_rget (a b : Array Int) (hs : a.size = b.size) (h : ∀ i : Int, rget a i = rget b i) : a = b := by
  apply Array.ext hs
  intro i h1 h2
  have := h (i : Int)
  unfold rget at this
  simp only [Int.natCast_nonneg, if_true, Int.toNat_natCast] at this
  simpa [Array.getD, h1, h2] using this

theorem rset3_absorb (r : Array Int) (a1 f1 r1 a2 f2 r2 : Int) :
    rset (rset (rset (rset (rset (rset r 0 a1) 1 f1) 15 r1) 0 a2) 1 f2) 15 r2
      = rset (rset (rset r 0 a2) 1 f2) 15 r2 := by
  apply arr_ext_rget
  · simp only [rset_size]
  · intro i
    simp only [rget_rset, rset_size]
    grind

theorem rset_15_15 (r : Array Int) (v w : Int) : rset (rset r 15 v) 15 w = rset r 15 w := by
  apply arr_ext_rget
  · simp only [rset_size]
  · intro i
    simp only [rget_rset, rset_size]
    grind

/-! ### the dispatch slots involved -/

theorem main_3D : OpTbl.get .MAIN 0x3D = .fc_r .R1 4 1 .DEC 0 := by decide +kernel
theorem main_20 : OpTbl.get .MAIN 0x20 = .jr 64 0 := by decide +kernel
theorem main_C2 : OpTbl.get .MAIN 0xC2 = .jp 64 0 := by decide +kernel

theorem step_dec_a (cfg : Cfg) (s : St μ) (h : mget s.mem s.pc = 0x3D) :
    step cfg s = fc_r cfg .R1 4 1 .DEC 0 s := by
  rw [step_eq]
  have : leafOf s = .fc_r .R1 4 1 .DEC 0 := by
    unfold leafOf; rw [h, main_3D]; rfl
  rw [this]; rfl

theorem step_jr_nz (cfg : Cfg) (s : St μ) (h : mget s.mem s.pc = 0x20) :
    step cfg s = jr cfg 64 0 s := by
  rw [step_eq]
  have : leafOf s = .jr 64 0 := by
    unfold leafOf; rw [h, main_20]; rfl
  rw [this]; rfl

theorem step_jp_nz (cfg : Cfg) (s : St μ) (h : mget s.mem s.pc = 0xC2) :
    step cfg s = jp cfg 64 0 s := by
  rw [step_eq]
  have : leafOf s = .jp 64 0 := by
    unfold leafOf; rw [h, main_C2]; rfl
  rw [this]; rfl

/-! ### facts about the DEC table (all 2 × 256 entries, kernel-checked) -/

def decRowOk (c a : Nat) : Bool :=
  let f := (Tbl.DEC (c : Int) (a : Int)).2
  decide (f % 2 = (c : Int)) && decide ((PyInt.land f 64 = 0) = (a ≠ 1)) && decide (a = 1 → f = 0x42 + (c : Int))
    && decide ((Tbl.DEC (c : Int) (a : Int)).1 = (((a + 255) % 256 : Nat) : Int))

theorem decTable_ok : AluCheck.allLt 2 (fun c => AluCheck.allLt 256 (fun a => decRowOk c a)) = true := by
  decide +kernel

theorem dec_facts (c a : Int) (hc : 0 ≤ c ∧ c < 2) (ha : 0 ≤ a ∧ a < 256) :
    (Tbl.DEC c a).2 % 2 = c ∧ (PyInt.land (Tbl.DEC c a).2 64 = 0 ↔ a ≠ 1) ∧ (a = 1 → (Tbl.DEC c a).2 = 0x42 + c)
      ∧ (Tbl.DEC c a).1 = (a + 255) % 256 := by
  have h := AluCheck.allLt_spec (AluCheck.allLt_spec decTable_ok c.toNat (by omega)) a.toNat (by omega)
  have ec : ((c.toNat : Nat) : Int) = c := by omega
  have ea : ((a.toNat : Nat) : Int) = a := by omega
  simp only [decRowOk, Bool.and_eq_true, decide_eq_true_eq, ec, ea] at h
  obtain ⟨⟨⟨h1, h2⟩, h3⟩, h4⟩ := h
  refine ⟨h1, ?_, ?_, ?_⟩
  · rw [h2]; constructor
    · intro h e; apply h; omega
    · intro h e; apply h; omega
  · intro e; apply h3; omega
  · rw [h4]; omega

/-- the hand copy of the table in `loadtracer.py` is the simulator's table -/
theorem ltDEC_eq (c a : Int) : ltDEC c a = Tbl.DEC c a := by
  unfold ltDEC Tbl.DEC
  have : a - 1 = -1 + a := by omega
  simp only [this]

theorem ltINC0_eq (i : Int) : ltINC0 i = Tbl.INC 0 i := by
  unfold ltINC0 Tbl.INC
  have : i + 1 = 1 + i := by omega
  simp only [this, Int.add_zero]

/-! ### R register arithmetic -/

theorem land128 (r : Int) (h : 0 ≤ r ∧ r < 256) : PyInt.land r 128 = (r / 128) * 128 := by
  have h1 := (TableRanges.R1_spec r h).1
  obtain ⟨n, rfl⟩ := Int.eq_ofNat_of_zero_le h.1
  simp only [Tbl.R1, Int.toNat_natCast] at h1
  push_cast at h1
  omega

theorem R1_rAdd (r : Int) : Tbl.R1 r = rAdd r 1 := by
  unfold Tbl.R1 rAdd; rfl

theorem rAdd_byte (r n : Int) (h : 0 ≤ r ∧ r < 256) : 0 ≤ rAdd r n ∧ rAdd r n < 256 := by
  unfold rAdd; rw [land128 r h]; omega

theorem rAdd_rAdd (r n m : Int) (h : 0 ≤ r ∧ r < 256) : rAdd (rAdd r n) m = rAdd r (n + m) := by
  have hb := rAdd_byte r n h
  unfold rAdd at hb ⊢
  rw [land128 _ hb, land128 r h]
  omega

end LoadAccel

namespace LoadAccel
variable {μ : Type} [MemLike μ]

theorem runN_add (cfg : Cfg) (a b : Nat) (s : St μ) : runN cfg (a + b) s = runN cfg b (runN cfg a s) := by
  induction a generalizing s with
  | zero => simp [runN]
  | succ a ih => rw [Nat.add_right_comm]; simp only [runN]; exact ih _

/-- `A`, with 0 read as 256 (`a = registers[0]; if a == 0: a = 256`) -/
def aval (s : St μ) : Int := if rget s.reg 0 = 0 then 256 else rget s.reg 0

/-- entry conditions of `DEC A: JR NZ,$-1` at PC -/
def JrLoop (s : St μ) : Prop :=
  RegsOk s.reg ∧ (0 ≤ s.pc ∧ s.pc < 65536) ∧ mget s.mem s.pc = 0x3D ∧ mget s.mem ((s.pc + 1) % 65536) = 0x20
    ∧ mget s.mem ((s.pc + 2) % 65536) = 0xFD

/-- entry conditions of `DEC A: JP NZ,$-1` at PC -/
def JpLoop (s : St μ) : Prop :=
  RegsOk s.reg ∧ (0 ≤ s.pc ∧ s.pc < 65536) ∧ mget s.mem s.pc = 0x3D ∧ mget s.mem ((s.pc + 1) % 65536) = 0xC2
    ∧ mget s.mem ((s.pc + 2) % 65536) = s.pc % 256 ∧ mget s.mem ((s.pc + 3) % 65536) = s.pc / 256

theorem dec_step (cfg : Cfg) (s : St μ) (hr : RegsOk s.reg) (hm : mget s.mem s.pc = 0x3D) :
    step cfg s = { s with reg := rset (rset (rset s.reg 0 ((rget s.reg 0 + 255) % 256)) 1 (Tbl.DEC ((rget s.reg 1) % 2) (rget s.reg 0)).2) 15
                              (rAdd (rget s.reg 15) 1),
                          t := s.t + 4, pc := (s.pc + 1) % 65536 } := by
  rw [step_dec_a cfg s hm]
  have hA := hr.byte 0 (by omega) (by omega) (by omega)
  have d := dec_facts ((rget s.reg 1) % 2) (rget s.reg 0) (by omega) hA
  simp only [fc_r, Id.run, pure, TblP2.get, TblI1.get, d.2.2.2, R1_rAdd]
  have hs := hr.1
  simp only [rget_rset, rset_size, hs]
  simp


/-- DEC A then JR NZ taken (A ≠ 1) -/
theorem jr_pair_taken (cfg : Cfg) (s : St μ) (h : JrLoop s) (ha : rget s.reg 0 ≠ 1) :
    runN cfg 2 s =
      { s with
        reg := rset (rset (rset s.reg 0 ((rget s.reg 0 + 255) % 256)) 1 (Tbl.DEC ((rget s.reg 1) % 2) (rget s.reg 0)).2) 15
                (rAdd (rget s.reg 15) 2),
        t := s.t + 16 } := by
  obtain ⟨hr, hpc, hm0, hm1, hm2⟩ := h
  have hA := hr.byte 0 (by omega) (by omega) (by omega)
  have hR := hr.byte 15 (by omega) (by omega) (by omega)
  have d := dec_facts ((rget s.reg 1) % 2) (rget s.reg 0) (by omega) hA
  have hs := hr.1
  simp only [runN]
  rw [dec_step cfg s hr hm0]
  rw [step_jr_nz _ _ (by simpa using hm1)]
  have hz : PyInt.land (Tbl.DEC ((rget s.reg 1) % 2) (rget s.reg 0)).2 64 = 0 := d.2.1.mpr ha
  have e2 : ((s.pc + 1) % 65536 + 1) % 65536 = (s.pc + 2) % 65536 := by omega
  simp only [jr, Id.run, pure, rget_rset, rset_size, hs, R1_rAdd]
  simp [hz, e2, hm2, Tbl.JR_OFFSETS, rset_15_15, rAdd_rAdd _ _ _ hR]
  omega

/-- DEC A then JR NZ not taken (A = 1): the loop exits -/
theorem jr_pair_exit (cfg : Cfg) (s : St μ) (h : JrLoop s) (ha : rget s.reg 0 = 1) :
    runN cfg 2 s =
      { s with
        reg := rset (rset (rset s.reg 0 0) 1 (0x42 + (rget s.reg 1) % 2)) 15 (rAdd (rget s.reg 15) 2),
        t := s.t + 11, pc := (s.pc + 3) % 65536 } := by
  obtain ⟨hr, hpc, hm0, hm1, hm2⟩ := h
  have hA := hr.byte 0 (by omega) (by omega) (by omega)
  have hR := hr.byte 15 (by omega) (by omega) (by omega)
  have d := dec_facts ((rget s.reg 1) % 2) (rget s.reg 0) (by omega) hA
  have hs := hr.1
  simp only [runN]
  rw [dec_step cfg s hr hm0]
  rw [step_jr_nz _ _ (by simpa using hm1)]
  generalize (Tbl.DEC ((rget s.reg 1) % 2) (rget s.reg 0)).2 = F' at d ⊢
  have hf : F' = 0x42 + (rget s.reg 1) % 2 := d.2.2.1 ha
  have hz : ¬ PyInt.land F' 64 = 0 := by rw [d.2.1]; omega
  simp only [jr, Id.run, pure, rget_rset, rset_size, hs, R1_rAdd]
  simp [hz, ha, rset_15_15, rAdd_rAdd _ _ _ hR]
  subst hf
  simp
  omega

theorem dec_flag_byte (c a : Int) (hc : 0 ≤ c ∧ c < 2) (ha : 0 ≤ a ∧ a < 256) : Byte (Tbl.DEC c a).2 :=
  (TableRanges.DEC_spec c a hc ha).2.2

theorem jr_loop (cfg : Cfg) (n : Nat) : ∀ s : St μ, JrLoop s → aval s = n + 1 →
    runN cfg (2 * (n + 1)) s =
      { s with
        reg := rset (rset (rset s.reg 0 0) 1 (0x42 + (rget s.reg 1) % 2)) 15 (rAdd (rget s.reg 15) (2 * (n + 1))),
        t := s.t + (16 * (n + 1) - 5), pc := (s.pc + 3) % 65536 } := by
  induction n with
  | zero =>
    intro s h ha
    have hA := h.1.byte 0 (by omega) (by omega) (by omega)
    have : rget s.reg 0 = 1 := by unfold aval at ha; split at ha <;> omega
    rw [show 2 * (0 + 1) = 2 from rfl, jr_pair_exit cfg s h this]
    simp
  | succ n ih =>
    intro s h ha
    obtain ⟨hr, hpc, hm0, hm1, hm2⟩ := h
    have hA := hr.byte 0 (by omega) (by omega) (by omega)
    have hR := hr.byte 15 (by omega) (by omega) (by omega)
    have hs := hr.1
    have hne : rget s.reg 0 ≠ 1 := by unfold aval at ha; split at ha <;> omega
    have d := dec_facts ((rget s.reg 1) % 2) (rget s.reg 0) (by omega) hA
    have hFb := dec_flag_byte ((rget s.reg 1) % 2) (rget s.reg 0) (by omega) hA
    rw [show 2 * (n + 1 + 1) = 2 + 2 * (n + 1) by omega, runN_add, jr_pair_taken cfg s ⟨hr, hpc, hm0, hm1, hm2⟩ hne]
    generalize (Tbl.DEC ((rget s.reg 1) % 2) (rget s.reg 0)).2 = F' at d hFb ⊢
    have hr2 : RegsOk (rset (rset (rset s.reg 0 ((rget s.reg 0 + 255) % 256)) 1 F') 15 (rAdd (rget s.reg 15) 2)) := by
      apply RegsOk_rset_byte _ _ _ (by omega) (by omega) (by omega) (by omega) (rAdd_byte _ _ hR)
      apply RegsOk_rset_byte _ _ _ (by omega) (by omega) (by omega) (by omega) hFb
      apply RegsOk_rset_byte hr _ _ (by omega) (by omega) (by omega) (by omega)
      unfold Byte; omega
    refine Eq.trans (ih _ ⟨hr2, hpc, hm0, hm1, hm2⟩ ?_) ?_
    rotate_left
    · simp only [rget_rset, rset_size, hs, rset3_absorb]
      simp [rAdd_rAdd _ _ _ hR, d.1]
      constructor
      · have e : (2 : Int) + 2 * ((n : Int) + 1) = 2 * ((n : Int) + 1 + 1) := by omega
        push_cast; rw [e]
      · push_cast; omega
    · have hA' : 0 ≤ rget s.reg 0 ∧ rget s.reg 0 < 256 := hA
      unfold aval at ha ⊢
      simp only [rget_rset, rset_size, hs]
      simp
      split at ha <;> split <;> omega


/-- DEC A then JP NZ taken (A ≠ 1) -/
theorem jp_pair_taken (cfg : Cfg) (s : St μ) (h : JpLoop s) (ha : rget s.reg 0 ≠ 1) :
    runN cfg 2 s =
      { s with
        reg := rset (rset (rset s.reg 0 ((rget s.reg 0 + 255) % 256)) 1 (Tbl.DEC ((rget s.reg 1) % 2) (rget s.reg 0)).2) 15
                (rAdd (rget s.reg 15) 2),
        t := s.t + 14 } := by
  obtain ⟨hr, hpc, hm0, hm1, hm2, hm3⟩ := h
  have hA := hr.byte 0 (by omega) (by omega) (by omega)
  have hR := hr.byte 15 (by omega) (by omega) (by omega)
  have d := dec_facts ((rget s.reg 1) % 2) (rget s.reg 0) (by omega) hA
  have hs := hr.1
  simp only [runN]
  rw [dec_step cfg s hr hm0]
  rw [step_jp_nz _ _ (by simpa using hm1)]
  have hz : PyInt.land (Tbl.DEC ((rget s.reg 1) % 2) (rget s.reg 0)).2 64 = 0 := d.2.1.mpr ha
  have e2 : ((s.pc + 1) % 65536 + 1) % 65536 = (s.pc + 2) % 65536 := by omega
  have e3 : ((s.pc + 1) % 65536 + 2) % 65536 = (s.pc + 3) % 65536 := by omega
  simp only [jp, Id.run, pure, rget_rset, rset_size, hs, R1_rAdd]
  simp [hz, e2, e3, hm2, hm3, rset_15_15, rAdd_rAdd _ _ _ hR]
  omega

/-- DEC A then JP NZ not taken (A = 1): the loop exits -/
theorem jp_pair_exit (cfg : Cfg) (s : St μ) (h : JpLoop s) (ha : rget s.reg 0 = 1) :
    runN cfg 2 s =
      { s with
        reg := rset (rset (rset s.reg 0 0) 1 (0x42 + (rget s.reg 1) % 2)) 15 (rAdd (rget s.reg 15) 2),
        t := s.t + 14, pc := (s.pc + 4) % 65536 } := by
  obtain ⟨hr, hpc, hm0, hm1, hm2, hm3⟩ := h
  have hA := hr.byte 0 (by omega) (by omega) (by omega)
  have hR := hr.byte 15 (by omega) (by omega) (by omega)
  have d := dec_facts ((rget s.reg 1) % 2) (rget s.reg 0) (by omega) hA
  have hs := hr.1
  simp only [runN]
  rw [dec_step cfg s hr hm0]
  rw [step_jp_nz _ _ (by simpa using hm1)]
  generalize (Tbl.DEC ((rget s.reg 1) % 2) (rget s.reg 0)).2 = F' at d ⊢
  have hf : F' = 0x42 + (rget s.reg 1) % 2 := d.2.2.1 ha
  have hz : ¬ PyInt.land F' 64 = 0 := by rw [d.2.1]; omega
  simp only [jp, Id.run, pure, rget_rset, rset_size, hs, R1_rAdd]
  simp [hz, ha, rset_15_15, rAdd_rAdd _ _ _ hR]
  subst hf
  simp
  omega

theorem jp_loop (cfg : Cfg) (n : Nat) : ∀ s : St μ, JpLoop s → aval s = n + 1 →
    runN cfg (2 * (n + 1)) s =
      { s with
        reg := rset (rset (rset s.reg 0 0) 1 (0x42 + (rget s.reg 1) % 2)) 15 (rAdd (rget s.reg 15) (2 * (n + 1))),
        t := s.t + 14 * (n + 1), pc := (s.pc + 4) % 65536 } := by
  induction n with
  | zero =>
    intro s h ha
    have hA := h.1.byte 0 (by omega) (by omega) (by omega)
    have : rget s.reg 0 = 1 := by unfold aval at ha; split at ha <;> omega
    rw [show 2 * (0 + 1) = 2 from rfl, jp_pair_exit cfg s h this]
    simp
  | succ n ih =>
    intro s h ha
    obtain ⟨hr, hpc, hm0, hm1, hm2, hm3⟩ := h
    have hA := hr.byte 0 (by omega) (by omega) (by omega)
    have hR := hr.byte 15 (by omega) (by omega) (by omega)
    have hs := hr.1
    have hne : rget s.reg 0 ≠ 1 := by unfold aval at ha; split at ha <;> omega
    have d := dec_facts ((rget s.reg 1) % 2) (rget s.reg 0) (by omega) hA
    have hFb := dec_flag_byte ((rget s.reg 1) % 2) (rget s.reg 0) (by omega) hA
    rw [show 2 * (n + 1 + 1) = 2 + 2 * (n + 1) by omega, runN_add, jp_pair_taken cfg s ⟨hr, hpc, hm0, hm1, hm2, hm3⟩ hne]
    generalize (Tbl.DEC ((rget s.reg 1) % 2) (rget s.reg 0)).2 = F' at d hFb ⊢
    have hr2 : RegsOk (rset (rset (rset s.reg 0 ((rget s.reg 0 + 255) % 256)) 1 F') 15 (rAdd (rget s.reg 15) 2)) := by
      apply RegsOk_rset_byte _ _ _ (by omega) (by omega) (by omega) (by omega) (rAdd_byte _ _ hR)
      apply RegsOk_rset_byte _ _ _ (by omega) (by omega) (by omega) (by omega) hFb
      apply RegsOk_rset_byte hr _ _ (by omega) (by omega) (by omega) (by omega)
      unfold Byte; omega
    refine Eq.trans (ih _ ⟨hr2, hpc, hm0, hm1, hm2, hm3⟩ ?_) ?_
    rotate_left
    · simp only [rget_rset, rset_size, hs, rset3_absorb]
      simp [rAdd_rAdd _ _ _ hR, d.1]
      constructor
      · have e : (2 : Int) + 2 * ((n : Int) + 1) = 2 * ((n : Int) + 1 + 1) := by omega
        push_cast; rw [e]
      · push_cast; omega
    · have hA' : 0 ≤ rget s.reg 0 ∧ rget s.reg 0 < 256 := hA
      unfold aval at ha ⊢
      simp only [rget_rset, rset_size, hs]
      simp
      split at ha <;> split <;> omega


theorem aval_pos (s : St μ) (hr : RegsOk s.reg) : 1 ≤ aval s ∧ aval s ≤ 256 := by
  have hA : 0 ≤ rget s.reg 0 ∧ rget s.reg 0 < 256 := hr.byte 0 (by omega) (by omega) (by omega)
  unfold aval; split <;> omega

theorem decAFfwd_norm (tc : Int → Int) (size : Int) (s : St μ) (hr : RegsOk s.reg) :
    decAFfwd tc size s =
      { s with
        reg := rset (rset (rset s.reg 0 0) 1 (0x42 + (rget s.reg 1) % 2)) 15 (rAdd (rget s.reg 15) (2 * aval s)),
        t := s.t + tc (aval s), pc := (s.pc + size) % 65536 } := by
  have hs := hr.1
  unfold decAFfwd aval
  simp only [rget_rset, rset_size, hs]
  simp [Int.mul_comm]

theorem decAKind_jr (j p : Bool) (s : St μ) (h : decAKind j p s = .jr) :
    s.iff = 0 ∧ j = true ∧ mget s.mem ((s.pc + 1) % 65536) = 0x20 ∧ mget s.mem ((s.pc + 2) % 65536) = 0xFD := by
  unfold decAKind at h
  simp only at h
  split at h
  · split at h
    · rename_i h0 h1; exact ⟨h0, h1.1, h1.2.1, h1.2.2⟩
    · split at h <;> simp at h
  · simp at h

theorem decAKind_jp (j p : Bool) (s : St μ) (h : decAKind j p s = .jp) :
    s.iff = 0 ∧ p = true ∧ mget s.mem ((s.pc + 1) % 65536) = 0xC2 ∧ mget s.mem ((s.pc + 2) % 65536) = s.pc % 256
      ∧ mget s.mem ((s.pc + 3) % 65536) = s.pc / 256 := by
  unfold decAKind at h
  simp only at h
  split at h
  · split at h
    · simp at h
    · split at h
      · rename_i h0 _ h1; exact ⟨h0, h1.1, h1.2.1, h1.2.2.1, h1.2.2.2⟩
      · simp at h
  · simp at h

/-- the accelerated JR branch writes exactly the state reached after `2·A` instructions -/
theorem hook_jr_eq_run (cfg : Cfg) (j p : Bool) (s : St μ) (hr : RegsOk s.reg) (hpc : 0 ≤ s.pc ∧ s.pc < 65536)
    (hm : mget s.mem s.pc = 0x3D) (hk : decAKind j p s = .jr) :
    decAHook j p s = runN cfg (2 * (aval s).toNat) s := by
  obtain ⟨_, _, h1, h2⟩ := decAKind_jr j p s hk
  have hp := aval_pos s hr
  obtain ⟨n, hn⟩ : ∃ n : Nat, aval s = n + 1 := ⟨(aval s).toNat - 1, by omega⟩
  have e : (aval s).toNat = n + 1 := by omega
  unfold decAHook; rw [hk]; dsimp only
  rw [e, jr_loop cfg n s ⟨hr, hpc, hm, h1, h2⟩ hn, decAFfwd_norm _ _ s hr, hn]

theorem hook_jp_eq_run (cfg : Cfg) (j p : Bool) (s : St μ) (hr : RegsOk s.reg) (hpc : 0 ≤ s.pc ∧ s.pc < 65536)
    (hm : mget s.mem s.pc = 0x3D) (hk : decAKind j p s = .jp) :
    decAHook j p s = runN cfg (2 * (aval s).toNat) s := by
  obtain ⟨_, _, h1, h2, h3⟩ := decAKind_jp j p s hk
  have hp := aval_pos s hr
  obtain ⟨n, hn⟩ : ∃ n : Nat, aval s = n + 1 := ⟨(aval s).toNat - 1, by omega⟩
  have e : (aval s).toNat = n + 1 := by omega
  unfold decAHook; rw [hk]; dsimp only
  rw [e, jp_loop cfg n s ⟨hr, hpc, hm, h1, h2, h3⟩ hn, decAFfwd_norm _ _ s hr, hn]

/-- not accelerated (interrupts enabled, option off, or no loop at PC): the hook is a plain DEC A -/
theorem hook_plain_eq_step (cfg : Cfg) (j p : Bool) (s : St μ) (hr : RegsOk s.reg)
    (hm : mget s.mem s.pc = 0x3D) (hk : decAKind j p s = .miss ∨ decAKind j p s = .plain) :
    decAHook j p s = step cfg s := by
  have hA := hr.byte 0 (by omega) (by omega) (by omega)
  have d := dec_facts ((rget s.reg 1) % 2) (rget s.reg 0) (by omega) hA
  have hs := hr.1
  rw [dec_step cfg s hr hm]
  unfold decAHook
  rcases hk with hk | hk <;> rw [hk] <;>
    · simp only [decAPlain, ltDEC_eq, R1_rAdd, d.2.2.2, rget_rset, rset_size, hs]
      simp

theorem pair_regs_ok (s : St μ) (hr : RegsOk s.reg) :
    RegsOk (rset (rset (rset s.reg 0 ((rget s.reg 0 + 255) % 256)) 1 (Tbl.DEC ((rget s.reg 1) % 2) (rget s.reg 0)).2) 15 (rAdd (rget s.reg 15) 2)) := by
  have hA := hr.byte 0 (by omega) (by omega) (by omega)
  have hR := hr.byte 15 (by omega) (by omega) (by omega)
  have hFb := dec_flag_byte ((rget s.reg 1) % 2) (rget s.reg 0) (by omega) hA
  apply RegsOk_rset_byte _ _ _ (by omega) (by omega) (by omega) (by omega) (rAdd_byte _ _ hR)
  apply RegsOk_rset_byte _ _ _ (by omega) (by omega) (by omega) (by omega) hFb
  apply RegsOk_rset_byte hr _ _ (by omega) (by omega) (by omega) (by omega)
  unfold Byte; omega

theorem jr_pair_inv (cfg : Cfg) (s : St μ) (h : JrLoop s) (ha : 1 < aval s) :
    JrLoop (runN cfg 2 s) ∧ (runN cfg 2 s).pc = s.pc ∧ aval (runN cfg 2 s) = aval s - 1 := by
  have hA : 0 ≤ rget s.reg 0 ∧ rget s.reg 0 < 256 := h.1.byte 0 (by omega) (by omega) (by omega)
  have hne : rget s.reg 0 ≠ 1 := by unfold aval at ha; split at ha <;> omega
  rw [jr_pair_taken cfg s h hne]
  obtain ⟨hr, hpc, hm0, hm1, hm2⟩ := h
  refine ⟨⟨pair_regs_ok s hr, hpc, hm0, hm1, hm2⟩, rfl, ?_⟩
  unfold aval
  simp only [rget_rset, rset_size, hr.1]
  simp
  unfold aval at ha
  split at ha <;> split <;> omega

theorem jr_prefix (cfg : Cfg) (j : Nat) : ∀ s : St μ, JrLoop s → (j : Int) < aval s →
    JrLoop (runN cfg (2 * j) s) ∧ (runN cfg (2 * j) s).pc = s.pc ∧ aval (runN cfg (2 * j) s) = aval s - j := by
  induction j with
  | zero => intro s h _; exact ⟨h, rfl, by simp [runN]⟩
  | succ j ih =>
    intro s h hj
    obtain ⟨h2, hp2, ha2⟩ := jr_pair_inv cfg s h (by omega)
    rw [show 2 * (j + 1) = 2 + 2 * j by omega, runN_add]
    obtain ⟨h3, hp3, ha3⟩ := ih _ h2 (by omega)
    exact ⟨h3, by rw [hp3, hp2], by rw [ha3, ha2]; push_cast; omega⟩

/-- before the `2·A`-th instruction the program counter never leaves the two loop instructions -/
theorem jr_in_loop (cfg : Cfg) (s : St μ) (h : JrLoop s) (k : Nat) (hk : (k : Int) < 2 * aval s) :
    (runN cfg k s).pc = s.pc ∨ (runN cfg k s).pc = (s.pc + 1) % 65536 := by
  obtain ⟨h3, hp3, _⟩ := jr_prefix cfg (k / 2) s h (by omega)
  rcases Nat.mod_two_eq_zero_or_one k with he | ho
  · left; rw [show k = 2 * (k / 2) by omega]; exact hp3
  · right
    rw [show k = 2 * (k / 2) + 1 by omega, runN_add]
    simp only [runN]
    rw [dec_step cfg _ h3.1 h3.2.2.1, ← hp3]
theorem jp_pair_inv (cfg : Cfg) (s : St μ) (h : JpLoop s) (ha : 1 < aval s) :
    JpLoop (runN cfg 2 s) ∧ (runN cfg 2 s).pc = s.pc ∧ aval (runN cfg 2 s) = aval s - 1 := by
  have hA : 0 ≤ rget s.reg 0 ∧ rget s.reg 0 < 256 := h.1.byte 0 (by omega) (by omega) (by omega)
  have hne : rget s.reg 0 ≠ 1 := by unfold aval at ha; split at ha <;> omega
  rw [jp_pair_taken cfg s h hne]
  obtain ⟨hr, hpc, hm0, hm1, hm2, hm3⟩ := h
  refine ⟨⟨pair_regs_ok s hr, hpc, hm0, hm1, hm2, hm3⟩, rfl, ?_⟩
  unfold aval
  simp only [rget_rset, rset_size, hr.1]
  simp
  unfold aval at ha
  split at ha <;> split <;> omega

theorem jp_prefix (cfg : Cfg) (j : Nat) : ∀ s : St μ, JpLoop s → (j : Int) < aval s →
    JpLoop (runN cfg (2 * j) s) ∧ (runN cfg (2 * j) s).pc = s.pc ∧ aval (runN cfg (2 * j) s) = aval s - j := by
  induction j with
  | zero => intro s h _; exact ⟨h, rfl, by simp [runN]⟩
  | succ j ih =>
    intro s h hj
    obtain ⟨h2, hp2, ha2⟩ := jp_pair_inv cfg s h (by omega)
    rw [show 2 * (j + 1) = 2 + 2 * j by omega, runN_add]
    obtain ⟨h3, hp3, ha3⟩ := ih _ h2 (by omega)
    exact ⟨h3, by rw [hp3, hp2], by rw [ha3, ha2]; push_cast; omega⟩

/-- before the `2·A`-th instruction the program counter never leaves the two loop instructions -/
theorem jp_in_loop (cfg : Cfg) (s : St μ) (h : JpLoop s) (k : Nat) (hk : (k : Int) < 2 * aval s) :
    (runN cfg k s).pc = s.pc ∨ (runN cfg k s).pc = (s.pc + 1) % 65536 := by
  obtain ⟨h3, hp3, _⟩ := jp_prefix cfg (k / 2) s h (by omega)
  rcases Nat.mod_two_eq_zero_or_one k with he | ho
  · left; rw [show k = 2 * (k / 2) by omega]; exact hp3
  · right
    rw [show k = 2 * (k / 2) + 1 by omega, runN_add]
    simp only [runN]
    rw [dec_step cfg _ h3.1 h3.2.2.1, ← hp3]

end LoadAccel
