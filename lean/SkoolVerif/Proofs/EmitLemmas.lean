import SkoolVerif.Proofs.StatementsLemmas
import SkoolVerif.Proofs.CtlTilingLemmas
/-! Sub-block level cover theorems and the structure of `emit` over a tiling (C01). -/
namespace Stmts
open CtlTiling C01Spec

theorem firstSize_le_sum (subl : Sublens) : firstSize subl ≤ (subl.map (·.1)).sum := by
  cases subl with
  | nil => simp [firstSize]
  | cons p r => simp [firstSize]

theorem dataLength_pos (ctl : Char) (subl : Sublens) (start end_ : Nat) (h : start < end_) :
    0 < dataLength ctl subl start end_ := by
  unfold dataLength
  split
  · split
    · omega
    · have := firstSize_le_sum subl; omega
  · omega

/-- the dispatch of one iteration for the byte-oriented types: the statements cover the range exactly -/
theorem dataRange_cover (mem : List Nat) (cfg : Config) (ctl : Char) (subl : Sublens) (a e : Nat)
    (hw : ctl ≠ 'w') (hae : a < e) (hmem : e ≤ mem.length) (h64 : mem.length ≤ 65536) :
    ∃ l, dataRange mem cfg ctl subl a e = .ok l ∧ Chain mem l a e := by
  unfold dataRange
  by_cases ht : ctl = 't'
  · rw [if_pos ht]; exact defbLines_cover mem true _ a e subl hae hmem h64
  · rw [if_neg ht, if_neg hw]
    by_cases hs : ctl = 's'
    · rw [if_pos hs]; exact defsRange_cover mem _ a e subl hae hmem h64
    · rw [if_neg hs]; exact defbLines_cover mem false _ a e subl hae hmem h64

theorem emitSub_data (mem : List Nat) (cfg : Config) (dec : Dec) (s : Sub)
    (hctl : s.ctl = 'b' ∨ s.ctl = 'g' ∨ s.ctl = 's' ∨ s.ctl = 't' ∨ s.ctl = 'u' ∨ s.ctl = 'w') :
    emitSub mem cfg dec s =
      dataLoop mem cfg s.ctl s.sublengths (dataLength s.ctl s.sublengths s.start s.end_) s.end_
        (s.end_ - s.start) s.start := by
  unfold emitSub
  rcases hctl with h | h | h | h | h | h <;> rw [h] <;> rfl

/-- **b, g, s, t, u sub-blocks**: whatever the sublengths and size settings, the DEFB/DEFM/DEFS
statements are consecutive, non-empty, hold the snapshot's bytes and end exactly at the sub-block's end -/
theorem dataSub_cover (mem : List Nat) (cfg : Config) (dec : Dec) (s : Sub)
    (hctl : s.ctl = 'b' ∨ s.ctl = 'g' ∨ s.ctl = 's' ∨ s.ctl = 't' ∨ s.ctl = 'u')
    (hse : s.start < s.end_) (hmem : s.end_ ≤ mem.length) (h64 : mem.length ≤ 65536) :
    SubCovered mem cfg dec s := by
  unfold SubCovered
  rw [emitSub_data mem cfg dec s (by rcases hctl with h | h | h | h | h <;> simp [h])]
  have hw : s.ctl ≠ 'w' := by rcases hctl with h | h | h | h | h <;> rw [h] <;> decide
  have hpos := dataLength_pos s.ctl s.sublengths _ _ hse
  apply dataLoop_cover mem cfg s.ctl s.sublengths _ s.end_ (fun _ => True) hpos (fun _ _ _ => trivial)
  · intro a _ ha
    exact dataRange_cover mem cfg s.ctl s.sublengths a _ hw (by omega) (by omega) h64
  · trivial
  · exact hse
  · omega

/-- **w sub-blocks**: with sublengths (all even) the DEFW statements (and a DEFB for an odd last
byte of each group) end exactly at the sub-block's end; without sublengths they do when the
sub-block has even length or ends at the end of the snapshot -/
theorem wordSub_cover (mem : List Nat) (cfg : Config) (dec : Dec) (s : Sub) (hctl : s.ctl = 'w')
    (hse : s.start < s.end_) (hmem : s.end_ ≤ mem.length) (h64 : mem.length ≤ 65536)
    (hexp : firstSize s.sublengths ≠ 0 → ∀ q ∈ s.sublengths, q.1 % 2 = 0)
    (hdef : firstSize s.sublengths = 0 →
      0 < cfg.defwSize ∧ ((s.end_ - s.start) % 2 = 0 ∨ s.end_ = mem.length)) :
    SubCovered mem cfg dec s := by
  unfold SubCovered
  rw [emitSub_data mem cfg dec s (by simp [hctl])]
  have hpos := dataLength_pos s.ctl s.sublengths _ _ hse
  rw [hctl] at hpos ⊢
  have hdr : ∀ a e, dataRange mem cfg 'w' s.sublengths a e = defwRange mem cfg.defwSize a e s.sublengths := by
    intro a e; simp [dataRange]
  by_cases h0 : firstSize s.sublengths = 0
  · -- one DEFW run over the whole sub-block: the loop body runs once, at `start`
    have hL : dataLength 'w' s.sublengths s.start s.end_ = s.end_ - s.start := by simp [dataLength, h0]
    obtain ⟨hdw, hpar⟩ := hdef h0
    apply dataLoop_cover mem cfg 'w' s.sublengths _ s.end_ (fun a => a = s.start) hpos
    · intro a ha hlt; rw [hL, ha] at hlt; omega
    · intro a ha _
      subst ha
      rw [hdr, hL]
      have hm : min (s.start + (s.end_ - s.start)) s.end_ = s.end_ := by omega
      rw [hm]
      obtain ⟨l, hl, hc⟩ := defwRange_default_cover mem cfg.defwSize s.start s.end_ s.sublengths h0 hdw hse hmem h64
      refine ⟨l, hl, ?_⟩
      have : defwEnd mem s.start s.end_ = s.end_ := by
        simp only [defwEnd]; rw [if_neg (by omega)]
      rwa [this] at hc
    · rfl
    · exact hse
    · omega
  · have hL : dataLength 'w' s.sublengths s.start s.end_ = (s.sublengths.map (·.1)).sum := by
      simp [dataLength, h0]
    apply dataLoop_cover mem cfg 'w' s.sublengths _ s.end_ (fun _ => True) hpos (fun _ _ _ => trivial)
    · intro a _ ha
      rw [hdr]
      exact defwRange_explicit_cover mem cfg.defwSize a _ s.sublengths h0 (hexp h0) (by rw [hL]; omega)
        (by omega) (by omega) h64
    · trivial
    · exact hse
    · omega

/-- **c sub-blocks**: the statements (instructions and RST arguments) are consecutive from the start of
the sub-block, hold the snapshot's bytes (wrapping at 64K when `Wrap` is on, a DEFB of the bytes up
to 65535 otherwise) and stop at the first statement boundary `e' ≥ end`.  The sub-block is covered
exactly (`e' = end`) precisely when its end falls on a statement boundary. -/
theorem codeSub_cover (mem : List Nat) (cfg : Config) (dec : Dec) (s : Sub) (hctl : s.ctl = 'c')
    (hlen : ∀ a, 1 ≤ dec.len a ∧ dec.len a ≤ 65536) (hrst : RstWf dec)
    (hse : s.start < s.end_) (hend : s.end_ ≤ 65536) (hmem : mem.length = 65536) :
    ∃ l e', emitSub mem cfg dec s = .ok l ∧ Chain mem l s.start e' ∧ s.end_ ≤ e' := by
  unfold emitSub
  rw [if_pos hctl]
  obtain ⟨e', hc, he⟩ := codeLoop_cover mem cfg.wrap dec s.end_ hlen hrst hend hmem (s.end_ - s.start) s.start hse
    (by omega)
  exact ⟨_, e', rfl, hc, he⟩

/-! ### `emit` over a tiling -/

theorem emitSub_ignored (mem : List Nat) (cfg : Config) (dec : Dec) (s : Sub) (h : isIgnored s = true) :
    emitSub mem cfg dec s = .ok [{ addr := s.start, op := .blank, bytes := [] }] := by
  unfold isIgnored at h
  simp only [Bool.not_eq_true', Bool.or_eq_false_iff, beq_eq_false_iff_ne] at h
  unfold emitSub
  rw [if_neg h.1, if_neg (by rw [h.2]; decide)]

theorem emit_cons (mem : List Nat) (cfg : Config) (dec : Dec) (s : Sub) (r : List Sub) (l1 l2 : List Stmt)
    (h1 : emitSub mem cfg dec s = .ok l1) (h2 : emit mem cfg dec r = .ok l2) :
    emit mem cfg dec (s :: r) = .ok (l1 ++ l2) := by
  simp only [emit, h1, h2]; rfl

/-- a run of ignored sub-blocks emits only blank placeholder statements -/
theorem emit_all_ignored (mem : List Nat) (cfg : Config) (dec : Dec) (r : List Sub)
    (h : ∀ t ∈ r, isIgnored t = true) :
    ∃ bl, emit mem cfg dec r = .ok bl ∧ ∀ s ∈ bl, s.op = .blank ∧ s.bytes = [] := by
  induction r with
  | nil => exact ⟨[], rfl, by simp⟩
  | cons t r ih =>
    obtain ⟨bl, hbl, hall⟩ := ih (fun x hx => h x (List.mem_cons_of_mem _ hx))
    refine ⟨_, emit_cons mem cfg dec t r _ bl (emitSub_ignored mem cfg dec t (h t (by simp))) hbl, ?_⟩
    intro s hs
    simp only [List.cons_append, List.nil_append, List.mem_cons] at hs
    rcases hs with h1 | h1
    · subst h1; exact ⟨rfl, rfl⟩
    · exact hall s h1

theorem tiles_all_ignored (r : List Sub) (lo hi : Nat) (ht : Tiles r lo hi) (h : ∀ t ∈ r, isIgnored t = true) :
    ∀ a, lo ≤ a → a < hi → Ignored r a := by
  induction r generalizing lo with
  | nil => intro a h1 h2; simp only [Tiles] at ht; omega
  | cons t r ih =>
    intro a h1 h2
    simp only [Tiles] at ht
    by_cases h3 : a < t.end_
    · exact ⟨t, by simp, h t (by simp), by omega, h3⟩
    · obtain ⟨u, hu, hu2⟩ := ih t.end_ ht.2.2 (fun x hx => h x (List.mem_cons_of_mem _ hx)) a (by omega) h2
      exact ⟨u, List.mem_cons_of_mem _ hu, hu2⟩

/-- The statements of a whole disassembly whose disassembled sub-blocks are each covered exactly
and whose ignored sub-blocks all come last: a chain from `lo` to `mid` followed by blank
placeholders, everything in `[mid, hi)` being ignored. -/
theorem emit_structure (mem : List Nat) (cfg : Config) (dec : Dec) (subs : List Sub) (lo hi : Nat)
    (ht : Tiles subs lo hi) (hgap : NoGap subs)
    (hcov : ∀ s ∈ subs, isIgnored s = false → SubCovered mem cfg dec s) :
    ∃ l bl mid, emit mem cfg dec subs = .ok (l ++ bl) ∧ Chain mem l lo mid ∧
      (∀ s ∈ bl, s.op = .blank ∧ s.bytes = []) ∧ mid ≤ hi ∧ ∀ a, mid ≤ a → a < hi → Ignored subs a := by
  induction subs generalizing lo with
  | nil =>
    simp only [Tiles] at ht
    exact ⟨[], [], lo, rfl, by simp [Chain], by simp, by omega, by intro a h1 h2; omega⟩
  | cons s r ih =>
    simp only [Tiles] at ht
    simp only [NoGap] at hgap
    by_cases hi' : isIgnored s = true
    · have hall : ∀ t ∈ s :: r, isIgnored t = true := by
        intro t ht'
        rcases List.mem_cons.1 ht' with h1 | h1
        · subst h1; exact hi'
        · exact hgap.1 hi' t h1
      obtain ⟨bl, hbl, hblank⟩ := emit_all_ignored mem cfg dec (s :: r) hall
      refine ⟨[], bl, lo, by simpa using hbl, by simp [Chain], hblank, ?_, ?_⟩
      · have := CtlTiling.Tiles_le ht.2.2; omega
      · exact tiles_all_ignored (s :: r) lo hi (by simp only [Tiles]; exact ht) hall
    · have hi'' : isIgnored s = false := by simpa using hi'
      obtain ⟨l1, hl1, hc1⟩ := hcov s (by simp) hi''
      obtain ⟨l2, bl, mid, hl2, hc2, hblank, hmid, hign⟩ := ih s.end_ ht.2.2 hgap.2
        (fun x hx => hcov x (List.mem_cons_of_mem _ hx))
      refine ⟨l1 ++ l2, bl, mid, ?_, ?_, hblank, hmid, ?_⟩
      · rw [List.append_assoc]; exact emit_cons mem cfg dec s r l1 _ hl1 hl2
      · rw [ht.1] at hc1; exact Chain_append hc1 hc2
      · intro a h1 h2
        obtain ⟨u, hu, hu2⟩ := hign a h1 h2
        exact ⟨u, List.mem_cons_of_mem _ hu, hu2⟩

/-- every address of a chain lies in one of its statements -/
theorem chain_covers (mem : List Nat) (l : List Stmt) (a b x : Nat) (h : Chain mem l a b) (h1 : a ≤ x) (h2 : x < b) :
    ∃ s ∈ l, ∃ k, k < s.bytes.length ∧ x = s.addr + k ∧ BytesOk mem s := by
  induction l generalizing a with
  | nil => simp only [Chain] at h; omega
  | cons s r ih =>
    simp only [Chain] at h
    by_cases h3 : x < a + s.bytes.length
    · exact ⟨s, by simp, x - a, by omega, by omega, h.2.2.1⟩
    · obtain ⟨t, ht, k, hk⟩ := ih (a + s.bytes.length) h.2.2.2 (by omega)
      exact ⟨t, List.mem_cons_of_mem _ ht, k, hk⟩

theorem chain_addr_lt (mem : List Nat) (l : List Stmt) (a b : Nat) (h : Chain mem l a b) :
    ∀ s ∈ l, a ≤ s.addr ∧ s.addr < b := by
  induction l generalizing a with
  | nil => simp
  | cons s r ih =>
    simp only [Chain] at h
    intro t ht
    have hle := Chain_le h.2.2.2
    have hpos : 0 < s.bytes.length := List.length_pos_iff.2 h.2.1
    rcases List.mem_cons.1 ht with h1 | h1
    · subst h1; omega
    · have := ih _ h.2.2.2 t h1; omega

end Stmts

namespace Stmts
open CtlTiling C01Spec

theorem chain_bytesOk (mem : List Nat) (l : List Stmt) (a b : Nat) (h : Chain mem l a b) :
    ∀ s ∈ l, BytesOk mem s := by
  induction l generalizing a with
  | nil => simp
  | cons s r ih =>
    simp only [Chain] at h
    intro t ht
    rcases List.mem_cons.1 ht with h1 | h1
    · subst h1; exact h.2.2.1
    · exact ih _ h.2.2.2 t h1

/-- **b, g, t, u sub-blocks**: every DEFB/DEFM statement re-assembles to its bytes (its item
groups, one per sublength, concatenate to the statement's data) -/
theorem dataSub_asm (asm : Nat → List Nat) (mem : List Nat) (cfg : Config) (dec : Dec) (s : Sub)
    (hctl : s.ctl = 'b' ∨ s.ctl = 'g' ∨ s.ctl = 't' ∨ s.ctl = 'u') (hne : s.sublengths ≠ [])
    (l : List Stmt) (hl : emitSub mem cfg dec s = .ok l) : ∀ t ∈ l, AsmOk asm t := by
  rw [emitSub_data mem cfg dec s (by rcases hctl with h | h | h | h <;> simp [h])] at hl
  have hw : s.ctl ≠ 'w' := by rcases hctl with h | h | h | h <;> rw [h] <;> decide
  have hs : s.ctl ≠ 's' := by rcases hctl with h | h | h | h <;> rw [h] <;> decide
  apply dataLoop_asm asm mem cfg s.ctl s.sublengths _ s.end_ (fun _ => True) (fun _ _ _ => trivial) _ _ _ l trivial hl
  intro a l1 _ _ h1
  have hsum : firstSize s.sublengths ≠ 0 →
      min (a + dataLength s.ctl s.sublengths s.start s.end_) s.end_ - a ≤ (s.sublengths.map (·.1)).sum := by
    intro h0
    simp only [dataLength, if_pos h0, if_neg hs]
    omega
  unfold dataRange at h1
  by_cases ht : s.ctl = 't'
  · rw [if_pos ht] at h1
    exact defbLines_asm asm mem true _ a _ s.sublengths hne hsum l1 h1
  · rw [if_neg ht, if_neg hw, if_neg hs] at h1
    exact defbLines_asm asm mem false _ a _ s.sublengths hne hsum l1 h1

end Stmts

namespace Stmts
open CtlTiling C01Spec

/-- **w sub-blocks**: every DEFW statement (and odd-tail DEFB) re-assembles to its bytes -/
theorem wordSub_asm (asm : Nat → List Nat) (mem : List Nat) (cfg : Config) (dec : Dec) (s : Sub)
    (hctl : s.ctl = 'w') (hb : ∀ x ∈ mem, x < 256)
    (hexp : firstSize s.sublengths ≠ 0 → ∀ q ∈ s.sublengths, q.1 % 2 = 0)
    (l : List Stmt) (hl : emitSub mem cfg dec s = .ok l) : ∀ t ∈ l, AsmOk asm t := by
  rw [emitSub_data mem cfg dec s (by simp [hctl])] at hl
  rw [hctl] at hl
  apply dataLoop_asm asm mem cfg 'w' s.sublengths _ s.end_ (fun _ => True) (fun _ _ _ => trivial) _ _ _ l trivial hl
  intro a l1 _ _ h1
  have hdr : dataRange mem cfg 'w' s.sublengths a (min (a + dataLength 'w' s.sublengths s.start s.end_) s.end_) =
      defwRange mem cfg.defwSize a (min (a + dataLength 'w' s.sublengths s.start s.end_) s.end_) s.sublengths := by
    simp [dataRange]
  rw [hdr] at h1
  apply defwRange_asm asm mem cfg.defwSize a _ s.sublengths hexp _ hb l1 h1
  intro h0
  simp only [dataLength, if_pos h0]
  rw [if_neg (by decide)]
  omega

theorem sub_mod_self_of_mod_zero (x L : Nat) (hx : x % L = 0) (hle : L ≤ x) : (x - L) % L = 0 := by
  have : x = (x - L) + L := by omega
  rw [this, Nat.add_mod_right] at hx
  exact hx

/-- **s sub-blocks**: every DEFS statement re-assembles to its bytes when no size is given or the
size divides the length of the sub-block -/
theorem defsSub_asm (asm : Nat → List Nat) (mem : List Nat) (cfg : Config) (dec : Dec) (s : Sub)
    (hctl : s.ctl = 's') (hse : s.start < s.end_) (hmem : s.end_ ≤ mem.length)
    (hdiv : firstSize s.sublengths ≠ 0 → (s.end_ - s.start) % firstSize s.sublengths = 0)
    (l : List Stmt) (hl : emitSub mem cfg dec s = .ok l) : ∀ t ∈ l, AsmOk asm t := by
  rw [emitSub_data mem cfg dec s (by simp [hctl])] at hl
  rw [hctl] at hl
  have hdr : ∀ a e, dataRange mem cfg 's' s.sublengths a e = defsRange mem cfg.defbSize a e s.sublengths := by
    intro a e; simp [dataRange]
  by_cases h0 : firstSize s.sublengths = 0
  · -- one DEFS (or DEFB lines) per iteration with the size left out
    apply dataLoop_asm asm mem cfg 's' s.sublengths _ s.end_ (fun _ => True) (fun _ _ _ => trivial) _ _ _ l trivial hl
    intro a l1 _ _ h1
    rw [hdr] at h1
    exact defsRange_asm asm mem cfg.defbSize a _ s.sublengths (Or.inl h0) (by omega) l1 h1
  · have hL : dataLength 's' s.sublengths s.start s.end_ = firstSize s.sublengths := by simp [dataLength, h0]
    rw [hL] at hl
    apply dataLoop_asm asm mem cfg 's' s.sublengths _ s.end_
      (fun a => a ≤ s.end_ ∧ (s.end_ - a) % firstSize s.sublengths = 0) _ _ _ _ l ⟨by omega, hdiv h0⟩ hl
    · intro a hP ha
      have hge : firstSize s.sublengths ≤ s.end_ - a := by
        have := Nat.le_of_dvd (by omega) (Nat.dvd_of_mod_eq_zero hP.2)
        exact this
      refine ⟨by omega, ?_⟩
      have := sub_mod_self_of_mod_zero (s.end_ - a) _ hP.2 hge
      rwa [Nat.sub_sub] at this
    · intro a l1 hP ha h1
      rw [hdr] at h1
      have hge : firstSize s.sublengths ≤ s.end_ - a :=
        Nat.le_of_dvd (by omega) (Nat.dvd_of_mod_eq_zero hP.2)
      exact defsRange_asm asm mem cfg.defbSize a _ s.sublengths (Or.inr (by omega)) (by omega) l1 h1

end Stmts

namespace Stmts
open CtlTiling C01Spec

/-- statements of a disassembly re-assemble when those of every sub-block do -/
theorem emit_asm (asm : Nat → List Nat) (mem : List Nat) (cfg : Config) (dec : Dec) (subs : List Sub)
    (hsub : ∀ s ∈ subs, ∀ l, emitSub mem cfg dec s = .ok l → ∀ t ∈ l, AsmOk asm t)
    (stmts : List Stmt) (hemit : emit mem cfg dec subs = .ok stmts) : ∀ t ∈ stmts, AsmOk asm t := by
  induction subs generalizing stmts with
  | nil => simp only [emit, Except.ok.injEq] at hemit; subst hemit; simp
  | cons s r ih =>
    simp only [emit] at hemit
    cases h1 : emitSub mem cfg dec s with
    | error e => rw [h1] at hemit; simp [bind, Except.bind] at hemit
    | ok l1 =>
      cases h2 : emit mem cfg dec r with
      | error e => rw [h1, h2] at hemit; simp [bind, Except.bind] at hemit
      | ok l2 =>
        rw [h1, h2] at hemit
        simp only [bind, Except.bind, pure, Except.pure, Except.ok.injEq] at hemit
        subst hemit
        intro t ht'
        rcases List.mem_append.1 ht' with h3 | h3
        · exact hsub s (by simp) l1 h1 t h3
        · exact ih (fun x hx => hsub x (List.mem_cons_of_mem _ hx)) l2 h2 t h3

end Stmts
