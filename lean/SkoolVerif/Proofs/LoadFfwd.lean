import SkoolVerif.Proofs.LoadDecA
import SkoolVerif.Gen.CLoad.read_port
import SkoolVerif.Model.LoadTape
/-!
The tape-sampling fast-forward of the LOAD port handler, derived from source.

* `PyLoad.read_port_ffwd` (translate/pyload2lean.py): the statements `LoadTracer._read_port.func` executes for the accelerator whose
  signature matched (`acc.hits += 1` … `index += 1`), with Python's sequence-index rule on `INC0[…]` / `DEC0[…]` explicit (`none` = IndexError);
* `CSimH.Load.read_port_ffwd` (translate/cload2lean.py): the block `if (match) { … }` of `read_port` in c/csimulator.c up to the move-to-front,
  C integer semantics explicit (`(int)(next_edge - TIME)`, `unsigned` d1/d2/loops, the 64-bit clock)

are both the hand model `LoadTape.accelerate` of `Model/LoadTape.lean` (`py_ffwd`: for every state and table entry whose counter is not R;
`c_ffwd`: for states in the range invariant, entries representable in `tsl_accelerator` (`AccRep`), clocks and edges below 2^62 and the next
edge less than 2^31 T-states away — beyond that the C `int delta` wraps and the two languages skip different numbers of iterations).
So `tsl_accelerate_is_iteration`, `tsl_ffwd_equiv_*`, `tsl_loops_spec_*` of C13 are theorems about both translations.
-/
open Z80 LoadAccel LoadTape CInt TableRanges

namespace LoadDerived
variable {μ : Type} [MemLike μ]

theorem pyIdx_eq (i : Int) : PyLoad.pyIdx 256 i = pyIndex256 i := by
  unfold PyLoad.pyIdx pyIndex256; rfl

theorem p2i_ne_zero (p : Prop) [Decidable p] : (PyInt.p2i p ≠ 0) ↔ p := by
  unfold PyInt.p2i; split <;> simp_all

/-- what the fast-forward core leaves, in terms of the result of the hand model `accelerate` -/
def ffwdResult (s : St μ) (ts : TS) (hits : Int) (x : Array Int × Int × Int × Int) : St μ × TS × Int × Int × Int :=
  ({ s with reg := x.1, t := x.2.1 }, ts, x.2.2.1, x.2.2.2, hits + 1)

theorem rget15 (r : Array Int) (c v w : Int) (hc : c ≠ 15) : rget (rset (rset r c v) 1 w) 15 = rget r 15 := by
  rw [rget_rset_ne _ _ _ _ (by decide), rget_rset_ne _ _ _ _ hc]

theorem py_ffwd (cfg : Cfg) (a : Accel) (ts : TS) (index hits : Int) (s : St μ) (hc : a.counter ≠ 15) :
    (PyLoad.read_port_ffwd cfg a ts index 0 hits s).map (fun r => (r.1, r.2.ts, r.2.index, r.2.loops, r.2.hits))
      = (accelerate a ts s.reg s.t index).map (ffwdResult s ts hits) := by
  unfold accelerate ffwdCond tslLoops tslFfwd rAdd ffwdResult
  simp only [loop_def, Id.run, pure, pyIdx_eq, py_INC0, py_DEC0, rget15 _ _ _ _ hc]
  by_cases hm : a.earMask = 0 <;> by_cases hi : a.inc = 0 <;>
    simp only [hm, hi, ne_eq, not_true_eq_false, not_false_eq_true, if_true, if_false, p2i_ne_zero, decide_eq_true_eq, decide_not,
      Bool.not_eq_true', decide_eq_false_iff_not]
  all_goals
    split
    · split
      · cases pyIndex256 _ with
        | none => rfl
        | some i => simp only []; split <;> rfl
      · rename_i h
        simp only [Option.map_some, Classical.not_not.mp h]
    · rfl

variable [CellMem μ]

/-- the table entry is representable in `tsl_accelerator` and names registers -/
structure AccRep (a : Accel) : Prop where
  counter : 0 ≤ a.counter ∧ a.counter ≤ 11
  ear : a.earMask ≠ 0 → 0 ≤ a.ear ∧ a.ear ≤ 11
  earMask : 0 ≤ a.earMask ∧ a.earMask < 256
  polarity : 0 ≤ a.polarity ∧ a.polarity < 4294967296
  loopTime : 0 < a.loopTime ∧ a.loopTime < 8388608
  loopRInc : 0 ≤ a.loopRInc ∧ a.loopRInc < 8388608
  inc : 0 ≤ a.inc

theorem q_bounds (d L : Int) (hd : 0 ≤ d) (hd2 : d < 2147483648) (hL : 0 < L) : 0 ≤ d / L ∧ d / L < 2147483648 := by
  have h1 : 0 ≤ d / L := Int.ediv_nonneg hd (by omega)
  have h2 : d / L ≤ d := Int.ediv_le_self _ hd
  omega

theorem mul_bounds (L n : Int) (hL : 0 ≤ L ∧ L < 8388608) (hn : 0 ≤ n ∧ n ≤ 255) : 0 ≤ L * n ∧ L * n < 4294967296 := by
  have h1 : 0 ≤ L * n := Int.mul_nonneg hL.1 hn.1
  have h2 : L * n ≤ L * 255 := Int.mul_le_mul_of_nonneg_left hn.2 hL.1
  omega

/-- `loops` as the C code computes it (INC) -/
theorem c_loops_inc (E t L c : Int) (hd0 : 0 < E - t) (hd : E - t < 2147483648) (hL : 0 < L) (hc : 0 ≤ c ∧ c < 256) :
    (if u32 (u32 (i32 (u64 (E - t))) / L + 1) < u32 (255 - c) then u32 (u32 (i32 (u64 (E - t))) / L + 1) else u32 (255 - c))
      = min ((E - t) / L + 1) (255 - c) := by
  have e1 : u32 (i32 (u64 (E - t))) = E - t := by unfold u32 i32 u64; omega
  have hq := q_bounds (E - t) L (by omega) hd hL
  rw [e1]
  generalize (E - t) / L = q at hq ⊢
  unfold u32
  omega

theorem c_loops_dec (E t L c : Int) (hd0 : 0 < E - t) (hd : E - t < 2147483648) (hL : 0 < L) (hc : 0 ≤ c ∧ c < 256) :
    (if u32 (u32 (i32 (u64 (E - t))) / L + 1) < (if ¬ c = 0 then u32 (c - 1) else 0) then u32 (u32 (i32 (u64 (E - t))) / L + 1)
      else (if ¬ c = 0 then u32 (c - 1) else 0))
      = min ((E - t) / L + 1) (max (c - 1) 0) := by
  have e1 : u32 (i32 (u64 (E - t))) = E - t := by unfold u32 i32 u64; omega
  have hq := q_bounds (E - t) L (by omega) hd hL
  rw [e1]
  generalize (E - t) / L = q at hq ⊢
  unfold u32
  omega

set_option maxHeartbeats 2000000 in
theorem c_ffwd (cfg : Cfg) (a : Accel) (ts : TS) (pc : Int) (l : CSimH.Load.FfwdLocals) (s : St μ) (h : RInv s)
    (ht : s.t < 4611686018427387904) (ha : AccRep a) (hE : 0 ≤ ts.nextEdge ∧ ts.nextEdge < 4611686018427387904)
    (hd : ts.nextEdge - s.t < 2147483648) (hi : 0 ≤ l.index ∧ l.index < 4611686018427387904) (hl : l.loops = 0) :
    let r := CSimH.Load.read_port_ffwd cfg a ts pc l s
    accelerate a ts s.reg s.t l.index = some (r.1.reg, r.1.t, r.2.index, r.2.loops) ∧ r.1 = { s with reg := r.1.reg, t := r.1.t }
      ∧ r.2.tsl_miss = 0 ∧ r.2.hits = u32 (l.hits + 1) := by
  obtain ⟨hr, hm, hpc, ht0, hiff, him, hhalt, hmp, hins⟩ := h
  obtain ⟨hac, hae, ham, hap, haL, haR, hai⟩ := ha
  have hC := hr.byte a.counter (by omega) (by omega) (by omega)
  have hR := hr.byte 15 (by omega) (by omega) (by omega)
  unfold Byte at hC hR
  unfold accelerate ffwdCond tslLoops tslFfwd rAdd
  simp only [cloop_def, Id.run, pure, hl]
  have eC : u32 (rget s.reg a.counter) = rget s.reg a.counter := u32_of_range _ hC.1 (by omega)
  have eR : u32 (rget s.reg 15) = rget s.reg 15 := u32_of_range _ hR.1 (by omega)
  have hpar : (l.index - a.polarity) % 2 = 0 ∨ (l.index - a.polarity) % 2 = 1 := by omega
  have ePar : PyInt.land (u64 (l.index - a.polarity)) 1 = (l.index - a.polarity) % 2 := by rw [land_1]; unfold u64; omega
  have eM : u64 ((l.index - a.polarity) % 2 * a.earMask) = (l.index - a.polarity) % 2 * a.earMask := by
    rcases hpar with h | h <;> rw [h] <;> unfold u64 <;> omega
  have eP : i32 ((l.index - a.polarity) % 2) = (l.index - a.polarity) % 2 := by unfold i32; omega
  have eE : a.earMask ≠ 0 → u32 (rget s.reg a.ear) = rget s.reg a.ear := fun h => by
    have := hae h
    have hb := hr.byte a.ear (by omega) (by omega) (by omega)
    unfold Byte at hb
    exact u32_of_range _ hb.1 (by omega)
  simp only [eC, ePar, eM, eP, p2i_ne_zero]
  by_cases hcond : ts.nextEdge > s.t
  · by_cases hm : a.earMask = 0 <;> by_cases hinc : a.inc = 0
    all_goals simp only [hm, hinc, hcond, ne_eq, not_true_eq_false, not_false_eq_true, if_true, if_false, and_true, decide_eq_true_eq,
      decide_not, decide_true, decide_false, Bool.false_eq_true,
      c_loops_inc ts.nextEdge s.t a.loopTime (rget s.reg a.counter) (by omega) hd haL.1 hC,
      c_loops_dec ts.nextEdge s.t a.loopTime (rget s.reg a.counter) (by omega) hd haL.1 hC]
    all_goals try simp only [eE hm]
    all_goals
      have hq := q_bounds (ts.nextEdge - s.t) a.loopTime (by omega) hd haL.1
      generalize hn : min ((ts.nextEdge - s.t) / a.loopTime + 1) _ = n
      generalize (ts.nextEdge - s.t) / a.loopTime = q at hq hn
      have hnb : 0 ≤ n ∧ n ≤ 255 := by omega
      have hp1 := mul_bounds a.loopTime n ⟨by omega, haL.2⟩ hnb
      have hp2 := mul_bounds a.loopRInc n haR hnb
      generalize a.loopTime * n = p1 at hp1 ⊢
      generalize a.loopRInc * n = p2 at hp2 ⊢
      have hc15 : a.counter ≠ 15 := by omega
      have eT1 : ∀ x, TblP2.get .DEC 0 x = ltDEC0 x := fun x => (ltDEC_eq 0 x).symm
      have eT2 : ∀ x, TblP2.get .INC 0 x = ltINC0 x := fun x => (ltINC0_eq x).symm
      have eu1 : u32 p1 = p1 := u32_of_range _ hp1.1 hp1.2
      have eu2 : u32 p2 = p2 := u32_of_range _ hp2.1 hp2.2
      have et : u64 (s.t + p1) = s.t + p1 := u64_of_range _ (by omega) (by omega)
      have ei : u64 (l.index + 1) = l.index + 1 := u64_of_range _ (by omega) (by omega)
      have hl128 := land_bounds (rget s.reg 15) 128 (by omega)
      have eRR : u32 (PyInt.land (rget s.reg 15) 128 + (rget s.reg 15 + p2) % 128) = PyInt.land (rget s.reg 15) 128 + (rget s.reg 15 + p2) % 128 :=
        u32_of_range _ (by omega) (by omega)
      by_cases h0 : n = 0
      · simp only [h0, not_true_eq_false, if_false, ite_self]
        refine ⟨?_, ?_, ?_, ?_⟩ <;> first | rfl | trivial
      · first
        | (have eI : u32 (u32 (rget s.reg a.counter - n) + 1) = rget s.reg a.counter - n + 1 := by unfold u32; omega
           have hpy : pyIndex256 (rget s.reg a.counter - n + 1) = some (rget s.reg a.counter - n + 1) := by
             unfold pyIndex256; rw [if_pos (by omega)]
           simp only [h0, not_false_eq_true, if_true, eI, hpy, eT1, rget15 _ _ _ _ hc15, eR, eu1, eu2, et, ei, land_127, u32_mod_128, eRR]
           repeat' split
           all_goals first | (refine ⟨?_, ?_, ?_, ?_⟩ <;> first | rfl | trivial) | simp_all)
        | (have eI : u32 (u32 (rget s.reg a.counter + n) - 1) = rget s.reg a.counter + n - 1 := by unfold u32; omega
           have hpy : pyIndex256 (rget s.reg a.counter + n - 1) = some (rget s.reg a.counter + n - 1) := by
             unfold pyIndex256; rw [if_pos (by omega)]
           simp only [h0, not_false_eq_true, if_true, eI, hpy, eT2, rget15 _ _ _ _ hc15, eR, eu1, eu2, et, ei, land_127, u32_mod_128, eRR]
           repeat' split
           all_goals first | (refine ⟨?_, ?_, ?_, ?_⟩ <;> first | rfl | trivial) | simp_all)
  · simp only [hcond, and_false, if_false, ite_self]
    refine ⟨?_, ?_, ?_, ?_⟩ <;> first | rfl | trivial

/-- `AccRep` as a Bool, for the kernel check of the actual table -/
def accRepB (a : Accel) : Bool :=
  decide (0 ≤ a.counter ∧ a.counter ≤ 11) && (decide (a.earMask = 0) || decide (0 ≤ a.ear ∧ a.ear ≤ 11))
    && decide (0 ≤ a.earMask ∧ a.earMask < 256) && decide (0 ≤ a.polarity ∧ a.polarity < 4294967296)
    && decide (0 < a.loopTime ∧ a.loopTime < 8388608) && decide (0 ≤ a.loopRInc ∧ a.loopRInc < 8388608) && decide (0 ≤ a.inc)

theorem accRep_of_B (a : Accel) (h : accRepB a = true) : AccRep a := by
  simp only [accRepB, Bool.and_eq_true, Bool.or_eq_true, decide_eq_true_eq] at h
  obtain ⟨⟨⟨⟨⟨⟨h1, h2⟩, h3⟩, h4⟩, h5⟩, h6⟩, h7⟩ := h
  exact ⟨h1, fun hm => by rcases h2 with h2 | h2; exact absurd h2 hm; exact h2, h3, h4, h5, h6, h7⟩

end LoadDerived
