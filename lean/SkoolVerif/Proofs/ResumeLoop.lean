import SkoolVerif.Proofs.SnapResumeLemmas
/-!
C10 assembled for an arbitrary loop mode whose step function satisfies the laws: running `n1`
instructions, saving, resuming and running `n2` more gives the state of the uninterrupted run of
`n1 + n2` instructions, with the clock shifted by the whole frames the snapshot does not store (and, for
the Z80 format, up to the fields that format drops) — and the snapshot files written at the end of the
two runs are equal.
-/
namespace SnapResume
open Z80 TraceLoop Tshift

variable {μ : Type} [MemLike μ] [SnapMem μ]

theorem resume_szx_run {m : Mode μ} {cfg : Cfg} (hs : ShiftLaw m.step cfg) (roms : Array (Array Int))
    (n1 n2 : Nat) (ts : TS μ) (hsave : Saveable cfg roms (cRun m cfg n1 ts)) :
    cRun m cfg n2 (resume roms .szx (cRun m cfg n1 ts)) =
      tsShift cfg (cRun m cfg (n1 + n2) ts) (-((cRun m cfg n1 ts).s.t / cfg.frame_duration)) := by
  rw [resume_szx cfg roms _ hsave, cRun_shift hs, cRun_add]

theorem resume_z80_run {m : Mode μ} {cfg : Cfg} {ok : St μ → Prop} (hs : ShiftLaw m.step cfg)
    (hn : NzLaw m.step cfg true ok) (roms : Array (Array Int))
    (n1 n2 : Nat) (ts : TS μ) (hsave : Saveable cfg roms (cRun m cfg n1 ts))
    (hok : ∀ j, j < n2 → ok (cRun m cfg j (cRun m cfg n1 ts)).s) :
    nzT true (cRun m cfg n2 (resume roms .z80 (cRun m cfg n1 ts))) =
      tsShift cfg (nzT true (cRun m cfg (n1 + n2) ts)) (-((cRun m cfg n1 ts).s.t / cfg.frame_duration)) := by
  rw [resume_z80 cfg roms _ hsave, cRun_shift hs, nzT_tsShift, cRun_add]
  congr 1
  exact cRun_nz hn n2 _ _ (nzT_idem true _) hok

theorem resume_z80_run_not_halted {m : Mode μ} {cfg : Cfg} {ok : St μ → Prop} (hs : ShiftLaw m.step cfg)
    (hn : NzLaw m.step cfg false ok) (roms : Array (Array Int))
    (n1 n2 : Nat) (ts : TS μ) (hsave : Saveable cfg roms (cRun m cfg n1 ts))
    (hh : (cRun m cfg n1 ts).s.halt = 0)
    (hok : ∀ j, j < n2 → ok (cRun m cfg j (cRun m cfg n1 ts)).s) :
    nzT false (cRun m cfg n2 (resume roms .z80 (cRun m cfg n1 ts))) =
      tsShift cfg (nzT false (cRun m cfg (n1 + n2) ts)) (-((cRun m cfg n1 ts).s.t / cfg.frame_duration)) := by
  rw [resume_z80_not_halted cfg roms _ hsave hh, cRun_shift hs, nzT_tsShift, cRun_add]
  congr 1
  exact cRun_nz hn n2 _ _ (nzT_idem false _) hok

/-! ### what is written at the end -/

theorem szxT_shift (fd t k : Int) : szxT fd (t + k * fd) = szxT fd t := by
  unfold szxT; simp only [shift_emod0]

theorem z80T_shift (fd t k : Int) : z80T fd (t + k * fd) = z80T fd t := by
  unfold z80T; simp only [shift_emod0]

/-- a snapshot does not see whole frames of the clock -/
theorem snapOf_shift (fmt : Fmt) (cfg : Cfg) (ts : TS μ) (k : Int)
    (hf : cfg.frame_duration = frameOf (MemLike.is128 ts.s.mem)) :
    snapOf fmt (tsShift cfg ts k) = snapOf fmt ts := by
  unfold snapOf
  cases fmt <;> simp only [tsShift, addFrames, hf, szxT_shift, z80T_shift]

/-- a Z80 snapshot does not see MEMPTR, the HALT flag, the last OUT to 0xFE -/
theorem snapOf_z80_nz (zh : Bool) (ts : TS μ) : snapOf .z80 (nzT zh ts) = snapOf .z80 ts := by
  rfl

end SnapResume
