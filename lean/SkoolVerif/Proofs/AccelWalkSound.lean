import SkoolVerif.Proofs.AccelWalkLemmas
import SkoolVerif.Proofs.LoadAccelTsl
/-!
Soundness of the static walk (`AccelWalk.walkFrom`) against the generated Z80 model: if the code of a
signature is in memory and a run from the `IN` follows the loop path (every conditional jump/return
on the way resolves as the walk assumes: no edge seen, no time-out), then after exactly the walked
number of instructions the program counter is back at the `IN`, the clock has advanced by the walked
number of T-states, memory is unchanged, R has advanced by the walked number of M1 cycles, and each
general register not written on the path has changed exactly by the `INC r`/`DEC r` met on the way.
-/
open Z80 Sim LoadTape AccelWalk LoadAccel
namespace AccelWalk

variable {μ : Type} [MemLike μ]

def CodeAt (m : μ) (base : Int) (code : Array (Option Int)) : Prop :=
  ∀ (i : Nat) (b : Int), code[i]? = some (some b) → mget m ((base + i) % 65536) = b

def agrees (i : Instr) (taken : Bool) (s : St μ) : Prop :=
  match i with
  | .jr ca cv => (PyInt.land (rget s.reg 1) ca = cv) ↔ taken = true
  | .jp ca cv => (PyInt.land (rget s.reg 1) ca = cv) ↔ taken = true
  | .ret ca cv => (PyInt.land (rget s.reg 1) ca = cv) ↔ taken = false
  | _ => True

theorem leafOf2_id (s : St μ) (i : Instr) (h : ∀ t, i ≠ .prefix2_ t) : leafOf2 s i = i := by
  cases i <;> first | rfl | exact absurd rfl (h _)

theorem leafOf_decode (s : St μ) (base : Int) (code : Array (Option Int)) (o : Nat) (i : Instr)
    (hc : CodeAt s.mem base code) (hpc : s.pc = (base + o) % 65536) (hd : decodeAt code o = some i) : leafOf s = i := by
  unfold decodeAt at hd
  split at hd
  · rename_i b0 h0
    have hm0 : mget s.mem s.pc = b0 := by rw [hpc]; exact hc o b0 h0
    unfold leafOf
    rw [hm0]
    split at hd
    · rename_i tbl hi0
      rw [hi0]
      split at hd
      · rename_i b1 h1
        have hm1 : mget s.mem ((s.pc + 1) % 65536) = b1 := by
          have := hc (o + 1) b1 h1
          rw [hpc]
          have e : ((base + ↑o) % 65536 + 1) % 65536 = (base + ((o + 1 : Nat) : Int)) % 65536 := by push_cast; omega
          rw [e]; exact this
        simp only [leafOf1, hm1]
        split at hd
        · cases hd
        · cases hd
        · rename_i hn1 hn2
          have hd' := Option.some.inj hd
          rw [← hd']
          exact leafOf2_id s _ (fun t h => hn2 t h)
      · cases hd
    · cases hd
    · rename_i hn1 hn2
      have hd' := Option.some.inj hd
      rw [← hd']
      generalize OpTbl.get .MAIN b0 = i0 at hn1 hn2 ⊢
      cases i0 <;> first | rfl | exact absurd rfl (hn1 _) | exact absurd rfl (hn2 _)
  · cases hd

theorem classify_jrc (i : Instr) (c : Cost) (h : classify i = some (c, .jrc)) : ∃ ca cv, i = .jr ca cv ∧ c = ⟨2, 7, 12, 1⟩ := by
  cases i <;> simp only [classify, reduceCtorEq] at h <;> grind [Option.map_eq_some_iff]

theorem classify_jpc (i : Instr) (c : Cost) (h : classify i = some (c, .jpc)) : ∃ ca cv, i = .jp ca cv ∧ c = ⟨3, 10, 10, 1⟩ := by
  cases i <;> simp only [classify, reduceCtorEq] at h <;> grind [Option.map_eq_some_iff]

theorem classify_retc (i : Instr) (c : Cost) (h : classify i = some (c, .retc)) :
    ∃ ca cv, i = .ret ca cv ∧ ca ≠ 0 ∧ c = ⟨1, 5, 11, 1⟩ := by
  cases i <;> simp only [classify, reduceCtorEq] at h <;> grind [Option.map_eq_some_iff]

theorem jr_exec (cfg : Cfg) (ca cv : Int) (s : St μ) :
    (execLeaf cfg (.jr ca cv) s).mem = s.mem ∧
    (PyInt.land (rget s.reg 1) ca = cv →
      (execLeaf cfg (.jr ca cv) s).t = s.t + 12 ∧
      (execLeaf cfg (.jr ca cv) s).pc = (s.pc + Tbl.JR_OFFSETS (mget s.mem ((s.pc + 1) % 65536))) % 65536) ∧
    (¬ PyInt.land (rget s.reg 1) ca = cv →
      (execLeaf cfg (.jr ca cv) s).t = s.t + 7 ∧ (execLeaf cfg (.jr ca cv) s).pc = (s.pc + 2) % 65536) := by
  simp only [execLeaf, jr, Id.run, pure]
  grind

theorem jp_exec (cfg : Cfg) (ca cv : Int) (s : St μ) :
    (execLeaf cfg (.jp ca cv) s).mem = s.mem ∧ (execLeaf cfg (.jp ca cv) s).t = s.t + 10 ∧
    (PyInt.land (rget s.reg 1) ca = cv →
      (execLeaf cfg (.jp ca cv) s).pc = mget s.mem ((s.pc + 1) % 65536) + 256 * mget s.mem ((s.pc + 2) % 65536)) ∧
    (¬ PyInt.land (rget s.reg 1) ca = cv → (execLeaf cfg (.jp ca cv) s).pc = (s.pc + 3) % 65536) := by
  simp only [execLeaf, jp, Id.run, pure]
  grind

theorem ret_exec (cfg : Cfg) (ca cv : Int) (hca : ca ≠ 0) (s : St μ) :
    (execLeaf cfg (.ret ca cv) s).mem = s.mem ∧
    (PyInt.land (rget s.reg 1) ca = cv →
      (execLeaf cfg (.ret ca cv) s).t = s.t + 5 ∧ (execLeaf cfg (.ret ca cv) s).pc = (s.pc + 1) % 65536) := by
  simp only [execLeaf, ret, Id.run, pure]
  grind

theorem JR_OFFSETS_signed (d : Int) : Tbl.JR_OFFSETS d = 2 + signedByte d := by
  unfold Tbl.JR_OFFSETS signedByte; simp only []; split <;> omega

/-- the two address bytes after a signature that ends in a `JP cc` opcode point at its first byte -/
def BackEdgeOk (m : μ) (base : Int) (code : Array (Option Int)) : Prop :=
  mget m ((base + code.size) % 65536) + 256 * mget m ((base + code.size + 1) % 65536) = base % 65536

theorem path_step (cfg : Cfg) (code : Array (Option Int)) (base : Int) (o : Nat) (s : St μ) (i : Instr) (c : Cost) (k : Kind)
    (nxt : Nat) (taken : Bool) (hc : CodeAt s.mem base code) (hpc : s.pc = (base + o) % 65536)
    (hsi : stepInfo code o = some (i, c, k)) (hn : nextOf code o c k = some (nxt, taken)) (hag : agrees i taken s)
    (hjp : BackEdgeOk s.mem base code) :
    (step cfg s).pc = (base + nxt) % 65536 ∧ (step cfg s).t = s.t + (if taken then c.tTaken else c.tNot)
      ∧ (step cfg s).mem = s.mem := by
  unfold stepInfo at hsi
  split at hsi
  · cases hsi
  · rename_i i' hd
    split at hsi
    · cases hsi
    · rename_i c' k' hcl
      simp only [Option.some.injEq, Prod.mk.injEq] at hsi
      obtain ⟨rfl, rfl, rfl⟩ := hsi
      have hl := leafOf_decode s base code o i' hc hpc hd
      rw [step_eq, hl]
      cases k' with
      | jrc =>
        obtain ⟨ca, cv, rfl, rfl⟩ := classify_jrc i' c' hcl
        obtain ⟨hm, ht, hnt⟩ := jr_exec cfg ca cv s
        simp only [nextOf] at hn
        split at hn
        · rename_i d hd1
          have hmd : mget s.mem ((s.pc + 1) % 65536) = d := by
            have := hc (o + 1) d hd1
            rw [hpc]
            have e : ((base + ↑o) % 65536 + 1) % 65536 = (base + ((o + 1 : Nat) : Int)) % 65536 := by push_cast; omega
            rw [e]; exact this
          split at hn
          · rename_i hr
            simp only [Option.some.injEq, Prod.mk.injEq] at hn
            obtain ⟨rfl, rfl⟩ := hn
            have hcond : PyInt.land (rget s.reg 1) ca = cv := by simpa [agrees] using hag
            obtain ⟨h1, h2⟩ := ht hcond
            refine ⟨?_, by simpa using h1, hm⟩
            rw [h2, hmd, JR_OFFSETS_signed, hpc]
            have : (((↑o + 2 + signedByte d).toNat : Nat) : Int) = ↑o + 2 + signedByte d := by omega
            rw [this]; omega
          · simp only [Option.some.injEq, Prod.mk.injEq] at hn
            obtain ⟨rfl, rfl⟩ := hn
            have hcond : ¬ PyInt.land (rget s.reg 1) ca = cv := by simpa [agrees] using hag
            obtain ⟨h1, h2⟩ := hnt hcond
            refine ⟨?_, by simpa using h1, hm⟩
            rw [h2, hpc]; push_cast; omega
        · cases hn
      | jpc =>
        obtain ⟨ca, cv, rfl, rfl⟩ := classify_jpc i' c' hcl
        obtain ⟨hm, ht, htk, hnt⟩ := jp_exec cfg ca cv s
        simp only [nextOf] at hn
        split at hn
        · rename_i hlast
          simp only [Option.some.injEq, Prod.mk.injEq] at hn
          obtain ⟨rfl, rfl⟩ := hn
          have hcond : PyInt.land (rget s.reg 1) ca = cv := by simpa [agrees] using hag
          refine ⟨?_, by simpa using ht, hm⟩
          rw [htk hcond, hpc]
          unfold BackEdgeOk at hjp
          have e1 : ((base + ↑o) % 65536 + 1) % 65536 = (base + ↑code.size) % 65536 := by
            have : (code.size : Int) = o + 1 := by omega
            rw [this]; omega
          have e2 : ((base + ↑o) % 65536 + 2) % 65536 = (base + ↑code.size + 1) % 65536 := by
            have : (code.size : Int) = o + 1 := by omega
            rw [this]; omega
          rw [e1, e2, hjp]; simp
        · split at hn
          · simp only [Option.some.injEq, Prod.mk.injEq] at hn
            obtain ⟨rfl, rfl⟩ := hn
            have hcond : ¬ PyInt.land (rget s.reg 1) ca = cv := by simpa [agrees] using hag
            refine ⟨?_, by simpa using ht, hm⟩
            rw [hnt hcond, hpc]; push_cast; omega
          · cases hn
      | retc =>
        obtain ⟨ca, cv, rfl, hca, rfl⟩ := classify_retc i' c' hcl
        obtain ⟨hm, hnt⟩ := ret_exec cfg ca cv hca s
        simp only [nextOf, Option.some.injEq, Prod.mk.injEq] at hn
        obtain ⟨rfl, rfl⟩ := hn
        have hcond : PyInt.land (rget s.reg 1) ca = cv := by simpa [agrees] using hag
        obtain ⟨h1, h2⟩ := hnt hcond
        refine ⟨?_, by simpa using h1, hm⟩
        rw [h2, hpc]; push_cast; omega
      | plain w =>
        have hf := classify_fall cfg i' c' _ hcl rfl s
        simp only [nextOf] at hn
        split at hn
        · simp only [Option.some.injEq, Prod.mk.injEq] at hn
          obtain ⟨rfl, rfl⟩ := hn
          refine ⟨?_, by simpa using hf.1, (classify_mem cfg i' c' _ hcl s).1⟩
          rw [hf.2, hpc]; push_cast
          have : ((c'.size.toNat : Nat) : Int) = c'.size := by omega
          rw [this]; omega
        · cases hn
      | incr r =>
        have hf := classify_fall cfg i' c' _ hcl rfl s
        simp only [nextOf] at hn
        split at hn
        · simp only [Option.some.injEq, Prod.mk.injEq] at hn
          obtain ⟨rfl, rfl⟩ := hn
          refine ⟨?_, by simpa using hf.1, (classify_mem cfg i' c' _ hcl s).1⟩
          rw [hf.2, hpc]; push_cast
          have : ((c'.size.toNat : Nat) : Int) = c'.size := by omega
          rw [this]; omega
        · cases hn
      | decr r =>
        have hf := classify_fall cfg i' c' _ hcl rfl s
        simp only [nextOf] at hn
        split at hn
        · simp only [Option.some.injEq, Prod.mk.injEq] at hn
          obtain ⟨rfl, rfl⟩ := hn
          refine ⟨?_, by simpa using hf.1, (classify_mem cfg i' c' _ hcl s).1⟩
          rw [hf.2, hpc]; push_cast
          have : ((c'.size.toNat : Nat) : Int) = c'.size := by omega
          rw [this]; omega
        · cases hn
      | inp w =>
        have hf := classify_fall cfg i' c' _ hcl rfl s
        simp only [nextOf] at hn
        split at hn
        · simp only [Option.some.injEq, Prod.mk.injEq] at hn
          obtain ⟨rfl, rfl⟩ := hn
          refine ⟨?_, by simpa using hf.1, (classify_mem cfg i' c' _ hcl s).1⟩
          rw [hf.2, hpc]; push_cast
          have : ((c'.size.toNat : Nat) : Int) = c'.size := by omega
          rw [this]; omega
        · cases hn
      | setR =>
        have hf := classify_fall cfg i' c' _ hcl rfl s
        simp only [nextOf] at hn
        split at hn
        · simp only [Option.some.injEq, Prod.mk.injEq] at hn
          obtain ⟨rfl, rfl⟩ := hn
          refine ⟨?_, by simpa using hf.1, (classify_mem cfg i' c' _ hcl s).1⟩
          rw [hf.2, hpc]; push_cast
          have : ((c'.size.toNat : Nat) : Int) = c'.size := by omega
          rw [this]; omega
        · cases hn

/-- the run from `s` (at offset `o`) goes round the loop the way the static walk assumes: every
conditional jump/return on the way resolves as on the loop path -/
def Follows (cfg : Cfg) (code : Array (Option Int)) (c0 : Nat) : Nat → Nat → St μ → Prop
  | 0, _, _ => False
  | fuel + 1, o, s =>
    match stepInfo code o with
    | none => False
    | some (i, c, k) =>
      match nextOf code o c k with
      | none => False
      | some (nxt, taken) =>
        agrees i taken s ∧ (if nxt = c0 then True else nxt < code.size ∧ Follows cfg code c0 fuel nxt (step cfg s))

theorem accum_t (w : Walk) (c : Cost) (k : Kind) (taken : Bool) :
    (accum w c k taken).t = w.t + (if taken then c.tTaken else c.tNot) ∧ (accum w c k taken).steps = w.steps + 1 := by
  unfold accum; cases k <;> simp

theorem walk_sound (cfg : Cfg) (code : Array (Option Int)) (c0 : Nat) (base : Int) :
    ∀ (fuel o : Nat) (w0 w : Walk) (s : St μ), walkFrom code c0 fuel o w0 = some w → Follows cfg code c0 fuel o s →
      CodeAt s.mem base code → BackEdgeOk s.mem base code → s.pc = (base + o) % 65536 →
      w0.steps < w.steps ∧ (runN cfg (w.steps - w0.steps) s).pc = (base + c0) % 65536
        ∧ (runN cfg (w.steps - w0.steps) s).t = s.t + (w.t - w0.t) ∧ (runN cfg (w.steps - w0.steps) s).mem = s.mem := by
  intro fuel
  induction fuel with
  | zero => intro o w0 w s h; simp [walkFrom] at h
  | succ fuel ih =>
    intro o w0 w s hw hf hc hb hpc
    simp only [walkFrom] at hw
    simp only [Follows] at hf
    split at hw
    · cases hw
    · rename_i i c k hsi
      simp only [hsi] at hf
      split at hw
      · cases hw
      · rename_i nxt taken hn
        simp only [hn] at hf
        obtain ⟨hag, hrest⟩ := hf
        obtain ⟨hp1, ht1, hm1⟩ := path_step cfg code base o s i c k nxt taken hc hpc hsi hn hag hb
        obtain ⟨hat, has⟩ := accum_t w0 c k taken
        by_cases hnc : nxt = c0
        · simp only [hnc, if_true, Option.some.injEq] at hw
          subst hw
          have e : (accum w0 c k taken).steps - w0.steps = 1 := by omega
          rw [e]
          simp only [runN]
          refine ⟨by omega, by rw [hp1, hnc], by rw [ht1, hat]; omega, hm1⟩
        · simp only [hnc, if_false] at hw hrest
          split at hw
          · obtain ⟨_, hfol⟩ := hrest
            have := ih nxt (accum w0 c k taken) w (step cfg s) hw hfol (by rw [hm1]; exact hc) (by rw [hm1]; exact hb) hp1
            obtain ⟨hlt, h1, h2, h3⟩ := this
            have e : w.steps - w0.steps = (w.steps - (accum w0 c k taken).steps) + 1 := by omega
            rw [e]
            refine ⟨by omega, ?_, ?_, ?_⟩
            · simpa [runN] using h1
            · have : (runN cfg (w.steps - (accum w0 c k taken).steps + 1) s).t = (runN cfg (w.steps - (accum w0 c k taken).steps) (step cfg s)).t := by
                simp [runN]
              rw [this, h2, ht1, hat]; omega
            · have : (runN cfg (w.steps - (accum w0 c k taken).steps + 1) s).mem = (runN cfg (w.steps - (accum w0 c k taken).steps) (step cfg s)).mem := by
                simp [runN]
              rw [this, h3, hm1]
          · cases hw

set_option maxHeartbeats 1000000 in
theorem classify_size (cfg : Cfg) (i : Instr) (c : Cost) (k : Kind) (h : classify i = some (c, k)) (s : St μ) :
    (execLeaf cfg i s).reg.size = s.reg.size := by
  cases i <;> simp only [classify, reduceCtorEq] at h <;>
    simp only [execLeaf, sim_handler, Id.run, pure] <;> grind [Option.map_eq_some_iff, rset_size]

/-- effect of a list of `INC r`/`DEC r` (newest first, as the walk records them) on register `q` -/
def effect (q : Int) (ops : List (Int × Bool)) (v : Int) : Int :=
  ops.foldr (fun op acc => if op.1 = q then (if op.2 then (acc + 1) % 256 else (acc - 1) % 256) else acc) v

theorem accum_lists (w : Walk) (c : Cost) (k : Kind) (taken : Bool) :
    (accum w c k taken).m1 = w.m1 + c.m1 ∧
    (∃ no nw, (accum w c k taken).counterOps = no ++ w.counterOps ∧ (accum w c k taken).writes = nw ++ w.writes ∧
      (no = match k with | .incr r => [(r, true)] | .decr r => [(r, false)] | _ => []) ∧
      (nw = match k with | .plain ws => ws | .inp ws => ws | _ => [])) ∧
    ((accum w c k taken).setsR = (w.setsR || (k == .setR))) := by
  unfold accum; cases k <;> simp

/-- registers after one instruction of the loop path -/
theorem path_step_regs (cfg : Cfg) (code : Array (Option Int)) (base : Int) (o : Nat) (s : St μ) (i : Instr) (c : Cost) (k : Kind)
    (hc : CodeAt s.mem base code) (hpc : s.pc = (base + o) % 65536) (hsi : stepInfo code o = some (i, c, k)) (hs : s.reg.size = 24) :
    (step cfg s).reg.size = 24 ∧ (k ≠ .setR → rget (step cfg s).reg 15 = rAdd (rget s.reg 15) c.m1) ∧
    (∀ q, 0 ≤ q ∧ q ≤ 11 → q ≠ 1 →
      (match k with
        | .incr r => if r = q then rget (step cfg s).reg q = (rget s.reg q + 1) % 256 else rget (step cfg s).reg q = rget s.reg q
        | .decr r => if r = q then rget (step cfg s).reg q = (rget s.reg q - 1) % 256 else rget (step cfg s).reg q = rget s.reg q
        | .plain ws => q ∉ ws → rget (step cfg s).reg q = rget s.reg q
        | .inp ws => q ∉ ws → rget (step cfg s).reg q = rget s.reg q
        | _ => rget (step cfg s).reg q = rget s.reg q)) := by
  unfold stepInfo at hsi
  split at hsi
  · cases hsi
  · rename_i i' hd
    split at hsi
    · cases hsi
    · rename_i c' k' hcl
      simp only [Option.some.injEq, Prod.mk.injEq] at hsi
      obtain ⟨rfl, rfl, rfl⟩ := hsi
      have hl := leafOf_decode s base code o i' hc hpc hd
      rw [step_eq, hl]
      refine ⟨by rw [classify_size cfg i' c' k' hcl s]; exact hs, fun hk => classify_r cfg i' c' k' hcl hk s hs, ?_⟩
      intro q hq hq1
      cases k' with
      | incr r =>
        simp only
        split
        · rename_i h; subst h; exact classify_incr cfg i' c' r hcl s hs hq1
        · rename_i h; exact classify_keeps cfg i' c' _ hcl s hs q hq (by simp [Kind.writes]; omega)
      | decr r =>
        simp only
        split
        · rename_i h; subst h; exact classify_decr cfg i' c' r hcl s hs hq1
        · rename_i h; exact classify_keeps cfg i' c' _ hcl s hs q hq (by simp [Kind.writes]; omega)
      | plain ws => intro hw; exact classify_keeps cfg i' c' _ hcl s hs q hq (by simpa [Kind.writes] using hw)
      | inp ws => intro hw; exact classify_keeps cfg i' c' _ hcl s hs q hq (by simpa [Kind.writes] using hw)
      | setR => exact classify_keeps cfg i' c' _ hcl s hs q hq (by simp [Kind.writes])
      | jrc => exact classify_keeps cfg i' c' _ hcl s hs q hq (by simp [Kind.writes])
      | jpc => exact classify_keeps cfg i' c' _ hcl s hs q hq (by simp [Kind.writes])
      | retc => exact classify_keeps cfg i' c' _ hcl s hs q hq (by simp [Kind.writes])

theorem effect_append (q : Int) (a b : List (Int × Bool)) (v : Int) : effect q (a ++ b) v = effect q a (effect q b v) := by
  unfold effect; rw [List.foldr_append]

theorem walk_sound_regs (cfg : Cfg) (code : Array (Option Int)) (c0 : Nat) (base : Int) :
    ∀ (fuel o : Nat) (w0 w : Walk) (s : St μ), walkFrom code c0 fuel o w0 = some w → Follows cfg code c0 fuel o s →
      CodeAt s.mem base code → BackEdgeOk s.mem base code → s.pc = (base + o) % 65536 → s.reg.size = 24 →
      (runN cfg (w.steps - w0.steps) s).reg.size = 24
      ∧ (w.setsR = false → w0.setsR = false ∧ (Byte (rget s.reg 15) →
            rget (runN cfg (w.steps - w0.steps) s).reg 15 = rAdd (rget s.reg 15) (w.m1 - w0.m1)))
      ∧ ∃ no nw, w.counterOps = no ++ w0.counterOps ∧ w.writes = nw ++ w0.writes ∧
          ∀ q, 0 ≤ q ∧ q ≤ 11 → q ≠ 1 → q ∉ nw →
            rget (runN cfg (w.steps - w0.steps) s).reg q = effect q no (rget s.reg q) := by
  intro fuel
  induction fuel with
  | zero => intro o w0 w s h; simp [walkFrom] at h
  | succ fuel ih =>
    intro o w0 w s hw hf hc hb hpc hs
    have hws := hw
    simp only [walkFrom] at hw
    simp only [Follows] at hf
    split at hw
    · cases hw
    · rename_i i c k hsi
      simp only [hsi] at hf
      split at hw
      · cases hw
      · rename_i nxt taken hn
        simp only [hn] at hf
        obtain ⟨hag, hrest⟩ := hf
        obtain ⟨hp1, ht1, hm1⟩ := path_step cfg code base o s i c k nxt taken hc hpc hsi hn hag hb
        obtain ⟨hsz, hR, hq⟩ := path_step_regs cfg code base o s i c k hc hpc hsi hs
        obtain ⟨hat, has⟩ := accum_t w0 c k taken
        obtain ⟨ham, ⟨no1, nw1, hno1, hnw1, eno1, enw1⟩, hsr⟩ := accum_lists w0 c k taken
        -- one step: registers in terms of `effect`
        have hstep : ∀ q, 0 ≤ q ∧ q ≤ 11 → q ≠ 1 → q ∉ nw1 → rget (step cfg s).reg q = effect q no1 (rget s.reg q) := by
          intro q hq0 hq1 hqw
          have := hq q hq0 hq1
          subst eno1 enw1
          cases k <;> simp only [effect, List.foldr] at * <;> first | exact this | (split at this <;> simp_all) | exact this hqw
        by_cases hnc : nxt = c0
        · simp only [hnc, if_true, Option.some.injEq] at hw
          subst hw
          have e : (accum w0 c k taken).steps - w0.steps = 1 := by omega
          rw [e]
          simp only [runN]
          refine ⟨hsz, ?_, no1, nw1, hno1, hnw1, hstep⟩
          intro hfalse
          rw [hsr] at hfalse
          simp only [Bool.or_eq_false_iff, beq_eq_false_iff_ne] at hfalse
          refine ⟨hfalse.1, fun _ => ?_⟩
          have e2 : w0.m1 + c.m1 - w0.m1 = c.m1 := by omega
          rw [hR hfalse.2, ham, e2]
        · simp only [hnc, if_false] at hw hrest
          split at hw
          · obtain ⟨_, hfol⟩ := hrest
            have := ih nxt (accum w0 c k taken) w (step cfg s) hw hfol (by rw [hm1]; exact hc) (by rw [hm1]; exact hb) hp1 hsz
            obtain ⟨h1, h2, no', nw', hno', hnw', h3⟩ := this
            have hlt := (walk_sound cfg code c0 base fuel nxt (accum w0 c k taken) w (step cfg s) hw hfol
              (by rw [hm1]; exact hc) (by rw [hm1]; exact hb) hp1).1
            have e : w.steps - w0.steps = (w.steps - (accum w0 c k taken).steps) + 1 := by omega
            rw [e]
            simp only [runN]
            refine ⟨h1, ?_, no' ++ no1, nw' ++ nw1, by rw [hno', hno1, List.append_assoc], by rw [hnw', hnw1, List.append_assoc], ?_⟩
            · intro hfalse
              obtain ⟨ha, hb2⟩ := h2 hfalse
              rw [hsr] at ha
              simp only [Bool.or_eq_false_iff, beq_eq_false_iff_ne] at ha
              refine ⟨ha.1, fun hbyte => ?_⟩
              have hR1 := hR ha.2
              have e2 : c.m1 + (w.m1 - (w0.m1 + c.m1)) = w.m1 - w0.m1 := by omega
              rw [hb2 (by rw [hR1]; exact rAdd_byte _ _ hbyte), hR1, rAdd_rAdd _ _ _ hbyte, ham, e2]
            · intro q hq0 hq1 hqw
              simp only [List.mem_append, not_or] at hqw
              rw [h3 q hq0 hq1 hqw.1, hstep q hq0 hq1 hqw.2, effect_append]
          · cases hw

end AccelWalk

namespace AccelWalk
variable {μ : Type} [MemLike μ]

theorem effect_single (q : Int) (b : Bool) (v : Int) :
    effect q [(q, b)] v = if b then (v + 1) % 256 else (v - 1) % 256 := by
  simp [effect]

/-- One trip round the loop of a table entry: for every `ACCELERATORS` entry, any memory holding its
signature (and, for signatures ending in a `JP cc` opcode, the loop's own address after it), any
state at the `IN` with a 24-slot register file: if the run follows the loop path, then after the
walked number of instructions the machine is back at the `IN`, exactly `loop_time` T-states
later, memory unchanged, the counter register changed by exactly +1 / −1 (mod 256) as `inc` says,
and (unless the loop executes `LD R,A`) R advanced by exactly `loop_r_inc` — i.e. one iteration is
precisely what the accelerator's closed form multiplies by `loops`. -/
theorem accelerator_loop_trip (cfg : Cfg) (a : Accel) (ha : a ∈ accelerators) (base : Int) (s : St μ)
    (hc : CodeAt s.mem base a.code.toArray) (hb : BackEdgeOk s.mem base a.code.toArray)
    (hpc : s.pc = (base + a.c0) % 65536) (hs : s.reg.size = 24)
    (hf : Follows cfg a.code.toArray a.c0.toNat 64 a.c0.toNat s) :
    ∃ (n : Nat) (setsR : Bool), 0 < n ∧
      (runN cfg n s).pc = s.pc ∧ (runN cfg n s).t = s.t + a.loopTime ∧ (runN cfg n s).mem = s.mem ∧
      rget (runN cfg n s).reg a.counter = (if a.inc ≠ 0 then (rget s.reg a.counter + 1) % 256 else (rget s.reg a.counter - 1) % 256) ∧
      (setsR = false → Byte (rget s.reg 15) → rget (runN cfg n s).reg 15 = rAdd (rget s.reg 15) a.loopRInc) := by
  have hchk := table_consistent
  rw [List.all_eq_true] at hchk
  have hca := hchk a ha
  unfold checkAccel at hca
  split at hca
  · cases hca
  · rename_i w hw
    simp only [Bool.and_eq_true, beq_iff_eq, Bool.or_eq_true, Bool.not_eq_true', decide_eq_true_eq] at hca
    obtain ⟨⟨⟨⟨⟨⟨⟨⟨ht, hm1⟩, hops⟩, _⟩, hwr⟩, _⟩, _⟩, hctr⟩, _⟩ := hca
    unfold walk at hw
    split at hw
    · rename_i h0
      have hpc' : s.pc = (base + (a.c0.toNat : Nat)) % 65536 := by
        rw [hpc]; congr 2; omega
      obtain ⟨hlt, h1, h2, h3⟩ := walk_sound cfg a.code.toArray a.c0.toNat base 64 a.c0.toNat {} w s hw hf hc hb hpc'
      obtain ⟨_, hR, no, nw, hno, hnw, hq⟩ := walk_sound_regs cfg a.code.toArray a.c0.toNat base 64 a.c0.toNat {} w s hw hf hc hb hpc' hs
      simp only [List.append_nil] at hno hnw
      refine ⟨w.steps - 0, w.setsR, by simpa using hlt, by rw [h1, hpc'], by rw [h2, ht]; simp, h3, ?_, ?_⟩
      · have hq' := hq a.counter (by omega) (by omega) (by
          rw [← hnw]; intro hmem
          have : w.writes.contains a.counter = true := by simpa using hmem
          rw [this] at hwr; cases hwr)
        rw [hq', ← hno, hops, effect_single]
        by_cases hinc : a.inc = 0 <;> simp [hinc]
      · intro hsr hbyte
        have := (hR hsr).2 hbyte
        rw [this]
        rcases hm1 with h | h
        · rw [hsr] at h; cases h
        · rw [h]; simp
    · cases hw

end AccelWalk

/-! decidability of the path hypothesis (so that examples can exhibit concrete states meeting it) -/
namespace AccelWalk
variable {μ : Type} [MemLike μ]

instance (i : Instr) (taken : Bool) (s : St μ) : Decidable (agrees i taken s) := by
  unfold agrees; cases i <;> exact inferInstance

def decFollows (cfg : Cfg) (code : Array (Option Int)) (c0 : Nat) :
    (fuel o : Nat) → (s : St μ) → Decidable (Follows cfg code c0 fuel o s)
  | 0, _, _ => isFalse (by simp [Follows])
  | fuel + 1, o, s => by
    simp only [Follows]
    split
    · exact isFalse (by simp)
    · split
      · exact isFalse (by simp)
      · have := decFollows cfg code c0 fuel
        exact inferInstance

instance (cfg : Cfg) (code : Array (Option Int)) (c0 fuel o : Nat) (s : St μ) :
    Decidable (Follows cfg code c0 fuel o s) := decFollows cfg code c0 fuel o s

end AccelWalk

/-! ### `k` trips round the loop = `k` applications of the abstract loop body -/
namespace AccelWalk
variable {μ : Type} [MemLike μ]

/-- number of instructions of one trip round the loop of a table entry -/
def tripLen (a : Accel) : Nat := match walk a with | some w => w.steps | none => 0

/-- `k` trips round the loop -/
def trips (cfg : Cfg) (a : Accel) : Nat → St μ → St μ
  | 0, s => s
  | k + 1, s => trips cfg a k (runN cfg (tripLen a) s)

/-- what a loop trip must satisfy to be on the loop path, at the `IN` -/
def AtLoop (cfg : Cfg) (a : Accel) (base : Int) (s : St μ) : Prop :=
  CodeAt s.mem base a.code.toArray ∧ BackEdgeOk s.mem base a.code.toArray ∧ s.pc = (base + a.c0) % 65536 ∧ s.reg.size = 24
    ∧ Follows cfg a.code.toArray a.c0.toNat 64 a.c0.toNat s

theorem loop_trip_fixed (cfg : Cfg) (a : Accel) (ha : a ∈ accelerators) (base : Int) (s : St μ) (h : AtLoop cfg a base s) :
    let s' := runN cfg (tripLen a) s
    s'.pc = s.pc ∧ s'.t = s.t + a.loopTime ∧ s'.mem = s.mem ∧ s'.reg.size = 24 ∧
      rget s'.reg a.counter = (tslIter (a.inc ≠ 0) a.loopTime a.loopRInc (rget s.reg a.counter, 0, 0, 0)).1 ∧
      ((walk a).map (·.setsR) = some false → Byte (rget s.reg 15) → rget s'.reg 15 = rAdd (rget s.reg 15) a.loopRInc) := by
  obtain ⟨hc, hb, hpc, hs, hf⟩ := h
  have hchk := table_consistent
  rw [List.all_eq_true] at hchk
  have hca := hchk a ha
  unfold checkAccel at hca
  split at hca
  · cases hca
  · rename_i w hw
    simp only [Bool.and_eq_true, beq_iff_eq, Bool.or_eq_true, Bool.not_eq_true', decide_eq_true_eq] at hca
    obtain ⟨⟨⟨⟨⟨⟨⟨⟨ht, hm1⟩, hops⟩, _⟩, hwr⟩, _⟩, _⟩, hctr⟩, _⟩ := hca
    have htl : tripLen a = w.steps := by simp [tripLen, hw]
    have hw2 := hw
    unfold walk at hw
    split at hw
    · rename_i h0
      have hpc' : s.pc = (base + (a.c0.toNat : Nat)) % 65536 := by
        rw [hpc]; congr 2; omega
      obtain ⟨hlt, h1, h2, h3⟩ := walk_sound cfg a.code.toArray a.c0.toNat base 64 a.c0.toNat {} w s hw hf hc hb hpc'
      obtain ⟨hsz, hR, no, nw, hno, hnw, hq⟩ := walk_sound_regs cfg a.code.toArray a.c0.toNat base 64 a.c0.toNat {} w s hw hf hc hb hpc' hs
      simp only [List.append_nil] at hno hnw
      have e0 : w.steps - ({} : Walk).steps = w.steps := by simp
      rw [e0] at h1 h2 h3 hsz hR hq
      intro s'
      simp only [s', htl]
      refine ⟨by rw [h1, hpc'], by rw [h2, ht]; simp, h3, hsz, ?_, ?_⟩
      · have hq' := hq a.counter (by omega) (by omega) (by
          rw [← hnw]; intro hmem
          have : w.writes.contains a.counter = true := by simpa using hmem
          rw [this] at hwr; cases hwr)
        rw [hq', ← hno, hops, effect_single]
        by_cases hinc : a.inc = 0 <;> simp [hinc, tslIter, ltINC0_fst, ltDEC0_fst]
      · intro hsr hbyte
        rw [hw2] at hsr
        simp only [Option.map_some, Option.some.injEq] at hsr
        have := (hR hsr).2 hbyte
        rw [this]
        rcases hm1 with h | h
        · rw [hsr] at h; cases h
        · rw [h]; simp
    · cases hw

theorem tslIter_proj (inc : Bool) (L ri c f r t : Int) :
    tslIter inc L ri (c, f, r, t) = ((tslIter inc L ri (c, 0, 0, 0)).1, (tslIter inc L ri (c, f, r, t)).2.1, rAdd r ri, t + L) := by
  cases inc <;> simp [tslIter]

/-- `k` real trips round the loop of a table entry (each one on the loop path) leave the machine
exactly where `k` applications of the abstract loop body `tslIter` say — counter, R and clock —
with PC and memory unchanged.  Together with `tsl_accelerate_is_iteration` (the fast-forward *is*
`loops` applications of `tslIter`) and `tsl_no_edge_skipped`, this is the equivalence of the
accelerated and the unaccelerated run on everything the loop carries from one `IN` to the next
(A and F are recomputed by the loop before use). -/
theorem real_loop_eq_iter (cfg : Cfg) (a : Accel) (ha : a ∈ accelerators) (base : Int) (hsr : (walk a).map (·.setsR) = some false) :
    ∀ (k : Nat) (s : St μ) (f : Int), (∀ j, j < k → AtLoop cfg a base (trips cfg a j s)) → Byte (rget s.reg 15) →
      let s' := trips cfg a k s
      let st := iterN (tslIter (a.inc ≠ 0) a.loopTime a.loopRInc) k (rget s.reg a.counter, f, rget s.reg 15, s.t)
      s'.pc = s.pc ∧ s'.mem = s.mem ∧ rget s'.reg a.counter = st.1 ∧ rget s'.reg 15 = st.2.2.1 ∧ s'.t = st.2.2.2 := by
  intro k
  induction k with
  | zero => intro s f _ _; simp [trips, iterN]
  | succ k ih =>
    intro s f hall hbyte
    have h0 := hall 0 (by omega)
    simp only [trips] at h0
    obtain ⟨hp, ht, hm, hsz, hctr, hR⟩ := loop_trip_fixed cfg a ha base s h0
    have hR' := hR hsr hbyte
    have hb1 : Byte (rget (runN cfg (tripLen a) s).reg 15) := by rw [hR']; exact rAdd_byte _ _ hbyte
    have := ih (runN cfg (tripLen a) s) (tslIter (a.inc ≠ 0) a.loopTime a.loopRInc (rget s.reg a.counter, f, rget s.reg 15, s.t)).2.1
      (fun j hj => by have := hall (j + 1) (by omega); simpa [trips] using this) hb1
    simp only [trips, iterN] at this ⊢
    rw [tslIter_proj, ← hctr, ← hR', ← ht]
    obtain ⟨a1, a2, a3, a4, a5⟩ := this
    exact ⟨by rw [a1, hp], by rw [a2, hm], a3, a4, a5⟩

end AccelWalk
