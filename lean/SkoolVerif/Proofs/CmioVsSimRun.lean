import SkoolVerif.Proofs.CmioVsSimStep
/-!
Runs of any length: the plain and the contended simulator stay related step by step as long as the
executed closures do not depend on what differs between the two states (T and MEMPTR):
`HALT` and `LD A,I/R` read T (`readsClock`), `BIT n,(HL)` reads MEMPTR in the contended simulator
(`isBitHl`).  No interrupt is accepted between the steps (`runN` is `n` calls of `opcodes[memory[pc]]()`).
-/
namespace CmioVsSim
open Z80
variable {μ : Type} [MemLike μ]

/-- the closure neither reads the clock nor (in the contended simulator) MEMPTR -/
def clockFree (i : Sim.Instr) : Bool := !isBitHl i && !readsClock i

theorem clockFree_iff (i : Sim.Instr) :
    clockFree i = false ↔ (∃ b t, i = .bit_hl b t) ∨ i = .halt ∨ (∃ r, i = .ld_a_ir r) := by
  cases i <;> simp [clockFree, isBitHl, readsClock]

/-- which closure runs depends on memory and PC only -/
theorem leafOf2_congr (a b : St μ) (hm : b.mem = a.mem) (hp : b.pc = a.pc) (i : Sim.Instr) :
    Sim.leafOf2 b i = Sim.leafOf2 a i := by
  cases i <;> simp only [Sim.leafOf2, hm, hp]

theorem leafOf1_congr (a b : St μ) (hm : b.mem = a.mem) (hp : b.pc = a.pc) (i : Sim.Instr) :
    Sim.leafOf1 b i = Sim.leafOf1 a i := by
  cases i <;> simp only [Sim.leafOf1, hm, hp] <;> exact leafOf2_congr a b hm hp _

theorem leafOf_congr (a b : St μ) (hm : b.mem = a.mem) (hp : b.pc = a.pc) : Sim.leafOf b = Sim.leafOf a := by
  unfold Sim.leafOf
  rw [hm, hp]
  exact leafOf1_congr a b hm hp _

/-- One step from two states that differ in T (contended not earlier) and MEMPTR only: the same again. -/
theorem same_step_rel (cfg : Cfg) (a b : St μ) (h : SameButClock a b)
    (hc : clockFree (Sim.leafOf a) = true) (hr : RegsOk a.reg) (hcfg : CfgOk cfg) :
    SameButClock (Sim.step cfg a) (Cmio.step cfg b) := by
  have hle : 0 ≤ b.t - a.t := by have := h.2.2.2.2.2.2.2.2.2; omega
  have hb := h.eq_with
  generalize b.t = t' at hb hle
  generalize b.memptr = mp' at hb
  subst hb
  simp only [clockFree, Bool.and_eq_true, Bool.not_eq_true'] at hc
  have h1 : ShiftedBy (t' - a.t) (Sim.step cfg a) (Sim.step cfg { a with t := t', memptr := mp' }) := by
    rw [Sim.step_eq, Sim.step_eq, leafOf_congr a { a with t := t', memptr := mp' } rfl rfl]
    exact tshift_execLeaf cfg _ hc.2 a t' mp'
  have h2 : SameButClock (Sim.step cfg { a with t := t', memptr := mp' }) (Cmio.step cfg { a with t := t', memptr := mp' }) :=
    same_step cfg _ (by rw [leafOf_congr a { a with t := t', memptr := mp' } rfl rfl]; exact hc.1) hr hcfg
  exact h1.trans_same h2 hle

/-- `n` steps from related states, as long as the plain run only meets clock-free closures and keeps its
registers in range: related after every one of them. -/
theorem same_runN_rel (cfg : Cfg) (hcfg : CfgOk cfg) (n : Nat) (a b : St μ) (h : SameButClock a b)
    (hall : ∀ k, k < n → RegsOk (Sim.runN cfg k a).reg ∧ clockFree (Sim.leafOf (Sim.runN cfg k a)) = true) :
    SameButClock (Sim.runN cfg n a) (Cmio.runN cfg n b) := by
  induction n generalizing a b with
  | zero => exact h
  | succ n ih =>
    simp only [Sim.runN, Cmio.runN]
    have h0 := hall 0 (by omega)
    exact ih _ _ (same_step_rel cfg a b h h0.2 h0.1 hcfg) (fun k hk => hall (k + 1) (by omega))

/-- both simulators started from the same state -/
theorem same_runN (cfg : Cfg) (hcfg : CfgOk cfg) (n : Nat) (s : St μ)
    (hall : ∀ k, k < n → RegsOk (Sim.runN cfg k s).reg ∧ clockFree (Sim.leafOf (Sim.runN cfg k s)) = true)
    (m : Nat) (hm : m ≤ n) :
    SameButClock (Sim.runN cfg m s) (Cmio.runN cfg m s) :=
  same_runN_rel cfg hcfg m s s (SameButClock.refl s) (fun k hk => hall k (by omega))

end CmioVsSim
