import SkoolVerif.Proofs.SemStep
import SkoolVerif.Gen.CmioHandlers
import SkoolVerif.Proofs.BusLemmas
/-!
Infrastructure of the per-closure theorems `Gen/CmioBusThms.lean` (C19, "each extra delay equals the
documented pattern"): recovering the decoded instruction from `zinstrOf` + `canonD` agreement, and
the generic tactic that unfolds a contended closure's timing tuple and the specification's
`busDelay` to the same fold over (contended?, T-states) pieces.
-/
namespace C19Bus
open Z80 Sim Spec Z80Isa Z80Decode C05 Z80Bus Contend
variable {μ : Type} [MemLike μ] [CellMem μ]

/-! ### which instruction is at PC -/

theorem canon_cases (i : ZInstr) : canon i = i ∨ canon i = .nop ∨ canon i = .reti := by
  cases i <;> simp [canon]
  rename_i d s
  cases d <;> cases s <;> simp [canon]
  split <;> simp_all

theorem canonD_inv {i : ZInstr} {sz t ta m : Int} {i' : ZInstr}
    (h : canonD ⟨i, sz, t, ta, m⟩ = canonD (Decoded.of i')) :
    canon i' = canon i ∧ ((i'.size : Nat) : Int) = sz ∧ ((i'.time.1 : Nat) : Int) = t ∧ ((i'.time.2 : Nat) : Int) = ta := by
  simp only [canonD, Decoded.of, Decoded.mk.injEq] at h
  exact ⟨h.1.symm, h.2.1.symm, h.2.2.1.symm, h.2.2.2.1.symm⟩

/-- instructions that are alone in their `canon` class -/
def plainI : ZInstr → Bool
  | .nop | .prefixNop | .edNop | .reti | .retn => false
  | .ld8 (.reg _) (.reg _) => false
  | _ => true

theorem canon_plain (i : ZInstr) (hp : plainI i = true) : canon i = i ∧ i ≠ .nop ∧ i ≠ .reti := by
  cases i <;> simp [plainI, canon] at hp ⊢
  rename_i d s
  cases d <;> cases s <;> simp [plainI, canon] at hp ⊢

theorem canon_plain_inv (i i' : ZInstr) (h : canon i' = canon i) (hp : plainI i = true) : i' = i := by
  obtain ⟨h1, h2, h3⟩ := canon_plain i hp
  rw [h1] at h
  rcases canon_cases i' with e | e | e <;> rw [e] at h
  · exact h
  · exact absurd h.symm h2
  · exact absurd h.symm h3

/-- the instructions `Spec.step` can execute -/
def Decodable (i : ZInstr) : Prop := ∃ (p : Pfx) (op : Nat), op < 256 ∧ i = decode p op

def allPfx : List Pfx := [.MAIN, .CB, .ED, .DD, .FD, .DDCB, .FDCB]

theorem mem_allPfx (p : Pfx) : p ∈ allPfx := by cases p <;> simp [allPfx]

/-- a Boolean property of every decodable instruction, checked slot by slot -/
def allDecoded (f : ZInstr → Bool) : Bool := allPfx.all (fun p => (List.range 256).all (fun op => f (decode p op)))

theorem allDecoded_spec (f : ZInstr → Bool) (h : allDecoded f = true) (i : ZInstr) (hd : Decodable i) : f i = true := by
  obtain ⟨p, op, hop, rfl⟩ := hd
  simp only [allDecoded, List.all_eq_true, List.mem_range] at h
  exact h p (mem_allPfx p) op hop

def ldSelfOk : ZInstr → Bool
  | .ld8 (.reg a) (.reg b) => !(decide (a = b) && a.isIR)
  | _ => true

theorem ldSelf_all : allDecoded ldSelfOk = true := by decide +kernel

/-- `LD I,I` and `LD R,R` do not exist -/
theorem decodable_ld_self (r : Reg8) (h : Decodable (.ld8 (.reg r) (.reg r))) : r.isIR = false := by
  have := allDecoded_spec _ ldSelf_all _ h
  simpa [ldSelfOk] using this

/-- the instructions `canon` maps to `NOP` -/
theorem canon_nop_inv (i' : ZInstr) (h : canon i' = .nop) :
    i' = .nop ∨ i' = .prefixNop ∨ i' = .edNop ∨ ∃ r, i' = .ld8 (.reg r) (.reg r) := by
  cases i' <;> simp [canon] at h ⊢
  rename_i d s
  cases d <;> cases s <;> simp [canon] at h ⊢
  exact h.symm

theorem canon_reti_inv (i' : ZInstr) (h : canon i' = .reti) : i' = .reti ∨ i' = .retn := by
  cases i' <;> simp [canon] at h ⊢
  rename_i d s
  cases d <;> cases s <;> simp [canon] at h
  split at h <;> simp at h

/-! ### addresses -/

theorem mod_self_of_word (x : Int) (h : Word x) : x % 65536 = x := by unfold Word at h; omega

/-! ### literal registers -/

theorem isIdxHalf_A : Reg8.isIdxHalf .A = false := rfl
theorem isIR_A : Reg8.isIR .A = false := rfl
theorem isIdxHalf_F : Reg8.isIdxHalf .F = false := rfl
theorem isIR_F : Reg8.isIR .F = false := rfl
theorem isIdxHalf_B : Reg8.isIdxHalf .B = false := rfl
theorem isIR_B : Reg8.isIR .B = false := rfl
theorem isIdxHalf_C : Reg8.isIdxHalf .C = false := rfl
theorem isIR_C : Reg8.isIR .C = false := rfl
theorem isIdxHalf_D : Reg8.isIdxHalf .D = false := rfl
theorem isIR_D : Reg8.isIR .D = false := rfl
theorem isIdxHalf_E : Reg8.isIdxHalf .E = false := rfl
theorem isIR_E : Reg8.isIR .E = false := rfl
theorem isIdxHalf_H : Reg8.isIdxHalf .H = false := rfl
theorem isIR_H : Reg8.isIR .H = false := rfl
theorem isIdxHalf_L : Reg8.isIdxHalf .L = false := rfl
theorem isIR_L : Reg8.isIR .L = false := rfl
theorem isIdxHalf_IXh : Reg8.isIdxHalf .IXh = true := rfl
theorem isIR_IXh : Reg8.isIR .IXh = false := rfl
theorem isIdxHalf_IXl : Reg8.isIdxHalf .IXl = true := rfl
theorem isIR_IXl : Reg8.isIR .IXl = false := rfl
theorem isIdxHalf_IYh : Reg8.isIdxHalf .IYh = true := rfl
theorem isIR_IYh : Reg8.isIR .IYh = false := rfl
theorem isIdxHalf_IYl : Reg8.isIdxHalf .IYl = true := rfl
theorem isIR_IYl : Reg8.isIR .IYl = false := rfl
theorem isIdxHalf_I : Reg8.isIdxHalf .I = false := rfl
theorem isIR_I : Reg8.isIR .I = true := rfl
theorem isIdxHalf_R : Reg8.isIdxHalf .R = false := rfl
theorem isIR_R : Reg8.isIR .R = true := rfl
theorem isIdx_BC : Reg16.isIdx .BC = false := rfl
theorem isIdx_DE : Reg16.isIdx .DE = false := rfl
theorem isIdx_HL : Reg16.isIdx .HL = false := rfl
theorem isIdx_SP : Reg16.isIdx .SP = false := rfl
theorem isIdx_IX : Reg16.isIdx .IX = true := rfl
theorem isIdx_IY : Reg16.isIdx .IY = true := rfl
theorem isIdx_AF : Reg16.isIdx .AF = false := rfl

/-! ### instruction length as an integer -/

def immI (i : ZInstr) : Int :=
  match i with
  | .ld8 d s => (if d = .imm || s = .imm then 1 else 0) + (if d = .abs || s = .abs then 2 else 0)
  | .alu8 _ l => if l = .imm then 1 else 0
  | .ld16imm _ | .ld16load .. | .ld16store .. => 2
  | .jp _ | .call _ => 2
  | .jr _ | .djnz | .inA | .outA => 1
  | _ => 0

def sizeI (i : ZInstr) : Int :=
  1 + (if i.indexed then 1 else 0) + (if i.cbGroup || i.edGroup then 1 else 0) + (if i.hasDisp then 1 else 0) + immI i

theorem immI_eq (i : ZInstr) : ((i.immBytes : Nat) : Int) = immI i := by
  cases i <;> simp only [ZInstr.immBytes, immI] <;> (try rfl)
  · split <;> split <;> rfl
  · split <;> rfl

theorem size_int (i : ZInstr) : ((i.size : Nat) : Int) = sizeI i := by
  unfold ZInstr.size sizeI
  rw [← immI_eq]
  split <;> split <;> split <;> omega

theorem ccHolds_none (f : Int) : Spec.ccHolds none f = true := rfl
theorem ccHolds_some (c : Cond) (f : Int) : Spec.ccHolds (some c) f = Spec.condHolds c f := rfl

/-! ### the generic tactic -/

/-- unfold the specification side down to `delayFrom … [(contended …, n), …]` -/
macro "bus_spec" "[" ts:Lean.Parser.Tactic.simpLemma,* "]" : tactic => `(tactic|
  simp only [busDelay, busCycles, shape, ld8Shape, readLoc, rmwLoc, cbLoc, fetches, opnd, prefixed, dispFetch, dispFetch4,
    x2, x4, x5, x7, pieces, addrVal, portVal, P, branch, ZInstr.indexed, ZInstr.cbGroup, ZInstr.edGroup,
    ZInstr.hasDisp, ZInstr.immBytes, Loc8.usesIdx, Loc8.isDisp, optIdxHalf,
    isIdxHalf_A, isIR_A, isIdxHalf_F, isIR_F, isIdxHalf_B, isIR_B, isIdxHalf_C, isIR_C, isIdxHalf_D, isIR_D, isIdxHalf_E,
    isIR_E, isIdxHalf_H, isIR_H, isIdxHalf_L, isIR_L, isIdxHalf_IXh, isIR_IXh, isIdxHalf_IXl, isIR_IXl, isIdxHalf_IYh,
    isIR_IYh, isIdxHalf_IYl, isIR_IYl, isIdxHalf_I, isIR_I, isIdxHalf_R, isIR_R, isIdx_BC, isIdx_DE, isIdx_HL, isIdx_SP,
    isIdx_IX, isIdx_IY, isIdx_AF,
    Bool.or_false, Bool.false_or, Bool.or_true, Bool.true_or, Bool.false_eq_true, if_false, if_true, List.cons_append,
    List.nil_append, List.append_nil, reduceCtorEq, Int.reduceAdd, Nat.reduceAdd, Bool.or_self, Bool.and_true, Bool.true_and,
    Bool.and_false, Bool.false_and, decide_true, decide_false, Int.reduceNeg,
    -- state access (as `spec_simp` / `idx_simp` of C05)
    Spec.addrOf, Spec.rd, Spec.r16, Spec.lo16, Spec.hi16, Spec.r8, Spec.sp, Spec.loOfPair, Spec.hiOfPair, Spec.imm8, Spec.imm16,
    Spec.dispByte, ccHolds_none, ccHolds_some, sgn8_OFFSETS, Int.reduceSub, Int.reduceMod, Int.reduceMul,
    idx_A, idx_F, idx_B, idx_C, idx_D, idx_E, idx_H, idx_L, idx_IXh, idx_IXl, idx_IYh, idx_IYl, idx_I, idx_R,
    -- conditions
    decide_eq_true_eq, Bool.and_eq_true, not_true_eq_false, not_false_eq_true, ne_eq, true_and, and_true, false_and, and_false,
    Bool.not_eq_true, Bool.not_false, Bool.not_true, $ts,*])

/-- unfold the implementation side: `contend … [(a, n), …]` to `delayFrom … [(contended … a, n), …]` -/
macro "bus_code" : tactic => `(tactic|
  simp only [contend_eq, toPieces_cons, toPieces_nil, toPieces_append, io_pieces])

set_option hygiene false in
/-- `i'` is the closure's own instruction (no other instruction shares its `canon` class) -/
macro "bus_plain" hc:ident : tactic => `(tactic|
  (obtain ⟨hcan, hsz, htm, htm2⟩ := canonD_inv $hc
   have hi' := canon_plain_inv _ _ hcan rfl
   subst hi'
   rw [size_int] at hsz))

set_option hygiene false in
macro "bus_setup" hi:ident : tactic => `(tactic|
  (rinv_setup $hi
   have pc0 : s.pc % 65536 = s.pc := mod_self_of_word _ hpc
   have sp0 : rget s.reg 12 % 65536 = rget s.reg 12 := mod_self_of_word _ hr.word))

/-- evaluate `sizeI` of an instruction whose constructor is known -/
macro "bus_size" "at" h:ident : tactic => `(tactic|
  simp only [sizeI, immI, ZInstr.indexed, ZInstr.cbGroup, ZInstr.edGroup, ZInstr.hasDisp, Loc8.usesIdx, Loc8.isDisp, optIdxHalf,
    isIdxHalf_A, isIR_A, isIdxHalf_F, isIR_F, isIdxHalf_B, isIR_B, isIdxHalf_C, isIR_C, isIdxHalf_D, isIR_D, isIdxHalf_E, isIR_E, isIdxHalf_H, isIR_H, isIdxHalf_L, isIR_L, isIdxHalf_IXh, isIR_IXh, isIdxHalf_IXl, isIR_IXl, isIdxHalf_IYh, isIR_IYh, isIdxHalf_IYl, isIR_IYl, isIdxHalf_I, isIR_I, isIdxHalf_R, isIR_R, isIdx_BC, isIdx_DE, isIdx_HL, isIdx_SP, isIdx_IX, isIdx_IY, isIdx_AF,
    Bool.or_false, Bool.false_or, Bool.or_true, Bool.true_or, Bool.false_eq_true, if_false, if_true, reduceCtorEq,
    Int.reduceAdd, Bool.or_self, decide_true, decide_false, Int.add_zero] at $h:ident)

/-- OUTI/OTIR: the implementation computes the delay of the five repeat cycles by a second call,
started 16 T-states (plus the delay so far) into the instruction -/
theorem delayFrom_outi (m : μ) (t : Int) (p1 p2 p3 p4 : Bool) (io tail : List (Bool × Int))
    (hio : (io.map Prod.snd).sum = 4) :
    delayFrom m t ((p1, 4) :: (p2, 4) :: (p3, 1) :: (p4, 3) :: (io ++ tail)) =
      delayFrom m t ((p1, 4) :: (p2, 4) :: (p3, 1) :: (p4, 3) :: io) +
        delayFrom m (t + 16 + delayFrom m t ((p1, 4) :: (p2, 4) :: (p3, 1) :: (p4, 3) :: io)) tail := by
  have := delayFrom_append m t ((p1, 4) :: (p2, 4) :: (p3, 1) :: (p4, 3) :: io) tail
  simp only [List.cons_append, List.map_cons, List.sum_cons, hio] at this
  rw [this]
  have e : t + delayFrom m t ((p1, 4) :: (p2, 4) :: (p3, 1) :: (p4, 3) :: io) + (4 + (4 + (1 + (3 + 4)))) =
      t + 16 + delayFrom m t ((p1, 4) :: (p2, 4) :: (p3, 1) :: (p4, 3) :: io) := by omega
  rw [e]

set_option hygiene false in
/-- normalise the addresses on the specification side and compare -/
macro "bus_close" : tactic => `(tactic|
  ((try simp only [Int.add_zero, pc0, sp0, Int.add_neg_eq_sub, Int.add_sub_assoc, Int.reduceSub]) <;> omega))

set_option hygiene false in
/-- unfold both closures (inside the contended window), then both sides of the equation -/
macro "bus_go" "[" ts:Lean.Parser.Tactic.simpLemma,* "]" : tactic => `(tactic|
  (simp only [sim_handler, Id.run, pure, hw, and_self, if_true, if_false, Bool.false_eq_true, Int.reduceAdd, Int.reduceEq,
     Int.add_zero, not_true_eq_false, not_false_eq_true, ne_eq, $ts,*]
   try bus_code
   bus_spec [$ts,*]
   try simp only [apply_ite Z80.St.t, ite_self]))

end C19Bus
