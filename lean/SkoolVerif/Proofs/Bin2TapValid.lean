import SkoolVerif.Proofs.Bin2TapLemmas
import SkoolVerif.Proofs.TapeFilesLemmas
/-! Every block `run` builds is a list of bytes shorter than 64K: `write_tap` accepts the tape. -/
namespace Bin2Tap
open TapeFiles

def Bytes (l : List Nat) : Prop := ∀ x ∈ l, x < 256

theorem Bytes.append {a b : List Nat} (ha : Bytes a) (hb : Bytes b) : Bytes (a ++ b) := by
  intro x hx; rcases List.mem_append.1 hx with h | h
  · exact ha x h
  · exact hb x h

theorem Bytes.cons {a : Nat} {b : List Nat} (ha : a < 256) (hb : Bytes b) : Bytes (a :: b) := by
  intro x hx; rcases List.mem_cons.1 hx with h | h
  · exact h ▸ ha
  · exact hb x h

theorem Bytes.nil : Bytes [] := by intro x hx; cases hx

theorem bytes_of_lits (l : List Nat) (h : l.all (· < 256) = true) : Bytes l := by
  intro x hx; simpa using (List.all_eq_true.1 h) x hx

theorem foldl_xor_lt (l : List Nat) (p : Nat) (hp : p < 256) (hl : Bytes l) : l.foldl (· ^^^ ·) p < 256 := by
  induction l generalizing p with
  | nil => exact hp
  | cons a l ih =>
    simp only [List.foldl_cons]
    apply ih
    · exact Nat.xor_lt_two_pow (n := 8) hp (hl a (by simp))
    · exact fun x hx => hl x (by simp [hx])

theorem bytes_makeBlock (d : List Nat) (h : Bool) (hd : Bytes d) : Bytes (makeBlock d h) := by
  rw [makeBlock_eq]
  have hf : (if h then 0 else 255) < 256 := by cases h <;> decide
  refine Bytes.cons hf (Bytes.append hd (Bytes.cons ?_ Bytes.nil))
  rw [xorAll_cons]
  exact foldl_xor_lt d _ hf hd

theorem bytes_getWord (w : Nat) (h : w < 65536) : Bytes (getWord w) := by
  intro x hx; simp [getWord] at hx; omega

theorem bytes_padTitle (t : List Nat) (h : Bytes t) : Bytes (padTitle t) := by
  unfold padTitle
  refine Bytes.append (fun x hx => h x (List.mem_of_mem_take hx)) ?_
  intro x hx; simp at hx; omega

theorem bytes_getHeader (t : List Nat) (n : Nat) (k : Kind) (ht : Bytes t) (hn : n < 65536)
    (hk : match k with | .code s => s < 65536 | .basic l => l < 65536) : Bytes (getHeader t n k) := by
  cases k with
  | code s =>
    exact bytes_makeBlock _ _ (Bytes.append (Bytes.append (Bytes.append (Bytes.append
      (bytes_of_lits [3] rfl) (bytes_padTitle t ht)) (bytes_getWord n hn)) (bytes_getWord s hk)) (bytes_of_lits [0, 0] rfl))
  | basic l =>
    exact bytes_makeBlock _ _ (Bytes.append (Bytes.append (Bytes.append (Bytes.append
      (bytes_of_lits [0] rfl) (bytes_padTitle t ht)) (bytes_getWord n hn)) (bytes_getWord l hk)) (bytes_getWord n hn))

theorem bytes_decAux (fuel n : Nat) (acc : List Nat) (h : Bytes acc) : Bytes (decAux fuel n acc) := by
  induction fuel generalizing n acc with
  | zero => exact h
  | succ f ih =>
    simp only [decAux]; split
    · exact Bytes.cons (by omega) h
    · exact ih _ _ (Bytes.cons (by omega) h)

theorem bytes_quoted (n : Nat) : Bytes (quoted n) :=
  Bytes.append (Bytes.append (bytes_of_lits [34] rfl) (bytes_decAux _ _ _ Bytes.nil)) (bytes_of_lits [34] rfl)

theorem decAux_length_le (fuel n : Nat) (acc : List Nat) : (decAux fuel n acc).length ≤ acc.length + fuel := by
  induction fuel generalizing n acc with
  | zero => simp [decAux]
  | succ f ih =>
    simp only [decAux]; split
    · simp <;> omega
    · have := ih (n / 10) ((48 + n % 10) :: acc); simp at this; omega

/-- a number below 65536 has at most five digits -/
theorem dec_length_le (n : Nat) (h : n < 65536) : (dec n).length ≤ 5 := by
  unfold dec
  -- unfold five levels
  by_cases h1 : n < 10
  · simp [decAux, h1]
  · by_cases h2 : n / 10 < 10
    · have : n + 1 = (n - 1) + 1 + 1 := by omega
      rw [this]; simp [decAux, h1, h2]
    · by_cases h3 : n / 10 / 10 < 10
      · have : n + 1 = (n - 2) + 1 + 1 + 1 := by omega
        rw [this]; simp [decAux, h1, h2, h3]
      · by_cases h4 : n / 10 / 10 / 10 < 10
        · have : n + 1 = (n - 3) + 1 + 1 + 1 + 1 := by omega
          rw [this]; simp [decAux, h1, h2, h3, h4]
        · have h5 : n / 10 / 10 / 10 / 10 < 10 := by omega
          have : n + 1 = (n - 4) + 1 + 1 + 1 + 1 + 1 := by omega
          rw [this]; simp [decAux, h1, h2, h3, h4, h5]

theorem quoted_length_le (n : Nat) (h : n < 65536) : (quoted n).length ≤ 7 := by
  have := dec_length_le n h; simp [quoted]; omega

theorem bytes_basicLine (clear : Option Nat) (start : Nat) (scr banks : Bool)
    (hc : ∀ c, clear = some c → c < 65536) (hs : start < 65536) :
    Bytes (basicLine clear start scr banks) ∧ (basicLine clear start scr banks).length ≤ 100 := by
  cases clear with
  | none =>
    refine ⟨?_, ?_⟩
    · exact Bytes.append (Bytes.append (Bytes.append (bytes_of_lits _ rfl) (bytes_of_lits _ rfl)) (bytes_quoted _))
        (bytes_of_lits _ rfl)
    · have : (quoted 23296).length = 7 := by decide
      simp [basicLine, this]
  | some c =>
    have h1 := quoted_length_le c (hc c rfl)
    have h2 := quoted_length_le start hs
    have h3 : (quoted 23739).length = 7 := by decide
    refine ⟨?_, ?_⟩
    · simp only [basicLine]
      refine Bytes.append (Bytes.append (Bytes.append (Bytes.append (Bytes.append (Bytes.append (Bytes.append
        (Bytes.append (bytes_of_lits _ rfl) (bytes_getWord _ ?_)) (bytes_of_lits _ rfl)) (bytes_quoted _))
        (bytes_of_lits _ rfl)) ?_) ?_) (bytes_of_lits _ rfl)) (bytes_quoted _) |> fun h => Bytes.append h (bytes_of_lits _ rfl)
      · cases scr <;> cases banks <;> simp <;> omega
      · cases scr
        · exact Bytes.nil
        · exact Bytes.append (Bytes.append (bytes_of_lits _ rfl) (bytes_quoted _)) (bytes_of_lits _ rfl)
      · cases banks
        · exact Bytes.nil
        · exact bytes_of_lits _ rfl
    · cases scr <;> cases banks <;> simp [basicLine, getWord, h3] <;> omega

theorem bytes_dataLoaderCode (org length start stack : Nat) (h1 : org < 65536) (h2 : length < 65536)
    (h3 : start < 65536) (h4 : stack < 65536) : Bytes (dataLoaderCode org length start stack) := by
  unfold dataLoaderCode
  exact Bytes.append (Bytes.append (Bytes.append (Bytes.append (Bytes.append (Bytes.append (Bytes.append (Bytes.append
    (bytes_of_lits _ rfl) (bytes_getWord _ h1)) (bytes_of_lits _ rfl)) (bytes_getWord _ h2)) (bytes_of_lits _ rfl))
    (bytes_getWord _ h4)) (bytes_of_lits _ rfl)) (bytes_getWord _ h3)) (bytes_of_lits _ rfl)

theorem bytes_prefill (ram : List Nat) (org start stack : Nat) (hr : Bytes ram) (hs : start < 65536) :
    Bytes (prefill ram org start stack) := by
  intro x hx
  obtain ⟨i, hi, rfl⟩ := List.mem_iff_getElem.1 hx
  have hi' : i < ram.length := by rw [prefill_length] at hi; exact hi
  have h := prefill_get ram org start stack i hi'
  rw [List.getElem?_eq_getElem hi] at h
  split at h
  · have hsc : Bytes (stackContents start) :=
      Bytes.append (bytes_getWord 1343 (by decide)) (bytes_getWord start hs)
    exact hsc _ (List.mem_of_getElem? h.symm)
  · exact hr _ (List.mem_of_getElem? h.symm)

theorem bytes_bankLoaderCode (address startAddr : Nat) (h1 : address + 38 < 65536) (h2 : startAddr < 65536) :
    Bytes (bankLoaderCode address startAddr) := by
  intro x hx
  simp [bankLoaderCode] at hx
  omega

theorem bytes_bankTable (banks : List Nat) (o : Nat) (hb : ∀ b ∈ banks, b < 8) (ho : o < 128) :
    Bytes (bankTable banks o) := by
  unfold bankTable
  refine Bytes.append ?_ (Bytes.cons (Nat.or_lt_two_pow (n := 8) (by decide) (by omega)) Bytes.nil)
  intro x hx
  obtain ⟨b, hb1, rfl⟩ := List.mem_map.1 hx
  have := hb b ((mem_sortNat b banks).1 hb1); omega

theorem mem_insertBank (x y : Nat × List Nat) (l : List (Nat × List Nat)) : y ∈ insertBank x l ↔ y = x ∨ y ∈ l := by
  induction l with
  | nil => simp [insertBank]
  | cons z zs ih =>
    simp only [insertBank]; split
    · simp
    · simp [ih]; constructor
      · rintro (h | h | h) <;> simp [h]
      · rintro (h | h | h) <;> simp [h]

theorem mem_sortBanks (y : Nat × List Nat) (l : List (Nat × List Nat)) : y ∈ sortBanks l ↔ y ∈ l := by
  induction l with
  | nil => simp [sortBanks]
  | cons x xs ih => simp [sortBanks, mem_insertBank, ih]

/-- the documented argument ranges -/
structure ArgsOk (a : Args) : Prop where
  ram : Bytes a.ram
  ramLen : a.ram.length + 2 < 65536
  name : Bytes a.name
  org : a.org < 65536
  start : a.start < 65536
  stack : a.stack < 65536
  clear : ∀ c, a.clear = some c → c < 65536
  scr : Bytes a.scr
  scrLen : a.scr.length ≤ 6912
  o7 : a.out7ffd < 128
  loader : a.loaderAddr + 38 < 65536
  banks : ∀ bs, a.banks = some bs → bs.length ≤ 8 ∧ ∀ b ∈ bs, b.1 < 8 ∧ Bytes b.2 ∧ b.2.length + 2 < 65536

theorem bytes_titleOf (name : List Nat) (h : Bytes name) : Bytes (titleOf name) := by
  unfold titleOf; simp only; split
  · exact fun x hx => h x (List.mem_of_mem_take hx)
  · exact h

def GoodBlock (d : List Nat) : Prop := 2 ≤ d.length ∧ d.length < 65536 ∧ Bytes d

theorem good_header (t : List Nat) (n : Nat) (k : Kind) (ht : Bytes t) (hn : n < 65536)
    (hk : match k with | .code s => s < 65536 | .basic l => l < 65536) : GoodBlock (getHeader t n k) :=
  ⟨by rw [getHeader_length]; decide, by rw [getHeader_length]; decide, bytes_getHeader t n k ht hn hk⟩

theorem good_makeBlock (d : List Nat) (h : Bool) (hd : Bytes d) (hl : d.length + 2 < 65536) : GoodBlock (makeBlock d h) :=
  ⟨by rw [makeBlock_length]; omega, by rw [makeBlock_length]; exact hl, bytes_makeBlock d h hd⟩

/-- Every block `run` builds for in-range arguments is a byte string shorter than 64K. -/
theorem runBlocks_good (a : Args) (h : ArgsOk a) :
    ∃ blocks, runBlocks a = some blocks ∧ blocks ≠ [] ∧ ∀ d ∈ blocks, GoodBlock d := by
  have ht := bytes_titleOf a.name h.name
  -- the BASIC loader
  have hbasic : ∀ start, start < 65536 → ∀ scr banks, ∀ d ∈ basicLoader (titleOf a.name) a.clear start scr banks, GoodBlock d := by
    intro start hs scr banks d hd
    obtain ⟨hb, hl⟩ := bytes_basicLine a.clear start scr banks h.clear hs
    simp only [basicLoader, List.mem_cons, List.mem_nil_iff, or_false] at hd
    rcases hd with rfl | rfl
    · exact good_header _ _ _ ht (by omega) (by decide)
    · exact good_makeBlock _ _ hb (by omega)
  -- the bank part
  have hbankL : ∀ bs : List (Nat × List Nat), a.banks = some bs →
      ∀ d ∈ bankLoader (titleOf a.name) a.loaderAddr a.start (bs.map (·.1)) a.out7ffd ++
          (sortBanks bs).map (fun b => makeBlock b.2), GoodBlock d := by
    intro bs hb d hd
    obtain ⟨hlen, hbs⟩ := h.banks bs hb
    have hkeys : ∀ b ∈ bs.map (·.1), b < 8 := by
      intro b hb'
      obtain ⟨p, hp, rfl⟩ := List.mem_map.1 hb'
      exact (hbs p hp).1
    rcases List.mem_append.1 hd with hd | hd
    · simp only [bankLoader, List.mem_cons, List.mem_nil_iff, or_false] at hd
      have hdata : Bytes (bankLoaderCode a.loaderAddr a.start ++ bankTable (bs.map (·.1)) a.out7ffd) :=
        Bytes.append (bytes_bankLoaderCode _ _ h.loader h.start) (bytes_bankTable _ _ hkeys h.o7)
      have hdl : (bankLoaderCode a.loaderAddr a.start ++ bankTable (bs.map (·.1)) a.out7ffd).length ≤ 47 := by
        simp [bankLoaderCode_length, bankTable, sortNat_length]; omega
      rcases hd with rfl | rfl
      · exact good_header _ _ _ ht (by omega) (by have := h.loader; show a.loaderAddr < 65536; omega)
      · exact good_makeBlock _ _ hdata (by omega)
    · obtain ⟨p, hp, rfl⟩ := List.mem_map.1 hd
      have := hbs p ((mem_sortBanks p bs).1 hp)
      exact good_makeBlock _ _ this.2.1 this.2.2
  have hnil : ∀ d ∈ ([] : List (List Nat)), GoodBlock d := fun d hd => by cases hd
  have hla : a.loaderAddr < 65536 := by have := h.loader; omega
  have fin : ∀ (m : List (List Nat)), (∀ d ∈ m, GoodBlock d) → ∀ (st : Nat) (sc bk : Bool) (y : List (List Nat)),
      (∀ d ∈ basicLoader (titleOf a.name) a.clear st sc bk, GoodBlock d) → (∀ d ∈ y, GoodBlock d) →
      basicLoader (titleOf a.name) a.clear st sc bk ++ m ++ y ≠ [] ∧
        ∀ d ∈ basicLoader (titleOf a.name) a.clear st sc bk ++ m ++ y, GoodBlock d := by
    intro m hm st sc bk y hx hy
    refine ⟨by simp [basicLoader], ?_⟩
    intro d hd
    rcases List.mem_append.1 hd with hd | hd
    · rcases List.mem_append.1 hd with hd | hd
      · exact hx d hd
      · exact hm d hd
    · exact hy d hd
  -- the main part, by cases on CLEAR
  have hmainN : ∃ H B, dataLoader (titleOf a.name) a.org a.ram.length a.start a.stack a.scr = some [H, B] ∧
      ∀ d ∈ [H, B] ++ [makeBlock (prefill a.ram a.org a.start a.stack)], GoodBlock d := by
    have hpre : (if a.scr = [] then [] else scrPrefix a.scr).length ≤ 6912 := by
      split
      · simp
      · have := h.scrLen; simp [scrPrefix]; omega
    have hpb : Bytes (if a.scr = [] then [] else scrPrefix a.scr) := by
      split
      · exact Bytes.nil
      · exact Bytes.append h.scr (fun x hx => by simp at hx; omega)
    have hnot : ¬ (23296 < (if a.scr = [] then [] else scrPrefix a.scr).length) := by omega
    refine ⟨_, _, by simp only [dataLoader, hnot, if_false]; rfl, ?_⟩
    intro d hd
    simp only [List.cons_append, List.nil_append, List.mem_cons, List.mem_nil_iff, or_false] at hd
    have hcode := bytes_dataLoaderCode a.org a.ram.length a.start a.stack h.org (by have := h.ramLen; omega) h.start h.stack
    rcases hd with rfl | rfl | rfl
    · exact good_header _ _ _ ht (by simp [dataLoaderCode_length]; omega) (by show 23296 - _ < 65536; omega)
    · exact good_makeBlock _ _ (Bytes.append hpb hcode) (by simp [dataLoaderCode_length]; omega)
    · exact good_makeBlock _ _ (bytes_prefill _ _ _ _ h.ram h.start) (by rw [prefill_length]; exact h.ramLen)
  have hmainS : ∀ d ∈ ((if a.scr ≠ [] then [getHeader (titleOf a.name) 6912 (.code 16384), makeBlock a.scr] else []) ++
          [getHeader (titleOf a.name) a.ram.length (.code a.org), makeBlock a.ram]), GoodBlock d := by
    intro d hd
    rcases List.mem_append.1 hd with hd | hd
    · split at hd
      · simp only [List.mem_cons, List.mem_nil_iff, or_false] at hd
        rcases hd with rfl | rfl
        · exact good_header _ _ _ ht (by decide) (by decide)
        · exact good_makeBlock _ _ h.scr (by have := h.scrLen; omega)
      · cases hd
    · simp only [List.mem_cons, List.mem_nil_iff, or_false] at hd
      rcases hd with rfl | rfl
      · exact good_header _ _ _ ht (by have := h.ramLen; omega) h.org
      · exact good_makeBlock _ _ h.ram h.ramLen
  unfold runBlocks
  dsimp only
  cases hc : a.clear with
  | none =>
    obtain ⟨H, B, hm, hmg⟩ := hmainN
    rw [hm]
    cases hb : a.banks with
    | none => exact ⟨_, rfl, hc ▸ fin _ hmg _ _ _ _ (hbasic _ h.start _ _) hnil⟩
    | some bs => exact ⟨_, rfl, hc ▸ fin _ hmg _ _ _ _ (hbasic _ hla _ _) (hbankL bs hb)⟩
  | some c =>
    cases hb : a.banks with
    | none => exact ⟨_, rfl, hc ▸ fin _ hmainS _ _ _ _ (hbasic _ h.start _ _) hnil⟩
    | some bs => exact ⟨_, rfl, hc ▸ fin _ hmainS _ _ _ _ (hbasic _ hla _ _) (hbankL bs hb)⟩

/-- … hence `write_tap` accepts the tape -/
theorem runBlocks_valid (a : Args) (h : ArgsOk a) : ∃ blocks, runBlocks a = some blocks ∧ blocks ≠ [] ∧
    ValidTap blocks ∧ ∀ d ∈ blocks, d ≠ [] := by
  obtain ⟨blocks, hb, hne, hg⟩ := runBlocks_good a h
  refine ⟨blocks, hb, hne, fun d hd => ⟨(hg d hd).2.1, (hg d hd).2.2⟩, fun d hd he => ?_⟩
  have := (hg d hd).1; rw [he] at this; simp at this

end Bin2Tap
