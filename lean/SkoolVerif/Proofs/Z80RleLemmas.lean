import SkoolVerif.Model.Z80Rle
/-! Helper lemmas for the Z80 RLE round trip (C09). -/
namespace Z80Rle

abbrev pre := okCons

@[simp] theorem pre_nil (x) : pre [] x = x := by cases x <;> simp [okCons]
theorem pre_pre (p q x) : pre p (pre q x) = pre (p ++ q) x := by cases x <;> simp [okCons]

/-- `blk` is a sequence of complete tokens that decodes to `out`, whatever follows. -/
def Aligned (blk out : List Nat) : Prop := ∀ X, dec (blk ++ X) = pre out (dec X)

theorem Aligned.nil : Aligned [] [] := by intro X; simp
theorem Aligned.append {b1 o1 b2 o2} (h1 : Aligned b1 o1) (h2 : Aligned b2 o2) :
    Aligned (b1 ++ b2) (o1 ++ o2) := by
  intro X; rw [List.append_assoc, h1, h2, pre_pre]

theorem dec_lit (b : Nat) (hb : b ≠ 237) (X : List Nat) : dec (b :: X) = pre [b] (dec X) := by
  conv => lhs; unfold dec
  simp [hb]

theorem dec_ed_lit (c : Nat) (hc : c ≠ 237) (X : List Nat) :
    dec (237 :: c :: X) = pre [237, c] (dec X) := by
  conv => lhs; unfold dec
  simp [hc]

theorem dec_run (n v : Nat) (hn : n ≠ 0) (X : List Nat) :
    dec (237 :: 237 :: n :: v :: X) = pre (List.replicate n v) (dec X) := by
  conv => lhs; unfold dec
  simp [hn]

theorem Aligned.lit {b : Nat} (hb : b ≠ 237) : Aligned [b] [b] := fun X => dec_lit b hb X
theorem Aligned.edLit {c : Nat} (hc : c ≠ 237) : Aligned [237, c] [237, c] := fun X => dec_ed_lit c hc X
theorem Aligned.run {n v : Nat} (hn : n ≠ 0) : Aligned [237, 237, n, v] (List.replicate n v) :=
  fun X => dec_run n v hn X

theorem Aligned.lits {v : Nat} (hv : v ≠ 237) (n : Nat) :
    Aligned (List.replicate n v) (List.replicate n v) := by
  induction n with
  | zero => exact Aligned.nil
  | succ n ih =>
    rw [List.replicate_succ]
    exact Aligned.append (b1 := [v]) (o1 := [v]) (Aligned.lit hv) ih

theorem Aligned.dec {blk out} (h : Aligned blk out) : dec blk = .ok out := by
  have := h []; simpa [okCons, Z80Rle.dec] using this

/-- Invariant of the encoder loop after consuming `data`. -/
def Inv (s : EncSt) (data : List Nat) : Prop :=
  ∃ out, Aligned s.block out ∧ out ++ lits s.prev s.count = data ∧ s.count ≤ 255 ∧
    (s.prev = none → s.count = 0) ∧ (∀ v, s.prev = some v → 1 ≤ s.count)

theorem inv_init : Inv encInit [] := ⟨[], Aligned.nil, by simp [encInit, lits], by simp [encInit], by simp [encInit], by simp [encInit]⟩

theorem inv_step (s : EncSt) (data : List Nat) (b : Nat) (h : Inv s data) :
    Inv (encStep s b) (data ++ [b]) := by
  obtain ⟨out, hal, hd, hc, hn, hs⟩ := h
  subst hd
  obtain ⟨blk, prev, count⟩ := s
  simp only at hal hc hn hs ⊢
  unfold encStep
  cases prev with
  | none =>
    have h0 : count = 0 := hn rfl
    subst h0
    simp [lits]
    exact ⟨out, hal, by simp [lits]⟩
  | some v =>
    have h1 : 1 ≤ count := hs v rfl
    by_cases hvb : v = b
    · subst hvb
      by_cases hlt : count < 255
      · simp [hlt]
        refine ⟨out, hal, ?_, by simp; omega, by simp, by simp⟩
        simp [lits, List.replicate_succ']
      · have h4 : 4 < count := by omega
        simp [hlt, h4, prevVal]
        refine ⟨out ++ List.replicate count v, Aligned.append hal (Aligned.run (by omega)), ?_⟩
        simp [lits]
    · have hbv : ¬ (b = v) := fun h => hvb h.symm
      simp [hvb]
      by_cases hrun : (4 < count ∨ 1 < count ∧ v = 237)
      · simp [hrun, prevVal]
        refine ⟨out ++ List.replicate count v, Aligned.append hal (Aligned.run (by omega)), ?_⟩
        simp [lits]
      · simp [hrun]
        by_cases hv : v = 237
        · subst hv
          have hc1 : count = 1 := by omega
          subst hc1
          simp
          refine ⟨out ++ [237, b], Aligned.append hal (Aligned.edLit hbv), ?_⟩
          simp [lits]
        · simp [hv]
          refine ⟨out ++ List.replicate count v, Aligned.append hal (by simpa [lits] using Aligned.lits hv count), ?_⟩
          simp [lits]

theorem inv_fold (data : List Nat) (s : EncSt) (d0 : List Nat) (h : Inv s d0) :
    Inv (data.foldl encStep s) (d0 ++ data) := by
  induction data generalizing s d0 with
  | nil => simpa using h
  | cons b data ih =>
    simp only [List.foldl_cons]
    have := ih (encStep s b) (d0 ++ [b]) (inv_step s d0 b h)
    simpa using this

theorem flush_dec (s : EncSt) (data : List Nat) (h : Inv s data) : dec (encFlush s) = .ok data := by
  obtain ⟨out, hal, hd, hc, hn, hs⟩ := h
  subst hd
  obtain ⟨blk, prev, count⟩ := s
  simp only at hal hc hn hs ⊢
  unfold encFlush
  cases prev with
  | none =>
    have h0 : count = 0 := hn rfl
    subst h0
    simp [lits]
    exact hal.dec
  | some v =>
    have h1 : 1 ≤ count := hs v rfl
    by_cases hrun : (4 < count ∨ 1 < count ∧ v = 237)
    · simp [hrun, prevVal, lits]
      exact (Aligned.append hal (Aligned.run (by omega))).dec
    · simp [hrun, lits]
      by_cases hv : v = 237
      · subst hv
        have hc1 : count = 1 := by omega
        subst hc1
        have := hal [237]
        simpa [okCons, dec] using this
      · exact (Aligned.append hal (Aligned.lits hv count)).dec

/-- Length invariant: every emitted byte is paid for by at most half a data byte. -/
def LenInv (s : EncSt) (n : Nat) : Prop :=
  s.block.length + 2 * s.count ≤ 2 * n ∧ (s.prev = none → s.count = 0)

theorem lits_length_le (p : Option Nat) (c : Nat) : (lits p c).length ≤ c := by
  cases p <;> simp [lits]

theorem len_step (s : EncSt) (n b : Nat) (h : LenInv s n) : LenInv (encStep s b) (n + 1) := by
  obtain ⟨blk, prev, count⟩ := s
  obtain ⟨h1, h2⟩ := h
  simp only at h1 h2
  unfold encStep LenInv
  cases prev with
  | none =>
    have h0 : count = 0 := h2 rfl
    subst h0
    simp; omega
  | some v =>
    by_cases hvb : v = b
    · subst hvb
      by_cases hlt : count < 255
      · simp [hlt]; omega
      · have h4 : 4 < count := by omega
        simp [hlt, h4]; omega
    · simp [hvb]
      by_cases hrun : (4 < count ∨ 1 < count ∧ v = 237)
      · simp [hrun]; omega
      · simp [hrun]
        by_cases hv : v = 237
        · simp [hv]; omega
        · simp [hv, lits]; omega

theorem len_fold (data : List Nat) (s : EncSt) (n : Nat) (h : LenInv s n) :
    LenInv (data.foldl encStep s) (n + data.length) := by
  induction data generalizing s n with
  | nil => simpa using h
  | cons b data ih =>
    simp only [List.foldl_cons, List.length_cons]
    have := ih (encStep s b) (n + 1) (len_step s n b h)
    rw [show n + (data.length + 1) = n + 1 + data.length by omega]
    exact this

theorem flush_len (s : EncSt) (n : Nat) (h : LenInv s n) : (encFlush s).length ≤ 2 * n := by
  obtain ⟨blk, prev, count⟩ := s
  obtain ⟨h1, h2⟩ := h
  simp only at h1 h2
  have hl := lits_length_le prev count
  unfold encFlush
  simp only
  split
  · rename_i hh
    simp at hh ⊢
    omega
  · simp; omega

end Z80Rle
