import SkoolVerif.Gen.CArgs
import SkoolVerif.Gen.CCmioArgs
import SkoolVerif.Gen.CDispatch
import SkoolVerif.Proofs.Dispatch.All
import SkoolVerif.Proofs.SimStep
import SkoolVerif.Proofs.CmioStep
import SkoolVerif.Proofs.RangeTactics
/-!
The row selection of the C run loops (`CSimH.leafOf`) and what the kernel checks about the dispatch tables:
C and Python select the same row for every opcode sequence; every row is an argument tuple the C handlers are written for.
(Independent of the handler bodies: a change of a C handler does not re-check this module.)

`CSimH.leafOf` is the hand model of the macro `GET_OPCODE_FUNC` of `c/csimulator.c` (its text is checked
verbatim by `translate/c2lean.py`), over the dispatch tables translated from the C initialisers
(`Gen/CDispatch.lean`, where a row with a NULL function pointer is the marker `.prefix_`/`.prefix2_`):

    byte opcode = PEEK(pc); OpcodeFunction* opcode_func = opcodes[opcode];
    if (!opcode_func->func) { byte opcode2 = PEEK(ADDR(pc + 1)); switch (opcode) {
        case 0xCB: opcode_func = &after_CB[opcode2]; break;   case 0xED: opcode_func = &after_ED[opcode2]; break;
        case 0xDD: opcode_func = opcode2 == 0xCB ? &after_DDCB[PEEK(ADDR(pc + 3))] : &after_DD[opcode2]; break;
        case 0xFD: opcode_func = opcode2 == 0xCB ? &after_FDCB[PEEK(ADDR(pc + 3))] : &after_FD[opcode2]; break;
        default: break; } }
    opcode_func->func(self, opcode_func->lookup, opcode_func->args);

`CSimH.step` / `CCmioH.step` run the handler translated from the C source on the selected row.
-/
open Z80 DispatchEq

namespace CSimH
variable {μ : Type} [MemLike μ]

/-- `!opcode_func->func` -/
def isNull : Sim.Instr → Bool
  | .prefix_ _ => true
  | .prefix2_ _ => true
  | _ => false

/-- `table[opcode]` for a byte `opcode` -/
def tget (a : Array Sim.Instr) (i : Int) : Sim.Instr := a.getD i.toNat (.prefix_ .MAIN)

/-- `GET_OPCODE_FUNC(&opcodes)` -/
def leafOf (s : St μ) : Sim.Instr :=
  let pc := s.pc
  let opcode := mget s.mem pc
  let f := tget CSim.tbl_MAIN opcode
  if isNull f then
    let opcode2 := mget s.mem ((pc + 1) % 65536)
    if opcode = 0xCB then tget CSim.tbl_CB opcode2
    else if opcode = 0xED then tget CSim.tbl_ED opcode2
    else if opcode = 0xDD then
      (if opcode2 = 0xCB then tget CSim.tbl_DDCB (mget s.mem ((pc + 3) % 65536)) else tget CSim.tbl_DD opcode2)
    else if opcode = 0xFD then
      (if opcode2 = 0xCB then tget CSim.tbl_FDCB (mget s.mem ((pc + 3) % 65536)) else tget CSim.tbl_FD opcode2)
    else f
  else f

/-! ### the tables: which rows are NULL (kernel-checked on the current tables) -/

def noNull (a : Array Sim.Instr) : Bool := a.all (fun e => !isNull e) && a.size == 256

theorem nn_CB : noNull Sim.tbl_CB = true := by decide +kernel
theorem nn_ED : noNull Sim.tbl_ED = true := by decide +kernel
theorem nn_DDCB : noNull Sim.tbl_DDCB = true := by decide +kernel
theorem nn_FDCB : noNull Sim.tbl_FDCB = true := by decide +kernel

/-- main table: NULL exactly at CB/ED/DD/FD, and the Python rows there are the matching `prefix` calls -/
def mainOk : Bool := (Array.range 256).all fun i =>
  let e := Sim.tbl_MAIN.getD i (.prefix_ .MAIN)
  if i = 0xCB then decide (e = .prefix_ .CB) else if i = 0xED then decide (e = .prefix_ .ED)
  else if i = 0xDD then decide (e = .prefix_ .DD) else if i = 0xFD then decide (e = .prefix_ .FD) else !isNull e

/-- DD/FD tables: NULL exactly at CB, where the Python row is the matching `prefix2` call -/
def xyOk (a : Array Sim.Instr) (t2 : Sim.OpTbl) : Bool := (Array.range 256).all fun i =>
  let e := a.getD i (.prefix_ .MAIN)
  if i = 0xCB then decide (e = .prefix2_ t2) else !isNull e

theorem mainOk_true : mainOk = true := by decide +kernel
theorem ddOk_true : xyOk Sim.tbl_DD .DDCB = true := by decide +kernel
theorem fdOk_true : xyOk Sim.tbl_FD .FDCB = true := by decide +kernel

theorem range_all {p : Nat → Bool} (h : (Array.range 256).all p = true) (i : Nat) (hi : i < 256) : p i = true := by
  rw [Array.all_eq_true] at h
  have := h i (by simpa using hi)
  simpa using this

theorem noNull_get {a : Array Sim.Instr} (h : noNull a = true) (i : Nat) (hi : i < 256) :
    isNull (a.getD i (.prefix_ .MAIN)) = false := by
  unfold noNull at h
  rw [Bool.and_eq_true, Array.all_eq_true] at h
  have hs : a.size = 256 := by simpa using h.2
  have := h.1 i (by omega)
  unfold Array.getD
  simp only [hs, hi, dite_true]
  simpa using this

theorem leafOf2_nn (s : St μ) (i : Sim.Instr) (h : isNull i = false) : Sim.leafOf2 s i = i := by
  cases i <;> first | rfl | simp [isNull] at h

theorem leafOf1_nn (s : St μ) (i : Sim.Instr) (h : isNull i = false) : Sim.leafOf1 s i = i := by
  cases i <;> first | rfl | simp [isNull] at h

/-- `Simulator.prefix2` / `prefix` as functions of the operand bytes -/
def pyLeaf2 (o3 : Int) : Sim.Instr → Sim.Instr
  | .prefix2_ t => t.get o3
  | i => i
def pyLeaf1 (o2 o3 : Int) : Sim.Instr → Sim.Instr
  | .prefix_ t => pyLeaf2 o3 (t.get o2)
  | i => pyLeaf2 o3 i

theorem py_leaf (s : St μ) : Sim.leafOf s =
    pyLeaf1 (mget s.mem ((s.pc + 1) % 65536)) (mget s.mem ((s.pc + 3) % 65536)) (Sim.OpTbl.get .MAIN (mget s.mem s.pc)) := by
  unfold Sim.leafOf
  generalize Sim.OpTbl.get .MAIN (mget s.mem s.pc) = i
  cases i <;> first | rfl | (simp only [Sim.leafOf1, pyLeaf1]; generalize Sim.OpTbl.get _ _ = j; cases j <;> rfl)

/-- `GET_OPCODE_FUNC` as a function of the three bytes it may read -/
def cLeaf (o o2 o3 : Int) : Sim.Instr :=
  let f := tget Sim.tbl_MAIN o
  if isNull f then
    if o = 0xCB then tget Sim.tbl_CB o2
    else if o = 0xED then tget Sim.tbl_ED o2
    else if o = 0xDD then (if o2 = 0xCB then tget Sim.tbl_DDCB o3 else tget Sim.tbl_DD o2)
    else if o = 0xFD then (if o2 = 0xCB then tget Sim.tbl_FDCB o3 else tget Sim.tbl_FD o2)
    else f
  else f

theorem c_leaf (s : St μ) : leafOf s =
    cLeaf (mget s.mem s.pc) (mget s.mem ((s.pc + 1) % 65536)) (mget s.mem ((s.pc + 3) % 65536)) := by
  unfold leafOf cLeaf
  simp only [c_MAIN, c_CB, c_ED, c_DD, c_FD, c_DDCB, c_FDCB]

theorem pyLeaf2_nn (o3 : Int) (i : Sim.Instr) (h : isNull i = false) : pyLeaf2 o3 i = i := by
  cases i <;> first | rfl | simp [isNull] at h
theorem pyLeaf1_nn (o2 o3 : Int) (i : Sim.Instr) (h : isNull i = false) : pyLeaf1 o2 o3 i = i := by
  cases i <;> first | rfl | simp [isNull] at h

theorem tget_nn {a : Array Sim.Instr} (h : noNull a = true) (o : Int) (ho : 0 ≤ o ∧ o < 256) : isNull (tget a o) = false :=
  noNull_get h o.toNat (by omega)

theorem main_row (o : Int) (ho : 0 ≤ o ∧ o < 256) :
    (o = 0xCB → tget Sim.tbl_MAIN o = .prefix_ .CB) ∧ (o = 0xED → tget Sim.tbl_MAIN o = .prefix_ .ED) ∧
    (o = 0xDD → tget Sim.tbl_MAIN o = .prefix_ .DD) ∧ (o = 0xFD → tget Sim.tbl_MAIN o = .prefix_ .FD) ∧
    (o ≠ 0xCB → o ≠ 0xED → o ≠ 0xDD → o ≠ 0xFD → isNull (tget Sim.tbl_MAIN o) = false) := by
  have h := range_all mainOk_true o.toNat (by omega)
  unfold tget
  refine ⟨?_, ?_, ?_, ?_, ?_⟩
  · intro e; subst e; simpa using h
  · intro e; subst e; simpa using h
  · intro e; subst e; simpa using h
  · intro e; subst e; simpa using h
  · intro e1 e2 e3 e4
    have n1 : o.toNat ≠ 0xCB := by omega
    have n2 : o.toNat ≠ 0xED := by omega
    have n3 : o.toNat ≠ 0xDD := by omega
    have n4 : o.toNat ≠ 0xFD := by omega
    simpa [n1, n2, n3, n4] using h

theorem xy_row {a : Array Sim.Instr} {t2 : Sim.OpTbl} (hok : xyOk a t2 = true) (o : Int) (ho : 0 ≤ o ∧ o < 256) :
    (o = 0xCB → tget a o = .prefix2_ t2) ∧ (o ≠ 0xCB → isNull (tget a o) = false) := by
  have h := range_all hok o.toNat (by omega)
  unfold tget
  refine ⟨?_, ?_⟩
  · intro e; subst e; simpa using h
  · intro e
    have n1 : o.toNat ≠ 0xCB := by omega
    simpa [n1] using h

theorem leaf_bytes (o o2 o3 : Int) (ho : 0 ≤ o ∧ o < 256) (ho2 : 0 ≤ o2 ∧ o2 < 256) (ho3 : 0 ≤ o3 ∧ o3 < 256) :
    cLeaf o o2 o3 = pyLeaf1 o2 o3 (Sim.OpTbl.get .MAIN o) := by
  obtain ⟨mCB, mED, mDD, mFD, mNN⟩ := main_row o ho
  have hget : Sim.OpTbl.get .MAIN o = tget Sim.tbl_MAIN o := rfl
  unfold cLeaf
  rw [hget]
  by_cases h1 : o = 0xCB
  · rw [mCB h1]; subst h1; simp (decide := true) only [isNull, if_true, pyLeaf1]
    exact (pyLeaf2_nn o3 _ (tget_nn nn_CB o2 ho2)).symm
  by_cases h2 : o = 0xED
  · rw [mED h2]; subst h2; simp (decide := true) only [isNull, if_true, if_false, pyLeaf1]
    exact (pyLeaf2_nn o3 _ (tget_nn nn_ED o2 ho2)).symm
  by_cases h3 : o = 0xDD
  · rw [mDD h3]; subst h3; simp (decide := true) only [isNull, if_true, if_false, pyLeaf1]
    obtain ⟨dCB, dNN⟩ := xy_row ddOk_true o2 ho2
    have hg : Sim.OpTbl.get .DD o2 = tget Sim.tbl_DD o2 := rfl
    rw [hg]
    by_cases hc : o2 = 0xCB
    · rw [dCB hc]; simp only [hc, if_true]; rfl
    · simp only [hc, if_false]; exact (pyLeaf2_nn o3 _ (dNN hc)).symm
  by_cases h4 : o = 0xFD
  · rw [mFD h4]; subst h4; simp (decide := true) only [isNull, if_true, if_false, pyLeaf1]
    obtain ⟨dCB, dNN⟩ := xy_row fdOk_true o2 ho2
    have hg : Sim.OpTbl.get .FD o2 = tget Sim.tbl_FD o2 := rfl
    rw [hg]
    by_cases hc : o2 = 0xCB
    · rw [dCB hc]; simp only [hc, if_true]; rfl
    · simp only [hc, if_false]; exact (pyLeaf2_nn o3 _ (dNN hc)).symm
  · have hn := mNN h1 h2 h3 h4
    simp only [hn, Bool.false_eq_true, if_false]
    exact (pyLeaf1_nn o2 o3 _ hn).symm

/-- C and Python select the same row for every opcode sequence (memory cells are bytes) -/
theorem leafOf_eq [CellMem μ] (s : St μ) (hm : MemOk s.mem) : leafOf s = Sim.leafOf s := by
  rw [c_leaf, py_leaf]
  exact leaf_bytes _ _ _ (hm.byte _) (hm.byte _) (hm.byte _)

/-! ### every dispatch row is an argument tuple the C handlers are written for -/

theorem ca_MAIN : Sim.tbl_MAIN.all cArgsOk = true := by decide +kernel
theorem ca_CB : Sim.tbl_CB.all cArgsOk = true := by decide +kernel
theorem ca_ED : Sim.tbl_ED.all cArgsOk = true := by decide +kernel
theorem ca_DD : Sim.tbl_DD.all cArgsOk = true := by decide +kernel
theorem ca_FD : Sim.tbl_FD.all cArgsOk = true := by decide +kernel
theorem ca_DDCB : Sim.tbl_DDCB.all cArgsOk = true := by decide +kernel
theorem ca_FDCB : Sim.tbl_FDCB.all cArgsOk = true := by decide +kernel

theorem get_cargs (t : Sim.OpTbl) (i : Int) : cArgsOk (t.get i) = true := by
  unfold Sim.OpTbl.get
  apply Sim.all_getD _ _ _ _ rfl
  cases t
  · exact ca_MAIN
  · exact ca_CB
  · exact ca_ED
  · exact ca_DD
  · exact ca_FD
  · exact ca_DDCB
  · exact ca_FDCB

theorem leafOf2_cargs (s : St μ) (i : Sim.Instr) (h : cArgsOk i = true) : cArgsOk (Sim.leafOf2 s i) = true := by
  cases i <;> first | exact h | exact get_cargs _ _

theorem leafOf_cargs (s : St μ) : cArgsOk (Sim.leafOf s) = true := by
  unfold Sim.leafOf
  generalize hm : Sim.OpTbl.get .MAIN (mget s.mem s.pc) = i
  have hw : cArgsOk i = true := hm ▸ get_cargs _ _
  cases i <;> simp only [Sim.leafOf1] <;> first | exact leafOf2_cargs s _ hw | exact leafOf2_cargs s _ (get_cargs _ _)

end CSimH

namespace CCmioH
variable {μ : Type} [MemLike μ]

theorem ca_MAIN : Cmio.tbl_MAIN.all cArgsOk = true := by decide +kernel
theorem ca_CB : Cmio.tbl_CB.all cArgsOk = true := by decide +kernel
theorem ca_ED : Cmio.tbl_ED.all cArgsOk = true := by decide +kernel
theorem ca_DD : Cmio.tbl_DD.all cArgsOk = true := by decide +kernel
theorem ca_FD : Cmio.tbl_FD.all cArgsOk = true := by decide +kernel
theorem ca_DDCB : Cmio.tbl_DDCB.all cArgsOk = true := by decide +kernel
theorem ca_FDCB : Cmio.tbl_FDCB.all cArgsOk = true := by decide +kernel

theorem get_cargs (t : Cmio.OpTbl) (i : Int) : cArgsOk (t.get i) = true := by
  unfold Cmio.OpTbl.get
  apply Cmio.all_getD _ _ _ _ rfl
  cases t
  · exact ca_MAIN
  · exact ca_CB
  · exact ca_ED
  · exact ca_DD
  · exact ca_FD
  · exact ca_DDCB
  · exact ca_FDCB

theorem leafOf2_cargs (s : St μ) (i : Cmio.Instr) (h : cArgsOk i = true) : cArgsOk (Cmio.leafOf2 s i) = true := by
  cases i <;> first | exact h | exact get_cargs _ _

theorem leafOf_cargs (s : St μ) : cArgsOk (Cmio.leafOf s) = true := by
  unfold Cmio.leafOf
  generalize hm : Cmio.OpTbl.get .MAIN (mget s.mem s.pc) = i
  have hw : cArgsOk i = true := hm ▸ get_cargs _ _
  cases i <;> simp only [Cmio.leafOf1] <;> first | exact leafOf2_cargs s _ hw | exact leafOf2_cargs s _ (get_cargs _ _)

end CCmioH
