import SkoolVerif.Proofs.SemBasics
/-!
Per-closure refinement, family 3: the table-driven 8-bit ALU closures `af_*` / `afc_*`
(ADD ADC SUB SBC AND XOR OR CP, and the accumulator rotates / DAA / CPL), `cf` (SCF/CCF), `neg`.
Flags: the translated tables are equal to the bit-level spec entry by entry
(`Proofs/Alu/*`, restated over `Int` in `Proofs/TableRanges`).
-/
namespace C05
open Z80 Sim Spec Z80Isa TableRanges AluCheck
variable {μ : Type} [MemLike μ] [CellMem μ]

theorem sem_af_r (cfg : Cfg) (r_inc : TblI1) (timing size : Int) (af : TblP2) (r : Int) (d : Decoded)
    (hz : zinstrOf (.af_r r_inc timing size af r) = some d) (s : St μ) (hi : RInv s) :
    Sim.af_r cfg r_inc timing size af r s = Spec.exec cfg d s := by
  zinv hz
  obtain ⟨m, hm, hz⟩ := hz
  rinv_setup hi
  have hR := rinc_spec r_inc m _ hm hb15
  have hA := hr.byte 0 (by omega) (by omega) (by omega)
  have hF := hr.byte 1 (by omega) (by omega) (by omega)
  simp only [sim_handler, Id.run, pure]
  split at hz
  · -- ALU A,r
    rename_i _ _ op hop
    simp only [Option.bind_eq_bind, Option.bind_eq_some_iff, Option.some.injEq] at hz
    obtain ⟨g, hg, rfl⟩ := hz
    obtain ⟨rfl, g2, g3, g4⟩ := gpr_inv r g hg
    rw [alu_tbl_spec af op hop ((rget s.reg 1 % 2).toNat) _ _ hA (hr.byte _ (by omega) (by omega) (by omega))]
    spec_simp []; idx_simp; rsimp hs; rw [hR]
    st_regs hs
  · -- RLCA RRCA RLA RRA DAA CPL
    rename_i _ _ op _ hop
    zif hz
    subst hz; subst_vars
    rw [acc_tbl_spec af op hop _ _ hA hF]
    spec_simp []; idx_simp; rsimp hs; rw [hR]
    st_regs hs
  · simp at hz

theorem sem_af_hl (cfg : Cfg) (af : TblP2) (d : Decoded)
    (hz : zinstrOf (.af_hl af) = some d) (s : St μ) (hi : RInv s) :
    Sim.af_hl cfg af s = Spec.exec cfg d s := by
  zinv hz
  obtain ⟨op, hop, rfl⟩ := hz
  rinv_setup hi
  have hA := hr.byte 0 (by omega) (by omega) (by omega)
  simp only [sim_handler, Id.run, pure]
  rw [alu_tbl_spec af op hop ((rget s.reg 1 % 2).toNat) _ _ hA (hmem.byte _)]
  spec_simp []; idx_simp; rsimp hs; rw [hR1]
  st_regs hs

theorem sem_af_n (cfg : Cfg) (af : TblP2) (d : Decoded)
    (hz : zinstrOf (.af_n af) = some d) (s : St μ) (hi : RInv s) :
    Sim.af_n cfg af s = Spec.exec cfg d s := by
  zinv hz
  obtain ⟨op, hop, rfl⟩ := hz
  rinv_setup hi
  have hA := hr.byte 0 (by omega) (by omega) (by omega)
  simp only [sim_handler, Id.run, pure]
  rw [alu_tbl_spec af op hop ((rget s.reg 1 % 2).toNat) _ _ hA (hmem.byte _)]
  spec_simp []; idx_simp; rsimp hs; rw [hR1]
  have e1 : s.pc + 2 - 1 = s.pc + 1 := by omega
  have e2 : s.pc + 1 + 1 = s.pc + 2 := by omega
  simp only [e1, e2]
  st_regs hs

theorem sem_af_xy (cfg : Cfg) (af : TblP2) (xyh xyl : Int) (d : Decoded)
    (hz : zinstrOf (.af_xy af xyh xyl) = some d) (s : St μ) (hi : RInv s) :
    Sim.af_xy cfg af xyh xyl s = Spec.exec cfg d s := by
  zinv hz
  obtain ⟨op, hop, i, hx, rfl⟩ := hz
  rinv_setup hi
  have hA := hr.byte 0 (by omega) (by omega) (by omega)
  simp only [sim_handler, Id.run, pure]
  rw [alu_tbl_spec af op hop ((rget s.reg 1 % 2).toNat) _ _ hA (hmem.byte _)]
  idx_cases hx <;>
    (spec_simp [sgn8_OFFSETS]; idx_simp; rsimp hs; rw [hR2]
     have e : s.pc + 3 - 1 = s.pc + 2 := by omega
     simp only [e]
     st_regs hs)

theorem sem_afc_r (cfg : Cfg) (r_inc : TblI1) (timing size : Int) (afc : TblP3) (r : Int) (d : Decoded)
    (hz : zinstrOf (.afc_r r_inc timing size afc r) = some d) (s : St μ) (hi : RInv s) :
    Sim.afc_r cfg r_inc timing size afc r s = Spec.exec cfg d s := by
  zinv hz
  obtain ⟨m, hm, g, hg, rfl⟩ := hz
  rinv_setup hi
  have hR := rinc_spec r_inc m _ hm hb15
  have hA := hr.byte 0 (by omega) (by omega) (by omega)
  obtain ⟨rfl, g2, g3, g4⟩ := gpr_inv r g hg
  simp only [sim_handler, Id.run, pure]
  rw [aluc_tbl_spec afc _ _ _ (mod2_range _) hA (hr.byte _ (by omega) (by omega) (by omega))]
  spec_simp []; idx_simp; rsimp hs; rw [hR]
  st_regs hs

theorem sem_afc_hl (cfg : Cfg) (afc : TblP3) (d : Decoded)
    (hz : zinstrOf (.afc_hl afc) = some d) (s : St μ) (hi : RInv s) :
    Sim.afc_hl cfg afc s = Spec.exec cfg d s := by
  zinv hz
  subst hz
  rinv_setup hi
  have hA := hr.byte 0 (by omega) (by omega) (by omega)
  simp only [sim_handler, Id.run, pure]
  rw [aluc_tbl_spec afc _ _ _ (mod2_range _) hA (hmem.byte _)]
  spec_simp []; idx_simp; rsimp hs; rw [hR1]
  st_regs hs

theorem sem_afc_n (cfg : Cfg) (afc : TblP3) (d : Decoded)
    (hz : zinstrOf (.afc_n afc) = some d) (s : St μ) (hi : RInv s) :
    Sim.afc_n cfg afc s = Spec.exec cfg d s := by
  zinv hz
  subst hz
  rinv_setup hi
  have hA := hr.byte 0 (by omega) (by omega) (by omega)
  simp only [sim_handler, Id.run, pure]
  rw [aluc_tbl_spec afc _ _ _ (mod2_range _) hA (hmem.byte _)]
  spec_simp []; idx_simp; rsimp hs; rw [hR1]
  have e1 : s.pc + 2 - 1 = s.pc + 1 := by omega
  have e2 : s.pc + 1 + 1 = s.pc + 2 := by omega
  simp only [e1, e2]
  st_regs hs

theorem sem_afc_xy (cfg : Cfg) (afc : TblP3) (xyh xyl : Int) (d : Decoded)
    (hz : zinstrOf (.afc_xy afc xyh xyl) = some d) (s : St μ) (hi : RInv s) :
    Sim.afc_xy cfg afc xyh xyl s = Spec.exec cfg d s := by
  zinv hz
  obtain ⟨i, hx, rfl⟩ := hz
  rinv_setup hi
  have hA := hr.byte 0 (by omega) (by omega) (by omega)
  simp only [sim_handler, Id.run, pure]
  rw [aluc_tbl_spec afc _ _ _ (mod2_range _) hA (hmem.byte _)]
  idx_cases hx <;>
    (spec_simp [sgn8_OFFSETS]; idx_simp; rsimp hs; rw [hR2]
     have e : s.pc + 3 - 1 = s.pc + 2 := by omega
     simp only [e]
     st_regs hs)

theorem sem_cf (cfg : Cfg) (cf : TblI2) (d : Decoded)
    (hz : zinstrOf (.cf cf) = some d) (s : St μ) (hi : RInv s) :
    Sim.cf cfg cf s = Spec.exec cfg d s := by
  rinv_setup hi
  have hA := hr.byte 0 (by omega) (by omega) (by omega)
  have hF := hr.byte 1 (by omega) (by omega) (by omega)
  simp only [sim_handler, Id.run, pure]
  cases cf <;> (zinv hz; subst hz; simp only [TblI2.get])
  · rw [(CCF_spec _ _ hF hA).1]
    spec_simp [accSpec]; idx_simp; rsimp hs; rw [hR1]
    have : ((rget s.reg 0).toNat : Int) = rget s.reg 0 := by unfold Byte at hA; omega
    st_regs hs
  · rw [(SCF_spec _ _ hF hA).1]
    spec_simp [accSpec]; idx_simp; rsimp hs; rw [hR1]
    have : ((rget s.reg 0).toNat : Int) = rget s.reg 0 := by unfold Byte at hA; omega
    st_regs hs

theorem sem_neg (cfg : Cfg) (neg : TblP1) (d : Decoded)
    (hz : zinstrOf (.neg neg) = some d) (hwf : instrWf (.neg neg) = true) (s : St μ) (hi : RInv s) :
    Sim.neg cfg neg s = Spec.exec cfg d s := by
  zinv hz
  subst hz
  simp only [instrWf, decide_eq_true_eq] at hwf
  subst hwf
  rinv_setup hi
  have hA := hr.byte 0 (by omega) (by omega) (by omega)
  simp only [sim_handler, Id.run, pure, TblP1.get]
  rw [(NEG_spec _ hA).1]
  spec_simp []; idx_simp; rsimp hs; rw [hR2]
  st_regs hs

end C05
