import SkoolVerif.Proofs.AsmLayoutAsm
/-! Label locations in the assembled skool2asm output vs `BinWriter.address_map` (C04). -/
namespace AsmLayout
open Spec

variable {Op : Type} (size : Op → Nat)

theorem pcAfter_seqBody (xs : List (PIns Op)) : ∀ (pc : Option Nat) (out : List (Nat × Op)) pc' out',
    seqBody size pc out xs = .ok (pc', out') → pcAfter size pc xs = pc' := by
  induction xs with
  | nil => intro pc out pc' out' h; simp only [seqBody, Except.ok.injEq, Prod.mk.injEq] at h; exact h.1
  | cons x xs ih =>
    intro pc out pc' out' h
    simp only [seqBody] at h
    simp only [pcAfter]
    cases hx : x.op with
    | none => simp only [hx] at h; simp only [pcNext]; exact ih _ _ _ _ h
    | some o =>
      simp only [hx] at h
      cases pc with
      | none => simp at h
      | some p =>
        simp only at h
        by_cases hz : size o = 0
        · simp [hz] at h
        · simp only [hz, if_false] at h
          simp only [pcNext]; exact ih _ _ _ _ h

theorem posBody_append (xs : List (PIns Op)) : ∀ (pc : Option Nat) (ys : List (PIns Op)),
    posBody size pc (xs ++ ys) = posBody size pc xs ++ posBody size (pcAfter size pc xs) ys := by
  induction xs with
  | nil => intro pc ys; simp [posBody, pcAfter]
  | cons x xs ih => intro pc ys; simp [posBody, pcAfter, ih]

theorem pcAfter_append (xs : List (PIns Op)) : ∀ (pc : Option Nat) (ys : List (PIns Op)),
    pcAfter size pc (xs ++ ys) = pcAfter size (pcAfter size pc xs) ys := by
  induction xs with
  | nil => intro pc ys; rfl
  | cons x xs ih => intro pc ys; simp [pcAfter, ih]

/-- A successful `seqEntry` is `seqBody` from the entry's start location. -/
theorem seqEntry_entryPc (e : List (PIns Op)) (pc : Option Nat) (out : List (Nat × Op)) pc' out'
    (h : seqEntry size pc out e = .ok (pc', out')) : seqBody size (entryPc pc e) out e = .ok (pc', out') := by
  cases e with
  | nil => simpa [seqEntry, seqBody, entryPc] using h
  | cons x xs =>
    simp only [seqEntry] at h
    simp only [entryPc]
    cases ho : x.org with
    | none => simpa [ho] using h
    | some o =>
      cases o with
      | none => simp [ho] at h
      | some a => simpa [ho] using h

theorem entryPc_append (e : List (PIns Op)) (he : e ≠ []) (ys : List (PIns Op)) (pc : Option Nat) :
    entryPc pc (e ++ ys) = entryPc pc e := by
  cases e with
  | nil => exact absurd rfl he
  | cons x xs => rfl

/-- Start location of the entry that a line opens (the case `p.entry = []` of `seq_line`). -/
theorem entryPc_first (p : ParSt Op) (s : St Op) (pc0 : Option Nat) (out0 : List (Nat × Op)) (l : Line Op)
    (hr : ParRel size pc0 out0 p s) (he : p.entry = []) (a : Nat) (ha : startPc s.porg s.pc l.sa = some a)
    (x : PIns Op) (hx : x.org = insOrg p.org l.sa) (bl : List (Bool × Option Op)) (tl : List (PIns Op)) :
    entryPc pc0 (mkBefore x.org bl ++ [x] ++ tl) = some a := by
  obtain ⟨_, horg, _, _, hs⟩ := hr
  simp only [he, seqEntry, Except.ok.injEq, Prod.mk.injEq] at hs
  have hhead : ∀ (y : PIns Op) (rest : List (PIns Op)), y.org = x.org → entryPc pc0 (y :: rest) = some a := by
    intro y rest hy
    simp only [entryPc, hy, hx, horg]
    cases hp : s.porg with
    | unset => simp only [hp, startPc] at ha; simp [insOrg, hs.1, ha]
    | bare => simp only [hp, startPc] at ha; simp [insOrg, ha]
    | val v => simp only [hp, startPc, Option.some.injEq] at ha; simp [insOrg, ha]
  cases bl with
  | nil => simp only [mkBefore, List.nil_append, List.singleton_append]; exact hhead _ _ rfl
  | cons b bl =>
    obtain ⟨ow, op⟩ := b
    simp only [mkBefore, List.cons_append]
    exact hhead { addr := none, op := op, org := x.org } _ rfl

/-- Every address-map entry is the location of a label: invariant within a block (`done`: the
locations from the previous blocks). -/
def LabRel (done : List (Nat × Nat)) (pc0 : Option Nat) (p : ParSt Op) (s : St Op) : Prop :=
  ∀ q ∈ s.amap, q ∈ done ++ posBody size (entryPc pc0 p.entry) p.entry

theorem mem_setdefault (m : List (Nat × Nat)) (k : Option Nat) (v : Nat) (q : Nat × Nat)
    (h : q ∈ setdefault m k v) : q ∈ m ∨ (k = some q.1 ∧ v = q.2) := by
  cases k with
  | none => exact Or.inl h
  | some k =>
    simp only [setdefault] at h
    split at h
    · exact Or.inl h
    · simp only [List.mem_append, List.mem_singleton] at h
      rcases h with h | h
      · exact Or.inl h
      · subst h; exact Or.inr ⟨rfl, rfl⟩

theorem labItem_spec (done : List (Nat × Nat)) (pc0 : Option Nat) (out0 : List (Nat × Op)) (p : ParSt Op)
    (s s' : St Op) (i : Item Op) (hr : ParRel size pc0 out0 p s) (hl : LabRel size done pc0 p s)
    (h : specItem size s i = some s') :
    ∃ p', parItem size p i = .ok p' ∧ ParRel size pc0 out0 p' s' ∧ LabRel size done pc0 p' s' := by
  cases i with
  | org v =>
    obtain ⟨p', h1, h2⟩ := parItem_spec size pc0 out0 p s s' (.org v) hr h
    refine ⟨p', h1, h2, ?_⟩
    simp only [specItem] at h
    split at h
    · simp at h
    · simp only [Option.some.injEq] at h
      subst h
      cases v <;> (simp only [parItem, Except.ok.injEq] at h1; subst h1; exact hl)
  | remove lo hi =>
    obtain ⟨p', h1, h2⟩ := parItem_spec size pc0 out0 p s s' (.remove lo hi) hr h
    refine ⟨p', h1, h2, ?_⟩
    simp only [specItem, Option.some.injEq] at h
    subst h
    simp only [parItem, Except.ok.injEq] at h1; subst h1; exact hl
  | line l =>
    cases hg : isRemoved s.removed l.sa with
    | true =>
      obtain ⟨p', h1, h2⟩ := parItem_spec size pc0 out0 p s s' (.line l) hr h
      refine ⟨p', h1, h2, ?_⟩
      simp only [specItem, hg, if_true] at h
      split at h
      · rename_i hc
        simp only [Option.some.injEq] at h
        subst h
        simp only [Bool.and_eq_true, beq_iff_eq, List.isEmpty_iff] at hc
        obtain ⟨⟨hsubs, _⟩, _⟩ := hc
        have hc1 : compose ([] : List (SubDir Op)) true = [] := rfl
        have hc2 : compose ([] : List (SubDir Op)) false = [] := rfl
        simp only [parItem, parLine, hsubs, hr.removed, hg, hc1, hc2, parBefore, List.filter_nil, if_true,
          Except.ok.injEq] at h1
        subst h1
        exact hl
      · simp at h
    | false =>
      simp only [specItem, hg, Bool.false_eq_true, if_false] at h
      split at h
      · simp at h
      · rename_i a ha
        split at h
        · simp at h
        · rename_i pc' removed' out' a1 hsl
          simp only [Option.some.injEq] at h
          subst h
          obtain ⟨p', h1, h2, cop, ri, o1, hshape, hbef⟩ :=
            parLine_spec size pc0 out0 p s l hr hg a ha pc' removed' out' a1 hsl
          refine ⟨p', h1, h2, ?_⟩
          intro q hq
          simp only at hq
          rcases mem_setdefault _ _ _ _ hq with hq | ⟨hk, hv⟩
          · -- an old entry: still there, the entry only grew at its end
            have := hl q hq
            simp only [List.mem_append] at this ⊢
            rcases this with h' | h'
            · exact Or.inl h'
            · right
              cases he : p.entry with
              | nil => simp [he, posBody] at h'
              | cons x xs =>
                rw [hshape, he, List.append_assoc, List.append_assoc, posBody_append,
                  entryPc_append (x :: xs) (by simp)]
                rw [he] at h'
                exact List.mem_append_left _ h'
          · -- the new entry: the line's own instruction sits right after the inserted ones
            simp only [List.mem_append]
            right
            rw [hshape]
            have hq' : q = (q.1, q.2) := rfl
            cases he : p.entry with
            | nil =>
              have hpc := entryPc_first size p s pc0 out0 l hr he a ha (PIns.mk l.sa cop (insOrg p.org l.sa)) rfl
                (compose (l.subs.filter (fun s => s.flags.prepend)) false) ri
              simp only [List.isEmpty_nil, if_true, List.nil_append] at hpc ⊢
              rw [hpc, List.append_assoc, posBody_append]
              rw [pcAfter_seqBody size _ _ _ _ _ (hbef _)]
              apply List.mem_append_right
              simp only [List.singleton_append, posBody]
              apply List.mem_append_left
              rw [hk, hq', hv]
              simp [posHere]
            | cons x xs =>
              have hst : s.started = true := by simp [hr.started, he]
              have hu := hr.porg hst
              simp only [hu, startPc] at ha
              have hseq := seqEntry_entryPc size _ _ _ _ _ hr.seq
              rw [he] at hseq
              have hpa := pcAfter_seqBody size _ _ _ _ _ hseq
              simp only [List.isEmpty_cons, Bool.false_eq_true, if_false]
              rw [List.append_assoc, List.append_assoc, posBody_append]
              rw [entryPc_append (x :: xs) (by simp), hpa, ha, posBody_append]
              rw [pcAfter_seqBody size _ _ _ _ _ (hbef _)]
              apply List.mem_append_right
              apply List.mem_append_right
              simp only [List.singleton_append, posBody]
              apply List.mem_append_left
              rw [hk, hq', hv]
              simp [posHere]

theorem labItems_spec (done : List (Nat × Nat)) (pc0 : Option Nat) (out0 : List (Nat × Op)) (is : List (Item Op)) :
    ∀ (p : ParSt Op) (s s' : St Op), ParRel size pc0 out0 p s → LabRel size done pc0 p s →
    specItems size s is = some s' →
    ∃ p', parItems size p is = .ok p' ∧ ParRel size pc0 out0 p' s' ∧ LabRel size done pc0 p' s' := by
  induction is with
  | nil =>
    intro p s s' hr hl h
    simp only [specItems, Option.some.injEq] at h
    subst h
    exact ⟨p, rfl, hr, hl⟩
  | cons i is ih =>
    intro p s s' hr hl h
    simp only [specItems] at h
    split at h
    · simp at h
    · rename_i s1 h1
      obtain ⟨p1, hp1, hr1, hl1⟩ := labItem_spec size done pc0 out0 p s s1 i hr hl h1
      obtain ⟨p', hp', hr', hl'⟩ := ih p1 s1 s' hr1 hl1 h
      exact ⟨p', by simp [parItems, hp1, hp'], hr', hl'⟩

theorem labBlocks_spec (bs : List (Block Op)) : ∀ (s s' : St Op) (done : List (Nat × Nat)),
    (∀ q ∈ s.amap, q ∈ done) → specBlocks size s bs = some s' →
    ∃ es, parBlocks size s.porg bs = .ok es ∧ ∀ q ∈ s'.amap, q ∈ done ++ posWrite size s.pc es := by
  induction bs with
  | nil =>
    intro s s' done hd h
    simp only [specBlocks, Option.some.injEq] at h
    subst h
    exact ⟨[], rfl, by simpa [posWrite] using hd⟩
  | cons b bs ih =>
    intro s s' done hd h
    simp only [specBlocks] at h
    split at h
    · simp at h
    · rename_i s1 h1
      have hr0 : ParRel size s.pc s.out { removed := [], entry := [], org := s.porg }
          { s with removed := [], started := false } := ⟨rfl, rfl, rfl, by simp, rfl⟩
      have hl0 : LabRel size done s.pc { removed := [], entry := [], org := s.porg }
          { s with removed := [], started := false } := by
        intro q hq; simp only [posBody, List.append_nil]; exact hd q hq
      obtain ⟨p1, hp1, hr1, hl1⟩ := labItems_spec size done s.pc s.out b _ _ s1 hr0 hl0 h1
      obtain ⟨es, hes, hw⟩ := ih s1 s' (done ++ posBody size (entryPc s.pc p1.entry) p1.entry) hl1 h
      rw [← hr1.org] at hes
      refine ⟨p1.entry :: es, by simp [parBlocks, hp1, hes], ?_⟩
      intro q hq
      have := hw q hq
      have hpc : pcAfter size (entryPc s.pc p1.entry) p1.entry = s1.pc :=
        pcAfter_seqBody size _ _ _ _ _ (seqEntry_entryPc size _ _ _ _ _ hr1.seq)
      simp only [posWrite, hpc]
      simpa [List.append_assoc] using this

/-- `List.lookup` finds the value of a key that occurs once. -/
theorem lookup_of_mem_nodup (m : List (Nat × Nat)) (k v : Nat) (hm : (k, v) ∈ m)
    (hn : (m.map (·.1)).Nodup) : m.lookup k = some v := by
  induction m with
  | nil => simp at hm
  | cons x m ih =>
    obtain ⟨xk, xv⟩ := x
    simp only [List.map_cons, List.nodup_cons] at hn
    simp only [List.mem_cons, Prod.mk.injEq] at hm
    rcases hm with ⟨rfl, rfl⟩ | hm
    · simp [List.lookup]
    · have hne : k ≠ xk := by
        intro he; subst he
        exact hn.1 (List.mem_map.mpr ⟨(k, v), hm, rfl⟩)
      simp only [List.lookup]
      have : (k == xk) = false := by simpa using hne
      rw [this]
      exact ih hm hn.2

theorem mem_of_lookup (m : List (Nat × Nat)) (k v : Nat) (h : m.lookup k = some v) : (k, v) ∈ m := by
  induction m with
  | nil => simp [List.lookup] at h
  | cons x m ih =>
    obtain ⟨xk, xv⟩ := x
    simp only [List.lookup] at h
    cases hk : (k == xk) with
    | true =>
      simp only [hk, Option.some.injEq] at h
      have : k = xk := by simpa using hk
      subst this; subst h; simp
    | false =>
      simp only [hk] at h
      exact List.mem_cons_of_mem _ (ih h)

end AsmLayout
