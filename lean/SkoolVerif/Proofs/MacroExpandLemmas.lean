import SkoolVerif.Model.MacroExpand
/-! Helper lemmas for C17: the marker search and the outer loop of `expand_macros`. -/
namespace MacroExpandLemmas
open MacroText MacroExpr MacroArgs MacroOps MacroExpand

theorem takeWhile_append_dropWhile' (p : Char → Bool) (l : Text) : l.takeWhile p ++ l.dropWhile p = l :=
  List.takeWhile_append_dropWhile

theorem findMarker_sound : ∀ (t b n a : Text), findMarker t = some (b, n, a) →
    t = b ++ '#' :: n ++ a ∧ n ≠ [] ∧ (∀ c ∈ n, isUpper c = true) ∧ (∀ c, a.head? = some c → isUpper c = false) := by
  intro t
  induction t with
  | nil => intro b n a h; simp [findMarker] at h
  | cons c t ih =>
    intro b n a h
    unfold findMarker at h
    split at h
    · rename_i hc
      simp only [Bool.and_eq_true, decide_eq_true_eq] at hc
      obtain ⟨rfl, hlen⟩ := hc
      simp only [Option.some.injEq, Prod.mk.injEq] at h
      obtain ⟨rfl, rfl, rfl⟩ := h
      refine ⟨by simp, ?_, ?_, ?_⟩
      · intro hnil; rw [hnil] at hlen; simp at hlen
      · intro x hx
        have hall : (List.takeWhile isUpper t).all isUpper = true := List.all_takeWhile
        exact List.all_eq_true.mp hall x hx
      · intro x hx
        cases hd : List.dropWhile isUpper t with
        | nil => rw [hd] at hx; simp at hx
        | cons y ys =>
          rw [hd] at hx
          simp only [List.head?_cons, Option.some.injEq] at hx
          subst hx
          have := List.head_dropWhile_not isUpper (l := t) (by rw [hd]; simp)
          simpa [hd] using this
    · cases hf : findMarker t with
      | none => rw [hf] at h; simp at h
      | some r =>
        obtain ⟨b', n', a'⟩ := r
        rw [hf] at h
        simp only [Option.some.injEq, Prod.mk.injEq] at h
        obtain ⟨rfl, rfl, rfl⟩ := h
        obtain ⟨h1, h2, h3, h4⟩ := ih b' n' a' hf
        exact ⟨by rw [h1]; simp, h2, h3, h4⟩

/-- The match returned is the leftmost `#` followed by an upper-case letter. -/
theorem findMarker_leftmost : ∀ (t b n a : Text), findMarker t = some (b, n, a) →
    ∀ (b1 : Text) (c : Char) (r : Text), t = b1 ++ '#' :: c :: r → isUpper c = true → b.length ≤ b1.length := by
  intro t
  induction t with
  | nil => intro b n a h; simp [findMarker] at h
  | cons x t ih =>
    intro b n a h b1 c r ht hc
    unfold findMarker at h
    split at h
    · simp only [Option.some.injEq, Prod.mk.injEq] at h
      obtain ⟨rfl, _, _⟩ := h
      simp
    · rename_i hx
      cases hf : findMarker t with
      | none => rw [hf] at h; simp at h
      | some q =>
        obtain ⟨b', n', a'⟩ := q
        rw [hf] at h
        simp only [Option.some.injEq, Prod.mk.injEq] at h
        obtain ⟨rfl, rfl, rfl⟩ := h
        cases b1 with
        | nil =>
          -- the text itself starts with `#c`: contradiction with the failed test at the head
          simp only [List.nil_append, List.cons.injEq] at ht
          obtain ⟨rfl, rfl⟩ := ht
          exfalso; apply hx
          simp [hc]
        | cons y b1' =>
          simp only [List.cons_append, List.cons.injEq] at ht
          obtain ⟨_, ht'⟩ := ht
          have := ih b' n' a' hf b1' c r ht' hc
          simp; omega

theorem findMarker_none : ∀ (t : Text), findMarker t = none →
    ∀ (b1 : Text) (c : Char) (r : Text), t = b1 ++ '#' :: c :: r → isUpper c = false := by
  intro t
  induction t with
  | nil => intro _ b1 c r ht; simp at ht
  | cons x t ih =>
    intro h b1 c r ht
    unfold findMarker at h
    split at h
    · simp at h
    · rename_i hx
      cases hf : findMarker t with
      | some q => obtain ⟨b', n', a'⟩ := q; rw [hf] at h; simp at h
      | none =>
        cases b1 with
        | nil =>
          simp only [List.nil_append, List.cons.injEq] at ht
          obtain ⟨rfl, rfl⟩ := ht
          cases hc : isUpper c with
          | false => rfl
          | true => exfalso; apply hx; simp [hc]
        | cons y b1' =>
          simp only [List.cons_append, List.cons.injEq] at ht
          exact ih hf b1' c r ht.2

/-- A text without `#` has no marker. -/
theorem findMarker_no_hash : ∀ (t : Text), '#' ∉ t → findMarker t = none := by
  intro t
  induction t with
  | nil => intro _; rfl
  | cons x t ih =>
    intro h
    simp only [List.mem_cons, not_or] at h
    unfold findMarker
    have hx : ¬ (x = '#') := fun e => h.1 e.symm
    simp [hx, ih h.2]

theorem findMarker_cons_ne (x : Char) (t : Text) (hx : x ≠ '#') :
    findMarker (x :: t) = (findMarker t).map (fun r => (x :: r.1, r.2.1, r.2.2)) := by
  rw [findMarker]
  simp only [hx, decide_false, Bool.false_and, Bool.false_eq_true, ↓reduceIte]
  cases findMarker t with
  | none => rfl
  | some r => obtain ⟨b, n, a⟩ := r; rfl

/-- Text without `#` in front of `t` only shifts the match. -/
theorem findMarker_prefix : ∀ (pre t : Text), '#' ∉ pre →
    findMarker (pre ++ t) = (findMarker t).map (fun r => (pre ++ r.1, r.2.1, r.2.2)) := by
  intro pre
  induction pre with
  | nil =>
    intro t _
    cases h : findMarker t with
    | none => simp [h]
    | some r => simp [h]
  | cons x pre ih =>
    intro t h
    simp only [List.mem_cons, not_or] at h
    have hx : x ≠ '#' := fun e => h.1 e.symm
    rw [List.cons_append, findMarker_cons_ne _ _ hx, ih t h.2]
    cases findMarker t with
    | none => rfl
    | some r => obtain ⟨b, n, a⟩ := r; rfl

/-- Prepend `p` to the output text of a result. -/
def mapOut (p : Text) : M (St × Text) → M (St × Text)
  | .ok (s, o) => .ok (s, p ++ o)
  | .error e => .error e

/-- The accumulator of the loop is only ever extended on the right. -/
theorem expandLoop_acc : ∀ (n : Nat) (st : St) (p acc rest : Text),
    expandLoop n st (p ++ acc) rest = mapOut p (expandLoop n st acc rest) := by
  intro n
  induction n with
  | zero => intro st p acc rest; simp [expandLoop, mapOut]
  | succ n ih =>
    intro st p acc rest
    unfold expandLoop
    cases hf : findMarker rest with
    | none => simp [mapOut]
    | some r =>
      obtain ⟨before, name, after⟩ := r
      simp only
      split
      · split <;> simp [mapOut]
      · cases hp : preExpand (fun s t => expandLoop n s [] t) n st after with
        | error e => simp [mapOut]
        | ok r1 =>
          obtain ⟨st1, after1⟩ := r1
          simp only
          cases hm : runMacro (writerExpand fun s t => expandLoop n s [] t) n name st1 after1 with
          | error e => simp [mapOut]
          | ok r2 =>
            obtain ⟨st2, rep, remaining, isRaw⟩ := r2
            simp only
            split
            · rw [show p ++ acc ++ before ++ rep = p ++ (acc ++ before ++ rep) by simp, ih]
            · rw [show p ++ acc ++ before = p ++ (acc ++ before) by simp, ih]

/-- Text without `#` in front of the scan position goes to the output unchanged. -/
theorem expandLoop_prefix (n : Nat) (st : St) (acc pre t : Text) (h : '#' ∉ pre) :
    expandLoop n st acc (pre ++ t) = expandLoop n st (acc ++ pre) t := by
  cases n with
  | zero => simp [expandLoop]
  | succ n =>
    unfold expandLoop
    rw [findMarker_prefix pre t h]
    cases findMarker t with
    | none => simp
    | some r =>
      obtain ⟨before, name, after⟩ := r
      simp only [Option.map_some, List.append_assoc]

end MacroExpandLemmas
