import SkoolVerif.Proofs.MacroOpsLemmas
import SkoolVerif.Model.MacroExpand
/-! Helper lemmas for C17: what the macro parsers of `MacroExpand` return, in
terms of the semantic cores (`fmtInt`, `forJoin`, `Fields.set`). -/
namespace MacroSpecLemmas
open MacroText MacroExpr MacroArgs MacroOps MacroExpand MacroOpsLemmas

theorem format_single_field (f : Fields) (name : Text) (v : Int)
    (hne : name ≠ []) (hsp : name.any fieldSpecial = false) (hcl : '}' ∉ name) (hdig : name.all isDigit = false)
    (hget : f.get name = some (.int v)) :
    MacroArgs.format f ('{' :: name ++ ['}']) = .ok (intStr v) := by
  unfold MacroArgs.format
  cases name with
  | nil => exact absurd rfl hne
  | cons c t =>
    have hc : c ≠ '{' := by
      intro e; subst e
      simp [fieldSpecial] at hsp
    have hfn := fieldName_closing (c :: t) [] hcl
    simp only [List.cons_append, List.length_cons]
    rw [formatFields]
    · simp only [List.cons_append] at hfn
      simp only [hfn, hsp, hdig, hget]
      simp [formatFields, bind, Except.bind, pure, Except.pure]
    · intro t' h; simp only [List.cons.injEq] at h; exact hc h.1

theorem flag_zero (bit : Int) : flag 0 bit = false := by
  unfold flag pyAnd
  cases bit <;> simp [MacroExpr.ldiff]

theorem fmtChecked_ok (b : Nat) (lc : Bool) (w v : Int) (h0 : 0 ≤ w) (h1 : w ≤ 2000) :
    fmtChecked b lc w v = .ok (fmtInt b lc w.toNat v) := by
  unfold fmtChecked
  have h0' : ¬ w < 0 := by omega
  have h1' : ¬ w > 2000 := by omega
  simp [h0', h1']

/-- `#EVAL`: the output is the digit rendering of the value. -/
theorem macroEval_ok (exp : Exp) (st st' : St) (rest r : Text) (v b w : Int)
    (hp : parseInts exp getF st rest 3 [some 10, some 1] = .ok (st', [some v, some b, some w], r))
    (hb : b = 2 ∨ b = 10 ∨ b = 16) (h0 : 0 ≤ w) (h1 : w ≤ 2000) :
    macroEval exp st rest = .ok (st', fmtInt b.toNat (b = 16 && st'.case = 1) w.toNat v, r, false) := by
  unfold macroEval
  simp only [hp, bind, Except.bind]
  rcases hb with rfl | rfl | rfl
  · simp [fmtChecked_ok _ _ _ _ h0 h1, pure, Except.pure]
  · simp [fmtChecked_ok _ _ _ _ h0 h1, pure, Except.pure]
  · simp [fmtChecked_ok _ _ _ _ h0 h1, pure, Except.pure]

/-- `#FOR` (flags 0, ASM mode): the output is the join of the substituted bodies. -/
theorem macroFor_ok (exp : Exp) (st st' : St) (rest r r' : Text) (start stop step : Int)
    (var s sep : Text) (fsep : Option Text)
    (hp : parseInts exp getF st rest 4 [some 1, some 0] = .ok (st', [some start, some stop, some step, some 0], r))
    (hs : parseStrings r 4 [some [], none] = .ok ([some var, some s, some sep, fsep], r'))
    (hhtml : st'.html = false) (hstep : step ≠ 0) (hlen : forLen start stop step ≤ 2000) :
    macroFor exp st rest = .ok (st', forJoin ((forRange start stop step).map (fun n => (replace var (intStr n) s, sep))) fsep, r', false) := by
  unfold macroFor
  have hl : ¬ forLen start stop step > 2000 := by omega
  simp [hp, hs, bind, Except.bind, flag_zero, hhtml, hstep, hl, forItems, pure, Except.pure]

/-- `#LET(name=value)` with an integer value binds `name` in `writer.fields`
and leaves every other name alone. -/
theorem macroLet_ok (exp : Exp) (st st1 : St) (rest r stmt name value v v' : Text) (n : Int)
    (hps : parseString1 rest = .ok (stmt, r))
    (hpart : partitionChar '=' stmt = (name, true, value))
    (hne : name ≠ []) (hplain : (isDictName name || reservedName name || name.contains '\n') = false)
    (hint : name.getLast? ≠ some '$')
    (hexp : exp st value = .ok (st1, v)) (hfmt : MacroArgs.format st1.fields v = .ok v') (hev : evaluate v' = .ok n) :
    macroLet exp st rest = .ok ({ st1 with fields := st1.fields.set name (.int n) }, [], r, false) := by
  unfold macroLet
  have hne' : name.isEmpty = false := by cases name <;> simp_all
  simp only [Bool.or_eq_false_iff] at hplain
  obtain ⟨⟨hd, hr⟩, hn⟩ := hplain
  have hn' : ¬ '\n' ∈ name := by simpa using hn
  simp [hps, hpart, hne', hd, hr, hn', hexp, hfmt, hint, hev, bind, Except.bind, pure, Except.pure]

end MacroSpecLemmas
