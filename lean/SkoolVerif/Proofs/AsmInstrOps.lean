import SkoolVerif.Model.AsmInstr
import SkoolVerif.Proofs.C02Jump
/-!
Operand classes of a rendered instruction, as the assembler's string tests see them.

A rendered operand that contains a number is one of three shapes: the number alone (`N`), the number in
brackets (`(N)`) or an index operand (`(IX+N)`, `(IY-N)`).  `sig` separates these shapes from each other
and from every register / condition name by looking at the first two characters only, so that each string
test of `Assembler` (`op in REG`, `op == 'A'`, `op.startswith('(I')`, …) on such an operand is decided by a
one-line lemma; the operand-level theorems of C02 (`parseExpr_numStr`, `parseOffset_indexOffset`,
`addressOffsetV_jrTarget`) supply what the parsers return.
-/
namespace AsmInstrL
open OpText AsmEval AsmInstr C02L

/-- first character of a rendered number: `"`, `$`, `%`, `-` or a decimal digit -/
def numStart (c : Nat) : Bool := c == 34 || c == 36 || c == 37 || c == 45 || (decide (48 ≤ c) && decide (c ≤ 57))

/-- coarse shape of an operand: 0 = starts like a number, 1 = `(` + number, 2 = `(I…`, 3 = anything else -/
def sig : Txt → Nat
  | [] => 3
  | c :: r =>
    if numStart c then 0
    else if c = 40 then
      match r with
      | [] => 3
      | d :: _ => if numStart d then 1 else if d = 73 then 2 else 3
    else 3

theorem ne_of_sig {x y : Txt} (h : sig x ≠ sig y) : x ≠ y := fun e => h (e ▸ rfl)

/-! ### what the string tests answer for an operand of a given shape -/

theorem isIn_sig (l : List Txt) (x : Txt) (k : Nat) (hx : sig x = k) (hl : l.all (fun y => sig y != k) = true) :
    isIn l x = false := by
  induction l with
  | nil => rfl
  | cons y ys ih =>
    simp only [List.all_cons, Bool.and_eq_true, bne_iff_ne, ne_eq] at hl
    simp only [isIn, ih hl.2, Bool.or_false, decide_eq_false_iff_not]
    exact ne_of_sig (by rw [hx]; exact fun e => hl.1 e.symm)

theorem indexIn_sig (l : List Txt) (x : Txt) (k : Nat) (hx : sig x = k) (hl : l.all (fun y => sig y != k) = true) :
    indexIn l x = .valErr := by
  induction l with
  | nil => rfl
  | cons y ys ih =>
    simp only [List.all_cons, Bool.and_eq_true, bne_iff_ne, ne_eq] at hl
    have : x ≠ y := ne_of_sig (by rw [hx]; exact fun e => hl.1 e.symm)
    simp [indexIn, this, ih hl.2, R.bind]

theorem eq_sig (x y : Txt) (k : Nat) (hx : sig x = k) (hy : (sig y != k) = true) : (x = y) = False := by
  simp only [bne_iff_ne, ne_eq] at hy
  exact eq_false (ne_of_sig (by rw [hx]; exact fun e => hy e.symm))

theorem sig_cases (x : Txt) :
    (sig x = 0 → ∃ c r, x = c :: r ∧ numStart c = true) ∧
    (sig x = 1 → ∃ d r, x = 40 :: d :: r ∧ numStart d = true) ∧
    (sig x = 2 → ∃ r, x = 40 :: 73 :: r) := by
  match x with
  | [] => simp [sig]
  | c :: r =>
    by_cases hc : numStart c = true
    · simp [sig, hc]
    · by_cases h40 : c = 40
      · subst h40
        match r with
        | [] => simp [sig, hc]
        | d :: r' =>
          by_cases hd : numStart d = true
          · simp [sig, hc, hd]
          · by_cases h73 : d = 73
            · subst h73; simp [sig, hc, hd]
            · simp [sig, hc, hd, h73]
      · simp [sig, hc, h40]

theorem sw40_sig0 (x : Txt) (hx : sig x = 0) : startsWith [40] x = false := by
  obtain ⟨c, r, rfl, hc⟩ := (sig_cases x).1 hx
  have : c ≠ 40 := by intro e; subst e; simp [numStart] at hc
  simp [startsWith, List.isPrefixOf, Ne.symm this]

theorem sw4073_sig0 (x : Txt) (hx : sig x = 0) : startsWith [40, 73] x = false := by
  obtain ⟨c, r, rfl, hc⟩ := (sig_cases x).1 hx
  have : c ≠ 40 := by intro e; subst e; simp [numStart] at hc
  simp [startsWith, List.isPrefixOf, Ne.symm this]

theorem sw40_sig1 (x : Txt) (hx : sig x = 1) : startsWith [40] x = true := by
  obtain ⟨d, r, rfl, _⟩ := (sig_cases x).2.1 hx
  simp [startsWith, List.isPrefixOf]

theorem sw4073_sig1 (x : Txt) (hx : sig x = 1) : startsWith [40, 73] x = false := by
  obtain ⟨d, r, rfl, hd⟩ := (sig_cases x).2.1 hx
  have : d ≠ 73 := by intro e; subst e; simp [numStart] at hd
  simp [startsWith, List.isPrefixOf, Ne.symm this]

theorem sw4073_sig2 (x : Txt) (hx : sig x = 2) : startsWith [40, 73] x = true := by
  obtain ⟨r, rfl⟩ := (sig_cases x).2.2 hx
  simp [startsWith, List.isPrefixOf]

/-! ### rendered numbers start like numbers -/

theorem fmtInt_head (b : Nat) (hb : b = 2 ∨ b = 10) (w : Nat) (up : Bool) (v : Int) :
    ∃ c r, fmtInt b w up v = c :: r ∧ numStart c = true := by
  unfold fmtInt
  split
  · exact ⟨45, _, rfl, by decide⟩
  · have hne := padLeft_ne_nil w (toDigits b v.natAbs) (toDigits_ne_nil b v.natAbs)
    have hlt := padLeft_lt b w v.natAbs (by omega)
    cases hp : padLeft w (toDigits b v.natAbs) with
    | nil => exact absurd hp hne
    | cons d ds =>
      refine ⟨digitChar up d, ds.map (digitChar up), by simp, ?_⟩
      have hd : d < b := hlt d (by simp [hp])
      have : d < 10 := by omega
      rw [digitChar_dec up d this]
      simp [numStart]; omega

theorem fmtNum_numStart (cfg : Cfg) (base : Base) (word : Bool) (v : Int) :
    ∃ c r, fmtNum cfg base word v = c :: r ∧ numStart c = true := by
  cases base <;> cases hh : cfg.hex <;> simp only [fmtNum, hexFmt, hh, if_true, if_false, Bool.false_eq_true] <;>
    first
      | exact ⟨_, _, rfl, by decide⟩
      | exact fmtInt_head 10 (Or.inr rfl) _ _ _

theorem numStr_numStart (cfg : Cfg) (v nb : Nat) (base : Base) :
    ∃ c r, numStr cfg v nb base = c :: r ∧ numStart c = true := by
  have hnc : ∀ v nb base, ∃ c r, numStrNC cfg v nb base = c :: r ∧ numStart c = true := by
    intro v nb base; unfold numStrNC; exact fmtNum_numStart _ _ _ _
  unfold numStr
  split
  · split
    · simp only []
      split <;> exact ⟨34, _, rfl, by decide⟩
    · exact hnc _ _ _
  · exact hnc _ _ _

theorem sig_numStr (cfg : Cfg) (v nb : Nat) (base : Base) : sig (numStr cfg v nb base) = 0 := by
  obtain ⟨c, r, h, hc⟩ := numStr_numStart cfg v nb base
  rw [h]; simp [sig, hc]

theorem sig_paren_numStr (cfg : Cfg) (v nb : Nat) (base : Base) (post : Txt) :
    sig (40 :: numStr cfg v nb base ++ post) = 1 := by
  obtain ⟨c, r, h, hc⟩ := numStr_numStart cfg v nb base
  rw [h]
  simp only [sig, List.cons_append, hc, if_true]
  rfl

theorem numStr_head40 (cfg : Cfg) (v nb : Nat) (base : Base) : (numStr cfg v nb base).head? ≠ some 40 := by
  obtain ⟨c, r, h, hc⟩ := numStr_numStart cfg v nb base
  rw [h]
  intro e
  simp only [List.head?_cons, Option.some.injEq] at e
  subst e
  simp [numStart] at hc

/-! ### what the parsers return on rendered numbers -/

/-- `_parse_expr(N)` for any limit and `non_neg`, from the value `eval_int` gives -/
theorem parseExpr_of_eval' (t : Txt) (limit : Nat) (nn : Bool) (x : Int) (hhead : t.head? ≠ some 40)
    (he : evalInt t = .ok x) (habs : x.natAbs < limit) (hnn : nn = true → 0 ≤ x) :
    parseExpr t limit false nn = .ok (x % (limit : Int)).toNat := by
  have hs : startsWith [40] t = false := by
    cases t with
    | nil => simp [startsWith]
    | cons a as =>
      have : a ≠ 40 := by intro e; subst e; simp at hhead
      simp [startsWith, List.isPrefixOf, Ne.symm this]
  have h1 : ¬ (limit ≤ x.natAbs) := by omega
  have h2 : ¬ (nn = true ∧ x < 0) := by
    intro ⟨h, hx⟩; have := hnn h; omega
  simp [parseExpr, hs, he, R.bind, h1, h2]

/-- a rendered number in brackets: `_parse_expr` strips them (with or without `brackets=True`) -/
theorem parseExpr_paren (t : Txt) (limit : Nat) (br nn : Bool) (hhead : t.head? ≠ some 40) :
    parseExpr (40 :: t ++ [41]) limit br nn = parseExpr t limit false nn := by
  have hs : startsWith [40] t = false := by
    cases t with
    | nil => simp [startsWith]
    | cons a as =>
      have : a ≠ 40 := by intro e; subst e; simp at hhead
      simp [startsWith, List.isPrefixOf, Ne.symm this]
  have h1 : startsWith [40] (40 :: t ++ [41]) = true := by simp [startsWith, List.isPrefixOf]
  have h2 : endsWith 41 (40 :: t ++ [41]) = true := by
    have : (40 :: t ++ [41]) = (40 :: t) ++ [41] := rfl
    rw [endsWith, this, List.getLast?_append]; simp
  have h3 : sliceToLast 1 (40 :: t ++ [41]) = t := by
    have := sliceToLast_wrap [40] t 41
    simpa using this
  simp only [parseExpr, h1, h2, Bool.and_self, Bool.or_true, if_true, h3, hs, Bool.false_and, Bool.not_false,
    Bool.true_or, Bool.false_eq_true, if_false]

/-- the value `eval_int` gives for a rendered number: `v`, or `v - 256^n` in the `m` base -/
theorem evalInt_numStr (cfg : Cfg) (nb : Nat) (hn : nb = 1 ∨ nb = 2) (v : Nat) (hv : v < 256 ^ nb) (base : Base) :
    ∃ x : Int, evalInt (numStr cfg v nb base) = .ok x ∧
      (x = v ∨ (base = .m ∧ v ≠ 0 ∧ x = (v : Int) - (256 ^ nb : Nat))) := by
  by_cases hch : base = .c ∧ v < 256 ∧ isChar (v % 128) = true
  · obtain ⟨rfl, hv256, hic⟩ := hch
    exact ⟨v, (numStr_char_eval cfg v nb hv256 hic).1, Or.inl rfl⟩
  · rw [numStr_nonchar cfg v nb base hch]
    by_cases hm : base = .m ∧ v ≠ 0
    · obtain ⟨rfl, hv0⟩ := hm
      rcases hn with rfl | rfl
      · have hc : ((256 : Int) - (v : Int)) = ((256 - v : Nat) : Int) := by omega
        have he := evalInt_fmtNum cfg .m (decide (((256 - v : Nat) : Int) > 255) || decide (1 > 1)) (256 - v)
        refine ⟨_, ?_, Or.inr ⟨rfl, hv0, rfl⟩⟩
        simp only [numStrNC, hv0, ne_eq, not_false_eq_true, and_self, if_true, hc, reduceCtorEq, if_false]
        rw [he]
        have e : -((256 - v : Nat) : Int) = (v : Int) - ((256 ^ 1 : Nat) : Int) := by
          simp only [Nat.pow_one] at hv ⊢; omega
        simp only [if_true, e]
      · have hc : ((65536 : Int) - (v : Int)) = ((65536 - v : Nat) : Int) := by omega
        have he := evalInt_fmtNum cfg .m (decide (((65536 - v : Nat) : Int) > 255) || decide (2 > 1)) (65536 - v)
        refine ⟨_, ?_, Or.inr ⟨rfl, hv0, rfl⟩⟩
        simp only [numStrNC, hv0, ne_eq, not_false_eq_true, and_self, if_true,
          show ((2 : Nat) = 1) = False by simp, if_false, hc, reduceCtorEq]
        rw [he]
        have e : -((65536 - v : Nat) : Int) = (v : Int) - ((256 ^ 2 : Nat) : Int) := by
          have : (256 : Nat) ^ 2 = 65536 := by decide
          rw [this] at hv ⊢; omega
        simp only [if_true, e]
    · have he := evalInt_fmtNum cfg (if base = .c then .n else base) (decide ((v : Int) > 255) || decide (nb > 1)) v
      have hm' : ¬ ((if base = .c then Base.n else base) = .m ∧ v ≠ 0) := by
        intro ⟨h1, h2⟩
        apply hm
        refine ⟨?_, h2⟩
        by_cases hc : base = .c
        · simp [hc] at h1
        · simpa [hc] using h1
      refine ⟨v, ?_, Or.inl rfl⟩
      simp only [numStrNC, hm', if_false]
      rw [he]
      by_cases hb : (if base = .c then Base.n else base) = .m
      · have hv0 : v = 0 := by
          by_cases h : v = 0
          · exact h
          · exact absurd ⟨hb, h⟩ hm'
        subst hv0; simp [hb]
      · simp [hb]

/-- `_parse_expr(N, limit, non_neg=True)` on a rendered number below the limit, base not `m` -/
theorem parseExpr_numStr_nn (cfg : Cfg) (nb : Nat) (hn : nb = 1 ∨ nb = 2) (v limit : Nat) (hv : v < 256 ^ nb)
    (hl : v < limit) (base : Base) (hb : base ≠ .m) (nn : Bool) :
    parseExpr (numStr cfg v nb base) limit false nn = .ok v := by
  obtain ⟨x, he, hx⟩ := evalInt_numStr cfg nb hn v hv base
  have hx' : x = v := by
    rcases hx with h | ⟨h, _, _⟩
    · exact h
    · exact absurd h hb
  subst hx'
  rw [parseExpr_of_eval' _ limit nn _ (numStr_head40 cfg v nb base) he (by simpa using hl) (by intro _; omega)]
  have : (v : Int) % (limit : Int) = v := Int.emod_eq_of_lt (by omega) (by exact_mod_cast hl)
  rw [this]; simp

end AsmInstrL
