import SkoolVerif.Proofs.SnaCtlNoMap
/-!
The well-formedness invariant `Inv` of a directive dict, the two mutation primitives that preserve
it (`dset` strictly inside the range, `ddel` of an interior key), and the post-passes of the
no-code-map generator.
-/
namespace SnaCtl

/-- A directive dict is well formed for `[start, end_]`: strictly increasing keys, a directive at
`start`, the terminator `i` at `end_`, every key inside `[start, end_]`, no other `i`. -/
structure Inv (start end_ : Nat) (d : Dict) : Prop where
  sorted : Sorted d
  has_start : start ∈ keys d
  term : dget d end_ = some .i
  bounds : ∀ k ∈ keys d, start ≤ k ∧ k ≤ end_
  inner : ∀ k, dget d k = some .i → k = end_

theorem mem_keys_of_mem {d : Dict} {k : Nat} {v : Ctl} (h : (k, v) ∈ d) : k ∈ keys d := by
  simp [keys]; exact ⟨v, h⟩

theorem dget_of_mem {d : Dict} (hs : Sorted d) {k : Nat} {v : Ctl} (h : (k, v) ∈ d) : dget d k = some v := by
  induction d with
  | nil => simp at h
  | cons hd r ih =>
    obtain ⟨hk, hv⟩ := hd
    rw [sorted_cons] at hs
    simp at h
    rcases h with ⟨rfl, rfl⟩ | h
    · simp [dget]
    · have := hs.1 k (mem_keys_of_mem h)
      rw [dget, if_neg (by omega)]
      exact ih hs.2 h

theorem mem_of_dget {d : Dict} {k : Nat} {v : Ctl} (h : dget d k = some v) : (k, v) ∈ d := by
  induction d with
  | nil => simp [dget] at h
  | cons hd r ih =>
    obtain ⟨hk, hv⟩ := hd
    rw [dget] at h
    split at h
    · simp at h; subst_vars; simp
    · simp; right; exact ih h

theorem inv_dset {start end_ : Nat} {d : Dict} (h : Inv start end_ d) {k : Nat} {v : Ctl}
    (h1 : start ≤ k) (h2 : k < end_) (hv : v ≠ .i) : Inv start end_ (dset d k v) := by
  constructor
  · exact sorted_dset h.sorted k v
  · rw [mem_keys_dset]; exact Or.inr h.has_start
  · rw [dget_dset_ne _ _ (by omega)]; exact h.term
  · intro k' hk'
    rw [mem_keys_dset] at hk'
    rcases hk' with rfl | hk'
    · omega
    · exact h.bounds k' hk'
  · intro k' hk'
    by_cases hkk : k' = k
    · subst hkk; rw [dget_dset_eq] at hk'; simp at hk'; exact absurd hk' hv
    · rw [dget_dset_ne _ _ hkk] at hk'; exact h.inner k' hk'

theorem inv_ddel {start end_ : Nat} {d : Dict} (h : Inv start end_ d) {k : Nat}
    (h1 : k ≠ start) (h2 : k ≠ end_) : Inv start end_ (ddel d k) := by
  constructor
  · exact sorted_ddel h.sorted k
  · rw [mem_keys_ddel h.sorted]; exact ⟨fun e => h1 e.symm, h.has_start⟩
  · rw [dget_ddel_ne _ (fun e => h2 e.symm)]; exact h.term
  · intro k' hk'
    rw [mem_keys_ddel h.sorted] at hk'
    exact h.bounds k' hk'.2
  · intro k' hk'
    by_cases hkk : k' = k
    · subst hkk; rw [dget_ddel_eq h.sorted] at hk'; simp at hk'
    · rw [dget_ddel_ne _ hkk] at hk'; exact h.inner k' hk'

/-- a key whose directive is not `i` lies strictly before `end_` -/
theorem inv_lt_end {start end_ : Nat} {d : Dict} (h : Inv start end_ d) {k : Nat} {v : Ctl}
    (hg : dget d k = some v) (hv : v ≠ .i) : start ≤ k ∧ k < end_ := by
  have hk : k ∈ keys d := (dget_isSome_iff d k).mp ⟨v, hg⟩
  have hb := h.bounds k hk
  refine ⟨hb.1, ?_⟩
  rcases Nat.lt_or_ge k end_ with hlt | hge
  · exact hlt
  · have : k = end_ := by omega
    subst this
    rw [h.term] at hg
    simp at hg
    exact absurd hg.symm hv

theorem foldl_inv {β : Type} {start end_ : Nat} (f : Dict → β → Dict) (P : β → Prop)
    (hf : ∀ d x, Inv start end_ d → P x → Inv start end_ (f d x)) :
    ∀ (l : List β) (d : Dict), Inv start end_ d → (∀ x ∈ l, P x) → Inv start end_ (l.foldl f d) := by
  intro l
  induction l with
  | nil => intro d h _; exact h
  | cons x r ih =>
    intro d h hp
    exact ih _ (hf d x h (hp x (by simp))) (fun y hy => hp y (by simp [hy]))

theorem pairs_mem {ks : List Nat} (hs : ks.Pairwise (· < ·)) {a b : Nat} (h : (a, b) ∈ pairs ks) :
    a ∈ ks ∧ b ∈ ks ∧ a < b := by
  induction ks with
  | nil => simp [pairs] at h
  | cons x r ih =>
    cases r with
    | nil => simp [pairs] at h
    | cons y r' =>
      rw [List.pairwise_cons] at hs
      simp only [pairs, List.mem_cons] at h
      rcases h with h | h
      · simp at h; obtain ⟨rfl, rfl⟩ := h
        exact ⟨by simp, by simp, hs.1 b (by simp)⟩
      · have := ih hs.2 h
        exact ⟨by simp [this.1], by simp [this.2.1], this.2.2⟩

/-- a consecutive key pair of a well-formed dict lies inside the range -/
theorem inv_pairs {start end_ : Nat} {d : Dict} (h : Inv start end_ d) {a b : Nat}
    (hp : (a, b) ∈ pairs (keys d)) : start ≤ a ∧ a < b ∧ b ≤ end_ := by
  have := pairs_mem h.sorted hp
  exact ⟨(h.bounds a this.1).1, this.2.2, (h.bounds b this.2.1).2⟩

theorem firstNonzero_spec (mem : Mem) : ∀ (n a x : Nat), firstNonzero mem a n = some x →
    a ≤ x ∧ x < a + n ∧ mem x ≠ 0 ∧ ∀ y, a ≤ y → y < x → mem y = 0 := by
  intro n
  induction n with
  | zero => intro a x h; simp [firstNonzero] at h
  | succ n ih =>
    intro a x h
    rw [firstNonzero] at h
    split at h
    · simp at h; subst h
      exact ⟨Nat.le_refl _, by omega, by assumption, fun y h1 h2 => by omega⟩
    · have := ih (a + 1) x h
      refine ⟨by omega, by omega, this.2.2.1, ?_⟩
      intro y h1 h2
      rcases Nat.eq_or_lt_of_le h1 with rfl | hlt
      · rename_i hz; simpa using hz
      · exact this.2.2.2 y (by omega) h2

theorem firstNonzero_none (mem : Mem) : ∀ (n a : Nat), firstNonzero mem a n = none →
    ∀ y, a ≤ y → y < a + n → mem y = 0 := by
  intro n
  induction n with
  | zero => intro a _ y h1 h2; omega
  | succ n ih =>
    intro a h y h1 h2
    rw [firstNonzero] at h
    split at h
    · simp at h
    · rcases Nat.eq_or_lt_of_le h1 with rfl | hlt
      · rename_i hz; simpa using hz
      · exact ih (a + 1) h y (by omega) (by omega)

/-! ### zero marking -/

theorem markZeroBlock_inv {start end_ : Nat} (mem : Mem) (d : Dict) (se : Nat × Nat)
    (h : Inv start end_ d) (hp : start ≤ se.1 ∧ se.1 < se.2 ∧ se.2 ≤ end_) :
    Inv start end_ (markZeroBlock mem d se) := by
  unfold markZeroBlock
  split
  · split
    · rename_i a ha
      have := firstNonzero_spec mem _ _ _ ha
      exact inv_dset (inv_dset h hp.1 (by omega) (by simp)) (by omega) (by omega) (by simp)
    · exact inv_dset h hp.1 (by omega) (by simp)
  · split
    · exact inv_dset h hp.1 (by omega) (by simp)
    · exact h

theorem markZero_inv {start end_ : Nat} (mem : Mem) {d : Dict} (h : Inv start end_ d) :
    Inv start end_ (markZero mem d) := by
  unfold markZero
  exact foldl_inv (markZeroBlock mem) (fun se => start ≤ se.1 ∧ se.1 < se.2 ∧ se.2 ≤ end_)
    (markZeroBlock_inv mem) _ d h (fun se hse => inv_pairs h (a := se.1) (b := se.2) hse)

/-! ### joining adjacent data / zero blocks -/

theorem isBS_ne_i {v : Ctl} (h : isBS v = true) : v ≠ .i := by
  cases v <;> simp [isBS] at h ⊢

theorem joinFold_inv {start end_ : Nat} {d0 : Dict} (h0 : Inv start end_ d0) :
    ∀ (r : List (Nat × Ctl)) (st : Dict × Nat × Ctl),
      Inv start end_ st.1 → (st.2.1, st.2.2) ∈ d0 → (∀ kv ∈ r, kv ∈ d0 ∧ start < kv.1) →
      Inv start end_ (r.foldl joinStep st).1 := by
  intro r
  induction r with
  | nil => intro st h _ _; exact h
  | cons kv r ih =>
    intro st h hm hr
    simp only [List.foldl_cons]
    have hkv := hr kv (by simp)
    apply ih
    · unfold joinStep
      split
      · rename_i hc
        have hp := inv_lt_end h0 (dget_of_mem h0.sorted hm) (isBS_ne_i hc.2)
        have hq := inv_lt_end h0 (dget_of_mem h0.sorted hkv.1) (isBS_ne_i hc.1)
        exact inv_ddel (inv_dset h hp.1 hp.2 (by simp)) (by omega) (by omega)
      · exact h
    · unfold joinStep
      split
      · exact hm
      · exact hkv.1
    · intro kv' hkv'; exact hr kv' (by simp [hkv'])

theorem joinBS_inv {start end_ : Nat} {d : Dict} (h : Inv start end_ d) : Inv start end_ (joinBS d) := by
  unfold joinBS
  cases hd : d with
  | nil => rw [hd] at h; exact h
  | cons x r =>
    obtain ⟨k0, c0⟩ := x
    simp only
    rw [← hd]
    apply joinFold_inv h r (d, k0, c0) h (by rw [hd]; simp)
    intro kv hkv
    have hs := h.sorted
    rw [hd, sorted_cons] at hs
    refine ⟨by rw [hd]; simp [hkv], ?_⟩
    have h1 := hs.1 kv.1 (mem_keys_of_mem (v := kv.2) hkv)
    have h2 := (h.bounds k0 (by rw [hd]; simp)).1
    omega

/-! ### text -/

theorem textScan_range (cfg : Cfg) (mem : Mem) (minLen lo end_ : Nat) :
    ∀ (n a : Nat) (run : Option (Nat × List Nat)) (acc : List (Nat × Nat)),
      a + n = end_ → lo ≤ a → (∀ ts txt, run = some (ts, txt) → lo ≤ ts ∧ ts < a) →
      ∀ p ∈ textScan cfg mem minLen end_ n a run acc, p ∈ acc ∨ (lo ≤ p.1 ∧ p.1 < p.2 ∧ p.2 ≤ end_) := by
  intro n
  induction n with
  | zero =>
    intro a run acc ha hlo hrun p hp
    unfold textScan at hp
    split at hp
    · rename_i ts txt
      have := hrun ts txt rfl
      split at hp
      · simp at hp
        rcases hp with hp | rfl
        · exact Or.inl hp
        · right; simp; omega
      · exact Or.inl hp
    · exact Or.inl hp
  | succ n ih =>
    intro a run acc ha hlo hrun p hp
    unfold textScan at hp
    split at hp
    · split at hp
      · rename_i ts txt
        have := hrun ts txt rfl
        exact ih (a + 1) _ acc (by omega) (by omega) (by intro ts' txt' h; simp at h; omega) p hp
      · exact ih (a + 1) _ acc (by omega) (by omega) (by intro ts' txt' h; simp at h; omega) p hp
    · split at hp
      · rename_i ts txt
        have hr := hrun ts txt rfl
        have := ih (a + 1) none _ (by omega) (by omega) (by intro ts' txt' h; simp at h) p hp
        rcases this with h | h
        · split at h
          · simp at h
            rcases h with h | rfl
            · exact Or.inl h
            · right; simp; omega
          · exact Or.inl h
        · exact Or.inr h
      · exact ih (a + 1) none acc (by omega) (by omega) (by intro ts' txt' h; simp at h) p hp

/-- every text block found in `[start, end_)` is a non-empty sub-range of it -/
theorem textBlocks_range (cfg : Cfg) (mem : Mem) (minLen start end_ : Nat) (hse : start ≤ end_) :
    ∀ p ∈ textBlocks cfg mem minLen start end_, start ≤ p.1 ∧ p.1 < p.2 ∧ p.2 ≤ end_ := by
  intro p hp
  unfold textBlocks at hp
  split at hp
  · have := textScan_range cfg mem minLen start end_ (end_ - start) start none [] (by omega) (Nat.le_refl _)
      (by intro ts txt h; simp at h) p hp
    simpa using this
  · simp at hp

theorem applyText_inv {start end_ : Nat} (bEnd : Nat) (d : Dict) (tb : Nat × Nat)
    (h : Inv start end_ d) (hp : start ≤ tb.1 ∧ tb.1 < tb.2 ∧ tb.2 ≤ bEnd ∧ bEnd ≤ end_) :
    Inv start end_ (applyText bEnd d tb) := by
  unfold applyText
  simp only
  split
  · exact inv_dset (inv_dset h hp.1 (by omega) (by simp)) (by omega) (by omega) (by simp)
  · exact inv_dset h hp.1 (by omega) (by simp)

theorem textFold_inv {start end_ : Nat} (cfg : Cfg) (mem : Mem) (minLen a b : Nat) (d : Dict)
    (h : Inv start end_ d) (hp : start ≤ a ∧ a < b ∧ b ≤ end_) :
    Inv start end_ ((textBlocks cfg mem minLen a b).foldl (applyText b) d) := by
  apply foldl_inv (applyText b) (fun tb => start ≤ tb.1 ∧ tb.1 < tb.2 ∧ tb.2 ≤ b ∧ b ≤ end_)
    (applyText_inv b) _ d h
  intro tb htb
  have := textBlocks_range cfg mem minLen a b (by omega) tb htb
  exact ⟨by omega, this.2.1, this.2.2, hp.2.2⟩

theorem textBlockNoMap_inv {start end_ : Nat} (cfg : Cfg) (mem : Mem) (d : Dict) (se : Nat × Nat)
    (h : Inv start end_ d) (hp : start ≤ se.1 ∧ se.1 < se.2 ∧ se.2 ≤ end_) :
    Inv start end_ (textBlockNoMap cfg mem d se) := by
  unfold textBlockNoMap
  split
  · exact textFold_inv cfg mem _ _ _ d h hp
  · split
    · simp only
      split
      · exact h
      · rename_i last hlast
        have hmem : last ∈ textBlocks cfg mem cfg.minCode se.1 se.2 := List.mem_of_getLast? hlast
        have hr := textBlocks_range cfg mem cfg.minCode se.1 se.2 (by omega) last hmem
        have h1 := textFold_inv cfg mem cfg.minCode se.1 se.2 (dset d se.1 .b)
          (inv_dset h hp.1 (by omega) (by simp)) hp
        split
        · exact inv_dset h1 (by omega) (by omega) (by simp)
        · exact h1
    · exact h

theorem textNoMap_inv {start end_ : Nat} (cfg : Cfg) (mem : Mem) {d : Dict} (h : Inv start end_ d) :
    Inv start end_ (textNoMap cfg mem d) := by
  unfold textNoMap
  exact foldl_inv (textBlockNoMap cfg mem) (fun se => start ≤ se.1 ∧ se.1 < se.2 ∧ se.2 ≤ end_)
    (textBlockNoMap_inv cfg mem) _ d h (fun se hse => inv_pairs h (a := se.1) (b := se.2) hse)

/-! ### from the raw list to the dict -/

theorem rawOK_inv {start end_ : Nat} {l : List (Nat × Ctl)} (hse : start ≤ end_) (h : RawOK start end_ l) :
    Inv start end_ (dictOf l) := by
  rw [dictOf_sorted l h.sorted]
  have hlast : (end_, Ctl.i) ∈ l := List.mem_of_getLast? h.last
  have hsplit : l = l.dropLast ++ [(end_, Ctl.i)] := by
    have hne : l ≠ [] := by intro e; rw [e] at hlast; simp at hlast
    have h1 := List.dropLast_concat_getLast hne
    have h2 : l.getLast hne = (end_, Ctl.i) := by
      have := List.getLast?_eq_some_getLast hne
      rw [h.last] at this
      simpa using this.symm
    rw [h2] at h1
    exact h1.symm
  constructor
  · exact h.sorted
  · have := h.first
    cases hk : keys l with
    | nil => simp [hk] at this
    | cons x r => simp [hk] at this; simp [this]
  · exact dget_of_mem h.sorted hlast
  · intro k hk
    simp [keys] at hk
    obtain ⟨v, hv⟩ := hk
    rw [hsplit] at hv
    simp at hv
    rcases hv with hv | ⟨rfl, rfl⟩
    · have := h.inner (k, v) hv; simp at this; omega
    · omega
  · intro k hk
    have hm := mem_of_dget hk
    rw [hsplit] at hm
    simp at hm
    rcases hm with hm | hm
    · have := h.inner (k, .i) hm; simp at this
    · exact hm

theorem genNoMap_inv {dec : Dec} (hs : SizesPos dec) (mem : Mem) (cfg : Cfg) {start end_ : Nat}
    (hse : start ≤ end_) : Inv start end_ (genNoMap dec mem cfg start end_) := by
  unfold genNoMap
  exact textNoMap_inv cfg mem (joinBS_inv (markZero_inv mem (rawOK_inv hse (genRaw_ok hs mem hse))))

/-! ### what `Inv` says about the written control file -/

theorem inv_head {start end_ : Nat} {d : Dict} (h : Inv start end_ d) : (keys d).head? = some start := by
  have hs := h.sorted
  have hm := h.has_start
  cases hd : d with
  | nil => rw [hd] at hm; simp at hm
  | cons x r =>
    obtain ⟨k, v⟩ := x
    rw [hd] at hs hm
    rw [sorted_cons] at hs
    simp at hm ⊢
    rcases hm with rfl | hm
    · rfl
    · have := hs.1 start hm
      have := (h.bounds k (by rw [hd]; simp)).1
      omega

theorem sorted_getLast {d : Dict} (hs : Sorted d) {k : Nat} {v : Ctl} (hm : (k, v) ∈ d)
    (hmax : ∀ k' ∈ keys d, k' ≤ k) : d.getLast? = some (k, v) := by
  induction d with
  | nil => simp at hm
  | cons x r ih =>
    obtain ⟨k0, v0⟩ := x
    rw [sorted_cons] at hs
    cases r with
    | nil => simp at hm ⊢; exact ⟨hm.1.symm, hm.2.symm⟩
    | cons y r' =>
      rw [List.getLast?_cons_cons]
      simp only [List.mem_cons] at hm
      rcases hm with hm | hm
      · simp at hm
        obtain ⟨rfl, rfl⟩ := hm
        have h1 := hs.1 y.1 (by simp [keys])
        have h2 := hmax y.1 (by simp [keys])
        omega
      · exact ih hs.2 (by simpa using hm) (fun k' hk' => hmax k' (by simp [hk']))

theorem inv_last {start end_ : Nat} {d : Dict} (h : Inv start end_ d) : d.getLast? = some (end_, .i) :=
  sorted_getLast h.sorted (mem_of_dget h.term) (fun k hk => (h.bounds k hk).2)

end SnaCtl
