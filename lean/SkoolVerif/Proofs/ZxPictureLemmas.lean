import SkoolVerif.Proofs.ScanBuildLemmas
/-! Connecting the model's per-tile view with the specification's picture view (C15). -/
set_option linter.unusedSimpArgs false
namespace PngScan
open ZxTile ZxSpec

/-- The unscaled picture a tile array stands for. -/
def pictureOf (udgs : List (List Udg)) : Picture where
  attr X Y := ((udgs.getD (Y / 8) []).getD (X / 8) udg0).attr
  bit X Y := colBit (((udgs.getD (Y / 8) []).getD (X / 8) udg0).data.getD (Y % 8) 0) (X % 8)
  mbit X Y := match ((udgs.getD (Y / 8) []).getD (X / 8) udg0).maskRows with
    | some m => some (colBit (m.getD (Y % 8) 0) (X % 8))
    | none => none

theorem rule_same (k : Nat) (b : Bool) : rule k b b = rule 0 b false := by
  unfold rule
  cases b <;> simp <;> split <;> simp_all

/-- The index the generic builder emits is the display rule applied to the picture, looked up
in the attribute map. -/
theorem srcIndex_eq_spec (c : Ctx) (udgs : List (List Udg)) (X Y : Nat) :
    srcIndex c udgs X Y =
      ((pictureOf udgs).pix c.mask.toNat X Y).pick
        ((c.attrs ((pictureOf udgs).attr X Y)).getD (0, 0)).1
        ((c.attrs ((pictureOf udgs).attr X Y)).getD (0, 0)).2 0 := by
  unfold srcIndex rowSrc Picture.pix pictureOf maskByteOf
  simp only
  cases h : ((udgs.getD (Y / 8) []).getD (X / 8) udg0).maskRows with
  | none =>
    simp only [rule_same]
  | some m =>
    simp only

def attrCheck : Bool :=
  (List.range 256).all (fun a =>
    attrIndex a == (slot (paperOf a) (brightOf a), slot (inkOf a) (brightOf a))
      && swapAttr a < 256
      && (inkOf (swapAttr a) == paperOf a) && (paperOf (swapAttr a) == inkOf a)
      && (brightOf (swapAttr a) == brightOf a) && (flashOf (swapAttr a) == flashOf a)
      && swapAttr (swapAttr a) == a)

theorem attrCheck_ok : attrCheck = true := by decide +kernel

end PngScan
