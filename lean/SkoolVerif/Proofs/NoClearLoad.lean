import SkoolVerif.Proofs.DataLoaderExec
import SkoolVerif.Proofs.FastLoadLemmas
import SkoolVerif.Proofs.Bin2TapLemmas
import SkoolVerif.Proofs.RomReturn
/-!
Composition for a tape made without `--clear`: the machine-code loader (executed in the generated
simulator model) followed by `fast_load` of the pre-filled main block.
-/
open Z80 Sim LoaderSteps Bin2Tap FastLoad

namespace NoClearLoad

variable {μ : Type} [MemLike μ] [RamMem μ]

theorem stackContents_eq (start : Nat) : stackContents start = [63, 5, start % 256, start / 256] := by
  simp [stackContents, getWord]

theorem getD_of_getElem? (l : List Nat) (i : Nat) (v : Nat) (h : l[i]? = some v) : l.getD i 0 = v := by
  simp [List.getD_eq_getElem?_getD, h]

/-- the state in which the ROM's LD-BYTES would return after the main block has been loaded -/
def afterLoad (cfg : Cfg) (s : St μ) (ram : List Nat) (org start stack : Nat) : St μ :=
  fastLoad (makeBlock (prefill ram org start stack)) (runN cfg 8 s)

theorem no_clear_load (cfg : Cfg) (s : St μ) (ram : List Nat) (org start stack : Nat)
    (hcode : CodeAt s.mem 23296 (dataLoaderCode org ram.length start stack))
    (hpc : s.pc = 23296) (hs : s.reg.size = 24) (hok : RamMem.ok s.mem)
    (horg : 16384 ≤ org) (hend : org + ram.length ≤ 65536) (hne : 0 < ram.length)
    (hstack : 16388 ≤ stack) (hstack' : stack < 65536) (hclob : stack < 23313 ∨ 23316 < stack) :
    let s' := afterLoad cfg s ram org start stack
    s'.pc = 0x05E2 ∧ s'.iff = 0 ∧ s'.ins = s.ins ∧ s'.reg.size = 24 ∧ RamMem.ok s'.mem ∧
    rget s'.reg 12 = (stack : Int) - 4 ∧
    rget s'.reg 0 = 0 ∧ rget s'.reg 1 = 1 ∧
    rget s'.reg 4 = 0 ∧ rget s'.reg 5 = 0 ∧
    mget s'.mem ((stack : Int) - 4) = 0x3F ∧ mget s'.mem ((stack : Int) - 3) = 0x05 ∧
    mget s'.mem ((stack : Int) - 2) = (start : Int) % 256 ∧ mget s'.mem ((stack : Int) - 1) = (start : Int) / 256 ∧
    (∀ i : Nat, i < ram.length → ¬ (stack ≤ org + i + 4 ∧ org + i < stack) →
      mget s'.mem ((org : Int) + i) = ((ram.getD i 0 : Nat) : Int)) ∧
    (∀ x : Int, 0 ≤ x ∧ x < 65536 → (x < org ∨ (org : Int) + ram.length ≤ x) →
      (x < (stack : Int) - 4 ∨ (stack : Int) ≤ x) → mget s'.mem x = mget s.mem x) := by
  intro s'
  obtain ⟨reg', hrun, hsz, h9, h8, h5, h4, h0, h1, h12, h3, h2, hframe⟩ :=
    DataLoaderExec.data_loader_exec cfg s org ram.length start stack hcode hpc hs hok (by omega) hstack' hclob
  have hlen : ram.length < 65536 := by omega
  let data := prefill ram org start stack
  have hdl : data.length = ram.length := prefill_length _ _ _ _
  let s8 : St μ := { s with
        reg := reg',
        mem := mset (mset s.mem ((stack : Int) - 2) ((start : Int) % 256)) ((stack : Int) - 1) ((start : Int) / 256),
        pc := 0x0556, t := s.t + 73 }
  have hs' : s' = fastLoad (255 :: (data ++ [xorAll (255 :: data)])) s8 := by
    show fastLoad (makeBlock (prefill ram org start stack)) (runN cfg 8 s) = _
    rw [hrun, makeBlock_eq]; rfl
  have hok8 : RamMem.ok s8.mem := RamMem.ok_set _ _ _ (RamMem.ok_set _ _ _ hok)
  have hm := FastLoadLemmas.fastLoad_match data 255 (xorAll (255 :: data)) s8 hsz hok8
    (by show rget reg' 0 = _; rw [h0]; rfl)
    (by show rget reg' 5 + 256 * rget reg' 4 = _; rw [h5, h4, hdl]; omega)
    (by show 0 ≤ rget reg' 9 + 256 * rget reg' 8 ∧ rget reg' 9 + 256 * rget reg' 8 < 65536; rw [h9, h8]; omega)
    (by show 16386 ≤ rget reg' 12 ∧ rget reg' 12 < 65536; rw [h12]; omega)
    (by omega)
  dsimp only at hm
  rw [← hs'] at hm
  obtain ⟨mpc, miff, msz, m12, m0, m1, _, _, m4, m5, _, _, mok, mmem⟩ := hm
  have mins : s'.ins = s.ins := by
    rw [hs']; unfold fastLoad; simp only; split
    · rfl
    · split <;> rfl
  have hix : rget s8.reg 9 + 256 * rget s8.reg 8 = (org : Int) := by
    show rget reg' 9 + 256 * rget reg' 8 = _; rw [h9, h8]; omega
  have hsp8 : rget s8.reg 12 = (stack : Int) - 2 := h12
  have hpar0 : FastLoadLemmas.xorFrom 255 data ^^^ xorAll (255 :: data) = 0 := by
    rw [xorAll_cons]; exact Nat.xor_self _
  rw [hpar0] at m0 m1
  simp only [hix, hsp8, hdl] at mmem
  -- memory of the state before fast_load
  have m8 : ∀ x : Int, 0 ≤ x ∧ x < 65536 → mget s8.mem x =
      if x = (stack : Int) - 1 then (start : Int) / 256 else if x = (stack : Int) - 2 then (start : Int) % 256 else mget s.mem x :=
    fun x hx => mget_mset2 _ hok _ _ _ _ _ (by omega) (by omega) hx
  -- bytes of the loaded block
  have hdata : ∀ i : Nat, i < ram.length → data.getD i 0 =
      if stack ≤ org + i + 4 ∧ org + i < stack then (stackContents start).getD (org + i + 4 - stack) 0 else ram.getD i 0 := by
    intro i hi
    have := prefill_get ram org start stack i hi
    simp only [List.getD_eq_getElem?_getD]
    show (prefill ram org start stack)[i]?.getD 0 = _
    rw [this]; split <;> rfl
  -- an address inside the block
  have hin : ∀ i : Nat, i < ram.length → mget s'.mem ((org : Int) + i) = ((data.getD i 0 : Nat) : Int) := by
    intro i hi
    rw [mmem _ (by omega)]
    have e : ((org : Int) + i - org) % 65536 = i := by omega
    rw [e, if_pos (by omega)]; simp
  -- an address outside the block
  have hout : ∀ x : Int, 0 ≤ x ∧ x < 65536 → (x < org ∨ (org : Int) + ram.length ≤ x) → mget s'.mem x =
      if x = (stack : Int) - 2 - 1 then 5 else if x = (stack : Int) - 2 - 2 then 63 else mget s8.mem x := by
    intro x hx hxo
    rw [mmem x hx]
    have : ¬ ((x - org) % 65536 < (ram.length : Int) ∧ 16383 < x) := by omega
    rw [if_neg this]
  -- the four stack bytes
  have hstk : ∀ j : Nat, j < 4 → mget s'.mem ((stack : Int) - 4 + j) = (([63, 5, start % 256, start / 256].getD j 0 : Nat) : Int) := by
    intro j hj
    by_cases hov : org + 4 ≤ stack + j ∧ stack + j < org + ram.length + 4
    · -- overwritten by the block: the pre-filled byte
      have e : (stack : Int) - 4 + j = (org : Int) + ((stack + j - 4 - org : Nat) : Int) := by omega
      rw [e, hin _ (by omega), hdata _ (by omega), if_pos (by omega), stackContents_eq]
      have : org + (stack + j - 4 - org) + 4 - stack = j := by omega
      rw [this]
    · rw [hout _ (by omega) (by omega), m8 _ (by omega)]
      have hj' : j = 0 ∨ j = 1 ∨ j = 2 ∨ j = 3 := by omega
      rcases hj' with rfl | rfl | rfl | rfl
      · rw [if_neg (by omega), if_pos (by omega)]; rfl
      · rw [if_pos (by omega)]; rfl
      · rw [if_neg (by omega), if_neg (by omega), if_neg (by omega), if_pos (by omega)]; simp
      · rw [if_neg (by omega), if_neg (by omega), if_pos (by omega)]; simp
  refine ⟨mpc, miff, mins, msz, mok, by rw [m12, hsp8]; omega, by simpa using m0, by simpa using m1, m4, m5, ?_, ?_, ?_, ?_, ?_, ?_⟩
  · simpa using hstk 0 (by omega)
  · have := hstk 1 (by omega); have e : (stack : Int) - 4 + (1 : Nat) = (stack : Int) - 3 := by omega
    rw [e] at this; simpa using this
  · have := hstk 2 (by omega); have e : (stack : Int) - 4 + (2 : Nat) = (stack : Int) - 2 := by omega
    rw [e] at this; simpa using this
  · have := hstk 3 (by omega); have e : (stack : Int) - 4 + (3 : Nat) = (stack : Int) - 1 := by omega
    rw [e] at this; simpa using this
  · intro i hi hns
    rw [hin i hi, hdata i hi, if_neg hns]
  · intro x hx hxo hxs
    rw [hout x hx hxo, m8 x hx, if_neg (by omega), if_neg (by omega), if_neg (by omega), if_neg (by omega)]

/-- The whole no-CLEAR path in the model: loader, fast load of the pre-filled block, ROM epilogue.
The program is entered at START with SP = STACK and interrupts enabled; every byte of the binary
outside the four bytes below STACK is at its address; nothing else in RAM (outside the block and
those four bytes) changed. -/
theorem no_clear_run (cfg : Cfg) (s : St μ) (ram : List Nat) (org start stack : Nat)
    (hcfg : cfg.out_tracer = true ∧ cfg.in_a_n_tracer = true)
    (hcode : CodeAt s.mem 23296 (dataLoaderCode org ram.length start stack))
    (hrom : RomReturn.RomEpilogue s.mem)
    (hpc : s.pc = 23296) (hs : s.reg.size = 24) (hok : RamMem.ok s.mem)
    (horg : 16384 ≤ org) (hend : org + ram.length ≤ 65536) (hne : 0 < ram.length)
    (hstack : 16388 ≤ stack) (hstack' : stack < 65536) (hclob : stack < 23313 ∨ 23316 < stack)
    (hin : (readPort s.ins).1 % 2 = 1) :
    let sF := runN cfg 15 (afterLoad cfg s ram org start stack)
    sF.pc = start ∧ rget sF.reg 12 = stack ∧ sF.iff = 1 ∧
    (∀ i : Nat, i < ram.length → ¬ (stack ≤ org + i + 4 ∧ org + i < stack) →
      mget sF.mem ((org : Int) + i) = ((ram.getD i 0 : Nat) : Int)) ∧
    (∀ x : Int, 0 ≤ x ∧ x < 65536 → (x < org ∨ (org : Int) + ram.length ≤ x) →
      (x < (stack : Int) - 4 ∨ (stack : Int) ≤ x) → mget sF.mem x = mget s.mem x) := by
  obtain ⟨lpc, _, lins, lsz, lok, l12, l0, l1, _, _, lm0, lm1, lm2, lm3, lin, lout⟩ :=
    no_clear_load cfg s ram org start stack hcode hpc hs hok horg hend hne hstack hstack' hclob
  generalize afterLoad cfg s ram org start stack = s' at *
  intro sF
  have hrom' : RomReturn.RomEpilogue s'.mem := by
    obtain ⟨h1, h2⟩ := hrom
    refine ⟨by rw [lout _ (by omega) (by omega) (by omega)]; exact h1, ?_⟩
    intro k hk
    have hk' : k < 23 := by simpa [RomReturn.saLdRet] using hk
    rw [lout _ (by omega) (by omega) (by omega)]; exact h2 k hk
  have e2 : (stack : Int) - 4 + 2 = (stack : Int) - 2 := by omega
  have e3 : (stack : Int) - 4 + 3 = (stack : Int) - 1 := by omega
  have e1 : (stack : Int) - 4 + 1 = (stack : Int) - 3 := by omega
  have hret := RomReturn.rom_return_exec cfg s' ((stack : Int) - 4) ((start : Int) % 256) ((start : Int) / 256)
    hcfg lpc lsz lok hrom' l12 (by omega) (by omega) lm0 (by rw [e1]; exact lm1)
    (by rw [e2]; exact lm2) (by rw [e3]; exact lm3) (by rw [lins]; exact hin)
  obtain ⟨reg', mem', outs', inLog', hrun, ⟨_, r12, _⟩, _, rmem⟩ := hret
  have hsF : sF = _ := hrun
  refine ⟨?_, ?_, ?_, ?_, ?_⟩
  · rw [hsF]; show (start : Int) % 256 + 256 * ((start : Int) / 256) = start; omega
  · rw [hsF]; show rget reg' 12 = _; rw [r12]; omega
  · rw [hsF]
  · intro i hi hns
    rw [hsF]; show mget mem' _ = _
    rw [rmem _ (by omega), if_neg (by omega), if_neg (by omega)]
    exact lin i hi hns
  · intro x hx hxo hxs
    rw [hsF]; show mget mem' _ = _
    rw [rmem x hx, if_neg (by omega), if_neg (by omega)]
    exact lout x hx hxo hxs

end NoClearLoad
