import SkoolVerif.Proofs.ContendLemmas
/-! Upper bound on the contention delay: at most 6 T-states per entry of the access pattern (C10: an
instruction is much shorter than a frame, so the interrupt bookkeeping of `Tracer.run` cannot skip one). -/
namespace Contend
open Z80

/-- 6 T-states per pattern entry -/
def lenBound : List (Int × Int) → Int
  | [] => 0
  | _ :: l => 6 + lenBound l

@[grind =] theorem lenBound_nil : lenBound [] = 0 := rfl
@[grind =] theorem lenBound_cons (x : Int × Int) (l : List (Int × Int)) : lenBound (x :: l) = 6 + lenBound l := rfl
@[grind =] theorem lenBound_append (a b : List (Int × Int)) : lenBound (a ++ b) = lenBound a + lenBound b := by
  induction a with
  | nil => simp [lenBound]
  | cons x a ih => simp only [List.cons_append, lenBound, ih]; omega

theorem lenBound_nonneg (l : List (Int × Int)) : 0 ≤ lenBound l := by
  induction l with
  | nil => simp [lenBound]
  | cons x l ih => simp only [lenBound]; omega

/-- generic fold lemma: each entry adds at most 6 -/
theorem foldl_delay_le (f : Int × Int → Int × Int → Int × Int)
    (hf : ∀ acc x, (f acc x).1 ≤ acc.1 + 6) (l : List (Int × Int)) (acc : Int × Int) :
    (l.foldl f acc).1 ≤ acc.1 + lenBound l := by
  induction l generalizing acc with
  | nil => simp [lenBound]
  | cons x l ih =>
    simp only [List.foldl_cons, lenBound]
    have h1 := ih (f acc x)
    have h2 := hf acc x
    omega

theorem contend48_le (t : Int) (l : List (Int × Int)) : contend48 t l ≤ lenBound l := by
  unfold contend48
  have := foldl_delay_le (fun (acc : Int × Int) (at_ : Int × Int) =>
    let (delay, t) := acc
    let (address, tstates) := at_
    if 0x4000 ≤ address ∧ address < 0x8000 then
      let cd := delays48 t
      (delay + cd, t + cd + tstates)
    else (delay, t + tstates)) (by
      intro acc x
      obtain ⟨d, t'⟩ := acc; obtain ⟨a, n⟩ := x
      simp only
      split
      · have := (delays48_range t').2; simp; omega
      · simp; omega) l (0, t)
  simpa using this

theorem contend128_le (o t : Int) (l : List (Int × Int)) : contend128 o t l ≤ lenBound l := by
  unfold contend128
  simp only
  have := foldl_delay_le (fun (acc : Int × Int) (at_ : Int × Int) =>
    let (delay, t) := acc
    let (address, tstates) := at_
    if (0x4000 ≤ address ∧ address < 0x8000) ∨ (o % 2 ≠ 0 ∧ address ≥ 0xC000) then
      let cd := delays128 t
      (delay + cd, t + cd + tstates)
    else (delay, t + tstates)) (by
      intro acc x
      obtain ⟨d, t'⟩ := acc; obtain ⟨a, n⟩ := x
      simp only
      split
      · have := (delays128_range t').2; simp; omega
      · simp; omega) l (0, t)
  simpa using this

theorem contend_le_len {μ} [MemLike μ] (cfg : Cfg) (m : μ) (t : Int) (l : List (Int × Int)) :
    contend cfg m t l ≤ lenBound l := by
  unfold contend; split
  · exact contend128_le ..
  · exact contend48_le ..

theorem io_contention_len {μ} [MemLike μ] (cfg : Cfg) (m : μ) (port : Int) :
    lenBound (io_contention cfg m port) ≤ 24 := by
  unfold io_contention
  split <;> split <;> simp [lenBound]

grind_pattern contend_le_len => contend cfg m t l
grind_pattern io_contention_len => io_contention cfg m port

end Contend
