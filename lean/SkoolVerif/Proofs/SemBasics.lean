import SkoolVerif.Proofs.ZinstrOf
import SkoolVerif.Proofs.RangeTactics
/-!
Basic facts used by the per-closure refinement proofs (`Proofs/Sem*.lean`): register-array
extensionality, literal-index read-after-write rewriting, inversion of the little partial maps of
`Proofs/ZinstrOf.lean`, and the bridges from the translated tables (`Tbl.*`, proved equal to the
bit-level spec entry by entry in `Proofs/Alu/*`) to the operation-indexed spec functions of
`Spec/Z80Sem.lean`.
-/
namespace C05
open Z80 Sim Spec Z80Isa TableRanges AluCheck

variable {μ : Type} [MemLike μ] [CellMem μ]

/-! ### register arrays -/

theorem regs_ext (a b : Array Int) (hs : a.size = b.size) (h : ∀ i : Int, rget a i = rget b i) : a = b := by
  apply Array.ext hs
  intro i h1 h2
  have := h (i : Int)
  simp only [rget, Int.natCast_nonneg, if_true, Int.toNat_natCast] at this
  simpa [Array.getD, h1, h2] using this

theorem rget_rset_eq (r : Array Int) (i j v : Int) (h : i = j) (h0 : 0 ≤ i) (h1 : i < r.size) :
    rget (rset r i v) j = v := by
  rw [rget_rset]; simp [h]; intro h2; omega

theorem rget_rset_ne (r : Array Int) (i j v : Int) (h : i ≠ j) : rget (rset r i v) j = rget r j := by
  rw [rget_rset]; simp [h]

theorem rset_rget_self (r : Array Int) (i : Int) : rset r i (rget r i) = r := by
  apply regs_ext
  · rw [rset_size]
  · intro j; rw [rget_rset]; split
    · rename_i h; rw [h.1]
    · rfl

/-- resolve `rget (rset … i v) j` for indices that `omega` can compare -/
macro "rsimp" hs:term : tactic => `(tactic|
  try simp (disch := first | omega | (simp only [rset_size, $hs:term]; omega)) only [rget_rset_ne, rget_rset_eq])

/-- close `A = B` for two register arrays built from `rset`s over the same base -/
macro "regs_eq" hs:term : tactic => `(tactic|
  (apply regs_ext
   · simp only [rset_size]
   · intro i; simp only [rget_rset, rset_size, $hs:term]; grind))

/-! ### R -/

theorem incR_R1 (x : Int) (hx : Byte x) : Tbl.R1 x = incR 1 x := by
  have := (R1_spec x hx).1
  rw [this]; unfold incR; unfold Byte at hx; omega

theorem incR_R2 (x : Int) (hx : Byte x) : Tbl.R2 x = incR 2 x := by
  have := (R2_spec x hx).1
  rw [this]; unfold incR; unfold Byte at hx; omega

theorem rinc_spec (r_inc : TblI1) (m x : Int) (h : m1Of r_inc = some m) (hx : Byte x) :
    TblI1.get r_inc x = incR m x := by
  cases r_inc <;> simp [m1Of] at h <;> subst h
  · exact incR_R1 x hx
  · exact incR_R2 x hx

theorem incR_byte (m x : Int) (hx : Byte x) : Byte (incR m x) := by
  unfold incR; unfold Byte at *; omega

/-! ### inversion of the argument maps -/

theorem gpr_inv (r : Int) (g : Reg8) (h : gpr r = some g) :
    Spec.idx g = r ∧ 0 ≤ r ∧ r < 12 ∧ r ≠ 1 := by
  unfold gpr at h
  repeat (split at h; (· simp at h; subst h; subst_vars; simp [Spec.idx]))
  simp at h

theorem reg8Of_inv (r : Int) (g : Reg8) (h : reg8Of r = some g) :
    Spec.idx g = r ∧ 0 ≤ r ∧ r < 16 ∧ r ≠ 1 ∧ r ≠ 12 ∧ r ≠ 13 := by
  unfold reg8Of at h
  split at h
  · simp at h; subst h; subst_vars; simp [Spec.idx]
  split at h
  · simp at h; subst h; subst_vars; simp [Spec.idx]
  obtain ⟨h1, h2, h3, h4⟩ := gpr_inv r g h
  omega

theorem idxOf_inv (xyh xyl : Int) (i : Reg16) (h : idxOf xyh xyl = some i) :
    (i = .IX ∧ xyh = 8 ∧ xyl = 9) ∨ (i = .IY ∧ xyh = 10 ∧ xyl = 11) := by
  unfold idxOf at h
  split at h
  · rename_i hc; simp at h; exact Or.inl ⟨h.symm, hc.1, hc.2⟩
  split at h
  · rename_i hc; simp at h; exact Or.inr ⟨h.symm, hc.1, hc.2⟩
  simp at h

theorem pairOf_inv (rh rl : Int) (rp : Reg16) (h : pairOf rh rl = some rp) :
    (rp = .BC ∧ rh = 2 ∧ rl = 3) ∨ (rp = .DE ∧ rh = 4 ∧ rl = 5) ∨ (rp = .HL ∧ rh = 6 ∧ rl = 7) ∨
    (rp = .SP ∧ rh = 13 ∧ rl = 12) ∨ (rp = .IX ∧ rh = 8 ∧ rl = 9) ∨ (rp = .IY ∧ rh = 10 ∧ rl = 11) ∨
    (rp = .AF ∧ rh = 0 ∧ rl = 1) := by
  unfold pairOf at h
  repeat (split at h; (· rename_i hc; simp at h; simp [← h, hc.1, hc.2]))
  simp at h

theorem copyOf_inv (dest : Int) (c : Option Reg8) (h : copyOf dest = some c) :
    (dest = -1 ∧ c = none) ∨ (∃ g, c = some g ∧ gpr dest = some g) := by
  unfold copyOf at h
  split at h
  · rename_i hc; simp at h; exact Or.inl ⟨hc, h.symm⟩
  · right
    cases hg : gpr dest with
    | none => simp [hg] at h
    | some g => simp [hg] at h; exact ⟨g, h.symm, rfl⟩

/-! ### flags of conditions -/

theorem land_bit_all : allLt 256 (fun f =>
    decide (PyInt.land (f : Int) 1 = (f : Int) % 2) &&
    decide (PyInt.land (f : Int) 4 = (f : Int) / 4 % 2 * 4) &&
    decide (PyInt.land (f : Int) 64 = (f : Int) / 64 % 2 * 64) &&
    decide (PyInt.land (f : Int) 128 = (f : Int) / 128 % 2 * 128)) = true := by decide +kernel

theorem land_bit (f : Int) (hf : Byte f) :
    PyInt.land f 1 = f % 2 ∧ PyInt.land f 4 = f / 4 % 2 * 4 ∧ PyInt.land f 64 = f / 64 % 2 * 64 ∧
    PyInt.land f 128 = f / 128 % 2 * 128 := by
  have := allLt_spec land_bit_all f.toNat (by unfold Byte at hf; omega)
  have e : ((f.toNat : Nat) : Int) = f := by unfold Byte at hf; omega
  simp only [e, Bool.and_eq_true, decide_eq_true_eq] at this
  obtain ⟨⟨⟨h1, h2⟩, h3⟩, h4⟩ := this
  exact ⟨h1, h2, h3, h4⟩

theorem land_zero (f : Int) (_hf : Byte f) : PyInt.land f 0 = 0 := by
  have := land_bounds f 0 (by omega); omega

theorem condHolds_cases (c : Cond) (f : Int) :
    condHolds c f = match c with
      | .NZ => decide (f / 64 % 2 ≠ 1) | .Z => decide (f / 64 % 2 = 1)
      | .NC => decide (f % 2 ≠ 1) | .C => decide (f % 2 = 1)
      | .PO => decide (f / 4 % 2 ≠ 1) | .PE => decide (f / 4 % 2 = 1)
      | .P => decide (f / 128 % 2 ≠ 1) | .M => decide (f / 128 % 2 = 1) := by
  cases c <;> simp [condHolds, flagSet]

/-- `jp`/`jr`: `F & c_and == c_val` ⇔ the condition holds -/
theorem condOf_spec (c_and c_val f : Int) (cc : Option Cond) (h : condOf c_and c_val = some cc) (hf : Byte f) :
    (PyInt.land f c_and = c_val) ↔ ccHolds cc f = true := by
  obtain ⟨h1, h4, h64, h128⟩ := land_bit f hf
  have h0 := land_zero f hf
  unfold condOf at h
  repeat (split at h; (· rename_i hc; simp at h; subst h; obtain ⟨rfl, rfl⟩ := hc
                         first
                           | (simp only [ccHolds, condHolds_cases, decide_eq_true_eq, h1, h4, h64, h128, h0] <;> omega)
                           | simp [ccHolds, h0]))
  simp at h

/-- `call`/`ret`: `F & c_and == c_val` ⇔ the condition does *not* hold (for the conditional forms) -/
theorem condInvOf_spec (c_and c_val f : Int) (c : Cond) (h : condInvOf c_and c_val = some (some c)) (hf : Byte f) :
    c_and ≠ 0 ∧ ((PyInt.land f c_and = c_val) ↔ condHolds c f = false) := by
  obtain ⟨h1, h4, h64, h128⟩ := land_bit f hf
  unfold condInvOf at h
  split at h
  · simp at h
  repeat (split at h; (· rename_i hc; simp at h; subst h; obtain ⟨rfl, rfl⟩ := hc
                         simp only [condHolds_cases, decide_eq_false_iff_not, decide_eq_true_eq, h1, h4, h64, h128] <;> omega))
  simp at h

theorem condInvOf_none (c_and c_val : Int) (h : condInvOf c_and c_val = some none) : c_and = 0 := by
  unfold condInvOf at h
  split at h
  · omega
  repeat (split at h; (· simp at h))
  simp at h

/-! ### table bridges -/

theorem alu_tbl_spec (af : TblP2) (op : AluOp) (h : aluOf af = some op) (c : Nat) (a x : Int)
    (ha : Byte a) (hx : Byte x) :
    TblP2.get af a x = (((aluSpec op c a.toNat x.toNat).1 : Int), ((aluSpec op c a.toNat x.toNat).2 : Int)) := by
  cases af <;> simp [aluOf] at h <;> subst h <;> simp only [TblP2.get, aluSpec]
  · exact (ADD_spec a x ha hx).1
  · exact (AND_spec a x ha hx).1
  · exact (CP_spec a x ha hx).1
  · exact (OR_spec a x ha hx).1
  · exact (SUB_spec a x ha hx).1
  · exact (XOR_spec a x ha hx).1

theorem aluc_tbl_spec (afc : TblP3) (c a x : Int) (hc : 0 ≤ c ∧ c < 2) (ha : Byte a) (hx : Byte x) :
    TblP3.get afc c a x =
      (((aluSpec (aluCOf afc) c.toNat a.toNat x.toNat).1 : Int), ((aluSpec (aluCOf afc) c.toNat a.toNat x.toNat).2 : Int)) := by
  cases afc <;> simp only [TblP3.get, aluSpec, aluCOf]
  · exact (ADC_spec c a x hc ha hx).1
  · exact (SBC_spec c a x hc ha hx).1

theorem acc_tbl_spec (af : TblP2) (op : AccOp) (h : accOf af = some op) (a f : Int)
    (ha : Byte a) (hf : Byte f) :
    TblP2.get af a f = (((accSpec op a.toNat f.toNat).1 : Int), ((accSpec op a.toNat f.toNat).2 : Int)) := by
  cases af <;> simp [accOf] at h <;> subst h <;> simp only [TblP2.get, accSpec]
  · exact (CPL_spec a f ha hf).1
  · exact (DAA_spec a f ha hf).1
  · exact (RLA_spec a f ha hf).1
  · exact (RLCA_spec a f ha hf).1
  · exact (RRA_spec a f ha hf).1
  · exact (RRCA_spec a f ha hf).1

theorem rot_tbl_spec (f : TblP1) (op : RotOp) (h : rotOf f = some op) (c : Nat) (x : Int) (hx : Byte x) :
    TblP1.get f x = (((rotSpec op c x.toNat).1 : Int), ((rotSpec op c x.toNat).2 : Int)) := by
  cases f <;> simp [rotOf] at h <;> subst h <;> simp only [TblP1.get, rotSpec]
  · exact (RLC_spec x hx).1
  · exact (RRC_spec x hx).1
  · exact (SLA_spec x hx).1
  · exact (SLL_spec x hx).1
  · exact (SRA_spec x hx).1
  · exact (SRL_spec x hx).1

theorem mod2_range (f : Int) : 0 ≤ f % 2 ∧ f % 2 < 2 := by omega

end C05

namespace C05
open Z80 Sim Spec Z80Isa

/-- unfold the executable specification around a concrete instruction -/
macro "spec_simp" "[" ts:Lean.Parser.Tactic.simpLemma,* "]" : tactic => `(tactic|
  simp only [Spec.exec, Spec.wrLoc, Spec.rdLoc, Spec.addrOf, Spec.wr, Spec.wrPair, Spec.rd, Spec.r16, Spec.lo16,
    Spec.hi16, Spec.r8, Spec.setR8, Spec.setSP, Spec.sp, Spec.setPair, Spec.setR16, Spec.loOfPair, Spec.hiOfPair,
    Spec.swapShadow, Spec.imm8, Spec.imm16, Spec.dispByte, Spec.copyTo, Spec.push, Spec.portIn, Spec.portOut,
    reduceCtorEq, if_false, if_true, $ts,*])

/-- the seven register pairs a `(rh, rl)` argument can denote -/
macro "pair_cases" h:term : tactic => `(tactic|
  (rcases pairOf_inv _ _ _ $h with ⟨_, _, _⟩ | ⟨_, _, _⟩ | ⟨_, _, _⟩ | ⟨_, _, _⟩ |
    ⟨_, _, _⟩ | ⟨_, _, _⟩ | ⟨_, _, _⟩) <;> subst_vars)

macro "idx_cases" h:term : tactic => `(tactic|
  (rcases idxOf_inv _ _ _ $h with ⟨_, _, _⟩ | ⟨_, _, _⟩) <;> subst_vars)

end C05

namespace C05
open Z80 Sim Spec Z80Isa

set_option hygiene false in
/-- split the range invariant of `s` into named facts -/
macro "rinv_setup" hi:ident : tactic => `(tactic|
  (obtain ⟨hr, hmem, hpc, ht, hiff, him, hhalt, hmp, hins⟩ := $hi
   have hs : s.reg.size = 24 := hr.1
   have hb15 : Byte (rget s.reg 15) := hr.byte 15 (by omega) (by omega) (by omega)
   have hR1 := incR_R1 _ hb15
   have hR2 := incR_R2 _ hb15))

/-- invert `zinstrOf i = some d` -/
macro "zinv" hz:ident : tactic => `(tactic|
  simp only [zinstrOf, mk, blockD, Option.bind_eq_bind, Option.bind_eq_some_iff, Option.some.injEq] at $hz:ident)

/-- an `if c then some x else none = some d` hypothesis -/
macro "zif" hz:ident : tactic => `(tactic|
  (split at $hz:ident <;> simp only [Option.some.injEq, reduceCtorEq] at $hz:ident))

end C05

namespace C05
open Spec Z80Isa
theorem idx_A : idx .A = 0 := rfl
theorem idx_F : idx .F = 1 := rfl
theorem idx_B : idx .B = 2 := rfl
theorem idx_C : idx .C = 3 := rfl
theorem idx_D : idx .D = 4 := rfl
theorem idx_E : idx .E = 5 := rfl
theorem idx_H : idx .H = 6 := rfl
theorem idx_L : idx .L = 7 := rfl
theorem idx_IXh : idx .IXh = 8 := rfl
theorem idx_IXl : idx .IXl = 9 := rfl
theorem idx_IYh : idx .IYh = 10 := rfl
theorem idx_IYl : idx .IYl = 11 := rfl
theorem idx_I : idx .I = 14 := rfl
theorem idx_R : idx .R = 15 := rfl

/-- slot numbers of literal registers (leaves `idx g` for a variable `g` alone) -/
macro "idx_simp" : tactic => `(tactic|
  simp only [idx_A, idx_F, idx_B, idx_C, idx_D, idx_E, idx_H, idx_L, idx_IXh, idx_IXl, idx_IYh, idx_IYl, idx_I, idx_R,
    Int.reduceAdd])
end C05

namespace C05
open Spec
theorem sgn8_OFFSETS (x : Int) : Spec.sgn8 x = Tbl.OFFSETS x := rfl

/-- case-split one ROM guard (`if addr > 0x3FFF`); `split` rewrites every occurrence of the condition -/
macro "split_guard" : tactic => `(tactic|
  split)
end C05

namespace C05
/-- two states that differ at most in their register arrays (`congr` is very slow here: it tries
`rfl` on the arrays) -/
macro "st_regs" hs:term : tactic => `(tactic|
  (simp only [Z80.St.mk.injEq, and_true, true_and]; regs_eq $hs))
end C05
