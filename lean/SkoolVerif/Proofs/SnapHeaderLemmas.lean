import SkoolVerif.Model.SnapHeader
/-! Round trips of the non-trivial snapshot header encodings (C09). -/
namespace SnapHeader
open PyInt

/-- `p k` for all `k < n` (structural recursion: kernel-friendly). -/
def allLt : Nat → (Nat → Bool) → Bool
  | 0, _ => true
  | n + 1, p => allLt n p && p n

theorem allLt_spec {n : Nat} {p : Nat → Bool} (h : allLt n p = true) : ∀ k, k < n → p k = true := by
  induction n with
  | zero => intro k hk; omega
  | succ n ih =>
    simp only [allLt, Bool.and_eq_true] at h
    intro k hk
    by_cases hkn : k = n
    · subst hkn; exact h.2
    · exact ih h.1 k (by omega)

theorem z80_t_48 (t : Int) : z80ReadT 69888 (z80WriteT 69888 t) = t % 69888 := by
  unfold z80ReadT z80WriteT; simp only; omega

theorem z80_t_128 (t : Int) : z80ReadT 70908 (z80WriteT 70908 t) = t % 70908 := by
  unfold z80ReadT z80WriteT; simp only; omega

theorem z80_t_bytes (frame t : Int) (hf : frame = 69888 ∨ frame = 70908) :
    let b := z80WriteT frame t
    (0 ≤ b.1 ∧ b.1 < 256) ∧ (0 ≤ b.2.1 ∧ b.2.1 < 256) ∧ (0 ≤ b.2.2 ∧ b.2.2 < 4) := by
  rcases hf with rfl | rfl <;> (unfold z80WriteT; simp only; omega)

theorem szx_t (frame t : Int) (hf : frame = 69888 ∨ frame = 70908) :
    szxReadT (szxWriteT frame t) = t % frame := by
  rcases hf with rfl | rfl <;> (unfold szxReadT szxWriteT; simp only; omega)

theorem land_65535 (v : Int) (h0 : 0 ≤ v) : land v 65535 = v % 65536 := by
  cases v with
  | negSucc _ => simp at h0
  | ofNat n =>
    simp only [land, Int.ofNat_eq_natCast]
    have : n &&& 65535 = n % 65536 := Nat.and_two_pow_sub_one_eq_mod n 16
    omega

/-- Python `v & 65535` for every integer (two's complement for negative `v`) -/
theorem land_65535_all (v : Int) : land v 65535 = v % 65536 := by
  cases v with
  | ofNat n => exact land_65535 _ (Int.natCast_nonneg n)
  | negSucc n =>
    show land (Int.negSucc n) (Int.ofNat 65535) = _
    simp only [land, Int.ofNat_eq_natCast]
    have h1 : 65535 &&& n = n % 65536 := by
      rw [Nat.and_comm]; exact Nat.and_two_pow_sub_one_eq_mod n 16
    rw [h1, Int.negSucc_eq]
    omega

theorem word (v : Int) (h : 0 ≤ v ∧ v < 65536) : readWord (writeWord v) = v := by
  unfold readWord writeWord; simp only
  rw [land_65535 v h.1]; omega

/-- for every integer the word that is stored is the value modulo 65536 -/
theorem word_mod (v : Int) : readWord (writeWord v) = v % 65536 := by
  unfold readWord writeWord; simp only
  rw [land_65535_all v]; omega

/-- the two writers' formulas for the high byte agree on every integer -/
theorem word_writers_agree (v : Int) : writeWord v = szxWriteWord v := by
  unfold writeWord szxWriteWord
  rw [land_65535_all v]
  congr 1
  omega

theorem szx_t4 (a b c : Int) : szxReadT4 (a, b, c, 0) = szxReadT (a, b, c) := by
  simp [szxReadT4, szxReadT]

/-- R and border share byte 12: exhaustive over both bytes -/
theorem r_all : allLt 256 (fun h12 => allLt 256 (fun r =>
    let w := writeR (h12 : Int) (r : Int)
    decide (readR w.1 w.2 = (r : Int)) && decide (readBorder w.2 = readBorder (h12 : Int)) &&
      decide (land w.2 32 = land (h12 : Int) 32) && decide (0 ≤ w.2 ∧ w.2 < 256))) = true := by
  decide +kernel

theorem border_all : allLt 256 (fun h12 => allLt 8 (fun c =>
    let w := writeBorder (h12 : Int) (c : Int)
    decide (readBorder w = (c : Int)) && decide (w % 2 = (h12 : Int) % 2) &&
      decide (land w 32 = land (h12 : Int) 32) && decide (0 ≤ w ∧ w < 256))) = true := by
  decide +kernel

/-- IM and issue-2 flag share byte 29: exhaustive over the byte and the value's low bits -/
theorem im_all : allLt 256 (fun h29 => allLt 8 (fun v =>
    let w := writeIm (h29 : Int) (v : Int)
    decide (readIm w = (v : Int) % 4) && decide (readIssue2 w = readIssue2 (h29 : Int)) &&
      decide (w / 8 = (h29 : Int) / 8) && decide (0 ≤ w ∧ w < 256))) = true := by
  decide +kernel

theorem issue2_all : allLt 256 (fun h29 => allLt 8 (fun v =>
    let w := writeIssue2 (h29 : Int) (v : Int)
    decide (readIssue2 w = (v : Int) % 2) && decide (readIm w = readIm (h29 : Int)) &&
      decide (w / 8 = (h29 : Int) / 8) && decide (0 ≤ w ∧ w < 256))) = true := by
  decide +kernel

end SnapHeader
