import SkoolVerif.Model.SnapHeader
import SkoolVerif.Spec.AluCheck
/-! Round trips of the non-trivial snapshot header encodings (C09). -/
namespace SnapHeader
open PyInt AluCheck

theorem z80_t_48 (t : Int) : z80ReadT 69888 (z80WriteT 69888 t) = t % 69888 := by
  unfold z80ReadT z80WriteT; simp only; omega

theorem z80_t_128 (t : Int) : z80ReadT 70908 (z80WriteT 70908 t) = t % 70908 := by
  unfold z80ReadT z80WriteT; simp only; omega

theorem z80_t_bytes (frame t : Int) (hf : frame = 69888 ∨ frame = 70908) :
    let b := z80WriteT frame t
    (0 ≤ b.1 ∧ b.1 < 256) ∧ (0 ≤ b.2.1 ∧ b.2.1 < 256) ∧ (0 ≤ b.2.2 ∧ b.2.2 < 4) := by
  rcases hf with rfl | rfl <;> (unfold z80WriteT; simp only; omega)

theorem szx_t (frame t : Int) (hf : frame = 69888 ∨ frame = 70908) :
    szxReadT (szxWriteT frame t) = t % frame := by
  rcases hf with rfl | rfl <;> (unfold szxReadT szxWriteT; simp only; omega)

theorem land_65535 (v : Int) (h0 : 0 ≤ v) : land v 65535 = v % 65536 := by
  cases v with
  | negSucc _ => simp at h0
  | ofNat n =>
    simp only [land, Int.ofNat_eq_natCast]
    have : n &&& 65535 = n % 65536 := Nat.and_two_pow_sub_one_eq_mod n 16
    omega

theorem word (v : Int) (h : 0 ≤ v ∧ v < 65536) : readWord (writeWord v) = v := by
  unfold readWord writeWord; simp only
  rw [land_65535 v h.1]; omega

/-- R and border share byte 12: exhaustive over both bytes -/
theorem r_all : allLt 256 (fun h12 => allLt 256 (fun r =>
    let w := writeR (h12 : Int) (r : Int)
    decide (readR w.1 w.2 = (r : Int)) && decide (readBorder w.2 = readBorder (h12 : Int)) &&
      decide (land w.2 32 = land (h12 : Int) 32) && decide (0 ≤ w.2 ∧ w.2 < 256))) = true := by
  decide +kernel

theorem border_all : allLt 256 (fun h12 => allLt 8 (fun c =>
    let w := writeBorder (h12 : Int) (c : Int)
    decide (readBorder w = (c : Int)) && decide (w % 2 = (h12 : Int) % 2) &&
      decide (land w 32 = land (h12 : Int) 32) && decide (0 ≤ w ∧ w < 256))) = true := by
  decide +kernel

end SnapHeader
