import Lean
import SkoolVerif.Proofs.RangeTactics
import SkoolVerif.Proofs.ContendLemmas
/-!
Second mechanism for the per-closure range theorems (`Gen/*RangeThms.lean`): the closures for which
the generic `grind` call does not terminate (16-bit arithmetic with several flag branches, block
instructions, `EXX`) are proved by `rinv_manual`:

1. `repeat' split` eliminates the closure's if-then-else, leaving one literal `St` record per path;
2. `RInv_mk` turns each into the nine field goals;
3. `range_facts` walks the goal term bottom-up and, for every subterm it knows a range lemma for
   (`rget`, `mget`, `PyInt.land/lor/xor/p2i`, the tables, `readPort`, `contend`, and the updates
   `rset`/`mset`/`portOut`), adds the corresponding fact to the context in a form `omega` reads
   (premises are themselves discharged by `omega` from the facts added so far);
4. the goal is closed by `assumption` or `omega`.

Nothing here mentions a particular closure; a closure-specific script only has to do the case
analysis `omega` cannot do itself (e.g. `rl = 12` for the register-pair closures that also take SP).
-/
open Lean Meta Elab Tactic

namespace Z80
open TableRanges

variable {μ : Type} [MemLike μ] [CellMem μ]

/-- `RInv` of a literal state record, field by field (avoids projections of huge record terms). -/
theorem RInv_mk {reg : Array Int} {mem : μ} {pc t iff im halt memptr : Int} {ins : List Int}
    {outs : List (Int × Int)} {inLog : List Int}
    (regs : RegsOk reg) (mem_ : MemOk mem) (pc_ : Word pc) (t_ : 0 ≤ t) (iff_ : iff = 0 ∨ iff = 1)
    (im_ : 0 ≤ im ∧ im ≤ 2) (halt_ : halt = 0 ∨ halt = 1) (memptr_ : Word memptr) (ins_ : ∀ v ∈ ins, Byte v) :
    RInv ({ reg := reg, mem := mem, pc := pc, t := t, iff := iff, im := im, halt := halt, memptr := memptr,
            ins := ins, outs := outs, inLog := inLog } : St μ) :=
  ⟨regs, mem_, pc_, t_, iff_, im_, halt_, memptr_, ins_⟩

/-- the closures' if-then-else at statement level: one goal per path, the condition as a hypothesis
(`split` runs out of simp steps on the larger closures of the contended simulator) -/
theorem RInv_ite {c : Prop} [Decidable c] {a b : St μ} (ha : c → RInv a) (hb : ¬ c → RInv b) :
    RInv (if c then a else b) := by
  split
  · exact ha ‹_›
  · exact hb ‹_›

theorem rget_byte' {r : Array Int} (h : RegsOk r) (i : Int) (h0 : 0 ≤ i) (h1 : i < 24) (h2 : i ≠ 12) :
    0 ≤ rget r i ∧ rget r i < 256 := h.byte i h0 h1 h2
theorem rget_word' {r : Array Int} (h : RegsOk r) : 0 ≤ rget r 12 ∧ rget r 12 < 65536 := h.word
theorem mget_byte' {m : μ} (h : MemOk m) (a : Int) : 0 ≤ mget m a ∧ mget m a < 256 := h.byte a
theorem lor_byte' (a b : Int) (ha : 0 ≤ a ∧ a < 256) (hb : 0 ≤ b ∧ b < 256) :
    0 ≤ PyInt.lor a b ∧ PyInt.lor a b < 256 := lor_byte a b ha hb
theorem xor_byte' (a b : Int) (ha : 0 ≤ a ∧ a < 256) (hb : 0 ≤ b ∧ b < 256) :
    0 ≤ PyInt.xor a b ∧ PyInt.xor a b < 256 := xor_byte a b ha hb
theorem R1_byte' (x : Int) (hx : 0 ≤ x ∧ x < 256) : 0 ≤ Tbl.R1 x ∧ Tbl.R1 x < 256 := R1_byte x hx
theorem R2_byte' (x : Int) (hx : 0 ≤ x ∧ x < 256) : 0 ≤ Tbl.R2 x ∧ Tbl.R2 x < 256 := R2_byte x hx
theorem SZ53P_even' (x : Int) (hx : 0 ≤ x ∧ x < 256) : 0 ≤ Tbl.SZ53P x ∧ Tbl.SZ53P x ≤ 254 := SZ53P_even x hx
theorem PARITY_le' (x : Int) (hx : 0 ≤ x ∧ x < 256) : Tbl.PARITY x = 0 ∨ Tbl.PARITY x = 4 := PARITY_le x hx
theorem TblI1_range' (t : TblI1) (x d0 : Int) (hd : t.dims = [d0]) (hx : 0 ≤ x ∧ x < d0) :
    0 ≤ t.get x ∧ t.get x < 256 := TblI1_range t x d0 hd hx
theorem TblI2_range' (t : TblI2) (x y d0 d1 : Int) (hd : t.dims = [d0, d1]) (hx : 0 ≤ x ∧ x < d0)
    (hy : 0 ≤ y ∧ y < d1) : 0 ≤ t.get x y ∧ t.get x y < 256 := TblI2_range t x y d0 d1 hd hx hy
theorem TblI3_range' (t : TblI3) (x y z d0 d1 d2 : Int) (hd : t.dims = [d0, d1, d2]) (hx : 0 ≤ x ∧ x < d0)
    (hy : 0 ≤ y ∧ y < d1) (hz : 0 ≤ z ∧ z < d2) : 0 ≤ t.get x y z ∧ t.get x y z < 256 :=
  TblI3_range t x y z d0 d1 d2 hd hx hy hz
theorem BIT_byte' (x y z : Int) (hx : 0 ≤ x ∧ x < 2) (hy : 0 ≤ y ∧ y < 8) (hz : 0 ≤ z ∧ z < 256) :
    0 ≤ Tbl.BIT x y z ∧ Tbl.BIT x y z < 256 := (BIT_spec x y z hx hy hz).2
theorem TblP1_range' (t : TblP1) (x d0 : Int) (hd : t.dims = [d0]) (hx : 0 ≤ x ∧ x < d0) :
    (0 ≤ (t.get x).1 ∧ (t.get x).1 < 256) ∧ (0 ≤ (t.get x).2 ∧ (t.get x).2 < 256) := TblP1_range t x d0 hd hx
theorem TblP2_range' (t : TblP2) (x y d0 d1 : Int) (hd : t.dims = [d0, d1]) (hx : 0 ≤ x ∧ x < d0)
    (hy : 0 ≤ y ∧ y < d1) :
    (0 ≤ (t.get x y).1 ∧ (t.get x y).1 < 256) ∧ (0 ≤ (t.get x y).2 ∧ (t.get x y).2 < 256) :=
  TblP2_range t x y d0 d1 hd hx hy
theorem TblP3_range' (t : TblP3) (x y z d0 d1 d2 : Int) (hd : t.dims = [d0, d1, d2]) (hx : 0 ≤ x ∧ x < d0)
    (hy : 0 ≤ y ∧ y < d1) (hz : 0 ≤ z ∧ z < d2) :
    (0 ≤ (t.get x y z).1 ∧ (t.get x y z).1 < 256) ∧ (0 ≤ (t.get x y z).2 ∧ (t.get x y z).2 < 256) :=
  TblP3_range t x y z d0 d1 d2 hd hx hy hz
theorem readPort_fst' (ins : List Int) (h : ∀ v ∈ ins, Byte v) : 0 ≤ (readPort ins).1 ∧ (readPort ins).1 < 256 :=
  (readPort_byte ins h).1
theorem readPort_snd' (ins : List Int) (h : ∀ v ∈ ins, Byte v) : ∀ v ∈ (readPort ins).2, Byte v :=
  (readPort_byte ins h).2
theorem RegsOk_rset_byte'' {r : Array Int} (h : RegsOk r) (i v : Int) (h0 : 0 ≤ i) (h1 : i < 24) (h2 : i ≠ 12)
    (h3 : i ≠ 13) (hv : 0 ≤ v ∧ v < 256) : RegsOk (rset r i v) := RegsOk_rset_byte h i v h0 h1 h2 h3 hv
theorem RegsOk_rset_sp'' {r : Array Int} (h : RegsOk r) (v : Int) (hv : 0 ≤ v ∧ v < 65536) :
    RegsOk (rset r 12 v) := RegsOk_rset_sp h v hv
/-- writing 0 to slot 13 (the constant high byte paired with SP) keeps the invariant -/
theorem RegsOk_rset_sp2'' {r : Array Int} (h : RegsOk r) (v : Int) (hv : v = 0) : RegsOk (rset r 13 v) := by
  subst hv
  obtain ⟨hs, hw, h13, hb⟩ := h
  refine ⟨by rw [rset_size]; exact hs, ?_, ?_, ?_⟩
  · rw [rget_rset]
    have : ¬ ((13 : Int) = 12 ∧ (0 : Int) ≤ 13 ∧ (13 : Int) < r.size) := by omega
    simp only [this, if_false]; exact hw
  · rw [rget_rset]; simp [hs]
  · intro j hj0 hj1 hj2
    rw [rget_rset]; split
    · unfold Byte; omega
    · exact hb j hj0 hj1 hj2
theorem MemOk_mset'' {m : μ} (h : MemOk m) (a v : Int) (hv : 0 ≤ v ∧ v < 256) : MemOk (mset m a v) :=
  MemOk_mset h a v hv

/-- the shape of a table parameter: a hypothesis from `instrWf`, or by computation for a named table -/
macro "dims_tac" : tactic => `(tactic| first | with_reducible assumption | rfl)

namespace RangeManual

/-- subterms of `e` without loose bound variables, children before parents, each once -/
partial def collect (e : Expr) : StateM (Std.HashSet Expr × Array Expr) Unit := do
  if (← get).1.contains e then return
  match e with
  | .app f a => collect f; collect a
  | .mdata _ b => collect b
  | .proj _ _ b => collect b
  | .forallE _ t b _ => collect t; collect b
  | .lam _ t b _ => collect t; collect b
  | .letE _ t v b _ => collect t; collect v; collect b
  | _ => pure ()
  if !e.hasLooseBVars then
    modify fun (s, a) => (s.insert e, a.push e)

/-- run a tactic, restoring the state if it fails -/
def tryTac (stx : TacticM (TSyntax `tactic)) : TacticM Unit := do
  let s ← saveState
  try
    withoutRecover (evalTactic (← stx))
  catch _ => s.restore

end RangeManual

open RangeManual in
/-- Adds range facts about the subterms of the goal (see the module doc). -/
elab "range_facts" : tactic => withMainContext do
  let tgt ← instantiateMVars (← (← getMainGoal).getType)
  let ((), (_, subs)) := (collect tgt).run ({}, #[])
  for e in subs do
    let fn := e.getAppFn
    let some c := fn.constName? | continue
    let args := e.getAppArgs
    let stx (x : Expr) : TacticM Term := Term.exprToSyntax x
    let a (i : Nat) : TacticM Term := stx args[i]!
    withMainContext do
      match c, args.size with
      | ``PyInt.land, 2 =>
        tryTac do `(tactic| have := land_bounds $(← a 0) $(← a 1) (by omega))
      | ``PyInt.lor, 2 =>
        tryTac do `(tactic| have := lor_byte' $(← a 0) $(← a 1) (by omega) (by omega))
      | ``PyInt.xor, 2 =>
        tryTac do `(tactic| have := xor_byte' $(← a 0) $(← a 1) (by omega) (by omega))
      | ``PyInt.p2i, 2 =>
        tryTac do `(tactic| have : $(← stx e) = 0 ∨ $(← stx e) = 1 := p2i_cases _)
      | ``Z80.rget, 2 =>
        match ← getIntValue? args[1]! with
        | some 12 =>
          tryTac do `(tactic| have := rget_word' (r := $(← a 0)) (by with_reducible assumption))
        | some 13 =>
          tryTac do `(tactic| have := RegsOk.sp2 (r := $(← a 0)) (by with_reducible assumption))
        | _ =>
          tryTac do `(tactic| have := rget_byte' (r := $(← a 0)) (by with_reducible assumption) $(← a 1)
            (by omega) (by omega) (by omega))
      | ``Z80.rset, 3 =>
        match ← getIntValue? args[1]! with
        | some 12 =>
          tryTac do `(tactic| have := RegsOk_rset_sp'' (r := $(← a 0)) (by with_reducible assumption) $(← a 2) (by omega))
        | some 13 =>
          tryTac do `(tactic| have := RegsOk_rset_sp2'' (r := $(← a 0)) (by with_reducible assumption) $(← a 2) (by omega))
        | _ =>
          tryTac do `(tactic| have := RegsOk_rset_byte'' (r := $(← a 0)) (by with_reducible assumption) $(← a 1) $(← a 2)
            (by omega) (by omega) (by omega) (by omega) (by omega))
      | ``Z80.mget, 4 =>
        tryTac do `(tactic| have := mget_byte' (m := $(← a 2)) (by with_reducible assumption) $(← a 3))
      | ``Z80.mset, 5 =>
        tryTac do `(tactic| have := MemOk_mset'' (m := $(← a 2)) (by with_reducible assumption) $(← a 3) $(← a 4) (by omega))
      | ``Z80.MemLike.portOut, 5 =>
        tryTac do `(tactic| have := MemOk_portOut (m := $(← a 2)) (by with_reducible assumption) $(← a 3) $(← a 4))
      | ``Z80.readPort, 1 =>
        tryTac do `(tactic| have := readPort_fst' $(← a 0) (by with_reducible assumption))
        tryTac do `(tactic| have := readPort_snd' $(← a 0) (by with_reducible assumption))
      | ``Tbl.R1, 1 => tryTac do `(tactic| have := R1_byte' $(← a 0) (by omega))
      | ``Tbl.R2, 1 => tryTac do `(tactic| have := R2_byte' $(← a 0) (by omega))
      | ``Tbl.SZ53P, 1 => tryTac do `(tactic| have := SZ53P_even' $(← a 0) (by omega))
      | ``Tbl.PARITY, 1 => tryTac do `(tactic| have := PARITY_le' $(← a 0) (by omega))
      | ``Tbl.BIT, 3 => tryTac do `(tactic| have := BIT_byte' $(← a 0) $(← a 1) $(← a 2) (by omega) (by omega) (by omega))
      | ``TblI1.get, 2 =>
        -- the tables whose range is narrower than a byte matter when the closure receives them by name
        match args[0]!.constName? with
        | some ``TblI1.SZ53P =>
          tryTac do `(tactic| have : 0 ≤ $(← stx e) ∧ $(← stx e) ≤ 254 := SZ53P_even' $(← a 1) (by omega))
        | some ``TblI1.PARITY =>
          tryTac do `(tactic| have : $(← stx e) = 0 ∨ $(← stx e) = 4 := PARITY_le' $(← a 1) (by omega))
        | _ =>
          tryTac do `(tactic| have := TblI1_range' $(← a 0) $(← a 1) _ (by dims_tac) (by omega))
      | ``TblI2.get, 3 =>
        tryTac do `(tactic| have := TblI2_range' $(← a 0) $(← a 1) $(← a 2) _ _ (by dims_tac) (by omega) (by omega))
      | ``TblI3.get, 4 =>
        tryTac do `(tactic| have := TblI3_range' $(← a 0) $(← a 1) $(← a 2) $(← a 3) _ _ _ (by dims_tac)
            (by omega) (by omega) (by omega))
      | ``TblP1.get, 2 =>
        tryTac do `(tactic| have := TblP1_range' $(← a 0) $(← a 1) _ (by dims_tac) (by omega))
      | ``TblP2.get, 3 =>
        tryTac do `(tactic| have := TblP2_range' $(← a 0) $(← a 1) $(← a 2) _ _ (by dims_tac) (by omega) (by omega))
      | ``TblP3.get, 4 =>
        tryTac do `(tactic| have := TblP3_range' $(← a 0) $(← a 1) $(← a 2) $(← a 3) _ _ _ (by dims_tac)
            (by omega) (by omega) (by omega))
      | ``Contend.contend, 6 =>
        tryTac do `(tactic| have : 0 ≤ $(← stx e) := Contend.contend_nonneg _ _ _ _)
      | _, _ => pure ()

/-- Split every hypothesis that is a conjunction, and case on every hypothesis that is a disjunction
of conjunctions (the `instrWf` condition of the register-pair closures that are also used with SP:
the pair is `(13, 12)` or avoids both slots). -/
partial def RangeManual.splitHyps (g : MVarId) : MetaM (List MVarId) := do
  let found ← g.withContext do
    for d in ← getLCtx do
      if d.isImplementationDetail then continue
      let ty ← instantiateMVars d.type
      if ty.isAppOfArity ``And 2 then return some d.fvarId
      if ty.isAppOfArity ``Or 2 && (ty.getArg! 0).isAppOfArity ``And 2 && (ty.getArg! 1).isAppOfArity ``And 2 then
        return some d.fvarId
    return none
  match found with
  | none => return [g]
  | some fv =>
    let subs ← g.cases fv
    let rs ← subs.toList.mapM fun sub => splitHyps sub.mvarId
    return rs.flatten

elab "split_hyps" : tactic => do
  let gs ← RangeManual.splitHyps (← getMainGoal)
  replaceMainGoal gs

/-- restate every hypothesis `Word x` / `Byte x` as the inequalities `omega` reads -/
elab "unfold_ranges" : tactic => withMainContext do
  for d in ← getLCtx do
    if d.isImplementationDetail then continue
    let ty ← instantiateMVars d.type
    if ty.isAppOfArity ``Z80.Word 1 then
      let x ← Term.exprToSyntax ty.appArg!
      let h ← Term.exprToSyntax d.toExpr
      RangeManual.tryTac do `(tactic| have : 0 ≤ $x ∧ $x < 65536 := $h)
    else if ty.isAppOfArity ``Z80.Byte 1 then
      let x ← Term.exprToSyntax ty.appArg!
      let h ← Term.exprToSyntax d.toExpr
      RangeManual.tryTac do `(tactic| have : 0 ≤ $x ∧ $x < 256 := $h)

/-- One path of a closure: the goal is `RInv { reg := …, … }` without if-then-else. -/
macro "rinv_fields" : tactic => `(tactic|
  ((with_reducible apply RInv_mk) <;>
    (range_facts
     first
      | with_reducible assumption
      | omega
      | (unfold Word; omega)
      | (unfold Byte; omega)
      | fail "rinv_manual: this field of the invariant does not follow from the collected range facts")))

/-- The generic manual script; the generated preamble has introduced `hr … hins`, `hwf`. -/
macro "rinv_manual" : tactic => `(tactic|
  (unfold_ranges
   split_hyps
   all_goals try subst_vars
   all_goals repeat' ((with_reducible apply RInv_ite) <;> intro _)
   all_goals rinv_fields))

end Z80
