import SkoolVerif.Proofs.C02NumStr
import SkoolVerif.Proofs.C02Split
/-!
Items of DEFB/DEFM/DEFW/DEFS statements: every item the disassembler renders is
"safe" (survives comma-joining and `split_operands`) and "tidy" (unchanged by
`strip`); rendering a statement and running the DEFx branch of
`Assembler._assemble` on it hands exactly the item list to `_assemble_defX`.
-/
namespace C02L
open OpText AsmEval OperandSpec

/-- Unchanged by `str.strip()` and non-empty. -/
def Tidy (t : Txt) : Prop :=
  t ≠ [] ∧ (∀ c, t.head? = some c → isSpace c = false) ∧ (∀ c, t.getLast? = some c → isSpace c = false)

/-- No comma, quote or white space at all. -/
def Plain (t : Txt) : Prop := t ≠ [] ∧ ∀ c ∈ t, c ≠ 44 ∧ c ≠ 34 ∧ isSpace c = false

theorem Plain.safe {t : Txt} (h : Plain t) : SafeItem 44 t :=
  safe_of_plain 44 t (fun c hc => ⟨(h.2 c hc).1, (h.2 c hc).2.1⟩)

theorem Plain.tidy {t : Txt} (h : Plain t) : Tidy t :=
  ⟨h.1, fun c hc => (h.2 c (head?_mem t c hc)).2.2, fun c hc => (h.2 c (getLast?_mem t c hc)).2.2⟩

theorem Tidy.strip {t : Txt} (h : Tidy t) : strip t = t := strip_id t h.2.1 h.2.2

/-- Characters a numeric rendering consists of. -/
def NumCh (c : Nat) : Prop := c = 45 ∨ c = 36 ∨ c = 37 ∨ HexCh c

theorem NumCh.plain {c : Nat} (h : NumCh c) : c ≠ 44 ∧ c ≠ 34 ∧ isSpace c = false := by
  unfold NumCh HexCh at h
  refine ⟨by omega, by omega, ?_⟩
  simp [isSpace]; omega

theorem fmtInt_chars (b : Nat) (hb : 2 ≤ b) (hb16 : b ≤ 16) (w : Nat) (up : Bool) (v : Int) :
    fmtInt b w up v ≠ [] ∧ ∀ c ∈ fmtInt b w up v, NumCh c := by
  have hd : ∀ w' n, ∀ c ∈ (padLeft w' (toDigits b n)).map (digitChar up), NumCh c := by
    intro w' n c hc
    exact Or.inr (Or.inr (Or.inr (digs_hexch b hb hb16 up w' n c hc)))
  unfold fmtInt
  split
  · refine ⟨by simp, ?_⟩
    intro c hc
    simp only [List.mem_cons] at hc
    rcases hc with rfl | hc
    · exact Or.inl rfl
    · exact hd _ _ c hc
  · exact ⟨digs_ne_nil b up w v.natAbs, hd _ _⟩

theorem fmtNum_numch (cfg : Cfg) (base : Base) (word : Bool) (v : Int) :
    fmtNum cfg base word v ≠ [] ∧ ∀ c ∈ fmtNum cfg base word v, NumCh c := by
  have h2 := fmtInt_chars 2 (by omega) (by omega)
  have h10 := fmtInt_chars 10 (by omega) (by omega)
  have h16 := fmtInt_chars 16 (by omega) (by omega)
  have cons : ∀ (x : Nat) (t : Txt), NumCh x → (∀ c ∈ t, NumCh c) →
      (x :: t) ≠ [] ∧ ∀ c ∈ x :: t, NumCh c := by
    intro x t hx ht
    refine ⟨by simp, ?_⟩
    intro c hc
    simp only [List.mem_cons] at hc
    rcases hc with rfl | hc
    · exact hx
    · exact ht c hc
  cases base <;> cases hh : cfg.hex <;> simp only [fmtNum, hexFmt, hh, if_true, if_false, Bool.false_eq_true]
  all_goals first
    | exact cons 45 _ (Or.inl rfl) (fun c hc => by
        simp only [List.mem_cons] at hc
        rcases hc with rfl | hc
        · exact Or.inr (Or.inl rfl)
        · exact (h16 _ _ _).2 c hc)
    | exact cons 37 _ (Or.inr (Or.inr (Or.inl rfl))) (h2 _ _ _).2
    | exact cons 36 _ (Or.inr (Or.inl rfl)) (h16 _ _ _).2
    | exact cons 45 _ (Or.inl rfl) (h10 _ _ _).2
    | exact ⟨(h10 _ _ _).1, (h10 _ _ _).2⟩

theorem fmtNum_plain (cfg : Cfg) (base : Base) (word : Bool) (v : Int) : Plain (fmtNum cfg base word v) :=
  ⟨(fmtNum_numch cfg base word v).1, fun c h => ((fmtNum_numch cfg base word v).2 c h).plain⟩

theorem numStrNC_numch (cfg : Cfg) (v nbytes : Nat) (base : Base) : ∀ c ∈ numStrNC cfg v nbytes base, NumCh c := by
  unfold numStrNC
  exact (fmtNum_numch _ _ _ _).2

theorem numStrNC_plain (cfg : Cfg) (v nbytes : Nat) (base : Base) : Plain (numStrNC cfg v nbytes base) := by
  unfold numStrNC
  exact fmtNum_plain _ _ _ _

/-- `itemEnd` over a plain run does not change the state. -/
theorem itemEnd_plain_append (t rest : Txt) (q : Bool) (h : ∀ c ∈ t, c ≠ 44 ∧ c ≠ 34 ∧ c ≠ 92) :
    itemEnd 44 q false (t ++ rest) = itemEnd 44 q false rest := by
  induction t with
  | nil => rfl
  | cons c cs ih =>
    have hc := h c (by simp)
    simp only [List.cons_append, itemEnd, hc.1, hc.2.1, hc.2.2, if_false, Bool.false_eq_true, false_and]
    exact ih (fun x hx => h x (by simp [hx]))

/-- The character forms are safe, tidy items. -/
theorem char_item (ch : Nat) (hr : 32 ≤ ch ∧ ch < 127) (sfx : Txt) (hsafe : SafeItem 44 sfx)
    (hlast : ∀ c, sfx.getLast? = some c → isSpace c = false) :
    SafeItem 44 (if ch = 34 ∨ ch = 92 then [34, 92, ch, 34] ++ sfx else [34, ch, 34] ++ sfx) ∧
    Tidy (if ch = 34 ∨ ch = 92 then [34, 92, ch, 34] ++ sfx else [34, ch, 34] ++ sfx) := by
  have tidy : ∀ body : Txt, Tidy (34 :: (body ++ 34 :: sfx)) := by
    intro body
    refine ⟨by simp, by simp [isSpace], ?_⟩
    intro c hc
    have e : (34 :: (body ++ 34 :: sfx)) = (34 :: body ++ [34]) ++ sfx := by simp
    rw [e, List.getLast?_append] at hc
    cases hd : sfx.getLast? with
    | none =>
      rw [hd] at hc
      have e2 : (34 :: body ++ [34]) = (34 :: body) ++ [34] := by simp
      rw [e2] at hc
      simp only [Option.none_or, List.getLast?_append, List.getLast?_singleton, Option.some_or, Option.some.injEq] at hc
      subst hc; decide
    | some x => rw [hd] at hc; simp at hc; subst hc; exact hlast x hd
  unfold SafeItem at hsafe ⊢
  by_cases hq : ch = 34 ∨ ch = 92
  · simp only [hq, if_true]
    refine ⟨?_, by simpa using tidy [92, ch]⟩
    have h44 : ch ≠ 44 := by omega
    simp [itemEnd, h44, hsafe]
  · simp only [hq, if_false]
    have h34 : ch ≠ 34 := fun e => hq (Or.inl e)
    have h92 : ch ≠ 92 := fun e => hq (Or.inr e)
    refine ⟨?_, by simpa using tidy [ch]⟩
    by_cases h44 : ch = 44
    · simp [itemEnd, h44, hsafe]
    · simp [itemEnd, h44, h34, h92, hsafe]

/-- Every rendering of a number (any value, any base) is a safe, tidy item. -/
theorem numStr_item (cfg : Cfg) (v nbytes : Nat) (base : Base) :
    SafeItem 44 (numStr cfg v nbytes base) ∧ Tidy (numStr cfg v nbytes base) := by
  by_cases hch : base = .c ∧ v < 256 ∧ isChar (v % 128) = true
  · obtain ⟨rfl, hv256, hic⟩ := hch
    have hs : SafeItem 44 (if v ≥ 128 then 43 :: numStrNC cfg 128 1 .n else ([] : Txt)) ∧
        ∀ c, (if v ≥ 128 then 43 :: numStrNC cfg 128 1 .n else ([] : Txt)).getLast? = some c →
          isSpace c = false := by
      have hp := numStrNC_plain cfg 128 1 .n
      by_cases h : v ≥ 128
      · simp only [h, if_true]
        constructor
        · apply safe_of_plain
          intro c hc
          simp only [List.mem_cons] at hc
          rcases hc with rfl | hc
          · decide
          · exact ⟨(hp.2 c hc).1, (hp.2 c hc).2.1⟩
        · intro c hc
          have : c ∈ (43 :: numStrNC cfg 128 1 .n) := getLast?_mem _ c hc
          simp only [List.mem_cons] at this
          rcases this with rfl | h'
          · decide
          · exact (hp.2 c h').2.2
      · simp only [h, if_false]
        exact ⟨by simp [SafeItem, itemEnd], by simp⟩
    simp only [numStr, hv256, hic, and_self, if_true]
    exact char_item (v % 128) (isChar_range _ hic) _ hs.1 hs.2
  · rw [numStr_nonchar cfg v nbytes base hch]
    exact ⟨(numStrNC_plain _ _ _ _).safe, (numStrNC_plain _ _ _ _).tidy⟩

/-! ### joining, stripping, splitting -/

theorem joinSep_cons_cons (sep : Nat) (x y : Txt) (r : List Txt) :
    joinSep sep (x :: y :: r) = x ++ sep :: joinSep sep (y :: r) := rfl

theorem joinSep_head (sep : Nat) (x : Txt) (r : List Txt) (hx : x ≠ []) :
    (joinSep sep (x :: r)).head? = x.head? := by
  cases r with
  | nil => simp [joinSep]
  | cons y ys => rw [joinSep_cons_cons]; cases x with
    | nil => exact absurd rfl hx
    | cons a as => simp

theorem joinSep_last (sep : Nat) : ∀ (items : List Txt), items ≠ [] → (∀ it ∈ items, Tidy it) →
    joinSep sep items ≠ [] ∧ ∀ c, (joinSep sep items).getLast? = some c → isSpace c = false := by
  intro items
  induction items with
  | nil => intro h; exact absurd rfl h
  | cons x r ih =>
    intro _ ht
    have hx := ht x (by simp)
    cases r with
    | nil => simpa [joinSep] using ⟨hx.1, hx.2.2⟩
    | cons y ys =>
      rw [joinSep_cons_cons]
      obtain ⟨hj, hl⟩ := ih (by simp) (fun it hi => ht it (by simp [hi]))
      refine ⟨by simp, ?_⟩
      intro c hc
      rw [List.getLast?_append] at hc
      cases hJ : joinSep sep (y :: ys) with
      | nil => exact absurd hJ hj
      | cons j js =>
        rw [hJ] at hc hl
        rw [List.getLast?_cons_cons] at hc
        cases hg : (j :: js).getLast? with
        | none => simp at hg
        | some z =>
          rw [hg] at hc; simp at hc; subst hc
          exact hl z hg

theorem strip_joinSep (items : List Txt) (hne : items ≠ []) (ht : ∀ it ∈ items, Tidy it) :
    strip (joinSep 44 items) = joinSep 44 items := by
  apply strip_id
  · cases items with
    | nil => exact absurd rfl hne
    | cons x r =>
      have hx := ht x (by simp)
      rw [joinSep_head 44 x r hx.1]
      exact hx.2.1
  · exact (joinSep_last 44 items hne ht).2

/-- `split_operands(','.join(items)) == items` for safe, tidy items. -/
theorem splitOperands_joinSep (items : List Txt) (hne : items ≠ [])
    (h : ∀ it ∈ items, SafeItem 44 it ∧ Tidy it) : splitOperands (joinSep 44 items) = items := by
  rw [splitOperands, splitUnquoted_joinSep 44 (by decide) (by decide) items hne (fun it hi => (h it hi).1)]
  conv => rhs; rw [← List.map_id items]
  exact List.map_congr_left (fun it hi => (h it hi).2.strip)

theorem directiveOf_directive (cfg : Cfg) (x : Nat) (hx : x = 66 ∨ x = 77 ∨ x = 83 ∨ x = 87) (rest : Txt) :
    directiveOf (directive cfg x ++ rest) = some x := by
  rcases hx with rfl | rfl | rfl | rfl <;> cases hl : cfg.lower <;> simp [directiveOf, directive, hl, upperC]

theorem directive_drop (cfg : Cfg) (x : Nat) (rest : Txt) : (directive cfg x ++ rest).drop 5 = rest := by
  cases hl : cfg.lower <;> simp [directive, hl]

/-- The DEFx branch of `_assemble` recovers the rendered item list. -/
theorem assembleData_render (cfg : Cfg) (x : Nat) (hx : x = 66 ∨ x = 77 ∨ x = 83 ∨ x = 87)
    (items : List Txt) (hne : items ≠ []) (h : ∀ it ∈ items, SafeItem 44 it ∧ Tidy it) :
    assembleData (directive cfg x ++ joinSep 44 items) =
      some (if x = 83 then assembleDefs items else if x = 87 then assembleDefw items
            else assembleDefb items) := by
  simp only [assembleData, directiveOf_directive cfg x hx, directive_drop,
    strip_joinSep items hne (fun it hi => (h it hi).2), splitOperands_joinSep items hne h]

end C02L
