import SkoolVerif.Model.ReplaceNums
/-! Lemmas for the numeral base conversion `_replace_nums` (C04). -/
namespace ReplaceNums

/-! ### digits -/

theorem foldl_digitsAux (b : Nat) (hb : 2 ≤ b) : ∀ (fuel n : Nat) (acc : List Nat), n < fuel →
    (digitsAux b fuel n acc).foldl (fun v d => v * b + d) 0 = acc.foldl (fun v d => v * b + d) n := by
  intro fuel
  induction fuel with
  | zero => intro n acc h; omega
  | succ fuel ih =>
    intro n acc h
    unfold digitsAux
    by_cases hn : n < b
    · simp [hn]
    · simp only [hn, if_false]
      have hpos : 0 < n := by omega
      have hdiv : n / b < n := Nat.div_lt_self hpos (by omega)
      rw [ih (n / b) (n % b :: acc) (by omega)]
      simp only [List.foldl_cons]
      congr 1
      exact Nat.div_add_mod' n b

theorem ofDigits_digits (b : Nat) (hb : 2 ≤ b) (n : Nat) : ofDigits b (digits b n) = n := by
  unfold ofDigits digits
  rw [foldl_digitsAux b hb (n + 1) n [] (by omega)]
  rfl

theorem digitsAux_lt (b : Nat) (hb : 2 ≤ b) : ∀ (fuel n : Nat) (acc : List Nat), (∀ d ∈ acc, d < b) →
    n < fuel → ∀ d ∈ digitsAux b fuel n acc, d < b := by
  intro fuel
  induction fuel with
  | zero => intro n acc _ h; omega
  | succ fuel ih =>
    intro n acc hacc h
    unfold digitsAux
    by_cases hn : n < b
    · simp only [hn, if_true, List.mem_cons]
      intro d hd
      rcases hd with rfl | hd
      · exact hn
      · exact hacc d hd
    · simp only [hn, if_false]
      have hpos : 0 < n := by omega
      have hdiv : n / b < n := Nat.div_lt_self hpos (by omega)
      apply ih
      · intro d hd
        simp only [List.mem_cons] at hd
        rcases hd with rfl | hd
        · exact Nat.mod_lt _ (by omega)
        · exact hacc d hd
      · omega

theorem digits_lt (b : Nat) (hb : 2 ≤ b) (n : Nat) : ∀ d ∈ digits b n, d < b :=
  digitsAux_lt b hb (n + 1) n [] (by simp) (by omega)

theorem ofDigits_zeros (b k : Nat) (ds : List Nat) : ofDigits b (List.replicate k 0 ++ ds) = ofDigits b ds := by
  unfold ofDigits
  induction k with
  | zero => rfl
  | succ k ih => simp only [List.replicate_succ, List.cons_append, List.foldl_cons]; simpa using ih

/-! ### digit characters -/

theorem decVal_digitChar : ∀ d, d < 10 → decVal (digitChar false d) = d := by decide
theorem hexVal_digitChar (lower : Bool) : ∀ d, d < 16 → hexVal (digitChar lower d) = d := by
  cases lower <;> decide
theorem hexVal_zero : hexVal '0' = 0 := by decide

theorem map_val_digits (f : Char → Nat) (g : Nat → Char) (b : Nat) (ds : List Nat)
    (h : ∀ d, d < b → f (g d) = d) (hds : ∀ d ∈ ds, d < b) : (ds.map g).map f = ds := by
  induction ds with
  | nil => rfl
  | cons d ds ih =>
    simp only [List.map_cons, List.cons.injEq]
    exact ⟨h d (hds d (by simp)), ih (fun x hx => hds x (by simp [hx]))⟩

/-- `int(str(n)) == n` -/
theorem parseDec_fmtDec (n : Nat) : parseDec (fmtDec n) = n := by
  unfold parseDec fmtDec
  rw [map_val_digits decVal (digitChar false) 10 _ decVal_digitChar (digits_lt 10 (by omega) n)]
  exact ofDigits_digits 10 (by omega) n

/-- `int('{0:0wX}'.format(n), 16) == n` for every width and letter case. -/
theorem parseHex_fmtHex (f : HexFmt) (n : Nat) : parseHex (fmtHex f n) = n := by
  unfold parseHex fmtHex
  simp only [List.map_append, List.map_replicate, hexVal_zero]
  rw [ofDigits_zeros]
  rw [map_val_digits hexVal (digitChar f.lower) 16 _ (hexVal_digitChar f.lower) (digits_lt 16 (by omega) n)]
  exact ofDigits_digits 16 (by omega) n

/-! ### the scanner loses nothing -/

/-- The characters consumed but not yet emitted. -/
def St.pending : St → List Char
  | .txt acc _ => acc.reverse
  | .dollar acc => ('$' :: acc).reverse
  | .dec ds => ds
  | .hex ds => '$' :: ds

theorem join_flush (st : St) : join st.flush = st.pending := by
  cases st <;> simp [St.flush, St.pending, join, Tok.render]

theorem join_step (st : St) (c : Char) :
    join (step st c).1 ++ (step st c).2.pending = st.pending ++ [c] := by
  cases st with
  | txt acc pd =>
    simp only [step]
    split
    · simp [join, Tok.render, St.pending]
    · split <;> simp_all [join, St.pending]
  | dollar acc =>
    simp only [step]
    split <;> simp [join, Tok.render, St.pending]
  | dec ds =>
    simp only [step]
    split <;> simp [join, Tok.render, St.pending]
  | hex ds =>
    simp only [step]
    split <;> simp [join, Tok.render, St.pending]

theorem join_append (a b : List Tok) : join (a ++ b) = join a ++ join b := by
  simp [join]

theorem join_scanFrom (s : List Char) : ∀ st : St, join (scanFrom st s) = st.pending ++ s := by
  induction s with
  | nil => intro st; simp [scanFrom, join_flush]
  | cons c cs ih =>
    intro st
    simp only [scanFrom, join_append, ih]
    rw [← List.append_assoc, join_step]
    simp

/-! ### conversion keeps values and text -/

/-- The value a numeral denotes (`none` for text). -/
def Tok.val : Tok → Option Nat
  | .text _ => none
  | .dec ds => some (parseDec ds)
  | .hex ds => some (parseHex ds)

/-- The text of a text element (`none` for numerals). -/
def Tok.txt : Tok → Option (List Char)
  | .text cs => some cs
  | _ => none

theorem conv_val (fmt : Option HexFmt) (t : Tok) : (conv fmt t).val = t.val := by
  cases t with
  | text cs => rfl
  | dec ds => cases fmt <;> simp [conv, Tok.val, parseHex_fmtHex]
  | hex ds => cases fmt <;> simp [conv, Tok.val, parseDec_fmtDec]

theorem conv_txt (fmt : Option HexFmt) (t : Tok) : (conv fmt t).txt = t.txt := by
  cases t <;> cases fmt <;> rfl

theorem convAll_val (fmt : Option HexFmt) (ts : List Tok) : ∀ (skip : Nat) (prev : List Char),
    (convAll fmt skip prev ts).map Tok.val = ts.map Tok.val ∧
    (convAll fmt skip prev ts).map Tok.txt = ts.map Tok.txt := by
  induction ts with
  | nil => intro skip prev; simp [convAll]
  | cons t ts ih =>
    intro skip prev
    cases t with
    | text cs => simp [convAll, ih]
    | dec ds =>
      cases skip with
      | zero =>
        simp only [convAll, List.map_cons]
        split <;> simp [conv_val, conv_txt, ih]
      | succ k => simp [convAll, ih]
    | hex ds =>
      cases skip with
      | zero =>
        simp only [convAll, List.map_cons]
        split <;> simp [conv_val, conv_txt, ih]
      | succ k => simp [convAll, ih]

end ReplaceNums
