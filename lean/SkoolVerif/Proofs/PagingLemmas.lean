import SkoolVerif.Proofs.MemLemmas
import SkoolVerif.Spec.AluCheck
/-!
128K paging (`pagingtracer.Memory.out7ffd` + `PagingTracer.write_port`, modelled by
`Z80.Mem128` in `Prelude/Machine.lean`) refines the abstract specification
"the mapping is a function of the last accepted write to port 0x7FFD; a write is accepted iff
A15 = 0, A1 = 0 and bit 5 of the last accepted value is clear".
-/
namespace Paging
open Z80 AluCheck

/-- Abstract spec state: last accepted value (bit 5 = lock). -/
structure Spec where
  last : Int
  deriving DecidableEq, Repr

/-- address-line decode, stated on the bits of the port number -/
def decodes (port : Int) : Prop := (port / 32768) % 2 = 0 ∧ (port / 2) % 2 = 0
instance (p : Int) : Decidable (decodes p) := by unfold decodes; exact inferInstance

def locked (v : Int) : Prop := (v / 32) % 2 = 1
instance (v : Int) : Decidable (locked v) := by unfold locked; exact inferInstance

def Spec.write (s : Spec) (port value : Int) : Spec :=
  if decodes port ∧ ¬ locked s.last then ⟨value⟩ else s

/-- what the spec says is visible in each 16K slot -/
def Spec.romIndex (s : Spec) : Int := (s.last / 16) % 2
def Spec.bankAtC000 (s : Spec) : Int := s.last % 8

theorem beq_decide {A B : Prop} [Decidable A] [Decidable B] (h : (decide A == decide B) = true) : A ↔ B := by
  simpa using h

/-- the mask test `port & 0x8002 == 0` is exactly the address-line decode, for every 16-bit port -/
theorem mask_decodes_all :
    allLt 256 (fun hi => allLt 256 (fun lo =>
      decide (PyInt.land ((256 * hi + lo : Nat) : Int) 0x8002 = 0) == decide (decodes ((256 * hi + lo : Nat) : Int)))) = true := by
  decide +kernel

theorem mask_decodes (port : Int) (h0 : 0 ≤ port) (h1 : port < 65536) :
    PyInt.land port 0x8002 = 0 ↔ decodes port := by
  have := sliced (S := 256) (W := 256)
    (p := fun n => decide (PyInt.land ((n : Nat) : Int) 0x8002 = 0) == decide (decodes ((n : Nat) : Int)))
    (fun k hk => allLt_spec mask_decodes_all k hk) port.toNat (by omega)
  have hp : ((port.toNat : Nat) : Int) = port := by omega
  simp only [hp] at this
  exact beq_decide this

/-- the lock test `out7ffd & 32 == 0` is bit 5, for every byte -/
theorem mask_locked_all :
    allLt 256 (fun v => decide (PyInt.land (v : Int) 32 = 0) == decide (¬ locked (v : Int))) = true := by
  decide +kernel

theorem mask_locked (v : Int) (h0 : 0 ≤ v) (h1 : v < 256) : PyInt.land v 32 = 0 ↔ ¬ locked v := by
  have := allLt_spec mask_locked_all v.toNat (by omega)
  have hp : ((v.toNat : Nat) : Int) = v := by omega
  simp only [hp] at this
  exact beq_decide this

/-- the tracer's copy and the memory's copy of the 0x7FFD value agree, and are a byte -/
def Consistent (m : Mem128) : Prop := m.trOut7ffd = m.o7ffd ∧ 0 ≤ m.o7ffd ∧ m.o7ffd < 256

def abs (m : Mem128) : Spec := ⟨m.o7ffd⟩

theorem portOut_refines (m : Mem128) (port value : Int) (hc : Consistent m)
    (hp : 0 ≤ port ∧ port < 65536) :
    abs (m.portOut port value) = (abs m).write port value := by
  obtain ⟨h1, h2, h3⟩ := hc
  unfold Mem128.portOut Spec.write abs
  simp only [h1, mask_decodes port hp.1 hp.2, mask_locked m.o7ffd h2 h3]
  split <;> simp_all

theorem portOut_consistent (m : Mem128) (port value : Int) (hc : Consistent m)
    (hv : 0 ≤ value ∧ value < 256) : Consistent (m.portOut port value) := by
  obtain ⟨h1, h2, h3⟩ := hc
  unfold Mem128.portOut Consistent
  split <;> simp_all

/-- a history of port writes -/
def writes (m : Mem128) (ws : List (Int × Int)) : Mem128 := ws.foldl (fun m w => m.portOut w.1 w.2) m
def Spec.writes (s : Spec) (ws : List (Int × Int)) : Spec := ws.foldl (fun s w => s.write w.1 w.2) s

def WfWrites (ws : List (Int × Int)) : Prop := ∀ w ∈ ws, (0 ≤ w.1 ∧ w.1 < 65536) ∧ (0 ≤ w.2 ∧ w.2 < 256)

theorem writes_refine (ws : List (Int × Int)) (m : Mem128) (hc : Consistent m) (hw : WfWrites ws) :
    abs (writes m ws) = (abs m).writes ws ∧ Consistent (writes m ws) := by
  induction ws generalizing m with
  | nil => exact ⟨rfl, hc⟩
  | cons w ws ih =>
    have hw0 := hw w (by simp)
    have hws : WfWrites ws := fun x hx => hw x (by simp [hx])
    have := ih (m.portOut w.1 w.2) (portOut_consistent m w.1 w.2 hc hw0.2) hws
    simp only [writes, Spec.writes, List.foldl_cons] at *
    rw [← portOut_refines m w.1 w.2 hc hw0.1]
    exact this

/-- once bit 5 is set, no history of writes changes the mapping -/
theorem locked_absorbing (s : Spec) (h : locked s.last) (ws : List (Int × Int)) : s.writes ws = s := by
  induction ws with
  | nil => rfl
  | cons w ws ih =>
    simp only [Spec.writes, List.foldl_cons] at *
    have : s.write w.1 w.2 = s := by unfold Spec.write; simp [h]
    rw [this]; exact ih

/-- reads are served from the slots the spec prescribes -/
theorem get_rom (m : Mem128) (a : Int) (h0 : 0 ≤ a) (h1 : a < 0x4000) :
    m.get a = (m.roms.getD ((abs m).romIndex).toNat #[]).getD a.toNat 0 := by
  have hq : a / 16384 = 0 := by omega
  have hm : a % 16384 = a := by omega
  have hb : (m.o7ffd % 32) / 16 = (m.o7ffd / 16) % 2 := by omega
  simp [Mem128.get, Mem128.slot, hq, hm, abs, Spec.romIndex, hb]

theorem get_bank5 (m : Mem128) (a : Int) (h0 : 0x4000 ≤ a) (h1 : a < 0x8000) :
    m.get a = (m.banks.getD 5 #[]).getD (a - 0x4000).toNat 0 := by
  have hq : a / 16384 = 1 := by omega
  have hm : a % 16384 = a - 16384 := by omega
  simp [Mem128.get, Mem128.slot, hq, hm]

theorem get_bank2 (m : Mem128) (a : Int) (h0 : 0x8000 ≤ a) (h1 : a < 0xC000) :
    m.get a = (m.banks.getD 2 #[]).getD (a - 0x8000).toNat 0 := by
  have hq : a / 16384 = 2 := by omega
  have hm : a % 16384 = a - 32768 := by omega
  simp [Mem128.get, Mem128.slot, hq, hm]

theorem get_paged (m : Mem128) (a : Int) (h0 : 0xC000 ≤ a) (h1 : a < 0x10000) :
    m.get a = (m.banks.getD ((abs m).bankAtC000).toNat #[]).getD (a - 0xC000).toNat 0 := by
  have hq : a / 16384 = 3 := by omega
  have hm : a % 16384 = a - 49152 := by omega
  simp [Mem128.get, Mem128.slot, hq, hm, abs, Spec.bankAtC000]

/-- a RAM write changes exactly one cell of exactly one physical bank, and nothing else -/
theorem set_one_bank (m : Mem128) (a v : Int) (h0 : 0x4000 ≤ a) (h1 : a < 0x10000) :
    ∃ b off, (m.set a v).banks = m.banks.setIfInBounds b ((m.banks.getD b #[]).setIfInBounds off v) ∧
      (m.set a v).roms = m.roms ∧ (m.set a v).o7ffd = m.o7ffd ∧ (m.set a v).trOut7ffd = m.trOut7ffd ∧
      b = (if a < 0x8000 then 5 else if a < 0xC000 then 2 else (m.o7ffd % 8).toNat) := by
  have hq : a / 16384 = 1 ∨ a / 16384 = 2 ∨ a / 16384 = 3 := by omega
  rcases hq with hq | hq | hq
  · refine ⟨5, (a % 16384).toNat, ?_⟩
    have : a < 0x8000 := by omega
    simp [Mem128.set, Mem128.slot, hq, this]
  · refine ⟨2, (a % 16384).toNat, ?_⟩
    have h2 : ¬ a < 0x8000 := by omega
    have h3 : a < 0xC000 := by omega
    simp [Mem128.set, Mem128.slot, hq, h2, h3]
  · refine ⟨(m.o7ffd % 8).toNat, (a % 16384).toNat, ?_⟩
    have h2 : ¬ a < 0x8000 := by omega
    have h3 : ¬ a < 0xC000 := by omega
    simp [Mem128.set, Mem128.slot, hq, h2, h3]

end Paging
