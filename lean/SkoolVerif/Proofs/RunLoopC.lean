import SkoolVerif.Gen.CLoops.run
import SkoolVerif.Gen.CCmioLoops.run
import SkoolVerif.Proofs.CVsPyStep
import SkoolVerif.Proofs.CVsPyInterrupt
import SkoolVerif.Proofs.RunLoopDefs
/-!
`CSimulator_run` (c/csimulator.c, translated by `translate/cloop2lean.py`: `Gen/CLoops/run.lean` for the plain build,
`Gen/CCmioLoops/run.lean` for `-DCONTENTION`) computes `RunLoop.loop` over the Python step function:

* one pass of the translated loop body = the expansion of `GET_OPCODE_FUNC` selects the row `CSimH.leafOf` selects (the hand
  model of that macro used by `c_step_eq_python`: it is now *derived* from the macro's text), the row's handler runs, then
  `accept_interrupt` if `interrupts && REG(IFF) && TIME % frame_duration < int_active`, then the stop test (`c_body`);
* with `c_step_eq_python` and `c_accept_interrupt_eq_model` that pass is `RunLoop.iter` of the Python machine (`c_pass`);
* by induction on the fuel the loop is `RunLoop.loop` (`c_loop`), and the whole function is `RunLoop.run` when `stop` is given.
-/
open Z80

namespace RunLoop
variable {μ : Type} [MemLike μ] [CellMem μ]

syntax "fetch_case" "[" term,* "]" : tactic
macro_rules
  | `(tactic| fetch_case [$hs,*]) => `(tactic|
    (simp only [cloop_def, Id.run, pure, CInt.land_65535, CInt.u32_mod_65536, $[$hs:term],*, if_true, if_false]
     repeat' split
     all_goals first | rfl | simp_all))

/-! ### plain build -/

/-- one pass of the C loop on the state, in terms of the C step and the C `accept_interrupt` -/
def cIter (cfg : Cfg) (ints fd ia : Int) (s : St μ) : St μ :=
  let s1 := CSimH.step cfg s
  if (ints ≠ 0 ∧ CInt.u32 s1.iff ≠ 0) ∧ s1.t % fd < ia then (CSimH.accept_interrupt cfg s.pc s1).1 else s1

/-- the translated loop body, read off its text: fetch (`GET_OPCODE_FUNC` expanded), call, interrupt test, stop test -/
theorem c_body (cfg : Cfg) (s : St μ) (l : CSimH.Loop.RunLocals) (h : RInv s) :
    CSimH.Loop.run_loop1_body cfg s l =
      ((cIter cfg l.interrupts l.frame_duration l.int_active s, l),
        if l.stop > 65535 ∨ CInt.u32 (cIter cfg l.interrupts l.frame_duration l.int_active s).pc = l.stop then .break_ else .continue_) := by
  have hpc := h.pc
  unfold Word at hpc
  have e1 : CInt.u32 s.pc = s.pc := CInt.u32_of_range _ hpc.1 (by omega)
  unfold cIter CSimH.step CSimH.leafOf
  by_cases h1 : CSimH.isNull (CSimH.tget CSim.tbl_MAIN (mget s.mem s.pc)) = true
  · by_cases h2 : mget s.mem s.pc = 203
    · fetch_case [e1, eq_true h1, eq_true h2]
    · by_cases h3 : mget s.mem s.pc = 237
      · fetch_case [e1, eq_true h1, eq_false h2, eq_true h3]
      · by_cases h4 : mget s.mem s.pc = 221
        · fetch_case [e1, eq_true h1, eq_false h2, eq_false h3, eq_true h4]
        · by_cases h5 : mget s.mem s.pc = 253
          · fetch_case [e1, eq_true h1, eq_false h2, eq_false h3, eq_false h4, eq_true h5]
          · fetch_case [e1, eq_true h1, eq_false h2, eq_false h3, eq_false h4, eq_false h5]
  · fetch_case [e1, eq_false h1]

theorem iff_u32 {s : St μ} (h : RInv s) : CInt.u32 s.iff = s.iff := by
  rcases h.iff with e | e <;> rw [e] <;> rfl

theorem pc_u32 {s : St μ} (h : RInv s) : CInt.u32 s.pc = s.pc := by
  have := h.pc; unfold Word at this
  exact CInt.u32_of_range _ this.1 (by omega)

/-- one pass of the C loop is one pass of the Python machine (`c_step_eq_python`, `c_accept_interrupt_eq_model`) -/
theorem c_pass (cfg : Cfg) (hcfg : CSimH.CfgRep cfg) (hout : CSimH.OutOkAll μ cfg) (s : St μ) (h : RInv s)
    (ht : s.t + Tshift.maxDur < 9223372036854775808) (ints : Int) :
    cIter cfg ints cfg.frame_duration cfg.int_active s = iter simM (decide (ints ≠ 0)) cfg s := by
  unfold cIter iter simM
  simp only []
  have hd := Sim.dur_step cfg s
  have hmd : Tshift.maxDur = 23 := rfl
  rw [CSimH.step_eq_py cfg s h (hcfg.crep s (by unfold Tshift.maxDur at ht; omega)) (hout.at s)]
  have h1 := Sim.rinv_step cfg s h
  have hrep1 : CRep cfg (Sim.step cfg s) := hcfg.crep _ (by omega)
  have hp := h.pc; unfold Word at hp
  rw [iff_u32 h1, CVsPyInt.plain cfg s.pc ⟨hp.1, hp.2⟩ _ h1 hrep1]
  by_cases hi : ints ≠ 0
  · simp only [hi, decide_true, true_and, ne_eq, not_false_eq_true]
  · simp only [hi, decide_false, false_and, Bool.false_eq_true, if_false]

theorem iter_rinv_sim (cfg : Cfg) (ints : Bool) (s : St μ) (h : RInv s) : RInv (iter simM ints cfg s) := by
  unfold iter simM
  simp only []
  split
  · exact rinv_accept _ _ _ (Sim.rinv_step cfg s h)
  · exact Sim.rinv_step cfg s h

theorem iter_t_sim (cfg : Cfg) (ints : Bool) (s : St μ) :
    s.t ≤ (iter simM ints cfg s).t ∧ (iter simM ints cfg s).t ≤ s.t + (Tshift.maxDur + 19) := by
  unfold iter simM
  simp only []
  have h1 := Sim.tmono_step cfg s
  have h2 := Sim.dur_step cfg s
  split
  · have := accept_t false (Sim.step cfg s) s.pc; omega
  · omega

theorem nat_succ_mul (n : Nat) (d : Int) : ((n + 1 : Nat) : Int) * d = (n : Int) * d + d := by
  rw [Int.natCast_add, Int.add_mul]; simp

/-- the translated C loop with a stop address: `RunLoop.loop` of the Python machine -/
theorem c_loop (cfg : Cfg) (hcfg : CSimH.CfgRep cfg) (hout : CSimH.OutOkAll μ cfg) (l : CSimH.Loop.RunLocals)
    (hfd : l.frame_duration = cfg.frame_duration) (hia : l.int_active = cfg.int_active) (hstop : l.stop ≤ 65535)
    (fuel : Nat) (s : St μ) (h : RInv s) (ht : s.t + fuel * (Tshift.maxDur + 19) < 9223372036854775808) :
    CSimH.Loop.run_loop1 cfg fuel s l =
      (((loop simM (decide (l.interrupts ≠ 0)) cfg l.stop fuel s).1, l),
        if (loop simM (decide (l.interrupts ≠ 0)) cfg l.stop fuel s).2 = true then .break_ else .continue_) := by
  unfold CSimH.Loop.run_loop1
  induction fuel generalizing s with
  | zero => simp only [iterate_zero, loop, Bool.false_eq_true, if_false]
  | succ n ih =>
    have hm : (0 : Int) ≤ (n : Int) * (Tshift.maxDur + 19) := Int.mul_nonneg (Int.natCast_nonneg n) (by decide)
    rw [nat_succ_mul] at ht
    have hmd : Tshift.maxDur = 23 := rfl
    have hb := c_body cfg s l h
    rw [hfd, hia, c_pass cfg hcfg hout s h (by omega)] at hb
    have hr := iter_rinv_sim cfg (decide (l.interrupts ≠ 0)) s h
    have hts := iter_t_sim cfg (decide (l.interrupts ≠ 0)) s
    have hu := pc_u32 hr
    rw [hu] at hb
    by_cases hp : (iter simM (decide (l.interrupts ≠ 0)) cfg s).pc = l.stop
    · rw [if_pos (Or.inr hp)] at hb
      rw [iterate_exit _ n (s, l) (by simp only [hb]; exact fun e => nomatch e), hb, loop_stop _ _ _ _ _ _ hp]
      simp only [if_true]
    · have hc : ¬ (l.stop > 65535 ∨ (iter simM (decide (l.interrupts ≠ 0)) cfg s).pc = l.stop) := by
        intro hc; rcases hc with hc | hc
        · omega
        · exact hp hc
      rw [if_neg hc] at hb
      rw [iterate_continue _ n (s, l) (by simp only [hb]), loop_go _ _ _ _ _ _ hp]
      simp only [hb]
      exact ih _ hr (by omega)

/-- without a stop address (`stop` omitted: 0x10000) the C loop makes exactly one pass — interrupt test included -/
theorem c_loop_nostop (cfg : Cfg) (hcfg : CSimH.CfgRep cfg) (hout : CSimH.OutOkAll μ cfg) (l : CSimH.Loop.RunLocals)
    (hfd : l.frame_duration = cfg.frame_duration) (hia : l.int_active = cfg.int_active) (hstop : l.stop > 65535)
    (fuel : Nat) (s : St μ) (h : RInv s) (ht : s.t + Tshift.maxDur < 9223372036854775808) :
    CSimH.Loop.run_loop1 cfg (fuel + 1) s l = ((iter simM (decide (l.interrupts ≠ 0)) cfg s, l), .break_) := by
  unfold CSimH.Loop.run_loop1
  have hb := c_body cfg s l h
  rw [hfd, hia, c_pass cfg hcfg hout s h ht] at hb
  rw [if_pos (Or.inl hstop)] at hb
  rw [iterate_exit _ fuel (s, l) (by simp only [hb]; exact fun e => nomatch e), hb]

/-- format unit `I` of an optional argument with default 0x10000 -/
def argI (a : Option Int) : Int := match a with
  | some v => CInt.u32 v
  | none => 65536
/-- format unit `p` of an optional argument with default 0 -/
def argP (a : Option Bool) : Int := match a with
  | some true => 1
  | _ => 0

theorem argP_ne (a : Option Bool) : decide (argP a ≠ 0) = a.getD false := by
  rcases a with _ | _ | _ <;> rfl

/-- the argument parsing (`"|IIp"`), the `LD(PC, start)` and the exit of `CSimulator_run`, read off the translation -/
theorem c_run_unfold (cfg : Cfg) (fuel : Nat) (a_start a_stop : Option Int) (a_ints : Option Bool) (s : St μ) :
    CSimH.Loop.run cfg fuel a_start a_stop a_ints s =
      ((CSimH.Loop.run_loop1 cfg fuel (if argI a_start < 65536 then { s with pc := argI a_start } else s)
          ⟨argI a_start, argI a_stop, argP a_ints, cfg.frame_duration, cfg.int_active⟩).1.1,
        match (CSimH.Loop.run_loop1 cfg fuel (if argI a_start < 65536 then { s with pc := argI a_start } else s)
          ⟨argI a_start, argI a_stop, argP a_ints, cfg.frame_duration, cfg.int_active⟩).2 with
        | .continue_ => false
        | _ => true) := by
  have h0 : ¬ ((65536 : Int) < 65536) := by decide
  cases a_start with
  | none =>
    cases a_stop <;> rcases a_ints with _ | _ | _ <;>
      simp only [CSimH.Loop.run, Id.run, pure, if_true, if_false, Bool.false_eq_true, argI, argP, h0] <;>
      split <;> simp_all
  | some v =>
    by_cases hlt : CInt.u32 v < 65536 <;> cases a_stop <;> rcases a_ints with _ | _ | _ <;>
      simp only [CSimH.Loop.run, Id.run, pure, if_true, if_false, Bool.false_eq_true, argI, argP, hlt] <;>
      split <;> simp_all

/-- the loop from the start state `s0` -/
theorem c_run_from (cfg : Cfg) (hcfg : CSimH.CfgRep cfg) (hout : CSimH.OutOkAll μ cfg) (fuel : Nat) (stop : Option Int)
    (ints : Option Bool) (s0 : St μ) (h0 : RInv s0) (hstop : ∀ v, stop = some v → 0 ≤ v ∧ v < 65536)
    (ht : s0.t + fuel * (Tshift.maxDur + 19) < 9223372036854775808) (st : Int) :
    ((CSimH.Loop.run_loop1 cfg fuel s0 ⟨st, argI stop, argP ints, cfg.frame_duration, cfg.int_active⟩).1.1,
      match (CSimH.Loop.run_loop1 cfg fuel s0 ⟨st, argI stop, argP ints, cfg.frame_duration, cfg.int_active⟩).2 with
      | .continue_ => false
      | _ => true) = runFromC simM cfg fuel stop (ints.getD false) s0 := by
  cases stop with
  | some v =>
    have hv := hstop v rfl
    have e : argI (some v) = v := CInt.u32_of_range _ hv.1 (by omega)
    rw [e, c_loop cfg hcfg hout _ rfl rfl (by show v ≤ 65535; omega) fuel s0 h0 ht]
    simp only [argP_ne, runFromC]
    rcases loop simM (ints.getD false) cfg v fuel s0 with ⟨r1, r2⟩
    cases r2 <;> simp
  | none =>
    cases fuel with
    | zero => simp only [CSimH.Loop.run_loop1, iterate_zero, runFromC]
    | succ n =>
      have hm : (0 : Int) ≤ (n : Int) * (Tshift.maxDur + 19) := Int.mul_nonneg (Int.natCast_nonneg n) (by decide)
      rw [nat_succ_mul] at ht
      have hmd : Tshift.maxDur = 23 := rfl
      rw [c_loop_nostop cfg hcfg hout _ rfl rfl (by show argI none > 65535; decide) n s0 h0 (by omega)]
      simp only [argP_ne, runFromC]

/-- **`CSimulator_run`, translated, is `RunLoop.runC` of the Python machine** — for every argument triple (addresses in
range), every in-range state and every fuel for which the clock stays below 2^63 -/
theorem c_run (cfg : Cfg) (hcfg : CSimH.CfgRep cfg) (hout : CSimH.OutOkAll μ cfg) (fuel : Nat) (start stop : Option Int)
    (ints : Option Bool) (s : St μ) (h : RInv s)
    (hstart : ∀ v, start = some v → 0 ≤ v ∧ v < 65536) (hstop : ∀ v, stop = some v → 0 ≤ v ∧ v < 65536)
    (ht : s.t + fuel * (Tshift.maxDur + 19) < 9223372036854775808) :
    CSimH.Loop.run cfg fuel start stop ints s = runC simM cfg fuel start stop (ints.getD false) s := by
  rw [c_run_unfold]
  unfold runC
  cases start with
  | none =>
    have e : ¬ argI none < 65536 := by decide
    simp only [e, if_false]
    exact c_run_from cfg hcfg hout fuel stop ints s h hstop ht _
  | some v =>
    have hv := hstart v rfl
    have e : argI (some v) = v := CInt.u32_of_range _ hv.1 (by omega)
    simp only [e, hv.2, if_true]
    exact c_run_from cfg hcfg hout fuel stop ints { s with pc := v }
      ⟨h.regs, h.mem, (⟨hv.1, hv.2⟩ : Word v), h.t, h.iff, h.im, h.halt, h.memptr, h.ins⟩ hstop ht _


section contended
variable [PageStable μ]

/-! ### `-DCONTENTION` build (the same proofs over the contended handlers and `CMIOSimulator`) -/

/-- one pass of the C loop on the state, in terms of the C step and the C `accept_interrupt` -/
def cIterCmio (cfg : Cfg) (ints fd ia : Int) (s : St μ) : St μ :=
  let s1 := CCmioH.step cfg s
  if (ints ≠ 0 ∧ CInt.u32 s1.iff ≠ 0) ∧ s1.t % fd < ia then (CCmioH.accept_interrupt cfg s.pc s1).1 else s1

/-- the translated loop body, read off its text: fetch (`GET_OPCODE_FUNC` expanded), call, interrupt test, stop test -/
theorem c_cmio_body (cfg : Cfg) (s : St μ) (l : CCmioH.Loop.RunLocals) (h : RInv s) :
    CCmioH.Loop.run_loop1_body cfg s l =
      ((cIterCmio cfg l.interrupts l.frame_duration l.int_active s, l),
        if l.stop > 65535 ∨ CInt.u32 (cIterCmio cfg l.interrupts l.frame_duration l.int_active s).pc = l.stop then .break_ else .continue_) := by
  have hpc := h.pc
  unfold Word at hpc
  have e1 : CInt.u32 s.pc = s.pc := CInt.u32_of_range _ hpc.1 (by omega)
  unfold cIterCmio CCmioH.step CSimH.leafOf
  by_cases h1 : CSimH.isNull (CSimH.tget CSim.tbl_MAIN (mget s.mem s.pc)) = true
  · by_cases h2 : mget s.mem s.pc = 203
    · fetch_case [e1, eq_true h1, eq_true h2]
    · by_cases h3 : mget s.mem s.pc = 237
      · fetch_case [e1, eq_true h1, eq_false h2, eq_true h3]
      · by_cases h4 : mget s.mem s.pc = 221
        · fetch_case [e1, eq_true h1, eq_false h2, eq_false h3, eq_true h4]
        · by_cases h5 : mget s.mem s.pc = 253
          · fetch_case [e1, eq_true h1, eq_false h2, eq_false h3, eq_false h4, eq_true h5]
          · fetch_case [e1, eq_true h1, eq_false h2, eq_false h3, eq_false h4, eq_false h5]
  · fetch_case [e1, eq_false h1]

/-- one pass of the C loop is one pass of the Python machine (`c_step_eq_python`, `c_accept_interrupt_eq_model`) -/
theorem c_cmio_pass (cfg : Cfg) (hcfg : CSimH.CfgRep cfg) (hout : CSimH.OutOkAll μ cfg) (s : St μ) (h : RInv s)
    (ht : s.t + Tshift.maxDurCmio < 9223372036854775808) (ints : Int) :
    cIterCmio cfg ints cfg.frame_duration cfg.int_active s = iter cmioM (decide (ints ≠ 0)) cfg s := by
  unfold cIterCmio iter cmioM
  simp only []
  have hd := Cmio.dur_step cfg s
  have hmd : Tshift.maxDurCmio = 143 := rfl
  rw [CCmioH.step_eq_py cfg s h (hcfg.crep s (by unfold Tshift.maxDurCmio at ht; omega)) (hout.at s)]
  have h1 := Cmio.rinv_step cfg s h
  have hrep1 : CRep cfg (Cmio.step cfg s) := hcfg.crep _ (by omega)
  have hp := h.pc; unfold Word at hp
  rw [iff_u32 h1, CVsPyInt.contended cfg s.pc ⟨hp.1, hp.2⟩ _ h1 hrep1]
  by_cases hi : ints ≠ 0
  · simp only [hi, decide_true, true_and, ne_eq, not_false_eq_true]
  · simp only [hi, decide_false, false_and, Bool.false_eq_true, if_false]

theorem iter_rinv_cmio (cfg : Cfg) (ints : Bool) (s : St μ) (h : RInv s) : RInv (iter cmioM ints cfg s) := by
  unfold iter cmioM
  simp only []
  split
  · exact rinv_accept _ _ _ (Cmio.rinv_step cfg s h)
  · exact Cmio.rinv_step cfg s h

theorem iter_t_cmio (cfg : Cfg) (ints : Bool) (s : St μ) :
    s.t ≤ (iter cmioM ints cfg s).t ∧ (iter cmioM ints cfg s).t ≤ s.t + (Tshift.maxDurCmio + 19) := by
  unfold iter cmioM
  simp only []
  have h1 := Cmio.tmono_step cfg s
  have h2 := Cmio.dur_step cfg s
  split
  · have := accept_t true (Cmio.step cfg s) s.pc; omega
  · omega

/-- the translated C loop with a stop address: `RunLoop.loop` of the Python machine -/
theorem c_cmio_loop (cfg : Cfg) (hcfg : CSimH.CfgRep cfg) (hout : CSimH.OutOkAll μ cfg) (l : CCmioH.Loop.RunLocals)
    (hfd : l.frame_duration = cfg.frame_duration) (hia : l.int_active = cfg.int_active) (hstop : l.stop ≤ 65535)
    (fuel : Nat) (s : St μ) (h : RInv s) (ht : s.t + fuel * (Tshift.maxDurCmio + 19) < 9223372036854775808) :
    CCmioH.Loop.run_loop1 cfg fuel s l =
      (((loop cmioM (decide (l.interrupts ≠ 0)) cfg l.stop fuel s).1, l),
        if (loop cmioM (decide (l.interrupts ≠ 0)) cfg l.stop fuel s).2 = true then .break_ else .continue_) := by
  unfold CCmioH.Loop.run_loop1
  induction fuel generalizing s with
  | zero => simp only [iterate_zero, loop, Bool.false_eq_true, if_false]
  | succ n ih =>
    have hm : (0 : Int) ≤ (n : Int) * (Tshift.maxDurCmio + 19) := Int.mul_nonneg (Int.natCast_nonneg n) (by decide)
    rw [nat_succ_mul] at ht
    have hmd : Tshift.maxDurCmio = 143 := rfl
    have hb := c_cmio_body cfg s l h
    rw [hfd, hia, c_cmio_pass cfg hcfg hout s h (by omega)] at hb
    have hr := iter_rinv_cmio cfg (decide (l.interrupts ≠ 0)) s h
    have hts := iter_t_cmio cfg (decide (l.interrupts ≠ 0)) s
    have hu := pc_u32 hr
    rw [hu] at hb
    by_cases hp : (iter cmioM (decide (l.interrupts ≠ 0)) cfg s).pc = l.stop
    · rw [if_pos (Or.inr hp)] at hb
      rw [iterate_exit _ n (s, l) (by simp only [hb]; exact fun e => nomatch e), hb, loop_stop _ _ _ _ _ _ hp]
      simp only [if_true]
    · have hc : ¬ (l.stop > 65535 ∨ (iter cmioM (decide (l.interrupts ≠ 0)) cfg s).pc = l.stop) := by
        intro hc; rcases hc with hc | hc
        · omega
        · exact hp hc
      rw [if_neg hc] at hb
      rw [iterate_continue _ n (s, l) (by simp only [hb]), loop_go _ _ _ _ _ _ hp]
      simp only [hb]
      exact ih _ hr (by omega)

/-- without a stop address (`stop` omitted: 0x10000) the C loop makes exactly one pass — interrupt test included -/
theorem c_cmio_loop_nostop (cfg : Cfg) (hcfg : CSimH.CfgRep cfg) (hout : CSimH.OutOkAll μ cfg) (l : CCmioH.Loop.RunLocals)
    (hfd : l.frame_duration = cfg.frame_duration) (hia : l.int_active = cfg.int_active) (hstop : l.stop > 65535)
    (fuel : Nat) (s : St μ) (h : RInv s) (ht : s.t + Tshift.maxDurCmio < 9223372036854775808) :
    CCmioH.Loop.run_loop1 cfg (fuel + 1) s l = ((iter cmioM (decide (l.interrupts ≠ 0)) cfg s, l), .break_) := by
  unfold CCmioH.Loop.run_loop1
  have hb := c_cmio_body cfg s l h
  rw [hfd, hia, c_cmio_pass cfg hcfg hout s h ht] at hb
  rw [if_pos (Or.inl hstop)] at hb
  rw [iterate_exit _ fuel (s, l) (by simp only [hb]; exact fun e => nomatch e), hb]

/-- the argument parsing (`"|IIp"`), the `LD(PC, start)` and the exit of `CSimulator_run`, read off the translation -/
theorem c_cmio_run_unfold (cfg : Cfg) (fuel : Nat) (a_start a_stop : Option Int) (a_ints : Option Bool) (s : St μ) :
    CCmioH.Loop.run cfg fuel a_start a_stop a_ints s =
      ((CCmioH.Loop.run_loop1 cfg fuel (if argI a_start < 65536 then { s with pc := argI a_start } else s)
          ⟨argI a_start, argI a_stop, argP a_ints, cfg.frame_duration, cfg.int_active⟩).1.1,
        match (CCmioH.Loop.run_loop1 cfg fuel (if argI a_start < 65536 then { s with pc := argI a_start } else s)
          ⟨argI a_start, argI a_stop, argP a_ints, cfg.frame_duration, cfg.int_active⟩).2 with
        | .continue_ => false
        | _ => true) := by
  have h0 : ¬ ((65536 : Int) < 65536) := by decide
  cases a_start with
  | none =>
    cases a_stop <;> rcases a_ints with _ | _ | _ <;>
      simp only [CCmioH.Loop.run, Id.run, pure, if_true, if_false, Bool.false_eq_true, argI, argP, h0] <;>
      split <;> simp_all
  | some v =>
    by_cases hlt : CInt.u32 v < 65536 <;> cases a_stop <;> rcases a_ints with _ | _ | _ <;>
      simp only [CCmioH.Loop.run, Id.run, pure, if_true, if_false, Bool.false_eq_true, argI, argP, hlt] <;>
      split <;> simp_all

/-- the loop from the start state `s0` -/
theorem c_cmio_run_from (cfg : Cfg) (hcfg : CSimH.CfgRep cfg) (hout : CSimH.OutOkAll μ cfg) (fuel : Nat) (stop : Option Int)
    (ints : Option Bool) (s0 : St μ) (h0 : RInv s0) (hstop : ∀ v, stop = some v → 0 ≤ v ∧ v < 65536)
    (ht : s0.t + fuel * (Tshift.maxDurCmio + 19) < 9223372036854775808) (st : Int) :
    ((CCmioH.Loop.run_loop1 cfg fuel s0 ⟨st, argI stop, argP ints, cfg.frame_duration, cfg.int_active⟩).1.1,
      match (CCmioH.Loop.run_loop1 cfg fuel s0 ⟨st, argI stop, argP ints, cfg.frame_duration, cfg.int_active⟩).2 with
      | .continue_ => false
      | _ => true) = runFromC cmioM cfg fuel stop (ints.getD false) s0 := by
  cases stop with
  | some v =>
    have hv := hstop v rfl
    have e : argI (some v) = v := CInt.u32_of_range _ hv.1 (by omega)
    rw [e, c_cmio_loop cfg hcfg hout _ rfl rfl (by show v ≤ 65535; omega) fuel s0 h0 ht]
    simp only [argP_ne, runFromC]
    rcases loop cmioM (ints.getD false) cfg v fuel s0 with ⟨r1, r2⟩
    cases r2 <;> simp
  | none =>
    cases fuel with
    | zero => simp only [CCmioH.Loop.run_loop1, iterate_zero, runFromC]
    | succ n =>
      have hm : (0 : Int) ≤ (n : Int) * (Tshift.maxDurCmio + 19) := Int.mul_nonneg (Int.natCast_nonneg n) (by decide)
      rw [nat_succ_mul] at ht
      have hmd : Tshift.maxDurCmio = 143 := rfl
      rw [c_cmio_loop_nostop cfg hcfg hout _ rfl rfl (by show argI none > 65535; decide) n s0 h0 (by omega)]
      simp only [argP_ne, runFromC]

/-- **`CSimulator_run` of the `-DCONTENTION` build, translated, is `RunLoop.runC` of `CMIOSimulator`** — for every argument triple (addresses in
range), every in-range state and every fuel for which the clock stays below 2^63 -/
theorem c_cmio_run (cfg : Cfg) (hcfg : CSimH.CfgRep cfg) (hout : CSimH.OutOkAll μ cfg) (fuel : Nat) (start stop : Option Int)
    (ints : Option Bool) (s : St μ) (h : RInv s)
    (hstart : ∀ v, start = some v → 0 ≤ v ∧ v < 65536) (hstop : ∀ v, stop = some v → 0 ≤ v ∧ v < 65536)
    (ht : s.t + fuel * (Tshift.maxDurCmio + 19) < 9223372036854775808) :
    CCmioH.Loop.run cfg fuel start stop ints s = runC cmioM cfg fuel start stop (ints.getD false) s := by
  rw [c_cmio_run_unfold]
  unfold runC
  cases start with
  | none =>
    have e : ¬ argI none < 65536 := by decide
    simp only [e, if_false]
    exact c_cmio_run_from cfg hcfg hout fuel stop ints s h hstop ht _
  | some v =>
    have hv := hstart v rfl
    have e : argI (some v) = v := CInt.u32_of_range _ hv.1 (by omega)
    simp only [e, hv.2, if_true]
    exact c_cmio_run_from cfg hcfg hout fuel stop ints { s with pc := v }
      ⟨h.regs, h.mem, (⟨hv.1, hv.2⟩ : Word v), h.t, h.iff, h.im, h.halt, h.memptr, h.ins⟩ hstop ht _


end contended

end RunLoop
