import SkoolVerif.Proofs.C07Slots
/-!
`Disassembler.disassemble` by slot.  Under a kernel-checkable shape condition on `ops` and `after_DD`
(which entries dispatch to the prefix decoders), the table-dependent part `disSym` of the model is the
function `disAt` of the slot of the opcode bytes; the entries that the additional-opcode options can put
at a key are enumerated by `candsAt`, so that a statement about every configuration reduces to a check
over slots × candidates × {upper, lower}.
-/
namespace InstrDec
set_option linter.unusedSimpArgs false

/-- the length the decoder reports when nothing is cut off at 65536 -/
def SOut.nominal (so : SOut) : Nat :=
  match so.fixedLen with
  | some n => n
  | none => (match so.op with
    | .tmpl _ len => len
    | .jr _ _ _ _ => 2
    | .defb _ n => n) + so.add

def isPfx (b : Nat) : Bool := b == 0xCB || b == 0xED || b == 0xDD || b == 0xFD

/-- `ops` sends exactly CB/ED/DD/FD to `cb_arg`/`ed_arg`/`dd_arg`/`fd_arg` (empty template) and `after_DD`
sends exactly CB to `ddcb_arg` -/
def disShape (T : DTables) : Bool :=
  allLt 256 (fun b =>
    let e := T.ops.get 8 b
    (decide (e.segs = [[]]) == isPfx b) &&
    (b != 0xCB || e.kind == .cb_arg) && (b != 0xED || e.kind == .ed_arg) &&
    (b != 0xDD || e.kind == .dd_arg) && (b != 0xFD || e.kind == .fd_arg)) &&
  allLt 256 (fun b => match T.afterDD.get 8 b with
    | none => b != 0xCB
    | some e => (decide (e.segs = [[]]) == (b == 0xCB)) && (b != 0xCB || e.kind == .ddcb_arg))

def fdMap (r : Except DErr SOut) : Except DErr SOut :=
  match r with
  | .ok r => .ok { r with op := mapOpLit ixToIy r.op }
  | .error e => .error e

/-- what the disassembler does with the opcode sequences of a slot -/
def disAt (T : DTables) (c : DCfg) (s : Slot) : Except DErr SOut :=
  match s.tbl with
  | 0 => match getOps T c s.idx with
    | none => .error .key
    | some e => match callTemplate e 0 with
      | .ok op => .ok { op := op }
      | .error x => .error x
  | 1 => cbArg T c s.idx
  | 2 => edArg T c s.idx
  | 3 => ddArgE (getDD T c s.idx) none none
  | 4 => fdMap (ddArgE (getDD T c s.idx) none none)
  | 5 => ddcbArg T c s.idx
  | 6 => fdMap (ddcbArg T c s.idx)
  | _ => .error .key

theorem lowerCs_nil (cs : List Nat) : lowerCs cs = [] ↔ cs = [] := by
  simp [lowerCs]

theorem lower_segs_empty (segs : List (List Nat)) : segs.map lowerCs = [[]] ↔ segs = [[]] := by
  match segs with
  | [] => simp
  | [x] => simp [lowerCs_nil]
  | _ :: _ :: _ => simp

theorem lowerEntry_kind (c : DCfg) (e : DEntry) : (lowerEntry c e).kind = e.kind := by
  unfold lowerEntry; split <;> rfl
theorem lowerEntry_flags (c : DCfg) (e : DEntry) : (lowerEntry c e).flags = e.flags := by
  unfold lowerEntry; split <;> rfl
theorem lowerEntry_num (c : DCfg) (e : DEntry) : (lowerEntry c e).num = e.num := by
  unfold lowerEntry; split <;> rfl
theorem lowerEntry_segs_empty (c : DCfg) (e : DEntry) : (lowerEntry c e).segs = [[]] ↔ e.segs = [[]] := by
  unfold lowerEntry; split
  · exact lower_segs_empty _
  · exact Iff.rfl

theorem fdArg_eq (T : DTables) (c : DCfg) (b1 b3 : Nat) : fdArg T c b1 b3 = fdMap (ddArg T c b1 b3) := by
  unfold fdArg fdMap
  cases ddArg T c b1 b3 <;> rfl

theorem disSym_eq {T : DTables} (h : disShape T = true) (c : DCfg) {b0 b1 b3 : Nat} (h0 : b0 < 256) (h1 : b1 < 256)
    (_h3 : b3 < 256) : disSym T c b0 b1 b3 = disAt T c (slotOf b0 b1 b3) := by
  simp only [disShape, Bool.and_eq_true] at h
  obtain ⟨hops, hdd⟩ := h
  have ho := allLt_spec hops b0 h0
  have hd := allLt_spec hdd b1 h1
  simp only [Bool.and_eq_true, Bool.or_eq_true, bne_iff_ne, ne_eq, beq_iff_eq, isPfx] at ho
  obtain ⟨⟨⟨⟨hseg, hcb⟩, hed⟩, hddk⟩, hfdk⟩ := ho
  have hget : getOps T c b0 = some (lowerEntry c (T.ops.get 8 b0)) := by simp [getOps, T256.at?, h0]
  have hgdd : getDD T c b1 = (T.afterDD.get 8 b1).map (lowerEntry c) := by simp [getDD, T256.at?, h1]
  unfold disSym
  rw [hget]
  simp only [lowerEntry_segs_empty, lowerEntry_kind]
  by_cases c1 : b0 = 0xCB
  · subst c1
    have hs : (T.ops.get 8 0xCB).segs = [[]] := by simpa using hseg
    have hk : (T.ops.get 8 0xCB).kind = .cb_arg := by simpa using hcb
    simp [hs, hk, slotOf, disAt]
  by_cases c2 : b0 = 0xED
  · subst c2
    have hs : (T.ops.get 8 0xED).segs = [[]] := by simpa using hseg
    have hk : (T.ops.get 8 0xED).kind = .ed_arg := by simpa using hed
    simp [hs, hk, slotOf, disAt]
  by_cases c3 : b0 = 0xDD
  · subst c3
    have hs : (T.ops.get 8 0xDD).segs = [[]] := by simpa using hseg
    have hk : (T.ops.get 8 0xDD).kind = .dd_arg := by simpa using hddk
    simp only [hs, if_true, hk]
    unfold ddArg slotOf
    rw [hgdd]
    by_cases c4 : b1 = 0xCB
    · subst c4
      cases hq : T.afterDD.get 8 0xCB with
      | none => simp [hq] at hd
      | some e =>
        simp only [hq, Bool.and_eq_true, Bool.or_eq_true, bne_iff_ne, ne_eq, beq_iff_eq, decide_eq_true_eq, not_true_eq_false,
          false_or, beq_self_eq_true, beq_true] at hd
        simp [disAt, ddArgE, Option.map, lowerEntry_segs_empty, lowerEntry_kind, hd.1, hd.2, ddcbArg]
    · cases hq : T.afterDD.get 8 b1 with
      | none => simp [disAt, c4, ddArgE, hgdd, hq]
      | some e =>
        have hne : e.segs ≠ [[]] := by
          intro hx; simp [hq, hx, c4] at hd
        simp [disAt, c4, ddArgE, Option.map, lowerEntry_segs_empty, hne, hgdd, hq]
  by_cases c5 : b0 = 0xFD
  · subst c5
    have hs : (T.ops.get 8 0xFD).segs = [[]] := by simpa using hseg
    have hk : (T.ops.get 8 0xFD).kind = .fd_arg := by simpa using hfdk
    simp only [hs, if_true, hk]
    rw [fdArg_eq]
    unfold ddArg slotOf
    rw [hgdd]
    by_cases c4 : b1 = 0xCB
    · subst c4
      cases hq : T.afterDD.get 8 0xCB with
      | none => simp [hq] at hd
      | some e =>
        simp only [hq, Bool.and_eq_true, Bool.or_eq_true, bne_iff_ne, ne_eq, beq_iff_eq, decide_eq_true_eq, not_true_eq_false,
          false_or, beq_self_eq_true, beq_true] at hd
        simp [disAt, ddArgE, Option.map, lowerEntry_segs_empty, lowerEntry_kind, hd.1, hd.2, ddcbArg]
    · cases hq : T.afterDD.get 8 b1 with
      | none => simp [disAt, c4, ddArgE, hgdd, hq]
      | some e =>
        have hne : e.segs ≠ [[]] := by
          intro hx; simp [hq, hx, c4] at hd
        simp [disAt, c4, ddArgE, Option.map, lowerEntry_segs_empty, hne, hgdd, hq]
  · have hs : (T.ops.get 8 b0).segs ≠ [[]] := by
      intro hx; simp [hx, c1, c2, c3, c5] at hseg
    simp only [hs, if_false, slotOf, c1, c2, c3, c5, disAt, hget]
    cases callTemplate (lowerEntry c (T.ops.get 8 b0)) 0 <;> rfl

/-! ### every additional-opcode configuration -/

/-- which overlay table (0 = after_ED, 1 = after_DDCB) the slots of a table consult -/
def ovTbl : Nat → Option Nat
  | 2 => some 0
  | 5 => some 1
  | 6 => some 1
  | _ => none

def baseAt (T : DTables) (s : Slot) : Option DEntry :=
  match s.tbl with
  | 2 => T.afterED.get 8 s.idx
  | 5 => T.afterDDCB.get 8 s.idx
  | 6 => T.afterDDCB.get 8 s.idx
  | _ => none

/-- every entry that some additional-opcode configuration can put at the key of the slot -/
def candsAt (T : DTables) (s : Slot) : List (Option DEntry) :=
  match ovTbl s.tbl with
  | some t => baseAt T s :: (T.overlays.filter (fun o => o.tbl == t && o.key == s.idx)).map (fun o => some o.e)
  | none => [none]

/-- the entry under `Opcodes=ALL` -/
def candAll (T : DTables) (s : Slot) : Option DEntry :=
  match ovTbl s.tbl with
  | some t =>
    match T.overlays.find? (fun o => o.tbl == t && o.key == s.idx) with
    | some o => some o.e
    | none => baseAt T s
  | none => none

/-- `disAt` with the overlaid entry given -/
def disAtC (T : DTables) (lower : Bool) (s : Slot) (cand : Option DEntry) : Except DErr SOut :=
  match s.tbl with
  | 2 => edArgE (cand.map (lowerEntry { lower := lower }))
  | 5 => ddcbArgE (cand.map (lowerEntry { lower := lower }))
  | 6 => fdMap (ddcbArgE (cand.map (lowerEntry { lower := lower })))
  | _ => disAt T { lower := lower } s

theorem lowerEntry_congr (c c' : DCfg) (h : c.lower = c'.lower) : lowerEntry c = lowerEntry c' := by
  funext e; simp [lowerEntry, h]

theorem overlaid_cases (T : DTables) (c : DCfg) (t k : Nat) (base : Option DEntry) :
    overlaid T c t k base = base ∨
    ∃ o ∈ T.overlays.filter (fun o => o.tbl == t && o.key == k), overlaid T c t k base = some o.e := by
  unfold overlaid
  cases hf : T.overlays.find? (fun o => o.tbl == t && o.key == k && optOn c o.opt) with
  | none => exact Or.inl rfl
  | some o =>
    refine Or.inr ⟨o, ?_, rfl⟩
    have h1 := List.mem_of_find?_eq_some hf
    have h2 := List.find?_some hf
    simp only [Bool.and_eq_true] at h2
    simp [List.mem_filter, h1, h2.1.1, h2.1.2]

theorem find?_ext {α : Type} (l : List α) (p q : α → Bool) (h : ∀ x ∈ l, p x = q x) : l.find? p = l.find? q := by
  induction l with
  | nil => rfl
  | cons x r ih =>
    simp only [List.find?_cons, h x (List.mem_cons_self ..)]
    rw [ih (fun y hy => h y (List.mem_cons_of_mem _ hy))]

theorem overlaid_all (T : DTables) (c : DCfg) (t k : Nat) (base : Option DEntry)
    (hc : ∀ o ∈ T.overlays, optOn c o.opt = true) :
    overlaid T c t k base = match T.overlays.find? (fun o => o.tbl == t && o.key == k) with
      | some o => some o.e
      | none => base := by
  unfold overlaid
  have : T.overlays.find? (fun o => o.tbl == t && o.key == k && optOn c o.opt) =
      T.overlays.find? (fun o => o.tbl == t && o.key == k) := by
    apply find?_ext
    intro o ho
    simp [hc o ho]
  rw [this]
  cases List.find? (fun o => o.tbl == t && o.key == k) T.overlays <;> rfl

theorem overlaid_none (T : DTables) (c : DCfg) (t k : Nat) (base : Option DEntry)
    (hc : ∀ o ∈ T.overlays, optOn c o.opt = false) : overlaid T c t k base = base := by
  unfold overlaid
  have : T.overlays.find? (fun o => o.tbl == t && o.key == k && optOn c o.opt) = none := by
    rw [List.find?_eq_none]
    intro o ho
    simp [hc o ho]
  rw [this]

theorem disAt_lower (T : DTables) (c : DCfg) (s : Slot) (h : ovTbl s.tbl = none) :
    disAt T c s = disAt T { lower := c.lower } s := by
  have hl := lowerEntry_congr c { lower := c.lower } rfl
  have hcb : ∀ b, getCB T c b = getCB T { lower := c.lower } b := by intro b; simp [getCB]
  unfold disAt
  obtain ⟨t, i⟩ := s
  simp only [getOps, getDD, cbArg, hl, hcb]
  match t, h with
  | 0, _ => rfl
  | 1, _ => rfl
  | 3, _ => rfl
  | 4, _ => rfl
  | n + 7, _ => rfl

/-- the result at a slot under any configuration is the result for one of the candidates -/
theorem disAt_cand (T : DTables) (c : DCfg) (s : Slot) (hi : s.idx < 256) :
    ∃ cand ∈ candsAt T s, disAt T c s = disAtC T c.lower s cand := by
  have hl := lowerEntry_congr c { lower := c.lower } rfl
  obtain ⟨t, i⟩ := s
  simp only at hi
  by_cases h2 : t = 2
  · subst h2
    rcases overlaid_cases T c 0 i (T.afterED.get 8 i) with h | ⟨o, ho, h⟩
    · exact ⟨T.afterED.get 8 i, by simp [candsAt, ovTbl, baseAt], by simp [disAt, disAtC, edArg, getED, T256.at?, hi, h, hl]⟩
    · refine ⟨some o.e, ?_, by simp [disAt, disAtC, edArg, getED, T256.at?, hi, h, hl]⟩
      simp only [candsAt, ovTbl, List.mem_cons, List.mem_map]
      exact Or.inr ⟨o, ho, rfl⟩
  by_cases h5 : t = 5
  · subst h5
    rcases overlaid_cases T c 1 i (T.afterDDCB.get 8 i) with h | ⟨o, ho, h⟩
    · exact ⟨T.afterDDCB.get 8 i, by simp [candsAt, ovTbl, baseAt], by simp [disAt, disAtC, ddcbArg, getDDCB, T256.at?, hi, h, hl]⟩
    · refine ⟨some o.e, ?_, by simp [disAt, disAtC, ddcbArg, getDDCB, T256.at?, hi, h, hl]⟩
      simp only [candsAt, ovTbl, List.mem_cons, List.mem_map]
      exact Or.inr ⟨o, ho, rfl⟩
  by_cases h6 : t = 6
  · subst h6
    rcases overlaid_cases T c 1 i (T.afterDDCB.get 8 i) with h | ⟨o, ho, h⟩
    · exact ⟨T.afterDDCB.get 8 i, by simp [candsAt, ovTbl, baseAt], by simp [disAt, disAtC, ddcbArg, getDDCB, T256.at?, hi, h, hl]⟩
    · refine ⟨some o.e, ?_, by simp [disAt, disAtC, ddcbArg, getDDCB, T256.at?, hi, h, hl]⟩
      simp only [candsAt, ovTbl, List.mem_cons, List.mem_map]
      exact Or.inr ⟨o, ho, rfl⟩
  · have hov : ovTbl t = none := by
      unfold ovTbl; split <;> simp_all
    refine ⟨none, by simp [candsAt, hov], ?_⟩
    rw [disAt_lower T c ⟨t, i⟩ hov]
    unfold disAtC
    split <;> simp_all

/-- under `Opcodes=ALL` the candidate is `candAll` -/
theorem disAt_all (T : DTables) (c : DCfg) (s : Slot) (hi : s.idx < 256)
    (hc : ∀ o ∈ T.overlays, optOn c o.opt = true) : disAt T c s = disAtC T c.lower s (candAll T s) := by
  have hl := lowerEntry_congr c { lower := c.lower } rfl
  obtain ⟨t, i⟩ := s
  simp only at hi
  by_cases h2 : t = 2
  · subst h2
    simp [disAt, disAtC, edArg, getED, T256.at?, hi, hl, overlaid_all T c 0 i _ hc, candAll, ovTbl, baseAt]
  by_cases h5 : t = 5
  · subst h5
    simp [disAt, disAtC, ddcbArg, getDDCB, T256.at?, hi, hl, overlaid_all T c 1 i _ hc, candAll, ovTbl, baseAt]
  by_cases h6 : t = 6
  · subst h6
    simp [disAt, disAtC, ddcbArg, getDDCB, T256.at?, hi, hl, overlaid_all T c 1 i _ hc, candAll, ovTbl, baseAt]
  · have hov : ovTbl t = none := by
      unfold ovTbl; split <;> simp_all
    rw [disAt_lower T c ⟨t, i⟩ hov]
    unfold disAtC
    split <;> simp_all

/-- with no additional opcodes the candidate is the base entry -/
theorem disAt_none (T : DTables) (c : DCfg) (s : Slot) (hi : s.idx < 256)
    (hc : ∀ o ∈ T.overlays, optOn c o.opt = false) : disAt T c s = disAtC T c.lower s (baseAt T s) := by
  have hl := lowerEntry_congr c { lower := c.lower } rfl
  obtain ⟨t, i⟩ := s
  simp only at hi
  by_cases h2 : t = 2
  · subst h2
    simp [disAt, disAtC, edArg, getED, T256.at?, hi, hl, overlaid_none T c 0 i _ hc, baseAt]
  by_cases h5 : t = 5
  · subst h5
    simp [disAt, disAtC, ddcbArg, getDDCB, T256.at?, hi, hl, overlaid_none T c 1 i _ hc, baseAt]
  by_cases h6 : t = 6
  · subst h6
    simp [disAt, disAtC, ddcbArg, getDDCB, T256.at?, hi, hl, overlaid_none T c 1 i _ hc, baseAt]
  · have hov : ovTbl t = none := by
      unfold ovTbl; split <;> simp_all
    rw [disAt_lower T c ⟨t, i⟩ hov]
    unfold disAtC
    split <;> simp_all

/-- kernel-evaluable: `p` holds for the result of every candidate at every slot, in both letter cases -/
def allDis (T : DTables) (p : Slot → Except DErr SOut → Bool) : Bool :=
  allSlots (fun s => (candsAt T s).all (fun cand => p s (disAtC T false s cand) && p s (disAtC T true s cand)))

/-- `p` holds for the result of every candidate at every slot, in both letter cases -/
def ForallDis (T : DTables) (p : Slot → Except DErr SOut → Bool) : Prop :=
  ∀ s : Slot, s.valid = true → ∀ cand ∈ candsAt T s, ∀ lw : Bool, p s (disAtC T lw s cand) = true

theorem allDis_forall {T : DTables} {p : Slot → Except DErr SOut → Bool} (h : allDis T p = true) : ForallDis T p := by
  intro s hv cand hmem lw
  have hall := allSlots_spec h _ hv
  rw [List.all_eq_true] at hall
  have := hall cand hmem
  simp only [Bool.and_eq_true] at this
  cases lw
  · exact this.1
  · exact this.2

/-- the lifting step for statements about every configuration and every opcode sequence -/
theorem disSym_forall {T : DTables} (hs : disShape T = true) {p : Slot → Except DErr SOut → Bool} (h : ForallDis T p)
    (c : DCfg) {b0 b1 b3 : Nat} (h0 : b0 < 256) (h1 : b1 < 256) (h3 : b3 < 256) :
    p (slotOf b0 b1 b3) (disSym T c b0 b1 b3) = true := by
  rw [disSym_eq hs c h0 h1 h3]
  have hv := slotOf_valid h0 h1 h3
  have hi : (slotOf b0 b1 b3).idx < 256 := by
    simp only [Slot.valid, Bool.and_eq_true, decide_eq_true_eq] at hv; exact hv.1.1.2
  obtain ⟨cand, hmem, heq⟩ := disAt_cand T c (slotOf b0 b1 b3) hi
  rw [heq]
  exact h _ hv cand hmem c.lower

theorem allDis_spec {T : DTables} (hs : disShape T = true) {p : Slot → Except DErr SOut → Bool} (h : allDis T p = true)
    (c : DCfg) {b0 b1 b3 : Nat} (h0 : b0 < 256) (h1 : b1 < 256) (h3 : b3 < 256) :
    p (slotOf b0 b1 b3) (disSym T c b0 b1 b3) = true :=
  disSym_forall hs (allDis_forall h) c h0 h1 h3

/-- upper-case variants (for statements about the operation text, which `asm_lower` changes) -/
def allDisU (T : DTables) (p : Slot → Except DErr SOut → Bool) : Bool :=
  allSlots (fun s => (candsAt T s).all (fun cand => p s (disAtC T false s cand)))

theorem disSym_forall_upper {T : DTables} (hs : disShape T = true) {p : Slot → Except DErr SOut → Bool}
    (h : allDisU T p = true) (c : DCfg) (hlow : c.lower = false) {b0 b1 b3 : Nat} (h0 : b0 < 256) (h1 : b1 < 256)
    (h3 : b3 < 256) : p (slotOf b0 b1 b3) (disSym T c b0 b1 b3) = true := by
  rw [disSym_eq hs c h0 h1 h3]
  have hv := slotOf_valid h0 h1 h3
  have hi : (slotOf b0 b1 b3).idx < 256 := by
    simp only [Slot.valid, Bool.and_eq_true, decide_eq_true_eq] at hv; exact hv.1.1.2
  obtain ⟨cand, hmem, heq⟩ := disAt_cand T c (slotOf b0 b1 b3) hi
  rw [heq, hlow]
  have hall := allSlots_spec h _ hv
  rw [List.all_eq_true] at hall
  exact hall cand hmem

end InstrDec
