import SkoolVerif.Gen.CHandlers
import SkoolVerif.Gen.CCmioHandlers
import SkoolVerif.Gen.CmioVsSimThms
import SkoolVerif.Proofs.CVsPyTables
/-! One instruction / `n` instructions of the C simulators (plain and `-DCONTENTION` build): the row selected by
`CSimH.leafOf` (the model of `GET_OPCODE_FUNC`, `Proofs/CVsPyTables.lean`) run by the handler translated from C. -/
open Z80

namespace CSimH
variable {μ : Type} [MemLike μ]

/-- one pass of the C run loop without interrupts: fetch the row, call its handler (plain build) -/
def step (cfg : Cfg) (s : St μ) : St μ := execLeaf cfg (leafOf s) s

def runN (cfg : Cfg) : Nat → St μ → St μ
  | 0, s => s
  | n + 1, s => runN cfg n (step cfg s)

end CSimH

namespace CCmioH
open CmioVsSim
variable {μ : Type} [MemLike μ]

/-- one pass of the C run loop without interrupts, `-DCONTENTION` build: the same tables and `GET_OPCODE_FUNC`, the
handlers compiled with contention -/
def step (cfg : Cfg) (s : St μ) : St μ := execLeaf cfg (toCmio (CSimH.leafOf s)) s

def runN (cfg : Cfg) : Nat → St μ → St μ
  | 0, s => s
  | n + 1, s => runN cfg n (step cfg s)

end CCmioH
