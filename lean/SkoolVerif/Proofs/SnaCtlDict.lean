import SkoolVerif.Model.SnaCtl
/-!
Lemmas about the sorted-association-list model of a Python `dict` used by `Model/SnaCtl.lean`.
-/
namespace SnaCtl

/-- keys strictly increasing -/
def Sorted (d : Dict) : Prop := (keys d).Pairwise (· < ·)

@[simp] theorem keys_nil : keys ([] : Dict) = [] := rfl
@[simp] theorem keys_cons (k : Nat) (v : Ctl) (r : Dict) : keys ((k, v) :: r) = k :: keys r := rfl

theorem sorted_nil : Sorted [] := by simp [Sorted]

theorem sorted_cons {k : Nat} {v : Ctl} {r : Dict} :
    Sorted ((k, v) :: r) ↔ (∀ k' ∈ keys r, k < k') ∧ Sorted r := by
  simp [Sorted, List.pairwise_cons]

theorem mem_keys_dset (d : Dict) (k : Nat) (v : Ctl) (k' : Nat) :
    k' ∈ keys (dset d k v) ↔ k' = k ∨ k' ∈ keys d := by
  induction d with
  | nil => simp [dset]
  | cons h r ih =>
    obtain ⟨hk, hv⟩ := h
    unfold dset
    split
    · simp
    · split
      · subst_vars; simp
      · simp [ih]; grind

theorem sorted_dset {d : Dict} (h : Sorted d) (k : Nat) (v : Ctl) : Sorted (dset d k v) := by
  induction d with
  | nil => simp [dset, Sorted]
  | cons hd r ih =>
    obtain ⟨hk, hv⟩ := hd
    rw [sorted_cons] at h
    unfold dset
    split
    · rw [sorted_cons]
      refine ⟨?_, sorted_cons.mpr h⟩
      intro k' hk'
      simp at hk'
      rcases hk' with rfl | hk'
      · assumption
      · have := h.1 k' hk'; omega
    · split
      · subst_vars
        rw [sorted_cons]; exact h
      · rw [sorted_cons]
        refine ⟨?_, ih h.2⟩
        intro k' hk'
        rw [mem_keys_dset] at hk'
        rcases hk' with rfl | hk'
        · omega
        · exact h.1 k' hk'

theorem mem_keys_ddel {d : Dict} (h : Sorted d) (k k' : Nat) :
    k' ∈ keys (ddel d k) ↔ k' ≠ k ∧ k' ∈ keys d := by
  induction d with
  | nil => simp [ddel]
  | cons hd r ih =>
    obtain ⟨hk, hv⟩ := hd
    rw [sorted_cons] at h
    unfold ddel
    split
    · subst_vars
      simp
      constructor
      · intro hm; have := h.1 k' hm; exact ⟨by omega, Or.inr hm⟩
      · rintro ⟨hne, rfl | hm⟩
        · exact absurd rfl hne
        · exact hm
    · simp [ih h.2]; grind

theorem sorted_ddel {d : Dict} (h : Sorted d) (k : Nat) : Sorted (ddel d k) := by
  induction d with
  | nil => simp [ddel, Sorted]
  | cons hd r ih =>
    obtain ⟨hk, hv⟩ := hd
    rw [sorted_cons] at h
    unfold ddel
    split
    · exact h.2
    · rw [sorted_cons]
      refine ⟨?_, ih h.2⟩
      intro k' hk'
      rw [mem_keys_ddel h.2] at hk'
      exact h.1 k' hk'.2

theorem dget_eq_none_iff (d : Dict) (k : Nat) : dget d k = none ↔ k ∉ keys d := by
  induction d with
  | nil => simp [dget]
  | cons hd r ih =>
    obtain ⟨hk, hv⟩ := hd
    unfold dget
    split
    · subst_vars; simp
    · simp [ih]; omega

theorem dget_isSome_iff (d : Dict) (k : Nat) : (∃ v, dget d k = some v) ↔ k ∈ keys d := by
  have := dget_eq_none_iff d k
  cases h : dget d k <;> simp_all

theorem dget_dset_eq (d : Dict) (k : Nat) (v : Ctl) : dget (dset d k v) k = some v := by
  induction d with
  | nil => simp [dset, dget]
  | cons hd r ih =>
    obtain ⟨hk, hv⟩ := hd
    unfold dset
    split
    · simp [dget]
    · split
      · simp [dget]
      · rw [dget]; simp [ih]; intro h; omega

theorem dget_dset_ne (d : Dict) {k k' : Nat} (v : Ctl) (h : k' ≠ k) : dget (dset d k v) k' = dget d k' := by
  induction d with
  | nil => simp [dset, dget, h]
  | cons hd r ih =>
    obtain ⟨hk, hv⟩ := hd
    unfold dset
    split
    · simp [dget, h]
    · split
      · subst_vars; simp [dget, h]
      · simp [dget, ih]

theorem dget_ddel_ne (d : Dict) {k k' : Nat} (h : k' ≠ k) : dget (ddel d k) k' = dget d k' := by
  induction d with
  | nil => simp [ddel]
  | cons hd r ih =>
    obtain ⟨hk, hv⟩ := hd
    unfold ddel
    split
    · subst_vars; simp [dget, h]
    · simp [dget, ih]

theorem dget_ddel_eq {d : Dict} (hs : Sorted d) (k : Nat) : dget (ddel d k) k = none := by
  rw [dget_eq_none_iff, mem_keys_ddel hs]; simp

/-- `dict(l)` of a strictly increasing pair list is the list itself. -/
theorem dset_append_last (d : Dict) (k : Nat) (v : Ctl) (h : ∀ k' ∈ keys d, k' < k) :
    dset d k v = d ++ [(k, v)] := by
  induction d with
  | nil => simp [dset]
  | cons hd r ih =>
    obtain ⟨hk, hv⟩ := hd
    have h1 : hk < k := h hk (by simp)
    unfold dset
    rw [if_neg (by omega), if_neg (by omega)]
    simp
    exact ih (fun k' hk' => h k' (by simp [hk']))

theorem foldl_dset_sorted (l : List (Nat × Ctl)) (d : Dict)
    (h : (keys (d ++ l)).Pairwise (· < ·)) :
    l.foldl (fun d kv => dset d kv.1 kv.2) d = d ++ l := by
  induction l generalizing d with
  | nil => simp
  | cons hd r ih =>
    obtain ⟨k, v⟩ := hd
    simp only [List.foldl_cons]
    have hk : ∀ k' ∈ keys d, k' < k := by
      intro k' hk'
      simp [keys, List.pairwise_append] at h
      obtain ⟨_, _, h3⟩ := h
      simp [keys] at hk'
      obtain ⟨cv, hc⟩ := hk'
      exact (h3 k' cv hc).1
    rw [dset_append_last d k v hk, ih]
    · simp
    · simpa using h

theorem dictOf_sorted (l : List (Nat × Ctl)) (h : Sorted l) : dictOf l = l := by
  have := foldl_dset_sorted l [] (by simpa [Sorted] using h)
  simpa [dictOf] using this

end SnaCtl
