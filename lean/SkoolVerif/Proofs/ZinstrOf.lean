import SkoolVerif.Gen.SimHandlers
import SkoolVerif.Spec.Z80Sem
/-!
`zinstrOf`: the proof-internal map from the implementation's vocabulary (a closure of
`simulator.py` together with the arguments a dispatch-table row passes to it) to the ISA-level
instruction it is meant to implement, with the length / T-states / M1 count the row encodes.
`none` = the argument tuple has no ISA meaning (never occurs in a dispatch table: that is what
the `dispatch_*_ok` theorems check, slot by slot, against the independent decoder).
-/
namespace C05
open Z80Isa Spec

/-- general-purpose 8-bit registers by slot number -/
def gpr (r : Int) : Option Reg8 :=
  if r = 0 then some .A else if r = 2 then some .B else if r = 3 then some .C
  else if r = 4 then some .D else if r = 5 then some .E else if r = 6 then some .H
  else if r = 7 then some .L else if r = 8 then some .IXh else if r = 9 then some .IXl
  else if r = 10 then some .IYh else if r = 11 then some .IYl else none

/-- `gpr` plus I and R (LD I,A / LD R,A) -/
def reg8Of (r : Int) : Option Reg8 :=
  if r = 14 then some .I else if r = 15 then some .R else gpr r

/-- register pair by (high slot, low slot); SP is (13, 12) -/
def pairOf (rh rl : Int) : Option Reg16 :=
  if rh = 2 ∧ rl = 3 then some .BC else if rh = 4 ∧ rl = 5 then some .DE
  else if rh = 6 ∧ rl = 7 then some .HL else if rh = 13 ∧ rl = 12 then some .SP
  else if rh = 8 ∧ rl = 9 then some .IX else if rh = 10 ∧ rl = 11 then some .IY
  else if rh = 0 ∧ rl = 1 then some .AF else none

def idxOf (xyh xyl : Int) : Option Reg16 :=
  if xyh = 8 ∧ xyl = 9 then some .IX else if xyh = 10 ∧ xyl = 11 then some .IY else none

def m1Of : TblI1 → Option Int
  | .R1 => some 1
  | .R2 => some 2
  | _ => none

/-- `(c_and, c_val)` of `jp`/`jr`: the branch is taken when `F & c_and == c_val` -/
def condOf (c_and c_val : Int) : Option (Option Cond) :=
  if c_and = 0 ∧ c_val = 0 then some none
  else if c_and = 64 ∧ c_val = 0 then some (some .NZ) else if c_and = 64 ∧ c_val = 64 then some (some .Z)
  else if c_and = 1 ∧ c_val = 0 then some (some .NC) else if c_and = 1 ∧ c_val = 1 then some (some .C)
  else if c_and = 4 ∧ c_val = 0 then some (some .PO) else if c_and = 4 ∧ c_val = 4 then some (some .PE)
  else if c_and = 128 ∧ c_val = 0 then some (some .P) else if c_and = 128 ∧ c_val = 128 then some (some .M)
  else none

/-- `(c_and, c_val)` of `call`/`ret`: the branch is *not* taken when `F & c_and == c_val` -/
def condInvOf (c_and c_val : Int) : Option (Option Cond) :=
  if c_and = 0 ∧ c_val = 0 then some none
  else if c_and = 64 ∧ c_val = 64 then some (some .NZ) else if c_and = 64 ∧ c_val = 0 then some (some .Z)
  else if c_and = 1 ∧ c_val = 1 then some (some .NC) else if c_and = 1 ∧ c_val = 0 then some (some .C)
  else if c_and = 4 ∧ c_val = 4 then some (some .PO) else if c_and = 4 ∧ c_val = 0 then some (some .PE)
  else if c_and = 128 ∧ c_val = 128 then some (some .P) else if c_and = 128 ∧ c_val = 0 then some (some .M)
  else none

def aluOf : TblP2 → Option AluOp
  | .ADD => some .ADD | .SUB => some .SUB | .AND => some .AND | .XOR => some .XOR | .OR => some .OR
  | .CP => some .CP | _ => none

def aluCOf : TblP3 → AluOp
  | .ADC => .ADC | .SBC => .SBC

def accOf : TblP2 → Option AccOp
  | .RLCA => some .RLCA | .RRCA => some .RRCA | .RLA => some .RLA | .RRA => some .RRA
  | .DAA => some .DAA | .CPL => some .CPL | _ => none

def rotOf : TblP1 → Option RotOp
  | .RLC => some .RLC | .RRC => some .RRC | .SLA => some .SLA | .SLL => some .SLL | .SRA => some .SRA
  | .SRL => some .SRL | .NEG => none

/-- bit cleared by a RES mask -/
def resBitOf (m : Int) : Option Nat :=
  if m = 254 then some 0 else if m = 253 then some 1 else if m = 251 then some 2
  else if m = 247 then some 3 else if m = 239 then some 4 else if m = 223 then some 5
  else if m = 191 then some 6 else if m = 127 then some 7 else none

/-- bit set by a SET mask -/
def setBitOf (m : Int) : Option Nat :=
  if m = 1 then some 0 else if m = 2 then some 1 else if m = 4 then some 2
  else if m = 8 then some 3 else if m = 16 then some 4 else if m = 32 then some 5
  else if m = 64 then some 6 else if m = 128 then some 7 else none

/-- `dest` of the DDCB/FDCB closures: −1 = no register copy -/
def copyOf (dest : Int) : Option (Option Reg8) :=
  if dest = -1 then some none else (gpr dest).map some

def dirOf (inc : Int) : Option Bool :=
  if inc = 1 then some false else if inc = -1 then some true else none

def repOf (r : Int) : Option Bool :=
  if r = 0 then some false else if r = 1 then some true else none

def mk (i : ZInstr) (size t tAlt m1 : Int) : Option Decoded := some ⟨i, size, t, tAlt, m1⟩

/-- the table-driven read-modify-write closures `fc_*` (DEC/INC/RL/RR) -/
def fcInstr (fc : TblP2) (l : Loc8) (copy : Option Reg8) : Option ZInstr :=
  match fc with
  | .INC => if copy = none then some (.inc8 l) else none
  | .DEC => if copy = none then some (.dec8 l) else none
  | .RL => some (.rot .RL l copy)
  | .RR => some (.rot .RR l copy)
  | _ => none

def blockD (k : BlockKind) (inc repeat_ : Int) : Option Decoded := do
  let dec ← dirOf inc
  let rep ← repOf repeat_
  mk (.block k dec rep) 2 16 (if rep then 21 else 16) 2

def zinstrOf : Sim.Instr → Option Decoded
  | .af_hl af => do let op ← aluOf af; mk (.alu8 op (.ind .HL)) 1 7 7 1
  | .af_n af => do let op ← aluOf af; mk (.alu8 op .imm) 2 7 7 1
  | .af_r r_inc timing size af r => do
    let m ← m1Of r_inc
    match aluOf af, accOf af with
    | some op, _ => do let g ← gpr r; mk (.alu8 op (.reg g)) size timing timing m
    | none, some op => if r = 1 then mk (.acc op) size timing timing m else none
    | none, none => none
  | .af_xy af xyh xyl => do
    let op ← aluOf af; let i ← idxOf xyh xyl; mk (.alu8 op (.idx i)) 3 19 19 2
  | .afc_hl afc => mk (.alu8 (aluCOf afc) (.ind .HL)) 1 7 7 1
  | .afc_n afc => mk (.alu8 (aluCOf afc) .imm) 2 7 7 1
  | .afc_r r_inc timing size afc r => do
    let m ← m1Of r_inc; let g ← gpr r; mk (.alu8 (aluCOf afc) (.reg g)) size timing timing m
  | .afc_xy afc xyh xyl => do let i ← idxOf xyh xyl; mk (.alu8 (aluCOf afc) (.idx i)) 3 19 19 2
  | .f_hl f => do let op ← rotOf f; mk (.rot op (.ind .HL) none) 2 15 15 2
  | .f_r f r => do let op ← rotOf f; let g ← gpr r; mk (.rot op (.reg g) none) 2 8 8 2
  | .f_xy f xyh xyl dest => do
    let op ← rotOf f; let i ← idxOf xyh xyl; let c ← copyOf dest; mk (.rot op (.idx i) c) 4 23 23 2
  | .fc_hl r_inc timing size fc => do
    let m ← m1Of r_inc; let i ← fcInstr fc (.ind .HL) none; mk i size timing timing m
  | .fc_r r_inc timing size fc r => do
    let m ← m1Of r_inc
    match fc with
    | .ADC_A_A => if r = 0 then mk (.alu8 .ADC (.reg .A)) size timing timing m else none
    | .SBC_A_A => if r = 0 then mk (.alu8 .SBC (.reg .A)) size timing timing m else none
    | fc => do let g ← gpr r; let i ← fcInstr fc (.reg g) none; mk i size timing timing m
  | .fc_xy size fc xyh xyl dest => do
    let x ← idxOf xyh xyl; let c ← copyOf dest; let i ← fcInstr fc (.idx x) c; mk i size 23 23 2
  | .adc_hl rh rl => do let rp ← pairOf rh rl; mk (.adc16 rp) 2 15 15 2
  | .add_rr r_inc timing size ah al rh rl => do
    let m ← m1Of r_inc; let d ← pairOf ah al; let s ← pairOf rh rl
    if d = .HL ∨ d = .IX ∨ d = .IY then mk (.add16 d s) size timing timing m else none
  | .bit_hl _ b => if 0 ≤ b ∧ b ≤ 7 then mk (.bit b.toNat (.ind .HL)) 2 12 12 2 else none
  | .bit_r _ b reg => do
    let g ← gpr reg
    if 0 ≤ b ∧ b ≤ 7 then mk (.bit b.toNat (.reg g)) 2 8 8 2 else none
  | .bit_xy _ b xyh xyl => do
    let i ← idxOf xyh xyl
    if 0 ≤ b ∧ b ≤ 7 then mk (.bit b.toNat (.idx i)) 4 20 20 2 else none
  | .call c_and c_val => do
    let cc ← condInvOf c_and c_val
    mk (.call cc) 3 (if cc = none then 17 else 10) 17 1
  | .cf cf =>
    match cf with
    | .SCF => mk (.acc .SCF) 1 4 4 1
    | .CCF => mk (.acc .CCF) 1 4 4 1
  | .cpi inc repeat_ => blockD .CP inc repeat_
  | .di_ei iff => if iff = 0 then mk .di 1 4 4 1 else if iff = 1 then mk .ei 1 4 4 1 else none
  | .djnz => mk .djnz 2 8 13 1
  | .ex_af => mk .exAF 1 4 4 1
  | .ex_de_hl => mk .exDEHL 1 4 4 1
  | .ex_sp r_inc timing size rh rl => do
    let m ← m1Of r_inc; let rp ← pairOf rh rl
    if rp = .HL ∨ rp = .IX ∨ rp = .IY then mk (.exSP rp) size timing timing m else none
  | .exx => mk .exx 1 4 4 1
  | .halt => mk .halt 1 4 4 1
  | .im mode => if 0 ≤ mode ∧ mode ≤ 2 then mk (.im mode.toNat) 2 8 8 2 else none
  | .in_a => mk .inA 2 11 11 1
  | .in_c reg _ => if reg = 1 then mk (.inC none) 2 12 12 2 else do let g ← gpr reg; mk (.inC (some g)) 2 12 12 2
  | .inc_dec_rr r_inc timing size inc rh rl => do
    let m ← m1Of r_inc; let rp ← pairOf rh rl; let dec ← dirOf inc
    if rp = .AF then none else mk (if dec then .dec16 rp else .inc16 rp) size timing timing m
  | .ini inc repeat_ _ => blockD .IN inc repeat_
  | .jp c_and c_val => do let cc ← condOf c_and c_val; mk (.jp cc) 3 10 10 1
  | .jp_rr r_inc timing rh rl => do
    let m ← m1Of r_inc; let rp ← pairOf rh rl
    -- the closure overwrites PC, so it takes no length; it is 1 + one prefix byte for IX/IY
    if rp = .HL ∨ rp = .IX ∨ rp = .IY then mk (.jpReg rp) (if rp = .HL then 1 else 2) timing timing m else none
  | .jr c_and c_val => do
    let cc ← condOf c_and c_val
    mk (.jr cc) 2 (if cc = none then 12 else 7) 12 1
  | .ld_a_ir r => if r = 14 then mk (.ldAIR .I) 2 9 9 2 else if r = 15 then mk (.ldAIR .R) 2 9 9 2 else none
  | .ld_hl_n => mk (.ld8 (.ind .HL) .imm) 2 10 10 1
  | .ld_r_n r_inc timing size r => do
    let m ← m1Of r_inc; let g ← gpr r; mk (.ld8 (.reg g) .imm) size timing timing m
  | .ld_r_r r_inc timing size r1 r2 => do
    let m ← m1Of r_inc; let a ← reg8Of r1; let b ← reg8Of r2; mk (.ld8 (.reg a) (.reg b)) size timing timing m
  | .ld_r_rr r rh rl => do
    let g ← gpr r; let rp ← pairOf rh rl
    if rp = .BC ∨ rp = .DE ∨ rp = .HL then mk (.ld8 (.reg g) (.ind rp)) 1 7 7 1 else none
  | .ld_rr_r rh rl r => do
    let g ← gpr r; let rp ← pairOf rh rl
    if rp = .BC ∨ rp = .DE ∨ rp = .HL then mk (.ld8 (.ind rp) (.reg g)) 1 7 7 1 else none
  | .ld_r_xy r xyh xyl => do let g ← gpr r; let i ← idxOf xyh xyl; mk (.ld8 (.reg g) (.idx i)) 3 19 19 2
  | .ld_xy_n xyh xyl => do let i ← idxOf xyh xyl; mk (.ld8 (.idx i) .imm) 4 19 19 2
  | .ld_xy_r xyh xyl r => do let g ← gpr r; let i ← idxOf xyh xyl; mk (.ld8 (.idx i) (.reg g)) 3 19 19 2
  | .ld_rr_nn r_inc timing size rh rl => do
    let m ← m1Of r_inc; let rp ← pairOf rh rl
    if rp = .AF then none else mk (.ld16imm rp) size timing timing m
  | .ld_a_m => mk (.ld8 (.reg .A) .abs) 3 13 13 1
  | .ld_m_a => mk (.ld8 .abs (.reg .A)) 3 13 13 1
  | .ld_rr_mm r_inc timing size rh rl => do
    let m ← m1Of r_inc; let rp ← pairOf rh rl
    -- the four-byte non-indexed form is the ED-page encoding
    if rp = .AF then none else mk (.ld16load rp (decide (size = 4) && !rp.isIdx)) size timing timing m
  | .ld_mm_rr r_inc timing size rh rl => do
    let m ← m1Of r_inc; let rp ← pairOf rh rl
    if rp = .AF then none else mk (.ld16store rp (decide (size = 4) && !rp.isIdx)) size timing timing m
  | .ldi inc repeat_ => blockD .LD inc repeat_
  | .ld_sp_rr r_inc timing size rh rl => do
    let m ← m1Of r_inc; let rp ← pairOf rh rl
    if rp = .HL ∨ rp = .IX ∨ rp = .IY then mk (.ldSP rp) size timing timing m else none
  | .neg _ => mk .neg 2 8 8 2
  | .nop r_inc timing size => do let m ← m1Of r_inc; mk .nop size timing timing m
  | .out_a => mk .outA 2 11 11 1
  | .out_c reg => if reg = -1 then mk (.outC none) 2 12 12 2 else do let g ← gpr reg; mk (.outC (some g)) 2 12 12 2
  | .outi inc repeat_ _ => blockD .OUT inc repeat_
  | .pop r_inc timing size rh rl => do
    let m ← m1Of r_inc; let rp ← pairOf rh rl
    if rp = .SP then none else mk (.pop rp) size timing timing m
  | .push r_inc timing size rh rl => do
    let m ← m1Of r_inc; let rp ← pairOf rh rl
    if rp = .SP then none else mk (.push rp) size timing timing m
  | .res_hl bit => do let n ← resBitOf bit; mk (.res n (.ind .HL) none) 2 15 15 2
  | .res_r bit reg => do let n ← resBitOf bit; let g ← gpr reg; mk (.res n (.reg g) none) 2 8 8 2
  | .res_xy bit xyh xyl dest => do
    let n ← resBitOf bit; let i ← idxOf xyh xyl; let c ← copyOf dest; mk (.res n (.idx i) c) 4 23 23 2
  | .ret c_and c_val => do
    let cc ← condInvOf c_and c_val
    mk (.ret cc) 1 (if cc = none then 10 else 5) (if cc = none then 10 else 11) 1
  | .reti => mk .reti 2 14 14 2
  | .rld _ => mk .rld 2 18 18 2
  | .rrd _ => mk .rrd 2 18 18 2
  | .rst addr => if 0 ≤ addr ∧ addr ≤ 56 ∧ addr % 8 = 0 then mk (.rst addr.toNat) 1 11 11 1 else none
  | .sbc_hl rh rl => do let rp ← pairOf rh rl; mk (.sbc16 rp) 2 15 15 2
  | .set_hl bit => do let n ← setBitOf bit; mk (.set n (.ind .HL) none) 2 15 15 2
  | .set_r bit reg => do let n ← setBitOf bit; let g ← gpr reg; mk (.set n (.reg g) none) 2 8 8 2
  | .set_xy bit xyh xyl dest => do
    let n ← setBitOf bit; let i ← idxOf xyh xyl; let c ← copyOf dest; mk (.set n (.idx i) c) 4 23 23 2
  | .prefix_ _ => none
  | .prefix2_ _ => none

/-! ### semantic equivalence classes

Several different encodings do exactly the same thing; the implementation uses one closure for
all of them.  `canon` picks a representative: every instruction without effect (`NOP`, a lone
`DD`/`FD` prefix, an undefined `ED` pair, `LD r,r`) is `nop`; `RETN` is `RETI` (this machine
has a single interrupt flip-flop). -/
def canon : ZInstr → ZInstr
  | .prefixNop => .nop
  | .edNop => .nop
  | .ld8 (.reg a) (.reg b) => if a = b then .nop else .ld8 (.reg a) (.reg b)
  | .retn => .reti
  | i => i

def canonD (d : Decoded) : Decoded := { d with instr := canon d.instr }

def pfxOf : Sim.OpTbl → Z80Decode.Pfx
  | .MAIN => .MAIN | .CB => .CB | .ED => .ED | .DD => .DD | .FD => .FD | .DDCB => .DDCB | .FDCB => .FDCB

/-- what a slot of a dispatch table must contain -/
def slotOk (t : Sim.OpTbl) (op : Nat) : Bool :=
  match t.arr.getD op (.prefix_ .MAIN) with
  | .prefix_ t' =>
    t = .MAIN && ((op = 0xCB && t' = .CB) || (op = 0xED && t' = .ED) || (op = 0xDD && t' = .DD) || (op = 0xFD && t' = .FD))
  | .prefix2_ t' => op = 0xCB && ((t = .DD && t' = .DDCB) || (t = .FD && t' = .FDCB))
  | i =>
    !(t = .MAIN && (op = 0xCB || op = 0xED || op = 0xDD || op = 0xFD)) &&
    !((t = .DD || t = .FD) && op = 0xCB) &&
    (zinstrOf i).map canonD == some (canonD (Decoded.of (Z80Decode.decode (pfxOf t) op)))

end C05
