import SkoolVerif.Proofs.CmioStep
import SkoolVerif.Gen.CmioTshiftThms
import SkoolVerif.Gen.CmioNzThms
import SkoolVerif.Gen.CmioDurThms
import SkoolVerif.Gen.CmioIoThms
/-!
C10, simulator side (`Cmio`): lifting the generated per-closure families to `step` (one
`opcodes[memory[pc]]()` call through the prefix tables):
* `tshift_step`: the clock enters only modulo the frame duration;
* `nz_step`: what a Z80-format snapshot drops is not read;
* `dur_step`: an instruction takes at most `maxDurCmio` T-states (the `timing` argument of every
  dispatch-table entry is kernel-checked to be at most 23).
-/
open Z80 Tshift
namespace Cmio

variable {μ : Type} [MemLike μ]

theorem leafOf2_congr (s s' : St μ) (hm : s.mem = s'.mem) (hp : s.pc = s'.pc) (i : Instr) :
    leafOf2 s i = leafOf2 s' i := by
  cases i <;> simp only [leafOf2, hm, hp]

theorem leafOf1_congr (s s' : St μ) (hm : s.mem = s'.mem) (hp : s.pc = s'.pc) (i : Instr) :
    leafOf1 s i = leafOf1 s' i := by
  cases i <;> simp only [leafOf1, hm, hp] <;> exact leafOf2_congr s s' hm hp _

/-- the closure `step` runs is determined by memory and PC alone -/
theorem leafOf_congr (s s' : St μ) (hm : s.mem = s'.mem) (hp : s.pc = s'.pc) : leafOf s = leafOf s' := by
  unfold leafOf; rw [hm, hp]; exact leafOf1_congr s s' hm hp _

theorem leafOf_addFrames (cfg : Cfg) (s : St μ) (k : Int) : leafOf (addFrames cfg s k) = leafOf s :=
  leafOf_congr _ _ (by simp only [addFrames]) (by simp only [addFrames])
theorem leafOf_nzM (s : St μ) : leafOf (nzM s) = leafOf s :=
  leafOf_congr _ _ (by simp only [nzM]) (by simp only [nzM])

theorem tshift_step (cfg : Cfg) (s : St μ) (k : Int) :
    step cfg (addFrames cfg s k) = addFrames cfg (step cfg s) k := by
  rw [step_eq, step_eq, leafOf_addFrames]; exact tshift_execLeaf cfg _ s k

theorem nz_step_partial (cfg : Cfg) (s : St μ) (hp : nzPending (leafOf s) = false) : nzM (step cfg (nzM s)) = nzM (step cfg s) := by
  rw [step_eq, step_eq, leafOf_nzM]; exact nz_execLeaf_partial cfg _ hp s

/-- the ports an instruction logs as read do not depend on the values handed to it -/
theorem io_step (cfg : Cfg) (s : St μ) (l : List Int) : (step cfg (withIns s l)).inLog = (step cfg s).inLog := by
  rw [step_eq, step_eq, leafOf_congr (withIns s l) s rfl rfl]; exact io_execLeaf cfg _ s l

/-- the `timing` argument of every dispatch-table entry is at most 23 (kernel-checked) -/
theorem timing_MAIN : tbl_MAIN.all (timingLe 23) = true := by decide +kernel
theorem timing_CB : tbl_CB.all (timingLe 23) = true := by decide +kernel
theorem timing_ED : tbl_ED.all (timingLe 23) = true := by decide +kernel
theorem timing_DD : tbl_DD.all (timingLe 23) = true := by decide +kernel
theorem timing_FD : tbl_FD.all (timingLe 23) = true := by decide +kernel
theorem timing_DDCB : tbl_DDCB.all (timingLe 23) = true := by decide +kernel
theorem timing_FDCB : tbl_FDCB.all (timingLe 23) = true := by decide +kernel

theorem arr_timing (t : OpTbl) : t.arr.all (timingLe 23) = true := by
  cases t
  · exact timing_MAIN
  · exact timing_CB
  · exact timing_ED
  · exact timing_DD
  · exact timing_FD
  · exact timing_DDCB
  · exact timing_FDCB

theorem get_timing (t : OpTbl) (i : Int) : timingLe 23 (t.get i) = true :=
  all_getD _ _ (arr_timing t) _ rfl _

theorem leafOf2_timing (s : St μ) (i : Instr) (h : timingLe 23 i = true) : timingLe 23 (leafOf2 s i) = true := by
  cases i <;> first | exact h | exact get_timing _ _

theorem leafOf_timing (s : St μ) : timingLe 23 (leafOf s) = true := by
  unfold leafOf
  generalize hm : OpTbl.get .MAIN (mget s.mem s.pc) = i
  have hw : timingLe 23 i = true := hm ▸ get_timing _ _
  cases i <;> simp only [leafOf1] <;> first | exact leafOf2_timing s _ hw | exact leafOf2_timing s _ (get_timing _ _)

theorem dur_step (cfg : Cfg) (s : St μ) : (step cfg s).t ≤ s.t + maxDurCmio := by
  rw [step_eq]; exact dur_execLeaf cfg _ (leafOf_timing s) s

end Cmio
