import SkoolVerif.Model.Edges
/-!
A block with pilot/sync pulses and data (TZX turbo block 0x11, TAP/standard block)
is equivalent to a pulses-only block followed by a data-only block
(TZX 0x12/0x13 followed by 0x14; PZX PULS followed by DATA).
-/
namespace Edges

/-- The pulses of `b` as a block of their own (no data, no pause). -/
def pulsesOnly (b : Block) : Block :=
  { timings := { pulses := b.timings.pulses, polarity := b.timings.polarity }, data := [], keys := b.keys }

/-- The data (bit timings, used bits, tail, pause) of `b` as a block of its own. -/
def dataOnly (b : Block) : Block :=
  { timings := { b.timings with pulses := [] }, data := b.data, keys := none }

theorem dataPhase_dataOnly (pol : Int) (l : Bool) (b : Block) (s : St) (hd : b.data ≠ []) :
    dataPhase pol l (dataOnly b) s = dataPhase pol l b s := by
  simp [dataPhase, dataOnly, hd, hasZero, dataEdges]

theorem stepBlock_split (pol : Int) (l : Bool) (b : Block) (s : St) (hd : b.data ≠ []) :
    stepBlock pol l (dataOnly b) (stepBlock pol false (pulsesOnly b) s) = stepBlock pol l b s := by
  have h1 : stepBlock pol false (pulsesOnly b) s = pulsePhase pol b (setKeys b s) := by
    have ha : ∀ s', pausePhase pol false (pulsesOnly b) s' = s' := by
      intro s'; simp [pausePhase, pulsesOnly]
    have hb : ∀ s', dataPhase pol false (pulsesOnly b) s' = s' := by
      intro s'; simp [dataPhase, pulsesOnly]
    have hc : ∀ s', pulsePhase pol (pulsesOnly b) s' = pulsePhase pol b s' := fun _ => rfl
    have hk : setKeys (pulsesOnly b) s = setKeys b s := rfl
    unfold stepBlock
    rw [ha, hb, hc, hk]
  rw [h1]
  unfold stepBlock
  have h2 : ∀ s', setKeys (dataOnly b) s' = s' := by
    intro s'; simp [setKeys, dataOnly]
  have h3 : ∀ s', pulsePhase pol (dataOnly b) s' = s' := by
    intro s'; simp [pulsePhase, dataOnly]
  have h4 : ∀ s', pausePhase pol l (dataOnly b) s' = pausePhase pol l b s' := by
    intro s'
    by_cases hl : l = true <;> by_cases hp : b.timings.pause = 0 <;> simp [pausePhase, dataOnly, hl, hp]
  rw [h2, h3, h4, dataPhase_dataOnly pol l b _ hd]

theorem runBlocks_cons_cons (pol : Int) (a c : Block) (r : List Block) (s : St) :
    runBlocks pol (a :: c :: r) s = runBlocks pol (c :: r) (stepBlock pol false a s) := rfl

theorem runBlocks_split (pol : Int) (pre post : List Block) (b : Block) (s : St) (hd : b.data ≠ []) :
    runBlocks pol (pre ++ [pulsesOnly b, dataOnly b] ++ post) s = runBlocks pol (pre ++ [b] ++ post) s := by
  induction pre generalizing s with
  | nil =>
    cases post with
    | nil =>
      show stepBlock pol true (dataOnly b) (stepBlock pol false (pulsesOnly b) s) = stepBlock pol true b s
      exact stepBlock_split pol true b s hd
    | cons c r =>
      show runBlocks pol (c :: r) (stepBlock pol false (dataOnly b) (stepBlock pol false (pulsesOnly b) s)) =
        runBlocks pol (c :: r) (stepBlock pol false b s)
      rw [stepBlock_split pol false b s hd]
  | cons a pre' ih =>
    cases pre' with
    | nil =>
      simp only [List.cons_append, List.nil_append] at ih ⊢
      rw [runBlocks_cons_cons, runBlocks_cons_cons]
      exact ih _
    | cons a' pre'' =>
      simp only [List.cons_append] at ih ⊢
      rw [runBlocks_cons_cons, runBlocks_cons_cons]
      exact ih _

end Edges

namespace Edges

/-- A block that is only a tone / pulse sequence without a declared level (TZX 0x12, 0x13). -/
def pulseBlock (P : List (Nat × Nat)) : Block := { timings := { pulses := P }, data := [], keys := none }

theorem emit_append (a b : List Nat) (s : List Int × Int) : emit (a ++ b) s = emit b (emit a s) := by
  induction a generalizing s with
  | nil => rfl
  | cons d ds ih =>
    obtain ⟨e, t⟩ := s
    simp only [List.cons_append, emit]
    exact ih _

theorem expand_append (P Q : List (Nat × Nat)) : expand (P ++ Q) = expand P ++ expand Q := by
  simp [expand]

theorem stepBlock_pulseBlock (pol : Int) (P : List (Nat × Nat)) (s : St) :
    stepBlock pol false (pulseBlock P) s =
      { s with edges := (emit (expand P) (s.edges, s.t)).1, t := (emit (expand P) (s.edges, s.t)).2 } := by
  have ha : ∀ s', pausePhase pol false (pulseBlock P) s' = s' := by
    intro s'; simp [pausePhase, pulseBlock]
  have hb : ∀ s', dataPhase pol false (pulseBlock P) s' = s' := by
    intro s'; simp [dataPhase, pulseBlock]
  have hk : setKeys (pulseBlock P) s = s := by simp [setKeys, pulseBlock]
  unfold stepBlock
  rw [ha, hb, hk]
  unfold pulsePhase
  by_cases hP : P = []
  · subst hP; simp [pulseBlock, expand, emit]
  · simp [pulseBlock, hP, checkPolarity]

theorem stepBlock_pulseBlock_append (pol : Int) (P Q : List (Nat × Nat)) (s : St) :
    stepBlock pol false (pulseBlock Q) (stepBlock pol false (pulseBlock P) s) =
      stepBlock pol false (pulseBlock (P ++ Q)) s := by
  simp only [stepBlock_pulseBlock, expand_append, emit_append]

/-- Two consecutive pulse-only blocks, neither of them the last block of the tape, are
the same as one block with the concatenated pulses. -/
theorem runBlocks_pulse_split (pol : Int) (pre post : List Block) (P Q : List (Nat × Nat)) (s : St)
    (hpost : post ≠ []) :
    runBlocks pol (pre ++ [pulseBlock P, pulseBlock Q] ++ post) s =
      runBlocks pol (pre ++ [pulseBlock (P ++ Q)] ++ post) s := by
  obtain ⟨c, r, rfl⟩ : ∃ c r, post = c :: r := by
    cases post with
    | nil => exact absurd rfl hpost
    | cons c r => exact ⟨c, r, rfl⟩
  induction pre generalizing s with
  | nil =>
    show runBlocks pol (c :: r) (stepBlock pol false (pulseBlock Q) (stepBlock pol false (pulseBlock P) s)) =
      runBlocks pol (c :: r) (stepBlock pol false (pulseBlock (P ++ Q)) s)
    rw [stepBlock_pulseBlock_append]
  | cons a pre' ih =>
    cases pre' with
    | nil =>
      simp only [List.cons_append, List.nil_append] at ih ⊢
      rw [runBlocks_cons_cons, runBlocks_cons_cons]
      exact ih _
    | cons a' pre'' =>
      simp only [List.cons_append] at ih ⊢
      rw [runBlocks_cons_cons, runBlocks_cons_cons]
      exact ih _

end Edges
