import SkoolVerif.Proofs.ZxPictureLemmas
/-! The second (flash) frame built by `_build_image_data` for a cropped frame (C15). -/
set_option linter.unusedSimpArgs false
set_option linter.unusedVariables false
namespace PngScan
open ZxTile ZxSpec

/-- What `Frame.swap_colours` does to one tile. -/
def swapUdg (u : Udg) : Udg := if u.attr &&& 128 ≠ 0 then { u with attr := swapAttr u.attr } else u

theorem swapUdg_attr (u : Udg) : (swapUdg u).attr = if u.attr &&& 128 ≠ 0 then swapAttr u.attr else u.attr := by
  unfold swapUdg; split <;> rfl
theorem swapUdg_data (u : Udg) : (swapUdg u).data = u.data := by unfold swapUdg; split <;> rfl
theorem swapUdg_mask (u : Udg) : (swapUdg u).mask = u.mask := by unfold swapUdg; split <;> rfl
theorem swapUdg_maskRows (u : Udg) : (swapUdg u).maskRows = u.maskRows := by
  unfold Udg.maskRows; rw [swapUdg_mask]
theorem swapUdg_maskByte (u : Udg) (k : Nat) : maskByteOf (swapUdg u) k = maskByteOf u k := by
  unfold maskByteOf; rw [swapUdg_maskRows, swapUdg_data]
theorem swapUdg_wf {u : Udg} (hu : WfUdg u) : WfUdg (swapUdg u) := by
  unfold WfUdg; rw [swapUdg_data, swapUdg_mask]; exact hu
theorem swapUdg_udg0 : swapUdg udg0 = udg0 := by decide

theorem getD_map_swap (row : List Udg) (i : Nat) : (row.map swapUdg).getD i udg0 = swapUdg (row.getD i udg0) := by
  simp only [List.getD_eq_getElem?_getD, List.getElem?_map]
  cases row[i]? with
  | none => simp [swapUdg_udg0]
  | some u => simp

theorem getD_map_map_swap (udgs : List (List Udg)) (j : Nat) :
    (udgs.map (fun row => row.map swapUdg)).getD j [] = (udgs.getD j []).map swapUdg := by
  simp only [List.getD_eq_getElem?_getD, List.getElem?_map]
  cases udgs[j]? with
  | none => simp
  | some r => simp

theorem swapColours_cropped (f : Frame) (x y w h : Nat) (hc : f.cropped = true) :
    f.swapColours x y w h =
      { f with udgs := f.udgs.map (fun row => row.map swapUdg), x := x, y := y, width := some w, height := some h } := by
  unfold Frame.swapColours
  rw [if_pos hc]
  rfl

theorem visited_map_swap (c : Ctx) (udgs : List (List Udg)) :
    visited c (udgs.map (fun row => row.map swapUdg)) = (visited c udgs).map (fun row => row.map swapUdg) := by
  have hsl : ∀ row : List Udg, sliceRow c (row.map swapUdg) = (sliceRow c row).map swapUdg := by
    intro row; simp [sliceRow, List.map_drop, List.map_take]
  simp only [visited_eq, List.map_drop, List.map_take, List.map_map]
  congr 2
  apply List.map_congr_left
  intro row _
  simp [Function.comp, hsl]

/-- The attribute-map entry the flash frame uses for a (possibly colour-swapped) tile. -/
theorem frame2Attrs_swapUdg (attrs : Nat → Option (Nat × Nat)) (u : Udg) (hu : u.attr < 256) (p i : Nat)
    (ha : attrs u.attr = some (p, i))
    (hcons : ∀ p2 i2, attrs (swapAttr u.attr) = some (p2, i2) → p2 = i ∧ i2 = p) :
    frame2Attrs attrs (swapUdg u).attr = some (if u.attr &&& 128 ≠ 0 then (i, p) else (p, i)) := by
  have hsw := attrCheck_ok
  simp only [attrCheck, List.all_eq_true, List.mem_range, Bool.and_eq_true, decide_eq_true_eq, beq_iff_eq] at hsw
  obtain ⟨⟨⟨⟨⟨⟨-, h2⟩, -⟩, -⟩, -⟩, -⟩, h7⟩ := hsw u.attr hu
  rw [swapUdg_attr]
  unfold frame2Attrs
  by_cases hf : u.attr &&& 128 ≠ 0
  · rw [if_pos hf, if_pos hf, if_pos h2, h7, ha]
  · rw [if_neg hf, if_neg hf, if_pos hu]
    cases h : attrs (swapAttr u.attr) with
    | none => simp only [ha]
    | some v =>
      obtain ⟨p2, i2⟩ := v
      obtain ⟨e1, e2⟩ := hcons p2 i2 h
      simp only [e1, e2]

theorem pictureOf_swapped_attr (udgs : List (List Udg)) (X Y : Nat) :
    (pictureOf (udgs.map (fun row => row.map swapUdg))).attr X Y
      = (swapUdg ((udgs.getD (Y / 8) []).getD (X / 8) udg0)).attr := by
  simp only [pictureOf, getD_map_map_swap, getD_map_swap]

theorem pictureOf_swapped_pix (udgs : List (List Udg)) (k X Y : Nat) :
    (pictureOf (udgs.map (fun row => row.map swapUdg))).pix k X Y = (pictureOf udgs).pix k X Y := by
  simp only [Picture.pix, pictureOf, getD_map_map_swap, getD_map_swap, swapUdg_data, swapUdg_maskRows]

/-- Source-pixel index of the colour-swapped tile array under the flash frame's attribute map:
the original display rule with ink and paper exchanged in FLASH tiles. -/
theorem srcIndex_swapped (c : Ctx) (attrs : Nat → Option (Nat × Nat)) (udgs : List (List Udg)) (X Y : Nat)
    (hc : c.attrs = frame2Attrs attrs)
    (hu : ((udgs.getD (Y / 8) []).getD (X / 8) udg0).attr < 256) (p i : Nat)
    (ha : attrs ((udgs.getD (Y / 8) []).getD (X / 8) udg0).attr = some (p, i))
    (hcons : ∀ p2 i2, attrs (swapAttr ((udgs.getD (Y / 8) []).getD (X / 8) udg0).attr) = some (p2, i2) → p2 = i ∧ i2 = p) :
    srcIndex c (udgs.map (fun row => row.map swapUdg)) X Y =
      ((pictureOf udgs).pix c.mask.toNat X Y).pick
        (if ((pictureOf udgs).attr X Y) &&& 128 ≠ 0 then i else p)
        (if ((pictureOf udgs).attr X Y) &&& 128 ≠ 0 then p else i) 0 := by
  rw [srcIndex_eq_spec, pictureOf_swapped_pix, pictureOf_swapped_attr, hc,
    frame2Attrs_swapUdg attrs _ hu p i ha hcons]
  have hattr : (pictureOf udgs).attr X Y = ((udgs.getD (Y / 8) []).getD (X / 8) udg0).attr := rfl
  rw [hattr]
  by_cases hf : ((udgs.getD (Y / 8) []).getD (X / 8) udg0).attr &&& 128 ≠ 0
  · rw [if_pos hf, if_pos hf, if_pos hf]; rfl
  · rw [if_neg hf, if_neg hf, if_neg hf]; rfl

/-- The tile under any output pixel of the crop rectangle is one of the visited tiles. -/
theorem tile_in_visited (c : Ctx) (udgs : List (List Udg)) (W : Nat) (hs : 0 < c.scale) (hh : 0 < c.height)
    (hrowlen : ∀ row ∈ udgs, row.length = W)
    (hfitx : c.x0 + c.width ≤ 8 * c.scale * W) (hfity : c.y0 + c.height ≤ 8 * c.scale * udgs.length)
    (x y : Nat) (hx : x < c.width) (hy : y < c.height) :
    ∃ row ∈ visited c udgs,
      (udgs.getD ((c.y0 + y) / c.scale / 8) []).getD ((c.x0 + x) / c.scale / 8) udg0 ∈ row := by
  have hcov := visited_covers c udgs hs hfity hh
  have hinc : 0 < 8 * c.scale := by omega
  have hR0 : c.y0 / (8 * c.scale) ≤ (c.y0 + y) / (8 * c.scale) := Nat.div_le_div_right (by omega)
  have hR1 : (c.y0 + y) / (8 * c.scale) < c.y0 / (8 * c.scale) + (visited c udgs).length := by
    rw [Nat.div_lt_iff_lt_mul hinc, Nat.mul_comm]; omega
  have hj : (c.y0 + y) / (8 * c.scale) - c.y0 / (8 * c.scale) < (visited c udgs).length := by omega
  have hRlen : (c.y0 + y) / (8 * c.scale) < udgs.length := by
    have := visited_length c udgs; omega
  have hRR : (c.y0 + y) / c.scale / 8 = (c.y0 + y) / (8 * c.scale) := by
    rw [Nat.div_div_eq_div_mul, Nat.mul_comm]
  have hCC : (c.x0 + x) / c.scale / 8 = (c.x0 + x) / (8 * c.scale) := by
    rw [Nat.div_div_eq_div_mul, Nat.mul_comm]
  have hrowmem : udgs.getD ((c.y0 + y) / (8 * c.scale)) [] ∈ udgs := getD_mem_or_default _ _ _ hRlen
  rw [hRR, hCC]
  generalize hrow : udgs.getD ((c.y0 + y) / (8 * c.scale)) [] = row at hrowmem
  have hvmem : sliceRow c row ∈ visited c udgs := by
    have := visited_mem c udgs _ hj
    rwa [show c.y0 / (8 * c.scale) + ((c.y0 + y) / (8 * c.scale) - c.y0 / (8 * c.scale))
      = (c.y0 + y) / (8 * c.scale) by omega, hrow] at this
  refine ⟨sliceRow c row, hvmem, ?_⟩
  have hC0 : c.x0 / (8 * c.scale) ≤ (c.x0 + x) / (8 * c.scale) := Nat.div_le_div_right (by omega)
  have hC1 : (c.x0 + x) / (8 * c.scale) ≤ (c.x0 + c.width) / (8 * c.scale) := Nat.div_le_div_right (by omega)
  have hCW : (c.x0 + x) / (8 * c.scale) < W := by
    rw [Nat.div_lt_iff_lt_mul hinc, Nat.mul_comm]; omega
  have hlen := hrowlen row hrowmem
  have hget : (sliceRow c row).getD ((c.x0 + x) / (8 * c.scale) - c.x0 / (8 * c.scale)) udg0
      = row.getD ((c.x0 + x) / (8 * c.scale)) udg0 := by
    unfold sliceRow
    rw [getD_take _ _ _ _ (by omega), getD_drop]
    congr 1; omega
  rw [← hget]
  apply getD_mem_or_default
  unfold sliceRow
  rw [List.length_take, List.length_drop, hlen]
  omega

/-- What the attribute map must provide for a tile the flash frame visits: a byte attribute, an
entry with indices that fit the bit depth, and -- as `_get_palette` guarantees by construction --
an entry for the colour-swapped attribute (if present) that is the mirror image. -/
def FlashAttrOk (attrs : Nat → Option (Nat × Nat)) (bd : Nat) (u : Udg) : Prop :=
  u.attr < 256 ∧ ∃ p i, attrs u.attr = some (p, i) ∧ p < 2 ^ bd ∧ i < 2 ^ bd ∧
    ∀ p2 i2, attrs (swapAttr u.attr) = some (p2, i2) → p2 = i ∧ i2 = p

/-- **Pixel theorem for the flash frame** (generic builder on the colour-swapped tile array with
`f2_attr_map`): every pixel shows the same display rule as frame 1, with ink and paper exchanged
exactly in the tiles whose FLASH bit is set. -/
theorem flashFrame_pixels (c2 : Ctx) (attrs : Nat → Option (Nat × Nat)) (udgs : List (List Udg)) (W : Nat)
    (hc : c2.attrs = frame2Attrs attrs)
    (hs : 0 < c2.scale) (hh : 0 < c2.height) (hw : 0 < c2.width)
    (hbd : c2.bitDepth = 1 ∨ c2.bitDepth = 2 ∨ c2.bitDepth = 4)
    (hrowlen : ∀ row ∈ udgs, row.length = W)
    (hwf : ∀ row ∈ udgs, ∀ u ∈ row, WfUdg u)
    (hfitx : c2.x0 + c2.width ≤ 8 * c2.scale * W)
    (hfity : c2.y0 + c2.height ≤ 8 * c2.scale * udgs.length)
    (hattr : ∀ row ∈ visited c2 udgs, ∀ u ∈ row, FlashAttrOk attrs c2.bitDepth u) :
    ∃ lines, buildAny c2 (udgs.map (fun row => row.map swapUdg)) = .ok lines ∧ lines.length = c2.height ∧
      ∀ y, y < c2.height → ∃ body, lines[y]? = some (0 :: body) ∧
        body.length = (c2.width * c2.bitDepth + 7) / 8 ∧
        ∀ x, x < c2.width →
          unpackPixel c2.bitDepth body x =
            let X := (c2.x0 + x) / c2.scale
            let Y := (c2.y0 + y) / c2.scale
            let pi := (attrs ((pictureOf udgs).attr X Y)).getD (0, 0)
            let fl := (pictureOf udgs).attr X Y &&& 128 ≠ 0
            ((pictureOf udgs).pix c2.mask.toNat X Y).pick (if fl then pi.2 else pi.1) (if fl then pi.1 else pi.2) 0 := by
  have hlen' : (udgs.map (fun row => row.map swapUdg)).length = udgs.length := by simp
  obtain ⟨lines, h1, h2, h3⟩ := buildAny_pixels c2 (udgs.map (fun row => row.map swapUdg)) W hs hh hw hbd
    (by
      intro row hrow
      simp only [List.mem_map] at hrow
      obtain ⟨r, hr, rfl⟩ := hrow
      simpa using hrowlen r hr)
    (by
      intro row hrow u hu
      simp only [List.mem_map] at hrow
      obtain ⟨r, hr, rfl⟩ := hrow
      simp only [List.mem_map] at hu
      obtain ⟨v, hv, rfl⟩ := hu
      exact swapUdg_wf (hwf r hr v hv))
    hfitx (by rw [hlen']; exact hfity)
    (by
      rw [visited_map_swap]
      intro row hrow u hu
      simp only [List.mem_map] at hrow
      obtain ⟨r, hr, rfl⟩ := hrow
      simp only [List.mem_map] at hu
      obtain ⟨v, hv, rfl⟩ := hu
      obtain ⟨hb, p, i, ha, hp, hi, hcons⟩ := hattr r hr v hv
      rw [hc, frame2Attrs_swapUdg attrs v hb p i ha hcons]
      by_cases hf : v.attr &&& 128 ≠ 0
      · rw [if_pos hf]; exact ⟨i, p, rfl, hi, hp⟩
      · rw [if_neg hf]; exact ⟨p, i, rfl, hp, hi⟩)
  refine ⟨lines, h1, h2, fun y hy => ?_⟩
  obtain ⟨body, b1, b2, b3⟩ := h3 y hy
  refine ⟨body, b1, b2, fun x hx => ?_⟩
  obtain ⟨row, hrow, hmem⟩ := tile_in_visited c2 udgs W hs hh hrowlen hfitx hfity x y hx hy
  obtain ⟨hb, p, i, ha, hp, hi, hcons⟩ := hattr row hrow _ hmem
  rw [b3 x hx, srcIndex_swapped c2 attrs udgs _ _ hc hb p i ha hcons]
  have hattr' : (pictureOf udgs).attr ((c2.x0 + x) / c2.scale) ((c2.y0 + y) / c2.scale)
      = ((udgs.getD ((c2.y0 + y) / c2.scale / 8) []).getD ((c2.x0 + x) / c2.scale / 8) udg0).attr := rfl
  simp only [hattr', ha, Option.getD_some]

/-- The context `_build_image_data` builds the flash frame of a cropped frame in. -/
theorem ctxOf_swapColours (f : Frame) (W bd : Nat) (mask : MaskKind) (a2 : Nat → Option (Nat × Nat))
    (x' y' fw fh : Nat) (hc : f.cropped = true) (hfw : 0 < fw) (hfh : 0 < fh)
    (hrowlen : ∀ row ∈ f.udgs, row.length = W)
    (hfitx : x' + fw ≤ 8 * f.scale * W) (hfity : y' + fh ≤ 8 * f.scale * f.udgs.length) :
    (f.swapColours x' y' fw fh).udgs = f.udgs.map (fun row => row.map swapUdg) ∧
      ctxOf (f.swapColours x' y' fw fh) bd mask a2 =
        { scale := f.scale, bitDepth := bd, x0 := x', y0 := y', width := fw, height := fh, mask := mask, attrs := a2 } := by
  rw [swapColours_cropped f x' y' fw fh hc]
  refine ⟨rfl, ?_⟩
  have hne : f.udgs ≠ [] := by
    intro h; rw [h] at hfity; simp at hfity; omega
  have hW : ((f.udgs.map (fun row => row.map swapUdg)).headD []).length = W := by
    cases hu : f.udgs with
    | nil => exact absurd hu hne
    | cons r t =>
      simp only [List.map_cons, List.headD_cons, List.length_map]
      exact hrowlen r (by rw [hu]; simp)
  have c1 : 8 * W * f.scale = 8 * f.scale * W := by rw [Nat.mul_assoc, Nat.mul_comm W, ← Nat.mul_assoc]
  have c2 : 8 * f.udgs.length * f.scale = 8 * f.scale * f.udgs.length := by
    rw [Nat.mul_assoc, Nat.mul_comm f.udgs.length, ← Nat.mul_assoc]
  cases fw with
  | zero => omega
  | succ n =>
    cases fh with
    | zero => omega
    | succ m =>
      unfold ctxOf Frame.w Frame.h Frame.fullWidth Frame.fullHeight
      simp only [hW, List.length_map, c1, c2]
      rw [Nat.min_eq_left (by omega), Nat.min_eq_left (by omega)]

/-- The context of the flash frame of a cropped frame `f` with flash rectangle `(fx, fy, fw, fh)`. -/
def flashCtx (f : Frame) (bd : Nat) (mask : MaskKind) (attrs : Nat → Option (Nat × Nat)) (fx fy fw fh : Nat) : Ctx :=
  { scale := f.scale, bitDepth := bd, x0 := f.x + fx, y0 := f.y + fy, width := fw, height := fh, mask := mask,
    attrs := frame2Attrs attrs }

end PngScan
