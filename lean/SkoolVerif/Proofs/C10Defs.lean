import SkoolVerif.Proofs.ResumeLoop
import SkoolVerif.Proofs.SimResume
import SkoolVerif.Proofs.CmioResume
/-!
C10: the two simulators as loop modes, the laws they satisfy (from the generated per-closure
families), the machine configurations, and a small memory for concrete witnesses.
-/
namespace C10
open Z80 TraceLoop Tshift SnapResume

variable {μ : Type} [MemLike μ]

/-- `Simulator` / `CSimulator` -/
def plainMode (interrupts : Bool) : Mode μ := { step := fun c s => Sim.step c s, cmio := false, interrupts := interrupts }
/-- `CMIOSimulator` / `CCMIOSimulator` (`-c`) -/
def cmioMode (interrupts : Bool) : Mode μ := { step := fun c s => Cmio.step c s, cmio := true, interrupts := interrupts }

theorem plain_shift (cfg : Cfg) (i : Bool) : ShiftLaw (plainMode (μ := μ) i).step cfg := by
  intro s k; simp only [plainMode]; exact Sim.tshift_step cfg s k
theorem cmio_shift (cfg : Cfg) (i : Bool) : ShiftLaw (cmioMode (μ := μ) i).step cfg := by
  intro s k; simp only [cmioMode]; exact Cmio.tshift_step cfg s k

theorem plain_dur (cfg : Cfg) (i : Bool) : DurLaw (plainMode (μ := μ) i).step cfg maxDur := by
  intro s; simp only [plainMode]; exact ⟨Sim.tmono_step cfg s, Sim.dur_step cfg s⟩
theorem cmio_dur (cfg : Cfg) (i : Bool) : DurLaw (cmioMode (μ := μ) i).step cfg maxDurCmio := by
  intro s; simp only [cmioMode]; exact ⟨Cmio.tmono_step cfg s, Cmio.dur_step cfg s⟩

theorem plain_io (cfg : Cfg) (i : Bool) : IoLaw (plainMode (μ := μ) i).step cfg := by
  intro s l; simp only [plainMode]; exact Sim.io_step cfg s l
theorem cmio_io (cfg : Cfg) (i : Bool) : IoLaw (cmioMode (μ := μ) i).step cfg := by
  intro s l; simp only [cmioMode]; exact Cmio.io_step cfg s l

/-- the plain simulator reads neither MEMPTR nor the HALT flag, whatever it executes -/
theorem plain_nz (cfg : Cfg) (i : Bool) : NzLaw (plainMode (μ := μ) i).step cfg true (fun _ => True) where
  nz := fun s _ => by
    simp only [plainMode]
    rw [nzB_true, nzB_true, nzB_true]; exact Sim.nz_step cfg s
  ok_io := fun _ _ _ _ h => h
  ok_nz := fun _ _ _ h => h

/-- the next instruction is not `BIT n,(HL)` (the one closure of the contended simulator that reads
MEMPTR before writing it) -/
def notBitHl (s : St μ) : Prop := Cmio.nzPending (Cmio.leafOf s) = false

instance (s : St μ) : Decidable (notBitHl s) := by unfold notBitHl; exact inferInstance

theorem cmio_nz (cfg : Cfg) (i : Bool) : NzLaw (cmioMode (μ := μ) i).step cfg false notBitHl where
  nz := fun s h => by
    simp only [cmioMode]
    rw [nzB_false, nzB_false, nzB_false]; exact Cmio.nz_step_partial cfg s h
  ok_io := fun s i o l h => by
    unfold notBitHl at *
    have e := Cmio.leafOf_congr ({ s with ins := i, outs := o, inLog := l }) s rfl rfl
    rw [e]; exact h
  ok_nz := fun a b hab h => by
    unfold notBitHl at *
    have hm : a.mem = b.mem := by have := congrArg St.mem hab; simpa [nzB] using this
    have hp : a.pc = b.pc := by have := congrArg St.pc hab; simpa [nzB] using this
    rw [Cmio.leafOf_congr a b hm hp]; exact h

/-- `Saveable` from C08's range invariant `RInv` on the CPU state, the tracer fields in range, empty per-step
logs, the machine's frame duration, and a memory that `from_snapshot` rebuilds unchanged -/
theorem saveable_of_rinv {μ : Type} [MemLike μ] [CellMem μ] [SnapMem μ] (cfg : Cfg) (roms : Array (Array Int)) (ts : TS μ)
    (h : RInv ts.s) (ht : TrOk ts.tr) (hl : ts.s.ins = [] ∧ ts.s.outs = [] ∧ ts.s.inLog = [])
    (hf : cfg.frame_duration = frameOf (MemLike.is128 ts.s.mem))
    (hm : SnapMem.rebuild roms ts.s.mem (if MemLike.is128 ts.s.mem then MemLike.o7ffd ts.s.mem % 256 else 0) = ts.s.mem) :
    Saveable cfg roms ts where
  regs := h.regs
  pc := h.pc
  memptr := h.memptr
  iff := by have := h.iff; unfold Byte; omega
  im := by have := h.im; omega
  halt := h.halt
  logs := hl
  border := ht.border
  outfe := ht.outfe
  outfffd := ht.outfffd
  ay := ht.ay
  frame := hf
  mem := hm

/-- 48K: `FRAME_DURATIONS[0]`, `INT_ACTIVE[0]`, `CONTENTION_INTERVALS[0]`; the tracer of `trace.py`
has `read_port` and `write_port` -/
def cfg48 : Cfg := { frame_duration := 69888, int_active := 32, t0 := 14335 - 23, t1 := 57245,
                     in_a_n_tracer := true, in_r_c_tracer := true, ini_tracer := true, out_tracer := true }
/-- 128K -/
def cfg128 : Cfg := { frame_duration := 70908, int_active := 36, t0 := 14361 - 23, t1 := 58035,
                      in_a_n_tracer := true, in_r_c_tracer := true, ini_tracer := true, out_tracer := true }

theorem frameOk48 : FrameOk cfg48 maxDurCmio := ⟨by decide, by decide, by decide⟩
theorem frameOk128 : FrameOk cfg128 maxDurCmio := ⟨by decide, by decide, by decide⟩

theorem frameOk_mono {cfg : Cfg} {D D' : Int} (h : FrameOk cfg D) (h0 : 0 ≤ D') (hle : D' ≤ D) : FrameOk cfg D' :=
  ⟨h.ia_pos, by have := h.fits; omega, h0⟩

/-! ### a small memory for witnesses -/

/-- 48K-style memory given by an association list (most recent first); default 0 -/
structure TinyMem where
  cells : List (Int × Int)
  deriving DecidableEq, Repr

def TinyMem.get (m : TinyMem) (a : Int) : Int :=
  match m.cells.find? (fun c => c.1 = a) with
  | some c => c.2
  | none => 0

instance : MemLike TinyMem where
  get := TinyMem.get
  set m a v := ⟨(a, v) :: m.cells⟩
  portOut m _ _ := m
  o7ffd _ := 0
  is128 _ := false

instance : SnapMem TinyMem where
  rebuild _ m _ := m

def zeroRegs : Array Int := Array.replicate 24 0

theorem rget_zeroRegs (i : Int) : rget zeroRegs i = 0 := by
  unfold rget zeroRegs
  split
  · unfold Array.getD; split <;> simp
  · rfl

theorem zeroRegs_ok : RegsOk zeroRegs :=
  ⟨by simp [zeroRegs], by rw [rget_zeroRegs]; unfold Word; omega, rget_zeroRegs 13,
   fun i _ _ _ => by rw [rget_zeroRegs]; unfold Byte; omega⟩

def tr0 : Tr := { border := 7, outfe := 0, outfffd := 0, ay := Array.replicate 16 0 }

/-- 48K machine inside a HALT wait at 0x7FFF (contended; 0x8000 is not), interrupts disabled, at a frame
position where the ULA delays a contended access by 6 T-states -/
def haltWitness : TS TinyMem :=
  { s := { reg := zeroRegs, mem := ⟨[(0x7FFF, 0x76)]⟩, pc := 0x7FFF, t := 14335, iff := 0, im := 1, halt := 1,
           memptr := 0, ins := [], outs := [], inLog := [] },
    tr := tr0 }

/-- 48K machine about to execute `BIT 0,(HL)` with MEMPTR = 0x2800 -/
def bitWitness : TS TinyMem :=
  { s := { reg := zeroRegs, mem := ⟨[(0x8000, 0xCB), (0x8001, 0x46)]⟩, pc := 0x8000, t := 100, iff := 0, im := 1,
           halt := 0, memptr := 0x2800, ins := [], outs := [], inLog := [] },
    tr := tr0 }

theorem tr0_ay : tr0.ay.size = 16 ∧ ∀ x ∈ tr0.ay, Byte x := by
  refine ⟨by simp [tr0], ?_⟩
  intro x hx
  simp only [tr0, Array.mem_replicate] at hx
  rw [hx.2]; unfold Byte; omega

theorem haltWitness_saveable : Saveable cfg48 #[] haltWitness where
  regs := zeroRegs_ok
  pc := by unfold Word; decide
  memptr := by unfold Word; decide
  iff := by unfold Byte; decide
  im := by decide
  halt := Or.inr rfl
  logs := ⟨rfl, rfl, rfl⟩
  border := by decide
  outfe := by unfold Byte; decide
  outfffd := by unfold Byte; decide
  ay := tr0_ay
  frame := rfl
  mem := rfl

theorem bitWitness_saveable : Saveable cfg48 #[] bitWitness where
  regs := zeroRegs_ok
  pc := by unfold Word; decide
  memptr := by unfold Word; decide
  iff := by unfold Byte; decide
  im := by decide
  halt := Or.inl rfl
  logs := ⟨rfl, rfl, rfl⟩
  border := by decide
  outfe := by unfold Byte; decide
  outfffd := by unfold Byte; decide
  ay := tr0_ay
  frame := rfl
  mem := rfl

end C10
