import SkoolVerif.Proofs.RunLoopC
import SkoolVerif.Proofs.RunLoopPy
import SkoolVerif.Proofs.CVsPyExamples
/-!
The run loops, both languages translated (`Gen/PyLoops.lean`, `Gen/CLoops/run.lean`, `Gen/CCmioLoops/run.lean`):
`CSimulator_run` and `Simulator.run` compute the same state for every argument triple, every in-range state and every fuel
(plain pair and contended pair) — except for the one call shape on which the real functions differ
(`run(start, interrupts=True)` without `stop`: witness below).
-/
open Z80 TraceLoop

namespace RunLoop
variable {μ : Type} [MemLike μ] [CellMem μ]

theorem frameOk_of_cmio {cfg : Cfg} (hf : FrameOk cfg Tshift.maxDurCmio) : FrameOk cfg Tshift.maxDur :=
  ⟨hf.ia_pos, by have := hf.fits; have e1 : Tshift.maxDurCmio = 143 := rfl; have e2 : Tshift.maxDur = 23 := rfl; omega, by decide⟩

/-- plain pair -/
theorem c_run_eq_py_run (cfg : Cfg) (hcfg : CSimH.CfgRep cfg) (hf : FrameOk cfg Tshift.maxDur) (hout : CSimH.OutOkAll μ cfg)
    (fuel : Nat) (start stop : Option Int) (ints : Bool) (s : St μ) (h : RInv s)
    (hstart : ∀ v, start = some v → 0 ≤ v ∧ v < 65536) (hstop : ∀ v, stop = some v → 0 ≤ v ∧ v < 65536)
    (hsi : stop = none → ints = false ∧ 0 < fuel)
    (ht : s.t + fuel * (Tshift.maxDur + 19) < 9223372036854775808) :
    CSimH.Loop.run cfg fuel start stop (some ints) s = PyLoop.Sim.run cfg fuel start stop ints s := by
  rw [c_run cfg hcfg hout fuel start stop (some ints) s h hstart hstop ht, py_run cfg hf]
  exact runC_eq_run simM cfg fuel start stop ints s hsi

/-- contended pair -/
theorem c_cmio_run_eq_py_run [PageStable μ] (cfg : Cfg) (hcfg : CSimH.CfgRep cfg) (hf : FrameOk cfg Tshift.maxDurCmio)
    (hout : CSimH.OutOkAll μ cfg) (fuel : Nat) (start stop : Option Int) (ints : Bool) (s : St μ) (h : RInv s)
    (hstart : ∀ v, start = some v → 0 ≤ v ∧ v < 65536) (hstop : ∀ v, stop = some v → 0 ≤ v ∧ v < 65536)
    (hsi : stop = none → ints = false ∧ 0 < fuel)
    (ht : s.t + fuel * (Tshift.maxDurCmio + 19) < 9223372036854775808) :
    CCmioH.Loop.run cfg fuel start stop (some ints) s = PyLoop.Cmio.run cfg fuel start stop ints s := by
  rw [c_cmio_run cfg hcfg hout fuel start stop (some ints) s h hstart hstop ht, py_cmio_run cfg hf]
  exact runC_eq_run cmioM cfg fuel start stop ints s hsi

/-- omitting `interrupts` in the C call is `interrupts=False` -/
theorem c_run_default_ints (cfg : Cfg) (fuel : Nat) (start stop : Option Int) (s : St μ) :
    CSimH.Loop.run cfg fuel start stop none s = CSimH.Loop.run cfg fuel start stop (some false) s := by
  rw [c_run_unfold, c_run_unfold]; rfl

omit [CellMem μ] in
/-- `Simulator.run(None, stop, interrupts)` against runs of instructions: `k + 1` instructions, no interrupt accepted on the way,
`stop` first reached after the last -/
theorem py_run_eq_runN (cfg : Cfg) (hf : FrameOk cfg Tshift.maxDur) (fuel k : Nat) (stop : Int) (ints : Bool) (s : St μ) (hk : k < fuel)
    (hq : ∀ j, j ≤ k → Quiet simM ints cfg (Sim.runN cfg j s)) (hne : ∀ j, 0 < j → j ≤ k → (Sim.runN cfg j s).pc ≠ stop)
    (hstop : (Sim.runN cfg (k + 1) s).pc = stop) :
    PyLoop.Sim.run cfg fuel none (some stop) ints s = (Sim.runN cfg (k + 1) s, true) := by
  rw [py_run cfg hf, run_start_none, runFrom_some, ← stepN_sim]
  exact loop_eq_stepN simM ints cfg stop k fuel s hk (fun j hj => by rw [stepN_sim]; exact hq j hj)
    (fun j h0 hj => by rw [stepN_sim]; exact hne j h0 hj) (by rw [stepN_sim]; exact hstop)

omit [CellMem μ] in
theorem py_cmio_run_eq_runN (cfg : Cfg) (hf : FrameOk cfg Tshift.maxDurCmio) (fuel k : Nat) (stop : Int) (ints : Bool) (s : St μ) (hk : k < fuel)
    (hq : ∀ j, j ≤ k → Quiet cmioM ints cfg (Cmio.runN cfg j s)) (hne : ∀ j, 0 < j → j ≤ k → (Cmio.runN cfg j s).pc ≠ stop)
    (hstop : (Cmio.runN cfg (k + 1) s).pc = stop) :
    PyLoop.Cmio.run cfg fuel none (some stop) ints s = (Cmio.runN cfg (k + 1) s, true) := by
  rw [py_cmio_run cfg hf, run_start_none, runFrom_some, ← stepN_cmio]
  exact loop_eq_stepN cmioM ints cfg stop k fuel s hk (fun j hj => by rw [stepN_cmio]; exact hq j hj)
    (fun j h0 hj => by rw [stepN_cmio]; exact hne j h0 hj) (by rw [stepN_cmio]; exact hstop)

/-- both machine configurations have a frame long enough for the `next_int` bookkeeping -/
theorem frameOk_machines : FrameOk (Contend.cfgFor false) Tshift.maxDurCmio ∧ FrameOk (Contend.cfgFor true) Tshift.maxDurCmio :=
  ⟨⟨by decide, by decide, by decide⟩, ⟨by decide, by decide, by decide⟩⟩

/-! ### the call shape on which the real functions differ -/

/-- the all-zero 128K state of `CVsPyEx` with interrupts enabled: NOP at PC 0, T = 0 (inside the INT pulse after the NOP) -/
def wit : St Mem128 := { CVsPyEx.st128 with iff := 1 }

theorem wit_inv : RInv wit :=
  ⟨CVsPyEx.st128_inv.regs, CVsPyEx.st128_inv.mem, CVsPyEx.st128_inv.pc, CVsPyEx.st128_inv.t, Or.inr rfl, CVsPyEx.st128_inv.im,
    CVsPyEx.st128_inv.halt, CVsPyEx.st128_inv.memptr, CVsPyEx.st128_inv.ins⟩

/-- a tracer is attached (so that `OutOk` holds on 128K memory); default frame layout -/
def witCfg : Cfg := { out_tracer := true }

theorem witCfg_rep : CSimH.CfgRep witCfg := ⟨by decide, by decide, by decide, by decide, by decide⟩
theorem witCfg_frame : FrameOk witCfg Tshift.maxDurCmio := ⟨by decide, by decide, by decide⟩

/-- `run(interrupts=True)` without `stop`: C accepts the interrupt after the one instruction (PC = 0x38), Python does not (PC = 1) -/
theorem run_nostop_differs :
    (CSimH.Loop.run witCfg 1 none none (some true) wit).1.pc = 56 ∧ (PyLoop.Sim.run witCfg 1 none none true wit).1.pc = 1 ∧
    (CCmioH.Loop.run witCfg 1 none none (some true) wit).1.pc = 56 ∧ (PyLoop.Cmio.run witCfg 1 none none true wit).1.pc = 1 := by
  refine ⟨?_, ?_, ?_, ?_⟩ <;> decide +kernel

/-- concrete runs of both translated loops (all-zero memory = NOPs): three instructions to the stop address; and with interrupts,
the interrupt accepted after the first NOP (T = 4 is inside the pulse) takes PC to 0x38 = the stop address at T = 17 -/
theorem run_examples :
    PyLoop.Sim.run witCfg 5 none (some 3) false wit = CSimH.Loop.run witCfg 5 none (some 3) (some false) wit ∧
    (PyLoop.Sim.run witCfg 5 none (some 3) false wit).1.pc = 3 ∧ (PyLoop.Sim.run witCfg 5 none (some 3) false wit).2 = true ∧
    (PyLoop.Sim.run witCfg 5 none (some 56) true wit).1.t = 17 ∧ (CSimH.Loop.run witCfg 5 none (some 56) (some true) wit).1.t = 17 ∧
    (CCmioH.Loop.run witCfg 5 none (some 56) (some true) wit).1.memptr = 56 := by
  refine ⟨?_, ?_, ?_, ?_, ?_, ?_⟩
  · exact (c_run_eq_py_run witCfg witCfg_rep (frameOk_of_cmio witCfg_frame) (Or.inl rfl) 5 none (some 3) false wit wit_inv
      (fun _ h => nomatch h) (fun v h => by cases h; decide) (fun h => nomatch h) (by decide)).symm
  all_goals decide +kernel

end RunLoop
