import SkoolVerif.Proofs.PngCrcLemmas
/-! The chunk sequence written by `PngWriter.write_image` (model `PngCrc.writeImage`)
is a well-formed PNG/APNG datastream. -/
set_option linter.unusedSimpArgs false
namespace PngCrc
open PngSpec

/-- The chunk a piece stands for. -/
def Piece.toChunk : Piece → Chunk
  | .ch d => ⟨d.take 4, d.drop 4⟩
  | .lit b => ⟨(b.drop 4).take 4, (b.drop 8).take (b.length - 12)⟩

theorem actl_literal : ACTL_CHUNK = chunk (ACTL ++ [0, 0, 0, 2, 0, 0, 0, 0]) := by decide +kernel
theorem iend_literal : IEND_CHUNK = chunk IEND := by decide +kernel

/-- A piece that is a properly framed chunk with byte-sized contents. -/
def Piece.Wf (p : Piece) : Prop :=
  p.toChunk.type.length = 4 ∧ (∀ b ∈ p.toChunk.type ++ p.toChunk.payload, b < 256) ∧
    p.toChunk.payload.length < 2 ^ 32 ∧ p.bytes = chunk (p.toChunk.type ++ p.toChunk.payload)

theorem wf_ch (d : List Nat) (h4 : 4 ≤ d.length) (hb : ∀ b ∈ d, b < 256) (hl : d.length < 2 ^ 32) :
    (Piece.ch d).Wf := by
  refine ⟨by simp [Piece.toChunk]; omega, ?_, by simp [Piece.toChunk]; omega, ?_⟩
  · simpa [Piece.toChunk] using hb
  · simp [Piece.toChunk, Piece.bytes]

theorem wf_actl_lit : (Piece.lit ACTL_CHUNK).Wf := by
  refine ⟨by decide, by decide, by decide, ?_⟩
  show ACTL_CHUNK = _
  rw [actl_literal]; rfl

theorem wf_iend_lit : (Piece.lit IEND_CHUNK).Wf := by
  refine ⟨by decide, by decide, by decide, ?_⟩
  show IEND_CHUNK = _
  rw [iend_literal]; rfl

theorem flatMap_bytes_eq (ps : List Piece) (h : ∀ p ∈ ps, p.Wf) :
    ps.flatMap Piece.bytes = (ps.map Piece.toChunk).flatMap (fun c => chunk (c.type ++ c.payload)) := by
  induction ps with
  | nil => rfl
  | cons p t ih =>
    simp only [List.flatMap_cons, List.map_cons]
    rw [(h p (by simp)).2.2.2, ih (fun q hq => h q (by simp [hq]))]

theorem length_le_flatMap_chunk (cs : List Chunk) :
    cs.length ≤ (cs.flatMap (fun c => chunk (c.type ++ c.payload))).length := by
  induction cs with
  | nil => simp
  | cons c t ih =>
    simp only [List.flatMap_cons, List.length_append, List.length_cons, chunk_length]
    omega

/-- Any signature-prefixed concatenation of well-formed pieces parses back to
exactly the chunks the pieces stand for. -/
theorem parsePng_pieces (ps : List Piece) (h : ∀ p ∈ ps, p.Wf) :
    parsePng (PNG_SIGNATURE ++ ps.flatMap Piece.bytes) = some (ps.map Piece.toChunk) := by
  unfold parsePng
  have h8 : (PNG_SIGNATURE ++ ps.flatMap Piece.bytes).take 8 = SIGNATURE := by
    rw [List.take_append_of_le_length (by decide)]; decide
  have d8 : (PNG_SIGNATURE ++ ps.flatMap Piece.bytes).drop 8 = ps.flatMap Piece.bytes := by
    rw [List.drop_append_of_le_length (by decide)]; simp [PNG_SIGNATURE]
  rw [h8, d8, if_pos rfl, flatMap_bytes_eq ps h]
  apply parseChunks_flatMap
  · have := length_le_flatMap_chunk (ps.map Piece.toChunk)
    simp only [List.length_append]
    omega
  · intro c hc
    simp only [List.mem_map] at hc
    obtain ⟨p, hp, rfl⟩ := hc
    exact ⟨(h p hp).1, (h p hp).2.1, (h p hp).2.2.1⟩

/-! ### The chunk list of `write_image` -/

def ihdrPayload (width height bitDepth : Nat) : List Nat :=
  toBytes width ++ toBytes height ++ [bitDepth, 3, 0, 0, 0]

def fctlPayload (seq delay width height xOff yOff : Nat) : List Nat :=
  toBytes seq ++ toBytes width ++ toBytes height ++ toBytes xOff ++ toBytes yOff
    ++ [delay / 256, delay % 256, 0, 100, 0, 0]

theorem ihdrData_eq (w h bd : Nat) : ihdrData w h bd = IHDR ++ ihdrPayload w h bd := by
  simp [ihdrData, ihdrPayload, List.append_assoc]

theorem fctlData_eq (s d w h x y : Nat) : fctlData s d w h x y = FCTL ++ fctlPayload s d w h x y := by
  simp [fctlData, fctlPayload, List.append_assoc]

theorem toChunk_ch (t p : List Nat) (ht : t.length = 4) : (Piece.ch (t ++ p)).toChunk = ⟨t, p⟩ := by
  simp [Piece.toChunk, ← ht]

/-- Chunks of the frames after the first. -/
def restChunks : Nat → List FrameInfo → List Chunk
  | _, [] => []
  | seq, f :: fs =>
    ⟨tFCTL, fctlPayload (seq + 1) f.delay f.width f.height f.xOff f.yOff⟩
      :: ⟨tFDAT, toBytes (seq + 2) ++ f.data⟩ :: restChunks (seq + 2) fs

theorem restFrames_toChunk (seq : Nat) (fs : List FrameInfo) :
    ((restFrames seq fs).map Piece.ch).map Piece.toChunk = restChunks seq fs := by
  induction fs generalizing seq with
  | nil => rfl
  | cons f t ih =>
    simp only [restFrames, restChunks, List.map_cons, ih, fctlData_eq]
    rw [toChunk_ch _ _ (by rfl), List.append_assoc, toChunk_ch _ _ (by rfl)]
    rfl

/-- The chunk list `write_image` produces, at the level of the specification. -/
def imageChunks (f1 : FrameInfo) (rest : List FrameInfo) (palette : List Nat)
    (hasTrans : Bool) (alpha1 : Option Nat) (walpha : Nat)
    (flash : Option (Nat × Nat × Nat × Nat × List Nat)) : List Chunk :=
  let bitDepth := (getBitDepth palette).1
  let nframes := 1 + rest.length
  let alpha := effAlpha alpha1 walpha
  let trns : List Chunk := if hasTrans && alpha != 255 then [⟨tTRNS, [alpha]⟩] else []
  let actl : List Chunk :=
    if nframes == 1 && flash.isSome then [⟨tACTL, [0, 0, 0, 2, 0, 0, 0, 0]⟩]
    else if nframes > 1 then [⟨tACTL, [0, 0, 0, nframes, 0, 0, 0, 0]⟩]
    else []
  let fctl1 : List Chunk :=
    if nframes > 1 || flash.isSome then [⟨tFCTL, fctlPayload 0 f1.delay f1.width f1.height 0 0⟩] else []
  let frame2 : List Chunk := match flash with
    | some (fx, fy, fw, fh, data2) =>
      if nframes == 1 then [⟨tFCTL, fctlPayload 1 f1.delay fw fh fx fy⟩, ⟨tFDAT, [0, 0, 0, 2] ++ data2⟩] else []
    | none => []
  [⟨tIHDR, ihdrPayload f1.width f1.height bitDepth⟩, ⟨tPLTE, palette⟩] ++ trns ++ actl ++ fctl1
    ++ [⟨tIDAT, f1.data⟩] ++ frame2 ++ restChunks 0 rest ++ [⟨tIEND, []⟩]

theorem imagePieces_toChunk (f1 : FrameInfo) (rest : List FrameInfo) (palette : List Nat)
    (hasTrans : Bool) (alpha1 : Option Nat) (walpha : Nat)
    (flash : Option (Nat × Nat × Nat × Nat × List Nat)) :
    (imagePieces f1 rest palette hasTrans alpha1 walpha flash).map Piece.toChunk
      = imageChunks f1 rest palette hasTrans alpha1 walpha flash := by
  unfold imagePieces imageChunks
  simp only [List.map_append, restFrames_toChunk, ihdrData_eq, fctlData_eq, plteData]
  have hA : (Piece.lit ACTL_CHUNK).toChunk = ⟨tACTL, [0, 0, 0, 2, 0, 0, 0, 0]⟩ := by decide
  have hE : (Piece.lit IEND_CHUNK).toChunk = ⟨tIEND, []⟩ := by decide
  have hT (a : Nat) : (Piece.ch (TRNS ++ [a])).toChunk = ⟨tTRNS, [a]⟩ := toChunk_ch _ _ rfl
  have hC (n : Nat) : (Piece.ch (ACTL ++ [0, 0, 0, n, 0, 0, 0, 0])).toChunk = ⟨tACTL, [0, 0, 0, n, 0, 0, 0, 0]⟩ :=
    toChunk_ch _ _ rfl
  have hF2 (d : List Nat) : (Piece.ch (FDAT2 ++ d)).toChunk = ⟨tFDAT, [0, 0, 0, 2] ++ d⟩ := by
    have : FDAT2 ++ d = FDAT ++ ([0, 0, 0, 2] ++ d) := by simp [FDAT2, FDAT]
    rw [this]; exact toChunk_ch _ _ rfl
  have hI (q : List Nat) : (Piece.ch (IHDR ++ q)).toChunk = ⟨tIHDR, q⟩ := toChunk_ch _ _ rfl
  have hP (q : List Nat) : (Piece.ch (PLTE ++ q)).toChunk = ⟨tPLTE, q⟩ := toChunk_ch _ _ rfl
  have hFc (q : List Nat) : (Piece.ch (FCTL ++ q)).toChunk = ⟨tFCTL, q⟩ := toChunk_ch _ _ rfl
  have hD (q : List Nat) : (Piece.ch (IDAT ++ q)).toChunk = ⟨tIDAT, q⟩ := toChunk_ch _ _ rfl
  cases flash with
  | none =>
    simp only [apply_ite (List.map Piece.toChunk), List.map_cons, List.map_nil, hA, hE, hT, hC, hI, hP, hFc, hD]
  | some v =>
    obtain ⟨fx, fy, fw, fh, d2⟩ := v
    simp only [apply_ite (List.map Piece.toChunk), List.map_cons, List.map_nil, hA, hE, hT, hC, hF2, hI, hP, hFc, hD]

/-! ### Well-formed inputs -/

/-- Frame description whose numbers fit their fields. -/
def FrameInfo.Ok (f : FrameInfo) : Prop :=
  f.width < 2 ^ 32 ∧ f.height < 2 ^ 32 ∧ f.delay < 65536 ∧ f.xOff < 2 ^ 32 ∧ f.yOff < 2 ^ 32 ∧
    (∀ b ∈ f.data, b < 256) ∧ f.data.length + 8 < 2 ^ 32

theorem bytes_toBytes {n : Nat} (h : n < 2 ^ 32) {b : Nat} (hb : b ∈ toBytes n) : b < 256 :=
  toBytes_lt n h b hb

theorem wf_fctl (s d w h x y : Nat) (hs : s < 2 ^ 32) (hd : d < 65536) (hw : w < 2 ^ 32) (hh : h < 2 ^ 32)
    (hx : x < 2 ^ 32) (hy : y < 2 ^ 32) : (Piece.ch (fctlData s d w h x y)).Wf := by
  apply wf_ch
  · simp [fctlData, FCTL, toBytes_length]
  · intro b hb
    simp only [fctlData, List.mem_append] at hb
    rcases hb with ((((((((hb | hb) | hb) | hb) | hb) | hb) | hb) | hb) | hb) | hb
    · revert b; decide
    · exact bytes_toBytes hs hb
    · exact bytes_toBytes hw hb
    · exact bytes_toBytes hh hb
    · exact bytes_toBytes hx hb
    · exact bytes_toBytes hy hb
    · simp at hb; omega
    · simp at hb; omega
    · simp at hb; omega
    · simp at hb; omega
  · simp [fctlData, FCTL, toBytes_length]

theorem wf_data (t d : List Nat) (ht : t.length ≤ 8) (h4 : 4 ≤ t.length) (htb : ∀ b ∈ t, b < 256)
    (hd : ∀ b ∈ d, b < 256) (hl : d.length + 8 < 2 ^ 32) : (Piece.ch (t ++ d)).Wf := by
  apply wf_ch
  · simp; omega
  · intro b hb
    simp only [List.mem_append] at hb
    rcases hb with hb | hb
    · exact htb b hb
    · exact hd b hb
  · simp; omega

theorem wf_restFrames (seq : Nat) (fs : List FrameInfo) (hs : seq + 2 * fs.length < 2 ^ 32)
    (hf : ∀ f ∈ fs, f.Ok) : ∀ p ∈ (restFrames seq fs).map Piece.ch, p.Wf := by
  induction fs generalizing seq with
  | nil => intro p hp; simp [restFrames] at hp
  | cons f t ih =>
    intro p hp
    obtain ⟨hw, hh, hd, hx, hy, hb, hl⟩ := hf f (by simp)
    simp only [restFrames, List.map_cons, List.mem_cons] at hp
    simp only [List.length_cons] at hs
    rcases hp with rfl | rfl | hp
    · exact wf_fctl _ _ _ _ _ _ (by omega) hd hw hh hx hy
    · rw [List.append_assoc]
      have hsb : ∀ b ∈ toBytes (seq + 2), b < 256 := toBytes_lt _ (by omega)
      have : FDAT ++ (toBytes (seq + 2) ++ f.data) = (FDAT ++ toBytes (seq + 2)) ++ f.data := by simp
      rw [this]
      apply wf_data
      · simp [FDAT, toBytes_length]
      · simp [FDAT, toBytes_length]
      · intro b hb
        simp only [List.mem_append] at hb
        rcases hb with hb | hb
        · revert b; decide
        · exact hsb b hb
      · exact hb
      · exact hl
    · exact ih (seq + 2) (by omega) (fun g hg => hf g (by simp [hg])) p hp

/-- Inputs of `write_image` whose numbers fit the fields they are written to. -/
def InputsOk (f1 : FrameInfo) (rest : List FrameInfo) (palette : List Nat) (walpha : Nat)
    (flash : Option (Nat × Nat × Nat × Nat × List Nat)) : Prop :=
  f1.Ok ∧ (∀ f ∈ rest, f.Ok) ∧ rest.length < 255 ∧ (∀ b ∈ palette, b < 256) ∧ palette.length < 2 ^ 31 ∧
    walpha < 256 ∧
    match flash with
    | none => True
    | some (fx, fy, fw, fh, d) => fx < 2 ^ 32 ∧ fy < 2 ^ 32 ∧ fw < 2 ^ 32 ∧ fh < 2 ^ 32 ∧
        (∀ b ∈ d, b < 256) ∧ d.length + 8 < 2 ^ 32

theorem getBitDepth_cases (palette : List Nat) :
    (getBitDepth palette).1 = 1 ∨ (getBitDepth palette).1 = 2 ∨ (getBitDepth palette).1 = 4 := by
  unfold getBitDepth
  simp only
  split
  · simp
  · split <;> simp

theorem imagePieces_wf (f1 : FrameInfo) (rest : List FrameInfo) (palette : List Nat)
    (hasTrans : Bool) (alpha1 : Option Nat) (walpha : Nat)
    (flash : Option (Nat × Nat × Nat × Nat × List Nat))
    (h : InputsOk f1 rest palette walpha flash) :
    ∀ p ∈ imagePieces f1 rest palette hasTrans alpha1 walpha flash, p.Wf := by
  obtain ⟨⟨hw, hh, hd, hx, hy, hb, hl⟩, hrest, hn, hpal, hpl, hwa, hfl⟩ := h
  have halpha : effAlpha alpha1 walpha < 256 := by
    cases alpha1 with
    | none => exact hwa
    | some a => simp only [effAlpha, and255]; omega
  have hbd := getBitDepth_cases palette
  intro p hp
  unfold imagePieces at hp
  simp only [List.mem_append, List.mem_cons, List.not_mem_nil, or_false] at hp
  rcases hp with ((((((hp | hp) | hp) | hp) | hp) | hp) | hp) | hp
  · rcases hp with rfl | rfl
    · apply wf_ch
      · simp [ihdrData, IHDR, toBytes_length]
      · intro b hb'
        simp only [ihdrData, List.mem_append] at hb'
        rcases hb' with (((hb' | hb') | hb') | hb') | hb'
        · revert b; decide
        · exact bytes_toBytes hw hb'
        · exact bytes_toBytes hh hb'
        · simp at hb'; rcases hb' with rfl | rfl <;> omega
        · simp at hb'; omega
      · simp [ihdrData, IHDR, toBytes_length]
    · apply wf_data
      · simp [PLTE]
      · simp [PLTE]
      · decide
      · exact hpal
      · omega
  · split at hp
    · simp only [List.mem_cons, List.not_mem_nil, or_false] at hp
      subst hp
      apply wf_data
      · simp [TRNS]
      · simp [TRNS]
      · decide
      · intro b hb'; simp at hb'; omega
      · simp
    · simp at hp
  · split at hp
    · simp only [List.mem_cons, List.not_mem_nil, or_false] at hp
      subst hp; exact wf_actl_lit
    · split at hp
      · simp only [List.mem_cons, List.not_mem_nil, or_false] at hp
        subst hp
        apply wf_data
        · simp [ACTL]
        · simp [ACTL]
        · decide
        · intro b hb'; simp at hb'; omega
        · simp
      · simp at hp
  · split at hp
    · simp only [List.mem_cons, List.not_mem_nil, or_false] at hp
      subst hp
      exact wf_fctl _ _ _ _ _ _ (by decide) hd hw hh (by decide) (by decide)
    · simp at hp
  · subst hp
    apply wf_data
    · simp [IDAT]
    · simp [IDAT]
    · decide
    · exact hb
    · exact hl
  · cases flash with
    | none => simp at hp
    | some v =>
      obtain ⟨fx, fy, fw, fh, d2⟩ := v
      obtain ⟨h1, h2, h3, h4, h5, h6⟩ := hfl
      simp only at hp
      split at hp
      · simp only [List.mem_cons, List.not_mem_nil, or_false] at hp
        rcases hp with rfl | rfl
        · exact wf_fctl _ _ _ _ _ _ (by decide) hd h3 h4 h1 h2
        · apply wf_data
          · simp [FDAT2]
          · simp [FDAT2]
          · decide
          · exact h5
          · exact h6
      · simp at hp
  · exact wf_restFrames 0 rest (by omega) hrest p hp
  · subst hp; exact wf_iend_lit

/-! ### Structure of the chunk list -/

theorem fctlPayload_length (s d w h x y : Nat) : (fctlPayload s d w h x y).length = 26 := by
  simp [fctlPayload, toBytes_length]

theorem ihdrPayload_length (w h bd : Nat) : (ihdrPayload w h bd).length = 13 := by
  simp [ihdrPayload, toBytes_length]

theorem pairs_restChunks (seq : Nat) (fs : List FrameInfo) :
    pairsThenEnd (restChunks seq fs ++ [⟨tIEND, []⟩]) = true := by
  induction fs generalizing seq with
  | nil => rfl
  | cons f t ih =>
    simp only [restChunks, List.cons_append, pairsThenEnd, ih, fctlPayload_length]
    simp [toBytes_length]

theorem take4_toBytes_append (n : Nat) (l : List Nat) : (toBytes n ++ l).take 4 = toBytes n := by
  simp [toBytes]

theorem seqNums_append (a b : List Chunk) : seqNums (a ++ b) = seqNums a ++ seqNums b := by
  simp [seqNums]

theorem seqNums_cons (c : Chunk) (l : List Chunk) :
    seqNums (c :: l) = (if c.type = tFCTL ∨ c.type = tFDAT then [beVal (c.payload.take 4)] else []) ++ seqNums l := by
  simp only [seqNums, List.filterMap_cons]
  split <;> simp_all

theorem seqNums_nil : seqNums [] = [] := rfl

theorem seqNums_restChunks (seq : Nat) (fs : List FrameInfo) (h : seq + 2 * fs.length < 2 ^ 32) :
    seqNums (restChunks seq fs) = List.range' (seq + 1) (2 * fs.length) := by
  induction fs generalizing seq with
  | nil => rfl
  | cons f t ih =>
    simp only [List.length_cons] at h
    have e : 2 * (t.length + 1) = (2 * t.length + 1) + 1 := by omega
    simp only [restChunks, List.length_cons, e, List.range'_succ]
    have ih' := ih (seq + 2) (by omega)
    simp only [seqNums, List.filterMap_cons] at ih' ⊢
    have h1 : (⟨tFCTL, fctlPayload (seq + 1) f.delay f.width f.height f.xOff f.yOff⟩ : Chunk).type = tFCTL := rfl
    have h2 : (⟨tFDAT, toBytes (seq + 2) ++ f.data⟩ : Chunk).type = tFDAT := rfl
    simp only [true_or, or_true, if_true]
    rw [ih']
    have p1 : (fctlPayload (seq + 1) f.delay f.width f.height f.xOff f.yOff).take 4 = toBytes (seq + 1) := by
      simp only [fctlPayload, List.append_assoc]; exact take4_toBytes_append _ _
    simp only [p1, take4_toBytes_append, beVal_toBytes _ (show seq + 1 < 2 ^ 32 by omega),
      beVal_toBytes _ (show seq + 2 < 2 ^ 32 by omega)]

theorem countType_append (t : List Nat) (a b : List Chunk) :
    countType t (a ++ b) = countType t a + countType t b := by simp [countType]

theorem count_restChunks (seq : Nat) (fs : List FrameInfo) :
    countType tFCTL (restChunks seq fs) = fs.length ∧ countType tFDAT (restChunks seq fs) = fs.length ∧
      (restChunks seq fs).find? (fun c => c.type == tACTL) = none := by
  induction fs generalizing seq with
  | nil => exact ⟨rfl, rfl, rfl⟩
  | cons f t ih =>
    obtain ⟨a, b, c⟩ := ih (seq + 2)
    simp only [countType] at a b ⊢
    refine ⟨?_, ?_, ?_⟩
    · simp only [restChunks, List.filter_cons]
      have : (tFCTL == tFCTL) = true := by decide
      have : (tFDAT == tFCTL) = false := by decide
      simp [*]
    · simp only [restChunks, List.filter_cons]
      have : (tFCTL == tFDAT) = false := by decide
      have : (tFDAT == tFDAT) = true := by decide
      simp [*]
    · simp only [restChunks, List.find?_cons]
      have : (tFCTL == tACTL) = false := by decide
      have : (tFDAT == tACTL) = false := by decide
      simp [*]

/-! Pairwise (in)equality of the chunk type codes, as local simp facts. -/
@[local simp] theorem beq_tIHDR_tIHDR : (tIHDR == tIHDR) = true := by decide
@[local simp] theorem beq_tIHDR_tPLTE : (tIHDR == tPLTE) = false := by decide
@[local simp] theorem ne_tIHDR_tPLTE : tIHDR ≠ tPLTE := by decide
@[local simp] theorem beq_tIHDR_tTRNS : (tIHDR == tTRNS) = false := by decide
@[local simp] theorem ne_tIHDR_tTRNS : tIHDR ≠ tTRNS := by decide
@[local simp] theorem beq_tIHDR_tACTL : (tIHDR == tACTL) = false := by decide
@[local simp] theorem ne_tIHDR_tACTL : tIHDR ≠ tACTL := by decide
@[local simp] theorem beq_tIHDR_tFCTL : (tIHDR == tFCTL) = false := by decide
@[local simp] theorem ne_tIHDR_tFCTL : tIHDR ≠ tFCTL := by decide
@[local simp] theorem beq_tIHDR_tIDAT : (tIHDR == tIDAT) = false := by decide
@[local simp] theorem ne_tIHDR_tIDAT : tIHDR ≠ tIDAT := by decide
@[local simp] theorem beq_tIHDR_tFDAT : (tIHDR == tFDAT) = false := by decide
@[local simp] theorem ne_tIHDR_tFDAT : tIHDR ≠ tFDAT := by decide
@[local simp] theorem beq_tIHDR_tIEND : (tIHDR == tIEND) = false := by decide
@[local simp] theorem ne_tIHDR_tIEND : tIHDR ≠ tIEND := by decide
@[local simp] theorem beq_tPLTE_tIHDR : (tPLTE == tIHDR) = false := by decide
@[local simp] theorem ne_tPLTE_tIHDR : tPLTE ≠ tIHDR := by decide
@[local simp] theorem beq_tPLTE_tPLTE : (tPLTE == tPLTE) = true := by decide
@[local simp] theorem beq_tPLTE_tTRNS : (tPLTE == tTRNS) = false := by decide
@[local simp] theorem ne_tPLTE_tTRNS : tPLTE ≠ tTRNS := by decide
@[local simp] theorem beq_tPLTE_tACTL : (tPLTE == tACTL) = false := by decide
@[local simp] theorem ne_tPLTE_tACTL : tPLTE ≠ tACTL := by decide
@[local simp] theorem beq_tPLTE_tFCTL : (tPLTE == tFCTL) = false := by decide
@[local simp] theorem ne_tPLTE_tFCTL : tPLTE ≠ tFCTL := by decide
@[local simp] theorem beq_tPLTE_tIDAT : (tPLTE == tIDAT) = false := by decide
@[local simp] theorem ne_tPLTE_tIDAT : tPLTE ≠ tIDAT := by decide
@[local simp] theorem beq_tPLTE_tFDAT : (tPLTE == tFDAT) = false := by decide
@[local simp] theorem ne_tPLTE_tFDAT : tPLTE ≠ tFDAT := by decide
@[local simp] theorem beq_tPLTE_tIEND : (tPLTE == tIEND) = false := by decide
@[local simp] theorem ne_tPLTE_tIEND : tPLTE ≠ tIEND := by decide
@[local simp] theorem beq_tTRNS_tIHDR : (tTRNS == tIHDR) = false := by decide
@[local simp] theorem ne_tTRNS_tIHDR : tTRNS ≠ tIHDR := by decide
@[local simp] theorem beq_tTRNS_tPLTE : (tTRNS == tPLTE) = false := by decide
@[local simp] theorem ne_tTRNS_tPLTE : tTRNS ≠ tPLTE := by decide
@[local simp] theorem beq_tTRNS_tTRNS : (tTRNS == tTRNS) = true := by decide
@[local simp] theorem beq_tTRNS_tACTL : (tTRNS == tACTL) = false := by decide
@[local simp] theorem ne_tTRNS_tACTL : tTRNS ≠ tACTL := by decide
@[local simp] theorem beq_tTRNS_tFCTL : (tTRNS == tFCTL) = false := by decide
@[local simp] theorem ne_tTRNS_tFCTL : tTRNS ≠ tFCTL := by decide
@[local simp] theorem beq_tTRNS_tIDAT : (tTRNS == tIDAT) = false := by decide
@[local simp] theorem ne_tTRNS_tIDAT : tTRNS ≠ tIDAT := by decide
@[local simp] theorem beq_tTRNS_tFDAT : (tTRNS == tFDAT) = false := by decide
@[local simp] theorem ne_tTRNS_tFDAT : tTRNS ≠ tFDAT := by decide
@[local simp] theorem beq_tTRNS_tIEND : (tTRNS == tIEND) = false := by decide
@[local simp] theorem ne_tTRNS_tIEND : tTRNS ≠ tIEND := by decide
@[local simp] theorem beq_tACTL_tIHDR : (tACTL == tIHDR) = false := by decide
@[local simp] theorem ne_tACTL_tIHDR : tACTL ≠ tIHDR := by decide
@[local simp] theorem beq_tACTL_tPLTE : (tACTL == tPLTE) = false := by decide
@[local simp] theorem ne_tACTL_tPLTE : tACTL ≠ tPLTE := by decide
@[local simp] theorem beq_tACTL_tTRNS : (tACTL == tTRNS) = false := by decide
@[local simp] theorem ne_tACTL_tTRNS : tACTL ≠ tTRNS := by decide
@[local simp] theorem beq_tACTL_tACTL : (tACTL == tACTL) = true := by decide
@[local simp] theorem beq_tACTL_tFCTL : (tACTL == tFCTL) = false := by decide
@[local simp] theorem ne_tACTL_tFCTL : tACTL ≠ tFCTL := by decide
@[local simp] theorem beq_tACTL_tIDAT : (tACTL == tIDAT) = false := by decide
@[local simp] theorem ne_tACTL_tIDAT : tACTL ≠ tIDAT := by decide
@[local simp] theorem beq_tACTL_tFDAT : (tACTL == tFDAT) = false := by decide
@[local simp] theorem ne_tACTL_tFDAT : tACTL ≠ tFDAT := by decide
@[local simp] theorem beq_tACTL_tIEND : (tACTL == tIEND) = false := by decide
@[local simp] theorem ne_tACTL_tIEND : tACTL ≠ tIEND := by decide
@[local simp] theorem beq_tFCTL_tIHDR : (tFCTL == tIHDR) = false := by decide
@[local simp] theorem ne_tFCTL_tIHDR : tFCTL ≠ tIHDR := by decide
@[local simp] theorem beq_tFCTL_tPLTE : (tFCTL == tPLTE) = false := by decide
@[local simp] theorem ne_tFCTL_tPLTE : tFCTL ≠ tPLTE := by decide
@[local simp] theorem beq_tFCTL_tTRNS : (tFCTL == tTRNS) = false := by decide
@[local simp] theorem ne_tFCTL_tTRNS : tFCTL ≠ tTRNS := by decide
@[local simp] theorem beq_tFCTL_tACTL : (tFCTL == tACTL) = false := by decide
@[local simp] theorem ne_tFCTL_tACTL : tFCTL ≠ tACTL := by decide
@[local simp] theorem beq_tFCTL_tFCTL : (tFCTL == tFCTL) = true := by decide
@[local simp] theorem beq_tFCTL_tIDAT : (tFCTL == tIDAT) = false := by decide
@[local simp] theorem ne_tFCTL_tIDAT : tFCTL ≠ tIDAT := by decide
@[local simp] theorem beq_tFCTL_tFDAT : (tFCTL == tFDAT) = false := by decide
@[local simp] theorem ne_tFCTL_tFDAT : tFCTL ≠ tFDAT := by decide
@[local simp] theorem beq_tFCTL_tIEND : (tFCTL == tIEND) = false := by decide
@[local simp] theorem ne_tFCTL_tIEND : tFCTL ≠ tIEND := by decide
@[local simp] theorem beq_tIDAT_tIHDR : (tIDAT == tIHDR) = false := by decide
@[local simp] theorem ne_tIDAT_tIHDR : tIDAT ≠ tIHDR := by decide
@[local simp] theorem beq_tIDAT_tPLTE : (tIDAT == tPLTE) = false := by decide
@[local simp] theorem ne_tIDAT_tPLTE : tIDAT ≠ tPLTE := by decide
@[local simp] theorem beq_tIDAT_tTRNS : (tIDAT == tTRNS) = false := by decide
@[local simp] theorem ne_tIDAT_tTRNS : tIDAT ≠ tTRNS := by decide
@[local simp] theorem beq_tIDAT_tACTL : (tIDAT == tACTL) = false := by decide
@[local simp] theorem ne_tIDAT_tACTL : tIDAT ≠ tACTL := by decide
@[local simp] theorem beq_tIDAT_tFCTL : (tIDAT == tFCTL) = false := by decide
@[local simp] theorem ne_tIDAT_tFCTL : tIDAT ≠ tFCTL := by decide
@[local simp] theorem beq_tIDAT_tIDAT : (tIDAT == tIDAT) = true := by decide
@[local simp] theorem beq_tIDAT_tFDAT : (tIDAT == tFDAT) = false := by decide
@[local simp] theorem ne_tIDAT_tFDAT : tIDAT ≠ tFDAT := by decide
@[local simp] theorem beq_tIDAT_tIEND : (tIDAT == tIEND) = false := by decide
@[local simp] theorem ne_tIDAT_tIEND : tIDAT ≠ tIEND := by decide
@[local simp] theorem beq_tFDAT_tIHDR : (tFDAT == tIHDR) = false := by decide
@[local simp] theorem ne_tFDAT_tIHDR : tFDAT ≠ tIHDR := by decide
@[local simp] theorem beq_tFDAT_tPLTE : (tFDAT == tPLTE) = false := by decide
@[local simp] theorem ne_tFDAT_tPLTE : tFDAT ≠ tPLTE := by decide
@[local simp] theorem beq_tFDAT_tTRNS : (tFDAT == tTRNS) = false := by decide
@[local simp] theorem ne_tFDAT_tTRNS : tFDAT ≠ tTRNS := by decide
@[local simp] theorem beq_tFDAT_tACTL : (tFDAT == tACTL) = false := by decide
@[local simp] theorem ne_tFDAT_tACTL : tFDAT ≠ tACTL := by decide
@[local simp] theorem beq_tFDAT_tFCTL : (tFDAT == tFCTL) = false := by decide
@[local simp] theorem ne_tFDAT_tFCTL : tFDAT ≠ tFCTL := by decide
@[local simp] theorem beq_tFDAT_tIDAT : (tFDAT == tIDAT) = false := by decide
@[local simp] theorem ne_tFDAT_tIDAT : tFDAT ≠ tIDAT := by decide
@[local simp] theorem beq_tFDAT_tFDAT : (tFDAT == tFDAT) = true := by decide
@[local simp] theorem beq_tFDAT_tIEND : (tFDAT == tIEND) = false := by decide
@[local simp] theorem ne_tFDAT_tIEND : tFDAT ≠ tIEND := by decide
@[local simp] theorem beq_tIEND_tIHDR : (tIEND == tIHDR) = false := by decide
@[local simp] theorem ne_tIEND_tIHDR : tIEND ≠ tIHDR := by decide
@[local simp] theorem beq_tIEND_tPLTE : (tIEND == tPLTE) = false := by decide
@[local simp] theorem ne_tIEND_tPLTE : tIEND ≠ tPLTE := by decide
@[local simp] theorem beq_tIEND_tTRNS : (tIEND == tTRNS) = false := by decide
@[local simp] theorem ne_tIEND_tTRNS : tIEND ≠ tTRNS := by decide
@[local simp] theorem beq_tIEND_tACTL : (tIEND == tACTL) = false := by decide
@[local simp] theorem ne_tIEND_tACTL : tIEND ≠ tACTL := by decide
@[local simp] theorem beq_tIEND_tFCTL : (tIEND == tFCTL) = false := by decide
@[local simp] theorem ne_tIEND_tFCTL : tIEND ≠ tFCTL := by decide
@[local simp] theorem beq_tIEND_tIDAT : (tIEND == tIDAT) = false := by decide
@[local simp] theorem ne_tIEND_tIDAT : tIEND ≠ tIDAT := by decide
@[local simp] theorem beq_tIEND_tFDAT : (tIEND == tFDAT) = false := by decide
@[local simp] theorem ne_tIEND_tFDAT : tIEND ≠ tFDAT := by decide
@[local simp] theorem beq_tIEND_tIEND : (tIEND == tIEND) = true := by decide

theorem orderOk_imageChunks (f1 : FrameInfo) (rest : List FrameInfo) (palette : List Nat)
    (hasTrans : Bool) (alpha1 : Option Nat) (walpha : Nat)
    (flash : Option (Nat × Nat × Nat × Nat × List Nat)) :
    orderOk (imageChunks f1 rest palette hasTrans alpha1 walpha flash) = true := by
  unfold imageChunks
  have pr := pairs_restChunks 0 rest
  cases rest with
  | nil =>
    cases flash with
    | none =>
      by_cases ht : (hasTrans && effAlpha alpha1 walpha != 255) = true <;>
        simp [ht, orderOk, skipOpt, pairsThenEnd, restChunks, ihdrPayload_length, fctlPayload_length]
    | some v =>
      obtain ⟨fx, fy, fw, fh, d2⟩ := v
      by_cases ht : (hasTrans && effAlpha alpha1 walpha != 255) = true <;>
        simp [ht, orderOk, skipOpt, pairsThenEnd, restChunks, ihdrPayload_length, fctlPayload_length]
  | cons f fs =>
    have hg : 1 + (f :: fs).length > 1 := by simp
    cases flash with
    | none =>
      by_cases ht : (hasTrans && effAlpha alpha1 walpha != 255) = true <;>
        simp [ht, orderOk, skipOpt, ihdrPayload_length, fctlPayload_length, pr]
    | some v =>
      obtain ⟨fx, fy, fw, fh, d2⟩ := v
      by_cases ht : (hasTrans && effAlpha alpha1 walpha != 255) = true <;>
        simp [ht, orderOk, skipOpt, ihdrPayload_length, fctlPayload_length, pr]

theorem beVal_fctl_seq (s d w h x y : Nat) (hs : s < 2 ^ 32) :
    beVal ((fctlPayload s d w h x y).take 4) = s := by
  have : (fctlPayload s d w h x y).take 4 = toBytes s := by
    simp only [fctlPayload, List.append_assoc]; exact take4_toBytes_append _ _
  rw [this, beVal_toBytes _ hs]

theorem range_succ_eq (n : Nat) : List.range (n + 1) = 0 :: List.range' 1 n := by
  rw [List.range_eq_range', List.range'_succ]

theorem apngOk_imageChunks (f1 : FrameInfo) (rest : List FrameInfo) (palette : List Nat)
    (hasTrans : Bool) (alpha1 : Option Nat) (walpha : Nat)
    (flash : Option (Nat × Nat × Nat × Nat × List Nat)) (hn : rest.length < 255) :
    apngOk (imageChunks f1 rest palette hasTrans alpha1 walpha flash) = true := by
  unfold imageChunks
  cases rest with
  | nil =>
    cases flash with
    | none =>
      by_cases ht : (hasTrans && effAlpha alpha1 walpha != 255) = true <;>
        simp [ht, apngOk, countType, restChunks]
    | some v =>
      obtain ⟨fx, fy, fw, fh, d2⟩ := v
      have b0 := beVal_fctl_seq 0 f1.delay f1.width f1.height 0 0 (by decide)
      have b1 := beVal_fctl_seq 1 f1.delay fw fh fx fy (by decide)
      by_cases ht : (hasTrans && effAlpha alpha1 walpha != 255) = true <;>
        simp [ht, apngOk, countType, seqNums, restChunks, List.range, List.range.loop, b0, b1] <;> simp [beVal]
  | cons f fs =>
    have hg : 1 + (f :: fs).length > 1 := by simp
    have b0 := beVal_fctl_seq 0 f1.delay f1.width f1.height 0 0 (by decide)
    obtain ⟨c1, c2, c3⟩ := count_restChunks 0 (f :: fs)
    have sq := seqNums_restChunks 0 (f :: fs) (by simp only [List.length_cons] at hn ⊢; omega)
    simp only [countType] at c1 c2
    cases flash with
    | none =>
      by_cases ht : (hasTrans && effAlpha alpha1 walpha != 255) = true <;>
        simp [ht, apngOk, countType, seqNums_append, List.find?_append, List.filter_append, beVal, hg, c1, c2, c3, sq] <;>
        simp [seqNums_cons, seqNums_nil, seqNums_append, sq, b0, range_succ_eq] <;> omega
    | some v =>
      obtain ⟨fx, fy, fw, fh, d2⟩ := v
      by_cases ht : (hasTrans && effAlpha alpha1 walpha != 255) = true <;>
        simp [ht, apngOk, countType, seqNums_append, List.find?_append, List.filter_append, beVal, hg, c1, c2, c3, sq] <;>
        simp [seqNums_cons, seqNums_nil, seqNums_append, sq, b0, range_succ_eq] <;> omega

end PngCrc
