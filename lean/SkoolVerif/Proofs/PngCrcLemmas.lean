import SkoolVerif.Model.PngCrc
import SkoolVerif.Spec.PngSpec
/-! Helper lemmas for the CRC / chunk-framing theorems of C15. -/
namespace PngCrc

theorem and255 (x : Nat) : x &&& 255 = x % 256 := Nat.and_two_pow_sub_one_eq_mod x 8

theorem xor_cancel_left (a b c : Nat) : a ^^^ b ^^^ (a ^^^ c) = b ^^^ c := by
  rw [Nat.xor_assoc, ← Nat.xor_assoc b, Nat.xor_comm b a, Nat.xor_assoc a, ← Nat.xor_assoc a a,
    Nat.xor_self, Nat.zero_xor]

/-- `shiftStep` as a shift followed by a conditional XOR. -/
theorem shiftStep_eq (c : Nat) :
    shiftStep c = (c >>> 1) ^^^ (if c % 2 = 1 then POLY else 0) := by
  unfold shiftStep
  rw [Nat.and_one_is_mod]
  by_cases h : c % 2 = 1
  · simp [h, Nat.xor_comm]
  · have : c % 2 = 0 := by omega
    simp [this]

/-- The shift register is linear over XOR. -/
theorem shiftStep_xor (a b : Nat) : shiftStep (a ^^^ b) = shiftStep a ^^^ shiftStep b := by
  simp only [shiftStep_eq, Nat.shiftRight_xor_distrib]
  have hx := @Nat.xor_mod_two_eq_one a b
  by_cases ha : a % 2 = 1 <;> by_cases hb : b % 2 = 1
  · have : ¬ (a ^^^ b) % 2 = 1 := by rw [hx]; simp [ha, hb]
    simp only [ha, hb, this, if_true, if_false, Nat.xor_zero]
    rw [Nat.xor_comm (a >>> 1) POLY, Nat.xor_comm (b >>> 1) POLY, xor_cancel_left]
  · have : (a ^^^ b) % 2 = 1 := by rw [hx]; simp [ha, hb]
    simp only [ha, hb, this, if_true, if_false, Nat.xor_zero]
    rw [Nat.xor_assoc, Nat.xor_comm (b >>> 1), ← Nat.xor_assoc]
  · have : (a ^^^ b) % 2 = 1 := by rw [hx]; simp [ha, hb]
    simp only [ha, hb, this, if_true, if_false, Nat.xor_zero]
    rw [Nat.xor_assoc]
  · have : ¬ (a ^^^ b) % 2 = 1 := by rw [hx]; simp [ha, hb]
    simp only [ha, hb, this, if_false, Nat.xor_zero]

theorem shiftN_xor (k a b : Nat) : shiftN k (a ^^^ b) = shiftN k a ^^^ shiftN k b := by
  induction k generalizing a b with
  | zero => rfl
  | succ k ih => simp only [shiftN, shiftStep_xor, ih]

theorem shiftStep_double (x : Nat) : shiftStep (2 * x) = x := by
  rw [shiftStep_eq]
  have : (2 * x) % 2 = 0 := by omega
  simp [this, Nat.shiftRight_eq_div_pow]

/-- Shifting a value whose low `k` bits are zero just drops them. -/
theorem shiftN_shiftLeft (k x : Nat) : shiftN k (x <<< k) = x := by
  induction k generalizing x with
  | zero => simp [shiftN]
  | succ k ih =>
    have : x <<< (k + 1) = 2 * (x <<< k) := by
      simp only [Nat.shiftLeft_eq, Nat.pow_succ]; ac_rfl
    rw [shiftN, this, shiftStep_double, ih]

theorem split_low8 (x : Nat) : x = (x &&& 255) ^^^ ((x >>> 8) <<< 8) := by
  apply Nat.eq_of_testBit_eq; intro i
  have h : x &&& 255 = x % 2 ^ 8 := Nat.and_two_pow_sub_one_eq_mod x 8
  rw [h]
  simp only [Nat.testBit_xor, Nat.testBit_shiftLeft, Nat.testBit_shiftRight, Nat.testBit_mod_two_pow]
  by_cases h : i < 8
  · have : ¬ 8 ≤ i := by omega
    simp [h, this]
  · have h1 : 8 + (i - 8) = i := by omega
    have h2 : 8 ≤ i := by omega
    simp [h, h1, h2]

/-- The byte-at-a-time identity behind every table-driven CRC. -/
theorem shiftN8_split (x : Nat) : shiftN 8 x = shiftN 8 (x &&& 255) ^^^ (x >>> 8) := by
  conv => lhs; rw [split_low8 x]
  rw [shiftN_xor, shiftN_shiftLeft]

theorem crcTable_get (k : Nat) (h : k < 256) : crcTable[k]! = tableEntry k := by
  unfold crcTable
  rw [getElem!_pos _ k (by simpa using h)]
  simp

theorem crcStep_eq (crc b : Nat) (hb : b < 256) : crcStep crc b = shiftN 8 (crc ^^^ b) := by
  unfold crcStep
  have hk : (crc ^^^ b) &&& 255 < 256 := by rw [and255]; omega
  rw [crcTable_get _ hk, tableEntry, shiftN8_split (crc ^^^ b), Nat.shiftRight_xor_distrib]
  have : b >>> 8 = 0 := by rw [Nat.shiftRight_eq_div_pow]; exact Nat.div_eq_of_lt hb
  rw [this, Nat.xor_zero]

/-- One spec bit step = one shift-register step after XOR-ing the bit in. -/
theorem crcBit_eq (c : Nat) (bit : Bool) : PngSpec.crcBit c bit = shiftStep (c ^^^ bit.toNat) := by
  rw [shiftStep_eq]
  unfold PngSpec.crcBit POLY
  have hx := @Nat.xor_mod_two_eq_one c bit.toNat
  have hs : (c ^^^ bit.toNat) >>> 1 = c / 2 := by
    rw [Nat.shiftRight_xor_distrib]
    cases bit <;> simp [Nat.shiftRight_eq_div_pow]
  rw [hs]
  cases bit
  · by_cases h : c % 2 = 1
    · have : (c ^^^ false.toNat) % 2 = 1 := by rw [hx]; simp [h]
      simp [h]
    · have : ¬ (c ^^^ false.toNat) % 2 = 1 := by rw [hx]; simp [h]
      simp [h]
  · by_cases h : c % 2 = 1
    · have : ¬ (c ^^^ true.toNat) % 2 = 1 := by rw [hx]; simp [h]
      simp [h]
    · have : (c ^^^ true.toNat) % 2 = 1 := by rw [hx]; simp [h]
      simp [h]

theorem split_low1 (m : Nat) : m = (m % 2) ^^^ ((m / 2) <<< 1) := by
  apply Nat.eq_of_testBit_eq; intro i
  have h : m % 2 = m % 2 ^ 1 := by simp
  rw [h]
  simp only [Nat.testBit_xor, Nat.testBit_shiftLeft, Nat.testBit_mod_two_pow]
  cases i with
  | zero => simp
  | succ i =>
    have : 1 + i = i + 1 := by omega
    simp [Nat.testBit_succ]

theorem shiftStep_low (c m : Nat) :
    shiftStep (c ^^^ m) = shiftStep (c ^^^ (m % 2)) ^^^ (m / 2) := by
  conv => lhs; rw [split_low1 m, ← Nat.xor_assoc, shiftStep_xor]
  have := shiftN_shiftLeft 1 (m / 2)
  simp only [shiftN] at this
  rw [this]

theorem bool_toNat_mod (b : Nat) : (b % 2 == 1).toNat = b % 2 := by
  by_cases h : b % 2 = 1
  · simp [h]
  · have : b % 2 = 0 := by omega
    simp [this]

/-- Feeding `k` bits one at a time = XOR the low `k` bits in, then `k` register steps. -/
theorem feedBits_eq (k c b : Nat) : PngSpec.feedBits k c b = shiftN k (c ^^^ (b % 2 ^ k)) := by
  induction k generalizing c b with
  | zero => simp [PngSpec.feedBits, shiftN, Nat.mod_one]
  | succ k ih =>
    rw [PngSpec.feedBits, ih, crcBit_eq, bool_toNat_mod, shiftN, shiftStep_low c (b % 2 ^ (k + 1))]
    congr 2
    · congr 1
      rw [Nat.pow_succ, Nat.mod_mul_left_mod]
    · rw [Nat.pow_succ, Nat.mul_comm, Nat.mod_mul_right_div_self]

/-- Table-driven step = eight bit-serial steps, for every register value. -/
theorem crcStep_eq_feedBits (crc b : Nat) (hb : b < 256) : crcStep crc b = PngSpec.feedBits 8 crc b := by
  rw [crcStep_eq crc b hb, feedBits_eq]
  have : b % 2 ^ 8 = b := Nat.mod_eq_of_lt hb
  rw [this]

theorem crcReg_eq_spec (msg : List Nat) (h : ∀ b ∈ msg, b < 256) :
    crcReg msg = PngSpec.crcRegister msg := by
  unfold crcReg PngSpec.crcRegister CRC_MASK
  generalize (4294967295 : Nat) = init
  induction msg generalizing init with
  | nil => rfl
  | cons b t ih =>
    simp only [List.foldl_cons]
    rw [crcStep_eq_feedBits init b (h b (by simp))]
    exact ih (fun x hx => h x (by simp [hx])) _

/-! ### Ranges -/

theorem shiftStep_lt (c : Nat) (h : c < 2 ^ 32) : shiftStep c < 2 ^ 32 := by
  unfold shiftStep POLY
  have h1 : c >>> 1 < 2 ^ 32 := by rw [Nat.shiftRight_eq_div_pow]; omega
  split
  · exact Nat.xor_lt_two_pow (by decide) h1
  · exact h1

theorem shiftN_lt (k c : Nat) (h : c < 2 ^ 32) : shiftN k c < 2 ^ 32 := by
  induction k generalizing c with
  | zero => exact h
  | succ k ih => exact ih _ (shiftStep_lt c h)

theorem crcStep_lt (crc b : Nat) (h : crc < 2 ^ 32) : crcStep crc b < 2 ^ 32 := by
  unfold crcStep
  have hk : (crc ^^^ b) &&& 255 < 256 := by rw [and255]; omega
  rw [crcTable_get _ hk]
  apply Nat.xor_lt_two_pow
  · exact shiftN_lt 8 _ (by omega)
  · rw [Nat.shiftRight_eq_div_pow]; omega

theorem crcReg_lt (msg : List Nat) : crcReg msg < 2 ^ 32 := by
  unfold crcReg
  have : CRC_MASK < 2 ^ 32 := by decide
  generalize CRC_MASK = init at this
  induction msg generalizing init with
  | nil => exact this
  | cons b t ih => exact ih _ (crcStep_lt init b this)

theorem toBytes_length (n : Nat) : (toBytes n).length = 4 := rfl

theorem toBytes_lt (n : Nat) (h : n < 2 ^ 32) : ∀ b ∈ toBytes n, b < 256 := by
  intro b hb
  simp only [toBytes, List.mem_cons, List.not_mem_nil, or_false, and255] at hb
  rcases hb with rfl | rfl | rfl | rfl
  · rw [Nat.shiftRight_eq_div_pow]; omega
  · omega
  · omega
  · omega

theorem beVal_toBytes (n : Nat) (h : n < 2 ^ 32) : PngSpec.beVal (toBytes n) = n := by
  simp only [toBytes, PngSpec.beVal, List.foldl_cons, List.foldl_nil, and255, Nat.shiftRight_eq_div_pow]
  omega

/-- The four CRC bytes are bytes, and read back big-endian they are the
specification CRC-32 of the message. -/
theorem getCrc_spec (msg : List Nat) (h : ∀ b ∈ msg, b < 256) :
    (getCrc msg).length = 4 ∧ (∀ b ∈ getCrc msg, b < 256) ∧
      PngSpec.beVal (getCrc msg) = PngSpec.crc32 msg := by
  have hlt : crcReg msg ^^^ CRC_MASK < 2 ^ 32 :=
    Nat.xor_lt_two_pow (crcReg_lt msg) (by decide)
  refine ⟨rfl, toBytes_lt _ hlt, ?_⟩
  unfold getCrc
  rw [beVal_toBytes _ hlt, crcReg_eq_spec msg h]
  rfl

/-! ### Chunk framing -/

theorem chunk_length (data : List Nat) : (chunk data).length = data.length + 8 := by
  simp [chunk, toBytes_length, getCrc]; omega

/-- The specification parser reads back one framed chunk and hands back the
rest of the stream. -/
theorem parseOne_chunk (type payload rest : List Nat)
    (ht : type.length = 4) (hb : ∀ b ∈ type ++ payload, b < 256)
    (hlen : payload.length < 2 ^ 32) :
    PngSpec.parseOne (chunk (type ++ payload) ++ rest) = some ({ type, payload }, rest) := by
  obtain ⟨hc4, -, hcv⟩ := getCrc_spec (type ++ payload) hb
  have hlenB : PngSpec.beVal (toBytes payload.length) = payload.length := beVal_toBytes _ hlen
  have e : chunk (type ++ payload) ++ rest =
      toBytes payload.length ++ (type ++ (payload ++ (getCrc (type ++ payload) ++ rest))) := by
    have hl : type.length + payload.length - 4 = payload.length := by omega
    simp [chunk, hl, List.append_assoc]
  rw [e]
  generalize hcr : getCrc (type ++ payload) = crcb at *
  have htl : (toBytes payload.length).length = 4 := rfl
  generalize hLb : toBytes payload.length = lb at *
  have t4 : (lb ++ (type ++ (payload ++ (crcb ++ rest)))).take 4 = lb := by
    rw [List.take_append_of_le_length (by omega)]; simp [← htl]
  have d4 : (lb ++ (type ++ (payload ++ (crcb ++ rest)))).drop 4 = type ++ (payload ++ (crcb ++ rest)) := by
    rw [List.drop_append_of_le_length (by omega)]; simp [← htl]
  have d8 : (lb ++ (type ++ (payload ++ (crcb ++ rest)))).drop 8 = payload ++ (crcb ++ rest) := by
    have : (8 : Nat) = 4 + 4 := rfl
    rw [this, ← List.drop_drop, d4, List.drop_append_of_le_length (by omega)]
    simp [← ht]
  have hL : (lb ++ (type ++ (payload ++ (crcb ++ rest)))).length = 12 + payload.length + rest.length := by
    simp [htl, ht, hc4]; omega
  have tt : (type ++ (payload ++ (crcb ++ rest))).take 4 = type := by
    rw [List.take_append_of_le_length (by omega)]; simp [← ht]
  have pp : (payload ++ (crcb ++ rest)).take payload.length = payload := by simp
  have d8l : (lb ++ (type ++ (payload ++ (crcb ++ rest)))).drop (8 + payload.length) = crcb ++ rest := by
    rw [← List.drop_drop, d8]; simp
  have cc : (crcb ++ rest).take 4 = crcb := by
    rw [List.take_append_of_le_length (by omega)]; simp [← hc4]
  have d12 : (lb ++ (type ++ (payload ++ (crcb ++ rest)))).drop (12 + payload.length) = rest := by
    have : 12 + payload.length = (8 + payload.length) + 4 := by omega
    rw [this, ← List.drop_drop, d8l, List.drop_append_of_le_length (by omega)]
    simp [← hc4]
  have c1 : ¬ (12 + payload.length + rest.length < 12) := by omega
  have c2 : ¬ (12 + payload.length + rest.length < 12 + payload.length) := by omega
  unfold PngSpec.parseOne
  simp only [t4, d4, d8, hlenB, hL, c1, c2, if_false, tt, pp, d8l, cc, d12, hcv, ne_eq, not_true_eq_false]

theorem chunk_ne_nil (data : List Nat) : chunk data ≠ [] := by simp [chunk, toBytes]

/-- Parsing a concatenation of framed chunks returns exactly those chunks. -/
theorem parseChunks_flatMap (cs : List PngSpec.Chunk) (fuel : Nat) (hf : cs.length ≤ fuel)
    (h : ∀ c ∈ cs, c.type.length = 4 ∧ (∀ b ∈ c.type ++ c.payload, b < 256) ∧ c.payload.length < 2 ^ 32) :
    PngSpec.parseChunks fuel (cs.flatMap (fun c => chunk (c.type ++ c.payload))) = some cs := by
  induction cs generalizing fuel with
  | nil => cases fuel <;> rfl
  | cons c t ih =>
    cases fuel with
    | zero => simp at hf
    | succ fuel =>
      obtain ⟨ht, hb, hl⟩ := h c (by simp)
      simp only [List.flatMap_cons]
      have hne := chunk_ne_nil (c.type ++ c.payload)
      cases hch : chunk (c.type ++ c.payload) with
      | nil => exact absurd hch hne
      | cons b0 t0 =>
        rw [List.cons_append, PngSpec.parseChunks, ← List.cons_append, ← hch, parseOne_chunk _ _ _ ht hb hl]
        simp only
        rw [ih fuel (by simpa using hf) (fun c hc => h c (by simp [hc]))]
        rfl

end PngCrc
