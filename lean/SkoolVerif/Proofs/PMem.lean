import SkoolVerif.Proofs.BankLoaderExec
/-!
A functional 128K memory: everything below 0xC000 is one function, the 16K window above it shows
the bank selected by the low three bits of the last accepted write to port 0x7FFD.  It abstracts
`pagingtracer.Memory` for programs that never page banks 5 or 2 into the window (ROM switching and
the aliasing of banks 5/2 are not represented) and is the witness that the `PagedMem` laws the bank
loader theorems assume are satisfiable; `Z80.Mem128` (`Prelude/Machine.lean`) is the faithful model.
-/
open Z80 LoaderSteps BankLoaderExec

structure PMem where
  lo : Int → Int
  hi : Int → Int → Int
  o7 : Int

namespace PMem

instance : MemLike PMem where
  get m a := if a < 49152 then m.lo a else m.hi (m.o7 % 8) (a - 49152)
  set m a v :=
    if a < 49152 then { m with lo := fun b => if b = a then v else m.lo b }
    else { m with hi := fun k o => if k = m.o7 % 8 ∧ o = a - 49152 then v else m.hi k o }
  portOut m p v := if PyInt.land p 0x8002 = 0 ∧ PyInt.land m.o7 32 = 0 then { m with o7 := v } else m
  o7ffd m := m.o7
  is128 _ := true

theorem land_7ffd : PyInt.land 0x7FFD 0x8002 = 0 := by decide

instance : PagedMem PMem where
  ok _ := True
  ok_set := fun _ _ _ _ => trivial
  ok_portOut := fun _ _ _ _ => trivial
  get_set := by
    intro m a v b _ _ ha _ hb
    simp only [mget, mset, MemLike.get, MemLike.set, ha, hb, if_true]
  get_portOut := by
    intro m p v b _ hb
    simp only [mget, MemLike.get, MemLike.portOut, hb, if_true]
    split <;> rfl
  o7ffd_set := by
    intro m a v
    simp only [mset, MemLike.set, MemLike.o7ffd]
    split <;> rfl
  o7ffd_portOut := by
    intro m v _ h
    have h' : PyInt.land m.o7 32 = 0 := h
    simp only [MemLike.portOut, MemLike.o7ffd, land_7ffd, h', and_self, if_true]

def zero : PMem := ⟨fun _ => 0, fun _ _ => 0, 0⟩

/-- overlay `code` at address `e` (below 0xC000) -/
def load (m : PMem) (e : Int) (code : List Nat) : PMem :=
  { m with lo := fun a => if e ≤ a ∧ a < e + code.length then ((code.getD (a - e).toNat 0 : Nat) : Int) else m.lo a }

theorem codeAt_load (m : PMem) (e : Int) (code : List Nat) (he : e + code.length ≤ 49152) :
    CodeAt (m.load e code) e code := by
  intro k hk
  have h1 : e + (k : Int) < 49152 := by omega
  show (if e + (k : Int) < 49152 then (if e ≤ e + k ∧ e + k < e + code.length then _ else _) else _) = _
  rw [if_pos h1, if_pos (by omega)]
  have : (e + (k : Int) - e).toNat = k := by omega
  rw [this]

theorem get_load (m : PMem) (e : Int) (code : List Nat) (a : Int) (ha : a < 49152) (h : e ≤ a ∧ a < e + code.length) :
    mget (m.load e code) a = ((code.getD (a - e).toNat 0 : Nat) : Int) := by
  show (if a < 49152 then (if e ≤ a ∧ a < e + code.length then _ else _) else _) = _
  rw [if_pos ha, if_pos h]

end PMem
