import SkoolVerif.Proofs.SemBlock
/-!
Per-closure refinement, family 8: block I/O `ini` (INI IND INIR INDR) and `outi`
(OUTI OUTD OTIR OTDR), including the flags of a repeating instruction that is about to repeat.
-/
namespace C05
open Z80 Sim Spec Z80Isa Z80Spec TableRanges AluCheck
variable {μ : Type} [MemLike μ] [CellMem μ]

theorem p2i17 (p : Prop) [Decidable p] : PyInt.p2i p * 17 = if p then 17 else 0 := by
  unfold PyInt.p2i; split <;> simp
theorem p2i16 (p : Prop) [Decidable p] : PyInt.p2i p * 16 = if p then 16 else 0 := by
  unfold PyInt.p2i; split <;> simp
theorem p2i64 (p : Prop) [Decidable p] : PyInt.p2i p * 64 = if p then 64 else 0 := by
  unfold PyInt.p2i; split <;> simp
theorem p2i1 (p : Prop) [Decidable p] : PyInt.p2i p = if p then 1 else 0 := rfl

theorem fl_cast (c : Bool) (m : Nat) : ((fl c m : Nat) : Int) = if c then (m : Int) else 0 := by
  cases c <;> simp [fl]

/-- INI/IND/OUTI/OUTD (and the last iteration of the repeating forms) -/
theorem io_flags (b v j : Int) (hb : Byte b) (hv : Byte v) (hj : 0 ≤ j ∧ j < 512) :
    PyInt.land b 168 + PyInt.p2i (b = 0) * 64 + PyInt.p2i (j > 255) * 17 + Tbl.PARITY (PyInt.xor (j % 8) b)
      + PyInt.land v 128 / 64 = ((ioBlockFlags b.toNat v.toNat j.toNat : Nat) : Int) := by
  have e8 : (j % 8).toNat = j.toNat % 8 := by omega
  rw [(byte_masks b hb).1, par2 _ _ (by omega) hb, nflag v hv, p2i64, p2i17, e8]
  have tz : (b.toNat == 0) = decide (b = 0) := by
    unfold Byte at hb
    by_cases h : b = 0
    · simp [h]
    · have : b.toNat ≠ 0 := by omega
      simp [h, this]
  have tc : (j.toNat > 255) = (j > 255) := propext (by omega)
  simp only [ioBlockFlags, mkF_sum, tz, tc, Int.natCast_add, fl_cast, decide_eq_true_eq]
  omega

/-- repeating, carry, N: H = (B mod 16 = 0), parity corrected by (B−1) mod 8 -/
theorem io_rep_flags_cn (b v j pc : Int) (hb : Byte b) (hv : Byte v) (hj : 0 ≤ j ∧ j < 512) (hpc : Word pc)
    (hc : j > 255) (hn : PyInt.land v 128 / 64 ≠ 0) :
    PyInt.land b 128 + PyInt.land (pc / 256) 40 + PyInt.p2i (b % 16 = 0) * 16
      + Tbl.PARITY (PyInt.xor (PyInt.xor (j % 8) b) ((b - 1) % 8)) + PyInt.land v 128 / 64 + PyInt.p2i (j > 255) =
      ((ioBlockRepFlags b.toNat v.toNat j.toNat (pc / 256).toNat : Nat) : Int) := by
  unfold Byte at hb
  have e8 : (j % 8).toNat = j.toNat % 8 := by omega
  have ey : ((b - 1) % 8).toNat = (b.toNat + 255) % 256 % 8 := by omega
  rw [nflag v hv] at hn
  have hbit : bit v.toNat 7 = true := by
    cases hb7 : bit v.toNat 7
    · simp [hb7, fl] at hn
    · rfl
  rw [(byte_masks b hb).2.1, hi53 _ (byte_hi pc hpc), par3 _ _ _ (by omega) hb (by omega), nflag v hv, p2i16, p2i1, e8, ey]
  have tc : (j.toNat > 255) = (j > 255) := propext (by omega)
  have th : (b.toNat % 16 == 0) = decide (b % 16 = 0) := by
    by_cases h : b % 16 = 0
    · have : b.toNat % 16 = 0 := by omega
      simp [h, this]
    · have : b.toNat % 16 ≠ 0 := by omega
      simp [h, this]
  simp only [ioBlockRepFlags, mkF_sum, tc, hc, hbit, th, Int.natCast_add, fl_cast, decide_true, if_true, Bool.true_and,
    decide_eq_true_eq, Bool.false_eq_true, if_false]
  omega

/-- repeating, carry, not N: H = (B mod 16 = 15), parity corrected by (B+1) mod 8 -/
theorem io_rep_flags_c (b v j pc : Int) (hb : Byte b) (hv : Byte v) (hj : 0 ≤ j ∧ j < 512) (hpc : Word pc)
    (hc : j > 255) (hn : ¬ PyInt.land v 128 / 64 ≠ 0) :
    PyInt.land b 128 + PyInt.land (pc / 256) 40 + PyInt.p2i (b % 16 = 15) * 16
      + Tbl.PARITY (PyInt.xor (PyInt.xor (j % 8) b) ((b + 1) % 8)) + PyInt.land v 128 / 64 + PyInt.p2i (j > 255) =
      ((ioBlockRepFlags b.toNat v.toNat j.toNat (pc / 256).toNat : Nat) : Int) := by
  unfold Byte at hb
  have e8 : (j % 8).toNat = j.toNat % 8 := by omega
  have ey : ((b + 1) % 8).toNat = (b.toNat + 1) % 8 := by omega
  rw [nflag v hv] at hn
  have hbit : bit v.toNat 7 = false := by
    cases hb7 : bit v.toNat 7
    · rfl
    · simp [hb7, fl] at hn
  rw [(byte_masks b hb).2.1, hi53 _ (byte_hi pc hpc), par3 _ _ _ (by omega) hb (by omega), nflag v hv, p2i16, p2i1, e8, ey]
  have tc : (j.toNat > 255) = (j > 255) := propext (by omega)
  have th : (b.toNat % 16 == 15) = decide (b % 16 = 15) := by
    by_cases h : b % 16 = 15
    · have : b.toNat % 16 = 15 := by omega
      simp [h, this]
    · have : b.toNat % 16 ≠ 15 := by omega
      simp [h, this]
  simp only [ioBlockRepFlags, mkF_sum, tc, hc, hbit, th, Int.natCast_add, fl_cast, decide_true, if_true, Bool.true_and,
    decide_eq_true_eq, Bool.false_eq_true, if_false]
  omega

/-- repeating, no carry: H = 0, parity corrected by B mod 8 -/
theorem io_rep_flags_nc (b v j pc : Int) (hb : Byte b) (hv : Byte v) (hj : 0 ≤ j ∧ j < 512) (hpc : Word pc)
    (hc : ¬ j > 255) :
    PyInt.land b 128 + PyInt.land (pc / 256) 40 + 0
      + Tbl.PARITY (PyInt.xor (PyInt.xor (j % 8) b) (b % 8)) + PyInt.land v 128 / 64 + PyInt.p2i (j > 255) =
      ((ioBlockRepFlags b.toNat v.toNat j.toNat (pc / 256).toNat : Nat) : Int) := by
  unfold Byte at hb
  have e8 : (j % 8).toNat = j.toNat % 8 := by omega
  have ey : (b % 8).toNat = b.toNat % 8 := by omega
  rw [(byte_masks b hb).2.1, hi53 _ (byte_hi pc hpc), par3 _ _ _ (by omega) hb (by omega), nflag v hv, p2i1, e8, ey]
  have tc : (j.toNat > 255) = (j > 255) := propext (by omega)
  simp only [ioBlockRepFlags, mkF_sum, tc, hc, Int.natCast_add, fl_cast, decide_false, if_false, Bool.false_and,
    decide_eq_true_eq, Bool.false_eq_true]
  omega

theorem p2i_eq_zero (p : Prop) [Decidable p] : (PyInt.p2i p = 0) = ¬ p := by
  apply propext; unfold PyInt.p2i; split <;> simp_all

/-- the common finishing script of the block I/O closures, for one transferred byte `v` and one
value `x` added to it (`(C ± 1) mod 256` for IN*, `L'` for OUT*) -/
macro "io_finish" hs:term "," hR2:term "," F:term "," Gcn:term "," Gc:term "," Gnc:term : tactic => `(tactic|
  (repeat' split
   all_goals (rsimp $hs; rw [$hR2:term])
   all_goals (first
     | rw [$F:term]
     | rw [$Gcn:term (by assumption) (by assumption)]
     | rw [$Gc:term (by assumption) (by assumption)]
     | rw [$Gnc:term (by assumption)]
     | skip)
   all_goals st_regs $hs))

set_option maxHeartbeats 1000000 in
theorem sem_ini (cfg : Cfg) (inc repeat_ : Int) (parity : TblI1) (d : Decoded)
    (hz : zinstrOf (.ini inc repeat_ parity) = some d) (hwf : instrWf (.ini inc repeat_ parity) = true)
    (s : St μ) (hi : RInv s) :
    Sim.ini cfg inc repeat_ parity s = Spec.exec cfg d s := by
  simp only [instrWf, Bool.and_eq_true, decide_eq_true_eq] at hwf
  obtain ⟨-, rfl⟩ := hwf
  zinv hz
  obtain ⟨dec, hdec, rep, hrep, rfl⟩ := hz
  rinv_setup hi
  have hBb : Byte ((rget s.reg 2 - 1) % 256) := by unfold Byte; omega
  have hC := hr.byte 3 (by omega) (by omega) (by omega)
  have hv1 := (readPort_byte s.ins hins).1
  have hv2 : Byte 191 := by unfold Byte; omega
  unfold Byte at hC
  simp only [sim_handler, Id.run, pure, TblI1.get]
  rcases dirOf_inv _ _ hdec with ⟨rfl, rfl⟩ | ⟨rfl, rfl⟩ <;> rcases repOf_inv _ _ hrep with ⟨rfl, rfl⟩ | ⟨rfl, rfl⟩ <;>
    (spec_simp []; idx_simp; rsimp hs
     simp only [ne_eq, not_true_eq_false, if_false, Int.reduceEq, not_false_eq_true, if_true, Bool.false_eq_true,
       false_and, true_and, p2i_eq_zero, Decidable.not_not]
     split)
  -- goal order: (INI, INIR, IND, INDR) × (port reader attached, not attached)
  · have hj : 0 ≤ (readPort s.ins).fst + (rget s.reg 3 + 1) % 256 ∧ (readPort s.ins).fst + (rget s.reg 3 + 1) % 256 < 512 := by
      unfold Byte at hv1; omega
    io_finish hs, hR2, io_flags _ _ _ hBb hv1 hj, io_rep_flags_cn _ _ _ s.pc hBb hv1 hj hpc,
      io_rep_flags_c _ _ _ s.pc hBb hv1 hj hpc, io_rep_flags_nc _ _ _ s.pc hBb hv1 hj hpc
  · have hj : 0 ≤ 191 + (rget s.reg 3 + 1) % 256 ∧ 191 + (rget s.reg 3 + 1) % 256 < 512 := by omega
    io_finish hs, hR2, io_flags _ _ _ hBb hv2 hj, io_rep_flags_cn _ _ _ s.pc hBb hv2 hj hpc,
      io_rep_flags_c _ _ _ s.pc hBb hv2 hj hpc, io_rep_flags_nc _ _ _ s.pc hBb hv2 hj hpc
  · have hj : 0 ≤ (readPort s.ins).fst + (rget s.reg 3 + 1) % 256 ∧ (readPort s.ins).fst + (rget s.reg 3 + 1) % 256 < 512 := by
      unfold Byte at hv1; omega
    io_finish hs, hR2, io_flags _ _ _ hBb hv1 hj, io_rep_flags_cn _ _ _ s.pc hBb hv1 hj hpc,
      io_rep_flags_c _ _ _ s.pc hBb hv1 hj hpc, io_rep_flags_nc _ _ _ s.pc hBb hv1 hj hpc
  · have hj : 0 ≤ 191 + (rget s.reg 3 + 1) % 256 ∧ 191 + (rget s.reg 3 + 1) % 256 < 512 := by omega
    io_finish hs, hR2, io_flags _ _ _ hBb hv2 hj, io_rep_flags_cn _ _ _ s.pc hBb hv2 hj hpc,
      io_rep_flags_c _ _ _ s.pc hBb hv2 hj hpc, io_rep_flags_nc _ _ _ s.pc hBb hv2 hj hpc
  · have hj : 0 ≤ (readPort s.ins).fst + (rget s.reg 3 + -1) % 256 ∧ (readPort s.ins).fst + (rget s.reg 3 + -1) % 256 < 512 := by
      unfold Byte at hv1; omega
    io_finish hs, hR2, io_flags _ _ _ hBb hv1 hj, io_rep_flags_cn _ _ _ s.pc hBb hv1 hj hpc,
      io_rep_flags_c _ _ _ s.pc hBb hv1 hj hpc, io_rep_flags_nc _ _ _ s.pc hBb hv1 hj hpc
  · have hj : 0 ≤ 191 + (rget s.reg 3 + -1) % 256 ∧ 191 + (rget s.reg 3 + -1) % 256 < 512 := by omega
    io_finish hs, hR2, io_flags _ _ _ hBb hv2 hj, io_rep_flags_cn _ _ _ s.pc hBb hv2 hj hpc,
      io_rep_flags_c _ _ _ s.pc hBb hv2 hj hpc, io_rep_flags_nc _ _ _ s.pc hBb hv2 hj hpc
  · have hj : 0 ≤ (readPort s.ins).fst + (rget s.reg 3 + -1) % 256 ∧ (readPort s.ins).fst + (rget s.reg 3 + -1) % 256 < 512 := by
      unfold Byte at hv1; omega
    io_finish hs, hR2, io_flags _ _ _ hBb hv1 hj, io_rep_flags_cn _ _ _ s.pc hBb hv1 hj hpc,
      io_rep_flags_c _ _ _ s.pc hBb hv1 hj hpc, io_rep_flags_nc _ _ _ s.pc hBb hv1 hj hpc
  · have hj : 0 ≤ 191 + (rget s.reg 3 + -1) % 256 ∧ 191 + (rget s.reg 3 + -1) % 256 < 512 := by omega
    io_finish hs, hR2, io_flags _ _ _ hBb hv2 hj, io_rep_flags_cn _ _ _ s.pc hBb hv2 hj hpc,
      io_rep_flags_c _ _ _ s.pc hBb hv2 hj hpc, io_rep_flags_nc _ _ _ s.pc hBb hv2 hj hpc

set_option maxHeartbeats 1000000 in
theorem sem_outi (cfg : Cfg) (inc repeat_ : Int) (parity : TblI1) (d : Decoded)
    (hz : zinstrOf (.outi inc repeat_ parity) = some d) (hwf : instrWf (.outi inc repeat_ parity) = true)
    (s : St μ) (hi : RInv s) :
    Sim.outi cfg inc repeat_ parity s = Spec.exec cfg d s := by
  simp only [instrWf, Bool.and_eq_true, decide_eq_true_eq] at hwf
  obtain ⟨-, rfl⟩ := hwf
  zinv hz
  obtain ⟨dec, hdec, rep, hrep, rfl⟩ := hz
  rinv_setup hi
  have hBb : Byte ((rget s.reg 2 - 1) % 256) := by unfold Byte; omega
  have hv1 := hmem.byte (rget s.reg 7 + 256 * rget s.reg 6)
  simp only [sim_handler, Id.run, pure, TblI1.get]
  rcases dirOf_inv _ _ hdec with ⟨rfl, rfl⟩ | ⟨rfl, rfl⟩ <;> rcases repOf_inv _ _ hrep with ⟨rfl, rfl⟩ | ⟨rfl, rfl⟩ <;>
    (spec_simp []; idx_simp; rsimp hs
     simp only [ne_eq, not_true_eq_false, if_false, Int.reduceEq, not_false_eq_true, if_true, Bool.false_eq_true,
       false_and, true_and, p2i_eq_zero, Decidable.not_not]
     split)
  -- goal order: (OUTI, OTIR, OUTD, OTDR) × (port writer attached, not attached)
  · have hj : 0 ≤ (rget s.reg 7 + 256 * rget s.reg 6 + 1) % 65536 % 256 + mget s.mem (rget s.reg 7 + 256 * rget s.reg 6) ∧
        (rget s.reg 7 + 256 * rget s.reg 6 + 1) % 65536 % 256 + mget s.mem (rget s.reg 7 + 256 * rget s.reg 6) < 512 := by
      unfold Byte at hv1; omega
    io_finish hs, hR2, io_flags _ _ _ hBb hv1 hj, io_rep_flags_cn _ _ _ s.pc hBb hv1 hj hpc,
      io_rep_flags_c _ _ _ s.pc hBb hv1 hj hpc, io_rep_flags_nc _ _ _ s.pc hBb hv1 hj hpc
  · have hj : 0 ≤ (rget s.reg 7 + 256 * rget s.reg 6 + 1) % 65536 % 256 + mget s.mem (rget s.reg 7 + 256 * rget s.reg 6) ∧
        (rget s.reg 7 + 256 * rget s.reg 6 + 1) % 65536 % 256 + mget s.mem (rget s.reg 7 + 256 * rget s.reg 6) < 512 := by
      unfold Byte at hv1; omega
    io_finish hs, hR2, io_flags _ _ _ hBb hv1 hj, io_rep_flags_cn _ _ _ s.pc hBb hv1 hj hpc,
      io_rep_flags_c _ _ _ s.pc hBb hv1 hj hpc, io_rep_flags_nc _ _ _ s.pc hBb hv1 hj hpc
  · have hj : 0 ≤ (rget s.reg 7 + 256 * rget s.reg 6 + 1) % 65536 % 256 + mget s.mem (rget s.reg 7 + 256 * rget s.reg 6) ∧
        (rget s.reg 7 + 256 * rget s.reg 6 + 1) % 65536 % 256 + mget s.mem (rget s.reg 7 + 256 * rget s.reg 6) < 512 := by
      unfold Byte at hv1; omega
    io_finish hs, hR2, io_flags _ _ _ hBb hv1 hj, io_rep_flags_cn _ _ _ s.pc hBb hv1 hj hpc,
      io_rep_flags_c _ _ _ s.pc hBb hv1 hj hpc, io_rep_flags_nc _ _ _ s.pc hBb hv1 hj hpc
  · have hj : 0 ≤ (rget s.reg 7 + 256 * rget s.reg 6 + 1) % 65536 % 256 + mget s.mem (rget s.reg 7 + 256 * rget s.reg 6) ∧
        (rget s.reg 7 + 256 * rget s.reg 6 + 1) % 65536 % 256 + mget s.mem (rget s.reg 7 + 256 * rget s.reg 6) < 512 := by
      unfold Byte at hv1; omega
    io_finish hs, hR2, io_flags _ _ _ hBb hv1 hj, io_rep_flags_cn _ _ _ s.pc hBb hv1 hj hpc,
      io_rep_flags_c _ _ _ s.pc hBb hv1 hj hpc, io_rep_flags_nc _ _ _ s.pc hBb hv1 hj hpc
  · have hj : 0 ≤ (rget s.reg 7 + 256 * rget s.reg 6 + -1) % 65536 % 256 + mget s.mem (rget s.reg 7 + 256 * rget s.reg 6) ∧
        (rget s.reg 7 + 256 * rget s.reg 6 + -1) % 65536 % 256 + mget s.mem (rget s.reg 7 + 256 * rget s.reg 6) < 512 := by
      unfold Byte at hv1; omega
    io_finish hs, hR2, io_flags _ _ _ hBb hv1 hj, io_rep_flags_cn _ _ _ s.pc hBb hv1 hj hpc,
      io_rep_flags_c _ _ _ s.pc hBb hv1 hj hpc, io_rep_flags_nc _ _ _ s.pc hBb hv1 hj hpc
  · have hj : 0 ≤ (rget s.reg 7 + 256 * rget s.reg 6 + -1) % 65536 % 256 + mget s.mem (rget s.reg 7 + 256 * rget s.reg 6) ∧
        (rget s.reg 7 + 256 * rget s.reg 6 + -1) % 65536 % 256 + mget s.mem (rget s.reg 7 + 256 * rget s.reg 6) < 512 := by
      unfold Byte at hv1; omega
    io_finish hs, hR2, io_flags _ _ _ hBb hv1 hj, io_rep_flags_cn _ _ _ s.pc hBb hv1 hj hpc,
      io_rep_flags_c _ _ _ s.pc hBb hv1 hj hpc, io_rep_flags_nc _ _ _ s.pc hBb hv1 hj hpc
  · have hj : 0 ≤ (rget s.reg 7 + 256 * rget s.reg 6 + -1) % 65536 % 256 + mget s.mem (rget s.reg 7 + 256 * rget s.reg 6) ∧
        (rget s.reg 7 + 256 * rget s.reg 6 + -1) % 65536 % 256 + mget s.mem (rget s.reg 7 + 256 * rget s.reg 6) < 512 := by
      unfold Byte at hv1; omega
    io_finish hs, hR2, io_flags _ _ _ hBb hv1 hj, io_rep_flags_cn _ _ _ s.pc hBb hv1 hj hpc,
      io_rep_flags_c _ _ _ s.pc hBb hv1 hj hpc, io_rep_flags_nc _ _ _ s.pc hBb hv1 hj hpc
  · have hj : 0 ≤ (rget s.reg 7 + 256 * rget s.reg 6 + -1) % 65536 % 256 + mget s.mem (rget s.reg 7 + 256 * rget s.reg 6) ∧
        (rget s.reg 7 + 256 * rget s.reg 6 + -1) % 65536 % 256 + mget s.mem (rget s.reg 7 + 256 * rget s.reg 6) < 512 := by
      unfold Byte at hv1; omega
    io_finish hs, hR2, io_flags _ _ _ hBb hv1 hj, io_rep_flags_cn _ _ _ s.pc hBb hv1 hj hpc,
      io_rep_flags_c _ _ _ s.pc hBb hv1 hj hpc, io_rep_flags_nc _ _ _ s.pc hBb hv1 hj hpc

end C05
