import SkoolVerif.Proofs.LoaderSteps
import SkoolVerif.Model.RomEpilogue
/-!
The epilogue of the 48K ROM's LD-BYTES as `fast_load` leaves it to run: `RET` at 0x05E2 into
SA/LD-RET (0x053F: restore the border, test BREAK, `EI`, `POP AF`, `RET`), executed symbolically
in the generated simulator model.  The ROM bytes are a hypothesis (`RomEpilogue`), checked against
the real ROM image by harness/props/c12.py on every run.
-/
open Z80 Sim LoaderSteps

namespace RomReturn

variable {μ : Type} [MemLike μ]

export RomEpilogue (saLdRet)

/-- the ROM bytes the epilogue executes -/
def RomEpilogue (m : μ) : Prop := mget m 0x05E2 = 0xC9 ∧ CodeAt m 0x053F saLdRet

theorem land_nonneg (x : Int) (m : Nat) : 0 ≤ PyInt.land x (m : Int) := by
  cases x with
  | ofNat a => show (0 : Int) ≤ ((a &&& m : Nat) : Int); omega
  | negSucc a => show (0 : Int) ≤ ((m - (m &&& a) : Nat) : Int); omega

theorem land_one (x : Int) (h : 0 ≤ x) : PyInt.land x 1 = x % 2 := by
  cases x with
  | ofNat a => show ((a &&& 1 : Nat) : Int) = (a : Int) % 2; rw [Nat.and_one_is_mod]; omega
  | negSucc a => simp at h

/-- RRA moves bit 0 of A into the carry flag -/
theorem rra_carry (a f : Int) (ha : a % 2 = 1) : PyInt.land (Tbl.RRA a f).2 1 = 1 := by
  have h1 := land_even f 196 (by decide)
  have h2 := land_even (Tbl.RR_r (f % 2) a) 40 (by decide)
  have n1 := land_nonneg f 196
  have n2 := land_nonneg (Tbl.RR_r (f % 2) a) 40
  have e1 : ((196 : Nat) : Int) = 196 := rfl
  have e2 : ((40 : Nat) : Int) = 40 := rfl
  rw [e1] at h1 n1; rw [e2] at h2 n2
  simp only [Tbl.RRA]
  rw [land_one _ (by omega)]
  omega

/-- What the epilogue leaves in the register file: only SP and R change (A and F go through the
stack and come back). -/
def ReturnRegs (r r' : Array Int) (sp : Int) : Prop :=
  r'.size = 24 ∧ rget r' 12 = sp + 4 ∧ ∀ i : Int, i ≠ 12 → i ≠ 15 → rget r' i = rget r i

/-- the state in which the epilogue ends, relative to the state `s` at 0x05E2 -/
def Returned (s s' : St μ) (sp lo hi : Int) [RamMem μ] : Prop :=
  ∃ (reg' : Array Int) (mem' : μ) (outs' : List (Int × Int)) (inLog' : List Int),
    s' = { s with
      reg := reg', mem := mem', pc := lo + 256 * hi, t := s.t + 122, iff := 1,
      ins := (readPort s.ins).2, outs := outs', inLog := inLog' } ∧
    ReturnRegs s.reg reg' sp ∧ RamMem.ok mem' ∧
    (∀ x : Int, 0 ≤ x ∧ x < 65536 → mget mem' x =
      if x = sp + 1 then rget s.reg 0 else if x = sp then rget s.reg 1 else mget s.mem x)

theorem rom_return_exec [RamMem μ] (cfg : Cfg) (s : St μ) (sp lo hi : Int)
    (hcfg : cfg.out_tracer = true ∧ cfg.in_a_n_tracer = true)
    (hpc : s.pc = 0x05E2) (hs : s.reg.size = 24) (hok : RamMem.ok s.mem) (hrom : RomEpilogue s.mem)
    (hsp : rget s.reg 12 = sp) (hsp0 : 16384 ≤ sp) (hsp1 : sp + 4 < 65536)
    (hm0 : mget s.mem sp = 0x3F) (hm1 : mget s.mem (sp + 1) = 0x05)
    (hm2 : mget s.mem (sp + 2) = lo) (hm3 : mget s.mem (sp + 3) = hi)
    (hin : (readPort s.ins).1 % 2 = 1) :
    Returned s (runN cfg 15 s) sp lo hi := by
  obtain ⟨hret, hcode⟩ := hrom
  obtain ⟨hout, hina⟩ := hcfg
  have c : ∀ k : Nat, k < 23 → mget s.mem (0x053F + k) = ((saLdRet.getD k 0 : Nat) : Int) :=
    fun k hk => hcode k (by simpa [saLdRet] using hk)
  -- memory after PUSH AF, and after OUT
  let M1 : μ := mset (mset s.mem sp (rget s.reg 1)) (sp + 1) (rget s.reg 0)
  have hM1 : ∀ b : Int, 0 ≤ b ∧ b < 65536 → mget M1 b =
      if b = sp + 1 then rget s.reg 0 else if b = sp then rget s.reg 1 else mget s.mem b :=
    fun b hb => mget_mset2 _ hok _ _ _ _ _ (by omega) (by omega) hb
  have hokM1 : RamMem.ok M1 := RamMem.ok_set _ _ _ (RamMem.ok_set _ _ _ hok)
  have d : ∀ k : Nat, k < 23 → mget M1 (0x053F + k) = ((saLdRet.getD k 0 : Nat) : Int) := by
    intro k hk
    rw [hM1 _ (by omega), if_neg (by omega), if_neg (by omega)]; exact c k hk
  have c0 := c 0 (by omega)
  have d1 := d 1 (by omega); have d2 := d 2 (by omega); have d3 := d 3 (by omega)
  have d4 := d 4 (by omega); have d5 := d 5 (by omega); have d6 := d 6 (by omega)
  have d7 := d 7 (by omega); have d8 := d 8 (by omega); have d9 := d 9 (by omega)
  have d10 := d 10 (by omega); have d11 := d 11 (by omega); have d12 := d 12 (by omega)
  have d13 := d 13 (by omega); have d14 := d 14 (by omega); have d15 := d 15 (by omega)
  have d16 := d 16 (by omega); have d17 := d 17 (by omega); have d18 := d 18 (by omega)
  have d21 := d 21 (by omega); have d22 := d 22 (by omega)
  simp [saLdRet] at c0 d1 d2 d3 d4 d5 d6 d7 d8 d9 d10 d11 d12 d13 d14 d15 d16 d17 d18 d21 d22
  have e1 : (sp + 1) % 65536 = sp + 1 := emod_small _ (by omega) (by omega)
  have e2 : (sp + 2) % 65536 = sp + 2 := emod_small _ (by omega) (by omega)
  -- RET (0x05E2) -> 0x053F
  rw [runN, step_ret cfg s (by rw [hpc]; exact hret)]
  simp only [hsp, e1, e2, hm0, hm1, Int.reduceMul, Int.reduceAdd]
  -- PUSH AF
  rw [runN, step_push cfg _ 0xF5 0 1 mF5 c0 (by decide) (by decide)
    (by simp [r1, rget_rset_ne, rget_rset_eq, rset_size, hs]; omega)
    (by simp [r1, rget_rset_ne, rget_rset_eq, rset_size, hs]; omega)]
  have p1 : sp + 2 - 2 = sp := by omega
  have p2 : sp + 2 - 1 = sp + 1 := by omega
  simp [rget_rset, rset_size, hs, r1, p1, p2]
  show Returned s (runN cfg 13 { s with reg := _, mem := M1, pc := 1344, t := _ }) sp lo hi
  -- LD A,(0x5C48)
  rw [runN, step_ld_a_mm cfg _ d1]
  simp only [Int.reduceAdd, Int.reduceMod, d2, d3, Int.reduceMul]
  generalize mget M1 23624 = j0
  -- AND 0x38
  rw [runN, step_and_n cfg _ d4]
  simp [rget_rset, rset_size, hs, r1, d5]
  generalize Tbl.AND j0 56 = j1
  -- RRCA x3
  rw [runN, step_rrca cfg _ d6]
  simp [rget_rset, rset_size, hs, r1]
  generalize Tbl.RRCA j1.fst j1.snd = j2
  rw [runN, step_rrca cfg _ d7]
  simp [rget_rset, rset_size, hs, r1]
  generalize Tbl.RRCA j2.fst j2.snd = j3
  rw [runN, step_rrca cfg _ d8]
  simp [rget_rset, rset_size, hs, r1]
  generalize Tbl.RRCA j3.fst j3.snd = j4
  -- OUT (0xFE),A
  rw [runN, step_out_n_a cfg _ hout d9]
  simp [rget_rset, rset_size, hs, r1, d10]
  have g : ∀ b : Int, mget (MemLike.portOut M1 (254 + 256 * j4.fst) j4.fst) b = mget M1 b :=
    fun b => RamMem.get_portOut _ _ _ _
  have hokM2 : RamMem.ok (MemLike.portOut M1 (254 + 256 * j4.fst) j4.fst) := RamMem.ok_portOut _ _ _ hokM1
  generalize MemLike.portOut M1 (254 + 256 * j4.fst) j4.fst = M2 at g hokM2 ⊢
  have f11 : mget M2 1354 = 62 := by rw [g]; exact d11
  have f12 : mget M2 1355 = 127 := by rw [g]; exact d12
  have f13 : mget M2 1356 = 219 := by rw [g]; exact d13
  have f14 : mget M2 1357 = 254 := by rw [g]; exact d14
  have f15 : mget M2 1358 = 31 := by rw [g]; exact d15
  have f16 : mget M2 1359 = 251 := by rw [g]; exact d16
  have f17 : mget M2 1360 = 56 := by rw [g]; exact d17
  have f18 : mget M2 1361 = 2 := by rw [g]; exact d18
  have f21 : mget M2 1364 = 241 := by rw [g]; exact d21
  have f22 : mget M2 1365 = 201 := by rw [g]; exact d22
  -- LD A,0x7F
  rw [runN, step_ld_a_n cfg _ f11]
  simp only [Int.reduceAdd, Int.reduceMod, f12]
  -- IN A,(0xFE)
  rw [runN, step_in_a_n cfg _ hina f13]
  simp [rget_rset, rset_size, hs, r1, f14]
  -- RRA
  rw [runN, step_rra cfg _ f15]
  simp [rget_rset, rset_size, hs, r1]
  -- EI
  rw [runN, step_ei cfg _ f16]
  simp only [Int.reduceAdd, Int.reduceMod]
  -- JR C,+2 (taken: no BREAK)
  rw [runN, step_jr_c cfg _ f17]
  simp [rget_rset, rset_size, hs, r1, f18, rra_carry _ _ hin, Tbl.JR_OFFSETS]
  -- POP AF
  have q0 : mget M2 sp = rget s.reg 1 := by
    rw [g, hM1 _ (by omega), if_neg (by omega), if_pos rfl]
  have q1 : mget M2 (sp + 1) = rget s.reg 0 := by
    rw [g, hM1 _ (by omega), if_pos rfl]
  have q2 : mget M2 (sp + 2) = lo := by
    rw [g, hM1 _ (by omega), if_neg (by omega), if_neg (by omega)]; exact hm2
  have q3 : mget M2 (sp + 3) = hi := by
    rw [g, hM1 _ (by omega), if_neg (by omega), if_neg (by omega)]; exact hm3
  rw [runN, step_pop cfg _ 0xF1 0 1 mF1 f21]
  simp [rget_rset, rset_size, hs, r1, e1, e2, q0, q1]
  -- RET
  rw [runN, step_ret cfg _ f22]
  have e3 : (sp + 2 + 1) % 65536 = sp + 3 := by rw [emod_small _ (by omega) (by omega)]; omega
  have e4 : (sp + 2 + 2) % 65536 = sp + 4 := by rw [emod_small _ (by omega) (by omega)]; omega
  simp [rget_rset, rset_size, hs, r1, e3, e4, q2, q3, runN]
  have ht : s.t + 10 + 11 + 13 + 7 + 4 + 4 + 4 + 11 + 7 + 11 + 4 + 4 + 12 + 10 + 10 = s.t + 122 := by omega
  rw [ht]
  unfold Returned
  refine ⟨_, _, _, _, rfl, ⟨by simp [rset_size, hs], ?_, ?_⟩, hokM2, ?_⟩
  · simp [rget_rset_eq, rget_rset_ne, rset_size, hs]
  · intro i h12 h15
    have n12 : (12 : Int) ≠ i := fun h => h12 h.symm
    have n15 : (15 : Int) ≠ i := fun h => h15 h.symm
    by_cases h0 : i = 0
    · subst h0; simp [rget_rset_eq, rget_rset_ne, rset_size, hs]
    · by_cases h1 : i = 1
      · subst h1; simp [rget_rset_eq, rget_rset_ne, rset_size, hs]
      · have n0 : (0 : Int) ≠ i := fun h => h0 h.symm
        have n1 : (1 : Int) ≠ i := fun h => h1 h.symm
        simp [rget_rset_ne, n0, n1, n12, n15]
  · intro x hx
    rw [g, hM1 x hx]

end RomReturn
