import SkoolVerif.Proofs.SpecialMaskLemmas
/-! Every entry of `png_method_dict` agrees with the generic builder on its domain (C15). -/
set_option linter.unusedSimpArgs false
set_option linter.unusedVariables false
namespace PngScan
open ZxTile ZxSpec

theorem flatMap_const_replicate {α β : Type} (l : List α) (n : Nat) (a : β) :
    l.flatMap (fun _ => List.replicate n a) = List.replicate (l.length * n) a := by
  induction l with
  | nil => simp
  | cons x t ih =>
    rw [List.flatMap_cons, ih, List.length_cons, Nat.add_mul, Nat.one_mul, Nat.add_comm,
      List.replicate_append_replicate]

theorem pack1_zeros (s : Nat) :
    (chunksOf 8 (List.replicate (s * 8) 0).length (List.replicate (s * 8) 0)).map (fromBase 2)
      = List.replicate s 0 := by
  induction s with
  | zero => simp [chunksOf_nil]
  | succ s ih =>
    have e : List.replicate ((s + 1) * 8) (0 : Nat) = List.replicate 8 0 ++ List.replicate (s * 8) 0 := by
      rw [List.replicate_append_replicate]; congr 1; omega
    rw [e, chunksOf_append 8 (by decide) 1 _ _ (by simp), List.map_append, ih]
    have : (chunksOf 8 (List.replicate 8 (0 : Nat)).length (List.replicate 8 0)).map (fromBase 2) = [0] := by
      decide
    rw [this]
    rfl

/-- With a one-colour palette every generic block is `scale` zero bytes. -/
theorem udgBlock_zero (c : Ctx) (u : Udg) (k : Nat) (hbd : c.bitDepth = 1) (hu : WfUdg u)
    (ha : c.attrs u.attr = some (0, 0)) : udgBlock c u k = List.replicate c.scale 0 := by
  unfold udgBlock udgPixels
  simp only [hbd, show (1 : Nat) ≠ 4 by decide, if_false, ha, Option.getD_some]
  have hz : applyMask c.mask u k 0 0 0 = List.replicate 8 0 := by
    rw [applyMask_eq_rule _ _ _ _ _ _ (data_byte_lt hu k) (mask_byte_lt hu k), List.eq_replicate_iff]
    refine ⟨by simp, ?_⟩
    intro b hb
    simp only [List.mem_map] at hb
    obtain ⟨cc, -, rfl⟩ := hb
    generalize rule c.mask.toNat _ _ = r
    cases r <;> rfl
  rw [hz]
  have : expand c.scale (List.replicate 8 (0 : Nat)) = List.replicate (c.scale * 8) 0 := by
    unfold expand
    rw [List.eq_replicate_iff]
    refine ⟨?_, ?_⟩
    · rw [flatMap_length_const _ c.scale _ (by simp)]; simp [Nat.mul_comm]
    · intro b hb
      simp only [List.mem_flatMap, List.mem_replicate] at hb
      obtain ⟨a, ⟨-, rfl⟩, -, rfl⟩ := hb
      rfl
  rw [this]
  exact pack1_zeros c.scale

/-- `_build_image_data_bd0` (a blank image) equals the generic builder when the single palette
entry has index 0. -/
theorem buildBd0_eq (c : Ctx) (udgs : List (List Udg)) (W : Nat) (hs : 0 < c.scale) (hf : FullSize c udgs W)
    (hbd : c.bitDepth = 1) (hwf : ∀ row ∈ udgs, ∀ u ∈ row, WfUdg u)
    (hattr : ∀ row ∈ udgs, ∀ u ∈ row, c.attrs u.attr = some (0, 0)) :
    buildAny c udgs = .ok (buildBd0 c.width c.height) := by
  have hsome : ∀ row ∈ udgs, ∀ u ∈ row, (c.attrs u.attr).isSome := fun row hr u hu => by
    rw [hattr row hr u hu]; rfl
  rw [special_eq_generic c udgs W hs hf (Or.inl hbd) hwf hsome (fun _ _ => List.replicate c.scale 0)
    (fun row hr u hu k _ => udgBlock_zero c u k hbd (hwf row hr u hu) (hattr row hr u hu))]
  congr 1
  obtain ⟨hx, hy, hw, hh, hrl, hW, hH⟩ := hf
  unfold scanFrame buildBd0
  have hline : ∀ row ∈ udgs, (0 :: row.flatMap (fun _ => List.replicate c.scale 0)) = List.replicate (1 + c.width / 8) 0 := by
    intro row hr
    rw [flatMap_const_replicate, hrl row hr, hw, Nat.mul_assoc, Nat.mul_div_cancel_left _ (by decide : 0 < 8),
      Nat.add_comm 1, List.replicate_succ, Nat.mul_comm]
  have hrow : ∀ row ∈ udgs, (List.range 8).flatMap (fun k => List.replicate c.scale
        (0 :: row.flatMap (fun u => (fun (_ : Udg) (_ : Nat) => List.replicate c.scale 0) u k)))
      = List.replicate (8 * c.scale) (List.replicate (1 + c.width / 8) 0) := by
    intro row hr
    simp only [hline row hr]
    rw [flatMap_const_replicate]; simp
  rw [flatMap_congr' _ _ _ hrow, flatMap_const_replicate, hh]
  congr 1
  rw [Nat.mul_comm]

end PngScan
