import SkoolVerif.Model.Wrap
/-! Helper lemmas for C18 about the `Wrap` model (`fill`, `step`, `loop`, `split`). -/
namespace Wrap

/-- The chunks that are not pure whitespace ("words"). -/
def wordsOf (cs : List Chunk) : List Chunk := cs.filter fun c => !blank c

theorem clen_nil : clen [] = 0 := rfl
theorem clen_cons (c : Chunk) (l : List Chunk) : clen (c :: l) = c.length + clen l := by
  simp [clen]
theorem clen_append (a b : List Chunk) : clen (a ++ b) = clen a + clen b := by
  simp [clen]

theorem wordsOf_append (a b : List Chunk) : wordsOf (a ++ b) = wordsOf a ++ wordsOf b := by
  simp [wordsOf]

theorem wordsOf_blank (a : List Chunk) (h : ∀ c ∈ a, blank c = true) : wordsOf a = [] := by
  simp only [wordsOf, List.filter_eq_nil_iff]
  intro c hc; simp [h c hc]

/-! ### fill -/

theorem fill_append (w : Nat) (cs : List Chunk) (cur : Nat) :
    (fill w cur cs).1 ++ (fill w cur cs).2 = cs := by
  induction cs generalizing cur with
  | nil => simp [fill]
  | cons c cs ih =>
    simp only [fill]; split
    · simp [ih]
    · simp

theorem fill_len (w : Nat) (cs : List Chunk) (cur : Nat) (h : cur ≤ w) :
    cur + clen (fill w cur cs).1 ≤ w := by
  induction cs generalizing cur with
  | nil => simp [fill, clen]; exact h
  | cons c cs ih =>
    simp only [fill]; split
    · rename_i hc
      have := ih (cur + c.length) hc
      simp only [clen_cons]; omega
    · simp [clen]; exact h

theorem fill_max (w : Nat) (cs : List Chunk) (cur : Nat) (c : Chunk) (r : List Chunk)
    (h : (fill w cur cs).2 = c :: r) : cur + clen (fill w cur cs).1 + c.length > w := by
  induction cs generalizing cur with
  | nil => simp [fill] at h
  | cons d cs ih =>
    simp only [fill] at h ⊢; split
    · rename_i hc
      rw [if_pos hc] at h
      have := ih (cur + d.length) h
      simp only [clen_cons]; omega
    · rename_i hc
      rw [if_neg hc] at h
      simp only [List.cons.injEq] at h
      obtain ⟨rfl, _⟩ := h
      simp only [clen_nil]; omega

theorem fill_fst_nil (w : Nat) (c : Chunk) (cs : List Chunk) (cur : Nat)
    (h : (fill w cur (c :: cs)).1 = []) : ¬ cur + c.length ≤ w := by
  simp only [fill] at h
  split at h
  · simp at h
  · assumption

/-! ### dropTrail -/

theorem dropTrail_spec (l : List Chunk) :
    ∃ b, l = dropTrail l ++ b ∧ (∀ c ∈ b, blank c = true) ∧ b.length ≤ 1 ∧
      (b = [] → ∀ c, (dropTrail l).getLast? = some c → blank c = false) := by
  unfold dropTrail
  cases h : l.getLast? with
  | none => exact ⟨[], by simp_all⟩
  | some c =>
    simp only
    split
    · rename_i hb
      refine ⟨[c], ?_, by simpa using hb, by simp, by simp⟩
      obtain ⟨ys, rfl⟩ := List.getLast?_eq_some_iff.mp h
      simp
    · rename_i hb
      refine ⟨[], by simp, by simp, by simp, ?_⟩
      intro _ d hd
      rw [h] at hd
      simp only [Option.some.injEq] at hd
      subst hd; simpa using hb

/-! ### takeLine -/

theorem fill_fst_nil' (w : Nat) (cs : List Chunk) (h : (fill w 0 cs).1 = []) :
    (fill w 0 cs).2 = cs ∧ ∀ d ds, cs = d :: ds → w < d.length := by
  match cs with
  | [] => simp [fill]
  | d :: ds =>
    have hd := fill_fst_nil w d ds 0 h
    have hf : fill w 0 (d :: ds) = ([], d :: ds) := by simp [fill]; omega
    refine ⟨by rw [hf], ?_⟩
    intro d' ds' he
    simp only [List.cons.injEq] at he
    rw [← he.1]; omega

theorem takeLine_spec (w : Nat) (chunks : List Chunk) (hne : chunks ≠ []) :
    (takeLine w chunks).1 ++ (takeLine w chunks).2 = chunks ∧ (takeLine w chunks).1 ≠ [] ∧
    (clen (takeLine w chunks).1 ≤ w ∨ ∃ c, (takeLine w chunks).1 = [c] ∧ w < c.length) ∧
    (∀ c r', (takeLine w chunks).2 = c :: r' → clen (takeLine w chunks).1 + c.length > w) := by
  have happ := fill_append w chunks 0
  have hlen := fill_len w chunks 0 (Nat.zero_le _)
  have hmax := fill_max w chunks 0
  have hnil := fill_fst_nil' w chunks
  unfold takeLine
  simp only
  generalize fill w 0 chunks = r at *
  obtain ⟨r1, r2⟩ := r
  simp only at *
  cases r2 with
  | nil =>
    simp only [List.append_nil] at happ
    subst happ
    exact ⟨by simp, hne, Or.inl (by simp only; omega), by simp⟩
  | cons c cs =>
    simp only
    have hmax := hmax c cs rfl
    split
    · rename_i hc
      obtain ⟨hc1, hc2⟩ := hc
      subst hc2
      refine ⟨by simpa using happ, by simp, Or.inr ⟨c, rfl, hc1⟩, ?_⟩
      intro d r' _; simp only [clen_cons, clen_nil]; omega
    · rename_i hc
      refine ⟨happ, ?_, Or.inl (by simp only; omega), ?_⟩
      · intro h1
        obtain ⟨h2, h3⟩ := hnil h1
        apply hc
        exact ⟨h3 c cs h2.symm, h1⟩
      · intro d r' hd
        simp only [List.cons.injEq] at hd
        obtain ⟨rfl, _⟩ := hd
        simp only; omega

theorem takeLine_nil (w : Nat) : takeLine w [] = ([], []) := by simp [takeLine, fill]

/-! ### dropLead -/

theorem dropLead_spec (started : Bool) (chunks : List Chunk) :
    ∃ a, chunks = a ++ dropLead started chunks ∧ (∀ c ∈ a, blank c = true) ∧ a.length ≤ 1 ∧
      (a ≠ [] → started = true) ∧ (a = [] → dropLead started chunks = chunks) := by
  match chunks with
  | [] => exact ⟨[], by simp [dropLead]⟩
  | c :: cs =>
    by_cases hb : (blank c && started) = true
    · refine ⟨[c], by simp [dropLead, hb], ?_, by simp, ?_, by simp⟩
      · simp only [Bool.and_eq_true] at hb; simpa using hb.1
      · simp only [Bool.and_eq_true] at hb; intro _; exact hb.2
    · exact ⟨[], by simp [dropLead, hb]⟩

/-! ### step -/

/-- What one iteration of the outer loop does, declaratively: it removes at
most one leading blank chunk `a` (only when a line was already produced), a
line, at most one trailing blank chunk `b`, and leaves `rest`. -/
def StepSpec (w : Nat) (started : Bool) (chunks line rest : List Chunk) : Prop :=
  ∃ a b, chunks = a ++ line ++ b ++ rest ∧
    (∀ c ∈ a, blank c = true) ∧ (∀ c ∈ b, blank c = true) ∧ a.length ≤ 1 ∧ b.length ≤ 1 ∧
    (a ≠ [] → started = true) ∧
    (clen line + clen b ≤ w ∨ ∃ c, line ++ b = [c] ∧ w < c.length) ∧
    (∀ c r, rest = c :: r → clen line + clen b + c.length > w) ∧
    a ++ line ++ b ≠ [] ∧
    (b = [] → ∀ c, line.getLast? = some c → blank c = false)

theorem step_spec (w : Nat) (started : Bool) (chunks : List Chunk) (hne : chunks ≠ []) :
    StepSpec w started chunks (step w started chunks).1 (step w started chunks).2 := by
  obtain ⟨a, ha, hab, hal, hast, ha0⟩ := dropLead_spec started chunks
  unfold step
  simp only
  generalize hc1 : dropLead started chunks = chunks1 at *
  by_cases hc : chunks1 = []
  · subst hc
    have hane : a ≠ [] := by intro h; apply hne; rw [ha, h]; rfl
    refine ⟨a, [], ?_, hab, by simp, hal, by simp, hast, ?_, ?_, ?_, ?_⟩
    · simp [takeLine_nil, dropTrail, ha]
    · left; simp [takeLine_nil, dropTrail, clen]
    · simp [takeLine_nil]
    · simpa [takeLine_nil, dropTrail] using hane
    · simp [takeLine_nil, dropTrail]
  · obtain ⟨happ, hne1, hwid, hgr⟩ := takeLine_spec w chunks1 hc
    obtain ⟨b, hb, hbb, hbl, hlast⟩ := dropTrail_spec (takeLine w chunks1).1
    have hcl : clen (takeLine w chunks1).1 = clen (dropTrail (takeLine w chunks1).1) + clen b := by
      conv => lhs; rw [hb]
      exact clen_append _ _
    refine ⟨a, b, ?_, hab, hbb, hal, hbl, hast, ?_, ?_, ?_, hlast⟩
    · rw [ha]
      conv => lhs; rw [← happ, hb]
      simp [List.append_assoc]
    · rcases hwid with h | ⟨c, hc, hw⟩
      · left; omega
      · right; exact ⟨c, by rw [← hb]; exact hc, hw⟩
    · intro c r' hr
      have := hgr c r' hr
      omega
    · intro h
      apply hne1
      have : dropTrail (takeLine w chunks1).1 = [] ∧ b = [] := by
        simp only [List.append_eq_nil_iff] at h; exact ⟨h.1.2, h.2⟩
      rw [hb, this.1, this.2]; rfl

theorem step_shorter (w : Nat) (started : Bool) (chunks : List Chunk) (hne : chunks ≠ []) :
    (step w started chunks).2.length < chunks.length := by
  obtain ⟨a, b, h, _, _, _, _, _, _, _, hp, _⟩ := step_spec w started chunks hne
  have hl := congrArg List.length h
  have : 0 < (a ++ (step w started chunks).1 ++ b).length := List.length_pos_iff.mpr hp
  simp only [List.length_append] at hl this
  omega

/-! ### loop -/

/-- Declarative description of the whole wrap: the chunk list is consumed by
successive `StepSpec` steps; steps with an empty line contribute no line. -/
inductive Wrapped (w : Nat) : Bool → List Chunk → List (List Chunk) → Prop
  | nil (s : Bool) : Wrapped w s [] []
  | skip (s : Bool) (chunks rest : List Chunk) (lines : List (List Chunk)) :
      StepSpec w s chunks [] rest → Wrapped w s rest lines → Wrapped w s chunks lines
  | line (s : Bool) (chunks line rest : List Chunk) (lines : List (List Chunk)) :
      line ≠ [] → StepSpec w s chunks line rest → Wrapped w true rest lines →
      Wrapped w s chunks (line :: lines)

theorem loop_wrapped (w : Nat) : ∀ (fuel : Nat) (s : Bool) (chunks : List Chunk),
    chunks.length ≤ fuel → Wrapped w s chunks (loop w fuel s chunks) := by
  intro fuel
  induction fuel with
  | zero =>
    intro s chunks h
    have : chunks = [] := List.length_eq_zero_iff.mp (by omega)
    subst this; simp only [loop]; exact .nil s
  | succ fuel ih =>
    intro s chunks h
    simp only [loop]
    split
    · rename_i hc; subst hc; exact .nil s
    · rename_i hc
      have hs := step_spec w s chunks hc
      have hl := step_shorter w s chunks hc
      split
      · rename_i h1
        rw [h1] at hs
        exact .skip s chunks _ _ hs (ih s _ (by omega))
      · rename_i h1
        exact .line s chunks _ _ _ h1 hs (ih true _ (by omega))

theorem loop_fuel (w : Nat) : ∀ (fuel : Nat) (s : Bool) (chunks : List Chunk),
    chunks.length ≤ fuel → loop w (fuel + 1) s chunks = loop w fuel s chunks := by
  intro fuel
  induction fuel with
  | zero =>
    intro s chunks h
    have : chunks = [] := List.length_eq_zero_iff.mp (by omega)
    subst this; simp [loop]
  | succ fuel ih =>
    intro s chunks h
    rw [loop.eq_def w (fuel + 1 + 1), loop.eq_def w (fuel + 1)]
    simp only
    split
    · rfl
    · rename_i hc
      have hl := step_shorter w s chunks hc
      rw [ih s _ (by omega), ih true _ (by omega)]

theorem loop_fuel_le (w : Nat) (s : Bool) (chunks : List Chunk) (fuel : Nat)
    (h : chunks.length ≤ fuel) : loop w fuel s chunks = loop w chunks.length s chunks := by
  induction fuel with
  | zero => have : chunks.length = 0 := by omega
            rw [this]
  | succ fuel ih =>
    by_cases hf : chunks.length ≤ fuel
    · rw [loop_fuel w fuel s chunks hf]; exact ih hf
    · have : chunks.length = fuel + 1 := by omega
      rw [this]

/-! ### consequences of `Wrapped` -/

theorem wrapped_words {w : Nat} {s : Bool} {chunks : List Chunk} {lines : List (List Chunk)}
    (h : Wrapped w s chunks lines) : wordsOf lines.flatten = wordsOf chunks := by
  induction h with
  | nil => rfl
  | skip s chunks rest lines hs _ ih =>
    obtain ⟨a, b, he, ha, hb, _⟩ := hs
    rw [he]
    simp only [wordsOf_append, wordsOf_blank a ha, wordsOf_blank b hb, ih]
    simp [wordsOf]
  | line s chunks line rest lines _ hs _ ih =>
    obtain ⟨a, b, he, ha, hb, _⟩ := hs
    rw [he]
    simp only [List.flatten_cons, wordsOf_append, wordsOf_blank a ha, wordsOf_blank b hb, ih]
    simp

theorem wrapped_sublist {w : Nat} {s : Bool} {chunks : List Chunk} {lines : List (List Chunk)}
    (h : Wrapped w s chunks lines) : lines.flatten.Sublist chunks := by
  induction h with
  | nil => simp
  | skip s chunks rest lines hs _ ih =>
    obtain ⟨a, b, he, _⟩ := hs
    rw [he]
    exact ih.trans (List.sublist_append_right _ _)
  | line s chunks line rest lines _ hs _ ih =>
    obtain ⟨a, b, he, _⟩ := hs
    rw [he]
    simp only [List.flatten_cons, List.append_assoc]
    refine List.Sublist.trans ?_ (List.sublist_append_right a _)
    exact List.Sublist.append (List.Sublist.refl _) (ih.trans (List.sublist_append_right _ _))

theorem wrapped_nonempty {w : Nat} {s : Bool} {chunks : List Chunk} {lines : List (List Chunk)}
    (h : Wrapped w s chunks lines) : ∀ l ∈ lines, l ≠ [] := by
  induction h with
  | nil => simp
  | skip _ _ _ _ _ _ ih => exact ih
  | line s chunks line rest lines hne _ _ ih =>
    intro l hl
    simp only [List.mem_cons] at hl
    rcases hl with rfl | hl
    · exact hne
    · exact ih l hl

theorem wrapped_width {w : Nat} {s : Bool} {chunks : List Chunk} {lines : List (List Chunk)}
    (h : Wrapped w s chunks lines) :
    ∀ l ∈ lines, clen l ≤ w ∨ ∃ c, l = [c] ∧ w < c.length ∧ blank c = false := by
  induction h with
  | nil => simp
  | skip _ _ _ _ _ _ ih => exact ih
  | line s chunks line rest lines hne hs _ ih =>
    intro l hl
    simp only [List.mem_cons] at hl
    rcases hl with rfl | hl
    · obtain ⟨a, b, _, _, _, _, _, _, hw, _, _, hlast⟩ := hs
      rcases hw with hw | ⟨c, hc, hw⟩
      · left; omega
      · right
        have hb : b = [] := by
          cases b with
          | nil => rfl
          | cons x xs =>
            exfalso
            have := congrArg List.length hc
            simp only [List.length_append, List.length_cons, List.length_nil] at this
            have : l.length = 0 := by omega
            exact hne (List.length_eq_zero_iff.mp this)
        subst hb
        simp only [List.append_nil] at hc
        exact ⟨c, hc, hw, hlast rfl c (by rw [hc]; rfl)⟩
    · exact ih l hl

theorem wrapped_count {w : Nat} {s : Bool} {chunks : List Chunk} {lines : List (List Chunk)}
    (h : Wrapped w s chunks lines) : lines.length ≤ chunks.length := by
  have h1 := (wrapped_sublist h).length_le
  have h2 := wrapped_nonempty h
  have : ∀ (ls : List (List Chunk)), (∀ l ∈ ls, l ≠ []) → ls.length ≤ ls.flatten.length := by
    intro ls
    induction ls with
    | nil => simp
    | cons a r ih =>
      intro hne
      have ha : 0 < a.length := List.length_pos_iff.mpr (hne a List.mem_cons_self)
      have := ih (fun l hl => hne l (List.mem_cons_of_mem _ hl))
      simp only [List.length_cons, List.flatten_cons, List.length_append]; omega
  have := this lines h2
  omega

/-! ### split / munge -/

theorem splitAux_flatten (t : Str) : ∀ (sp : Bool) (cur : Str),
    (splitAux t sp cur).flatten = cur.reverse ++ t := by
  induction t with
  | nil => intro sp cur; simp only [splitAux]; split <;> simp_all
  | cons c cs ih =>
    intro sp cur
    simp only [splitAux]
    split
    · rename_i h; subst h; simp [ih]
    · split
      · simp [ih]
      · simp [ih]

theorem splitAux_nonempty (t : Str) : ∀ (sp : Bool) (cur : Str),
    ∀ x ∈ splitAux t sp cur, x ≠ [] := by
  induction t with
  | nil =>
    intro sp cur x hx
    simp only [splitAux] at hx
    split at hx
    · simp at hx
    · simp only [List.mem_singleton] at hx; subst hx; simpa using ‹¬cur = []›
  | cons c cs ih =>
    intro sp cur x hx
    simp only [splitAux] at hx
    split at hx
    · exact ih _ _ x hx
    · split at hx
      · exact ih _ _ x hx
      · simp only [List.mem_cons] at hx
        rcases hx with rfl | hx
        · simpa using ‹¬cur = []›
        · exact ih _ _ x hx

theorem split_flatten (t : Str) : (split t).flatten = t := by
  simp [split, splitAux_flatten]

theorem split_nonempty (t : Str) : ∀ x ∈ split t, x ≠ [] := splitAux_nonempty t false []

theorem split_length_le (t : Str) : (split t).length ≤ t.length := by
  have h1 := split_nonempty t
  have h2 := congrArg List.length (split_flatten t)
  have : ∀ (ls : List Chunk), (∀ l ∈ ls, l ≠ []) → ls.length ≤ ls.flatten.length := by
    intro ls
    induction ls with
    | nil => simp
    | cons a r ih =>
      intro hne
      have ha : 0 < a.length := List.length_pos_iff.mpr (hne a List.mem_cons_self)
      have := ih (fun l hl => hne l (List.mem_cons_of_mem _ hl))
      simp only [List.length_cons, List.flatten_cons, List.length_append]; omega
  have := this (split t) h1
  omega

/-- Every chunk produced by `split` is homogeneous: a run of separator
characters or a run of non-separator characters. -/
theorem splitAux_class (t : Str) : ∀ (sp : Bool) (cur : Str), (∀ x ∈ cur, twSpace x = sp) →
    ∀ ch ∈ splitAux t sp cur, (∀ x ∈ ch, twSpace x = true) ∨ (∀ x ∈ ch, twSpace x = false) := by
  induction t with
  | nil =>
    intro sp cur hcur ch hch
    simp only [splitAux] at hch
    split at hch
    · simp at hch
    · simp only [List.mem_singleton] at hch; subst hch
      cases sp
      · right; intro x hx; exact hcur x (by simpa using hx)
      · left; intro x hx; exact hcur x (by simpa using hx)
  | cons c cs ih =>
    intro sp cur hcur ch hch
    simp only [splitAux] at hch
    split at hch
    · exact ih _ [c] (by simp) ch hch
    · split at hch
      · rename_i hsame
        refine ih sp (c :: cur) ?_ ch hch
        intro x hx
        simp only [List.mem_cons] at hx
        rcases hx with rfl | hx
        · exact hsame
        · exact hcur x hx
      · simp only [List.mem_cons] at hch
        rcases hch with rfl | hch
        · cases sp
          · right; intro x hx; exact hcur x (by simpa using hx)
          · left; intro x hx; exact hcur x (by simpa using hx)
        · exact ih _ [c] (by simp) ch hch

theorem split_class (t : Str) : ∀ ch ∈ split t,
    (∀ x ∈ ch, twSpace x = true) ∨ (∀ x ∈ ch, twSpace x = false) :=
  splitAux_class t false [] (by simp)

theorem twSpace_pySpace (c : Nat) (h : twSpace c = true) : pySpace c = true := by
  simp only [twSpace, Bool.or_eq_true, Bool.and_eq_true, decide_eq_true_eq, beq_iff_eq] at h
  simp only [pySpace, Bool.or_eq_true, Bool.and_eq_true, decide_eq_true_eq, beq_iff_eq]
  omega

theorem expandTabs_length (t : Str) : ∀ col, (expandTabs col t).length ≤ 8 * t.length := by
  induction t with
  | nil => intro col; simp [expandTabs]
  | cons c cs ih =>
    intro col
    simp only [expandTabs]
    split
    · have := ih (col + (8 - col % 8))
      simp only [List.length_append, List.length_replicate, List.length_cons]; omega
    · split
      · have := ih 0; simp only [List.length_cons]; omega
      · have := ih (col + 1); simp only [List.length_cons]; omega

theorem munge_length (t : Str) : (munge t).length ≤ 8 * t.length := by
  simp only [munge, List.length_map]; exact expandTabs_length t 0

/-- The number of lines produced for a text is bounded by its length. -/
theorem wrapText_count (t : Str) (w : Int) (ls : List Str) (h : wrapText t w = .ok ls) :
    ls.length ≤ 8 * t.length := by
  unfold wrapText at h
  split at h
  · simp at h
  · simp only [Except.ok.injEq] at h
    subst h
    simp only [List.length_map, wrapChunks]
    have := wrapped_count (loop_wrapped w.toNat ((split (munge t)).length + 1) false _ (Nat.le_succ _))
    have h2 := split_length_le (munge t)
    have h3 := munge_length t
    omega

/-- Text-level width statement: a line is within the width, or it is one
non-blank chunk of the (munged) text that is longer than the width. -/
theorem wrapText_width (t : Str) (w : Int) (ls : List Str) (h : wrapText t w = .ok ls) :
    ∀ l ∈ ls, (l.length : Int) ≤ w ∨ (l ∈ split (munge t) ∧ blank l = false ∧ w < l.length) := by
  unfold wrapText at h
  split at h
  · simp at h
  · rename_i hw
    simp only [Except.ok.injEq] at h
    subst h
    intro l hl
    simp only [List.mem_map] at hl
    obtain ⟨line, hline, rfl⟩ := hl
    have hW := loop_wrapped w.toNat ((split (munge t)).length + 1) false _ (Nat.le_succ _)
    have hlen : line.flatten.length = clen line := by simp [clen, List.length_flatten]
    rcases wrapped_width hW line hline with h1 | ⟨c, rfl, hc, hb⟩
    · left; rw [hlen]; omega
    · right
      simp only [List.flatten_cons, List.flatten_nil, List.append_nil]
      refine ⟨?_, hb, by omega⟩
      have hsub := (wrapped_sublist hW).subset
      apply hsub
      simp only [List.mem_flatten]
      exact ⟨[c], hline, by simp⟩

theorem wrapText_nonempty (t : Str) (w : Int) (ls : List Str) (h : wrapText t w = .ok ls) :
    ∀ l ∈ ls, l ≠ [] := by
  unfold wrapText at h
  split at h
  · simp at h
  · simp only [Except.ok.injEq] at h
    subst h
    intro l hl
    simp only [List.mem_map] at hl
    obtain ⟨line, hline, rfl⟩ := hl
    have hW := loop_wrapped w.toNat ((split (munge t)).length + 1) false _ (Nat.le_succ _)
    have hne := wrapped_nonempty hW line hline
    have hsub := (wrapped_sublist hW).subset
    cases line with
    | nil => exact absurd rfl hne
    | cons c cs =>
      have hc : c ∈ split (munge t) := by
        apply hsub
        simp only [List.mem_flatten]
        exact ⟨c :: cs, hline, by simp⟩
      have := split_nonempty _ c hc
      intro hf
      simp only [List.flatten_cons, List.append_eq_nil_iff] at hf
      exact this hf.1

theorem expandTabs_mem (t : Str) : ∀ col x, x ∈ expandTabs col t → x = 32 ∨ x ∈ t := by
  induction t with
  | nil => intro col x hx; simp [expandTabs] at hx
  | cons c cs ih =>
    intro col x hx
    simp only [expandTabs] at hx
    split at hx
    · simp only [List.mem_append, List.mem_replicate] at hx
      rcases hx with hx | hx
      · exact Or.inl hx.2
      · rcases ih _ x hx with h | h
        · exact Or.inl h
        · exact Or.inr (List.mem_cons_of_mem _ h)
    · split at hx
      all_goals
        simp only [List.mem_cons] at hx
        rcases hx with rfl | hx
        · exact Or.inr List.mem_cons_self
        · rcases ih _ x hx with h | h
          · exact Or.inl h
          · exact Or.inr (List.mem_cons_of_mem _ h)

theorem munge_mem (t : Str) (x : Nat) (hx : x ∈ munge t) : x = 32 ∨ (x ∈ t ∧ twSpace x = false) := by
  simp only [munge, List.mem_map] at hx
  obtain ⟨y, hy, rfl⟩ := hx
  split
  · exact Or.inl rfl
  · rename_i hn
    rcases expandTabs_mem t 0 y hy with h | h
    · subst h; simp [twSpace] at hn
    · exact Or.inr ⟨h, by simpa using hn⟩

/-- In a text whose only white space is ASCII white space, a non-blank chunk
ends in a non-space character (so `rstrip` leaves it alone). -/
theorem chunk_last_nonspace (t : Str) (hascii : ∀ x ∈ t, pySpace x = true → twSpace x = true)
    (ch : Chunk) (hch : ch ∈ split (munge t)) (hb : blank ch = false) :
    ∃ c, ch.getLast? = some c ∧ pySpace c = false := by
  have hne := split_nonempty _ ch hch
  have hall : ∀ x ∈ ch, twSpace x = false := by
    rcases split_class _ ch hch with h | h
    · exfalso
      have : blank ch = true := by
        simp only [blank, List.all_eq_true]
        intro x hx; exact twSpace_pySpace x (h x hx)
      rw [this] at hb; simp at hb
    · exact h
  obtain ⟨c, hc⟩ : ∃ c, ch.getLast? = some c := by
    cases h : ch.getLast? with
    | none => simp at h; exact absurd h hne
    | some c => exact ⟨c, rfl⟩
  refine ⟨c, hc, ?_⟩
  have hcm : c ∈ ch := List.mem_of_getLast? hc
  have hcm2 : c ∈ munge t := by
    rw [← split_flatten (munge t)]
    simp only [List.mem_flatten]
    exact ⟨ch, hch, hcm⟩
  have htw := hall c hcm
  rcases munge_mem t c hcm2 with h | ⟨h1, _⟩
  · subst h; simp [twSpace] at htw
  · cases hp : pySpace c with
    | false => rfl
    | true => rw [hascii c h1 hp] at htw; simp at htw

end Wrap
