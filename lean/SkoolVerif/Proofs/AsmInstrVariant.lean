import SkoolVerif.Proofs.AsmInstrSlots
/-!
The byte list flagged for a VARIANT opcode sequence: `instruction.bytes` written as an `@bytes=` directive
(`format_byte(b, DEFAULT_BASE)` joined by commas) is read back by `parse_asm_bytes_directive` as the bytes.
-/
namespace AsmInstrL
open OpText AsmEval AsmInstr InstrDec C02L DisText

theorem formatByte_n (cfg : Cfg) (b : Nat) (hb : b < 256) :
    formatByte cfg b .n = numStrNC cfg b 1 .n := by
  simp [formatByte, numStr]

theorem gip_formatByte_n (cfg : Cfg) (b : Nat) (hb : b < 256) : getIntParam (formatByte cfg b .n) = some (b : Int) := by
  rw [formatByte_n cfg b hb]
  have h255 : ¬ ((b : Int) > 255) := by omega
  cases hh : cfg.hex
  · simp only [numStrNC, reduceCtorEq, false_and, if_false, fmtNum, hh, Bool.false_eq_true, fmtInt_ofNat]
    exact gip_dec _ _ _
  · simp only [numStrNC, reduceCtorEq, false_and, if_false, fmtNum, hh, if_true, hexFmt, fmtInt_ofNat]
    exact gip_hex _ _ _

theorem mapM_gip (cfg : Cfg) : ∀ (bs : List Nat), (∀ b ∈ bs, b < 256) →
    (bs.map (fun b => formatByte cfg b .n)).mapM getIntParam = some (bs.map Int.ofNat)
  | [], _ => rfl
  | b :: r, h => by
    have ih := mapM_gip cfg r (fun x hx => h x (by simp [hx]))
    simp only [List.map_cons, List.mapM_cons, gip_formatByte_n cfg b (h b (by simp)), ih]
    rfl

theorem noquote_joinSep : ∀ (items : List Txt), (∀ it ∈ items, 34 ∉ it) → 34 ∉ joinSep 44 items
  | [], _ => by simp [joinSep]
  | [x], h => by simpa [joinSep] using h x (by simp)
  | x :: y :: r, h => by
    have ih := noquote_joinSep (y :: r) (fun it hi => h it (by simp [hi]))
    simp only [joinSep, List.mem_append, List.mem_cons, not_or]
    exact ⟨h x (by simp), by decide, ih⟩

/-- **`@bytes` round trip**: the values `parse_asm_bytes_directive` reads from the directive written for a
variant instruction are the instruction's bytes. -/
theorem bytesDirective_roundtrip (cfg : Cfg) (bs : List Nat) (hb : ∀ b ∈ bs, b < 256) (hne : bs ≠ []) :
    parseBytesDirective (bytesDirective cfg bs) = some (bs.map Int.ofNat) := by
  have hplain : ∀ it ∈ bs.map (fun b => formatByte cfg b .n), Plain it := by
    intro it hit
    simp only [List.mem_map] at hit
    obtain ⟨b, hbm, rfl⟩ := hit
    rw [formatByte_n cfg b (hb b hbm)]
    exact numStrNC_plain _ _ _ _
  have hsplit := splitUnquoted_joinSep 44 (by decide) (by decide) (bs.map (fun b => formatByte cfg b .n))
    (by simpa using hne) (fun it hit => (hplain it hit).safe)
  have hnq : 34 ∉ joinSep 44 (bs.map (fun b => formatByte cfg b .n)) :=
    noquote_joinSep _ (fun it hit h34 => ((hplain it hit).2 34 h34).2.1 rfl)
  have hpy : pySplit 44 (joinSep 44 (bs.map (fun b => formatByte cfg b .n))) = bs.map (fun b => formatByte cfg b .n) := by
    have : splitUnquoted 44 (joinSep 44 (bs.map (fun b => formatByte cfg b .n))) =
        pySplit 44 (joinSep 44 (bs.map (fun b => formatByte cfg b .n))) := by simp [splitUnquoted, hnq]
    rw [← this, hsplit]
  unfold parseBytesDirective bytesDirective
  rw [hpy]
  exact mapM_gip cfg bs hb

end AsmInstrL
