import SkoolVerif.Gen.PyLoad
import SkoolVerif.Gen.CLoad.dec_a
import SkoolVerif.Model.LoadAccel
import SkoolVerif.Proofs.LoadAccelDecA
import SkoolVerif.Proofs.CVsPyDefs
/-!
The `DEC A` hook of the LOAD loop, derived from source.

* `PyLoad.dec_a_func` (translate/pyload2lean.py: the closure `LoadTracer.dec_a(dec_a_jr, dec_a_jp).func` of
  skoolkit/loadtracer.py, with loadtracer's own `DEC` table) and
* `CSimH.Load.dec_a` (translate/cload2lean.py: `dec_a` of c/csimulator.c, C integer semantics explicit)

both compute the hand model `LoadAccel.decAHook` of `Model/LoadAccel.lean` on the machine state and bump the hit / miss counter
`LoadAccel.decAKind` names — the Python closure for every state, the C handler for every state in the range invariant with a clock
below 2^63 (where `unsigned long long` cannot wrap).  So the theorems of C13 about `decAHook` (`dec_a_jr_equiv`, `dec_a_jp_equiv`,
`dec_a_hook_otherwise_plain`: the hook = `2·A` steps / one step of the generated Z80 model) are theorems about both translations.
-/
open Z80 LoadAccel CInt TableRanges

namespace LoadDerived
variable {μ : Type} [MemLike μ]

/-- loadtracer's private `DEC` table as translated from loadtracer.py is the hand-written `ltDEC` -/
theorem py_DEC (c a : Int) : PyLoad.Tbl.DEC c a = ltDEC c a := by
  unfold PyLoad.Tbl.DEC ltDEC
  have : (-1 : Int) + a = a - 1 := by omega
  simp only [this]

theorem py_DEC0 (a : Int) : PyLoad.Tbl.DEC0 a = ltDEC0 a := by
  unfold PyLoad.Tbl.DEC0 ltDEC0
  exact py_DEC 0 a

theorem py_INC0 (i : Int) : PyLoad.Tbl.INC0 i = ltINC0 i := by
  unfold PyLoad.Tbl.INC0 ltINC0
  have : (1 : Int) + i = i + 1 := by omega
  simp only [this]

/-- the three counters `dec_a_jr_hits`, `dec_a_jp_hits`, `dec_a_misses` after a call that took branch `k` -/
def pyCount (h0 h1 h2 : Int) : DecAKind → Int × Int × Int
  | .jr => (h0 + 1, h1, h2)
  | .jp => (h0, h1 + 1, h2)
  | .miss => (h0, h1, h2 + 1)
  | .plain => (h0, h1, h2)

/-- `args[0..4]` of the C dispatch row after a call that took branch `k` (C `int` increments) -/
def cCount (a : CSimH.Load.DecAArgs) : DecAKind → CSimH.Load.DecAArgs
  | .jr => { a with a0 := i32 (a.a0 + 1) }
  | .jp => { a with a1 := i32 (a.a1 + 1) }
  | .miss => { a with a2 := i32 (a.a2 + 1) }
  | .plain => a

/-- The translated Python closure is the hand model, on the whole machine state, for every state and every option value. -/
theorem py_dec_a_state (cfg : Cfg) (jr jp h0 h1 h2 : Int) (s : St μ) :
    (PyLoad.dec_a_func cfg jr jp h0 h1 h2 s).1 = decAHook (decide (jr ≠ 0)) (decide (jp ≠ 0)) s := by
  unfold decAHook decAKind decAFfwd decAPlain rAdd
  simp only [loop_def, Id.run, pure, py_DEC, decide_eq_true_eq]
  repeat' split
  all_goals first | rfl | simp_all

/-- …and it bumps the counter the model's branch classification names. -/
theorem py_dec_a_counters (cfg : Cfg) (jr jp h0 h1 h2 : Int) (s : St μ) :
    let r := (PyLoad.dec_a_func cfg jr jp h0 h1 h2 s).2
    (r.dec_a_jr_hits, r.dec_a_jp_hits, r.dec_a_misses) = pyCount h0 h1 h2 (decAKind (decide (jr ≠ 0)) (decide (jp ≠ 0)) s) := by
  unfold decAKind pyCount
  simp only [loop_def, Id.run, pure, decide_eq_true_eq]
  repeat' split
  all_goals first | rfl | simp_all

variable [CellMem μ]

set_option maxHeartbeats 1000000 in
/-- The translated C handler is the hand model (state and counters) on every state in the range invariant whose clock is below
2^63 (`reg[T]` is an `unsigned long long`; the handler adds at most 16·256 − 5 T-states). -/
theorem c_dec_a (cfg : Cfg) (args : CSimH.Load.DecAArgs) (s : St μ) (h : RInv s) (ht : s.t < 9223372036854775808) :
    CSimH.Load.dec_a cfg args s =
      (decAHook (decide (args.a3 ≠ 0)) (decide (args.a4 ≠ 0)) s,
       cCount args (decAKind (decide (args.a3 ≠ 0)) (decide (args.a4 ≠ 0)) s)) := by
  obtain ⟨hr, hm, hpc, ht0, hiff, him, hhalt, hmp, hins⟩ := h
  unfold Word at hpc
  have hA := hr.byte 0 (by omega) (by omega) (by omega)
  have hF := hr.byte 1 (by omega) (by omega) (by omega)
  have hR := hr.byte 15 (by omega) (by omega) (by omega)
  unfold Byte at hA hF hR
  unfold decAHook decAKind decAFfwd decAPlain rAdd cCount
  simp only [cloop_def, Id.run, pure, ltDEC_eq, decide_eq_true_eq]
  ceq_simp
  simp only [ne_eq, ite_not, and_assoc]
  by_cases h1 : s.iff = 0
  · simp only [if_pos h1]
    by_cases h2 : ¬args.a3 = 0 ∧ mget s.mem ((s.pc + 1) % 65536) = 32 ∧ mget s.mem ((s.pc + 2) % 65536) = 253
    · simp only [if_pos h2]
    · simp only [if_neg h2]
      by_cases h3 : ¬args.a4 = 0 ∧ mget s.mem ((s.pc + 1) % 65536) = 194 ∧ mget s.mem ((s.pc + 2) % 65536) = s.pc % 256
          ∧ mget s.mem ((s.pc + 3) % 65536) = s.pc / 256
      · simp only [if_pos h3]
      · simp only [if_neg h3]
        rfl
  · simp only [if_neg h1]
    rfl

end LoadDerived
