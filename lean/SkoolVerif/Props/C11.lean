import SkoolVerif.Proofs.EdgesSeg
import SkoolVerif.Proofs.EdgesMerge
import SkoolVerif.Proofs.EdgesLevel
import SkoolVerif.Proofs.EdgesSplit
import SkoolVerif.Proofs.EdgesShift
import SkoolVerif.Proofs.EdgesPolarity
import SkoolVerif.Proofs.EdgesTape
import SkoolVerif.Proofs.TapeFilesLemmas
import SkoolVerif.Proofs.PzxLemmas
import SkoolVerif.Proofs.PulsLemmas
import SkoolVerif.Proofs.PzxDataLemmas
import SkoolVerif.Proofs.TzxLemmas
import SkoolVerif.Proofs.TapPzx
/-!
C11 — tape files round-trip and their pulse trains encode exactly the block bytes.

Property theorems only; helper lemmas live in `SkoolVerif/Proofs/Edges*.lean`.
Models: `SkoolVerif/Model/Edges.lean` (hand model of `tape.get_edges`), tied to
/repo by the correspondence check `harness/props/c11.py`.  Specification side:
`SkoolVerif/Spec/EdgeDecode.lean`.
-/
namespace C11
open Edges EdgeSpec TapeFiles PzxSpec TzxFile DirectRecSpec

/-! ## The edge generator: statements for **all** inputs (both data paths) -/

/-- The edge list is non-decreasing in time for every tape, every first-edge
offset and every polarity (pilot/sync/data/tail/pause, zero-length pulses and
the `edges[-1] += d` merge path included). -/
theorem edges_sorted (blocks : List Block) (fe pol : Int) :
    (getEdges blocks fe pol).1.Pairwise (· ≤ ·) := by
  have h := (runBlocks_ext pol blocks (initSt fe pol)).2.2.1 (initSt_inv fe pol)
  unfold getEdges finish
  split
  · exact h.2.1.sublist (List.dropLast_sublist _)
  · exact h.2.1

/-- The edge list is never empty (also after the final `edges.pop()`), and no
edge precedes `first_edge`. -/
theorem edges_nonempty_ge_first (blocks : List Block) (fe pol : Int) :
    (getEdges blocks fe pol).1 ≠ [] ∧ ∀ x ∈ (getEdges blocks fe pol).1, fe ≤ x := by
  have hext := runBlocks_ext pol blocks (initSt fe pol)
  have hinv := hext.2.2.1 (initSt_inv fe pol)
  have hlo := hext.2.2.2 fe (initSt_lo fe pol) (Int.le_refl _)
  have h2 := tail_not_first fe pol blocks
  unfold getEdges
  rcases finish_cases (runBlocks pol blocks (initSt fe pol)) with ⟨hl, hf⟩ | ⟨hl, hf⟩ <;> rw [hf] <;> dsimp only
  · refine ⟨?_, fun x hx => hlo x (List.dropLast_subset _ hx)⟩
    intro hc
    have := congrArg List.length hc
    have := h2 hl
    simp at *
    omega
  · exact ⟨hinv.1, hlo⟩

/-- Every reported data-block range is well-formed and lies inside the edge
list: `start ≤ end`, `end` never exceeds the index of the edge removed by the
final `pop()`, and the last data block (the one `adjust` clamps) is strictly
in range. -/
theorem datablock_indices_valid (blocks : List Block) (fe pol : Int) :
    (∀ db ∈ (getEdges blocks fe pol).2, db.start ≤ db.stop ∧ db.stop ≤ (getEdges blocks fe pol).1.length) ∧
    (∀ db, (getEdges blocks fe pol).2.getLast? = some db → db.stop + 1 ≤ (getEdges blocks fe pol).1.length) := by
  have hne := (initSt_inv fe pol).1
  have hdb := runBlocks_dbInv pol blocks (initSt fe pol) hne ⟨by simp [initSt], by simp [initSt]⟩
  have h2 := tail_not_first fe pol blocks
  unfold getEdges
  rcases finish_cases (runBlocks pol blocks (initSt fe pol)) with ⟨hl, hf⟩ | ⟨hl, hf⟩ <;> rw [hf] <;> dsimp only
  · have hlen := h2 hl
    have hlen2 : (runBlocks pol blocks (initSt fe pol)).edges.dropLast.length + 1 =
        (runBlocks pol blocks (initSt fe pol)).edges.length := by
      simp at hlen ⊢; omega
    constructor
    · intro db hm
      rcases adjustLast_mem hm with hm1 | ⟨d0, hm2, rfl⟩
      · have := hdb.1 db hm1; omega
      · have := hdb.1 d0 hm2
        dsimp only
        omega
    · intro db hm
      have := adjustLast_getLast hm
      omega
  · constructor
    · intro db hm
      have := hdb.1 db hm; omega
    · intro db hm
      exact (hdb.1 db (List.mem_of_getLast? hm)).2

/-- Before the final `pop()`/`adjust`, the recorded ranges are strictly inside
the edge list and appear in tape order without overlap (`end_i ≤ start_j`, `i < j`). -/
theorem datablocks_ordered (blocks : List Block) (fe pol : Int) :
    let s := runBlocks pol blocks (initSt fe pol)
    (∀ db ∈ s.dbs, db.start ≤ db.stop ∧ db.stop + 1 ≤ s.edges.length) ∧
    s.dbs.Pairwise (fun a b => a.stop ≤ b.start) :=
  runBlocks_dbInv pol blocks (initSt fe pol) (initSt_inv fe pol).1 ⟨by simp [initSt], by simp [initSt]⟩

/-- The code after the loop: the result is the loop's edge list and data blocks,
except that when the very last edge is the most recent tail pulse it is dropped and
the last data block is clamped.  Tapes without tail pulses (TAP, TZX) are never
touched. -/
theorem finish_no_tail (blocks : List Block) (fe pol : Int)
    (h : ∀ b ∈ blocks, b.timings.tail = 0) :
    getEdges blocks fe pol =
      ((runBlocks pol blocks (initSt fe pol)).edges, (runBlocks pol blocks (initSt fe pol)).dbs) := by
  have hlo := (runBlocks_ext pol blocks (initSt fe pol)).2.2.2 fe (initSt_lo fe pol) (Int.le_refl _)
  have ht := runBlocks_tail_eq pol blocks (initSt fe pol) h
  unfold getEdges
  rcases finish_cases (runBlocks pol blocks (initSt fe pol)) with ⟨hl, _⟩ | ⟨_, hf⟩
  · have := hlo _ (List.mem_of_getLast? hl)
    rw [ht] at this
    simp [initSt] at this
    omega
  · exact hf

/-! ## Exact pulse sequences -/

/-- `# Pulses`: after the optional polarity-adjustment edge, the new edges are
exactly the running sums of the block's tones and pulses (`count × duration`, in
order), and the clock ends on the last of them. -/
theorem pulse_phase_exact (pol : Int) (b : Block) (s : St) (h : b.timings.pulses ≠ []) :
    (pulsePhase pol b s).edges =
      checkPolarity b.timings.polarity pol s.edges s.t ++ cumsum s.t (tonePulses b.timings.pulses) ∧
    (pulsePhase pol b s).t = s.t + sumN (tonePulses b.timings.pulses) := by
  unfold pulsePhase
  simp only [ne_eq, h, not_false_eq_true, ↓reduceIte, emit_eq]
  exact ⟨rfl, rfl⟩

/-- The data part on the table path is exact, for **every** pair of bit pulse sequences
(also of different lengths, PZX `DATA` with `p0 ≠ p1`) and every used-bits count: the new
edges are the running sums of the pulse sequences of exactly the block's bits (8 per byte,
`min used_bits 8` of the last one), followed by the tail pulse.
(Before the fix of `get_edges` — last byte cut at `(len(bt) * used_bits) // 8` pulses — this
statement was false for `p0 ≠ p1` with `used_bits < 8`; see `regression_p0_ne_p1_used_bits`.) -/
theorem data_phase_exact (pol : Int) (l : Bool) (b : Block) (s : St)
    (hd : b.data ≠ []) (hz : hasZero b.timings = false) :
    (dataPhase pol l b s).edges =
      checkPolarity b.timings.polarity pol s.edges s.t ++
        cumsum s.t (bitPulses b.timings.zero b.timings.one (dataBits b.timings.usedBits b.data) ++
          tailL b.timings.tail) ∧
    (dataPhase pol l b s).t = s.t +
      sumN (bitPulses b.timings.zero b.timings.one (dataBits b.timings.usedBits b.data) ++
          tailL b.timings.tail) := by
  have he := dataPhase_edges pol l b s hd
  rw [he.1, he.2, dataCore_fast _ _ _ _ _ hz, fastSeq_eq_spec _ _ _ _ hd]
  exact ⟨rfl, rfl⟩

/-- Regression input of the former finding, through the whole of `get_edges`: a PZX `DATA`
block of one bit `1` with `s0 = [100]`, `s1 = [200, 300]` yields both pulses of the bit
(the unfixed code produced `[0, 0, 200]`), and a 3-bit block `101` yields 200,300 / 100 / 200,300. -/
theorem regression_p0_ne_p1_used_bits :
    (getEdges [⟨{ zero := [100], one := [200, 300], usedBits := 1, polarity := some 1 }, [128], none⟩] 0 0).1
      = [0, 0, 200, 500] ∧
    (getEdges [⟨{ zero := [100], one := [200, 300], usedBits := 3, polarity := some 0 }, [0xA0], none⟩] 0 0).1
      = [0, 200, 500, 600, 800, 1100] := by
  decide

/-- Where both data paths apply (no zero-length pulse, `used_bits ≤ 8`) the merge loop and
the table path produce the same edges and the same clock, whatever the lengths of the two
bit sequences. -/
theorem fast_path_eq_slow_path (zero one : List Nat) (ub : Nat) (data : List Nat) (e : List Int) (t : Int)
    (hd : data ≠ []) (hz : 0 ∉ zero ∧ 0 ∉ one) (hub : ub ≤ 8) :
    let r := (slowSeq zero one ub data).foldl mergeStep ⟨e, t, 0, 0⟩
    (r.edges, r.t) = emit (fastSeq zero one ub data) (e, t) := by
  intro r
  have hnz : ∀ d ∈ slowSeq zero one ub data, d ≠ 0 := by
    intro d hdm h0
    rw [slowSeq_eq_spec _ _ _ _ hub] at hdm
    rcases bitPulses_mem hdm with h | h
    · exact hz.1 (h0 ▸ h)
    · exact hz.2 (h0 ▸ h)
  have := mergeFold_nozero _ ⟨e, t, 0, 0⟩ hnz rfl (by simp)
  rw [emit_eq, fastSeq_eq_spec _ _ _ _ hd, ← slowSeq_eq_spec _ _ _ _ hub]
  exact Prod.ext this.1 this.2

/-- The zero-pulse merge loop (`p`/`q` parities, `edges[-1] += d`) computes the same
*signal* as naive toggling at the end of every pulse, zero-length ones included: when
the loop is entered with the last edge at the clock (no pause since the last edge),
the level — parity of the number of edges so far — read from the merged list equals the
level read from the naive list `e ++ cumsum t ds` at every time before the final clock,
and at every time whatsoever when the loop ends with `p = q` (an even number of
zero-length pulses is pending).  The clock advances by the sum of all durations. -/
theorem merge_level_equiv (ds : List Nat) (e : List Int) (t : Int) (hlast : e.getLast? = some t) :
    let r := ds.foldl mergeStep ⟨e, t, 0, 0⟩
    r.t = t + sumN ds ∧
    (∀ τ, τ < r.t → level r.edges τ = level (e ++ cumsum t ds) τ) ∧
    (r.p = r.q → ∀ τ, level r.edges τ = level (e ++ cumsum t ds) τ) := by
  have h := LInv.fold ds (s := ⟨e, t, 0, 0⟩) (LInv.init e t hlast)
  dsimp only at h ⊢
  generalize List.foldl mergeStep ⟨e, t, 0, 0⟩ ds = r at h ⊢
  obtain ⟨⟨_, hp, hq, hb, ha⟩, ht⟩ := h
  refine ⟨ht, fun τ hτ => hb τ hτ, ?_⟩
  intro hpq τ
  by_cases hτ : τ < r.t
  · exact hb τ hτ
  · have h1 := ha τ (by omega)
    simp only [level_eq]
    omega

/-- Whole-tape exactness for TAP/TZX-style tapes (no declared block levels, no tail pulses,
no zero-length bit pulses): the edge list is, after the initial edge(s) at `first_edge`,
exactly the play-out of the tape's events — every tone/sync pulse, every pulse of every bit
of every byte (`used_bits` of the last), in order, each ending with an edge; pauses only
move the clock; the pause of the last block is not played. -/
theorem tap_tzx_tape_edges_exact (blocks : List Block) (fe pol : Int)
    (hb : ∀ b ∈ blocks, PlainBlock b) (ht : ∀ b ∈ blocks, b.timings.tail = 0) :
    (getEdges blocks fe pol).1 =
      (if pol % 2 ≠ 0 then [fe, fe] else [fe]) ++ playEvents fe (tapeEvents blocks) := by
  rw [finish_no_tail blocks fe pol ht]
  exact (runBlocks_plain pol blocks (initSt fe pol) hb).1

/-! ## Decoding -/

/-- Spec level: a pulse train built from `bitPulses` is decoded, by measuring the
distances between consecutive edges and classifying them against the two bit
sequences, to exactly the bits that were sent — provided neither sequence is a
prefix of the other (in particular `zero ≠ one` and both are non-empty). -/
theorem decode_cumsum (zero one : List Nat) (hpf : PrefixFree zero one) (bits : List Bool) (t : Int) :
    decodeBits zero one (diffs (t :: cumsum t (bitPulses zero one bits))) = some bits := by
  rw [diffs_cumsum']
  exact decodeBits_bitPulses zero one hpf bits

/-- The edges that `get_edges` appends for a data block decode back to exactly the
block's bits, for every pair of prefix-free bit sequences and every used-bits count
(zero-length pulses — the merge path — cannot be decoded by distance and are excluded). -/
theorem data_phase_decodes (pol : Int) (l : Bool) (b : Block) (s : St)
    (hd : b.data ≠ []) (hz : hasZero b.timings = false)
    (hpf : PrefixFree b.timings.zero b.timings.one) :
    ∃ dataE : List Int,
      (dataPhase pol l b s).edges =
        checkPolarity b.timings.polarity pol s.edges s.t ++ dataE ++
          (if b.timings.tail ≠ 0 then [s.t + sumN (bitPulses b.timings.zero b.timings.one
              (dataBits b.timings.usedBits b.data)) + b.timings.tail] else []) ∧
      decodeBits b.timings.zero b.timings.one (diffs (s.t :: dataE)) =
        some (dataBits b.timings.usedBits b.data) := by
  refine ⟨cumsum s.t (bitPulses b.timings.zero b.timings.one (dataBits b.timings.usedBits b.data)), ?_,
    decode_cumsum _ _ hpf _ _⟩
  rw [(data_phase_exact pol l b s hd hz).1, cumsum_append]
  unfold tailL
  by_cases ht : b.timings.tail = 0
  · simp [ht, cumsum]
  · simp [ht, cumsum]

/-- Each PZX block that declares an initial level gets it: after `_check_polarity`
the current level (parity of the number of edges so far) equals the declared level
XOR the global polarity. -/
theorem polarity_level (p : Nat) (hp : p < 2) (pol : Int) (e : List Int) (t : Int) (he : e ≠ []) :
    ((checkPolarity (some p) pol e t).length - 1) % 2 = p ^^^ (pol % 2).toNat :=
  checkPolarity_level p hp pol e t he

/-! ## Data-block index ranges (whole tape) -/

/-- For every tape whose data blocks have no zero-length bit pulse, every
fast-loadable `DataBlock` reported by the loop belongs to a block `b` of the tape and
its range delimits exactly that block's data: all edges up to `start` are at or
before the clock `t0` at which the data began (`edges[start] = t0` when the block
has pilot/sync pulses), the edges `start+1 … end` are the running sums from `t0`
of the pulses of the block's bits plus the tail pulse, and — when the bit sequences
are prefix-free — measuring them decodes to the block's bits. -/
theorem datablock_ranges_decode (blocks : List Block) (fe pol : Int)
    (hbyte : ∀ b ∈ blocks, ByteBlock b) :
    let s := runBlocks pol blocks (initSt fe pol)
    ∀ db ∈ s.dbs, db.fastLoad = true →
      ∃ b ∈ blocks, ∃ t0 : Int,
        db.data = b.data ∧ b.data ≠ [] ∧ db.start ≤ db.stop ∧ db.stop + 1 ≤ s.edges.length ∧
        (∀ x ∈ s.edges.take (db.start + 1), x ≤ t0) ∧
        (tonePulses b.timings.pulses ≠ [] → s.edges[db.start]? = some t0) ∧
        (s.edges.drop (db.start + 1)).take (db.stop - db.start) =
          cumsum t0 (bitPulses b.timings.zero b.timings.one (dataBits b.timings.usedBits b.data) ++
            tailL b.timings.tail) ∧
        (PrefixFree b.timings.zero b.timings.one →
          decodeBits b.timings.zero b.timings.one
            (diffs (t0 :: ((s.edges.drop (db.start + 1)).take (db.stop - db.start)).take
              (db.stop - db.start - (tailL b.timings.tail).length))) =
            some (dataBits b.timings.usedBits b.data)) := by
  intro s db hdb hf
  have hseg := runBlocks_seg blocks pol blocks (initSt fe pol)
    (fun b hb => ⟨hb, hbyte b hb⟩) (initSt_inv fe pol) (by intro d hd; simp [initSt] at hd)
  obtain ⟨b, hb, t0, h1, h2, h3, h4, h5, h6, h7, h8, h9⟩ := hseg db hdb hf
  have hspec := fastSeq_eq_spec b.timings.zero b.timings.one b.timings.usedBits b.data h2
  refine ⟨b, hb, t0, h1, h2, h5, h4, h6, h7, ?_, ?_⟩
  · rw [h8, dataPulses, hspec]
  · intro hpf
    rw [h8, h9, dataPulses, hspec, cumsum_append, List.length_append, Nat.add_sub_cancel,
      List.take_append_of_le_length (by rw [cumsum_length]; exact Nat.le_refl _),
      ← cumsum_length t0, List.take_length]
    exact decode_cumsum _ _ hpf _ _

/-- For tapes without tail pulses (every TAP and TZX tape) the statement above holds
for the final result of `get_edges` itself. -/
theorem tap_tzx_datablock_ranges_decode (blocks : List Block) (fe pol : Int)
    (hbyte : ∀ b ∈ blocks, ByteBlock b) (htail : ∀ b ∈ blocks, b.timings.tail = 0)
    (hpf : ∀ b ∈ blocks, b.data ≠ [] → PrefixFree b.timings.zero b.timings.one) :
    let r := getEdges blocks fe pol
    ∀ db ∈ r.2, db.fastLoad = true →
      ∃ b ∈ blocks, ∃ t0 : Int,
        db.data = b.data ∧ db.stop + 1 ≤ r.1.length ∧
        (∀ x ∈ r.1.take (db.start + 1), x ≤ t0) ∧
        (tonePulses b.timings.pulses ≠ [] → r.1[db.start]? = some t0) ∧
        decodeBits b.timings.zero b.timings.one
            (diffs (t0 :: (r.1.drop (db.start + 1)).take (db.stop - db.start))) =
          some (dataBits b.timings.usedBits b.data) := by
  intro r db hdb hf
  have hr : r = ((runBlocks pol blocks (initSt fe pol)).edges, (runBlocks pol blocks (initSt fe pol)).dbs) :=
    finish_no_tail blocks fe pol htail
  rw [hr] at hdb ⊢
  obtain ⟨b, hb, t0, h1, hd, _, h3, h4, h5, h6, h7⟩ :=
    datablock_ranges_decode blocks fe pol hbyte db hdb hf
  refine ⟨b, hb, t0, h1, h3, h4, h5, ?_⟩
  have := h7 (hpf b hb hd)
  simp only [tailL, htail b hb, ne_eq, not_true_eq_false, ↓reduceIte, List.length_nil, Nat.sub_zero,
    List.take_take, Nat.min_self] at this
  exact this

/-! ## First-edge offset and polarity -/

/-- `first_edge` only translates the signal: every edge moves by the same amount and the
data blocks (ranges, data, flags) are unchanged — for every tape, both data paths. -/
theorem first_edge_shift (blocks : List Block) (fe pol k : Int) :
    getEdges blocks (fe + k) pol =
      ((getEdges blocks fe pol).1.map (· + k), (getEdges blocks fe pol).2) := by
  unfold getEdges
  rw [initSt_sh, runBlocks_sh, finish_sh]
  rfl

/-- Only the parity of `polarity` matters. -/
theorem polarity_parity (blocks : List Block) (fe pol : Int) :
    getEdges blocks fe pol = getEdges blocks fe (pol % 2) := by
  unfold getEdges
  rw [runBlocks_mod, initSt_mod]

/-- An odd polarity only inverts the signal: the edge list gets one more edge at
`first_edge` in front, every other edge is the same, and every data-block index moves
up by one (block polarities as the parsers produce them: absent, 0 or 1). -/
theorem polarity_inverts (blocks : List Block) (fe : Int) (hb : ∀ b ∈ blocks, PolOk b) :
    getEdges blocks fe 1 = (fe :: (getEdges blocks fe 0).1, (getEdges blocks fe 0).2.map incDb) := by
  have h0 : Inverted fe (initSt fe 0) (initSt fe 1) := by
    refine ⟨?_, rfl, rfl, rfl, rfl, ?_⟩ <;> simp [initSt]
  have hr := runBlocks_inv fe blocks hb h0
  unfold getEdges
  exact finish_inv fe hr (tail_not_first fe 0 blocks)

/-! ## The same logical tape in different block structures -/

/-- A block with pilot/sync pulses *and* data (a TAP block, TZX standard 0x10 or turbo
0x11 block) yields exactly the same edges and data-block ranges as the two-block form
"pulses only, then data only" (TZX pure tone 0x12 + pulse sequence 0x13 followed by pure
data 0x14; PZX `PULS` followed by `DATA`), anywhere in any tape, for every first edge
and polarity. -/
theorem split_block_same_edges (pre post : List Block) (b : Block) (fe pol : Int) (hd : b.data ≠ []) :
    getEdges (pre ++ [pulsesOnly b, dataOnly b] ++ post) fe pol = getEdges (pre ++ [b] ++ post) fe pol := by
  unfold getEdges
  rw [runBlocks_split pol pre post b _ hd]

/-- TZX: a turbo-speed block (0x11: pilot tone, two sync pulses, data) yields exactly the
same edges and data-block ranges as the three-block form pure tone (0x12) + pulse sequence
(0x13) + pure data (0x14), anywhere in any tape, for every first edge and polarity. -/
theorem turbo_eq_tone_pulses_puredata (pre post : List Block) (n p s1 s2 : Nat) (tm : Timings)
    (data : List Nat) (fe pol : Int) (hd : data ≠ [])
    (hp : tm.pulses = [(n, p), (1, s1), (1, s2)]) (hpol : tm.polarity = none) :
    getEdges (pre ++ [pulseBlock [(n, p)], pulseBlock [(1, s1), (1, s2)], dataOnly ⟨tm, data, none⟩] ++ post) fe pol =
      getEdges (pre ++ [⟨tm, data, none⟩] ++ post) fe pol := by
  rw [← split_block_same_edges pre post ⟨tm, data, none⟩ fe pol hd]
  have h1 : pulsesOnly ⟨tm, data, none⟩ = pulseBlock ([(n, p)] ++ [(1, s1), (1, s2)]) := by
    simp [pulsesOnly, pulseBlock, hp, hpol]
  unfold getEdges
  rw [h1]
  have h2 := runBlocks_pulse_split pol pre (dataOnly ⟨tm, data, none⟩ :: post) [(n, p)] [(1, s1), (1, s2)]
    (initSt fe pol) (by simp)
  simp only [List.append_assoc, List.cons_append, List.nil_append] at h2 ⊢
  rw [h2]

/-! ## TAP and PZX files -/

/-- TAP framing round trip with every `tape-start`, `tape-stop`, `tape-skip` setting:
for every list of blocks that `write_tap` accepts (any number of blocks, each of
0 … 65535 bytes, empty blocks included), `parse_tap` of the written file returns exactly
the selected blocks, with their 1-based numbers and byte-for-byte contents, and no
warning. -/
theorem tap_roundtrip_options (bs : List (List Nat)) (hv : ValidTap bs) (start stop : Int) (skip : List Nat) :
    ∃ tap, writeTap bs = .ok tap ∧
      parseTap tap start stop skip = ⟨(number 1 bs).filter (sel start stop skip), .none⟩ := by
  refine ⟨tapBytes bs, writeTap_ok bs hv, ?_⟩
  obtain ⟨bn', rem, heq, hor⟩ := tapLoop_written start stop skip bs (fun d hd => (hv d hd).1)
    ((tapBytes bs).length + 1) 1 [] (by
      have : ∀ l : List (List Nat), l.length ≤ (tapBytes l).length := by
        intro l
        induction l with
        | nil => simp
        | cons d r ih => simp [tapBytes]; omega
      have := this bs; omega) (by omega)
  unfold parseTap
  rw [heq]
  simp only [List.nil_append]
  rcases hor with h | h
  · simp [h]
  · simp [h]

/-- With the default options every block comes back: `parse_tap(write_tap(bs)) = bs`. -/
theorem tap_roundtrip (bs : List (List Nat)) (hv : ValidTap bs) :
    ∃ tap, writeTap bs = .ok tap ∧ parseTap tap = ⟨number 1 bs, .none⟩ := by
  obtain ⟨tap, h1, h2⟩ := tap_roundtrip_options bs hv 1 0 []
  refine ⟨tap, h1, ?_⟩
  rw [h2]
  congr 1
  rw [List.filter_eq_self]
  intro nb hnb
  have := number_ge hnb
  simp [sel]
  omega

/-- `parse_tap` gives every non-empty block the ROM timings of its flag byte: 8063
pilot pulses for a header (flag 0), 3223 otherwise, then the two sync pulses, 855/1710
bit pulses, one second of pause — and no timings to an empty block. -/
theorem tap_block_timings (flag : Nat) (rest : List Nat) :
    tapTimings (flag :: rest) = some
      { pulses := [(if flag = 0 then 8063 else 3223, 2168), (1, 667), (1, 735)],
        zero := [855, 855], one := [1710, 1710], pause := 3500000 } ∧ tapTimings [] = none := by
  refine ⟨?_, rfl⟩
  by_cases h : flag = 0 <;> simp [tapTimings, romTimings, h]

/-- PZX round trip: for every non-empty list of non-empty byte blocks, `parse_pzx` of the
file written by `write_pzx` is the header block followed, per data block, by
(a 3500000 T-state `PAUS` between blocks,) a `PULS` block holding the ROM pilot
(8063 pulses for flag byte 0, else 3223) and sync pulses, and a `DATA` block whose
bytes are exactly the block, 8 used bits, 855/1710 bit pulses, tail 945, initial level 1,
recognised as a standard-speed block. -/
theorem pzx_roundtrip (bs : List (List Nat)) (hv : ValidPzx bs) :
    ∃ f, writePzx bs = .ok f ∧ parsePzx f = .ok ((1, headerBlock) :: expected 0 2 bs) := by
  refine ⟨pzxHeader ++ tailBytes 0 bs, writePzx_ok bs hv, ?_⟩
  have htake : (pzxHeader ++ tailBytes 0 bs).take 4 = [80, 90, 88, 84] := rfl
  unfold parsePzx
  simp only [htake, ne_eq, not_true_eq_false, ↓reduceIte]
  rw [pzxLoop_step (get_header _) (by simp [pzxHeader]) _ _ _ (by omega)]
  rw [pzxLoop_written bs hv 0 _ 2 _ false
    (by have := tailBytes_length 0 bs; simp [pzxHeader]; omega) (by omega)]
  rfl

/-- skoolkit's `PULS` decoder inverts the PZX document's encoding, for every sequence of
(count, duration) entries the format can represent (count 1 … 32767 with and without an
explicit count word, durations up to 2³¹−1 in one or two words), whatever follows the
block body. -/
theorem puls_decode_encode (ps : List (Nat × Nat)) (hv : ∀ cd ∈ ps, ValidPulse cd) (R : List Nat) :
    pulsLoop ((encodePuls ps).length + 1) (encodePuls ps).length (encodePuls ps ++ R) [] = .ok ps := by
  have hl : ps.length ≤ (encodePuls ps).length + 1 := by
    have := encodePuls_length_ge ps; omega
  simpa using pulsLoop_encode ps hv R _ [] hl

/-- skoolkit's `DATA` decoder inverts the PZX document's layout for every block the format
can represent: any initial level, any bit count below 2³¹ (hence any used-bits count 1…8),
any tail, any two pulse sequences of up to 255 16-bit entries (also of different lengths,
also empty), the bytes `⌈bits/8⌉` — whatever follows the block.  The decoded block carries
exactly these values (`standard` only after a ROM pilot and with the ROM bit timings). -/
theorem pzx_data_decode_encode (level nbits tail : Nat) (s0 s1 data R : List Nat) (prev : Bool)
    (hv : ValidData level nbits tail s0 s1 data) :
    dataBlock (encodeData level nbits tail s0 s1 data ++ R) prev =
      .ok (specDataBlock level nbits tail s0 s1 data prev) :=
  dataBlock_encode level nbits tail s0 s1 data R prev hv

/-- One block written by `write_tap` and by `write_pzx`, each parsed back by its parser, gives
`get_edges` different block lists (the PZX form has a `PULS` and a `DATA` block with declared
levels and a 945 T-state tail pulse) but the **same edges and the same data-block range**,
for every first edge and polarity: the declared levels agree with the running level (no
correction edge) and the tail pulse, being the last edge of the tape, is dropped.
(For tapes of several blocks the two forms differ by the tail pulses between the blocks.) -/
theorem tap_pzx_single_block_same_edges (d : List Nat) (hv : ValidPzx [d]) (hlen : d.length < 65536)
    (fe pol : Int) :
    ∃ tap pzx pblocks,
      writeTap [d] = .ok tap ∧ writePzx [d] = .ok pzx ∧ parsePzx pzx = .ok pblocks ∧
      getEdges (pzxEdgeBlocks pblocks) fe pol = getEdges (tapEdgeBlocks (parseTap tap).blocks) fe pol := by
  have hd := hv d (by simp)
  have hvt : ValidTap [d] := by
    intro x hx
    simp at hx; subst hx
    exact ⟨hlen, hd.2.2⟩
  obtain ⟨tap, hw, hp⟩ := tap_roundtrip [d] hvt
  obtain ⟨pzx, hwp, hpp⟩ := pzx_roundtrip [d] hv
  refine ⟨tap, pzx, _, hw, hwp, hpp, ?_⟩
  rw [hp]
  obtain ⟨flag, r, rfl⟩ : ∃ flag r, d = flag :: r := by
    cases d with
    | nil => exact absurd rfl hd.1
    | cons a r => exact ⟨a, r, rfl⟩
  have h1 : pzxEdgeBlocks ((1, headerBlock) :: expected 0 2 [flag :: r]) = [pzxP flag, pzxD (flag :: r)] := by
    by_cases hf : flag = 0 <;>
      simp [pzxEdgeBlocks, expected, headerBlock, romPulsBlock, romDataBlock, pzxP, pzxD, Edges.romPulses, hf]
  have h2 : tapEdgeBlocks (number 1 [flag :: r]) = [tapB flag (flag :: r)] := by
    by_cases hf : flag = 0 <;>
      simp [tapEdgeBlocks, number, tapTimings, romTimings, tapB, Edges.romPulses, hf]
  rw [h1, h2]
  have hpol1 : ∀ b ∈ [pzxP flag, pzxD (flag :: r)], PolOk b := by
    intro b hb
    simp at hb
    rcases hb with rfl | rfl
    · exact Or.inr (Or.inl rfl)
    · exact Or.inr (Or.inr rfl)
  have hpol2 : ∀ b ∈ [tapB flag (flag :: r)], PolOk b := by
    intro b hb
    simp at hb; subst hb
    exact Or.inl rfl
  have h0 := tap_pzx_single_block fe flag (flag :: r) (by simp)
  rw [polarity_parity _ fe pol, polarity_parity [tapB flag (flag :: r)] fe pol]
  have hm : pol % 2 = 0 ∨ pol % 2 = 1 := by omega
  rcases hm with hm | hm <;> rw [hm]
  · exact h0
  · rw [polarity_inverts _ fe hpol1, polarity_inverts _ fe hpol2, h0]

/-! ## TZX -/

/-- The same blocks as a TZX file of standard-speed blocks (0x10, pause 1000 ms) and as a TAP
file give `get_edges` the very same block list (bytes, ROM timings, pause; empty blocks
dropped by both paths) — hence the same edges and data-block ranges, for every first edge
and polarity. -/
theorem tzx_standard_same_as_tap (bs : List (List Nat)) (hv : ValidTap bs) (fe pol : Int) :
    ∃ tzxBlocks tap,
      parseTzx (tzxSignature ++ [1, 20] ++ tzxTail bs) = .ok tzxBlocks ∧ writeTap bs = .ok tap ∧
      edgeBlocks tzxBlocks = tapEdgeBlocks (parseTap tap).blocks ∧
      getEdges (edgeBlocks tzxBlocks) fe pol = getEdges (tapEdgeBlocks (parseTap tap).blocks) fe pol := by
  obtain ⟨tap, hw, hp⟩ := tap_roundtrip bs hv
  have hlen : (tzxSignature ++ [1, 20] ++ tzxTail bs).length = 10 + (tzxTail bs).length := by
    simp [tzxSignature]; omega
  have hparse : parseTzx (tzxSignature ++ [1, 20] ++ tzxTail bs) = .ok (numberStd 1 bs) := by
    unfold parseTzx
    have h1 : (tzxSignature ++ [1, 20] ++ tzxTail bs).take 8 = tzxSignature := rfl
    have h3 : (tzxSignature ++ [1, 20] ++ tzxTail bs).drop 10 = tzxTail bs := rfl
    have h2 : ¬ (tzxSignature ++ [1, 20] ++ tzxTail bs).length < 10 := by omega
    simp only [h1, ne_eq, not_true_eq_false, ↓reduceIte, h2, h3]
    have := tzxLoop_std bs (fun d hd => (hv d hd).1) ((tzxSignature ++ [1, 20] ++ tzxTail bs).length + 1) 1 []
      (by have := tzxTail_length bs; omega) (by omega)
    simpa using this
  have heq : edgeBlocks (numberStd 1 bs) = tapEdgeBlocks (parseTap tap).blocks := by
    rw [hp]; exact edgeBlocks_numberStd 1 bs
  exact ⟨numberStd 1 bs, tap, hparse, hw, heq, by rw [heq]⟩

/-- TZX direct recording (0x15): the pulses skoolkit derives from the sample bits are single
pulses whose durations add up to `tps` T-states per sample, and sampling them every `tps`
T-states from a low level gives back exactly the recorded bits (a leading zero-length pulse
raises the level first when the first sample is high). -/
theorem direct_recording_faithful (tps : Nat) (htps : 0 < tps) (bit : Bool) (bits : List Bool) :
    (∀ cd ∈ drPulses tps bit (bit :: bits), cd.1 = 1) ∧
    total ((drPulses tps bit (bit :: bits)).map (·.2)) = tps * (bits.length + 1) ∧
    samplePulses tps false ((drPulses tps bit (bit :: bits)).map (·.2)) = bit :: bits := by
  refine ⟨?_, ?_, ?_⟩
  · intro cd hcd
    unfold drPulses at hcd
    rw [List.mem_append] at hcd
    rcases hcd with h | h
    · cases bit <;> simp at h
      subst h; rfl
    · exact drRuns_counts tps bit 0 _ cd h
  · unfold drPulses
    have := drRuns_total tps bit 0 (bit :: bits)
    cases bit <;> simp [total] at this ⊢ <;> rw [this] <;> simp [Nat.add_comm]
  · unfold drPulses
    have := drRuns_sample tps htps bit 0 (bit :: bits)
    cases bit
    · simpa using this
    · simp only [↓reduceIte, List.cons_append, List.nil_append, List.map_cons, samplePulses, Nat.zero_div,
        List.replicate_zero, Bool.not_false]
      simpa using this

/-! ## Non-vacuity: concrete values meeting the hypotheses, and concrete outputs -/

/-- A turbo-style block: 2 pilot pulses, 2 sync pulses, one byte, 3 used bits. -/
def exBlock : Block :=
  { timings := { pulses := [(2, 10), (1, 3), (1, 4)], zero := [5, 5], one := [9, 9], pause := 100, usedBits := 3 },
    data := [0xA0] }

example : (getEdges [exBlock] 0 0).1 = [0, 10, 20, 23, 27, 36, 45, 50, 55, 64, 73] := by decide
example : (getEdges [exBlock] 0 0).2 = [⟨[0xA0], 4, 10, none, true⟩] := by decide
example : (getEdges [exBlock, exBlock] 7 1).1.length = 22 := by decide
example : dataBits 3 [0xA0] = [true, false, true] := by decide
example : PrefixFree [5, 5] [9, 9] := by simp [PrefixFree]
example : ¬ PrefixFree [5] [5, 5] := by simp [PrefixFree]
example : ByteBlock exBlock := Or.inl (by decide)
example : PlainBlock exBlock := ⟨rfl, Or.inl (by decide)⟩
example : PolOk exBlock := Or.inl rfl
example : ∀ b ∈ [exBlock, exBlock], ByteBlock b ∧ PlainBlock b ∧ b.timings.tail = 0 := by
  intro b hb
  simp at hb; subst hb
  exact ⟨Or.inl (by decide), ⟨rfl, Or.inl (by decide)⟩, rfl⟩
-- `tap_tzx_tape_edges_exact` on a two-block tape: the 100 T-state pause between the blocks is a gap
example : (getEdges [exBlock, exBlock] 0 0).1 = [0] ++ playEvents 0 (tapeEvents [exBlock, exBlock]) := by decide
example : (tapeEvents [exBlock, exBlock]).length = 21 := by decide
-- `merge_level_equiv`: the hypothesis "no pause since the last edge"
example : ([0, 5] : List Int).getLast? = some 5 := rfl
example : decodeBits [5, 5] [9, 9] (diffs [27, 36, 45, 50, 55, 64, 73]) = some [true, false, true] := by decide
-- the merge path: `s0 = [4, 0]`, `s1 = [0, 4]` (sample data): bits 1,1 merge into one 8 T-state pulse
example : (getEdges [⟨{ zero := [4, 0], one := [0, 4], usedBits := 2 }, [0xC0], none⟩] 0 0) =
    ([8], [⟨[0xC0], 0, 0, none, false⟩]) := by decide
-- a tail pulse that ends the tape is dropped and the range clamped
example : (getEdges [⟨{ zero := [5], one := [9], usedBits := 2, tail := 7 }, [0x80], none⟩] 0 0) =
    ([0, 9, 14], [⟨[0x80], 0, 2, none, true⟩]) := by decide
-- polarity correction: a PZX block that wants level 1 while the level is 0 gets an extra edge
example : checkPolarity (some 1) 0 [0] 0 = [0, 0] := by decide
example : checkPolarity (some 0) 1 [0, 0] 0 = [0, 0] := by decide
-- TAP: two blocks, the second empty
example : writeTap [[1, 2, 3], []] = .ok [3, 0, 1, 2, 3, 0, 0] := rfl
example : parseTap [3, 0, 1, 2, 3, 0, 0] = ⟨[(1, [1, 2, 3]), (2, [])], .none⟩ := by decide
example : parseTap [3, 0, 1, 2] = ⟨[(1, [1, 2])], .missing 1⟩ := by decide
example : parseTap [1, 0, 9, 7] = ⟨[(1, [9])], .extraneous⟩ := by decide
example : ValidTap [[1, 2, 3], []] := by simp [ValidTap]
example : ValidPzx [[0, 1], [255]] := by simp [ValidPzx]
-- PULS: the three encodings of the PZX document
example : encodePuls [(8063, 2168), (1, 667), (1, 0x12345), (3, 0x8000)] =
    [0x7f, 0x9f, 0x78, 0x08, 0x9b, 0x02, 0x01, 0x80, 0x01, 0x80, 0x45, 0x23, 0x03, 0x80, 0x00, 0x80, 0x00, 0x80] := by
  decide
example : ValidPulse (1, 0x12345) := by simp [ValidPulse]
example : ValidData 1 11 945 [855] [1710, 5] [0xA5, 0xE0] := by simp [ValidData]
example : (specDataBlock 1 11 945 [855] [1710, 5] [0xA5, 0xE0] true).timings =
    some { zero := [855], one := [1710, 5], usedBits := 3, tail := 945, polarity := some 1 } := by decide
-- TZX: a standard block, a direct recording (samples 10101010 110, 79 T-states each), an unknown ID
example : parseTzx (tzxSignature ++ [1, 20] ++ [0x10, 232, 3, 2, 0, 255, 1]) =
    .ok [(1, ⟨0x10, some [255, 1], some (romTimings 255), false, true, none⟩)] := rfl
example : (drPulses 79 true (drBits 3 2 1 [0xAA, 0xC0])).map (·.2) = [0, 79, 79, 79, 79, 79, 79, 79, 79, 158, 79] := by
  decide
example : samplePulses 79 false [0, 79, 79, 158] = [true, false, true, true] := by decide
example : parseTzx (tzxSignature ++ [1, 20, 0x99]) = .error (.unknownId 0x99) := rfl
example : parseTzx [1, 2, 3] = .error .notTzx := rfl

end C11
