import SkoolVerif.Proofs.Z80RleLemmas
/-!
C09 — snapshot round trips.  Property theorems only; helper lemmas live in
`SkoolVerif/Proofs/`.  Model: `SkoolVerif/Model/Z80Rle.lean` (hand model of
`Z80._make_z80_ram_block` / `Z80._decompress`, tied to /repo by the
correspondence check `harness/props/c09.py`).
-/
namespace C09
open Z80Rle

/-- The Z80 run-length decoder inverts the encoder for **every** byte string
(no bound on length; in fact for every list of naturals). -/
theorem rle_roundtrip (data : List Nat) : dec (enc data) = .ok data := by
  have := inv_fold data encInit [] inv_init
  simpa [enc] using flush_dec _ _ this

/-- The encoder never more than doubles the data. -/
theorem rle_length_le (data : List Nat) : (enc data).length ≤ 2 * data.length := by
  have := len_fold data encInit 0 ⟨by simp [encInit], by simp [encInit]⟩
  simpa [enc] using flush_len _ _ this

/-- Hence a 16K page never produces the length 0xFFFF that the reader takes
to mean "uncompressed", and the two-byte length field never overflows. -/
theorem page_length_field_ok (data : List Nat) (h : data.length = 16384) :
    (enc data).length < 65535 := by
  have := rle_length_le data; omega

/-- Version 2/3 page block: the three-byte header carries the exact length of
the body and the body decodes to the page. -/
theorem page_block_roundtrip (data : List Nat) (page : Nat) (h : data.length = 16384) :
    ∃ body, ramBlockPage data page = [body.length % 256, body.length / 256, page] ++ body ∧
      body.length % 256 + 256 * (body.length / 256) = body.length ∧
      body.length ≠ 65535 ∧ dec body = .ok data := by
  refine ⟨enc data, rfl, by omega, ?_, rle_roundtrip data⟩
  have := page_length_field_ok data h; omega

/-- Version 1 block: the reader strips the 4-byte end marker (`data[30:-4]`)
and decodes the rest. -/
theorem v1_block_roundtrip (data : List Nat) :
    dec ((ramBlockV1 data).take ((ramBlockV1 data).length - 4)) = .ok data := by
  simp [ramBlockV1, rle_roundtrip]

/-- The decoder's error branches are unreachable on encoder output. -/
theorem enc_never_rejected (data : List Nat) (e : DecErr) : dec (enc data) ≠ .error e := by
  rw [rle_roundtrip]; simp

-- non-vacuity / sanity: concrete encodings taken from the real encoder
example : enc [237, 237, 5] = [237, 237, 2, 237, 5] := by decide
example : enc [237, 0, 0, 0, 0, 0, 0] = [237, 0, 237, 237, 5, 0] := by decide
example : enc [1, 1, 1, 1, 237] = [1, 1, 1, 1, 237] := by decide
example : dec [237, 237, 0, 1] = .error .zeroRun := by simp [dec]
example : dec [237, 237, 3] = .error .truncated := by simp [dec]

end C09
