import SkoolVerif.Proofs.Z80RleLemmas
import SkoolVerif.Proofs.SnapHeaderLemmas
import SkoolVerif.Proofs.SnapBankLemmas
/-!
C09 — snapshot round trips and snapshot editing.  Property theorems only; helper lemmas live in
`SkoolVerif/Proofs/`.  Hand models, each tied to /repo by the correspondence check
`harness/props/c09.py` on every run:

* `Model/Z80Rle.lean`   — `Z80._make_z80_ram_block` / `Z80._decompress` / the page loop of `Z80._read`
  / the page writer of `Z80.data`;
* `Model/SnapHeader.lean` — header fields whose encoding is not the identity (T-states of both
  formats, 16-bit words, R bit 7 + border in byte 12, IM + issue 2 in byte 29);
* `Model/SnapEdit.lean` — `poke`, `move`, `patch`, `_get_page` on a flat list and on a `Memory`.
-/
namespace C09

/-! ## The Z80 run-length coder -/
section Rle
open Z80Rle

/-- The Z80 run-length decoder inverts the encoder for **every** byte string
(no bound on length; in fact for every list of naturals). -/
theorem rle_roundtrip (data : List Nat) : dec (enc data) = .ok data := by
  have := inv_fold data encInit [] inv_init
  simpa [enc] using flush_dec _ _ this

/-- The encoder never more than doubles the data. -/
theorem rle_length_le (data : List Nat) : (enc data).length ≤ 2 * data.length := by
  have := len_fold data encInit 0 ⟨by simp [encInit], by simp [encInit]⟩
  simpa [enc] using flush_len _ _ this

/-- Hence a 16K page never produces the length 0xFFFF that the reader takes
to mean "uncompressed", and the two-byte length field never overflows. -/
theorem page_length_field_ok (data : List Nat) (h : data.length = 16384) :
    (enc data).length < 65535 := by
  have := rle_length_le data; omega

/-- Version 2/3 page block: the three-byte header carries the exact length of
the body and the body decodes to the page. -/
theorem page_block_roundtrip (data : List Nat) (page : Nat) (h : data.length = 16384) :
    ∃ body, ramBlockPage data page = [body.length % 256, body.length / 256, page] ++ body ∧
      body.length % 256 + 256 * (body.length / 256) = body.length ∧
      body.length ≠ 65535 ∧ dec body = .ok data := by
  refine ⟨enc data, rfl, by omega, ?_, rle_roundtrip data⟩
  have := page_length_field_ok data h; omega

/-- Version 1 block: the reader strips the 4-byte end marker (`data[30:-4]`)
and decodes the rest. -/
theorem v1_block_roundtrip (data : List Nat) :
    dec ((ramBlockV1 data).take ((ramBlockV1 data).length - 4)) = .ok data := by
  simp [ramBlockV1, rle_roundtrip]

/-- The decoder's error branches are unreachable on encoder output. -/
theorem enc_never_rejected (data : List Nat) (e : DecErr) : dec (enc data) ≠ .error e := by
  rw [rle_roundtrip]; simp

-- non-vacuity / sanity: concrete encodings taken from the real encoder
example : enc [237, 237, 5] = [237, 237, 2, 237, 5] := by decide
example : enc [237, 0, 0, 0, 0, 0, 0] = [237, 0, 237, 237, 5, 0] := by decide
example : enc [1, 1, 1, 1, 237] = [1, 1, 1, 1, 237] := by decide
example : dec [237, 237, 0, 1] = .error .zeroRun := by simp [dec]
example : dec [237, 237, 3] = .error .truncated := by simp [dec]

end Rle

/-! ## The version 2/3 page-block stream -/
section Pages
open Z80Rle

/-- One block followed by anything: the reader loop peels off exactly the block. -/
theorem read_one_block (d : List Nat) (page : Nat) (rest : List Nat) (hd : d.length = 16384) :
    readPages (ramBlockPage d page ++ rest) = pageCons ((page : Int) - 3, d) (readPages rest) := by
  have hlen := page_length_field_ok d hd
  have hfield : (enc d).length % 256 + 256 * ((enc d).length / 256) = (enc d).length := by omega
  have hcons : ramBlockPage d page ++ rest
      = (enc d).length % 256 :: (enc d).length / 256 :: page :: (enc d ++ rest) := by
    simp [ramBlockPage]
  rw [hcons, readPages]
  simp only [hfield]
  have hne : (enc d).length ≠ 65535 := by omega
  simp only [hne, if_false, List.take_left' rfl, List.drop_left' rfl, rle_roundtrip d, hd, ne_eq,
    not_true_eq_false, if_false]

/-- Parsing the concatenation of the page blocks of any list of (page number, 16K page) pairs
returns the pages in order, each under bank number `page - 3`. -/
theorem pages_stream_roundtrip : ∀ (ps : List (Nat × List Nat)), (∀ p ∈ ps, p.2.length = 16384) →
    readPages (ps.flatMap (fun p => ramBlockPage p.2 p.1)) = .ok (ps.map (fun p => ((p.1 : Int) - 3, p.2)))
  | [], _ => by simp [readPages]
  | p :: ps, h => by
    rw [List.flatMap_cons, read_one_block p.2 p.1 _ (h p List.mem_cons_self),
      pages_stream_roundtrip ps (fun q hq => h q (List.mem_cons_of_mem _ hq))]
    simp [pageCons]

/-- the banks `Z80.data()` writes, as the reader's assignments -/
def presentBanks : List (Option (List Nat)) → Nat → List (Int × List Nat)
  | [], _ => []
  | none :: bs, page => presentBanks bs (page + 1)
  | some d :: bs, page =>
    if d = [] then presentBanks bs (page + 1) else ((page : Int) - 3, d) :: presentBanks bs (page + 1)

/-- `Z80.data()` then `Z80._read`: every present bank comes back under its own index, in order
(`banks[k]` is written as page `k + 3`; `first = 3` gives bank numbers `0, 1, 2, …`). -/
theorem banks_write_read : ∀ (banks : List (Option (List Nat))) (first : Nat),
    (∀ d, some d ∈ banks → d = [] ∨ d.length = 16384) →
    readPages (writePages banks first) = .ok (presentBanks banks first)
  | [], _, _ => by simp [writePages, presentBanks, readPages]
  | none :: bs, first, h => by
    simp only [writePages, presentBanks]
    exact banks_write_read bs (first + 1) (fun d hd => h d (List.mem_cons_of_mem _ hd))
  | some d :: bs, first, h => by
    have ih := banks_write_read bs (first + 1) (fun d hd => h d (List.mem_cons_of_mem _ hd))
    simp only [writePages, presentBanks]
    split
    · exact ih
    · rename_i hne
      have hd : d.length = 16384 := by
        rcases h d List.mem_cons_self with h' | h'
        · exact absurd h' hne
        · exact h'
      rw [read_one_block d first _ hd, ih]; rfl

example : presentBanks [some [1], none, some [], some [2]] 3 = [(0, [1]), (3, [2])] := by decide

end Pages

/-! ## Header fields whose encoding is not the identity

Model: `SkoolVerif/Model/SnapHeader.lean` (tied to `Z80._set_registers/_set_state/_read` and
`SZX._add_zxstz80regs/_read` by the correspondence check). -/
section Header
open SnapHeader PyInt

/-- Z80 v3 T-states (three bytes, quarter-frame countdown): written then read gives the frame
position, for every integer clock value, on both frame durations. -/
theorem z80_tstates_roundtrip (t : Int) :
    z80ReadT 69888 (z80WriteT 69888 t) = t % 69888 ∧ z80ReadT 70908 (z80WriteT 70908 t) = t % 70908 :=
  ⟨z80_t_48 t, z80_t_128 t⟩

/-- The three bytes written are bytes (the third one in 0..3). -/
theorem z80_tstates_bytes (frame t : Int) (hf : frame = 69888 ∨ frame = 70908) :
    let b := z80WriteT frame t
    (0 ≤ b.1 ∧ b.1 < 256) ∧ (0 ≤ b.2.1 ∧ b.2.1 < 256) ∧ (0 ≤ b.2.2 ∧ b.2.2 < 4) :=
  z80_t_bytes frame t hf

/-- SZX `dwCyclesStart` (fourth byte left 0): written then read gives the frame position. -/
theorem szx_tstates_roundtrip (frame t : Int) (hf : frame = 69888 ∨ frame = 70908) :
    szxReadT4 ((szxWriteT frame t).1, (szxWriteT frame t).2.1, (szxWriteT frame t).2.2, 0) = t % frame := by
  rw [szx_t4]; exact szx_t frame t hf

/-- The same clock written in the two formats reads back identically. -/
theorem formats_agree_tstates (t : Int) :
    z80ReadT 69888 (z80WriteT 69888 t) = szxReadT (szxWriteT 69888 t) ∧
    z80ReadT 70908 (z80WriteT 70908 t) = szxReadT (szxWriteT 70908 t) := by
  rw [z80_t_48, z80_t_128, szx_t 69888 t (.inl rfl), szx_t 70908 t (.inr rfl)]
  exact ⟨rfl, rfl⟩

/-- 16-bit registers: every value in range survives; any integer is stored modulo 65536; and the
Z80 writer (`(value & 65535) // 256`) and the SZX writer (`(value // 256) % 256`) store the same two
bytes for every integer, negative ones included. -/
theorem word_roundtrip (v : Int) :
    (0 ≤ v ∧ v < 65536 → readWord (writeWord v) = v) ∧ readWord (writeWord v) = v % 65536 ∧
    writeWord v = szxWriteWord v :=
  ⟨word v, word_mod v, word_writers_agree v⟩

/-- Byte 12 of the Z80 header holds bit 7 of R (bit 0), the border (bits 1-3) and the compression
flag (bit 5).  Setting R: R reads back (with its bit 7), border and flag are untouched.  Setting the
border: it reads back, R's bit 7 and the flag are untouched.  For every byte value. -/
theorem r_and_border_share_byte12 (h12 : Nat) (hh : h12 < 256) :
    (∀ r : Nat, r < 256 →
      readR (writeR h12 r).1 (writeR h12 r).2 = r ∧ readBorder (writeR h12 r).2 = readBorder h12 ∧
      land (writeR h12 r).2 32 = land h12 32 ∧ 0 ≤ (writeR h12 r).2 ∧ (writeR h12 r).2 < 256) ∧
    (∀ c : Nat, c < 8 →
      readBorder (writeBorder h12 c) = c ∧ (writeBorder h12 c) % 2 = (h12 : Int) % 2 ∧
      land (writeBorder h12 c) 32 = land h12 32 ∧ 0 ≤ writeBorder h12 c ∧ writeBorder h12 c < 256) := by
  constructor
  · intro r hr
    have := allLt_spec (allLt_spec r_all h12 hh) r hr
    simp only [Bool.and_eq_true, decide_eq_true_eq] at this
    exact ⟨this.1.1.1, this.1.1.2, this.1.2, this.2.1, this.2.2⟩
  · intro c hc
    have := allLt_spec (allLt_spec border_all h12 hh) c hc
    simp only [Bool.and_eq_true, decide_eq_true_eq] at this
    exact ⟨this.1.1.1, this.1.1.2, this.1.2, this.2.1, this.2.2⟩

/-- Byte 29 holds the interrupt mode (bits 0-1) and the issue-2 flag (bit 2): each setter stores its
value's low bits and leaves the other field and bits 3-7 alone. -/
theorem im_and_issue2_share_byte29 (h29 v : Nat) (hh : h29 < 256) (hv : v < 8) :
    (readIm (writeIm h29 v) = (v : Int) % 4 ∧ readIssue2 (writeIm h29 v) = readIssue2 h29 ∧
      writeIm h29 v / 8 = (h29 : Int) / 8) ∧
    (readIssue2 (writeIssue2 h29 v) = (v : Int) % 2 ∧ readIm (writeIssue2 h29 v) = readIm h29 ∧
      writeIssue2 h29 v / 8 = (h29 : Int) / 8) := by
  have h1 := allLt_spec (allLt_spec im_all h29 hh) v hv
  have h2 := allLt_spec (allLt_spec issue2_all h29 hh) v hv
  simp only [Bool.and_eq_true, decide_eq_true_eq] at h1 h2
  exact ⟨⟨h1.1.1.1, h1.1.1.2, h1.1.2⟩, ⟨h2.1.1.1, h2.1.1.2, h2.1.2⟩⟩

-- concrete values taken from real files
example : z80WriteT 69888 34943 = (0, 0, 0) := by decide
example : z80WriteT 69888 0 = (63, 68, 3) := by decide
example : z80ReadT 69888 (63, 68, 3) = 0 := by decide
example : writeR 0 200 = (200, 1) := by decide
example : writeBorder 255 0 = 241 := by decide

end Header

/-! ## poke / move / patch: exactly the named cells change

Model: `SkoolVerif/Model/SnapEdit.lean`.  (a) a flat Python list (no `banks` attribute),
(b) a `Memory` (banks + four 16K windows).  Observation on a `Memory`: `m.cell o j` (cell `j` of
list object `o`, `none` = no such cell) and `m.at a` (content of flat address `a`). -/
section Edit
open SnapEdit

/-- POKE on a list: the list keeps its length; exactly the cells `a, a+c, a+2c, … ≤ b` change, each
by the stated operator; nothing is poked twice. -/
theorem poke_frame_flat (l l' : List Nat) (s : PokeSpec) (hp : s.page = none)
    (h : pokeFlat l s = .ok l') :
    l'.length = l.length ∧ 0 < s.step ∧
    ∀ j, l'[j]? = if InRange s.addr1 s.addr2 s.step j then (l[j]?).map (pokeF s.op s.value) else l[j]? := by
  simp only [pokeFlat, hp] at h
  split at h
  · cases h
  · rename_i hs
    have hs : 0 < s.step := by omega
    obtain ⟨h1, h2⟩ := pokeList_nodup _ l l' (pyRange_nodup _ _ _ hs) h
    refine ⟨h1, hs, fun j => ?_⟩
    rw [h2 j]
    simp only [mem_pokeRange hs]

/-- POKE on a list raises exactly when the step is 0 (`ValueError`) or a named address is outside
the list (`IndexError`). -/
theorem poke_flat_raises_iff (l : List Nat) (s : PokeSpec) (hp : s.page = none) :
    (∃ e, pokeFlat l s = .error e) ↔
      s.step = 0 ∨ ∃ j, InRange s.addr1 s.addr2 s.step j ∧ l.length ≤ j := by
  simp only [pokeFlat, hp]
  by_cases hs : s.step = 0
  · simp [hs]
  · have hs' : 0 < s.step := by omega
    simp only [hs, if_false, false_or, pokeList_error]
    constructor
    · rintro ⟨i, hi, hl⟩; exact ⟨i, (mem_pokeRange hs').1 hi, hl⟩
    · rintro ⟨i, hi, hl⟩; exact ⟨i, (mem_pokeRange hs').2 hi, hl⟩

/-- On an object without `banks` (a list) every bank-prefixed spec is ignored. -/
theorem paged_specs_ignored_on_list (l : List Nat) (p : Nat) :
    (∀ s : PokeSpec, s.page = some p → pokeFlat l s = .ok l) ∧
    (∀ s : MoveSpec, s.srcPage = some p → moveFlat l s = l) ∧
    (∀ (s : PatchSpec) data, s.page = some p → patchFlat l s data = l) := by
  refine ⟨fun s h => ?_, fun s h => ?_, fun s data h => ?_⟩ <;> simp [pokeFlat, moveFlat, patchFlat, h]

/-- MOVE on a list, both ranges inside the list: the destination range receives the OLD source range
(overlapping ranges included), every other cell and the length are unchanged. -/
theorem move_frame_flat (l : List Nat) (s : MoveSpec) (hp : s.srcPage = none)
    (hsrc : s.src + s.length ≤ l.length) (hdst : s.dest + s.length ≤ l.length) :
    (moveFlat l s).length = l.length ∧
    ∀ j, (moveFlat l s)[j]? =
      if s.dest ≤ j ∧ j < s.dest + s.length then l[s.src + (j - s.dest)]? else l[j]? := by
  simp only [moveFlat, hp]
  have hv : (pySlice l s.src (s.src + s.length)).length = s.length := by rw [pySlice_length]; omega
  obtain ⟨h1, h2⟩ := pySliceSet_inRange l s.dest s.length _ hv hdst
  refine ⟨h1, fun j => ?_⟩
  rw [h2 j]
  by_cases hj : s.dest ≤ j ∧ j < s.dest + s.length
  · have : s.src + (j - s.dest) < s.src + s.length := by omega
    simp [hj, pySlice_getElem?, this]
  · simp [hj]

/-- MOVE on a list in general is Python slice assignment: the list is *resized* when a range runs
past the end (exact length). -/
theorem move_flat_length (l : List Nat) (s : MoveSpec) (hp : s.srcPage = none) :
    (moveFlat l s).length =
      min s.dest l.length + (min (s.src + s.length) l.length - s.src) + (l.length - (s.dest + s.length)) := by
  simp only [moveFlat, hp, pySliceSet_length, pySlice_length]
  have : max s.dest (s.dest + s.length) = s.dest + s.length := by omega
  rw [this]

/-- PATCH on a list inside the list: exactly the cells `a … a+len-1` receive the file's bytes. -/
theorem patch_frame_flat (l : List Nat) (s : PatchSpec) (data : List Nat) (hp : s.page = none)
    (hlen : data.length ≤ 49152) (hin : s.addr + data.length ≤ l.length) :
    (patchFlat l s data).length = l.length ∧
    ∀ j, (patchFlat l s data)[j]? =
      if s.addr ≤ j ∧ j < s.addr + data.length then data[j - s.addr]? else l[j]? := by
  have ht : data.take 49152 = data := List.take_of_length_le hlen
  simp only [patchFlat, hp, ht]
  exact pySliceSet_inRange l s.addr data.length data rfl hin

/-- At most 49152 bytes of a patch file are used. -/
theorem patch_reads_48k (l : List Nat) (m : Mem) (s : PatchSpec) (data : List Nat) :
    patchFlat l s data = patchFlat l s (data.take 49152) ∧
    patchMem m s data = patchMem m s (data.take 49152) := by
  simp [patchFlat, patchMem, List.take_take]

/-! ### (b) Memory, bank-prefixed specs -/

/-- POKE `p:a-b-c,v` on a `Memory`: only list object `banks[p % 8]` changes; cell `j` of it is poked
once for every named address `N` with `N % 16384 = j`; every other bank, the ROM scratch window and
the window map are unchanged. -/
theorem poke_frame_bank (m m' : Mem) (s : PokeSpec) (p : Nat) (hp : s.page = some p)
    (h : pokeMem m s = .ok m') :
    (∀ a, m'.loc a = m.loc a) ∧ m'.banks.length = m.banks.length ∧
    ∀ o j, m'.cell o j =
      if o = .bank (p % 8) then
        (m.cell o j).map (iter (pokeF s.op s.value)
          (((pyRange s.addr1 (s.addr2 + 1) s.step).map (· % 0x4000)).count j))
      else m.cell o j := by
  simp only [pokeMem, hp] at h
  have triv : (∀ a, m.loc a = m.loc a) ∧ m.banks.length = m.banks.length ∧
      ∀ o j, m.cell o j = if o = .bank (p % 8) then
        (m.cell o j).map (iter (pokeF s.op s.value) 0) else m.cell o j := by
    refine ⟨fun _ => rfl, rfl, fun o j => ?_⟩
    cases m.cell o j <;> simp [iter]
  split at h
  · cases h
  · -- `if bank:` with bank = None
    rename_i hb
    cases h
    refine ⟨fun _ => rfl, rfl, fun o j => ?_⟩
    by_cases ho : o = .bank (p % 8)
    · subst ho; simp [Mem.cell, Mem.obj, hb]
    · simp [ho]
  · rename_i bank hb
    split at h
    · -- `if bank:` with an empty list
      rename_i he
      cases h
      refine ⟨fun _ => rfl, rfl, fun o j => ?_⟩
      by_cases ho : o = .bank (p % 8)
      · subst ho; simp [Mem.cell, Mem.obj, hb, he]
      · simp [ho]
    · split at h
      · cases h
      · split at h
        · cases h
        · rename_i bank' hpk
          cases h
          have hobj : m.obj (.bank (p % 8)) = some bank := (obj_bank m _ _).2 hb
          obtain ⟨_, _, h3⟩ := pokeList_ok _ bank bank' hpk
          refine ⟨fun a => loc_setObj _ _ _ _, banks_length_setObj _ _ _, fun o j => ?_⟩
          rw [cell_setObj m _ bank bank' hobj]
          by_cases ho : o = .bank (p % 8)
          · subst ho; simp [h3 j, Mem.cell, hobj]
          · simp [ho]

/-- When the range is shorter than a bank (`b < a + 16384`) no cell is poked twice: exactly the cells
`N % 16384` of bank `p % 8` change, each by the stated operator. -/
theorem poke_frame_bank_once (m m' : Mem) (s : PokeSpec) (p : Nat) (hp : s.page = some p)
    (hs : 0 < s.step) (hspan : s.addr2 < s.addr1 + 0x4000) (h : pokeMem m s = .ok m') (o : Obj) (j : Nat) :
    ((o = .bank (p % 8) ∧ ∃ x, InRange s.addr1 s.addr2 s.step x ∧ x % 0x4000 = j) →
      m'.cell o j = (m.cell o j).map (pokeF s.op s.value)) ∧
    (¬ (o = .bank (p % 8) ∧ ∃ x, InRange s.addr1 s.addr2 s.step x ∧ x % 0x4000 = j) →
      m'.cell o j = m.cell o j) := by
  rw [(poke_frame_bank m m' s p hp h).2.2 o j, (pokeRange_mod_nodup _ _ _ hs hspan).count]
  have hmem := @mem_map_mod s.addr1 s.addr2 s.step j hs
  by_cases ho : o = .bank (p % 8)
  · by_cases hx : j ∈ (pyRange s.addr1 (s.addr2 + 1) s.step).map (· % 0x4000)
    · have hx' := hmem.1 hx
      simp only [ho, hx, hx', if_true, and_self, not_true, false_imp_iff, and_true, true_imp_iff]
      cases m.cell (.bank (p % 8)) j <;> simp [iter]
    · have hx' : ¬ ∃ x, InRange s.addr1 s.addr2 s.step x ∧ x % 0x4000 = j := fun h' => hx (hmem.2 h')
      simp only [ho, hx, hx', if_true, if_false, and_false, not_false_iff, false_imp_iff, true_and, true_imp_iff]
      cases m.cell (.bank (p % 8)) j <;> simp [iter]
  · simp [ho]

/-- MOVE `s:src,n,d:dest` on a `Memory` with 16K banks: the block is cut at the end of either bank
(`moveLen`); cells `dest%16384 …` of `banks[d % 8]` receive the OLD cells `src%16384 …` of
`banks[s % 8]` (same bank and overlapping ranges included); every other cell of every bank, the ROM
window and the window map are unchanged, and the destination bank stays 16K long.
`s.destPage` is the page after defaulting (see `move_default_dest_bank`). -/
theorem move_frame_bank (m m' : Mem) (s : MoveSpec) (sp dp : Nat) (sb db : List Nat)
    (hsp : s.srcPage = some sp) (hdp : s.destPage = some dp)
    (hsb : m.banks[sp % 8]? = some (some sb)) (hdb : m.banks[dp % 8]? = some (some db))
    (hsl : sb.length = 0x4000) (hdl : db.length = 0x4000)
    (h : moveMem m s = .ok m') :
    (∀ a, m'.loc a = m.loc a) ∧ m'.banks.length = m.banks.length ∧
    (∃ db', m'.obj (.bank (dp % 8)) = some db' ∧ db'.length = 0x4000) ∧
    ∀ o j, m'.cell o j =
      if o = .bank (dp % 8) ∧ s.dest % 0x4000 ≤ j ∧ j < s.dest % 0x4000 + moveLen s then
        sb[s.src % 0x4000 + (j - s.dest % 0x4000)]?
      else m.cell o j := by
  have hne1 : sb ≠ [] := by intro h'; rw [h'] at hsl; cases hsl
  have hne2 : db ≠ [] := by intro h'; rw [h'] at hdl; cases hdl
  simp only [moveMem, hsp, hdp, hsb, hdb, hne1, hne2, or_self, if_false, Except.ok.injEq] at h
  subst h
  have hobj : m.obj (.bank (dp % 8)) = some db := (obj_bank m _ _).2 hdb
  have hs0 : s.src % 0x4000 < 0x4000 := Nat.mod_lt _ (by decide)
  have hd0 : s.dest % 0x4000 < 0x4000 := Nat.mod_lt _ (by decide)
  have hn1 : s.src % 0x4000 + moveLen s ≤ sb.length := by unfold moveLen; omega
  have hn2 : s.dest % 0x4000 + moveLen s ≤ db.length := by unfold moveLen; omega
  have hv : (pySlice sb (s.src % 0x4000) (s.src % 0x4000 + moveLen s)).length = moveLen s := by
    rw [pySlice_length]; omega
  obtain ⟨h1, h2⟩ := pySliceSet_inRange db (s.dest % 0x4000) (moveLen s) _ hv hn2
  refine ⟨fun a => loc_setObj _ _ _ _, banks_length_setObj _ _ _,
    ⟨_, obj_setObj_same m _ db _ hobj, by rw [h1, hdl]⟩, fun o j => ?_⟩
  rw [cell_setObj m _ db _ hobj]
  by_cases ho : o = .bank (dp % 8)
  · subst ho
    rw [h2 j]
    by_cases hj : s.dest % 0x4000 ≤ j ∧ j < s.dest % 0x4000 + moveLen s
    · have : s.src % 0x4000 + (j - s.dest % 0x4000) < s.src % 0x4000 + moveLen s := by omega
      simp [hj, pySlice_getElem?, this]
    · simp [hj, Mem.cell, hobj]
  · simp [ho]

/-- The whole block is copied exactly when both ranges lie inside their banks. -/
theorem moveLen_full (s : MoveSpec) :
    moveLen s = s.length ↔ s.src % 0x4000 + s.length ≤ 0x4000 ∧ s.dest % 0x4000 + s.length ≤ 0x4000 := by
  have hs0 : s.src % 0x4000 < 0x4000 := Nat.mod_lt _ (by decide)
  have hd0 : s.dest % 0x4000 < 0x4000 := Nat.mod_lt _ (by decide)
  unfold moveLen; omega

/-- `if src_bank and dest_bank:` — a MOVE that names an absent (48K) or empty bank does nothing. -/
theorem move_bank_absent_noop (m : Mem) (s : MoveSpec) (sp dp : Nat)
    (hsp : s.srcPage = some sp) (hdp : s.destPage = some dp)
    (hlen : 8 ≤ m.banks.length)
    (habs : m.banks[sp % 8]? = some none ∨ m.banks[dp % 8]? = some none) :
    moveMem m s = .ok m := by
  have h1 : sp % 8 < m.banks.length := by omega
  have h2 : dp % 8 < m.banks.length := by omega
  simp only [moveMem, hsp, hdp, List.getElem?_eq_getElem h1, List.getElem?_eq_getElem h2]
  rw [List.getElem?_eq_getElem h1, List.getElem?_eq_getElem h2] at habs
  rcases habs with habs | habs
  · have : m.banks[sp % 8] = none := by simpa using habs
    rw [this]
  · have : m.banks[dp % 8] = none := by simpa using habs
    rw [this]; cases m.banks[sp % 8] <;> rfl

/-- A `Memory` built from a flat 64K image (bin2sna without `--page`: `banks = [None]*8`) ignores
bank-prefixed POKEs and MOVEs, exactly like a 48K snapshot ("128K only"). -/
theorem paged_specs_ignored_without_banks (rom w1 w2 w3 : List Nat) (p : Nat) :
    (∀ s : PokeSpec, s.page = some p → pokeMem (Mem.ofFlat rom w1 w2 w3) s = .ok (Mem.ofFlat rom w1 w2 w3)) ∧
    (∀ (s : MoveSpec) (dp : Nat), s.srcPage = some p → s.destPage = some dp →
      moveMem (Mem.ofFlat rom w1 w2 w3) s = .ok (Mem.ofFlat rom w1 w2 w3)) := by
  have hb : ∀ q : Nat, (Mem.ofFlat rom w1 w2 w3).banks[q % 8]? = some none := by
    intro q
    have hq : q % 8 < 8 := Nat.mod_lt _ (by decide)
    simp only [Mem.ofFlat]
    rw [List.getElem?_append_left (by simpa using hq), List.getElem?_replicate, if_pos hq]
  constructor
  · intro s hs
    simp only [pokeMem, hs, hb p]
  · intro s dp hs hd
    exact move_bank_absent_noop _ s p dp hs hd (by simp [Mem.ofFlat]) (.inl (hb p))

/-- PATCH `p:a,file` on a `Memory`: `min(16384 - a%16384, len)` bytes of the file land at offset
`a % 16384` of `banks[p % 8]` and nowhere else; a 16K bank keeps its length (the patch is cut at
the end of the bank). -/
theorem patch_frame_bank (m m' : Mem) (s : PatchSpec) (data : List Nat) (p : Nat) (bank : List Nat)
    (hp : s.page = some p) (hb : m.banks[p % 8]? = some (some bank)) (hbl : bank.length = 0x4000)
    (hlen : data.length ≤ 49152) (h : patchMem m s data = .ok m') :
    (∀ a, m'.loc a = m.loc a) ∧ m'.banks.length = m.banks.length ∧
    (∃ bank', m'.obj (.bank (p % 8)) = some bank' ∧ bank'.length = 0x4000) ∧
    ∀ o j, m'.cell o j =
      if o = .bank (p % 8) ∧ s.addr % 0x4000 ≤ j ∧ j < s.addr % 0x4000 + data.length ∧ j < 0x4000 then
        data[j - s.addr % 0x4000]?
      else m.cell o j := by
  have ht : data.take 49152 = data := List.take_of_length_le hlen
  simp only [patchMem, hp, hb, ht, Except.ok.injEq] at h
  subst h
  have hobj : m.obj (.bank (p % 8)) = some bank := (obj_bank m _ _).2 hb
  have hd : s.addr % 0x4000 < 0x4000 := Nat.mod_lt _ (by decide)
  have hv : (data.take (min (0x4000 - s.addr % 0x4000) data.length)).length
      = min (0x4000 - s.addr % 0x4000) data.length := by rw [List.length_take]; omega
  obtain ⟨h1, h2⟩ := pySliceSet_inRange bank (s.addr % 0x4000) _ _ hv (by omega)
  refine ⟨fun a => loc_setObj _ _ _ _, banks_length_setObj _ _ _,
    ⟨_, obj_setObj_same m _ bank _ hobj, by rw [h1, hbl]⟩, fun o j => ?_⟩
  rw [cell_setObj m _ bank _ hobj]
  by_cases ho : o = .bank (p % 8)
  · subst ho
    rw [h2 j]
    by_cases hj : s.addr % 0x4000 ≤ j ∧ j < s.addr % 0x4000 + data.length ∧ j < 0x4000
    · have h' : s.addr % 0x4000 ≤ j ∧ j < s.addr % 0x4000 + min (0x4000 - s.addr % 0x4000) data.length := by omega
      have h'' : j - s.addr % 0x4000 < min (0x4000 - s.addr % 0x4000) data.length := by omega
      simp [hj, h', h'']
    · have h' : ¬ (s.addr % 0x4000 ≤ j ∧ j < s.addr % 0x4000 + min (0x4000 - s.addr % 0x4000) data.length) := by omega
      simp [hj, h', Mem.cell, hobj]
  · simp [ho]

/-- PATCH has no `if bank:` guard: naming an absent bank (48K snapshot) raises TypeError. -/
theorem patch_bank_absent_raises (m : Mem) (s : PatchSpec) (data : List Nat) (p : Nat)
    (hp : s.page = some p) (hb : m.banks[p % 8]? = some none) :
    patchMem m s data = .error .type := by
  simp [patchMem, hp, hb]

end Edit

/-! ### (b) Memory, specs without a bank prefix (through the four 16K windows) -/
section EditWindows
open SnapEdit

/-- POKE without bank prefix on a `Memory`, general form: every list cell is poked once per named
address that maps to it (windows may alias: bank 2 or 5 paged in at 0xC000); cells that no named
address maps to, in any bank, are unchanged. -/
theorem poke_frame_mem (m m' : Mem) (s : PokeSpec) (hp : s.page = none) (h : pokeMem m s = .ok m') :
    0 < s.step ∧ (∀ a, m'.loc a = m.loc a) ∧ m'.banks.length = m.banks.length ∧
    ∀ o j, m'.cell o j = (m.cell o j).map (iter (pokeF s.op s.value)
      (((pyRange s.addr1 (s.addr2 + 1) s.step).map m.loc).count (some (o, j)))) := by
  simp only [pokeMem, hp] at h
  split at h
  · cases h
  · rename_i hs
    exact ⟨by omega, pokeAll_ok _ m m' h⟩

/-- With three different banks in the three RAM windows and the range inside 64K: exactly the named
addresses change, each once, by the stated operator — and no cell outside the windows changes. -/
theorem poke_frame_mem_once (m m' : Mem) (s : PokeSpec) (hp : s.page = none) (hi : m.LocInj)
    (hr : s.addr2 < 0x10000) (h : pokeMem m s = .ok m') :
    (∀ a, a < 0x10000 → m'.at a =
      if InRange s.addr1 s.addr2 s.step a then (m.at a).map (pokeF s.op s.value) else m.at a) ∧
    (∀ o j, (∀ x, m.loc x ≠ some (o, j)) → m'.cell o j = m.cell o j) := by
  obtain ⟨hs, hloc, _, hcell⟩ := poke_frame_mem m m' s hp h
  have hnd : ((pyRange s.addr1 (s.addr2 + 1) s.step).map m.loc).Nodup := by
    rw [List.Nodup, List.pairwise_map]
    refine List.Pairwise.imp_of_mem ?_ (pyRange_nodup _ _ _ hs)
    intro x y hx hy hne h'
    rw [mem_pokeRange hs] at hx hy
    exact hne (loc_inj m hi x y (by have := hx.2.1; omega) (by have := hy.2.1; omega) h')
  constructor
  · intro a ha
    obtain ⟨o, ho⟩ := loc_lt m a ha
    simp only [Mem.at, hloc a, ho, hcell o, hnd.count]
    have hmem : some (o, a % 0x4000) ∈ (pyRange s.addr1 (s.addr2 + 1) s.step).map m.loc ↔
        InRange s.addr1 s.addr2 s.step a := by
      rw [List.mem_map]
      constructor
      · rintro ⟨x, hx, hx'⟩
        have hxr := (mem_pokeRange hs).1 hx
        have : x = a := loc_inj m hi x a (by have := hxr.2.1; omega) ha (by rw [hx', ho])
        rw [← this]; exact hxr
      · intro hin; exact ⟨a, (mem_pokeRange hs).2 hin, ho⟩
    by_cases hin : InRange s.addr1 s.addr2 s.step a
    · simp only [hmem.2 hin, hin, if_true]; cases m.cell o (a % 0x4000) <;> simp [iter]
    · have : ¬ some (o, a % 0x4000) ∈ (pyRange s.addr1 (s.addr2 + 1) s.step).map m.loc := fun h' => hin (hmem.1 h')
      simp only [this, hin, if_false]; cases m.cell o (a % 0x4000) <;> simp [iter]
  · intro o j hno
    rw [hcell o j]
    have : ((pyRange s.addr1 (s.addr2 + 1) s.step).map m.loc).count (some (o, j)) = 0 := by
      rw [List.count_eq_zero, List.mem_map]
      rintro ⟨x, _, hx⟩; exact hno x hx
    rw [this]; cases m.cell o j <;> simp [iter]

/-- MOVE without bank prefix on a `Memory` (three different banks in the windows, both ranges inside
64K): the destination addresses receive the OLD contents of the source addresses (overlap included),
every other address and every cell outside the windows are unchanged. -/
theorem move_frame_mem (m m' : Mem) (s : MoveSpec) (hp : s.srcPage = none) (hi : m.LocInj)
    (hsrc : s.src + s.length ≤ 0x10000) (hdst : s.dest + s.length ≤ 0x10000)
    (h : moveMem m s = .ok m') :
    (∀ a, m'.loc a = m.loc a) ∧
    (∀ a, a < 0x10000 → m'.at a =
      if s.dest ≤ a ∧ a < s.dest + s.length then m.at (s.src + (a - s.dest)) else m.at a) ∧
    (∀ o j, (∀ x, m.loc x ≠ some (o, j)) → m'.cell o j = m.cell o j) := by
  simp only [moveMem, hp, Mem.getSlice, Mem.setSlice] at h
  have hmin : min (s.src + s.length) 0x10000 = s.src + s.length := by omega
  rw [hmin] at h
  cases hg : m.getAll (upto s.src (s.src + s.length)) with
  | error e => simp [hg] at h
  | ok vals =>
    simp only [hg] at h
    obtain ⟨hvl, hvals⟩ := getAll_ok m _ vals hg
    rw [upto_length] at hvl
    obtain ⟨hloc, _, hcell⟩ := setAll_ok _ vals m m' h
    have hnd := upto_map_loc_nodup m hi s.dest s.length hdst
    refine ⟨hloc, fun a ha => ?_, fun o j hno => ?_⟩
    · obtain ⟨o, ho⟩ := loc_lt m a ha
      simp only [Mem.at, hloc a, ho, hcell o]
      by_cases hin : s.dest ≤ a ∧ a < s.dest + s.length
      · have hk : a - s.dest < (upto s.dest (s.dest + s.length)).length := by rw [upto_length]; omega
        have hget : (upto s.dest (s.dest + s.length))[a - s.dest] = a := by
          have := upto_getElem? s.dest (s.dest + s.length) (a - s.dest)
          rw [List.getElem?_eq_getElem hk] at this
          have hlt : a - s.dest < s.dest + s.length - s.dest := by omega
          simp only [hlt, if_true, Option.some.injEq] at this
          omega
        rw [lastWrite_at m.loc _ _ vals _ (a - s.dest) hk hnd (by omega) (by rw [hget, ho])]
        have hk2 : a - s.dest < (upto s.src (s.src + s.length)).length := by rw [upto_length]; omega
        have hget2 : (upto s.src (s.src + s.length))[a - s.dest] = s.src + (a - s.dest) := by
          have := upto_getElem? s.src (s.src + s.length) (a - s.dest)
          rw [List.getElem?_eq_getElem hk2] at this
          have hlt : a - s.dest < s.src + s.length - s.src := by omega
          simp only [hlt, if_true, Option.some.injEq] at this
          exact this
        have := hvals (a - s.dest) hk2
        rw [hget2] at this
        simp only [hin, and_self, if_true, ← this, Mem.at]
      · rw [lastWrite_not_target]
        · simp [hin]
        · intro x hx hx'
          rw [mem_upto] at hx
          have : x = a := loc_inj m hi x a (by omega) ha (by rw [hx', ho])
          omega
    · rw [hcell o j, lastWrite_not_target _ _ _ _ _ (fun x _ => hno x)]

/-- PATCH without bank prefix on a `Memory` (three different banks in the windows, inside 64K):
exactly the addresses `a … a+len-1` receive the file's bytes. -/
theorem patch_frame_mem (m m' : Mem) (s : PatchSpec) (data : List Nat) (hp : s.page = none)
    (hi : m.LocInj) (hlen : data.length ≤ 49152) (hin : s.addr + data.length ≤ 0x10000)
    (h : patchMem m s data = .ok m') :
    (∀ a, m'.loc a = m.loc a) ∧
    (∀ a, a < 0x10000 → m'.at a =
      if s.addr ≤ a ∧ a < s.addr + data.length then data[a - s.addr]? else m.at a) ∧
    (∀ o j, (∀ x, m.loc x ≠ some (o, j)) → m'.cell o j = m.cell o j) := by
  have ht : data.take 49152 = data := List.take_of_length_le hlen
  simp only [patchMem, hp, ht, Mem.setSlice] at h
  obtain ⟨hloc, _, hcell⟩ := setAll_ok _ data m m' h
  have hnd := upto_map_loc_nodup m hi s.addr data.length hin
  refine ⟨hloc, fun a ha => ?_, fun o j hno => ?_⟩
  · obtain ⟨o, ho⟩ := loc_lt m a ha
    simp only [Mem.at, hloc a, ho, hcell o]
    by_cases hr : s.addr ≤ a ∧ a < s.addr + data.length
    · have hk : a - s.addr < (upto s.addr (s.addr + data.length)).length := by rw [upto_length]; omega
      have hget : (upto s.addr (s.addr + data.length))[a - s.addr] = a := by
        have := upto_getElem? s.addr (s.addr + data.length) (a - s.addr)
        rw [List.getElem?_eq_getElem hk] at this
        have hlt : a - s.addr < s.addr + data.length - s.addr := by omega
        simp only [hlt, if_true, Option.some.injEq] at this
        omega
      rw [lastWrite_at m.loc _ _ data _ (a - s.addr) hk hnd (by omega) (by rw [hget, ho])]
      simp [hr]
    · rw [lastWrite_not_target]
      · simp [hr]
      · intro x hx hx'
        rw [mem_upto] at hx
        have : x = a := loc_inj m hi x a (by omega) ha (by rw [hx', ho])
        omega
  · rw [hcell o j, lastWrite_not_target _ _ _ _ _ (fun x _ => hno x)]

/-- Addresses below 16384 hit the scratch ROM window only: no RAM bank changes (one write). -/
theorem rom_write_keeps_ram (m m' : Mem) (a v : Nat) (ha : a < 0x4000) (h : m.set a v = .ok m') :
    m'.banks = m.banks := by
  obtain ⟨o, l, hloc, _, _, rfl⟩ := set_ok m m' a v h
  have : a / 0x4000 = 0 := by omega
  simp only [Mem.loc, Mem.slot, this, Option.map_some, Option.some.injEq, Prod.mk.injEq] at hloc
  rw [← hloc.1]; rfl

/-! ### spec text: the destination bank of MOVE -/

/-- `src,n,dest` with no bank prefix on `dest`: the destination bank is the source bank
(`_get_page(dest, 'move', param_str, src_page)`), whatever that is — including bank 0 and "none". -/
theorem move_default_dest_bank (src n dest : List Char) (s : MoveSpec)
    (hs : ',' ∉ src) (hn : ',' ∉ n) (hd : ':' ∉ dest)
    (h : parseMove (src ++ ',' :: (n ++ ',' :: dest)) = .ok s) : s.destPage = s.srcPage := by
  simp only [parseMove, splitFirst_append ',' src _ hs, splitFirst_append ',' n _ hn] at h
  cases hsp : getPage src none with
  | error e => simp [hsp] at h
  | ok r =>
    obtain ⟨srcPage, src'⟩ := r
    simp only [hsp, getPage_no_colon dest srcPage hd] at h
    split at h
    · cases h; rfl
    · cases h

/-- An explicit destination prefix `d:` is used as given — `0:` is bank 0, not "no prefix". -/
theorem move_explicit_dest_bank (src n pg dest : List Char) (d : Nat) (s : MoveSpec)
    (hs : ',' ∉ src) (hn : ',' ∉ n) (hpg : ':' ∉ pg) (hd : getIntParam pg false = some d)
    (h : parseMove (src ++ ',' :: (n ++ ',' :: (pg ++ ':' :: dest))) = .ok s) : s.destPage = some d := by
  simp only [parseMove, splitFirst_append ',' src _ hs, splitFirst_append ',' n _ hn] at h
  cases hsp : getPage src none with
  | error e => simp [hsp] at h
  | ok r =>
    obtain ⟨srcPage, src'⟩ := r
    simp only [hsp, getPage_prefix pg dest srcPage d hpg hd] at h
    split at h
    · cases h; rfl
    · cases h

/-- After `parseMove`, a source prefix implies a destination page (so `None % 8` cannot occur). -/
theorem move_src_prefix_gives_dest (spec : List Char) (s : MoveSpec) (h : parseMove spec = .ok s)
    (hsrc : s.srcPage.isSome) : s.destPage.isSome := by
  simp only [parseMove] at h
  split at h
  · cases h
  · split at h
    · cases h
    · split at h
      · cases h
      · rename_i srcPage src' hsp
        split at h
        · cases h
        · rename_i destPage dest' hdp
          split at h
          · cases h
            simp only at hsrc ⊢
            simp only [getPage] at hdp
            split at hdp
            · split at hdp
              · cases hdp; rfl
              · cases hdp
            · cases hdp; exact hsrc
          · cases h

/-! ### a bank-prefixed MOVE never resizes a bank -/

/-- Every MOVE (any spec, any memory whose banks are 16K lists) leaves every bank a 16K list:
a range that runs past the end of its bank is cut there (this was a defect: the destination bank
used to be resized by list slice assignment, and the snapshot written could not be read back). -/
theorem move_keeps_bank_size (m m' : Mem) (s : MoveSpec) (sp : Nat) (hsp : s.srcPage = some sp)
    (h16 : ∀ (k : Nat) (b : List Nat), m.banks[k]? = some (some b) → b.length = 0x4000)
    (h : moveMem m s = .ok m') :
    ∀ (k : Nat) (b : List Nat), m'.banks[k]? = some (some b) → b.length = 0x4000 := by
  intro k b hk
  simp only [moveMem, hsp] at h
  split at h
  · cases h
  · rename_i srcBank hsb
    split at h
    · cases h
    · rename_i dp hdp
      split at h
      · cases h
      · rename_i destBank hdb
        split at h
        · rename_i sb db
          split at h
          · cases h; exact h16 k b hk
          · rename_i hne
            have hne' : sb ≠ [] ∧ db ≠ [] := by
              constructor
              · intro h'; exact hne (.inl h')
              · intro h'; exact hne (.inr h')
            have hmv : moveMem m s = .ok m' := by
              simp only [moveMem, hsp, hdp, hsb, hdb, hne'.1, hne'.2, or_self, if_false]
              exact h
            obtain ⟨_, _, ⟨db', hobj, hlen⟩, _⟩ := move_frame_bank m m' s sp dp sb db hsp hdp hsb hdb
              (h16 _ _ hsb) (h16 _ _ hdb) hmv
            by_cases hkd : k = dp % 8
            · subst hkd
              rw [(obj_bank m' _ _).1 hobj] at hk
              cases hk; exact hlen
            · cases h
              simp only [Mem.setObj, List.getElem?_set_ne (Ne.symm hkd)] at hk
              exact h16 k b hk
        · cases h; exact h16 k b hk

/-! ### non-vacuity: small concrete memories (the model does not fix the bank size) -/

private def m8 : Mem :=
  ⟨[0, 0], [some [10, 11, 12, 13], some [20, 21], some [30, 31], some [40, 41, 42, 43], some [50], some [60, 61],
    some [70], some [80]], 5, 2, 0⟩

-- source bank 3, explicit destination bank 0
example : moveMem m8 ⟨some 3, some 0, 1, 2, 0⟩ =
    .ok { m8 with banks := m8.banks.set 0 (some [41, 42, 12, 13]) } := by rfl
-- source bank 0, destination prefix omitted: stays in bank 0 (overlapping ranges)
example : moveMem m8 ⟨some 0, some 0, 0, 3, 1⟩ =
    .ok { m8 with banks := m8.banks.set 0 (some [10, 10, 11, 12]) } := by rfl
-- bank numbers are taken modulo 8
example : moveMem m8 ⟨some 11, some 16, 1, 2, 0⟩ = moveMem m8 ⟨some 3, some 0, 1, 2, 0⟩ := by rfl
-- a block is cut at the end of the bank: 16380 + 10 > 16384 gives 4 bytes
example : moveLen ⟨some 3, some 4, 16380, 10, 0⟩ = 4 := by decide
example : moveLen ⟨some 3, some 4, 0, 10, 0xC000 + 16383⟩ = 1 := by decide
-- POKE with each operator in bank 0
example : pokeMem m8 ⟨some 0, 0, 3, 2, .add, 250⟩ =
    .ok { m8 with banks := m8.banks.set 0 (some [4, 11, 6, 13]) } := by rfl
example : pokeMem m8 ⟨some 8, 1, 1, 1, .xor, 255⟩ =
    .ok { m8 with banks := m8.banks.set 0 (some [10, 244, 12, 13]) } := by rfl
-- the spec text: `3:0,16,0:100` names destination bank 0; `3:0,16,100` defaults to bank 3
example : parseMove ['3', ':', '0', ',', '1', '6', ',', '0', ':', '1', '0', '0'] = .ok ⟨some 3, some 0, 0, 16, 100⟩ := by
  rfl
example : parseMove ['3', ':', '0', ',', '1', '6', ',', '1', '0', '0'] = .ok ⟨some 3, some 3, 0, 16, 100⟩ := by
  rfl
example : parseMove ['0', ':', '5', ',', '1', ',', '7'] = .ok ⟨some 0, some 0, 5, 1, 7⟩ := by rfl
example : parsePoke ['7', ':', '0', 'x', '1', '0', '-', '3', '2', '-', '2', ',', '^', '5'] = .ok ⟨some 7, 16, 32, 2, .xor, 5⟩ := by
  rfl
-- flat list: slice assignment past the end grows the list, a short source shrinks it
example : moveFlat [1, 2, 3, 4] ⟨none, none, 0, 2, 3⟩ = [1, 2, 3, 1, 2] := by rfl
example : moveFlat [1, 2, 3, 4] ⟨none, none, 3, 2, 0⟩ = [4, 3, 4] := by rfl

end EditWindows

end C09
