import SkoolVerif.Proofs.C02Data
import SkoolVerif.Proofs.C02Jump
import SkoolVerif.Proofs.C02Case
import SkoolVerif.Proofs.C02Tokens
import SkoolVerif.Proofs.AsmInstrConverse
import SkoolVerif.Proofs.AsmInstrVariant
/-!
C02 — assembler and disassembler are mutual inverses.  Property theorems only;
helper lemmas live in `SkoolVerif/Proofs/C02*.lean`.

Models (hand-written, tied to /repo by the correspondence check
`harness/props/c02.py`):
* `SkoolVerif/Model/OpText.lean`  — disassembler side: `OperandFormatter._num_str`,
  `index_offset`, `jr_arg`, `get_message`, `defb_items`, DEFW/DEFS rendering;
* `SkoolVerif/Model/AsmEval.lean` — assembler side: `get_int_param`, Python `int()`,
  `split_quoted`, `_convert_chars`, `_convert_nums`, the arithmetic `eval`,
  `eval_int`, `eval_string`, `split_unquoted`, `split_operands`, `_parse_expr`,
  `_parse_offset`, `_address_offset`, `convert_case`, `_assemble_def{b,s,w}`.

Text is a list of code points.  All theorems are for unbounded inputs (every
value, every byte list, every address) and every configuration
(`asm_hex`, `asm_lower`) and base (`b c d h m n`).

Instruction level (last section): the opcode tables of real `Disassembler`
objects are dumped on every run into `Gen/C02Tables.lean`
(`translate/gen_c02.py`); `Model/DisText.lean` (with `Model/InstrDecode.lean`)
models one `Disassembler.disassemble` step down to the text, and
`Model/AsmInstr.lean` models `Assembler._assemble` with every encoder.
`instruction_roundtrip` holds for every slot of every table, every
additional-opcode set, every operand byte, address, base pair, case and number
format: a kernel-evaluated slot check (`Proofs/AsmInstrChk`) + one soundness
lemma per encoder rule (`Proofs/AsmInstrRules.lean`).
-/
namespace C02
open OpText AsmEval OperandSpec C02L AsmInstr InstrDec DisText AsmInstrL

/-! ## Layer B — operand text -/

/-- Digits round trip in every base ≥ 2 (used for 2, 10, 16). -/
theorem digits_roundtrip (b : Nat) (hb : 2 ≤ b) (n : Nat) : ofDigits b (toDigits b n) = n :=
  ofDigits_toDigits b hb n

/-- **Operand round trip.**  For a byte (`nbytes = 1`) or word (`nbytes = 2`)
value, whatever text `OperandFormatter._num_str` produces — binary `%…`,
character `"c"` / `"\""` / `"c"+128` / `"c"+$80`, decimal, `$hex` (upper or
lower case), negative `-N` / `-$HH` (with `-0` for zero), default base decimal
or hex — is evaluated by `Assembler._parse_expr` (→ `eval_int`) back to exactly
that value. -/
theorem operand_roundtrip (cfg : Cfg) (nbytes : Nat) (hn : nbytes = 1 ∨ nbytes = 2) (v : Nat)
    (hv : v < 256 ^ nbytes) (base : Base) :
    parseExpr (numStr cfg v nbytes base) (256 ^ nbytes) false false = .ok v :=
  parseExpr_numStr cfg nbytes hn v hv base

/-- The same through the tidying every *instruction* undergoes before it is
parsed (`convert_case(operation, lower=False, trim=True)`): upper-casing a
rendered operand leaves quoted characters alone and yields the upper-case
rendering, which evaluates to the value. -/
theorem operand_roundtrip_tidied (cfg : Cfg) (nbytes : Nat) (hn : nbytes = 1 ∨ nbytes = 2) (v : Nat)
    (hv : v < 256 ^ nbytes) (base : Base) :
    convertCase false true (numStr cfg v nbytes base) = numStr { cfg with lower := false } v nbytes base ∧
    parseExpr (convertCase false true (numStr cfg v nbytes base)) (256 ^ nbytes) false false = .ok v := by
  rw [cc_numStr]
  exact ⟨rfl, parseExpr_numStr _ nbytes hn v hv base⟩

/-- A non-negative rendering (any base but `m`) of *any* natural number below
the parser's limit reads back, whatever `num_bytes` was (the DEFS size is
formatted with `format_byte` even when it exceeds 255). -/
theorem operand_roundtrip_wide (cfg : Cfg) (nbytes v limit : Nat) (hv : v < limit) (base : Base)
    (hb : base ≠ .m) : parseExpr (numStr cfg v nbytes base) limit false false = .ok v :=
  parseExpr_numStr_wide cfg nbytes v limit hv base hb

/-- `_parse_expr` never returns a value outside `0 … limit-1`. -/
theorem parse_expr_in_range (t : Txt) (limit : Nat) (hl : 0 < limit) (br nn : Bool) (v : Nat)
    (h : parseExpr t limit br nn = .ok v) : v < limit :=
  parseExpr_lt t limit hl br nn v h

/-- `split_unquoted` (split on the separator, re-join quoted pieces) equals the
one-pass character-level scanner `OperandSpec.splitCL`, for every text. -/
theorem split_unquoted_spec (sep : Nat) (h34 : sep ≠ 34) (h92 : sep ≠ 92) (t : Txt) :
    splitUnquoted sep t = splitCL sep false false [] t :=
  splitUnquoted_eq_spec sep h34 h92 t

/-- **split ∘ render = id.**  Comma-joining any non-empty list of rendered
operands (any values, bases, configurations — including the characters `","`,
`"\""`, `"\\"`) and running `split_operands` returns exactly the operands. -/
theorem split_render (cfg : Cfg) (ops : List (Nat × Nat × Base)) (hne : ops ≠ []) :
    splitOperands (joinSep 44 (ops.map fun o => numStr cfg o.1 o.2.1 o.2.2)) =
      ops.map fun o => numStr cfg o.1 o.2.1 o.2.2 := by
  apply splitOperands_joinSep _ (by simpa using hne)
  intro it hit
  simp only [List.mem_map] at hit
  obtain ⟨o, _, rfl⟩ := hit
  exact numStr_item cfg o.1 o.2.1 o.2.2

/-! ## DEFB / DEFM / DEFW / DEFS statements -/

/-- **`get_message` round trip** for every byte list: the items are
comma-safe and assemble (`eval_string` for the quoted runs with `\"`, `\\`
escapes, `parse_byte` for the rest) back to the bytes. -/
theorem message_roundtrip (cfg : Cfg) (data : List Nat) (hd : ∀ b ∈ data, b < 256) (hne : data ≠ []) :
    splitOperands (joinSep 44 (getMessage cfg data)) = getMessage cfg data ∧
    assembleDefb (getMessage cfg data) = .ok data := by
  obtain ⟨hitems, hasm⟩ := getMessage_ok cfg data hd
  exact ⟨splitOperands_joinSep _ (assembleDefb_ne_nil _ _ hasm hne) hitems, hasm⟩

/-- **DEFB / DEFM statement round trip**, any sublength structure: the statement
text (directive in either case + comma-joined items) goes through the DEFx
branch of `Assembler._assemble` and gives the covered bytes. -/
theorem defb_roundtrip (cfg : Cfg) (defm : Bool) (data : List Nat) (subs : List (Nat × Base))
    (hd : ∀ b ∈ data, b < 256) (hne : coveredAux data.length data subs ≠ []) :
    assembleData (defbDir cfg defm data subs) = some (.ok (coveredAux data.length data subs)) :=
  defb_roundtrip_covered cfg defm data subs hd hne

/-- … in particular with one base for the whole statement (`B a,n,base` /
`T a,n`): exactly the bytes. -/
theorem defb_roundtrip_single (cfg : Cfg) (defm : Bool) (data : List Nat) (base : Base)
    (hd : ∀ b ∈ data, b < 256) (hne : data ≠ []) :
    assembleData (defbDir cfg defm data [(0, base)]) = some (.ok data) := by
  have := defb_roundtrip_covered cfg defm data [(0, base)] hd (by rw [covered_single]; exact hne)
  rwa [covered_single] at this

/-- **DEFW statement round trip** (every even, non-empty byte list, every base). -/
theorem defw_roundtrip (cfg : Cfg) (data : List Nat) (base : Base) (n : Nat)
    (hlen : data.length = 2 * (n + 1)) (hd : ∀ b ∈ data, b < 256) :
    assembleData (defwDir cfg data base) = some (.ok data) :=
  C02L.defw_roundtrip cfg data base n hlen hd

/-- **DEFS statement round trip.** -/
theorem defs_roundtrip (cfg : Cfg) (count value : Nat) (sb : Base) (vb : Option Base)
    (hc : count < 65536) (hv : value < 256) (hsb : sb ≠ .m) :
    assembleData (defsDir cfg count value sb vb) = some (.ok (List.replicate count value)) :=
  C02L.defs_roundtrip cfg count value sb vb hc hv hsb

/-! ## Layer A — relative jumps and index offsets -/

/-- **Relative jump round trip**, all addresses and offsets: when `jr_arg`
renders a target (in any base), `_address_offset` re-creates the offset byte. -/
theorem jr_roundtrip (cfg : Cfg) (base : Base) (a off t : Nat) (ha : a < 65536) (ho : off < 256)
    (h : jrTarget a off = some t) : addressOffset a (formatWord cfg t base) = .ok off := by
  have ht := (jrTarget_some a off t h).1
  have hw : parseWord (formatWord cfg t base) = .ok t := by
    have := parseExpr_numStr cfg 2 (Or.inr rfl) t (by simpa using ht) base
    simpa [parseWord, formatWord] using this
  simp only [addressOffset, hw, R.bind]
  exact addressOffsetV_jrTarget a off t ha ho h

/-- `jr_arg` falls back to a DEFB exactly when the target leaves 0…65535 (the
disassembler never wraps a jump target, although the assembler accepts it). -/
theorem jr_defb_iff (a off : Nat) :
    jrTarget a off = none ↔
      (off < 128 ∧ 65536 ≤ a + 2 + off) ∨ (128 ≤ off ∧ (a + off < 254 ∨ 65536 + 254 ≤ a + off)) :=
  jrTarget_none_iff a off

/-- **Relative jump range**, stated outright for all addresses and targets:
`_address_offset` accepts exactly the distances −126…+129 modulo 64K (so
also across the 64K boundary, in both directions) and encodes them as
`distance − 2 (mod 256)`. -/
theorem reljump_range (a t b : Nat) (ha : a < 65536) (ht : t < 65536) :
    addressOffsetV a t = .ok b ↔
      (((t + 65536 - a) % 65536 ≤ 129 ∨ 65410 ≤ (t + 65536 - a) % 65536) ∧
        b = ((t + 65536 - a) % 65536 + 254) % 256) :=
  addressOffsetV_spec a t b ha ht

/-- The encoded byte means what the Z80 does with it: `PC+2+signed(b)` is the
target (mod 64K). -/
theorem reljump_semantics (a t b : Nat) (ha : a < 65536) (ht : t < 65536)
    (h : addressOffsetV a t = .ok b) : b < 256 ∧ relTarget a b = t :=
  addressOffsetV_sem a t b ha ht h

/-- Part 2 of the property for relative jumps (assemble → disassemble →
assemble): the byte `_address_offset` produced for *any* accepted target —
wrapped or not — decodes either to a target that re-assembles to the same
byte, or (when the Z80 target lies across the 64K boundary) to no target at
all, in which case the decoder emits the two bytes as a DEFB. -/
theorem jr_converse (cfg : Cfg) (base : Base) (a t b : Nat) (ha : a < 65536) (ht : t < 65536)
    (h : addressOffsetV a t = .ok b) :
    (∃ t', jrTarget a b = some t' ∧ t' = t ∧ addressOffset a (formatWord cfg t' base) = .ok b) ∨
    (jrTarget a b = none ∧ (65536 ≤ a + 2 + b ∨ a + b < 254 ∨ 65536 + 254 ≤ a + b)) := by
  obtain ⟨hb, hsem⟩ := addressOffsetV_sem a t b ha ht h
  cases hj : jrTarget a b with
  | some t' =>
    left
    have e := jrTarget_eq_relTarget a b t' ha hb hj
    refine ⟨t', rfl, by rw [e, hsem], jr_roundtrip cfg base a b t' ha hb hj⟩
  | none =>
    right
    refine ⟨rfl, ?_⟩
    have := (jrTarget_none_iff a b).mp hj
    omega

/-- **Index offset round trip** for all 256 displacement bytes, every base and
configuration, `IX` and `IY`: `_parse_offset('(IX' + index_offset(d) + ')') = d`
(`+N` for d < 128, `-N` with N = 256 − d otherwise; `+-N` / `--N` in base `m`). -/
theorem index_roundtrip (cfg : Cfg) (reg : Nat) (hreg : reg = 88 ∨ reg = 89) (i : Nat) (hi : i < 256)
    (base : Base) : parseOffset ([40, 73, reg] ++ indexOffset cfg i base ++ [41]) = .ok i :=
  parseOffset_indexOffset cfg reg hreg i hi base

/-- Part 2 of the property for index operands: whatever operand text
`_parse_offset` accepts (`(IX+expr)`, `(IY-expr)`, any expression, including
`(IX-0)`), the displacement byte it yields is rendered by `index_offset` to
text that `_parse_offset` maps to the same byte. -/
theorem index_converse (cfg : Cfg) (reg : Nat) (hreg : reg = 88 ∨ reg = 89) (base : Base) (op : Txt) (d : Nat)
    (h : parseOffset op = .ok d) :
    parseOffset ([40, 73, reg] ++ indexOffset cfg d base ++ [41]) = .ok d :=
  parseOffset_indexOffset cfg reg hreg d (parseOffset_lt op d h) base

/-- Part 2 for plain byte / word operands: whatever text `_parse_expr` accepts
(any spelling, any expression), the value it yields is rendered by `_num_str`
to text that evaluates to the same value. -/
theorem operand_converse (cfg : Cfg) (nbytes : Nat) (hn : nbytes = 1 ∨ nbytes = 2) (base : Base) (t : Txt)
    (br nn : Bool) (v : Nat) (h : parseExpr t (256 ^ nbytes) br nn = .ok v) :
    parseExpr (numStr cfg v nbytes base) (256 ^ nbytes) false false = .ok v :=
  parseExpr_numStr cfg nbytes hn v
    (parseExpr_lt t _ (by rcases hn with rfl | rfl <;> simp) br nn v h) base

/-- `_parse_offset` only ever yields a byte: no operand text makes the assembler
emit the non-byte 256 (regression theorem for the `(IX-0)` defect fixed by
`% 256`). -/
theorem parse_offset_is_byte (op : Txt) (v : Nat) (h : parseOffset op = .ok v) : v < 256 :=
  parseOffset_lt op v h

/-! ## Tokenising an instruction -/

/-- **`split_operation` on a rendered instruction**: for a mnemonic and
operands built from template text and quoted characters (`Seg`), tidying
(`convert_case`), splitting off the mnemonic and `split_operands` yield the
upper-cased mnemonic and the operands, upper-cased outside quotes and untouched
inside (so `(ix+"a")` ↦ `(IX+"a")`, `","` stays one operand). -/
theorem instruction_tokens (mn : Txt) (hmn : PlainTxt mn) (ops : List (List Seg)) (hne : ops ≠ [])
    (hops : ∀ o ∈ ops, o ≠ [] ∧ ∀ s ∈ o, s.ok) :
    splitOperation (mn ++ 32 :: joinSep 44 (ops.map renderSegs)) = mn.map upperC :: ops.map upperSegs :=
  splitOperation_render mn hmn ops hne hops

/-- Every rendered number is such a run of segments, and its tidied form is
its upper-case rendering. -/
theorem rendered_operand_segments (cfg : Cfg) (v nbytes : Nat) (base : Base) :
    ∃ segs : List Seg, segs ≠ [] ∧ (∀ s ∈ segs, s.ok) ∧ renderSegs segs = numStr cfg v nbytes base ∧
      upperSegs segs = numStr { cfg with lower := false } v nbytes base :=
  numStr_segs cfg v nbytes base

/-- **Text pipeline of a `MN r,n` instruction**, end to end on the model: the
operation the disassembler prints for a register operand `op1` and a byte
operand `v` (any base / case / hex) is tokenised into mnemonic, register and a
token that `parse_byte` evaluates to `v`. -/
theorem byte_operand_pipeline (cfg : Cfg) (mn op1 : Txt) (hmn : PlainTxt mn) (hop : PlainTxt op1)
    (v : Nat) (hv : v < 256) (base : Base) :
    ∃ tok, splitOperation (mn ++ 32 :: joinSep 44 [op1, numStr cfg v 1 base]) =
        [mn.map upperC, op1.map upperC, tok] ∧ parseByte tok = .ok v := by
  obtain ⟨segs, hne, hok, hr, hu⟩ := numStr_segs cfg v 1 base
  refine ⟨numStr { cfg with lower := false } v 1 base, ?_, ?_⟩
  · have := splitOperation_render mn hmn [[.plain op1], segs] (by simp) (by
      intro o ho
      simp only [List.mem_cons, List.not_mem_nil, or_false] at ho
      rcases ho with rfl | rfl
      · exact ⟨by simp, by intro s hs; simp at hs; subst hs; exact hop⟩
      · exact ⟨hne, hok⟩)
    rw [← hr, ← hu]
    simpa [renderSegs, upperSegs, Seg.render, Seg.upper] using this
  · have := parseExpr_numStr { cfg with lower := false } 1 (Or.inl rfl) v (by simpa using hv) base
    simpa [parseByte] using this

/-! ## Instruction level: every slot of the regenerated tables -/

/-- The model of `Disassembler.disassemble` decodes an instruction object at every address of every memory
under every configuration (no `KeyError`, no format error). -/
theorem disassembler_total (c : DCfg) (hex : Bool) (b1 b2 : Base) (mem : Mem) (hmem : ∀ i, mem i < 256) (a : Nat) :
    ∃ d, disText C02Gen.tables c hex b1 b2 mem a = .ok d := by
  obtain ⟨so, _, h, _⟩ := disText_total c hex b1 b2 mem hmem a
  exact ⟨_, h⟩

/-- **Instruction round trip** (part 1 of the property, at instruction level).  Take any memory `mem`, any
address `a` — up to 65535, the instruction may wrap around or be cut at the 64K boundary —, any
configuration of the disassembler: additional-opcode set `c.opts` (all 256 subsets of
ED63,ED6B,ED70,ED71,IM,NEG,RETN,XYCB), `asm_lower` = `c.lower`, `asm_hex` = `hex`, `wrap` = `c.wrap`, and any
base indicator (`b1` its first, `b2` its last letter).  Whatever instruction object `d` the disassembler
makes at `a` — an instruction of any of the seven opcode tables with any operand bytes, a relative jump, or
one of its DEFB fallbacks — if it is not flagged VARIANT, the assembler turns `d.text` back into exactly
`d.bytes`.  `hadm`: the negative base `m` is not applied to the operand of `RST n` / `IN A,(n)` /
`OUT (n),A` ("negative where a signed operand is meaningful": the assembler requires these to be
non-negative). -/
theorem instruction_roundtrip (c : DCfg) (hex : Bool) (b1 b2 : Base) (mem : Mem) (hmem : ∀ i, mem i < 256)
    (a : Nat) (ha : a < 65536) (d : DText) (hd : disText C02Gen.tables c hex b1 b2 mem a = .ok d)
    (hv : d.variant = 0) (hadm : b1 = .m → nonNegMnemonic d.text = false) :
    asmInstr d.text a = .ok d.bytes := by
  unfold disText at hd
  have hchk := allDis_spec C02Chk.shape_ok C02Chk.all_ok c (hmem a) (hmem ((a + 1) % 65536)) (hmem ((a + 3) % 65536))
  cases hq : disSym C02Gen.tables c (mem a) (mem ((a + 1) % 65536)) (mem ((a + 3) % 65536)) with
  | error e => simp [hq] at hd
  | ok so =>
    simp only [hq, Except.ok.injEq] at hd
    subst hd
    simp only [hq, C02Chk.slotChk] at hchk
    rw [finishText_variant] at hv
    exact out_roundtrip _ so hchk hv ⟨⟨hex, c.lower⟩, b1, b2, mem, a⟩ ⟨hmem, ha⟩ (patOk_slotOf mem a ha) c.wrap hadm

/-- … as `Assembler.assemble` returns it (`()` only on failure). -/
theorem instruction_roundtrip_assemble (c : DCfg) (hex : Bool) (b1 b2 : Base) (mem : Mem) (hmem : ∀ i, mem i < 256)
    (a : Nat) (ha : a < 65536) (d : DText) (hd : disText C02Gen.tables c hex b1 b2 mem a = .ok d)
    (hv : d.variant = 0) (hadm : b1 = .m → nonNegMnemonic d.text = false) :
    assemble d.text a = d.bytes := by
  simp [assemble, instruction_roundtrip c hex b1 b2 mem hmem a ha d hd hv hadm]

/-- **Variant opcode sequences**: the round trip is through the byte list the disassembler flags, not the
text.  For every non-empty byte list, the `@bytes=` directive sna2skool writes for it
(`format_byte(b, DEFAULT_BASE)` joined by commas, decimal or hex, either case) is read back by
`parse_asm_bytes_directive` as the bytes, and the same list as a DEFB statement assembles to the bytes. -/
theorem variant_roundtrip (cfg : Cfg) (bs : List Nat) (hb : ∀ b ∈ bs, b < 256) (hne : bs ≠ []) :
    parseBytesDirective (bytesDirective cfg bs) = some (bs.map Int.ofNat) ∧
    asmInstr (defbDir cfg false bs [(0, .n)]) 0 = .ok bs :=
  ⟨bytesDirective_roundtrip cfg bs hb hne, asm_defb cfg bs hb hne 0⟩

/-- The bytes of an instruction object are bytes, and there is at least one (so `variant_roundtrip`
applies to the byte list of every VARIANT instruction). -/
theorem instruction_bytes (c : DCfg) (hex : Bool) (b1 b2 : Base) (mem : Mem) (hmem : ∀ i, mem i < 256)
    (a : Nat) (ha : a < 65536) (d : DText) (hd : disText C02Gen.tables c hex b1 b2 mem a = .ok d)
    (hfit : a + C02Chk.L (slotAt mem a) ≤ 65536) :
    d.bytes = bytesAt mem a (C02Chk.L (slotAt mem a)) ∧ d.bytes ≠ [] ∧ ∀ b ∈ d.bytes, b < 256 := by
  obtain ⟨so, h1, h2, hwf, hnom, h4⟩ := disText_total c hex b1 b2 mem hmem a
  rw [h2] at hd
  simp only [Except.ok.injEq] at hd
  subst hd
  have hb := finishText_bytes_fit ⟨hex, c.lower⟩ c.wrap b1 b2 mem a so hwf ha (by rw [hnom]; exact hfit)
  rw [hnom] at hb
  have hv : (slotAt mem a).valid = true := slotOf_valid (hmem _) (hmem _) (hmem _)
  have hpos : 1 ≤ C02Chk.L (slotAt mem a) := by
    have := allSlots_spec C02Chk.lpos_ok _ hv
    simpa using this
  refine ⟨hb, ?_, ?_⟩
  · rw [hb]
    intro e0
    have := congrArg List.length e0
    simp [bytesAt] at this
    omega
  · rw [hb]
    intro b hbm
    simp only [bytesAt, List.mem_map] at hbm
    obtain ⟨i, _, rfl⟩ := hbm
    exact hmem _

/-- **Converse at instruction level, for the texts the disassembler emits** (part 2: assemble → disassemble →
assemble).  Let `d.text` be any instruction text the disassembler renders (any configuration, any bases)
for an instruction that lies below the 64K boundary.  The assembler accepts it and produces `bs`; these are
the bytes at `a`, so disassembling them under ANY other configuration — other additional-opcode set
(`SLL (IX+1),B` may become a DEFB), other case, other number format, other bases — gives an object `d'` over
exactly the same bytes, and assembling `d'.text` (or, if `d'` is flagged VARIANT, reading its flagged byte
list) yields `bs` again. -/
theorem instruction_converse (c c' : DCfg) (hex hex' : Bool) (b1 b2 b1' b2' : Base) (mem : Mem)
    (hmem : ∀ i, mem i < 256) (a : Nat) (ha : a < 65536) (hfit : a + C02Chk.L (slotAt mem a) ≤ 65536)
    (d d' : DText) (hd : disText C02Gen.tables c hex b1 b2 mem a = .ok d)
    (hd' : disText C02Gen.tables c' hex' b1' b2' mem a = .ok d')
    (hv : d.variant = 0) (hadm : b1 = .m → nonNegMnemonic d.text = false) :
    ∃ bs, asmInstr d.text a = .ok bs ∧ d'.bytes = bs ∧
      (d'.variant = 0 → (b1' = .m → nonNegMnemonic d'.text = false) → asmInstr d'.text a = .ok bs) ∧
      parseBytesDirective (bytesDirective ⟨hex', c'.lower⟩ d'.bytes) = some (bs.map Int.ofNat) := by
  obtain ⟨e1, _, _⟩ := instruction_bytes c hex b1 b2 mem hmem a ha d hd hfit
  obtain ⟨e2, hne, hlt⟩ := instruction_bytes c' hex' b1' b2' mem hmem a ha d' hd' hfit
  refine ⟨d.bytes, instruction_roundtrip c hex b1 b2 mem hmem a ha d hd hv hadm, by rw [e1, e2], ?_, ?_⟩
  · intro hv' hadm'
    rw [e1, ← e2]
    exact instruction_roundtrip c' hex' b1' b2' mem hmem a ha d' hd' hv' hadm'
  · rw [e1, ← e2]
    exact bytesDirective_roundtrip _ _ hlt hne

/-- **Converse for every spelling of the numeric operands** (part 2 for the encoder rules the tables select;
`_partial`: see below).  Take a mnemonic and operands that the rule table maps to a byte pattern — each
operand is template text or a `{}` field: a number, `(number)` or `(IX±number)`.  Spell the fields in ANY way
(`S`) that keeps their shape (first characters) and that the operand parsers evaluate to the values in memory
— `$1F`, `%101`, `"a"`, `12+3`, `(IX+$0A)`, `(IY-"a")`, any expression.  The assembler then produces exactly
the bytes it produces for the disassembler's own rendering of these operands — which, by
`instruction_roundtrip`, are the bytes at `a` the rendering was decoded from.  So: assemble the spelled
instruction, disassemble the bytes, assemble the result again: the same bytes.

Not covered (hence `_partial`): spellings that change the shape of an operand as the assembler's string
tests see it (a leading `+`, a bare number in brackets as in `LD B,(5)`, white space inside `(IX + 1)`),
ignored third operands (`BIT 0,B,C`), and the statement that every text the assembler accepts is of one of
these forms; for those the converse is established by the e2e check on the real code only. -/
theorem rule_converse_partial (e : Env) (he : e.Ok) (S : Spelling e) (mn : Txt) (ops : List SOpnd) (sbs : List SB)
    (h : symAsm mn ops = some sbs)
    (hnn : mn = t%"IN" ∨ mn = t%"OUT" ∨ mn = t%"RST" → e.b1 ≠ .m)
    (hjr : mn = t%"JR" ∨ mn = t%"DJNZ" → ∃ t, jrTarget e.a (e.rd 1) = some t) :
    asmTokens (mn :: ops.map (SOpnd.txtS S)) e.a = asmTokens (mn :: ops.map (SOpnd.txt e)) e.a ∧
    asmTokens (mn :: ops.map (SOpnd.txtS S)) e.a = .ok (sbs.map (SB.inst e)) := by
  have h1 := symAsm_spelled e he S mn ops sbs h hnn hjr
  have h2 := symAsm_sound e he mn ops sbs h hnn hjr
  exact ⟨by rw [h1, h2], h1⟩

/-! ## Sanity / non-vacuity: concrete values taken from the real tools -/

-- LD A,"A"+$80  (193, base c, hex, lower)
example : numStr ⟨true, true⟩ 193 1 .c = [34, 65, 34, 43, 36, 56, 48] := by decide +kernel
example : evalInt [34, 65, 34, 43, 36, 56, 48] = .ok 193 := by decide +kernel
-- `"\""` and `"\\"`
example : numStr ⟨false, false⟩ 34 1 .c = [34, 92, 34, 34] := by decide +kernel
example : evalInt [34, 92, 92, 34] = .ok 92 := by decide +kernel
-- base m: 255 ↦ -1, 0 ↦ -0 (was -256, rejected by the assembler, before the fix)
example : numStr ⟨false, false⟩ 255 1 .m = [45, 49] := by decide +kernel
example : numStr ⟨false, false⟩ 0 1 .m = [45, 48] := by decide +kernel
example : numStr ⟨true, false⟩ 0 2 .m = [45, 36, 48, 48, 48, 48] := by decide +kernel
example : parseExpr [45, 50, 53, 54] 256 false false = .valErr := by decide +kernel   -- `-256`
example : parseExpr [45, 48] 256 false false = .ok 0 := by decide +kernel
-- %binary, word
example : numStr ⟨false, false⟩ 258 2 .b =
    [37, 48, 48, 48, 48, 48, 48, 48, 49, 48, 48, 48, 48, 48, 48, 49, 48] := by decide +kernel
-- splitting `",",5,"\"","\\"`
example : splitOperands [34, 44, 34, 44, 53, 44, 34, 92, 34, 34, 44, 34, 92, 92, 34] =
    [[34, 44, 34], [53], [34, 92, 34, 34], [34, 92, 92, 34]] := by decide +kernel
-- DEFM "a,\"b",0  ↦ 97 44 34 98 0
example : defbDir ⟨false, false⟩ true [97, 44, 34, 98, 0] [(0, .c)] =
    [68, 69, 70, 77, 32, 34, 97, 44, 92, 34, 98, 34, 44, 48] := by decide +kernel
example : assembleData [68, 69, 70, 77, 32, 34, 97, 44, 92, 34, 98, 34, 44, 48] =
    some (.ok [97, 44, 34, 98, 0]) := by decide +kernel
-- relative jumps: JR at 65534 with offset 0 has no in-range target (DEFB); the assembler wraps
example : jrTarget 65534 0 = none := by decide +kernel
example : addressOffsetV 65534 0 = .ok 0 := by decide +kernel
example : addressOffsetV 0 65410 = .ok 128 := by decide +kernel       -- −126 across the boundary
example : addressOffsetV 0 65409 = .valErr := by decide +kernel
example : addressOffsetV 65535 128 = .ok 127 := by decide +kernel     -- +129 across the boundary
example : jrTarget 100 254 = some 100 := by decide +kernel
-- index offsets; `(IX-0)` now assembles to 0, not 256
example : indexOffset ⟨false, false⟩ 200 .d = [45, 53, 54] := by decide +kernel
example : parseOffset [40, 73, 88, 45, 48, 41] = .ok 0 := by decide +kernel
example : parseOffset [40, 73, 89, 45, 49, 41] = .ok 255 := by decide +kernel
-- ld (ix+"a"),","  ↦  LD | (IX+"a") | ","
example : splitOperation [108, 100, 32, 40, 105, 120, 43, 34, 97, 34, 41, 44, 34, 44, 34] =
    [[76, 68], [40, 73, 88, 43, 34, 97, 34, 41], [34, 44, 34]] := by decide +kernel
-- quirks kept by the model: SyntaxError is not a ValueError, `%` is modulo after `)` or a number
example : evalInt [] = .otherErr := by decide +kernel
example : evalInt [40, 51, 41, 37, 49, 48, 49] = .ok 3 := by decide +kernel      -- (3)%101
example : evalInt [51, 43, 37, 49, 48, 49] = .ok 8 := by decide +kernel          -- 3+%101
example : evalInt [45, 55, 47, 50] = .ok (-4) := by decide +kernel               -- -7/2 floors


/-! ### instruction level: concrete instances (memory = the listed bytes at `a`, wrapping, 0 elsewhere) -/

/-- `bs` at `a` (wrapping at 65536), 0 elsewhere -/
def memOf (a : Nat) (bs : List Nat) : Mem := fun i => bs.getD ((i + 65536 - a) % 65536) 0

-- LD (IX-128),255 in lower-case hex: `ld (ix-$80),$ff`
example : (disText C02Gen.tables { opts := 0, lower := true } true .n .n (memOf 32768 [221, 54, 128, 255]) 32768).toOption =
    some ⟨t%"ld (ix-$80),$ff", [221, 54, 128, 255], 0⟩ := by decide +kernel
example : asmInstr t%"ld (ix-$80),$ff" 32768 = .ok [221, 54, 128, 255] := by decide +kernel
-- two-letter base `mc`: displacement negative, byte as a character
example : (disText C02Gen.tables {} false .m .c (memOf 0 [253, 54, 5, 193]) 0).toOption =
    some ⟨[76, 68, 32, 40, 73, 89, 43, 45, 50, 53, 49, 41, 44, 34, 65, 34, 43, 49, 50, 56], [253, 54, 5, 193], 0⟩ := by
  decide +kernel                                                             -- LD (IY+-251),"A"+128
example : asmInstr [76, 68, 32, 40, 73, 89, 43, 45, 50, 53, 49, 41, 44, 34, 65, 34, 43, 49, 50, 56] 0 =
    .ok [253, 54, 5, 193] := by decide +kernel
-- JR at 65535, wrapping: the offset byte is at address 0, the target 65535 itself
example : (disText C02Gen.tables { wrap := true } false .n .n (memOf 65535 [24, 254]) 65535).toOption =
    some ⟨t%"JR 65535", [24, 254], 0⟩ := by decide +kernel
example : asmInstr t%"JR 65535" 65535 = .ok [24, 254] := by decide +kernel
-- … and with a target beyond 65535 the decoder emits a DEFB, cut at the boundary
example : (disText C02Gen.tables { wrap := true } false .n .n (memOf 65535 [24, 16]) 65535).toOption =
    some ⟨t%"DEFB 24", [24], 0⟩ := by decide +kernel
example : asmInstr t%"JR 17" 65535 = .ok [24, 16] := by decide +kernel      -- the assembler wraps the target
-- SLL (IY+5),B exists with the XYCB option only (bit 7); without it the four bytes are a DEFB
example : (disText C02Gen.tables { opts := 128 } false .n .n (memOf 0 [253, 203, 5, 48]) 0).toOption =
    some ⟨t%"SLL (IY+5),B", [253, 203, 5, 48], 0⟩ := by decide +kernel
example : (disText C02Gen.tables {} false .n .n (memOf 0 [253, 203, 5, 48]) 0).toOption =
    some ⟨t%"DEFB 253,203,5,48", [253, 203, 5, 48], 0⟩ := by decide +kernel
example : asmInstr t%"SLL (IY+5),B" 0 = .ok [253, 203, 5, 48] := by decide +kernel
-- a VARIANT entry (option NEG, bit 5): the text would assemble to ED 44, the flagged bytes are ED 4C
example : (disText C02Gen.tables { opts := 32 } true .n .n (memOf 0 [237, 76]) 0).toOption =
    some ⟨t%"NEG", [237, 76], 1⟩ := by
  decide +kernel
example : asmInstr t%"NEG" 0 = .ok [237, 68] := by decide +kernel
example : bytesDirective ⟨true, false⟩ [237, 76] = t%"$ED,$4C" := by decide +kernel
example : parseBytesDirective t%"$ED,$4C" = some [237, 76] := by decide +kernel
-- the excluded case: RST in the negative base is rejected by the assembler (known C01 finding)
example : (disText C02Gen.tables {} false .m .m (memOf 0 [207]) 0).toOption =
    some ⟨t%"RST -248", [207], 0⟩ := by decide +kernel
example : nonNegMnemonic t%"RST -248" = true := by decide +kernel
example : asmInstr t%"RST -248" 0 = .valErr := by decide +kernel
-- quirks of the assembler kept by the model
example : asmInstr t%"LD B,(5)" 0 = .ok [6, 5] := by decide +kernel          -- brackets stripped
example : asmInstr t%"BIT 0,B,C" 0 = .ok [203, 64] := by decide +kernel       -- third operand ignored
example : asmInstr t%"RLC (IX+1)," 0 = .ok [221, 203, 1, 6] := by decide +kernel   -- empty operand is falsy
example : asmInstr t%"NOP 1" 0 = .ok [] := by decide +kernel                  -- returns None
example : asmInstr t%"LD A" 0 = .otherErr := by decide +kernel                -- TypeError
example : asmInstr t%"JR PO,5" 0 = .valErr := by decide +kernel               -- no such relative jump (was LD B,B + offset before the fix)
-- `rule_converse_partial`: the rule table maps `LD A,{byte at 1}` to 3E + that byte, and `$0F+1` is an acceptable
-- spelling of the byte 16 found there (so `LD A,$0F+1`, `LD A,16` and the bytes 3E 10 all round-trip)
example : symAsm t%"LD" [.lit t%"A", .hole .numB 0 1] = some [.const 62, .at 1] := by decide +kernel
example : OpSpelled ⟨⟨false, false⟩, .n, .n, memOf 0 [62, 16], 0⟩ .numB 0 1 t%"$0F+1" := by
  constructor <;> decide +kernel
example : asmInstr t%"LD A,$0F+1" 0 = .ok [62, 16] := by decide +kernel
example : OpSpelled ⟨⟨false, false⟩, .n, .n, memOf 0 [221, 126, 251], 0⟩ .idxX 0 2 t%"(IX-%101)" := by
  refine ⟨?_, ?_, ?_, ?_⟩ <;> decide +kernel
example : asmInstr t%"LD A,(IX-%101)" 0 = .ok [221, 126, 251] := by decide +kernel
-- the hypotheses of `instruction_roundtrip` are satisfiable: every byte of `memOf` is a byte
example : ∀ i, memOf 0 [253, 203, 5, 48] i < 256 := by
  intro i; unfold memOf
  generalize (i + 65536 - 0) % 65536 = k
  match k with
  | 0 | 1 | 2 | 3 => decide
  | n + 4 => simp

end C02
