import SkoolVerif.Proofs.C02Data
import SkoolVerif.Proofs.C02Jump
import SkoolVerif.Proofs.C02Case
import SkoolVerif.Proofs.C02Tokens
/-!
C02 — assembler and disassembler are mutual inverses.  Property theorems only;
helper lemmas live in `SkoolVerif/Proofs/C02*.lean`.

Models (hand-written, tied to /repo by the correspondence check
`harness/props/c02.py`):
* `SkoolVerif/Model/OpText.lean`  — disassembler side: `OperandFormatter._num_str`,
  `index_offset`, `jr_arg`, `get_message`, `defb_items`, DEFW/DEFS rendering;
* `SkoolVerif/Model/AsmEval.lean` — assembler side: `get_int_param`, Python `int()`,
  `split_quoted`, `_convert_chars`, `_convert_nums`, the arithmetic `eval`,
  `eval_int`, `eval_string`, `split_unquoted`, `split_operands`, `_parse_expr`,
  `_parse_offset`, `_address_offset`, `convert_case`, `_assemble_def{b,s,w}`.

Text is a list of code points.  All theorems are for unbounded inputs (every
value, every byte list, every address) and every configuration
(`asm_hex`, `asm_lower`) and base (`b c d h m n`).
-/
namespace C02
open OpText AsmEval OperandSpec C02L

/-! ## Layer B — operand text -/

/-- Digits round trip in every base ≥ 2 (used for 2, 10, 16). -/
theorem digits_roundtrip (b : Nat) (hb : 2 ≤ b) (n : Nat) : ofDigits b (toDigits b n) = n :=
  ofDigits_toDigits b hb n

/-- **Operand round trip.**  For a byte (`nbytes = 1`) or word (`nbytes = 2`)
value, whatever text `OperandFormatter._num_str` produces — binary `%…`,
character `"c"` / `"\""` / `"c"+128` / `"c"+$80`, decimal, `$hex` (upper or
lower case), negative `-N` / `-$HH` (with `-0` for zero), default base decimal
or hex — is evaluated by `Assembler._parse_expr` (→ `eval_int`) back to exactly
that value. -/
theorem operand_roundtrip (cfg : Cfg) (nbytes : Nat) (hn : nbytes = 1 ∨ nbytes = 2) (v : Nat)
    (hv : v < 256 ^ nbytes) (base : Base) :
    parseExpr (numStr cfg v nbytes base) (256 ^ nbytes) false false = .ok v :=
  parseExpr_numStr cfg nbytes hn v hv base

/-- The same through the tidying every *instruction* undergoes before it is
parsed (`convert_case(operation, lower=False, trim=True)`): upper-casing a
rendered operand leaves quoted characters alone and yields the upper-case
rendering, which evaluates to the value. -/
theorem operand_roundtrip_tidied (cfg : Cfg) (nbytes : Nat) (hn : nbytes = 1 ∨ nbytes = 2) (v : Nat)
    (hv : v < 256 ^ nbytes) (base : Base) :
    convertCase false true (numStr cfg v nbytes base) = numStr { cfg with lower := false } v nbytes base ∧
    parseExpr (convertCase false true (numStr cfg v nbytes base)) (256 ^ nbytes) false false = .ok v := by
  rw [cc_numStr]
  exact ⟨rfl, parseExpr_numStr _ nbytes hn v hv base⟩

/-- A non-negative rendering (any base but `m`) of *any* natural number below
the parser's limit reads back, whatever `num_bytes` was (the DEFS size is
formatted with `format_byte` even when it exceeds 255). -/
theorem operand_roundtrip_wide (cfg : Cfg) (nbytes v limit : Nat) (hv : v < limit) (base : Base)
    (hb : base ≠ .m) : parseExpr (numStr cfg v nbytes base) limit false false = .ok v :=
  parseExpr_numStr_wide cfg nbytes v limit hv base hb

/-- `_parse_expr` never returns a value outside `0 … limit-1`. -/
theorem parse_expr_in_range (t : Txt) (limit : Nat) (hl : 0 < limit) (br nn : Bool) (v : Nat)
    (h : parseExpr t limit br nn = .ok v) : v < limit :=
  parseExpr_lt t limit hl br nn v h

/-- `split_unquoted` (split on the separator, re-join quoted pieces) equals the
one-pass character-level scanner `OperandSpec.splitCL`, for every text. -/
theorem split_unquoted_spec (sep : Nat) (h34 : sep ≠ 34) (h92 : sep ≠ 92) (t : Txt) :
    splitUnquoted sep t = splitCL sep false false [] t :=
  splitUnquoted_eq_spec sep h34 h92 t

/-- **split ∘ render = id.**  Comma-joining any non-empty list of rendered
operands (any values, bases, configurations — including the characters `","`,
`"\""`, `"\\"`) and running `split_operands` returns exactly the operands. -/
theorem split_render (cfg : Cfg) (ops : List (Nat × Nat × Base)) (hne : ops ≠ []) :
    splitOperands (joinSep 44 (ops.map fun o => numStr cfg o.1 o.2.1 o.2.2)) =
      ops.map fun o => numStr cfg o.1 o.2.1 o.2.2 := by
  apply splitOperands_joinSep _ (by simpa using hne)
  intro it hit
  simp only [List.mem_map] at hit
  obtain ⟨o, _, rfl⟩ := hit
  exact numStr_item cfg o.1 o.2.1 o.2.2

/-! ## DEFB / DEFM / DEFW / DEFS statements -/

/-- **`get_message` round trip** for every byte list: the items are
comma-safe and assemble (`eval_string` for the quoted runs with `\"`, `\\`
escapes, `parse_byte` for the rest) back to the bytes. -/
theorem message_roundtrip (cfg : Cfg) (data : List Nat) (hd : ∀ b ∈ data, b < 256) (hne : data ≠ []) :
    splitOperands (joinSep 44 (getMessage cfg data)) = getMessage cfg data ∧
    assembleDefb (getMessage cfg data) = .ok data := by
  obtain ⟨hitems, hasm⟩ := getMessage_ok cfg data hd
  exact ⟨splitOperands_joinSep _ (assembleDefb_ne_nil _ _ hasm hne) hitems, hasm⟩

/-- **DEFB / DEFM statement round trip**, any sublength structure: the statement
text (directive in either case + comma-joined items) goes through the DEFx
branch of `Assembler._assemble` and gives the covered bytes. -/
theorem defb_roundtrip (cfg : Cfg) (defm : Bool) (data : List Nat) (subs : List (Nat × Base))
    (hd : ∀ b ∈ data, b < 256) (hne : coveredAux data.length data subs ≠ []) :
    assembleData (defbDir cfg defm data subs) = some (.ok (coveredAux data.length data subs)) :=
  defb_roundtrip_covered cfg defm data subs hd hne

/-- … in particular with one base for the whole statement (`B a,n,base` /
`T a,n`): exactly the bytes. -/
theorem defb_roundtrip_single (cfg : Cfg) (defm : Bool) (data : List Nat) (base : Base)
    (hd : ∀ b ∈ data, b < 256) (hne : data ≠ []) :
    assembleData (defbDir cfg defm data [(0, base)]) = some (.ok data) := by
  have := defb_roundtrip_covered cfg defm data [(0, base)] hd (by rw [covered_single]; exact hne)
  rwa [covered_single] at this

/-- **DEFW statement round trip** (every even, non-empty byte list, every base). -/
theorem defw_roundtrip (cfg : Cfg) (data : List Nat) (base : Base) (n : Nat)
    (hlen : data.length = 2 * (n + 1)) (hd : ∀ b ∈ data, b < 256) :
    assembleData (defwDir cfg data base) = some (.ok data) :=
  C02L.defw_roundtrip cfg data base n hlen hd

/-- **DEFS statement round trip.** -/
theorem defs_roundtrip (cfg : Cfg) (count value : Nat) (sb : Base) (vb : Option Base)
    (hc : count < 65536) (hv : value < 256) (hsb : sb ≠ .m) :
    assembleData (defsDir cfg count value sb vb) = some (.ok (List.replicate count value)) :=
  C02L.defs_roundtrip cfg count value sb vb hc hv hsb

/-! ## Layer A — relative jumps and index offsets -/

/-- **Relative jump round trip**, all addresses and offsets: when `jr_arg`
renders a target (in any base), `_address_offset` re-creates the offset byte. -/
theorem jr_roundtrip (cfg : Cfg) (base : Base) (a off t : Nat) (ha : a < 65536) (ho : off < 256)
    (h : jrTarget a off = some t) : addressOffset a (formatWord cfg t base) = .ok off := by
  have ht := (jrTarget_some a off t h).1
  have hw : parseWord (formatWord cfg t base) = .ok t := by
    have := parseExpr_numStr cfg 2 (Or.inr rfl) t (by simpa using ht) base
    simpa [parseWord, formatWord] using this
  simp only [addressOffset, hw, R.bind]
  exact addressOffsetV_jrTarget a off t ha ho h

/-- `jr_arg` falls back to a DEFB exactly when the target leaves 0…65535 (the
disassembler never wraps a jump target, although the assembler accepts it). -/
theorem jr_defb_iff (a off : Nat) :
    jrTarget a off = none ↔
      (off < 128 ∧ 65536 ≤ a + 2 + off) ∨ (128 ≤ off ∧ (a + off < 254 ∨ 65536 + 254 ≤ a + off)) :=
  jrTarget_none_iff a off

/-- **Relative jump range**, stated outright for all addresses and targets:
`_address_offset` accepts exactly the distances −126…+129 modulo 64K (so
also across the 64K boundary, in both directions) and encodes them as
`distance − 2 (mod 256)`. -/
theorem reljump_range (a t b : Nat) (ha : a < 65536) (ht : t < 65536) :
    addressOffsetV a t = .ok b ↔
      (((t + 65536 - a) % 65536 ≤ 129 ∨ 65410 ≤ (t + 65536 - a) % 65536) ∧
        b = ((t + 65536 - a) % 65536 + 254) % 256) :=
  addressOffsetV_spec a t b ha ht

/-- The encoded byte means what the Z80 does with it: `PC+2+signed(b)` is the
target (mod 64K). -/
theorem reljump_semantics (a t b : Nat) (ha : a < 65536) (ht : t < 65536)
    (h : addressOffsetV a t = .ok b) : b < 256 ∧ relTarget a b = t :=
  addressOffsetV_sem a t b ha ht h

/-- Part 2 of the property for relative jumps (assemble → disassemble →
assemble): the byte `_address_offset` produced for *any* accepted target —
wrapped or not — decodes either to a target that re-assembles to the same
byte, or (when the Z80 target lies across the 64K boundary) to no target at
all, in which case the decoder emits the two bytes as a DEFB. -/
theorem jr_converse (cfg : Cfg) (base : Base) (a t b : Nat) (ha : a < 65536) (ht : t < 65536)
    (h : addressOffsetV a t = .ok b) :
    (∃ t', jrTarget a b = some t' ∧ t' = t ∧ addressOffset a (formatWord cfg t' base) = .ok b) ∨
    (jrTarget a b = none ∧ (65536 ≤ a + 2 + b ∨ a + b < 254 ∨ 65536 + 254 ≤ a + b)) := by
  obtain ⟨hb, hsem⟩ := addressOffsetV_sem a t b ha ht h
  cases hj : jrTarget a b with
  | some t' =>
    left
    have e := jrTarget_eq_relTarget a b t' ha hb hj
    refine ⟨t', rfl, by rw [e, hsem], jr_roundtrip cfg base a b t' ha hb hj⟩
  | none =>
    right
    refine ⟨rfl, ?_⟩
    have := (jrTarget_none_iff a b).mp hj
    omega

/-- **Index offset round trip** for all 256 displacement bytes, every base and
configuration, `IX` and `IY`: `_parse_offset('(IX' + index_offset(d) + ')') = d`
(`+N` for d < 128, `-N` with N = 256 − d otherwise; `+-N` / `--N` in base `m`). -/
theorem index_roundtrip (cfg : Cfg) (reg : Nat) (hreg : reg = 88 ∨ reg = 89) (i : Nat) (hi : i < 256)
    (base : Base) : parseOffset ([40, 73, reg] ++ indexOffset cfg i base ++ [41]) = .ok i :=
  parseOffset_indexOffset cfg reg hreg i hi base

/-- Part 2 of the property for index operands: whatever operand text
`_parse_offset` accepts (`(IX+expr)`, `(IY-expr)`, any expression, including
`(IX-0)`), the displacement byte it yields is rendered by `index_offset` to
text that `_parse_offset` maps to the same byte. -/
theorem index_converse (cfg : Cfg) (reg : Nat) (hreg : reg = 88 ∨ reg = 89) (base : Base) (op : Txt) (d : Nat)
    (h : parseOffset op = .ok d) :
    parseOffset ([40, 73, reg] ++ indexOffset cfg d base ++ [41]) = .ok d :=
  parseOffset_indexOffset cfg reg hreg d (parseOffset_lt op d h) base

/-- Part 2 for plain byte / word operands: whatever text `_parse_expr` accepts
(any spelling, any expression), the value it yields is rendered by `_num_str`
to text that evaluates to the same value. -/
theorem operand_converse (cfg : Cfg) (nbytes : Nat) (hn : nbytes = 1 ∨ nbytes = 2) (base : Base) (t : Txt)
    (br nn : Bool) (v : Nat) (h : parseExpr t (256 ^ nbytes) br nn = .ok v) :
    parseExpr (numStr cfg v nbytes base) (256 ^ nbytes) false false = .ok v :=
  parseExpr_numStr cfg nbytes hn v
    (parseExpr_lt t _ (by rcases hn with rfl | rfl <;> simp) br nn v h) base

/-- `_parse_offset` only ever yields a byte: no operand text makes the assembler
emit the non-byte 256 (regression theorem for the `(IX-0)` defect fixed by
`% 256`). -/
theorem parse_offset_is_byte (op : Txt) (v : Nat) (h : parseOffset op = .ok v) : v < 256 :=
  parseOffset_lt op v h

/-! ## Tokenising an instruction -/

/-- **`split_operation` on a rendered instruction**: for a mnemonic and
operands built from template text and quoted characters (`Seg`), tidying
(`convert_case`), splitting off the mnemonic and `split_operands` yield the
upper-cased mnemonic and the operands, upper-cased outside quotes and untouched
inside (so `(ix+"a")` ↦ `(IX+"a")`, `","` stays one operand). -/
theorem instruction_tokens (mn : Txt) (hmn : PlainTxt mn) (ops : List (List Seg)) (hne : ops ≠ [])
    (hops : ∀ o ∈ ops, o ≠ [] ∧ ∀ s ∈ o, s.ok) :
    splitOperation (mn ++ 32 :: joinSep 44 (ops.map renderSegs)) = mn.map upperC :: ops.map upperSegs :=
  splitOperation_render mn hmn ops hne hops

/-- Every rendered number is such a run of segments, and its tidied form is
its upper-case rendering. -/
theorem rendered_operand_segments (cfg : Cfg) (v nbytes : Nat) (base : Base) :
    ∃ segs : List Seg, segs ≠ [] ∧ (∀ s ∈ segs, s.ok) ∧ renderSegs segs = numStr cfg v nbytes base ∧
      upperSegs segs = numStr { cfg with lower := false } v nbytes base :=
  numStr_segs cfg v nbytes base

/-- **Text pipeline of a `MN r,n` instruction**, end to end on the model: the
operation the disassembler prints for a register operand `op1` and a byte
operand `v` (any base / case / hex) is tokenised into mnemonic, register and a
token that `parse_byte` evaluates to `v`. -/
theorem byte_operand_pipeline (cfg : Cfg) (mn op1 : Txt) (hmn : PlainTxt mn) (hop : PlainTxt op1)
    (v : Nat) (hv : v < 256) (base : Base) :
    ∃ tok, splitOperation (mn ++ 32 :: joinSep 44 [op1, numStr cfg v 1 base]) =
        [mn.map upperC, op1.map upperC, tok] ∧ parseByte tok = .ok v := by
  obtain ⟨segs, hne, hok, hr, hu⟩ := numStr_segs cfg v 1 base
  refine ⟨numStr { cfg with lower := false } v 1 base, ?_, ?_⟩
  · have := splitOperation_render mn hmn [[.plain op1], segs] (by simp) (by
      intro o ho
      simp only [List.mem_cons, List.not_mem_nil, or_false] at ho
      rcases ho with rfl | rfl
      · exact ⟨by simp, by intro s hs; simp at hs; subst hs; exact hop⟩
      · exact ⟨hne, hok⟩)
    rw [← hr, ← hu]
    simpa [renderSegs, upperSegs, Seg.render, Seg.upper] using this
  · have := parseExpr_numStr { cfg with lower := false } 1 (Or.inl rfl) v (by simpa using hv) base
    simpa [parseByte] using this

/-! ## Sanity / non-vacuity: concrete values taken from the real tools -/

-- LD A,"A"+$80  (193, base c, hex, lower)
example : numStr ⟨true, true⟩ 193 1 .c = [34, 65, 34, 43, 36, 56, 48] := by decide +kernel
example : evalInt [34, 65, 34, 43, 36, 56, 48] = .ok 193 := by decide +kernel
-- `"\""` and `"\\"`
example : numStr ⟨false, false⟩ 34 1 .c = [34, 92, 34, 34] := by decide +kernel
example : evalInt [34, 92, 92, 34] = .ok 92 := by decide +kernel
-- base m: 255 ↦ -1, 0 ↦ -0 (was -256, rejected by the assembler, before the fix)
example : numStr ⟨false, false⟩ 255 1 .m = [45, 49] := by decide +kernel
example : numStr ⟨false, false⟩ 0 1 .m = [45, 48] := by decide +kernel
example : numStr ⟨true, false⟩ 0 2 .m = [45, 36, 48, 48, 48, 48] := by decide +kernel
example : parseExpr [45, 50, 53, 54] 256 false false = .valErr := by decide +kernel   -- `-256`
example : parseExpr [45, 48] 256 false false = .ok 0 := by decide +kernel
-- %binary, word
example : numStr ⟨false, false⟩ 258 2 .b =
    [37, 48, 48, 48, 48, 48, 48, 48, 49, 48, 48, 48, 48, 48, 48, 49, 48] := by decide +kernel
-- splitting `",",5,"\"","\\"`
example : splitOperands [34, 44, 34, 44, 53, 44, 34, 92, 34, 34, 44, 34, 92, 92, 34] =
    [[34, 44, 34], [53], [34, 92, 34, 34], [34, 92, 92, 34]] := by decide +kernel
-- DEFM "a,\"b",0  ↦ 97 44 34 98 0
example : defbDir ⟨false, false⟩ true [97, 44, 34, 98, 0] [(0, .c)] =
    [68, 69, 70, 77, 32, 34, 97, 44, 92, 34, 98, 34, 44, 48] := by decide +kernel
example : assembleData [68, 69, 70, 77, 32, 34, 97, 44, 92, 34, 98, 34, 44, 48] =
    some (.ok [97, 44, 34, 98, 0]) := by decide +kernel
-- relative jumps: JR at 65534 with offset 0 has no in-range target (DEFB); the assembler wraps
example : jrTarget 65534 0 = none := by decide +kernel
example : addressOffsetV 65534 0 = .ok 0 := by decide +kernel
example : addressOffsetV 0 65410 = .ok 128 := by decide +kernel       -- −126 across the boundary
example : addressOffsetV 0 65409 = .valErr := by decide +kernel
example : addressOffsetV 65535 128 = .ok 127 := by decide +kernel     -- +129 across the boundary
example : jrTarget 100 254 = some 100 := by decide +kernel
-- index offsets; `(IX-0)` now assembles to 0, not 256
example : indexOffset ⟨false, false⟩ 200 .d = [45, 53, 54] := by decide +kernel
example : parseOffset [40, 73, 88, 45, 48, 41] = .ok 0 := by decide +kernel
example : parseOffset [40, 73, 89, 45, 49, 41] = .ok 255 := by decide +kernel
-- ld (ix+"a"),","  ↦  LD | (IX+"a") | ","
example : splitOperation [108, 100, 32, 40, 105, 120, 43, 34, 97, 34, 41, 44, 34, 44, 34] =
    [[76, 68], [40, 73, 88, 43, 34, 97, 34, 41], [34, 44, 34]] := by decide +kernel
-- quirks kept by the model: SyntaxError is not a ValueError, `%` is modulo after `)` or a number
example : evalInt [] = .otherErr := by decide +kernel
example : evalInt [40, 51, 41, 37, 49, 48, 49] = .ok 3 := by decide +kernel      -- (3)%101
example : evalInt [51, 43, 37, 49, 48, 49] = .ok 8 := by decide +kernel          -- 3+%101
example : evalInt [45, 55, 47, 50] = .ok (-4) := by decide +kernel               -- -7/2 floors

end C02
