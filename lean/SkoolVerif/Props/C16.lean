import SkoolVerif.Proofs.PathAlgLemmas
import SkoolVerif.Proofs.HtmlSiteLemmas
/-!
C16 — every internal link of the generated HTML resolves.  Property theorems
only; helper lemmas live in `SkoolVerif/Proofs/`.

Models: `SkoolVerif/Model/PathAlg.lean` (posixpath / skoolhtml.join on path
strings as component lists) and `SkoolVerif/Model/HtmlSite.lean` (the files
and anchors `HtmlWriter.write_*` emit and the hrefs `_asm_relpath`, `expand_r`
and `_get_asm_entry` compute), both tied to /repo by the correspondence check
`harness/props/c16.py`.
-/
namespace C16
open PathAlg

variable {α : Type} [DecidableEq α]

/-! ## Path algebra -/

/-- **relpath resolves.**  For every working directory `base`, every relative
directory string `start` (any spelling: '', 'a//b', './a/', 'a/../b', leading
'..') and every non-empty relative target string, `posixpath.relpath(target,
start)` succeeds, and joining it back onto `start` denotes the same absolute
file as `target`. -/
theorem relpath_resolves (base : List α) (start target : Path α)
    (hs : IsRel start) (ht : IsRel target) (hne : isEmptyStr target = false) :
    ∃ r, relpath base target start = .ok r ∧
      abspath base (posixJoin start r) = abspath base target := by
  refine ⟨_, relpath_rel base target start hs ht hne, ?_⟩
  have hT := absComps_allNames base target
  obtain ⟨s', hj, hrel, hfold⟩ :=
    posixJoin_rel start (relOut (absComps base start) (absComps base target)) hs
      (relOut_ne_nil _ _) (noEmpty_relOut _ _ hT)
  rw [hj]
  exact abspath_congr base _ _ hrel ht (absComps_join_relOut base s' start target hfold)

/-- The link text never contains an empty component (no leading, trailing or
doubled slash), so it is a relative reference, and it is never the empty string. -/
theorem relpath_shape (base : List α) (start target : Path α)
    (hs : IsRel start) (ht : IsRel target) (hne : isEmptyStr target = false) :
    ∃ r, relpath base target start = .ok r ∧ r ≠ [] ∧ NoEmpty r ∧ isAbs r = false := by
  have hT := absComps_allNames base target
  refine ⟨_, relpath_rel base target start hs ht hne, relOut_ne_nil _ _, noEmpty_relOut _ _ hT, ?_⟩
  rw [isAbs_false_iff]
  exact takeWhile_isEmpty_noEmpty (noEmpty_dropLast (noEmpty_relOut _ _ hT))

/-- **A browser resolves it too.**  RFC 3986 dot-segment removal of the
reference against the (normalised, absolute) directory of the page gives the
normalised absolute target — the resolution the independent crawler of the
end-to-end check implements agrees with `posixpath`. -/
theorem relpath_resolves_rfc (base : List α) (start target : Path α)
    (hs : IsRel start) (ht : IsRel target) (hne : isEmptyStr target = false) :
    ∃ r, relpath base target start = .ok r ∧
      rfcResolve (absComps base start) r = absComps base target := by
  refine ⟨_, relpath_rel base target start hs ht hne, ?_⟩
  have hA := absComps_allNames base start
  have hT := absComps_allNames base target
  unfold rfcResolve
  rw [List.foldl_append, foldl_rfc_eq _ (hA.noEmpty) _ AllNames.nil, foldl_names _ _ hA,
    foldl_rfc_eq _ (noEmpty_relOut _ _ hT) _ (by simpa using hA.reverse)]
  have := foldl_relOut_abs _ _ hA hT
  simp only [List.append_nil] at *
  rw [this]
  simpa using hT.filter_nonempty

/-- **Clean paths** (what the default `[Paths]` contain: names only).  The link
from directory `cwd` to file `target` does not depend on the process's working
directory, is `'..'` × (depth of `cwd` below the common prefix) followed by the
rest of `target`, and `normpath(join(cwd, link)) == target`. -/
theorem relpath_resolves_clean (base cwd target : List α) (ht : target ≠ []) :
    ∃ r, relpath base (target.map Seg.name) (dirStr cwd) = .ok r ∧
      r = relOut (cwd.map Seg.name) (target.map Seg.name) ∧
      normpath (posixJoin (dirStr cwd) r) = target.map Seg.name := by
  have hC := allNames_map_name cwd
  have hT := allNames_map_name target
  have hrel := relpath_rel base (target.map Seg.name) (dirStr cwd) (isRel_dirStr cwd)
    (isRel_names target ht) (isEmptyStr_names target)
  rw [absComps_dirStr, absComps_names, relOut_append] at hrel
  refine ⟨_, hrel, rfl, ?_⟩
  have hne := noEmpty_relOut (cwd.map Seg.name) (target.map Seg.name) hT
  rw [posixJoin_dirStr cwd _ (isAbs_noEmpty hne)]
  apply normpath_noEmpty _ (noEmpty_append hC.noEmpty hne) _ (by simpa using ht)
  simp only [normComps, List.foldl_append, foldl_names false _ hC, List.append_nil]
  rw [foldl_relOut_rel _ _ hC hT]
  simp

omit [DecidableEq α] in
/-- `normpath` is idempotent on every path string (absolute or relative, any
number of leading slashes): `asm_fname` and `relpath` return normal forms. -/
theorem normpath_idempotent (p : Path α) : normpath (normpath p) = normpath p :=
  normpath_idem p

/-- A page links to a file in its own directory by the bare file name, and
`relpath(p, p) == '.'`. -/
theorem relpath_self (base : List α) (p : Path α) (hp : IsRel p) (hne : isEmptyStr p = false) :
    relpath base p p = .ok [Seg.cur] := by
  rw [relpath_rel base p p hp hp hne]
  simp [relOut, relList, commonLen_self]


/-! ## The abstract site -/
section site
open HtmlSite
variable {ι β : Type} [DecidableEq ι]

/-- **anchor_unique.**  On a well-formed site whose `AddressAnchor` format is
injective, no two instructions of the non-ignored entries of a disassembly get
the same anchor (so the single page, and a fortiori every entry page, defines
exactly one anchor name per linkable address), and an address belongs to
exactly one entry (so in multi-page mode exactly one page defines its anchor). -/
theorem anchor_unique (s : Site ι α β) (hwf : WF s) (hinj : ∀ a b, s.anchorOf a = s.anchorOf b → a = b)
    (c : Code ι α) (hc : c ∈ s.codes) :
    ((c.mm.flatMap Entry.addrs).map s.anchorOf).Nodup ∧
      ∀ e₁ ∈ c.mm, ∀ e₂ ∈ c.mm, ∀ a, a ∈ e₁.addrs → a ∈ e₂.addrs → e₁ = e₂ := by
  constructor
  · have h := nodup_flatMap_filter c.entries (fun e => e.ctl != ctlI) (hwf.instrsNodup c hc)
    exact List.Pairwise.map s.anchorOf (fun a b hab heq => hab (hinj a b heq)) h
  · intro e₁ h₁ e₂ h₂ a ha₁ ha₂
    exact entry_unique c.entries (hwf.instrsNodup c hc) e₁ e₂ (mem_mm.mp h₁).1 (mem_mm.mp h₂).1 a ha₁ ha₂

/-- **paths_injective.**  Multi-page mode, injective `CodeFiles` format, code
directories that differ after normalisation: two entry pages are written to
the same (normalised, absolute) path only if they are the same entry of the
same disassembly. -/
theorem paths_injective (s : Site ι α β) (hwf : WF s) (hfile : ∀ a b, s.fileOf a = s.fileOf b → a = b)
    (hdirs : ∀ c ∈ s.codes, ∀ d ∈ s.codes, absComps s.base c.codePath = absComps s.base d.codePath → c = d)
    (c d : Code ι α) (hc : c ∈ s.codes) (hd : d ∈ s.codes) (e₁ e₂ : Entry) (h₁ : e₁ ∈ c.mm) (h₂ : e₂ ∈ d.mm)
    (h : absComps s.base (entryPath s c.codePath e₁.addr) = absComps s.base (entryPath s d.codePath e₂.addr)) :
    c = d ∧ e₁ = e₂ := by
  rw [absComps_entryPath hwf c hc, absComps_entryPath hwf d hd] at h
  have hlen : (absComps s.base c.codePath).length = (absComps s.base d.codePath).length := by
    have := congrArg List.length h
    simp at this
    exact this
  obtain ⟨hdir, hfile'⟩ := List.append_inj h hlen
  have hcd := hdirs c hc d hd hdir
  subst hcd
  refine ⟨rfl, ?_⟩
  have haddr : e₁.addr = e₂.addr := hfile _ _ (by simpa using hfile')
  have he₁ := (mem_mm.mp h₁).1
  have he₂ := (mem_mm.mp h₂).1
  exact entry_unique c.entries (hwf.instrsNodup c hc) e₁ e₂ he₁ he₂ e₁.addr
    (hwf.entryHead c hc e₁ he₁) (haddr ▸ hwf.entryHead c hc e₂ he₂)

/-- The ref-file well-formedness condition of `paths_injective` is needed: two
disassemblies with the same code directory and a common entry address are
written to the same file. -/
example :
    let e : Entry := ⟨32768, ctlC, [⟨32768, none⟩]⟩
    let c1 : Code Nat Nat := ⟨0, [.name 1], [.name 2], [.name 3], [e], [], [], []⟩
    let c2 : Code Nat Nat := ⟨1, [.name 1], [.name 4], [.name 5], [e], [], [], []⟩
    let s : Site Nat Nat Nat := ⟨[], false, 0, id, id, id, [], false, 0, c1, [c2]⟩
    c1.id ≠ c2.id ∧
      absComps s.base (entryPath s c1.codePath e.addr) = absComps s.base (entryPath s c2.codePath e.addr) := by
  decide

/-- **link_target_exists (entry links).**  The `href` of an entry as shown on a
memory map, in Prev/Next and in the index of another page — computed for any
page whose link directory `cwd` denotes the page's real directory — names a
written file; in single-page mode its fragment is defined there. -/
theorem entry_href_resolves (s : Site ι α β) (hwf : WF s) (c : Code ι α) (hc : c ∈ s.codes)
    (e : Entry) (he : e ∈ c.mm) (pp cwd : Path α) (hg : Good s pp cwd) :
    ∃ h, entryHref s c cwd e = .ok h ∧ Resolves s pp h := by
  unfold entryHref
  cases hs : s.single
  · obtain ⟨h, h1, h2, h3⟩ := asm_link_multi hwf hs c c hc e he none rfl pp cwd hg
    refine ⟨h, h1, ?_⟩
    have := h3 none (by simp)
    cases h with
    | mk p f => simp only at h2; subst h2; exact this
  · have hee := hwf.entryHead c hc e (mem_mm.mp he).1
    exact asm_link_single hwf hs c c hc e he e.addr hee none rfl pp cwd hg

/-- **link_target_exists ('Up' links).**  The `map_href` of an entry names the
written memory-map page and the anchor of the entry is defined there. -/
theorem map_href_resolves (s : Site ι α β) (hwf : WF s) (c : Code ι α) (hc : c ∈ s.codes)
    (e : Entry) (he : e ∈ c.mm) (pp cwd : Path α) (hg : Good s pp cwd) :
    ∃ h, mapHref s c cwd e = .ok h ∧ Resolves s pp h := by
  obtain ⟨hrel, hne⟩ := hwf.relMap c hc
  obtain ⟨r, hr, hres⟩ := rel_resolves (β := β) s pp cwd _ hg hrel hne
  obtain ⟨pg, hpg, hpath, hanch⟩ := up_map_mem hwf c hc
  refine ⟨⟨r, some (.fmt (s.anchorOf e.addr))⟩, by simp [mapHref, hr], pg, hpg, ?_, ?_⟩
  · rw [hpath]; exact hres _
  · intro b hb
    simp only [Option.some.injEq, Frag.fmt.injEq] at hb
    subst hb
    exact hanch e he

/-- **link_target_exists (#R within a disassembly).**  `#Raddr` and
`#Raddr#entry` for the address of any instruction of a non-ignored entry of
the current disassembly expand to a link that resolves (file written, anchor
defined). -/
theorem r_link_resolves (s : Site ι α β) (hwf : WF s) (c : Code ι α) (hc : c ∈ s.codes)
    (e : Entry) (he : e ∈ c.mm) (a : Nat) (ha : a ∈ e.addrs)
    (anchor : Option Nat) (hanc : anchor = none ∨ anchor = some e.addr)
    (pp cwd : Path α) (hg : Good s pp cwd) :
    ∃ h, rHref s c cwd a none anchor = .ok h ∧ Resolves s pp h := by
  have hloc := localContainer_eq hwf c hc e (mem_mm.mp he).1 a ha
  unfold rHref
  simp only [hloc, Option.map_some, Option.isNone_none, Bool.true_or, Option.isNone_some,
    Bool.and_false, Bool.false_eq_true, if_false, Option.getD_some]
  cases hs : s.single
  · simp only [Bool.false_eq_true, if_false]
    obtain ⟨h, h1, _, h3⟩ := asm_link_multi hwf hs c c hc e he none rfl pp cwd hg
    rw [h1]
    refine ⟨_, rfl, h3 _ ?_⟩
    intro b hb
    rcases hanc with rfl | rfl
    · by_cases hae : a = e.addr
      · simp [hae] at hb
      · simp only [ne_eq, hae, not_false_eq_true, if_true, Option.some.injEq, Frag.fmt.injEq] at hb
        exact ⟨a, ha, hb.symm⟩
    · simp only [if_true, Option.some.injEq, Frag.fmt.injEq] at hb
      exact ⟨e.addr, hwf.entryHead c hc e (mem_mm.mp he).1, hb.symm⟩
  · simp only [if_true]
    exact asm_link_single hwf hs c c hc e he a ha none rfl pp cwd hg

/-- **link_target_exists (#R into another disassembly).**  `#Raddr@code`
(code id in any case in multi-page mode, as typed in single-page mode) for an
entry address of the other disassembly, or for an entry point declared by a
truthful `@remote`, expands to a link that resolves. -/
theorem r_remote_link_resolves (s : Site ι α β) (hwf : WF s) (c d : Code ι α) (hc : c ∈ s.codes)
    (hd : d ∈ s.codes) (i : ι) (hi : if s.single then i = d.id else s.lower i = s.lower d.id)
    (hne : i ≠ c.id) (e : Entry) (he : e ∈ d.mm) (a : Nat) (ha : a ∈ e.addrs)
    (hdecl : a = e.addr ∨ ∃ r ∈ c.remotes, s.lower r.asmId = s.lower i ∧ a ∈ r.addrs)
    (anchor : Option Nat) (hanc : anchor = none ∨ anchor = some e.addr)
    (pp cwd : Path α) (hg : Good s pp cwd) :
    ∃ h, rHref s c cwd a (some i) anchor = .ok h ∧ Resolves s pp h := by
  have hlow : s.lower i = s.lower d.id := by
    cases hs : s.single <;> simp [hs] at hi
    · exact hi
    · rw [hi]
  have hcont := remoteContainer_addr hwf c d hc hd i hlow e he a ha hdecl
  have hbeq : (some i == some c.id) = false := by simp [hne]
  unfold rHref
  simp only [Option.isNone_some, hbeq, Bool.or_self, Bool.false_and, Bool.false_eq_true, if_false, hcont]
  cases hs : s.single
  · simp only [Bool.false_eq_true, if_false]
    obtain ⟨h, h1, _, h3⟩ := asm_link_multi hwf hs c d hd e he (some i) hlow pp cwd hg
    rw [h1]
    refine ⟨_, rfl, h3 _ ?_⟩
    intro b hb
    rcases hanc with rfl | rfl
    · by_cases hae : a = e.addr
      · simp [hae] at hb
      · simp only [ne_eq, hae, not_false_eq_true, if_true, Option.some.injEq, Frag.fmt.injEq] at hb
        exact ⟨a, ha, hb.symm⟩
    · simp only [if_true, Option.some.injEq, Frag.fmt.injEq] at hb
      exact ⟨e.addr, hwf.entryHead d hd e (mem_mm.mp he).1, hb.symm⟩
  · simp only [if_true]
    have hid : i = d.id := by simpa [hs] using hi
    exact asm_link_single hwf hs c d hd e he a ha (some i) hid pp cwd hg

/-- **link_target_exists (operand hyperlinks).**  Whenever `_get_asm_entry`
turns the address operand of an instruction into a hyperlink — to an entry or
entry point of the same disassembly or, through `@remote`, of another one, in
multi-page and in single-page mode — the link resolves: the file is written
and the anchor of the referenced instruction is defined in it.  (`pp` is the
page showing the instruction; in single-page mode that is the single page of
`c`.) -/
theorem operand_link_resolves (s : Site ι α β) (hwf : WF s) (c : Code ι α) (hc : c ∈ s.codes)
    (e : Entry) (ia : Nat) (op : OpKind) (t : Nat) (pp cwd : Path α) (hg : Good s pp cwd)
    (hpp : s.single = true → pp = c.singlePath)
    (res : Except HrefErr (Href α β)) (h : operandHref s c cwd e ia op t = some res) :
    ∃ hr, res = .ok hr ∧ Resolves s pp hr := by
  unfold operandHref at h
  cases href : resolveRef c op t with
  | none => rw [href] at h; cases h
  | some ref =>
    rw [href] at h
    simp only at h
    obtain ⟨haddr, hcase⟩ := resolveRef_spec hwf c hc op t ref href
    split at h
    · cases h
    split at h
    · cases h
    cases hs : s.single
    · -- multi-page mode
      rw [hs] at h
      simp only [Bool.false_eq_true, if_false] at h
      obtain ⟨d, hd, e', he', headdr, ht, hcid⟩ :
          ∃ d ∈ s.codes, ∃ e' ∈ d.mm, e'.addr = ref.entryAddr ∧ t ∈ e'.addrs ∧
            s.lower (ref.asmId.getD c.id) = s.lower d.id := by
        rcases hcase with ⟨hnone, e', he', h1, h2⟩ | ⟨i, hsome, d, hd, hid, e', he', h1, h2⟩
        · exact ⟨c, hc, e', he', h1, h2, by simp [hnone]⟩
        · exact ⟨d, hd, e', he', h1, h2, by simp [hsome, hid]⟩
      obtain ⟨h0, h1, h2, h3⟩ := asm_link_multi hwf hs c d hd e' he' ref.asmId hcid pp cwd hg
      rw [headdr] at h1
      rw [h1] at h
      simp only at h
      split at h
      · simp only [Option.some.injEq] at h
        subst h
        refine ⟨_, rfl, h3 _ ?_⟩
        intro b hb
        simp only [Option.some.injEq, Frag.fmt.injEq] at hb
        exact ⟨t, ht, by rw [← hb, haddr]⟩
      · simp only [Option.some.injEq] at h
        subst h
        refine ⟨_, rfl, ?_⟩
        have := h3 none (by simp)
        cases h0 with
        | mk p f => simp only at h2; subst h2; exact this
    · -- single-page mode
      rw [hs] at h
      simp only [if_true] at h
      rcases hcase with ⟨hnone, e', he', _, h2⟩ | ⟨i, hsome, d, hd, hid, e', he', _, h2⟩
      · rw [hnone] at h
        simp only [Option.some.injEq] at h
        subst h
        obtain ⟨pg, hpg, hpath, hanch⟩ := single_page_mem s hs c hc
        refine ⟨_, rfl, pg, hpg, ?_, ?_⟩
        · simp [targetOf, isEmptyStr, hpp hs, hpath]
        · intro b hb
          simp only [Option.some.injEq, Frag.fmt.injEq] at hb
          subst hb
          rw [haddr]
          exact hanch e' he' t h2
      · rw [hsome] at h
        simp only [Option.some.injEq] at h
        subst h
        rw [haddr]
        exact asm_link_single hwf hs c d hd e' he' t h2 (some i) hid.symm pp cwd hg

/-- **The error branch of `#R`.**  The macro is rejected with 'Address not
found' exactly when no code id (or the writer's own id) is given and the
parser has no instruction at the address for that id; every other failure of
the real code is a different exception (unknown code id: `SkoolKitError` in
multi-page, `KeyError` in single-page mode). -/
theorem r_not_found_iff (s : Site ι α β) (c : Code ι α) (cwd : Path α) (a : Nat) (cid : Option ι)
    (anchor : Option Nat) :
    rHref s c cwd a cid anchor = .error .notFound ↔
      (cid = none ∧ localContainer c a = none) ∨ (cid = some c.id ∧ remoteContainer s c a c.id = none) := by
  unfold rHref
  cases cid with
  | none =>
    simp only [Option.isNone_none, Bool.true_or, Bool.true_and]
    cases hl : localContainer c a with
    | none => simp
    | some e =>
      simp only [Option.map_some, Option.isNone_some, Bool.false_eq_true, if_false]
      constructor
      · intro h; exact absurd h (rTail_ne_notFound _ _ _ _ _ _ _)
      · intro h; simp at h
  | some i =>
    by_cases hi : i = c.id
    · subst hi
      simp only [Option.isNone_some, BEq.rfl, Bool.or_true, Bool.true_and]
      by_cases hr : remoteContainer s c a c.id = none
      · simp [hr]
      · have hsome : ((remoteContainer s c a c.id).map (·.addr)).isNone = false := by
          cases h : remoteContainer s c a c.id with
          | none => exact absurd h hr
          | some r => rfl
        simp only [hsome, Bool.false_eq_true, if_false]
        constructor
        · intro h; exact absurd h (rTail_ne_notFound _ _ _ _ _ _ _)
        · intro h
          rcases h with ⟨h, _⟩ | ⟨_, h⟩
          · cases h
          · exact absurd h hr
    · have hb : (some i == some c.id) = false := by simp [hi]
      simp only [Option.isNone_some, hb, Bool.or_self, Bool.false_and, Bool.false_eq_true, if_false]
      constructor
      · intro h; exact absurd h (rTail_ne_notFound _ _ _ _ _ _ _)
      · intro h
        rcases h with ⟨h, _⟩ | ⟨h, _⟩
        · cases h
        · simp only [Option.some.injEq] at h; exact absurd h hi

/-- **The site is closed under its structural links.**  `siteLinks` enumerates
what the stock `asm`, `asm_single_page` and `memory_map` templates contain for
every written disassembly and memory-map page of every disassembly: Prev / Up /
Next, every hyperlinked operand, every memory-map entry link (the
correspondence check compares this enumeration with the links read back from
the real pages).  On a well-formed site each of them is computed without error
and names a written file that defines its fragment. -/
theorem all_links_resolve (s : Site ι α β) (hwf : WF s) (l : Link α β) (hl : l ∈ siteLinks s) :
    ∃ h, l.href = .ok h ∧ Resolves s l.page h := by
  obtain ⟨c, hc, hl⟩ := List.mem_flatMap.mp hl
  rcases List.mem_append.mp hl with hl | hl
  · -- disassembly pages
    unfold asmLinks asmCwd at hl
    cases hs : s.single
    · simp only [hs, Bool.false_eq_true, if_false] at hl
      obtain ⟨t, ht, hl⟩ := List.mem_flatMap.mp hl
      obtain ⟨p, e, n⟩ := t
      obtain ⟨he, hp, hn⟩ := withNeighbours_spec none c.mm _ ht
      simp only at he hp hn hl
      have hg := good_asm_multi hwf c hc e.addr
      simp only [List.append_assoc, List.mem_append] at hl
      rcases hl with hl | hl | hl | hl
      · cases p with
        | none => cases hl
        | some x =>
          simp only [List.mem_singleton] at hl
          subst hl
          have hx : x ∈ c.mm := by
            rcases hp x rfl with h | h
            · cases h
            · exact h
          exact entry_href_resolves s hwf c hc x hx _ _ hg
      · simp only [List.mem_singleton] at hl
        subst hl
        exact map_href_resolves s hwf c hc e he _ _ hg
      · cases n with
        | none => cases hl
        | some x =>
          simp only [List.mem_singleton] at hl
          subst hl
          exact entry_href_resolves s hwf c hc x (hn x rfl) _ _ hg
      · obtain ⟨hpage, ia, op, t, hop⟩ := operandLinks_spec s c _ _ e l hl
        rw [hpage]
        exact operand_link_resolves s hwf c hc e ia op t _ _ hg (by simp [hs]) _ hop
    · simp only [hs, if_true] at hl
      obtain ⟨e, _, hl⟩ := List.mem_flatMap.mp hl
      obtain ⟨hpage, ia, op, t, hop⟩ := operandLinks_spec s c _ _ e l hl
      rw [hpage]
      exact operand_link_resolves s hwf c hc e ia op t _ _
        (good_dirname s _ (hwf.relSingle c hc).1) (fun _ => rfl) _ hop
  · -- memory-map pages
    unfold mapLinks at hl
    obtain ⟨m, hm, hl⟩ := List.mem_flatMap.mp hl
    obtain ⟨e, he, rfl⟩ := List.mem_map.mp hl
    exact entry_href_resolves s hwf c hc e (List.mem_filter.mp he).1 _ _
      (good_dirname s _ (hwf.relMaps c hc m (List.mem_filter.mp hm).1))

/-! ### Non-vacuity: a concrete site meets the hypotheses, and concrete values

`HtmlSite.demo single` (Proofs/HtmlSiteLemmas.lean) has two disassemblies that refer to each
other through `@remote`, an ignored entry, labels, a code path spelt './other/' and a working
directory two levels deep.  Directory names: 1 = asm, 2 = maps, 3 = other; anchor of `a` is
`a + 100000`. -/

example (single : Bool) : WF (demo single) := demo_wf single

/-- the page of an entry and the directory its links are computed for -/
example : Good (demo false) (entryPath (demo false) demoMain.codePath 32768) demoMain.codePath :=
  good_asm_multi (demo_wf false) demoMain (main_mem _) 32768

example : Good (demo true) demoMain.singlePath (dirname demoMain.singlePath) :=
  good_dirname _ _ (by decide)

-- CALL 40003 (an entry point of the other disassembly, declared by @remote):
-- multi-page '../other/40000#a40003', single-page 'other/asm.html#a40003'
example : operandHref (demo false) demoMain [.name 1] demoE1 32768 .call 40003 =
    some (.ok ⟨[.up, .name 3, .name 40000], some (.fmt 140003)⟩) := by decide
example : operandHref (demo true) demoMain (dirname demoMain.singlePath) demoE1 32768 .call 40003 =
    some (.ok ⟨[.name 3, .name 10], some (.fmt 140003)⟩) := by decide
-- JR 32768 inside the entry (the target has a label): same page
example : operandHref (demo true) demoMain (dirname demoMain.singlePath) demoE1 32771 .jr 32768 =
    some (.ok ⟨[.empty], some (.fmt 132768)⟩) := by decide
-- DEFW 40000: the entry itself of the other disassembly, no anchor
example : operandHref (demo false) demoMain [.name 1] demoE2 32773 .defw 40000 =
    some (.ok ⟨[.up, .name 3, .name 40000], none⟩) := by decide
-- from './other/' back into the main disassembly
example : operandHref (demo false) demoOther demoOther.codePath demoO1 40003 .jp 32771 =
    some (.ok ⟨[.up, .name 1, .name 32768], some (.fmt 132771)⟩) := by decide
-- #R: entry point, other disassembly, and the error branches of the real code
example : rHref (demo false) demoMain [.name 2] 32771 none none =
    .ok ⟨[.up, .name 1, .name 32768], some (.fmt 132771)⟩ := by decide
example : rHref (demo false) demoMain [.name 2] 40003 (some 1) none =
    .ok ⟨[.up, .name 3, .name 40000], some (.fmt 140003)⟩ := by decide
example : rHref (demo false) demoMain [.name 2] 5 none none = .error .notFound := by decide
example : rHref (demo false) demoMain [.name 2] 5 (some 9) none = .error .noCode := by decide
example : rHref (demo true) demoMain [.name 2] 5 (some 9) none = .error .keyError := by decide
-- an ignored entry has a container but no page: the hypothesis `e ∈ c.mm` of r_link_resolves matters
example : rHref (demo false) demoMain [.name 2] 32775 none none =
    .ok ⟨[.up, .name 1, .name 32775], none⟩ ∧
    ∀ pg ∈ pages (demo false), pg.path ≠ [.name 1, .name 32775] := by decide
-- the enumeration of structural links is not empty: 12 links in multi-page, 7 in single-page mode
example : (siteLinks (demo false)).length = 12 ∧ (siteLinks (demo true)).length = 7 := by decide
-- paths: which strings are relative ('./other/', '', 'a//b' are; '/a' and '//a' are not)
example : IsRel ([.cur, .name 3, .empty] : Path Nat) ∧ IsRel ([.empty] : Path Nat) ∧
    IsRel ([.name 1, .empty, .name 2] : Path Nat) ∧ ¬ IsRel ([.empty, .name 1] : Path Nat) ∧
    ¬ IsRel ([.empty, .empty, .name 1] : Path Nat) := by decide
example : relpath [7, 8] [.name 2, .name 11] [.cur, .name 3, .empty] = .ok [.up, .name 2, .name 11] := by decide
example : relpath ([] : List Nat) [.up, .name 2] [.name 1] = .ok [.up, .name 2] := by decide      -- cwd '/'
example : relpath [5] [.up, .name 2] [.name 1] = .ok [.up, .up, .name 2] := by decide            -- cwd '/5'
example : normpath [.name 1, .empty, .cur, .name 2, .up, .name 3] = ([.name 1, .name 3] : Path Nat) := by decide
example : normpath [.empty, .empty, .name 1] = ([.empty, .empty, .name 1] : Path Nat) := by decide  -- '//1'
example : dirname [.name 1, .empty, .name 2, .name 3] = ([.name 1, .empty, .name 2] : Path Nat) := by decide
example : relpath ([] : List Nat) [.empty] [.name 1] = .error .noPath := by decide

end site

end C16
