import SkoolVerif.Proofs.SimStep
import SkoolVerif.Proofs.CmioStep
import SkoolVerif.Proofs.PagingLemmas
/-!
C08 — simulated code cannot corrupt ROM, break register ranges or mis-page 128K RAM.

Models: `Gen/SimHandlers.lean`, `Gen/CmioHandlers.lean` (translated on every run from
`simulator.py` / `cmiosimulator.py`), `Prelude/Machine.lean` (`Mem48`, `Mem128` =
`pagingtracer.Memory` + `PagingTracer.write_port`).  Property theorems only.
-/
namespace C08
open Z80

/-! ### ROM is never modified, whatever program runs (both simulators, 48K and 128K) -/

/-- 48K, plain simulator: after any number of instructions from any state, every cell of
0x0000-0x3FFF is what it was. -/
theorem rom48_preserved (cfg : Cfg) (n : Nat) (s : St Mem48) (a : Nat) (ha : a < 16384) :
    (Sim.runN cfg n s).mem.cells.getD a 0 = s.mem.cells.getD a 0 := by
  have h := Sim.rom_runN (ρ := Nat → Int) cfg n s
  have := congrFun h a
  simpa [RomMem.romView, Mem48.rom, ha] using this

/-- 48K, contention-aware simulator. -/
theorem rom48_preserved_cmio (cfg : Cfg) (n : Nat) (s : St Mem48) (a : Nat) (ha : a < 16384) :
    (Cmio.runN cfg n s).mem.cells.getD a 0 = s.mem.cells.getD a 0 := by
  have h := Cmio.rom_runN (ρ := Nat → Int) cfg n s
  have := congrFun h a
  simpa [RomMem.romView, Mem48.rom, ha] using this

/-- 128K: neither ROM image is ever modified (including by port writes that page the other ROM in). -/
theorem rom128_preserved (cfg : Cfg) (n : Nat) (s : St Mem128) : (Sim.runN cfg n s).mem.roms = s.mem.roms :=
  Sim.rom_runN (ρ := Array (Array Int)) cfg n s

theorem rom128_preserved_cmio (cfg : Cfg) (n : Nat) (s : St Mem128) : (Cmio.runN cfg n s).mem.roms = s.mem.roms :=
  Cmio.rom_runN (ρ := Array (Array Int)) cfg n s

/-- One step of any closure with any (even ill-formed) arguments preserves the ROM view of any
lawful memory: the guard `> 0x3FFF` is in front of every memory write of every closure. -/
theorem rom_any_closure {μ ρ : Type} [MemLike μ] [RomMem μ ρ] (cfg : Cfg) (i : Sim.Instr) (s : St μ) :
    RomMem.romView (Sim.execLeaf cfg i s).mem = RomMem.romView s.mem := Sim.rom_execLeaf cfg i s

theorem rom_any_closure_cmio {μ ρ : Type} [MemLike μ] [RomMem μ ρ] (cfg : Cfg) (i : Cmio.Instr) (s : St μ) :
    RomMem.romView (Cmio.execLeaf cfg i s).mem = RomMem.romView s.mem := Cmio.rom_execLeaf cfg i s

/-! ### The T-state clock never decreases -/

theorem clock_monotone {μ : Type} [MemLike μ] (cfg : Cfg) (n : Nat) (s : St μ) : s.t ≤ (Sim.runN cfg n s).t :=
  Sim.tmono_runN cfg n s

theorem clock_monotone_cmio {μ : Type} [MemLike μ] (cfg : Cfg) (n : Nat) (s : St μ) : s.t ≤ (Cmio.runN cfg n s).t :=
  Cmio.tmono_runN cfg n s

/-! ### Register, memory-cell and state ranges

`RInv`: every 8-bit register (incl. I, R and the shadow set) in 0..255, SP/PC/MEMPTR in 0..65535,
IFF ∈ {0,1}, IM ∈ {0,1,2}, HALT ∈ {0,1}, every physical memory cell (all banks and ROMs) a byte.
Proved closure by closure, over whatever closures the source has now, for every well-formed
argument tuple (`instrWf`, which every dispatch-table entry satisfies: `dispatch_arguments_wellformed`),
by one of two closure-independent tactics (`translate/gen_range.py`: generic `grind`, or
`rinv_manual` of `Proofs/RangeManual.lean`); no closure is excluded. -/

/-- one instruction of the plain simulator, from any state, whatever the memory contents -/
theorem ranges_preserved {μ : Type} [MemLike μ] [CellMem μ] (cfg : Cfg) (s : St μ) (h : RInv s) :
    RInv (Sim.step cfg s) := Sim.rinv_step cfg s h

/-- one instruction of the contention-aware simulator -/
theorem ranges_preserved_cmio {μ : Type} [MemLike μ] [CellMem μ] (cfg : Cfg) (s : St μ) (h : RInv s) :
    RInv (Cmio.step cfg s) := Cmio.rinv_step cfg s h

/-- any number of instructions (both simulators) -/
theorem ranges_preserved_run {μ : Type} [MemLike μ] [CellMem μ] (cfg : Cfg) (n : Nat) (s : St μ) (h : RInv s) :
    RInv (Sim.runN cfg n s) ∧ RInv (Cmio.runN cfg n s) :=
  ⟨Sim.rinv_runN cfg n s h, Cmio.rinv_runN cfg n s h⟩

/-- every closure of either simulator with any well-formed argument tuple (not only the tuples the
dispatch tables pass) preserves the invariant -/
theorem ranges_any_wellformed_closure {μ : Type} [MemLike μ] [CellMem μ] (cfg : Cfg) (s : St μ) (h : RInv s) :
    (∀ i : Sim.Instr, Sim.instrWf i = true → RInv (Sim.execLeaf cfg i s)) ∧
    (∀ i : Cmio.Instr, Cmio.instrWf i = true → RInv (Cmio.execLeaf cfg i s)) :=
  ⟨fun i hw => Sim.rinv_execLeaf cfg i hw s h, fun i hw => Cmio.rinv_execLeaf cfg i hw s h⟩

/-- every dispatch-table entry of both simulators passes well-formed arguments to its closure
(register indices, table shapes, sizes, timings) — kernel-checked over all 2 × 1792 slots -/
theorem dispatch_arguments_wellformed (t : Sim.OpTbl) (i : Int) (t' : Cmio.OpTbl) :
    Sim.instrWf (t.get i) = true ∧ Cmio.instrWf (t'.get i) = true :=
  ⟨Sim.get_wf t i, Cmio.get_wf t' i⟩

/-! ### 128K paging -/

/-- For every history of port writes, the value that determines the memory map is the last write
that the abstract rule accepts (A15 = 0, A1 = 0, bit 5 of the previously accepted value clear). -/
theorem paging_refines_spec (ws : List (Int × Int)) (m : Mem128) (hc : Paging.Consistent m)
    (hw : Paging.WfWrites ws) :
    Paging.abs (Paging.writes m ws) = (Paging.abs m).writes ws ∧ Paging.Consistent (Paging.writes m ws) :=
  Paging.writes_refine ws m hc hw

/-- once bit 5 has been set, no later write (to any port) changes the mapping -/
theorem paging_lock_absorbing (m : Mem128) (hc : Paging.Consistent m) (hl : Paging.locked m.o7ffd)
    (ws : List (Int × Int)) (hw : Paging.WfWrites ws) : (Paging.writes m ws).o7ffd = m.o7ffd := by
  have h := (Paging.writes_refine ws m hc hw).1
  rw [Paging.locked_absorbing (Paging.abs m) hl ws] at h
  simpa [Paging.abs] using congrArg Paging.Spec.last h

/-- the slots: ROM selected by bit 4, bank 5 at 0x4000, bank 2 at 0x8000, bank (value mod 8) at 0xC000 -/
theorem visible_rom (m : Mem128) (a : Int) (h0 : 0 ≤ a) (h1 : a < 0x4000) :
    m.get a = (m.roms.getD ((Paging.abs m).romIndex).toNat #[]).getD a.toNat 0 := Paging.get_rom m a h0 h1
theorem visible_bank5 (m : Mem128) (a : Int) (h0 : 0x4000 ≤ a) (h1 : a < 0x8000) :
    m.get a = (m.banks.getD 5 #[]).getD (a - 0x4000).toNat 0 := Paging.get_bank5 m a h0 h1
theorem visible_bank2 (m : Mem128) (a : Int) (h0 : 0x8000 ≤ a) (h1 : a < 0xC000) :
    m.get a = (m.banks.getD 2 #[]).getD (a - 0x8000).toNat 0 := Paging.get_bank2 m a h0 h1
theorem visible_paged_bank (m : Mem128) (a : Int) (h0 : 0xC000 ≤ a) (h1 : a < 0x10000) :
    m.get a = (m.banks.getD ((Paging.abs m).bankAtC000).toNat #[]).getD (a - 0xC000).toNat 0 :=
  Paging.get_paged m a h0 h1

/-- a RAM write reaches exactly one cell of exactly one physical bank; ROMs and paging state untouched -/
theorem write_reaches_one_bank (m : Mem128) (a v : Int) (h0 : 0x4000 ≤ a) (h1 : a < 0x10000) :
    ∃ b off, (m.set a v).banks = m.banks.setIfInBounds b ((m.banks.getD b #[]).setIfInBounds off v) ∧
      (m.set a v).roms = m.roms ∧ (m.set a v).o7ffd = m.o7ffd ∧ (m.set a v).trOut7ffd = m.trOut7ffd ∧
      b = (if a < 0x8000 then 5 else if a < 0xC000 then 2 else (m.o7ffd % 8).toNat) :=
  Paging.set_one_bank m a v h0 h1

/-- the decode mask `port & 0x8002 == 0` is exactly "A15 = 0 and A1 = 0" for all 65536 ports -/
theorem decode_mask_exact (port : Int) (h0 : 0 ≤ port) (h1 : port < 65536) :
    PyInt.land port 0x8002 = 0 ↔ Paging.decodes port := Paging.mask_decodes port h0 h1

-- non-vacuity: a concrete lock, a concrete accepted write, a concrete rejected port
example : Paging.locked 0x20 ∧ ¬ Paging.locked 0x10 := by decide
example : (Paging.Spec.write ⟨0⟩ 0x7FFD 0x13) = ⟨0x13⟩ := by decide
example : (Paging.Spec.write ⟨0⟩ 0x7FFF 0x13) = ⟨0⟩ := by decide
example : (Paging.Spec.write ⟨0x20⟩ 0x7FFD 0x13) = ⟨0x20⟩ := by decide

end C08
