import SkoolVerif.Proofs.PngFileLemmas
import SkoolVerif.Proofs.ZxPictureLemmas
import SkoolVerif.Proofs.ZxUdgLemmas
import SkoolVerif.Proofs.FlashRectLemmas
import SkoolVerif.Proofs.SpecialTopLemmas
import SkoolVerif.Proofs.FlashFrameLemmas
import SkoolVerif.Proofs.ZxArrayLemmas
/-!
C15 — image macros and sna2img render pixel-exact PNGs.  Property theorems only; helper lemmas
live in `SkoolVerif/Proofs/`.

Models (hand models, tied to /repo by the correspondence check `harness/props/c15.py`):
* `Model/PngCrc.lean`  — CRC table, `_get_crc`, chunk framing, the chunk sequence of `write_image`;
* `Model/ZxTile.lean`  — `NoMask/OrAndMask/AndOrMask.apply`, `FLIP`, `Udg.flip/rotate`, attribute maps;
* `Model/PngScan.lean` — `_build_image_data_bd_any` and the specialised builders (bytes handed to zlib).
Specifications (independent): `Spec/PngSpec.lean` (bit-serial CRC-32, chunk parser, chunk order /
APNG rules), `Spec/ZxPixel.lean` (Spectrum display rules, documented mask truth tables, PNG pixel
packing).
-/
namespace C15
open PngCrc PngSpec ZxTile ZxSpec PngScan

/-! ## 1. CRC and chunk framing -/

/-- The table-driven CRC of `PngWriter._get_crc` is the bit-serial CRC-32 of the PNG
specification, for **every** byte string; its four bytes are bytes. -/
theorem crc_table_driven_eq_bitserial (msg : List Nat) (h : ∀ b ∈ msg, b < 256) :
    (getCrc msg).length = 4 ∧ (∀ b ∈ getCrc msg, b < 256) ∧ beVal (getCrc msg) = crc32 msg :=
  getCrc_spec msg h

/-- One step of the table-driven loop equals feeding the eight bits of the byte one at a time
(least significant first) into the CRC shift register -- for every register value. -/
theorem crc_step_eq_eight_bit_steps (crc b : Nat) (hb : b < 256) : crcStep crc b = feedBits 8 crc b :=
  crcStep_eq_feedBits crc b hb

/-- A chunk written by `_write_chunk` / `_write_img_data_chunk` is read back by the specification's
chunk parser (length field, type, payload, CRC check) and the rest of the stream is untouched. -/
theorem chunk_wellformed (type payload rest : List Nat) (ht : type.length = 4)
    (hb : ∀ b ∈ type ++ payload, b < 256) (hlen : payload.length < 2 ^ 32) :
    (chunk (type ++ payload)).length = payload.length + 12 ∧
      parseOne (chunk (type ++ payload) ++ rest) = some ({ type, payload }, rest) := by
  refine ⟨?_, parseOne_chunk type payload rest ht hb hlen⟩
  rw [chunk_length]; simp [ht]; omega

/-- The two chunks skoolkit writes from literals carry correct lengths and CRCs. -/
theorem literal_chunks_wellformed :
    ACTL_CHUNK = chunk (ACTL ++ [0, 0, 0, 2, 0, 0, 0, 0]) ∧ IEND_CHUNK = chunk IEND :=
  ⟨actl_literal, iend_literal⟩

/-- `_get_bit_depth`: the palette always fits the bit depth written to IHDR. -/
theorem bit_depth_fits (palette : List Nat) (h : palette.length / 3 ≤ 16) :
    ((getBitDepth palette).1 = 1 ∨ (getBitDepth palette).1 = 2 ∨ (getBitDepth palette).1 = 4) ∧
      (getBitDepth palette).2 = palette.length / 3 ∧ palette.length / 3 ≤ 2 ^ (getBitDepth palette).1 := by
  refine ⟨getBitDepth_cases palette, rfl, ?_⟩
  unfold getBitDepth
  simp only
  split
  · simpa using h
  · split
    · simp; omega
    · simp; omega

/-- **The file written by `write_image` is a well-formed PNG/APNG datastream**, whatever the zlib
streams are: the signature is right, every chunk parses with a correct length and CRC, the chunk
order is `IHDR PLTE [tRNS] [acTL] [fcTL] IDAT (fcTL fdAT)* IEND`, the acTL frame count equals the
number of fcTL chunks, the fcTL/fdAT sequence numbers are 0,1,2,..., IHDR carries the frame size,
the bit depth chosen for the palette, colour type 3 and no interlace, and PLTE carries the palette. -/
theorem write_image_valid (f1 : FrameInfo) (rest : List FrameInfo) (palette : List Nat)
    (hasTrans : Bool) (alpha1 : Option Nat) (walpha : Nat)
    (flash : Option (Nat × Nat × Nat × Nat × List Nat))
    (h : InputsOk f1 rest palette walpha flash) :
    ∃ ihdr plte more,
      parsePng (writeImage f1 rest palette hasTrans alpha1 walpha flash) = some (ihdr :: plte :: more) ∧
      orderOk (ihdr :: plte :: more) = true ∧ apngOk (ihdr :: plte :: more) = true ∧
      ihdrFields ihdr = (f1.width, f1.height, [(getBitDepth palette).1, 3, 0, 0, 0]) ∧
      plte = { type := tPLTE, payload := palette } := by
  have hp := parsePng_pieces _ (imagePieces_wf f1 rest palette hasTrans alpha1 walpha flash h)
  rw [imagePieces_toChunk] at hp
  have ho := orderOk_imageChunks f1 rest palette hasTrans alpha1 walpha flash
  have ha := apngOk_imageChunks f1 rest palette hasTrans alpha1 walpha flash h.2.2.1
  unfold writeImage
  rw [hp]
  unfold imageChunks at ho ha ⊢
  simp only [List.cons_append, List.nil_append] at ho ha ⊢
  refine ⟨_, _, _, rfl, ho, ha, ?_, rfl⟩
  obtain ⟨⟨hw, hh, -⟩, -⟩ := h
  simp only [ihdrFields, ihdrPayload, List.append_assoc]
  rw [take4_toBytes_append, beVal_toBytes _ hw]
  have d4 : (toBytes f1.width ++ (toBytes f1.height ++ [(getBitDepth palette).1, 3, 0, 0, 0])).drop 4
      = toBytes f1.height ++ [(getBitDepth palette).1, 3, 0, 0, 0] := by simp [toBytes]
  have d8 : (toBytes f1.width ++ (toBytes f1.height ++ [(getBitDepth palette).1, 3, 0, 0, 0])).drop 8
      = [(getBitDepth palette).1, 3, 0, 0, 0] := by simp [toBytes]
  rw [d4, d8, take4_toBytes_append, beVal_toBytes _ hh]

/-! ## 2. Masks, flips, rotations, attributes -/

/-- `NoMask/OrAndMask/AndOrMask.apply` compute the documented truth tables column by column (ink
where the bit is set, paper otherwise, transparent where the mask says so), for every pair of
bytes. A tile without mask data is shown by its graphic byte alone. -/
theorem mask_rules {α : Type} (k : MaskKind) (u : Udg) (row : Nat) (paper ink trans : α)
    (hu : u.data.getD row 0 < 256) (hm : maskByteOf u row < 256) :
    applyMask k u row paper ink trans =
      (List.range 8).map (fun col =>
        (rule k.toNat (colBit (u.data.getD row 0) col) (colBit (maskByteOf u row) col)).pick paper ink trans) :=
  applyMask_eq_rule k u row paper ink trans hu hm

/-- The literal `FLIP` table reverses the eight bits of every byte. -/
theorem flip_table_reverses_bits (b : Nat) (hb : b < 256) :
    flipByte b < 256 ∧ ∀ col, col < 8 → colBit (flipByte b) col = colBit b (7 - col) :=
  flipByte_spec b hb

/-- Pixel map of `Udg.flip`: bit 0 mirrors the columns, bit 1 the rows. -/
theorem flip_pixel_map (f : Nat) (t : List Nat) (ht : WfTile t) (r col : Nat) (hr : r < 8) (hc : col < 8) :
    tileBit (flipTile f t) r col =
      tileBit t (if f &&& 2 ≠ 0 then 7 - r else r) (if f &&& 1 ≠ 0 then 7 - col else col) :=
  tileBit_flipTile f ht r col hr hc

/-- `flip ∘ flip = id` on whole tiles (graphic and mask bytes). -/
theorem flip_flip (f : Nat) (u : Udg) (hu : WfUdg u) : (u.flip f).flip f = u := udg_flip_flip f hu

/-- `flip_udgs(udgs, f)` twice restores the whole array: every tile's bytes and every tile's
position (rows reversed for bit 0, row order reversed for bit 1). -/
theorem flip_udgs_involution (f : Nat) (a : List (List Udg)) (hwf : ∀ row ∈ a, ∀ u ∈ row, WfUdg u) :
    flipUdgs (flipUdgs a f) f = a := flipUdgs_flipUdgs f a hwf

/-- **Pixel map of `flip_udgs`** on a rectangular `W x H` array: pixel `(X, Y)` of the flipped
picture is pixel `(8W-1-X, Y)` (bit 0 of `f`), `(X, 8H-1-Y)` (bit 1) or both of the original --
graphic bit, attribute and mask bit alike. -/
theorem flip_udgs_pixel_map (f : Nat) (a : List (List Udg)) (W H : Nat) (hH : a.length = H)
    (hW : ∀ row ∈ a, row.length = W) (hwf : ∀ row ∈ a, ∀ u ∈ row, WfUdg u)
    (X Y : Nat) (hX : X < 8 * W) (hY : Y < 8 * H) :
    (pictureOf (flipUdgs a f)).bit X Y
        = (pictureOf a).bit (if f &&& 1 ≠ 0 then 8 * W - 1 - X else X) (if f &&& 2 ≠ 0 then 8 * H - 1 - Y else Y) ∧
      (pictureOf (flipUdgs a f)).attr X Y
        = (pictureOf a).attr (if f &&& 1 ≠ 0 then 8 * W - 1 - X else X) (if f &&& 2 ≠ 0 then 8 * H - 1 - Y else Y) ∧
      (pictureOf (flipUdgs a f)).mbit X Y
        = (pictureOf a).mbit (if f &&& 1 ≠ 0 then 8 * W - 1 - X else X) (if f &&& 2 ≠ 0 then 8 * H - 1 - Y else Y) :=
  flipUdgs_picture f a W H hH hW hwf X Y hX hY

/-- **Pixel map of `rotate_udgs`** on a rectangular `W x H` array: the picture (now `H x W` tiles
for odd `n`) is the original turned by `n` quarter turns clockwise: pixel `(X, Y)` comes from
`(X, Y)`, `(Y, 8H-1-X)`, `(8W-1-X, 8H-1-Y)`, `(8W-1-Y, X)` for `n mod 4 = 0, 1, 2, 3`. -/
theorem rotate_udgs_pixel_map (n : Nat) (a : List (List Udg)) (W H : Nat) (hH : a.length = H) (hH0 : 0 < H)
    (hW : ∀ row ∈ a, row.length = W) (hwf : ∀ row ∈ a, ∀ u ∈ row, WfUdg u)
    (X Y : Nat) (hX : X < 8 * (if n % 2 = 1 then H else W)) (hY : Y < 8 * (if n % 2 = 1 then W else H)) :
    (pictureOf (rotateUdgs a n)).bit X Y = (pictureOf a).bit (picRot n W H X Y).1 (picRot n W H X Y).2 ∧
      (pictureOf (rotateUdgs a n)).attr X Y = (pictureOf a).attr (picRot n W H X Y).1 (picRot n W H X Y).2 ∧
      (pictureOf (rotateUdgs a n)).mbit X Y = (pictureOf a).mbit (picRot n W H X Y).1 (picRot n W H X Y).2 :=
  rotateUdgs_picture n a W H hH hH0 hW hwf X Y hX hY

/-- Pixel map of `Udg.rotate(n)`: `n` quarter turns clockwise (`rotIdx` gives the source position:
`(r, c)`, `(7 - c, r)`, `(7 - r, 7 - c)`, `(c, 7 - r)` for `n mod 4 = 0, 1, 2, 3`). -/
theorem rotate_pixel_map (n : Nat) (t : List Nat) (ht : WfTile t) (r col : Nat) (hr : r < 8) (hc : col < 8) :
    tileBit (rotateTile n t) r col = tileBit t (rotIdx n r col).1 (rotIdx n r col).2 :=
  tileBit_rotateTile n ht r col hr hc

/-- Rotations compose additively on whole tiles... -/
theorem rotate_rotate (a b : Nat) (u : Udg) (hu : WfUdg u) : (u.rotate b).rotate a = u.rotate (a + b) :=
  udg_rotate_rotate a b hu

/-- ... hence `rotate^4 = id`. -/
theorem rotate4 (u : Udg) (hu : WfUdg u) : (((u.rotate 1).rotate 1).rotate 1).rotate 1 = u :=
  udg_rotate_four hu

/-- `ImageWriter.get_attr_map` follows the Spectrum attribute layout (INK bits 0-2, PAPER bits
3-5, BRIGHT bit 6; bright black is black), and the colour-swap formula of the flash frame
exchanges INK and PAPER, keeps BRIGHT and FLASH and is an involution -- for all 256 attributes. -/
theorem attr_rules (a : Nat) (ha : a < 256) :
    attrIndex a = (slot (paperOf a) (brightOf a), slot (inkOf a) (brightOf a)) ∧
      swapAttr a < 256 ∧ inkOf (swapAttr a) = paperOf a ∧ paperOf (swapAttr a) = inkOf a ∧
      brightOf (swapAttr a) = brightOf a ∧ flashOf (swapAttr a) = flashOf a ∧ swapAttr (swapAttr a) = a := by
  have h := attrCheck_ok
  simp only [attrCheck, List.all_eq_true, List.mem_range, Bool.and_eq_true, decide_eq_true_eq, beq_iff_eq] at h
  obtain ⟨⟨⟨⟨⟨⟨h1, h2⟩, h3⟩, h4⟩, h5⟩, h6⟩, h7⟩ := h a ha
  exact ⟨h1, h2, h3, h4, h5, h6, h7⟩

/-! ## 3. Scanlines -/

/-- Bit packing round trip: pixel `x` unpacked from a packed line (PNG layout, leftmost pixel in
the high-order bits, zero padding) is pixel `x` of the cropped row, at bit depths 1, 2 and 4, for
every width; and the line has `ceil(width * depth / 8)` bytes. -/
theorem pack_unpack_roundtrip (c : Ctx) (p : List Nat)
    (hbd : c.bitDepth = 1 ∨ c.bitDepth = 2 ∨ c.bitDepth = 4)
    (hlen : c.x0 % (8 * c.scale) + c.width ≤ p.length) (hv : ∀ v ∈ p, v < 2 ^ c.bitDepth) :
    (packLine c p).length = (c.width * c.bitDepth + 7) / 8 ∧
      ∀ x, x < c.width → unpackPixel c.bitDepth (packLine c p) x = p.getD (c.x0 % (8 * c.scale) + x) 0 := by
  refine ⟨packLine_length c p hbd hlen, fun x hx => ?_⟩
  rw [packLine_pixel c p hbd hlen hv x hx, cropRow_getD c p x hx]

/-- **Pixel theorem for `_build_image_data_bd_any`.**  For every tile array, scale, crop
rectangle inside the picture (tile-aligned or not), mask kind, bit depth and attribute map that
covers the visited tiles: the builder succeeds; it emits exactly `height` scanlines, each with
filter byte 0 and `ceil(width * depth / 8)` bytes; and pixel `x` of scanline `y` is the Spectrum
display rule (ink where the bit is set, paper otherwise, transparent = index 0 where the mask says
so) applied to source pixel `((x0 + x) / scale, (y0 + y) / scale)`, through the attribute map. -/
theorem bd_any_pixels (c : Ctx) (udgs : List (List Udg)) (W : Nat)
    (hs : 0 < c.scale) (hh : 0 < c.height) (hw : 0 < c.width)
    (hbd : c.bitDepth = 1 ∨ c.bitDepth = 2 ∨ c.bitDepth = 4)
    (hrowlen : ∀ row ∈ udgs, row.length = W)
    (hwf : ∀ row ∈ udgs, ∀ u ∈ row, WfUdg u)
    (hfitx : c.x0 + c.width ≤ 8 * c.scale * W)
    (hfity : c.y0 + c.height ≤ 8 * c.scale * udgs.length)
    (hattr : ∀ row ∈ visited c udgs, ∀ u ∈ row,
      ∃ p i, c.attrs u.attr = some (p, i) ∧ p < 2 ^ c.bitDepth ∧ i < 2 ^ c.bitDepth) :
    ∃ lines, buildAny c udgs = .ok lines ∧ lines.length = c.height ∧
      ∀ y, y < c.height → ∃ body, lines[y]? = some (0 :: body) ∧
        body.length = (c.width * c.bitDepth + 7) / 8 ∧
        ∀ x, x < c.width →
          unpackPixel c.bitDepth body x =
            let X := (c.x0 + x) / c.scale
            let Y := (c.y0 + y) / c.scale
            let pi := (c.attrs ((pictureOf udgs).attr X Y)).getD (0, 0)
            (imagePix (pictureOf udgs) c.mask.toNat c.scale c.x0 c.y0 x y).pick pi.1 pi.2 0 := by
  obtain ⟨lines, h1, h2, h3⟩ := buildAny_pixels c udgs W hs hh hw hbd hrowlen hwf hfitx hfity hattr
  refine ⟨lines, h1, h2, fun y hy => ?_⟩
  obtain ⟨body, b1, b2, b3⟩ := h3 y hy
  refine ⟨body, b1, b2, fun x hx => ?_⟩
  rw [b3 x hx, srcIndex_eq_spec]
  rfl

/-- `Frame.width` / `Frame.height` (the cropping properties): whenever the crop origin lies inside
the picture, the rectangle the writer uses is non-empty and inside the picture -- the geometric
hypotheses of `bd_any_pixels` -- whatever width/height (absent, zero, oversize) were requested. -/
theorem frame_rect_inside (f : Frame) (hx : f.x < f.fullWidth) (hy : f.y < f.fullHeight) :
    0 < f.w ∧ f.x + f.w ≤ f.fullWidth ∧ 0 < f.h ∧ f.y + f.h ≤ f.fullHeight ∧
      (f.cropped = false ↔ (f.x = 0 ∧ f.y = 0 ∧ f.w = f.fullWidth ∧ f.h = f.fullHeight)) := by
  have hw : 0 < f.w ∧ f.x + f.w ≤ f.fullWidth := by
    unfold Frame.w
    generalize f.fullWidth = fw at *
    generalize f.x = x at *
    simp only
    cases f.width with
    | none => simp only; omega
    | some v => cases v with
      | zero => simp only; omega
      | succ n => simp only; omega
  have hh : 0 < f.h ∧ f.y + f.h ≤ f.fullHeight := by
    unfold Frame.h
    generalize f.fullHeight = fh at *
    generalize f.y = y at *
    simp only
    cases f.height with
    | none => simp only; omega
    | some v => cases v with
      | zero => simp only; omega
      | succ n => simp only; omega
  refine ⟨hw.1, hw.2, hh.1, hh.2, ?_⟩
  unfold Frame.cropped
  simp only [Bool.or_eq_false_iff, bne_eq_false_iff_eq]
  constructor
  · intro ⟨h1, h2⟩; exact ⟨by omega, by omega, h1, h2⟩
  · intro ⟨_, _, h1, h2⟩; exact ⟨h1, h2⟩

/-- The error branch: a visited tile whose attribute is missing from the map makes the builder
raise (`KeyError`), it never emits wrong pixels. -/
theorem bd_any_keyerror (c : Ctx) (udgs : List (List Udg))
    (h : ∃ row ∈ visited c udgs, ∃ u ∈ row, c.attrs u.attr = none) :
    buildAny c udgs = .error .keyError := by
  obtain ⟨row, hrow, u, hu, hn⟩ := h
  unfold buildAny
  have : (visited c udgs).any (fun row => row.any (fun u => (c.attrs u.attr).isNone)) = true := by
    rw [List.any_eq_true]
    refine ⟨row, hrow, ?_⟩
    rw [List.any_eq_true]
    exact ⟨u, hu, by simp [hn]⟩
  simp only [this, if_true]

/-! ## 4. The specialised builders agree with the generic one

`_create_png_method_dict` maps `(bit depth, full size, masked)` to a builder; every cropped frame
uses the generic builder, and on a full-size frame each specialised builder produces exactly the
bytes the generic builder would. -/

/-- Cropped frames always go through the generic builder. -/
theorem cropped_uses_generic (bd : Nat) (masked : Bool) : methodFor bd false masked = .any := rfl

/-- The common shape of the six results below: a specialised builder whose per-tile bytes equal the
generic per-tile block reproduces the generic output on a full-size frame. -/
theorem special_run_eq (m : Method) (c : Ctx) (udgs : List (List Udg)) (W : Nat) (hs : 0 < c.scale)
    (hf : FullSize c udgs W) (hbd : c.bitDepth = 1 ∨ c.bitDepth = 2 ∨ c.bitDepth = 4)
    (hwf : ∀ row ∈ udgs, ∀ u ∈ row, WfUdg u)
    (hattr : ∀ row ∈ udgs, ∀ u ∈ row, (c.attrs u.attr).isSome)
    (udgLine : Udg → Nat → List Nat)
    (hrun : runMethod m c udgs =
      (if udgs.any (fun row => row.any (fun u => (c.attrs u.attr).isNone)) then .error .keyError
       else .ok (scanFrame c.scale udgs udgLine)))
    (h : ∀ row ∈ udgs, ∀ u ∈ row, ∀ k, k < 8 → udgBlock c u k = udgLine u k) :
    runMethod m c udgs = buildAny c udgs := by
  have hany : udgs.any (fun row => row.any (fun u => (c.attrs u.attr).isNone)) = false := by
    rw [List.any_eq_false]
    intro row hrow
    rw [Bool.not_eq_true, List.any_eq_false]
    intro u hu
    have := hattr row hrow u hu
    cases h : c.attrs u.attr with
    | none => rw [h] at this; simp at this
    | some v => simp
  rw [hrun, hany, special_eq_generic c udgs W hs hf hbd hwf hattr udgLine h]
  simp

/-- `_build_image_data_bd1_nt` (2 colours, unmasked) = generic. -/
theorem bd1_nt_eq_generic (c : Ctx) (udgs : List (List Udg)) (W : Nat) (hs : 0 < c.scale) (hf : FullSize c udgs W)
    (hbd : c.bitDepth = 1) (hm : c.mask = .noMask) (hwf : ∀ row ∈ udgs, ∀ u ∈ row, WfUdg u)
    (hattr : ∀ row ∈ udgs, ∀ u ∈ row, ∃ p i, c.attrs u.attr = some (p, i) ∧ p < 2 ∧ i < 2) :
    runMethod .bd1nt c udgs = buildAny c udgs := by
  apply special_run_eq .bd1nt c udgs W hs hf (Or.inl hbd) hwf
    (fun row hr u hu => by obtain ⟨p, i, h, -, -⟩ := hattr row hr u hu; simp [h]) _ rfl
  intro row hr u hu k _
  obtain ⟨p, i, h, hp, hi⟩ := hattr row hr u hu
  exact udgBlock_bd1nt c u k hbd hm (hwf row hr u hu) p i h hp hi

/-- `_build_image_data_bd1_at` (2 colours, masked) = generic. -/
theorem bd1_at_eq_generic (c : Ctx) (udgs : List (List Udg)) (W : Nat) (hs : 0 < c.scale) (hf : FullSize c udgs W)
    (hbd : c.bitDepth = 1) (hwf : ∀ row ∈ udgs, ∀ u ∈ row, WfUdg u)
    (hattr : ∀ row ∈ udgs, ∀ u ∈ row, ∃ p i, c.attrs u.attr = some (p, i) ∧ p < 2 ∧ i < 2) :
    runMethod .bd1at c udgs = buildAny c udgs := by
  apply special_run_eq .bd1at c udgs W hs hf (Or.inl hbd) hwf
    (fun row hr u hu => by obtain ⟨p, i, h, -, -⟩ := hattr row hr u hu; simp [h]) _ rfl
  intro row hr u hu k _
  obtain ⟨p, i, h, hp, hi⟩ := hattr row hr u hu
  exact udgBlock_bd1at c u k hbd (hwf row hr u hu) p i h hp hi

/-- `_build_image_data_bd2_nt` (3-4 colours, unmasked) = generic. -/
theorem bd2_nt_eq_generic (c : Ctx) (udgs : List (List Udg)) (W : Nat) (hs : 0 < c.scale) (hf : FullSize c udgs W)
    (hbd : c.bitDepth = 2) (hm : c.mask = .noMask) (hwf : ∀ row ∈ udgs, ∀ u ∈ row, WfUdg u)
    (hattr : ∀ row ∈ udgs, ∀ u ∈ row, ∃ p i, c.attrs u.attr = some (p, i) ∧ p < 4 ∧ i < 4) :
    runMethod .bd2nt c udgs = buildAny c udgs := by
  apply special_run_eq .bd2nt c udgs W hs hf (Or.inr (Or.inl hbd)) hwf
    (fun row hr u hu => by obtain ⟨p, i, h, -, -⟩ := hattr row hr u hu; simp [h]) _ rfl
  intro row hr u hu k _
  obtain ⟨p, i, h, hp, hi⟩ := hattr row hr u hu
  exact udgBlock_bd2nt c u k hbd hm (hwf row hr u hu) p i h hp hi

/-- `_build_image_data_bd2_at` (3-4 colours, masked) = generic. -/
theorem bd2_at_eq_generic (c : Ctx) (udgs : List (List Udg)) (W : Nat) (hs : 0 < c.scale) (hf : FullSize c udgs W)
    (hbd : c.bitDepth = 2) (hm : c.mask ≠ .noMask) (hwf : ∀ row ∈ udgs, ∀ u ∈ row, WfUdg u)
    (hattr : ∀ row ∈ udgs, ∀ u ∈ row, ∃ p i, c.attrs u.attr = some (p, i) ∧ p < 4 ∧ i < 4) :
    runMethod .bd2at c udgs = buildAny c udgs := by
  apply special_run_eq .bd2at c udgs W hs hf (Or.inr (Or.inl hbd)) hwf
    (fun row hr u hu => by obtain ⟨p, i, h, -, -⟩ := hattr row hr u hu; simp [h]) _ rfl
  intro row hr u hu k _
  obtain ⟨p, i, h, hp, hi⟩ := hattr row hr u hu
  exact udgBlock_bd2at c u k hbd hm (hwf row hr u hu) p i h hp hi

/-- `_build_image_data_bd4_nt` (5-16 colours, unmasked) = generic. -/
theorem bd4_nt_eq_generic (c : Ctx) (udgs : List (List Udg)) (W : Nat) (hs : 0 < c.scale) (hf : FullSize c udgs W)
    (hbd : c.bitDepth = 4) (hm : c.mask = .noMask) (hwf : ∀ row ∈ udgs, ∀ u ∈ row, WfUdg u)
    (hattr : ∀ row ∈ udgs, ∀ u ∈ row, ∃ p i, c.attrs u.attr = some (p, i) ∧ p < 16 ∧ i < 16) :
    runMethod .bd4nt c udgs = buildAny c udgs := by
  apply special_run_eq .bd4nt c udgs W hs hf (Or.inr (Or.inr hbd)) hwf
    (fun row hr u hu => by obtain ⟨p, i, h, -, -⟩ := hattr row hr u hu; simp [h]) _ rfl
  intro row hr u hu k _
  obtain ⟨p, i, h, hp, hi⟩ := hattr row hr u hu
  exact udgBlock_bd4nt c u k hbd hm (hwf row hr u hu) p i h hp hi

/-- `_build_image_data_bd0` (one colour: all zero bytes) = generic, given that the single palette
entry has index 0 (which is how `_get_palette` numbers a one-colour palette). -/
theorem bd0_eq_generic (c : Ctx) (udgs : List (List Udg)) (W : Nat) (hs : 0 < c.scale) (hf : FullSize c udgs W)
    (hbd : c.bitDepth = 1) (hwf : ∀ row ∈ udgs, ∀ u ∈ row, WfUdg u)
    (hattr : ∀ row ∈ udgs, ∀ u ∈ row, c.attrs u.attr = some (0, 0)) :
    runMethod .bd0 c udgs = buildAny c udgs := by
  rw [buildBd0_eq c udgs W hs hf hbd hwf hattr]; rfl

/-! ## 5. The flash rectangle -/

/-- **The flash rectangle reported by `_get_colours` lies inside the frame and is not empty**, for
every crop rectangle (in particular when the crop origin exceeds the crop size), so the fcTL chunk
of the second frame is valid. -/
theorem flash_rect_within_frame (mask : MaskKind) (udgs : List (List Udg)) (s x0 y0 width height : Nat)
    (useFlash : Bool) (hs : 0 < s) (hw : 0 < width) (hh : 0 < height) (fx fy fw fh : Int)
    (h : flashRect mask udgs s x0 y0 width height useFlash = some (fx, fy, fw, fh)) :
    0 ≤ fx ∧ 0 ≤ fy ∧ 0 < fw ∧ 0 < fh ∧ fx + fw ≤ width ∧ fy + fh ≤ height :=
  flashRect_within mask udgs s x0 y0 width height useFlash hs hw hh fx fy fw fh h

/-- **The second frame is confined to the reported rectangle**: every visited tile that flashes
(FLASH set, ink ≠ paper, something visible) has its whole visible extent inside the rectangle, so no
pixel outside it differs between the two frames. -/
theorem flash_frame_confined (mask : MaskKind) (udgs : List (List Udg)) (s x0 y0 width height : Nat)
    (useFlash : Bool) (hs : 0 < s) (hw : 0 < width) (hh : 0 < height) (e : Udg × Nat × Nat)
    (he : e ∈ flashCells udgs s x0 y0 (x0 + width) (y0 + height))
    (hfl : cellFlashes mask s x0 y0 (x0 + width) (y0 + height) useFlash e.1 e.2.1 e.2.2) :
    ∃ fx fy fw fh : Int, flashRect mask udgs s x0 y0 width height useFlash = some (fx, fy, fw, fh) ∧
      fx ≤ (max x0 e.2.1 : Nat) - (x0 : Int) ∧
      ((min (x0 + width) (e.2.1 + 8 * s) : Nat) : Int) - x0 ≤ fx + fw ∧
      fy ≤ (max y0 e.2.2 : Nat) - (y0 : Int) ∧
      ((min (y0 + height) (e.2.2 + 8 * s) : Nat) : Int) - y0 ≤ fy + fh :=
  flashRect_covers mask udgs s x0 y0 width height useFlash hs hw hh e he hfl

/-- **Pixel theorem for the flash frame of a cropped image.**  `_build_image_data` builds frame 2
from `frame.swap_colours(x + fx, y + fy, fw, fh)` with `f2_attr_map`, using the same (generic)
builder.  For every rectangle inside the picture: it has `fh` scanlines of the right length, and
pixel `(x, y)` of frame 2 shows source pixel `((x0 + fx + x) / scale, (y0 + fy + y) / scale)` by the
same display rule as frame 1, with ink and paper exchanged exactly where the tile's FLASH bit is set. -/
theorem flash_frame_pixels (f : Frame) (W bd : Nat) (mask : MaskKind) (attrs : Nat → Option (Nat × Nat))
    (fx fy fw fh : Nat) (bd0 : Nat) (masked : Bool)
    (hcrop : f.cropped = true) (hs : 0 < f.scale) (hfw : 0 < fw) (hfh : 0 < fh)
    (hbd : bd = 1 ∨ bd = 2 ∨ bd = 4)
    (hrowlen : ∀ row ∈ f.udgs, row.length = W)
    (hwf : ∀ row ∈ f.udgs, ∀ u ∈ row, WfUdg u)
    (hfitx : f.x + fx + fw ≤ 8 * f.scale * W)
    (hfity : f.y + fy + fh ≤ 8 * f.scale * f.udgs.length)
    (hattr : ∀ row ∈ visited (flashCtx f bd mask attrs fx fy fw fh) f.udgs, ∀ u ∈ row, FlashAttrOk attrs bd u) :
    ∃ lines,
      runMethod (methodFor bd0 (!f.cropped) masked)
        (ctxOf (f.swapColours (f.x + fx) (f.y + fy) fw fh) bd mask (frame2Attrs attrs))
        (f.swapColours (f.x + fx) (f.y + fy) fw fh).udgs = .ok lines ∧
      lines.length = fh ∧
      ∀ y, y < fh → ∃ body, lines[y]? = some (0 :: body) ∧ body.length = (fw * bd + 7) / 8 ∧
        ∀ x, x < fw →
          unpackPixel bd body x =
            let X := (f.x + fx + x) / f.scale
            let Y := (f.y + fy + y) / f.scale
            let pi := (attrs ((pictureOf f.udgs).attr X Y)).getD (0, 0)
            let fl := (pictureOf f.udgs).attr X Y &&& 128 ≠ 0
            ((pictureOf f.udgs).pix mask.toNat X Y).pick (if fl then pi.2 else pi.1) (if fl then pi.1 else pi.2) 0 := by
  obtain ⟨hu, hctx⟩ := ctxOf_swapColours f W bd mask (frame2Attrs attrs) (f.x + fx) (f.y + fy) fw fh hcrop hfw hfh
    hrowlen hfitx hfity
  rw [hu, hctx, hcrop]
  exact flashFrame_pixels _ attrs f.udgs W rfl hs hfh hfw hbd hrowlen hwf hfitx hfity hattr

/-! ## 6. Non-vacuity and concrete values -/

-- CRC of "IEND" as every PNG file ends with it
example : getCrc [73, 69, 78, 68] = [174, 66, 96, 130] := by decide +kernel
example : crcTable[1]! = 1996959894 := by decide +kernel

-- OR-AND and AND-OR masks on data 0b11001010 / mask 0b10101100 (paper 0, ink 1, trans 2)
example : applyMask .orAnd { attr := 56, data := [202], mask := some [172] } 0 0 1 2 = [1, 0, 2, 0, 1, 2, 0, 0] := by
  decide
example : applyMask .andOr { attr := 56, data := [202], mask := some [172] } 0 0 1 2 = [1, 1, 2, 0, 1, 2, 1, 0] := by
  decide

def sampleUdg : Udg := { attr := 56, data := [1, 2, 4, 8, 16, 32, 64, 255], mask := some [255, 0, 255, 0, 255, 0, 255, 129] }
example : WfUdg sampleUdg := by
  refine ⟨⟨rfl, by decide⟩, ?_⟩
  intro m hm
  simp only [sampleUdg, Option.some.injEq] at hm
  subst hm
  exact ⟨rfl, by decide⟩
example : (sampleUdg.rotate 1).data = [128, 192, 160, 144, 136, 132, 130, 129] := by decide +kernel
example : (sampleUdg.flip 1).data = [128, 64, 32, 16, 8, 4, 2, 255] := by decide +kernel

/-- A 2x1 tile picture cropped at (11, 3) to 9x7 at scale 2, bit depth 2, OR-AND mask. -/
def sampleCtx : Ctx :=
  { scale := 2, bitDepth := 2, x0 := 11, y0 := 3, width := 9, height := 7, mask := .orAnd,
    attrs := fun a => if a = 56 then some (1, 2) else if a = 7 then some (3, 1) else none }
def sampleUdgs : List (List Udg) := [[sampleUdg, { attr := 7, data := [170, 85, 170, 85, 170, 85, 170, 85] }]]
example : (buildAny sampleCtx sampleUdgs).toOption =
    some [[0, 85, 125, 64], [0, 128, 23, 192], [0, 128, 23, 192], [0, 85, 125, 64], [0, 85, 125, 64], [0, 0, 23, 192], [0, 0, 23, 192]] := by
  decide +kernel
example : (buildAny { sampleCtx with attrs := fun _ => none } sampleUdgs).toOption = none := by decide +kernel

-- the sample meets every hypothesis of `bd_any_pixels` (the theorem is not vacuous)
example : ∃ lines, buildAny sampleCtx sampleUdgs = .ok lines ∧ lines.length = 7 := by
  have hw1 : WfUdg sampleUdg := by
    refine ⟨⟨rfl, by decide⟩, ?_⟩
    intro m hm
    simp only [sampleUdg, Option.some.injEq] at hm
    subst hm
    exact ⟨rfl, by decide⟩
  have hw2 : WfUdg { attr := 7, data := [170, 85, 170, 85, 170, 85, 170, 85] } :=
    ⟨⟨rfl, by decide⟩, fun m hm => by simp at hm⟩
  have hv : visited sampleCtx sampleUdgs = sampleUdgs := by decide +kernel
  obtain ⟨lines, h1, h2, -⟩ := bd_any_pixels sampleCtx sampleUdgs 2 (by decide) (by decide) (by decide)
    (Or.inr (Or.inl rfl))
    (by intro row hrow; simp only [sampleUdgs, List.mem_singleton] at hrow; subst hrow; rfl)
    (by
      intro row hrow u hu
      simp only [sampleUdgs, List.mem_singleton] at hrow; subst hrow
      simp only [List.mem_cons, List.not_mem_nil, or_false] at hu
      rcases hu with rfl | rfl
      · exact hw1
      · exact hw2)
    (by decide) (by decide)
    (by
      rw [hv]
      intro row hrow u hu
      simp only [sampleUdgs, List.mem_singleton] at hrow; subst hrow
      simp only [List.mem_cons, List.not_mem_nil, or_false] at hu
      rcases hu with rfl | rfl
      · exact ⟨1, 2, rfl, by decide, by decide⟩
      · exact ⟨3, 1, rfl, by decide, by decide⟩)
  exact ⟨lines, h1, h2⟩

-- well-formed inputs of `write_image_valid`: a 16x8 flashing image with a 4-colour palette
example : InputsOk { width := 16, height := 8, delay := 32, xOff := 0, yOff := 0, data := [120, 156, 1] } []
    [0, 254, 0, 0, 0, 0, 205, 198, 205, 255, 255, 255] 255 (some (8, 0, 8, 8, [120, 156, 2])) := by
  refine ⟨⟨by decide, by decide, by decide, by decide, by decide, by decide, by decide⟩, by simp, by decide,
    by decide, by decide, by decide, ?_⟩
  exact ⟨by decide, by decide, by decide, by decide, by decide, by decide⟩

-- a full-size masked frame at depth 2 (the domain of `bd2_at_eq_generic`), and the two builders on it
def fullCtx : Ctx :=
  { scale := 3, bitDepth := 2, x0 := 0, y0 := 0, width := 48, height := 24, mask := .andOr,
    attrs := fun a => if a = 56 then some (1, 2) else if a = 7 then some (3, 1) else none }
example : FullSize fullCtx sampleUdgs 2 := by
  refine ⟨rfl, rfl, rfl, rfl, ?_, by decide, by decide⟩
  intro row hrow
  simp only [sampleUdgs, List.mem_singleton] at hrow
  subst hrow; rfl
example : (runMethod .bd2at fullCtx sampleUdgs).toOption = (buildAny fullCtx sampleUdgs).toOption := by
  decide +kernel
example : ((buildAny fullCtx sampleUdgs).toOption.map List.length) = some 24 := by decide +kernel

-- rotating the sample array (2 x 1 tiles) by a quarter turn gives 1 x 2 tiles
example : (rotateUdgs sampleUdgs 1).length = 2 ∧ ((rotateUdgs sampleUdgs 1).map List.length) = [1, 1] := by
  decide +kernel
example : picRot 1 2 1 3 10 = (10, 4) := by decide

-- the F6 witness (crop origin 200 > crop width 40 on a flashing screen row): the rectangle is inside the frame
example : flashRect .noMask [List.replicate 32 { attr := 0x87, data := [85, 85, 85, 85, 85, 85, 85, 85] }]
    1 200 0 40 8 true = some (0, 0, 40, 8) := by decide +kernel

end C15
