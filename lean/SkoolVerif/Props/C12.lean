import SkoolVerif.Proofs.NoClearLoad
import SkoolVerif.Proofs.C12Examples
import SkoolVerif.Proofs.PMem
import SkoolVerif.Proofs.Bin2TapValid
import SkoolVerif.Props.C11
/-!
C12 — a program converted to tape by bin2tap loads back to the same memory via tap2sna.

Property theorems only; lemmas live in `SkoolVerif/Proofs/`.
Models: `Model/Bin2Tap.lean` (hand model of skoolkit/bin2tap.py) and `Model/FastLoad.lean`
(hand model of `LoadTracer.fast_load`), both tied to /repo by the correspondence check
`harness/props/c12.py`; the Z80 is the model *generated* from skoolkit/simulator.py
(`Gen/SimHandlers.lean`, `Sim.step`), in which the loader bytes and the ROM epilogue are
executed symbolically.  `RamMem` is the memory law of a 65536-cell Python list (instance: `Mem48`
with all cells present).
-/
namespace C12
open Z80 Sim Bin2Tap FastLoad LoaderSteps C12Examples

/-! ### tape blocks -/

/-- Every block `_make_block` builds passes the ROM's parity check: the XOR of all its bytes
(flag, data, parity) is 0 — for every data list (any length, any values) and both flags. -/
theorem make_block_parity (data : List Nat) (header : Bool) : xorAll (makeBlock data header) = 0 :=
  makeBlock_parity data header

/-- Layout of a block: flag byte (0 header / 255 data), the data unchanged, one parity byte. -/
theorem make_block_layout (data : List Nat) (header : Bool) :
    ∃ p, makeBlock data header = (if header then 0 else 255) :: (data ++ [p]) ∧
      (makeBlock data header).length = data.length + 2 :=
  ⟨_, makeBlock_eq data header, makeBlock_length data header⟩

/-- The 17-byte header (19 with flag and parity) of a CODE block, for every title, length and
start address: flag 0, type 3, the title cut/padded with spaces to 10 characters, then the
little-endian words LENGTH, START, 0 — and the words decode back to the arguments. -/
theorem header_layout_code (title : List Nat) (length start : Nat) :
    ∃ p, getHeader title length (.code start) =
        [0, 3] ++ padTitle title ++ [length % 256, length / 256, start % 256, start / 256, 0, 0, p] ∧
      (padTitle title).length = 10 ∧
      (∀ i, i < 10 → (padTitle title)[i]? = if i < title.length then title[i]? else some 32) ∧
      length % 256 + 256 * (length / 256) = length ∧ start % 256 + 256 * (start / 256) = start := by
  refine ⟨xorAll (0 :: ([3] ++ padTitle title ++ getWord length ++ getWord start ++ [0, 0])), ?_,
    padTitle_length title, padTitle_prefix title, by omega, by omega⟩
  simp [getHeader, makeBlock, getWord]

/-- The header of the BASIC loader: type 0, autostart LINE, program length = block length. -/
theorem header_layout_basic (title : List Nat) (length line : Nat) :
    ∃ p, getHeader title length (.basic line) =
        [0, 0] ++ padTitle title ++ [length % 256, length / 256, line % 256, line / 256, length % 256, length / 256, p] ∧
      (getHeader title length (.basic line)).length = 19 := by
  refine ⟨xorAll (0 :: ([0] ++ padTitle title ++ getWord length ++ getWord line ++ getWord length)), ?_,
    getHeader_length _ _ _⟩
  simp [getHeader, makeBlock, getWord]

/-- BASIC line 10: the two-byte length field after the line number is exactly the length of the
rest of the line (tokens, quoted numbers, ENTER), whatever CLEAR/START are and whether or not the
screen and 128K bank clauses are present; and the Program header announces the whole line. -/
theorem basic_loader_line_length (title : List Nat) (clear : Option Nat) (start : Nat) (scr banks : Bool) :
    ∃ text hdrParity blkParity,
      basicLoader title clear start scr banks =
        [[0, 0] ++ padTitle title ++ getWord (4 + (text.length + 1)) ++ [10, 0] ++ getWord (4 + (text.length + 1)) ++ [hdrParity],
         [255] ++ ([0, 10] ++ getWord (text.length + 1) ++ text ++ [13]) ++ [blkParity]] := by
  obtain ⟨text, ht⟩ := basicLine_length_field clear start scr banks
  have hl : ([0, 10] ++ getWord (text.length + 1) ++ text ++ [13]).length = 4 + (text.length + 1) := by
    simp [getWord]; omega
  refine ⟨text,
    xorAll (0 :: ([0] ++ padTitle title ++ getWord (4 + (text.length + 1)) ++ getWord 10 ++ getWord (4 + (text.length + 1)))),
    xorAll (255 :: ([0, 10] ++ getWord (text.length + 1) ++ text ++ [13])), ?_⟩
  simp only [basicLoader, ht, hl, getHeader, makeBlock]
  simp [getWord]

/-- The machine-code loader block: its code always ends up at 23296 (the address the BASIC
loader's `RANDOMIZE USR` jumps to) — with a loading screen the block starts at 16384 and the
screen (padded to 6912 bytes) precedes the code — and the header announces exactly the block. -/
theorem loader_block_layout (title : List Nat) (org length start stack : Nat) (scr : List Nat)
    (hscr : scr.length ≤ 6912) :
    ∃ pre, dataLoader title org length start stack scr =
        some [getHeader title (pre.length + 19) (.code (23296 - pre.length)),
              makeBlock (pre ++ dataLoaderCode org length start stack)] ∧
      (23296 - pre.length) + pre.length = 23296 ∧
      (scr = [] → pre = []) ∧ (scr ≠ [] → pre.length = 6912 ∧ pre.take scr.length = scr) := by
  by_cases h : scr = []
  · refine ⟨[], ?_, by simp, fun _ => rfl, fun h' => absurd h h'⟩
    simp [dataLoader, h, dataLoaderCode_length]
  · have hl : (scrPrefix scr).length = 6912 := by simp [scrPrefix]; omega
    refine ⟨scrPrefix scr, ?_, by omega, fun h' => absurd h' h, fun _ => ⟨hl, by simp [scrPrefix]⟩⟩
    simp [dataLoader, h, hl, dataLoaderCode_length]

/-! ### the stack pre-fill -/

/-- The pre-fill of `run` (no CLEAR): the block keeps its length, and byte `i` (address
`org + i`) becomes the stack byte that must be there when LD-BYTES returns — 0x3F, 0x05 (the
address of SA/LD-RET) and the low and high byte of START for the addresses STACK-4 … STACK-1 —
exactly when that address lies in the block; every other byte is unchanged.  All overlaps
(block starting inside the four bytes, ending inside them, containing them) are covered. -/
theorem stack_prefill (ram : List Nat) (org start stack : Nat) :
    (prefill ram org start stack).length = ram.length ∧
    ∀ i, i < ram.length →
      (prefill ram org start stack)[i]? =
        if stack ≤ org + i + 4 ∧ org + i < stack
        then [0x3F, 0x05, start % 256, start / 256][org + i + 4 - stack]? else ram[i]? := by
  refine ⟨prefill_length _ _ _ _, fun i hi => ?_⟩
  rw [prefill_get _ _ _ _ _ hi, NoClearLoad.stackContents_eq]

/-! ### the machine-code loader, executed in the generated Z80 model -/

variable {μ : Type} [MemLike μ] [RamMem μ]

/-- Symbolic execution of the 19 bytes `_get_data_loader` emits, for ALL org/length/start/stack:
from 23296, after eight instructions of the generated simulator model the CPU is at LD-BYTES
(0x0556) with IX = ORG, DE = LENGTH, A = 0xFF (data block flag), carry set (LOAD, not VERIFY),
SP = STACK-2 and START on the stack; nothing else in memory changed and 73 T-states passed.
`hstack`: the pushed word must land in RAM; `hclob`: it must not hit the loader's own `JP`. -/
theorem data_loader_sets_up_ld_bytes (cfg : Cfg) (s : St μ) (org length start stack : Nat)
    (hcode : CodeAt s.mem 23296 (dataLoaderCode org length start stack))
    (hpc : s.pc = 23296) (hs : s.reg.size = 24) (hok : RamMem.ok s.mem)
    (hstack : 16386 ≤ stack) (hstack' : stack < 65536) (hclob : stack < 23313 ∨ 23316 < stack) :
    let s' := runN cfg 8 s
    s'.pc = 0x0556 ∧ s'.t = s.t + 73 ∧ s'.iff = s.iff ∧
    rget s'.reg 9 + 256 * rget s'.reg 8 = org ∧
    rget s'.reg 5 + 256 * rget s'.reg 4 = length ∧
    rget s'.reg 0 = 0xFF ∧ rget s'.reg 1 % 2 = 1 ∧
    rget s'.reg 12 = (stack : Int) - 2 ∧
    mget s'.mem ((stack : Int) - 2) + 256 * mget s'.mem ((stack : Int) - 1) = start ∧
    (∀ x : Int, 0 ≤ x ∧ x < 65536 → x ≠ (stack : Int) - 2 → x ≠ (stack : Int) - 1 → mget s'.mem x = mget s.mem x) := by
  intro s'
  obtain ⟨reg', hrun, _, h9, h8, h5, h4, h0, h1, h12, _, _, _⟩ :=
    DataLoaderExec.data_loader_exec cfg s org length start stack hcode hpc hs hok hstack hstack' hclob
  have hs' : s' = _ := hrun
  have hm : ∀ x : Int, 0 ≤ x ∧ x < 65536 →
      mget (mset (mset s.mem ((stack : Int) - 2) ((start : Int) % 256)) ((stack : Int) - 1) ((start : Int) / 256)) x =
        if x = (stack : Int) - 1 then (start : Int) / 256 else if x = (stack : Int) - 2 then (start : Int) % 256 else mget s.mem x :=
    fun x hx => mget_mset2 _ hok _ _ _ _ _ (by omega) (by omega) hx
  rw [hs']
  refine ⟨rfl, rfl, rfl, ?_, ?_, h0, by show rget reg' 1 % 2 = 1; rw [h1]; rfl, h12, ?_, ?_⟩
  · show rget reg' 9 + 256 * rget reg' 8 = _; rw [h9, h8]; omega
  · show rget reg' 5 + 256 * rget reg' 4 = _; rw [h5, h4]; omega
  · show mget (mset (mset s.mem _ _) _ _) _ + 256 * mget (mset (mset s.mem _ _) _ _) _ = _
    rw [hm _ (by omega), hm _ (by omega), if_neg (by omega), if_pos rfl, if_pos rfl]; omega
  · intro x hx h2 h1'
    show mget (mset (mset s.mem _ _) _ _) x = _
    rw [hm x hx, if_neg h1', if_neg h2]

/-! ### `LoadTracer.fast_load` -/

/-- `fast_load` on a block built by `_make_block`, entered as the loaders enter LD-BYTES (A = flag
byte, DE = number of data bytes, IX = destination): exactly the `data` bytes — not the flag, not
the parity byte — are copied to IX, IX+1, … (wrapping at 64K, ROM addresses skipped); the parity
check succeeds (A = 0, F = carry only), DE = 0, IX advanced by the length; AF' holds the old AF,
interrupts are disabled, 0x053F (SA/LD-RET) is pushed and PC is at the `RET` of LD-BYTES (0x05E2);
every other memory cell is unchanged. -/
theorem fast_load_loads_block (data : List Nat) (header : Bool) (s : St μ)
    (hs : s.reg.size = 24) (hok : RamMem.ok s.mem)
    (hA : rget s.reg 0 = if header then 0 else 255)
    (hDE : rget s.reg 5 + 256 * rget s.reg 4 = (data.length : Int))
    (hIX : 0 ≤ rget s.reg 9 + 256 * rget s.reg 8 ∧ rget s.reg 9 + 256 * rget s.reg 8 < 65536)
    (hsp : 16386 ≤ rget s.reg 12 ∧ rget s.reg 12 < 65536)
    (hlen : data.length < 65536) :
    let s' := fastLoad (makeBlock data header) s
    let ix := rget s.reg 9 + 256 * rget s.reg 8
    s'.pc = 0x05E2 ∧ s'.iff = 0 ∧
    rget s'.reg 0 = 0 ∧ rget s'.reg 1 = 1 ∧
    rget s'.reg 5 + 256 * rget s'.reg 4 = 0 ∧
    rget s'.reg 9 + 256 * rget s'.reg 8 = (ix + data.length) % 65536 ∧
    rget s'.reg 16 = rget s.reg 0 ∧ rget s'.reg 17 = rget s.reg 1 ∧
    rget s'.reg 12 = rget s.reg 12 - 2 ∧
    (∀ x : Int, 0 ≤ x ∧ x < 65536 → mget s'.mem x =
      if (x - ix) % 65536 < data.length ∧ 16383 < x then ((data.getD ((x - ix) % 65536).toNat 0 : Nat) : Int)
      else if x = rget s.reg 12 - 1 then 0x05 else if x = rget s.reg 12 - 2 then 0x3F else mget s.mem x) := by
  intro s' ix
  have hm := FastLoadLemmas.fastLoad_match data (if header then 0 else 255)
    (xorAll ((if header then 0 else 255) :: data)) s hs hok
    (by rw [hA]; cases header <;> rfl) hDE hIX hsp hlen
  dsimp only at hm
  rw [← makeBlock_eq] at hm
  obtain ⟨mpc, miff, _, m12, m0, m1, m8, m9, m4, m5, m16, m17, _, mmem⟩ := hm
  have hpar0 : FastLoadLemmas.xorFrom (if header then 0 else 255) data ^^^ xorAll ((if header then 0 else 255) :: data) = 0 := by
    rw [xorAll_cons]; exact Nat.xor_self _
  rw [hpar0] at m0 m1
  refine ⟨mpc, miff, by simpa using m0, by simpa using m1, by rw [m5, m4]; rfl, ?_, m16, m17, m12, mmem⟩
  rw [m9, m8]; omega

/-! ### the no-CLEAR path end to end in the model -/

/-- After the loader and the fast load of the pre-filled main block, the four bytes below STACK
hold the return frame LD-BYTES needs — 0x053F (SA/LD-RET) and START — **whether or not** the block
overlaps them (this is what the pre-fill is for); the load succeeded (A = 0, carry set, DE = 0);
every byte of the binary outside those four addresses is at ORG+i; all other RAM is untouched. -/
theorem no_clear_load_leaves_return_frame (cfg : Cfg) (s : St μ) (ram : List Nat) (org start stack : Nat)
    (hcode : CodeAt s.mem 23296 (dataLoaderCode org ram.length start stack))
    (hpc : s.pc = 23296) (hs : s.reg.size = 24) (hok : RamMem.ok s.mem)
    (horg : 16384 ≤ org) (hend : org + ram.length ≤ 65536) (hne : 0 < ram.length)
    (hstack : 16388 ≤ stack) (hstack' : stack < 65536) (hclob : stack < 23313 ∨ 23316 < stack) :
    let s' := fastLoad (makeBlock (prefill ram org start stack)) (runN cfg 8 s)
    s'.pc = 0x05E2 ∧ rget s'.reg 12 = (stack : Int) - 4 ∧
    rget s'.reg 0 = 0 ∧ rget s'.reg 1 = 1 ∧ rget s'.reg 4 = 0 ∧ rget s'.reg 5 = 0 ∧
    mget s'.mem ((stack : Int) - 4) = 0x3F ∧ mget s'.mem ((stack : Int) - 3) = 0x05 ∧
    mget s'.mem ((stack : Int) - 2) = (start : Int) % 256 ∧ mget s'.mem ((stack : Int) - 1) = (start : Int) / 256 ∧
    (∀ i : Nat, i < ram.length → ¬ (stack ≤ org + i + 4 ∧ org + i < stack) →
      mget s'.mem ((org : Int) + i) = ((ram.getD i 0 : Nat) : Int)) ∧
    (∀ x : Int, 0 ≤ x ∧ x < 65536 → (x < org ∨ (org : Int) + ram.length ≤ x) →
      (x < (stack : Int) - 4 ∨ (stack : Int) ≤ x) → mget s'.mem x = mget s.mem x) := by
  have h := NoClearLoad.no_clear_load cfg s ram org start stack hcode hpc hs hok horg hend hne hstack hstack' hclob
  obtain ⟨a, _, _, _, _, b, c, d, e, f, g, h1, h2, h3, h4, h5⟩ := h
  exact ⟨a, b, c, d, e, f, g, h1, h2, h3, h4, h5⟩

/-- The ROM epilogue in the generated model: from the `RET` at 0x05E2 with the frame
[0x053F, lo, hi] on the stack, the 15 instructions of `RET`; SA/LD-RET (restore border, test
BREAK with the keyboard port reading "not pressed", `EI`, `POP AF`, `RET`) end at `lo + 256·hi`
with SP four bytes up, interrupts enabled, A and F as LD-BYTES left them; only the two bytes
`PUSH AF` wrote (where 0x053F was) differ in memory. -/
theorem rom_epilogue_returns_to_start (cfg : Cfg) (s : St μ) (sp lo hi : Int)
    (hcfg : cfg.out_tracer = true ∧ cfg.in_a_n_tracer = true)
    (hpc : s.pc = 0x05E2) (hs : s.reg.size = 24) (hok : RamMem.ok s.mem) (hrom : RomReturn.RomEpilogue s.mem)
    (hsp : rget s.reg 12 = sp) (hsp0 : 16384 ≤ sp) (hsp1 : sp + 4 < 65536)
    (hm0 : mget s.mem sp = 0x3F) (hm1 : mget s.mem (sp + 1) = 0x05)
    (hm2 : mget s.mem (sp + 2) = lo) (hm3 : mget s.mem (sp + 3) = hi)
    (hin : (readPort s.ins).1 % 2 = 1) :
    let s' := runN cfg 15 s
    s'.pc = lo + 256 * hi ∧ rget s'.reg 12 = sp + 4 ∧ s'.iff = 1 ∧ s'.t = s.t + 122 ∧
    (∀ i : Int, i ≠ 12 → i ≠ 15 → rget s'.reg i = rget s.reg i) ∧
    (∀ x : Int, 0 ≤ x ∧ x < 65536 → x ≠ sp → x ≠ sp + 1 → mget s'.mem x = mget s.mem x) := by
  intro s'
  obtain ⟨reg', mem', outs', inLog', hrun, ⟨_, r12, rfr⟩, _, rmem⟩ :=
    RomReturn.rom_return_exec cfg s sp lo hi hcfg hpc hs hok hrom hsp hsp0 hsp1 hm0 hm1 hm2 hm3 hin
  have hs' : s' = _ := hrun
  rw [hs']
  refine ⟨rfl, r12, rfl, rfl, rfr, ?_⟩
  intro x hx h0 h1
  show mget mem' x = _
  rw [rmem x hx, if_neg h1, if_neg h0]

/-- **The no-CLEAR tape loads and starts, in the model**: loader bytes from `_get_data_loader`
at 23296, main block `_make_block(pre-filled ram)` consumed by `fast_load`, ROM epilogue present.
For all ORG/START/STACK/contents within the documented ranges: the program counter reaches START
with SP = STACK and interrupts enabled; every byte of the binary whose address is not one of the
four below STACK is at its address; RAM outside the block and those four bytes is unchanged.
(`hin`: the BREAK key reads as not pressed; no interrupt is accepted in between — interrupt
acceptance belongs to `LoadTracer.run`, which is not modelled.) -/
theorem no_clear_tape_loads_and_starts (cfg : Cfg) (s : St μ) (ram : List Nat) (org start stack : Nat)
    (hcfg : cfg.out_tracer = true ∧ cfg.in_a_n_tracer = true)
    (hcode : CodeAt s.mem 23296 (dataLoaderCode org ram.length start stack))
    (hrom : RomReturn.RomEpilogue s.mem)
    (hpc : s.pc = 23296) (hs : s.reg.size = 24) (hok : RamMem.ok s.mem)
    (horg : 16384 ≤ org) (hend : org + ram.length ≤ 65536) (hne : 0 < ram.length)
    (hstack : 16388 ≤ stack) (hstack' : stack < 65536) (hclob : stack < 23313 ∨ 23316 < stack)
    (hin : (readPort s.ins).1 % 2 = 1) :
    let sF := runN cfg 15 (fastLoad (makeBlock (prefill ram org start stack)) (runN cfg 8 s))
    sF.pc = start ∧ rget sF.reg 12 = stack ∧ sF.iff = 1 ∧
    (∀ i : Nat, i < ram.length → ¬ (stack ≤ org + i + 4 ∧ org + i < stack) →
      mget sF.mem ((org : Int) + i) = ((ram.getD i 0 : Nat) : Int)) ∧
    (∀ x : Int, 0 ≤ x ∧ x < 65536 → (x < org ∨ (org : Int) + ram.length ≤ x) →
      (x < (stack : Int) - 4 ∨ (stack : Int) ≤ x) → mget sF.mem x = mget s.mem x) :=
  NoClearLoad.no_clear_run cfg s ram org start stack hcfg hcode hrom hpc hs hok horg hend hne
    hstack hstack' hclob hin

/-- When the tape does not match what the caller of LD-BYTES asked for, `fast_load` reports
failure the way the ROM does (carry reset) instead of loading: (1) flag byte ≠ A: nothing is stored
beyond the two stack bytes, F = 0; (2) block shorter than DE: F = 0x40 (zero set, carry reset) and
DE holds the number of bytes still missing. -/
theorem fast_load_reports_failure (block : List Nat) (s : St μ) (hok : RamMem.ok s.mem) (hs : s.reg.size = 24)
    (hsp : 16386 ≤ rget s.reg 12 ∧ rget s.reg 12 < 65536) (hne : block ≠ []) :
    (rget s.reg 0 ≠ ((block.headD 0 : Nat) : Int) →
      (fastLoad block s).pc = 0x05E2 ∧ rget (fastLoad block s).reg 1 = 0 ∧
      ∀ x : Int, 0 ≤ x ∧ x < 65536 → x ≠ rget s.reg 12 - 1 → x ≠ rget s.reg 12 - 2 →
        mget (fastLoad block s).mem x = mget s.mem x) ∧
    (rget s.reg 0 = ((block.headD 0 : Nat) : Int) →
      (block.length : Int) - 2 < rget s.reg 5 + 256 * rget s.reg 4 → rget s.reg 5 + 256 * rget s.reg 4 < 65536 →
      (fastLoad block s).pc = 0x05E2 ∧ rget (fastLoad block s).reg 1 = 0x40 ∧
      rget (fastLoad block s).reg 5 + 256 * rget (fastLoad block s).reg 4 =
        rget s.reg 5 + 256 * rget s.reg 4 - ((block.length : Int) - 1)) := by
  refine ⟨fun hA => ?_, fun hA hDE hDE' => FastLoadLemmas.fastLoad_short_block block s hs hA hDE hDE' hne⟩
  obtain ⟨h1, h2, _, h4⟩ := FastLoadLemmas.fastLoad_flag_mismatch block s hok hs hA hsp
  refine ⟨h1, h2, fun x hx n1 n2 => ?_⟩
  rw [h4 x hx, if_neg n1, if_neg n2]

/-! ### the 128K bank loader -/

/-- Layout of the bank loader block: 38 bytes of code whose first instruction points HL at the
table that follows it (ADDRESS+38), then one entry `bank + 0x10` (48K ROM selected) per requested
bank in ascending order — the order in which `run` appends the bank blocks — and the end marker
`0x80 | N`, the only entry with bit 7 set when the banks are 0..7, whose low six bits are N's. -/
theorem bank_loader_layout (title : List Nat) (address startAddr : Nat) (banks : List Nat) (out7ffd : Nat)
    (hb : ∀ b ∈ banks, b < 8) :
    ∃ code table, bankLoader title address startAddr banks out7ffd =
        [getHeader title (38 + table.length) (.code address), makeBlock (code ++ table)] ∧
      code = bankLoaderCode address startAddr ∧ code.length = 38 ∧
      code.getD 0 0 = 0x21 ∧ code.getD 1 0 + 256 * code.getD 2 0 = address + 38 ∧
      table = (sortNat banks).map (· + 0x10) ++ [0x80 ||| out7ffd] ∧
      (sortNat banks).Pairwise (· ≤ ·) ∧ (∀ b, b ∈ sortNat banks ↔ b ∈ banks) ∧
      (∀ e ∈ (sortNat banks).map (· + 0x10), e < 128) ∧
      128 ≤ (0x80 ||| out7ffd) ∧ (0x80 ||| out7ffd) % 64 = out7ffd % 64 := by
  refine ⟨bankLoaderCode address startAddr, bankTable banks out7ffd, ?_, rfl, bankLoaderCode_length _ _, ?_, ?_, rfl,
    sortNat_sorted banks, fun b => mem_sortNat b banks, ?_, Nat.left_le_or, ?_⟩
  · simp [bankLoader, bankLoaderCode_length]
  · simp [bankLoaderCode]
  · simp [bankLoaderCode]; omega
  · intro e he
    obtain ⟨b, hb1, rfl⟩ := List.mem_map.1 he
    have := hb b ((mem_sortNat b banks).1 hb1); omega
  · have h := @Nat.or_mod_two_pow 0x80 out7ffd 6
    simp only [show (2 : Nat) ^ 6 = 64 from rfl] at h
    rw [h]; simp

open BankLoaderExec in
/-- One pass of the loader's loop in the generated Z80 model, for ALL loader addresses, table
positions and entries with bit 7 clear: 15 instructions from LOOP end at LD-BYTES (0x0556) with the
entry's low six bits written to port 0x7FFD (what `o7ffd` then reports) and to BANKM (0x5B5C),
IX = 0xC000, DE = 0x4000, A = 0xFF, carry set, interrupts enabled again, and on the stack the
table pointer under the return address ADDRESS+34; nothing else below 0xC000 changed.
Hypotheses: loader, table entry and stack below 0xC000 in RAM, not overlapping each other or
BANKM; paging not locked. -/
theorem bank_loader_pages_and_calls_ld_bytes {ν : Type} [MemLike ν] [PagedMem ν]
    (cfg : Cfg) (s : St ν) (address startAddr : Nat) (tp e sp : Int)
    (hcfg : cfg.out_tracer = true)
    (hcode : CodeAt s.mem address (bankLoaderCode address startAddr))
    (haddr : 16384 ≤ address ∧ address + 38 ≤ 49152)
    (hpc : s.pc = (address : Int) + 3) (hs : s.reg.size = 24) (hok : PagedMem.ok s.mem)
    (hHL : rget s.reg 7 + 256 * rget s.reg 6 = tp) (htp : 16384 ≤ tp ∧ tp < 49152)
    (hentry : mget s.mem tp = e) (he : 0 ≤ e ∧ e < 128)
    (hsp : rget s.reg 12 = sp) (hsp0 : 16388 ≤ sp ∧ sp ≤ 49152)
    (hdisj : sp ≤ (address : Int) ∨ (address : Int) + 38 ≤ sp - 4)
    (hbankm : (23388 < address ∨ address + 38 ≤ 23388) ∧ tp ≠ 23388 ∧ (sp ≤ 23388 ∨ 23388 < sp - 4))
    (hlock : PyInt.land (MemLike.o7ffd s.mem) 32 = 0) :
    let s' := runN cfg 15 s
    s'.pc = 0x0556 ∧ s'.iff = 1 ∧ s'.outs = (0x7FFD, e % 64) :: s.outs ∧
    MemLike.o7ffd s'.mem = e % 64 ∧ mget s'.mem 0x5B5C = e % 64 ∧
    rget s'.reg 9 + 256 * rget s'.reg 8 = 0xC000 ∧ rget s'.reg 5 + 256 * rget s'.reg 4 = 0x4000 ∧
    rget s'.reg 0 = 0xFF ∧ rget s'.reg 1 % 2 = 1 ∧ rget s'.reg 12 = sp - 4 ∧
    mget s'.mem (sp - 4) + 256 * mget s'.mem (sp - 3) = (address : Int) + 34 ∧
    mget s'.mem (sp - 2) + 256 * mget s'.mem (sp - 1) = tp ∧
    (∀ b : Int, 16384 ≤ b ∧ b < 49152 → b ≠ 0x5B5C → (b < sp - 4 ∨ sp ≤ b) → mget s'.mem b = mget s.mem b) := by
  intro s'
  obtain ⟨reg', mem', hrun, _, h9, h8, h5, h4, h0, h1, h12, _, _, _, ho, hb, hs2, hs1, hs4, hs3, hfr⟩ :=
    bank_loader_pass cfg s address startAddr tp e sp hcfg hcode haddr hpc hs hok hHL htp hentry he hsp hsp0 hdisj hbankm hlock
  have hs' : s' = _ := hrun
  rw [hs']
  refine ⟨rfl, rfl, rfl, ho, hb, ?_, ?_, h0, ?_, h12, ?_, ?_, hfr⟩
  · show rget reg' 9 + 256 * rget reg' 8 = _; rw [h9, h8]; rfl
  · show rget reg' 5 + 256 * rget reg' 4 = _; rw [h5, h4]; rfl
  · show rget reg' 1 % 2 = 1; rw [h1]; rfl
  · show mget mem' _ + 256 * mget mem' _ = _; rw [hs4, hs3]; omega
  · show mget mem' _ + 256 * mget mem' _ = _; rw [hs2, hs1]; exact hHL

open BankLoaderExec in
/-- After LD-BYTES returns to ADDRESS+34 the three instructions `POP HL; INC HL; JR LOOP` are back
at LOOP with HL pointing at the next table entry and the stack balanced. -/
theorem bank_loader_next_entry {ν : Type} [MemLike ν]
    (cfg : Cfg) (s : St ν) (address startAddr : Nat) (sp : Int)
    (hcode : CodeAt s.mem address (bankLoaderCode address startAddr))
    (haddr : 16384 ≤ address ∧ address + 38 ≤ 49152)
    (hpc : s.pc = (address : Int) + 34) (hs : s.reg.size = 24)
    (hsp : rget s.reg 12 = sp) (hsp0 : 0 ≤ sp ∧ sp + 2 < 65536)
    (hb : 0 ≤ mget s.mem sp ∧ mget s.mem sp < 256 ∧ 0 ≤ mget s.mem (sp + 1) ∧ mget s.mem (sp + 1) < 256) :
    let s' := runN cfg 3 s
    s'.pc = (address : Int) + 3 ∧ rget s'.reg 12 = sp + 2 ∧ s'.mem = s.mem ∧
    rget s'.reg 7 + 256 * rget s'.reg 6 = (mget s.mem sp + 256 * mget s.mem (sp + 1) + 1) % 65536 := by
  intro s'
  obtain ⟨reg', hrun, _, h12, hhl, _⟩ := bank_loader_next cfg s address startAddr sp hcode haddr hpc hs hsp hsp0 hb
  have hs' : s' = _ := hrun
  rw [hs']
  exact ⟨rfl, h12, rfl, hhl⟩

open BankLoaderExec in
/-- The final pass: on the end marker `0x80 | N` the loader writes N's low six bits to port 0x7FFD
and BANKM, enables interrupts and jumps to START — 9 instructions, stack untouched, nothing else
below 0xC000 changed. -/
theorem bank_loader_final_pass_starts_program {ν : Type} [MemLike ν] [PagedMem ν]
    (cfg : Cfg) (s : St ν) (address startAddr out7ffd : Nat) (tp : Int)
    (hcfg : cfg.out_tracer = true)
    (hcode : CodeAt s.mem address (bankLoaderCode address startAddr))
    (haddr : 16384 ≤ address ∧ address + 38 ≤ 49152)
    (hpc : s.pc = (address : Int) + 3) (hs : s.reg.size = 24) (hok : PagedMem.ok s.mem)
    (hHL : rget s.reg 7 + 256 * rget s.reg 6 = tp) (htp : 16384 ≤ tp ∧ tp < 49152)
    (ho : out7ffd < 128)
    (hentry : mget s.mem tp = ((0x80 ||| out7ffd : Nat) : Int))
    (hbankm : (23388 < address ∨ address + 38 ≤ 23388) ∧ tp ≠ 23388)
    (hlock : PyInt.land (MemLike.o7ffd s.mem) 32 = 0) :
    let s' := runN cfg 9 s
    s'.pc = startAddr ∧ s'.iff = 1 ∧ rget s'.reg 12 = rget s.reg 12 ∧
    MemLike.o7ffd s'.mem = (out7ffd % 64 : Nat) ∧ mget s'.mem 0x5B5C = (out7ffd % 64 : Nat) ∧
    (∀ b : Int, 16384 ≤ b ∧ b < 49152 → b ≠ 0x5B5C → mget s'.mem b = mget s.mem b) := by
  intro s'
  have hge : 128 ≤ (0x80 ||| out7ffd) := Nat.left_le_or
  have hlt : (0x80 ||| out7ffd) < 256 := Nat.or_lt_two_pow (n := 8) (by omega) (by omega)
  have hmod : (0x80 ||| out7ffd) % 64 = out7ffd % 64 := by
    have h := @Nat.or_mod_two_pow 0x80 out7ffd 6
    simp only [show (2 : Nat) ^ 6 = 64 from rfl] at h
    rw [h]; simp
  obtain ⟨reg', mem', hrun, _, h12, _, ho7, hbm, hfr⟩ :=
    bank_loader_final cfg s address startAddr tp ((0x80 ||| out7ffd : Nat) : Int) hcfg hcode haddr hpc hs hok hHL htp
      hentry (by omega) hbankm hlock
  have hs' : s' = _ := hrun
  have he : (((0x80 ||| out7ffd : Nat) : Int)) % 64 = ((out7ffd % 64 : Nat) : Int) := by omega
  rw [hs']
  refine ⟨?_, rfl, h12, ?_, ?_, hfr⟩
  · show (startAddr : Int) % 256 + 256 * ((startAddr : Int) / 256) = _; omega
  · show MemLike.o7ffd mem' = _; rw [ho7, he]
  · show mget mem' _ = _; rw [hbm, he]

/-! ### from `run` to the blocks tap2sna plays -/

open TapeFiles in
/-- For every argument tuple in the documented ranges (`ArgsOk`: byte contents, addresses below
64K, screen of at most 6912 bytes, at most eight banks 0..7 of less than 64K, 7FFD value below
128) `run` succeeds — none of the `bytes()` conversions can raise — and the file it writes reads
back, through `parse_tap` (TAP) resp. `parse_pzx` (PZX), as exactly the blocks it built, in order
(C11's round-trip theorems applied to bin2tap's block list). -/
theorem run_writes_a_tape_that_reads_back (a : Args) (h : ArgsOk a) :
    ∃ blocks file, runBlocks a = some blocks ∧ run a = .ok file ∧ blocks ≠ [] ∧
      (isPzx a.name = false → parseTap file = ⟨number 1 blocks, .none⟩) ∧
      (isPzx a.name = true → parsePzx file = .ok ((1, headerBlock) :: expected 0 2 blocks)) := by
  obtain ⟨blocks, hb, hne, hv, hnn⟩ := runBlocks_valid a h
  have hvp : ValidPzx blocks := fun d hd => ⟨hnn d hd, by have := (hv d hd).1; omega, (hv d hd).2⟩
  obtain ⟨tap, ht1, ht2⟩ := C11.tap_roundtrip blocks hv
  obtain ⟨pzx, hp1, hp2⟩ := C11.pzx_roundtrip blocks hvp
  by_cases hz : isPzx a.name = true
  · refine ⟨blocks, pzx, hb, ?_, hne, ?_, fun _ => hp2⟩
    · simp [run, hb, hz, hp1]
    · intro h'; rw [hz] at h'; cases h'
  · have hz' : isPzx a.name = false := by simpa using hz
    refine ⟨blocks, tap, hb, ?_, hne, fun _ => ht2, ?_⟩
    · simp [run, hb, hz', ht1]
    · intro h'; rw [hz'] at h'; cases h'

/-! ### non-vacuity: concrete values and a concrete machine meeting every hypothesis -/

example : makeBlock [1, 2, 3] = [255, 1, 2, 3, 255] := by decide
example : getHeader [97, 98] 10 (.code 32768) =
    [0, 3, 97, 98, 32, 32, 32, 32, 32, 32, 32, 32, 10, 0, 0, 128, 0, 0, 138] := by decide
example : dec 23296 = [50, 51, 50, 57, 54] := by decide
example : dataLoaderCode 32768 3 32769 32770 =
    [221, 33, 0, 128, 17, 3, 0, 55, 159, 49, 2, 128, 1, 1, 128, 197, 195, 86, 5] := by decide
-- the block starts inside the four stack bytes (STACK = ORG+2, the case the unfixed loop skipped)
example : prefill [1, 2, 3, 4, 5] 32768 32770 32770 = [2, 128, 3, 4, 5] := by decide
-- the block ends inside them, contains them, misses them
example : prefill [1, 2, 3, 4, 5] 32768 32770 32775 = [1, 2, 3, 63, 5] := by decide
example : prefill [1, 2, 3, 4, 5, 6] 32768 32770 32773 = [1, 63, 5, 2, 128, 6] := by decide
example : prefill [1, 2, 3] 32768 32770 32768 = [1, 2, 3] := by decide

/-- every hypothesis of `no_clear_tape_loads_and_starts` holds for this machine, so its conclusion
does: PC = 40001, SP = 40002, and the byte at 40002 (outside the stack frame) is the program's -/
example :
    let sF := runN exCfg 15 (fastLoad (makeBlock (prefill [7, 8, 9] 40000 40001 40002)) (runN exCfg 8 exState))
    sF.pc = 40001 ∧ rget sF.reg 12 = 40002 ∧ mget sF.mem 40002 = 9 := by
  have h := no_clear_tape_loads_and_starts exCfg exState [7, 8, 9] 40000 40001 40002 ⟨rfl, rfl⟩
    exMem_loader exMem_rom rfl (by simp [exState]) trivial (by omega) (by simp) (by simp) (by omega) (by omega)
    (by omega) (by simp [exState, readPort])
  obtain ⟨h1, h2, _, h4, _⟩ := h
  refine ⟨h1, h2, ?_⟩
  have := h4 2 (by simp) (by omega)
  simpa using this

example : bankLoaderCode 30000 32768 ++ bankTable [1, 0] 3 =
    [0x21, 0x56, 0x75, 0x01, 0xFD, 0x7F, 0x7E, 0xE6, 0x3F, 0xF3, 0xED, 0x79, 0x32, 0x5C, 0x5B, 0xFB, 0xCB, 0x7E,
     0xC2, 0x00, 0x80, 0xE5, 0xDD, 0x21, 0x00, 0xC0, 0x11, 0x00, 0x40, 0x37, 0x9F, 0xCD, 0x56, 0x05, 0xE1, 0x23,
     0x18, 0xDD, 0x10, 0x11, 0x83] := by decide

/-- every hypothesis of `bank_loader_pages_and_calls_ld_bytes` holds for the example 128K machine:
the first pass pages bank 0 (entry 0x10) and calls LD-BYTES -/
example :
    let s' := runN exCfg 15 exBankState
    s'.pc = 0x0556 ∧ MemLike.o7ffd s'.mem = 16 ∧ rget s'.reg 12 = 29986 := by
  have h := bank_loader_pages_and_calls_ld_bytes exCfg exBankState 30000 32768 30038 16 29990 rfl
    exBank_code (by omega) rfl (by simp [exBankState]) trivial (by decide) (by omega) exBank_entry (by omega)
    (by decide) (by omega) (by omega) (by omega) (by decide)
  obtain ⟨h1, _, _, h4, _, _, _, _, _, h10, _⟩ := h
  exact ⟨h1, h4, h10⟩

-- `ArgsOk` is satisfiable (48K tape, and 128K tape with two banks), and `run` is computable on it
example : ArgsOk { ram := [1, 2, 3], clear := none, org := 32768, start := 32768, stack := 32770, name := [97, 46, 116, 97, 112],
                   scr := [], banks := none, out7ffd := 0, loaderAddr := 0 } :=
  { ram := bytes_of_lits _ rfl, ramLen := by decide, name := bytes_of_lits _ rfl, org := by decide, start := by decide,
    stack := by decide, clear := fun c h => (by cases h), scr := Bytes.nil, scrLen := by decide, o7 := by decide,
    loader := by decide, banks := fun bs h => (by cases h) }

example : ArgsOk { ram := [1, 2, 3], clear := some 24999, org := 30000, start := 30000, stack := 30000, name := [97, 46, 112, 122, 120],
                   scr := [], banks := some [(1, [9, 9]), (0, [8])], out7ffd := 3, loaderAddr := 25000 } :=
  { ram := bytes_of_lits _ rfl, ramLen := by decide, name := bytes_of_lits _ rfl, org := by decide, start := by decide,
    stack := by decide, clear := fun c h => (by cases h; decide), scr := Bytes.nil, scrLen := by decide, o7 := by decide,
    loader := by decide,
    banks := fun bs h => by
      cases h
      refine ⟨by decide, ?_⟩
      intro b hb
      simp only [List.mem_cons, List.mem_nil_iff, or_false] at hb
      rcases hb with rfl | rfl
      · exact ⟨by decide, bytes_of_lits _ rfl, by decide⟩
      · exact ⟨by decide, bytes_of_lits _ rfl, by decide⟩ }

end C12
