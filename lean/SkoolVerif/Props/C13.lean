import SkoolVerif.Proofs.LoadAccelDecA
import SkoolVerif.Proofs.LoadAccelTsl
import SkoolVerif.Proofs.LoadAccelMatch
import SkoolVerif.Proofs.LoadAccelCompose
import SkoolVerif.Proofs.AccelWalkLemmas
import SkoolVerif.Proofs.AccelWalkSound
import SkoolVerif.Proofs.LoadAccelExamples
import SkoolVerif.Proofs.LoadDecA
import SkoolVerif.Proofs.LoadFfwd
/-!
C13 — simulated LOAD results do not depend on speed-up options or simulator choice.

Models: `Gen/SimHandlers.lean` (the Z80 closures, translated on every run from `simulator.py`),
`Gen/Accelerators.lean` (the `ACCELERATORS` table, dumped on every run from `loadsample.py`),
`Model/LoadAccel.lean` (`loadtracer.dec_a`, the `DEC`/`INC0` tables, the fast-forward arithmetic of
`_read_port`), `Model/LoadTape.lean` (tracer state, edge index, `_read_port`, tape section of the
`run` loop), `Model/AccelWalk.lean` (static walk of a loop signature through the dispatch tables; its soundness
against the Z80 model is `Proofs/AccelWalkSound.lean`).
Property theorems only.
-/
namespace C13
open Z80 Sim LoadAccel LoadTape AccelWalk

/-! ### `DEC A: JR NZ,$-1` / `DEC A: JP NZ,$-1` acceleration (`accelerate-dec-a`) -/

/-- With `DEC A: JR NZ,$-1` at PC and interrupts disabled, the state the accelerator writes is
*exactly* (every register, memory, clock, PC) the state of the generated Z80 model after
`2·A` instructions (`A = 0` counting as 256) — for any memory, any register contents. -/
theorem dec_a_jr_equiv {μ : Type} [MemLike μ] (cfg : Cfg) (optJr optJp : Bool) (s : St μ) (hr : RegsOk s.reg)
    (hpc : 0 ≤ s.pc ∧ s.pc < 65536) (hm : mget s.mem s.pc = 0x3D) (hk : decAKind optJr optJp s = .jr) :
    decAHook optJr optJp s = runN cfg (2 * (aval s).toNat) s :=
  hook_jr_eq_run cfg optJr optJp s hr hpc hm hk

/-- the same for `DEC A: JP NZ,$-1` -/
theorem dec_a_jp_equiv {μ : Type} [MemLike μ] (cfg : Cfg) (optJr optJp : Bool) (s : St μ) (hr : RegsOk s.reg)
    (hpc : 0 ≤ s.pc ∧ s.pc < 65536) (hm : mget s.mem s.pc = 0x3D) (hk : decAKind optJr optJp s = .jp) :
    decAHook optJr optJp s = runN cfg (2 * (aval s).toNat) s :=
  hook_jp_eq_run cfg optJr optJp s hr hpc hm hk

/-- …and `2·A` is where the loop exits, not later: before that the program counter is on one of
the two loop instructions (so nothing else — in particular no port read — is skipped). -/
theorem dec_a_jr_exit_is_first {μ : Type} [MemLike μ] (cfg : Cfg) (s : St μ) (h : JrLoop s) (k : Nat)
    (hk : (k : Int) < 2 * aval s) : (runN cfg k s).pc = s.pc ∨ (runN cfg k s).pc = (s.pc + 1) % 65536 :=
  jr_in_loop cfg s h k hk

theorem dec_a_jp_exit_is_first {μ : Type} [MemLike μ] (cfg : Cfg) (s : St μ) (h : JpLoop s) (k : Nat)
    (hk : (k : Int) < 2 * aval s) : (runN cfg k s).pc = s.pc ∨ (runN cfg k s).pc = (s.pc + 1) % 65536 :=
  jp_in_loop cfg s h k hk

/-- The values written, spelled out: `A = 0`, `F = 0x42 + carry`, `R += 2a` (bit 7 kept),
`T += 16a − 5` (JR) / `14a` (JP), `PC += 3` / `4`. -/
theorem dec_a_written_values {μ : Type} [MemLike μ] (tc : Int → Int) (size : Int) (s : St μ) (hr : RegsOk s.reg) :
    decAFfwd tc size s =
      { s with
        reg := rset (rset (rset s.reg 0 0) 1 (0x42 + (rget s.reg 1) % 2)) 15 (rAdd (rget s.reg 15) (2 * aval s)),
        t := s.t + tc (aval s), pc := (s.pc + size) % 65536 } :=
  decAFfwd_norm tc size s hr

/-- When the hook does not accelerate (interrupts enabled, option off, other code after the
`DEC A`), it is the simulator's own `DEC A`: installing it changes nothing. -/
theorem dec_a_hook_otherwise_plain {μ : Type} [MemLike μ] (cfg : Cfg) (optJr optJp : Bool) (s : St μ)
    (hr : RegsOk s.reg) (hm : mget s.mem s.pc = 0x3D)
    (hk : decAKind optJr optJp s = .miss ∨ decAKind optJr optJp s = .plain) :
    decAHook optJr optJp s = step cfg s :=
  hook_plain_eq_step cfg optJr optJp s hr hm hk

/-- `loadtracer.DEC` / `INC0` (the tracer's private copies) are the simulator's `DEC` / `INC`
tables, for every index. -/
theorem tracer_tables_are_simulator_tables (c a : Int) : ltDEC c a = Tbl.DEC c a ∧ ltINC0 a = Tbl.INC 0 a :=
  ⟨ltDEC_eq c a, ltINC0_eq a⟩

/-! ### tape-sampling loop fast-forward (`accelerator=…`) -/

/-- What `_read_port` writes for an INC-counting loop (counter, F, R, T) is `loops` iterations of
the loop body the `ACCELERATORS` entry describes — whenever `1 ≤ loops ≤ 255 − counter`. -/
theorem tsl_ffwd_equiv_inc (L ri c f r t loops : Int) (hr : Byte r) (hc : 0 ≤ c) (h1 : 1 ≤ loops) (h2 : loops ≤ 255 - c) :
    tslFfwd true L ri c r t loops = some (iterN (tslIter true L ri) loops.toNat (c, f, r, t)) :=
  tslFfwd_inc_eq_iter L ri c f r t loops hr hc h1 h2

/-- …and for a DEC-counting loop whenever `1 ≤ loops ≤ counter − 1`. -/
theorem tsl_ffwd_equiv_dec (L ri c f r t loops : Int) (hr : Byte r) (hc : c ≤ 255) (h1 : 1 ≤ loops) (h2 : loops ≤ c - 1) :
    tslFfwd false L ri c r t loops = some (iterN (tslIter false L ri) loops.toNat (c, f, r, t)) :=
  tslFfwd_dec_eq_iter L ri c f r t loops hr hc h1 h2

/-- `loops` as `_read_port` computes it (INC): non-negative, never lets the counter reach 0
(time-out exit), every skipped sample is taken at or before the next edge, and it is maximal:
either the counter bound was hit or the next sample comes after the edge. -/
theorem tsl_loops_spec_inc (E t L c : Int) (hL : 0 < L) (hE : t < E) (hc : 0 ≤ c ∧ c ≤ 255) :
    let loops := tslLoops true E t L c
    0 ≤ loops ∧ loops ≤ 255 - c ∧ (∀ k : Int, 0 ≤ k → k < loops → t + k * L ≤ E) ∧ (loops = 255 - c ∨ E < t + loops * L) :=
  tslLoops_inc_spec E t L c hL hE hc

/-- The same for DEC, *including* a counter of 0 (= 256 iterations left), which is not
fast-forwarded at all (`loops = 0`; before the fix of the finding `tsl-dec-counter-zero` it was
−1). -/
theorem tsl_loops_spec_dec (E t L c : Int) (hL : 0 < L) (hE : t < E) (hc : 0 ≤ c ∧ c ≤ 255) :
    let loops := tslLoops false E t L c
    0 ≤ loops ∧ (1 ≤ c → loops ≤ c - 1) ∧ (c = 0 → loops = 0) ∧ (∀ k : Int, 0 ≤ k → k < loops → t + k * L ≤ E)
      ∧ (loops = max (c - 1) 0 ∨ E < t + loops * L) :=
  tslLoops_dec_spec E t L c hL hE hc

/-- No tape edge is skipped (see `LoadTape.no_edge_skipped`). -/
theorem tsl_no_edge_skipped (edges : Array Int) (maxIndex : Int) (fuel : Nat) (idx : Int) (inc : Bool) (T E L c : Int)
    (hfuel : 1 ≤ fuel) (hi : idx < maxIndex) (hE : pyGet edges (idx + 1) = some E) (hL : 0 < L) (hT : T < E)
    (hc : 0 ≤ c ∧ c ≤ 255) :
    let loops := tslLoops inc E T L c
    (∀ k : Int, 0 ≤ k → k < loops → advIdx edges maxIndex fuel idx (T + k * L) = some idx) ∧
    (E < T + loops * L → (idx + 1 = maxIndex ∨ ∃ e2, pyGet edges (idx + 2) = some e2 ∧ T + loops * L ≤ e2) →
        advIdx edges maxIndex fuel idx (T + loops * L) = some (idx + 1)) :=
  no_edge_skipped edges maxIndex fuel idx inc T E L c hfuel hi hE hL hT hc

/-- The fast-forward branch of the modelled `_read_port`, for any table entry shape (INC or DEC,
any counter register B..L, any loop time > 0) and any in-range registers: it performs a
non-negative number of iterations of the loop body, and nothing else. -/
theorem tsl_accelerate_is_iteration (a : Accel) (ts : TS) (regs : Array Int) (t index : Int) (hr : RegsOk regs)
    (hctr : 0 ≤ a.counter ∧ a.counter ≤ 11) (hL : 0 < a.loopTime) (hff : ffwdCond a regs index = true) (hE : t < ts.nextEdge) :
    let loops := tslLoops (a.inc ≠ 0) ts.nextEdge t a.loopTime (rget regs a.counter)
    let st := iterN (tslIter (a.inc ≠ 0) a.loopTime a.loopRInc) loops.toNat (loopState a regs t)
    0 ≤ loops ∧
    accelerate a ts regs t index =
      some (if loops = 0 then (regs, t, index, 0)
            else (putLoopState a regs st, st.2.2.2, if st.2.2.2 > ts.nextEdge then index + 1 else index, loops)) :=
  accelerate_eq_iter a ts regs t index hr hctr hL hff hE

/-- Skipping calls of the tape-advance code (as both accelerators do: the clock jumps, the code runs
once afterwards) gives the same edge index as running it after every instruction. -/
theorem tape_advance_composes (edges : Array Int) (maxIndex t1 t2 : Int) (h12 : t1 ≤ t2) (fuel : Nat) (index j : Int)
    (hf : maxIndex - index ≤ fuel) (h : advIdx edges maxIndex fuel index t1 = some j) :
    advIdx edges maxIndex fuel index t2 = advIdx edges maxIndex fuel j t2 :=
  advIdx_compose edges maxIndex t1 t2 h12 fuel index j hf h

/-! ### the `ACCELERATORS` table against the Z80 model -/

/-- Every entry of `ACCELERATORS` (as the source has it now): walking its signature through the
generated dispatch tables from the `IN` back to the `IN` along the loop path takes exactly
`loop_time` T-states and `loop_r_inc` M1 cycles (unless the loop executes `LD R,A`), meets exactly
one `IN` and exactly one `INC r`/`DEC r`, of the stated counter register in the stated direction,
and no other instruction on the path writes that register. -/
theorem accelerator_table_consistent : ∀ a ∈ accelerators, checkAccel a = true := by
  have h := table_consistent
  rw [List.all_eq_true] at h
  exact h

/-- The cost summary the walk uses is sound for the generated closures, for every closure and
argument tuple it accepts and every state: clock, PC of fall-through instructions, R, memory and IFF
untouched, registers outside the write set untouched. -/
theorem walk_cost_summary_sound {μ : Type} [MemLike μ] (cfg : Cfg) (i : Instr) (c : Cost) (k : Kind)
    (h : classify i = some (c, k)) (s : St μ) (hs : s.reg.size = 24) :
    ((execLeaf cfg i s).t = s.t + c.tNot ∨ (execLeaf cfg i s).t = s.t + c.tTaken)
    ∧ (k.isCond = false → (execLeaf cfg i s).t = s.t + c.tNot ∧ (execLeaf cfg i s).pc = (s.pc + c.size) % 65536)
    ∧ (execLeaf cfg i s).mem = s.mem ∧ (execLeaf cfg i s).iff = s.iff
    ∧ (k ≠ .setR → rget (execLeaf cfg i s).reg 15 = rAdd (rget s.reg 15) c.m1)
    ∧ (∀ q, 0 ≤ q ∧ q ≤ 11 → q ∉ k.writes → rget (execLeaf cfg i s).reg q = rget s.reg q) :=
  ⟨classify_t cfg i c k h s, fun hk => classify_fall cfg i c k h hk s, (classify_mem cfg i c k h s).1,
   (classify_mem cfg i c k h s).2, fun hk => classify_r cfg i c k h hk s hs,
   fun q hq hw => classify_keeps cfg i c k h s hs q hq hw⟩

/-- `INC r` / `DEC r` as classified really change the counter by ±1 (mod 256). -/
theorem walk_counter_ops_sound {μ : Type} [MemLike μ] (cfg : Cfg) (i : Instr) (c : Cost) (r : Int) (s : St μ)
    (hs : s.reg.size = 24) (hr : r ≠ 1) :
    (classify i = some (c, .incr r) → rget (execLeaf cfg i s).reg r = (rget s.reg r + 1) % 256)
    ∧ (classify i = some (c, .decr r) → rget (execLeaf cfg i s).reg r = (rget s.reg r - 1) % 256) :=
  ⟨fun h => classify_incr cfg i c r h s hs hr, fun h => classify_decr cfg i c r h s hs hr⟩

/-- Soundness of the walk for *any* signature: if its concrete bytes are in memory (and, when it ends in
a `JP cc` opcode, the loop's own address follows), and the run from offset `o` follows the loop path
(every conditional on the way resolves as the walk assumes), then after exactly the walked number of
instructions PC is at the `IN` again, T has advanced by the walked T-states and memory is unchanged. -/
theorem loop_path_sound {μ : Type} [MemLike μ] (cfg : Cfg) (code : Array (Option Int)) (c0 : Nat) (base : Int)
    (fuel o : Nat) (w0 w : Walk) (s : St μ) (hw : walkFrom code c0 fuel o w0 = some w) (hf : Follows cfg code c0 fuel o s)
    (hc : CodeAt s.mem base code) (hb : BackEdgeOk s.mem base code) (hpc : s.pc = (base + o) % 65536) :
    w0.steps < w.steps ∧ (runN cfg (w.steps - w0.steps) s).pc = (base + c0) % 65536
      ∧ (runN cfg (w.steps - w0.steps) s).t = s.t + (w.t - w0.t) ∧ (runN cfg (w.steps - w0.steps) s).mem = s.mem :=
  walk_sound cfg code c0 base fuel o w0 w s hw hf hc hb hpc

/-- …and the registers: R advances by the walked M1 cycles (if no `LD R,A` was met), and every general
register that is not in the walk's write set has changed exactly by the `INC r`/`DEC r` met. -/
theorem loop_path_sound_regs {μ : Type} [MemLike μ] (cfg : Cfg) (code : Array (Option Int)) (c0 : Nat) (base : Int)
    (fuel o : Nat) (w0 w : Walk) (s : St μ) (hw : walkFrom code c0 fuel o w0 = some w) (hf : Follows cfg code c0 fuel o s)
    (hc : CodeAt s.mem base code) (hb : BackEdgeOk s.mem base code) (hpc : s.pc = (base + o) % 65536) (hs : s.reg.size = 24) :
    (runN cfg (w.steps - w0.steps) s).reg.size = 24
      ∧ (w.setsR = false → w0.setsR = false ∧ (Byte (rget s.reg 15) →
            rget (runN cfg (w.steps - w0.steps) s).reg 15 = rAdd (rget s.reg 15) (w.m1 - w0.m1)))
      ∧ ∃ no nw, w.counterOps = no ++ w0.counterOps ∧ w.writes = nw ++ w0.writes ∧
          ∀ q, 0 ≤ q ∧ q ≤ 11 → q ≠ 1 → q ∉ nw →
            rget (runN cfg (w.steps - w0.steps) s).reg q = effect q no (rget s.reg q) :=
  walk_sound_regs cfg code c0 base fuel o w0 w s hw hf hc hb hpc hs

/-- One trip round the loop of every `ACCELERATORS` entry in the generated Z80 model
(see `AccelWalk.accelerator_loop_trip`): back at the `IN` after exactly `loop_time` T-states, memory
unchanged, counter ± 1 as `inc` says, R += `loop_r_inc` — the iteration `tslIter` abstracts. -/
theorem accelerator_loop_trip {μ : Type} [MemLike μ] (cfg : Cfg) (a : Accel) (ha : a ∈ accelerators) (base : Int) (s : St μ)
    (hc : CodeAt s.mem base a.code.toArray) (hb : BackEdgeOk s.mem base a.code.toArray)
    (hpc : s.pc = (base + a.c0) % 65536) (hs : s.reg.size = 24)
    (hf : Follows cfg a.code.toArray a.c0.toNat 64 a.c0.toNat s) :
    ∃ (n : Nat) (setsR : Bool), 0 < n ∧
      (runN cfg n s).pc = s.pc ∧ (runN cfg n s).t = s.t + a.loopTime ∧ (runN cfg n s).mem = s.mem ∧
      rget (runN cfg n s).reg a.counter = (if a.inc ≠ 0 then (rget s.reg a.counter + 1) % 256 else (rget s.reg a.counter - 1) % 256) ∧
      (setsR = false → Byte (rget s.reg 15) → rget (runN cfg n s).reg 15 = rAdd (rget s.reg 15) a.loopRInc) :=
  AccelWalk.accelerator_loop_trip cfg a ha base s hc hb hpc hs hf

/-- `k` real trips round the loop of a table entry, each on the loop path, equal `k` applications of
the abstract loop body on counter, R and clock, with PC and memory unchanged (entries whose loop does
not load R itself).  Chain: `tsl_accelerate_is_iteration` (what `_read_port` writes = `loops`
applications of `tslIter`) + this theorem (`loops` applications of `tslIter` = `loops` real trips) +
`tsl_no_edge_skipped` (the real loop does go round `loops` times and sees the edge next). -/
theorem tsl_real_loop_equals_iteration {μ : Type} [MemLike μ] (cfg : Cfg) (a : Accel) (ha : a ∈ accelerators) (base : Int)
    (hsr : (walk a).map (·.setsR) = some false) (k : Nat) (s : St μ) (f : Int)
    (hall : ∀ j, j < k → AtLoop cfg a base (trips cfg a j s)) (hbyte : Byte (rget s.reg 15)) :
    let s' := trips cfg a k s
    let st := iterN (tslIter (a.inc ≠ 0) a.loopTime a.loopRInc) k (rget s.reg a.counter, f, rget s.reg 15, s.t)
    s'.pc = s.pc ∧ s'.mem = s.mem ∧ rget s'.reg a.counter = st.1 ∧ rget s'.reg 15 = st.2.2.1 ∧ s'.t = st.2.2.2 :=
  real_loop_eq_iter cfg a ha base hsr k s f hall hbyte

/-- No two table entries can match the same memory at the same address, so the search order
(a Python `set`, moved-to-front on a hit; a C array with swaps) cannot matter. -/
theorem accelerators_unambiguous (get : Int → Int) (pc : Int) (a b : Accel) (ha : a ∈ accelerators) (hb : b ∈ accelerators)
    (hma : sigMatchC get pc a = true) (hmb : sigMatchC get pc b = true) : a = b :=
  table_unambiguous get pc a b ha hb hma hmb

/-- The Python (list-slice) and C (16-bit wrap-around) signature matchers agree for every table
entry whenever the signature lies inside 0..65535. -/
theorem matchers_agree (get : Int → Int) (pc : Int) (a : Accel) (ha : a ∈ accelerators)
    (h0 : 0 ≤ pc - a.c0) (h1 : pc + a.c1 ≤ 65536) : sigMatchPy get pc a = sigMatchC get pc a := by
  have h := accelerator_table_consistent a ha
  unfold checkAccel at h
  split at h
  · cases h
  · simp only [Bool.and_eq_true, decide_eq_true_eq] at h
    exact sigMatch_agree get pc a h.1.1.2 h0 h1

/-! ### derived from source: the `DEC A` hook

`PyLoad.dec_a_func` is translated on every run from `LoadTracer.dec_a(...).func` (skoolkit/loadtracer.py) by
translate/pyload2lean.py, `CSimH.Load.dec_a` from `dec_a` of c/csimulator.c by translate/cload2lean.py (C integer semantics
explicit).  The hand model `decAHook` of the theorems above is proved equal to both, so `dec_a_jr_equiv`, `dec_a_jp_equiv`,
`dec_a_hook_otherwise_plain` are statements about the code of both languages. -/

/-- loadtracer.py's private tables as translated from the source are the hand-written ones (hence, by
`tracer_tables_are_simulator_tables`, the simulator's). -/
theorem loadtracer_tables_derived_from_source (c a : Int) :
    PyLoad.Tbl.DEC c a = ltDEC c a ∧ PyLoad.Tbl.DEC0 a = ltDEC0 a ∧ PyLoad.Tbl.INC0 a = ltINC0 a :=
  ⟨LoadDerived.py_DEC c a, LoadDerived.py_DEC0 a, LoadDerived.py_INC0 a⟩

/-- The closure `LoadTracer.dec_a(dec_a_jr, dec_a_jp).func` as translated from loadtracer.py: for EVERY machine state and
every option value it leaves the state `decAHook` describes, and increments exactly the counter (`dec_a_jr_hits`,
`dec_a_jp_hits`, `dec_a_misses`, none) of the branch `decAKind` names. -/
theorem python_dec_a_derived_from_source {μ : Type} [MemLike μ] (cfg : Cfg) (jr jp h0 h1 h2 : Int) (s : St μ) :
    let r := PyLoad.dec_a_func cfg jr jp h0 h1 h2 s
    r.1 = decAHook (decide (jr ≠ 0)) (decide (jp ≠ 0)) s ∧
    (r.2.dec_a_jr_hits, r.2.dec_a_jp_hits, r.2.dec_a_misses)
      = LoadDerived.pyCount h0 h1 h2 (decAKind (decide (jr ≠ 0)) (decide (jp ≠ 0)) s) :=
  ⟨LoadDerived.py_dec_a_state cfg jr jp h0 h1 h2 s, LoadDerived.py_dec_a_counters cfg jr jp h0 h1 h2 s⟩

/-- `dec_a` of c/csimulator.c as translated (args[0..2] the hit/miss counters, args[3], args[4] the two options): on every
state in the range invariant whose clock is below 2^63 it is `decAHook` on the machine state and bumps the counter of the
branch taken (as a C `int`). -/
theorem c_dec_a_derived_from_source {μ : Type} [MemLike μ] [CellMem μ] (cfg : Cfg) (args : CSimH.Load.DecAArgs) (s : St μ)
    (h : RInv s) (ht : s.t < 9223372036854775808) :
    CSimH.Load.dec_a cfg args s =
      (decAHook (decide (args.a3 ≠ 0)) (decide (args.a4 ≠ 0)) s,
       LoadDerived.cCount args (decAKind (decide (args.a3 ≠ 0)) (decide (args.a4 ≠ 0)) s)) :=
  LoadDerived.c_dec_a cfg args s h ht

/-- C against Python, translation against translation: with the same options (`args[3] = accel_dec_a & 1`,
`args[4] = accel_dec_a & 2`, as both sources set them) the two hooks leave the same machine state. -/
theorem c_dec_a_eq_python {μ : Type} [MemLike μ] [CellMem μ] (cfg : Cfg) (accelDecA h0 h1 h2 : Int) (args : CSimH.Load.DecAArgs)
    (h3 : args.a3 = PyInt.land accelDecA 1) (h4 : args.a4 = PyInt.land accelDecA 2) (s : St μ) (h : RInv s)
    (ht : s.t < 9223372036854775808) :
    (CSimH.Load.dec_a cfg args s).1 = (PyLoad.dec_a_func cfg (PyInt.land accelDecA 1) (PyInt.land accelDecA 2) h0 h1 h2 s).1 := by
  rw [LoadDerived.c_dec_a cfg args s h ht, LoadDerived.py_dec_a_state, h3, h4]

/-- …and so the translated Python closure itself, entered with `DEC A: JR NZ,$-1` at PC and interrupts disabled, leaves exactly
the state of the generated Z80 model after `2·A` instructions (`dec_a_jr_equiv` transported to the code). -/
theorem python_dec_a_jr_is_2A_steps {μ : Type} [MemLike μ] (cfg : Cfg) (jr jp h0 h1 h2 : Int) (s : St μ) (hr : RegsOk s.reg)
    (hpc : 0 ≤ s.pc ∧ s.pc < 65536) (hm : mget s.mem s.pc = 0x3D)
    (hk : decAKind (decide (jr ≠ 0)) (decide (jp ≠ 0)) s = .jr) :
    (PyLoad.dec_a_func cfg jr jp h0 h1 h2 s).1 = runN cfg (2 * (aval s).toNat) s := by
  rw [LoadDerived.py_dec_a_state]
  exact dec_a_jr_equiv cfg _ _ s hr hpc hm hk

/-- the same for the C handler and the `JP NZ` shape -/
theorem c_dec_a_jp_is_2A_steps {μ : Type} [MemLike μ] [CellMem μ] (cfg : Cfg) (args : CSimH.Load.DecAArgs) (s : St μ)
    (h : RInv s) (ht : s.t < 9223372036854775808) (hm : mget s.mem s.pc = 0x3D)
    (hk : decAKind (decide (args.a3 ≠ 0)) (decide (args.a4 ≠ 0)) s = .jp) :
    (CSimH.Load.dec_a cfg args s).1 = runN cfg (2 * (aval s).toNat) s := by
  rw [LoadDerived.c_dec_a cfg args s h ht]
  exact dec_a_jp_equiv cfg _ _ s h.regs h.pc hm hk

/-! ### derived from source: the tape-sampling fast-forward of the port handler

`PyLoad.read_port_ffwd` is translated on every run from the statements `LoadTracer._read_port.func` executes for the matched
accelerator (translate/pyload2lean.py; the search loop around them is checked by exact text), `CSimH.Load.read_port_ffwd` from
the block `if (match) { … }` of `read_port` in c/csimulator.c (translate/cload2lean.py; everything else in `read_port` is
checked by exact text).  Both are proved to be the hand model `accelerate`, so `tsl_accelerate_is_iteration` (and with it
`tsl_ffwd_equiv_*`, `tsl_loops_spec_*`, `tsl_real_loop_equals_iteration`) speaks about the code of both languages. -/

/-- The Python fast-forward as translated: for EVERY machine state, tracer state and table entry whose counter register is not R
(slot 15; every entry counts in B..L), it returns what `accelerate` returns — same registers, clock, edge index and number of
skipped iterations, `IndexError` (`none`) exactly where the model has `none` — touches nothing else and bumps `acc.hits`. -/
theorem python_read_port_derived_from_source {μ : Type} [MemLike μ] (cfg : Cfg) (a : Accel) (ts : TS) (index hits : Int) (s : St μ)
    (hc : a.counter ≠ 15) :
    (PyLoad.read_port_ffwd cfg a ts index 0 hits s).map (fun r => (r.1, r.2.ts, r.2.index, r.2.loops, r.2.hits))
      = (accelerate a ts s.reg s.t index).map (fun x => ({ s with reg := x.1, t := x.2.1 }, ts, x.2.2.1, x.2.2.2, hits + 1)) :=
  LoadDerived.py_ffwd cfg a ts index hits s hc

/-- The C fast-forward as translated, C integer semantics explicit: on states in the range invariant, for table entries
representable in `tsl_accelerator` (`AccRep`), with clock, next edge and edge index below 2^62 and the next edge less than
2^31 T-states ahead (`int delta = (int)(next_edge - TIME)`), it computes `accelerate` too (never the `IndexError` case),
touches nothing else, clears `tsl_miss` and bumps `acc->hits`. -/
theorem c_read_port_derived_from_source {μ : Type} [MemLike μ] [CellMem μ] (cfg : Cfg) (a : Accel) (ts : TS) (pc : Int)
    (l : CSimH.Load.FfwdLocals) (s : St μ) (h : RInv s) (ht : s.t < 4611686018427387904) (ha : LoadDerived.AccRep a)
    (hE : 0 ≤ ts.nextEdge ∧ ts.nextEdge < 4611686018427387904) (hd : ts.nextEdge - s.t < 2147483648)
    (hi : 0 ≤ l.index ∧ l.index < 4611686018427387904) (hl : l.loops = 0) :
    let r := CSimH.Load.read_port_ffwd cfg a ts pc l s
    accelerate a ts s.reg s.t l.index = some (r.1.reg, r.1.t, r.2.index, r.2.loops) ∧ r.1 = { s with reg := r.1.reg, t := r.1.t }
      ∧ r.2.tsl_miss = 0 ∧ r.2.hits = CInt.u32 (l.hits + 1) :=
  LoadDerived.c_ffwd cfg a ts pc l s h ht ha hE hd hi hl

/-- C against Python, translation against translation: under the hypotheses of the two theorems above the two fast-forwards
leave the same registers, clock, edge index and iteration count. -/
theorem read_port_ffwd_c_eq_python {μ : Type} [MemLike μ] [CellMem μ] (cfg : Cfg) (a : Accel) (ts : TS) (pc hits : Int)
    (l : CSimH.Load.FfwdLocals) (s : St μ) (h : RInv s) (ht : s.t < 4611686018427387904) (ha : LoadDerived.AccRep a)
    (hE : 0 ≤ ts.nextEdge ∧ ts.nextEdge < 4611686018427387904) (hd : ts.nextEdge - s.t < 2147483648)
    (hi : 0 ≤ l.index ∧ l.index < 4611686018427387904) (hl : l.loops = 0) :
    let r := CSimH.Load.read_port_ffwd cfg a ts pc l s
    (PyLoad.read_port_ffwd cfg a ts l.index 0 hits s).map (fun p => (p.1, p.2.index, p.2.loops)) = some (r.1, r.2.index, r.2.loops) := by
  intro r
  have hc := LoadDerived.c_ffwd cfg a ts pc l s h ht ha hE hd hi hl
  have hp := LoadDerived.py_ffwd cfg a ts l.index hits s (by have := ha.counter; omega)
  simp only [] at hc
  have e : (PyLoad.read_port_ffwd cfg a ts l.index 0 hits s).map (fun p => (p.1, p.2.index, p.2.loops))
      = ((PyLoad.read_port_ffwd cfg a ts l.index 0 hits s).map (fun r => (r.1, r.2.ts, r.2.index, r.2.loops, r.2.hits))).map
          (fun x => (x.1, x.2.2.1, x.2.2.2.1)) := by
    rw [Option.map_map]; rfl
  rw [e, hp, hc.1]
  simp only [Option.map_some, LoadDerived.ffwdResult]
  rw [← hc.2.1]

/-- every entry of the ACCELERATORS table (as the source has it now) is representable in the C struct and names registers B..L -/
theorem accelerators_representable : ∀ a ∈ accelerators, LoadDerived.accRepB a = true := by
  decide +kernel

/-! ### the hypotheses are satisfiable / concrete values -/

example : decAKind true false exState = .jr := by decide +kernel
example : (decAHook true false exState).t = 1000 + 16 * 3 - 5 := by decide +kernel
example : (runN {} 6 exState).t = 1043 ∧ (runN {} 6 exState).pc = 0x8003 ∧ rget (runN {} 6 exState).reg 0 = 0
    ∧ rget (runN {} 6 exState).reg 1 = 0x43 ∧ rget (runN {} 6 exState).reg 15 = 0x84 := by decide +kernel
example : (runN {} 5 exState).pc = 0x8001 := by decide +kernel
-- fast-forward arithmetic: edge at 5000, now 1000, 59 T per iteration, counter 200: 55 iterations (counter bound)
example : tslLoops true 5000 1000 59 200 = 55 := by decide
example : tslLoops true 5000 1000 59 100 = 68 ∧ 1000 + 67 * 59 ≤ 5000 ∧ 5000 < 1000 + 68 * 59 := by decide
example : tslLoops false 5000 1000 52 0 = 0 ∧ tslLoops false 5000 1000 52 1 = 0 ∧ tslLoops false 5000 1000 52 40 = 39 := by decide
example : tslFfwd true 59 9 100 0x7F 1000 68 = some (168, 0xA8, 0x7F - 0x7F % 128 + (0x7F + 9 * 68) % 128, 1000 + 59 * 68) := by decide +kernel
example : (accelerators.map (·.name)).take 3 = ["activision", "alkatraz", "alkatraz-05"] := by decide +kernel
example : accelerators.length ≥ 49 := by decide +kernel
example : (accelerators.find? (·.name == "rom")).bind walk = some { t := 59, m1 := 9, counterOps := [(2, true)], writes := [0, 0, 1, 0, 1, 0, 1, 0], setsR := false, inputs := 1, steps := 9 } := by
  decide +kernel

example : (accelerators.find? (·.name == "rom")).map (·.code.toArray) = some romSig := by decide +kernel
example : Follows { in_a_n_tracer := true } romSig 4 64 4 exLoop := by decide +kernel
example : tripLen ((accelerators.find? (·.name == "rom")).getD exAccel) = 9 := by decide +kernel
example : (runN { in_a_n_tracer := true } 9 exLoop).pc = 0x8004 ∧ (runN { in_a_n_tracer := true } 9 exLoop).t = 1059
    ∧ rget (runN { in_a_n_tracer := true } 9 exLoop).reg 2 = 101 ∧ rget (runN { in_a_n_tracer := true } 9 exLoop).reg 15 = 14 := by decide +kernel

end C13
