import SkoolVerif.Proofs.MacroOpsLemmas
import SkoolVerif.Proofs.MacroExprLemmas
import SkoolVerif.Proofs.MacroBitLemmas
import SkoolVerif.Proofs.MacroExpandLemmas
import SkoolVerif.Proofs.MacroNestLemmas
import SkoolVerif.Proofs.MacroSpecLemmas
import SkoolVerif.Proofs.MacroFuelLemmas
/-!
C17 — skool macros expand with their documented semantics, identically in
every mode.  Property theorems only; helper lemmas live in `SkoolVerif/Proofs/`.
Models: `SkoolVerif/Model/Macro{Text,Expr,Args,Ops,Expand}.lean` (hand models
of `skoolkit.evaluate` and of `skoolmacro.expand_macros` with the parsers of
the numeric / control-flow macros), tied to /repo by the correspondence check
`harness/props/c17.py`, which runs exactly these definitions.
-/
namespace C17
open MacroText MacroExpr MacroArgs MacroOps MacroExpand
open MacroOpsLemmas MacroExprLemmas MacroBitLemmas MacroExpandLemmas MacroNestLemmas MacroSpecLemmas MacroFuelLemmas

/-! ## Arithmetic: Python integer semantics -/

/-- `/` (rewritten to `//`) and `%` are floor division and its remainder:
`a = b * (a // b) + a % b` for every pair of integers. -/
theorem floordiv_mod_identity (a b : Int) : b * pyDiv a b + pyMod a b = a :=
  pyDiv_mod a b

/-- The remainder has the sign of the divisor (Python, not C): it lies in
`[0, b)` for a positive divisor and in `(b, 0]` for a negative one. -/
theorem mod_has_sign_of_divisor (a b : Int) :
    (0 < b → 0 ≤ pyMod a b ∧ pyMod a b < b) ∧ (b < 0 → b < pyMod a b ∧ pyMod a b ≤ 0) :=
  ⟨pyMod_pos a b, pyMod_neg a b⟩

/-- Hence `a // b` is the floor of the quotient: the unique `q` with
`b*q ≤ a < b*(q+1)` (positive divisor). -/
theorem floordiv_is_floor (a b : Int) (hb : 0 < b) :
    b * pyDiv a b ≤ a ∧ a < b * (pyDiv a b + 1) := by
  have h1 := pyDiv_mod a b
  have h2 := pyMod_pos a b hb
  rw [Int.mul_add]
  omega

/-- `&`, `|`, `^` act bit by bit on the infinite two's-complement
representation, for negative operands too. -/
theorem bitops_twos_complement (a b : Int) (k : Nat) :
    (pyAnd a b).testBit k = (a.testBit k && b.testBit k) ∧
    (pyOr a b).testBit k = (a.testBit k || b.testBit k) ∧
    (pyXor a b).testBit k = xor (a.testBit k) (b.testBit k) := by
  rw [pyAnd_eq_land, pyOr_eq_lor, pyXor_eq_xor]
  exact ⟨Int.testBit_land a b k, Int.testBit_lor a b k, Int.testBit_lxor a b k⟩

/-- The precedence-climbing parser (Python's operator table: `or` < `and` <
comparisons < `|` < `^` < `&` < shifts < `+ -` < `* // %` < unary < `**`)
reads the fully parenthesised rendering of every well-formed syntax tree back
to that tree: parsing is a left inverse of rendering, for all operators,
unary signs, chained comparisons and any nesting depth. -/
theorem parse_render_roundtrip (e : Expr) (h : wf false e = true) :
    parseTokens (render false e) = some e :=
  parseTokens_render e h

/-- Numerals inside expressions: the lexer reads the decimal digits of `n`,
and `$` + hexadecimal digits of `n` (after the `$` → `0x` rewrite, either
case), as the number `n` — for every `n`, with no leading-zero accident. -/
theorem numerals_lex_to_value (n : Nat) (lc : Bool) :
    numTok (natDigits 10 false n) = .num n ∧ numTok ('0' :: 'x' :: natDigits 16 lc n) = .num n :=
  ⟨numTok_decimal n, numTok_hex lc n⟩

/-- A chained comparison `a op b op' t` means `a op b and b op' t`
(with `b` evaluated once), also with respect to errors. -/
theorem chained_comparison_is_conjunction (a b t : Expr) (op op' : CmpOp) (hb : isLink b = false) :
    eval none (.cmp a op (.link b op' t)) = eval none (.bin .and (.cmp a op b) (.cmp b op' t)) := by
  have hbt : ∀ v, eval (some (v, op)) b = (do let vb ← eval none b; pure (boolInt (cmpTest op v vb))) := by
    intro v; cases b <;> simp_all [eval, finish, isLink]
  simp only [eval, finish, hbt]
  cases eval none a with
  | error e => rfl
  | ok va =>
    cases hvb : eval none b with
    | error e => simp [bind, Except.bind]
    | ok vb =>
      simp only [bind, Except.bind, pure, Except.pure]
      cases hc : cmpTest op va vb <;> simp [boolInt]

/-- `&&` / `||` short-circuit: the right operand is not evaluated (so cannot
fail) when the left one decides the result. -/
theorem and_or_short_circuit (a b : Expr) (v : Int) (h : eval none a = .ok v) :
    (v = 0 → eval none (.bin .and a b) = .ok 0) ∧ (v ≠ 0 → eval none (.bin .or a b) = .ok v) := by
  constructor
  · intro hv; subst hv; simp [eval, finish, h, bind, Except.bind, pure, Except.pure]
  · intro hv; simp [eval, finish, h, bind, Except.bind, pure, Except.pure, hv]

/-! ## `#EVAL` / `#N`: digit rendering -/

/-- The digits `#EVAL` prints (base 2, 10 or 16, either case, any minimum
width, negative values included) read back to the value. -/
theorem eval_digits_roundtrip (b : Nat) (hb : b = 2 ∨ b = 10 ∨ b = 16) (lc : Bool) (w : Nat) (v : Int) :
    parseSigned b (fmtInt b lc w v) = v := by
  apply parseSigned_fmtInt <;> omega

/-- Width: zero padding to at least `w` characters, the sign counting as one. -/
theorem eval_digits_width (b : Nat) (lc : Bool) (w : Nat) (v : Int) :
    (fmtInt b lc w v).length =
      if v < 0 then max (w - 1) (natDigits b lc v.natAbs).length + 1
      else max w (natDigits b lc v.natAbs).length := by
  unfold fmtInt
  split <;> simp [fmtNat_length]

/-- Sign handling: a negative value is `-` followed by the padded magnitude. -/
theorem eval_digits_negative (b : Nat) (lc : Bool) (w : Nat) (n : Nat) (hn : 0 < n) :
    fmtInt b lc w (-(n : Int)) = '-' :: fmtNat b lc (w - 1) n := by
  have : (-(n : Int)) < 0 := by omega
  unfold fmtInt
  rw [if_pos this]
  simp

/-- Nesting is transparent for numbers: the decimal text a macro prints
(`str(v)`, e.g. the output of `#PEEK` or `#EVAL`) is read back by
`evaluate` to the same integer, negative values included. -/
theorem nested_decimal_roundtrip (v : Int) : evaluate (intStr v) = .ok v :=
  evaluate_intStr v

/-- The `#EVAL` parser as a whole: whenever its three parameters parse to
`value, base, width` (base 2/10/16), the macro succeeds, consumes exactly the
parameters, leaves the state of the parameter expansion, and prints digits
that read back to `value`. -/
theorem eval_macro_spec (exp : Exp) (st st' : St) (rest r : Text) (v b w : Int)
    (hp : parseInts exp getF st rest 3 [some 10, some 1] = .ok (st', [some v, some b, some w], r))
    (hb : b = 2 ∨ b = 10 ∨ b = 16) (h0 : 0 ≤ w) (h1 : w ≤ 2000) :
    ∃ t, macroEval exp st rest = .ok (st', t, r, false) ∧ parseSigned b.toNat t = v := by
  refine ⟨_, macroEval_ok exp st st' rest r v b w hp hb h0 h1, ?_⟩
  apply parseSigned_fmtInt <;> rcases hb with rfl | rfl | rfl <;> decide

/-! ## `#FOR` / `#FOREACH` -/

/-- `#FORstart,stop,step` visits exactly the arithmetic progression
`start, start+step, …` up to and including `stop` (ascending or descending). -/
theorem for_range_spec (start stop step n : Int) (hs : step ≠ 0) :
    n ∈ forRange start stop step ↔
      ∃ i : Nat, n = start + (i : Int) * step ∧ (0 < step → n ≤ stop) ∧ (step < 0 → stop ≤ n) := by
  unfold forRange pyRange
  rw [mem_rangeFrom]
  rcases Int.lt_or_gt_of_ne hs with hneg | hpos
  · rw [sign_neg step hneg]
    constructor
    · rintro ⟨i, hi, rfl⟩
      have := (lt_rangeLen_neg start (stop + -1) step hneg i).mp hi
      exact ⟨i, rfl, by omega, by omega⟩
    · rintro ⟨i, rfl, _, h2⟩
      exact ⟨i, (lt_rangeLen_neg start (stop + -1) step hneg i).mpr (by have := h2 hneg; omega), rfl⟩
  · rw [sign_pos step hpos]
    constructor
    · rintro ⟨i, hi, rfl⟩
      have := (lt_rangeLen_pos start (stop + 1) step hpos i).mp hi
      exact ⟨i, rfl, by omega, by omega⟩
    · rintro ⟨i, rfl, h1, _⟩
      exact ⟨i, (lt_rangeLen_pos start (stop + 1) step hpos i).mpr (by have := h1 hpos; omega), rfl⟩

/-- …in order: the `i`-th element is `start + i*step`. -/
theorem for_range_ordered (start stop step : Int) :
    forRange start stop step =
      (List.range (forLen start stop step)).map (fun (i : Nat) => start + (i : Int) * step) := by
  simp [forRange, pyRange, forLen, rangeFrom_eq_map]

/-- The list surgery of `parse_for` (`extend`, `pop`, `elements[-2] = fsep`)
produces the documented text: the elements in order, `sep` between
consecutive ones, `fsep` (when given) between the last two. -/
theorem for_join_spec (items : List (Text × Text)) (fsep : Option Text) :
    forJoin items fsep = joinSpec fsep items :=
  forJoin_eq_spec items fsep

/-- Same for the `join` expression of `parse_foreach`. -/
theorem foreach_join_spec (elems : List Text) (sep : Text) (fsep : Option Text) :
    foreachJoin elems sep fsep = joinSpec (some (fsep.getD sep)) (elems.map (fun e => (e, sep))) :=
  foreachJoin_eq_spec elems sep fsep

/-- `#FOR` and `#FOREACH` agree: looping over numbers gives the same text as
`#FOREACH` over the list of the same (already substituted) elements. -/
theorem for_eq_foreach (elems : List Text) (sep : Text) (fsep : Option Text) :
    forJoin (elems.map (fun e => (e, sep))) fsep = foreachJoin elems sep fsep := by
  rw [for_join_spec, foreach_join_spec, joinSpec_const_sep]

/-- The `#FOR` parser as a whole (flags 0, ASM mode): the documented text —
the body with the variable replaced by each number of the progression, in
order, joined by `sep` and finally `fsep`. -/
theorem for_macro_spec (exp : Exp) (st st' : St) (rest r r' : Text) (start stop step : Int)
    (var s sep : Text) (fsep : Option Text)
    (hp : parseInts exp getF st rest 4 [some 1, some 0] = .ok (st', [some start, some stop, some step, some 0], r))
    (hs : parseStrings r 4 [some [], none] = .ok ([some var, some s, some sep, fsep], r'))
    (hhtml : st'.html = false) (hstep : step ≠ 0) (hlen : forLen start stop step ≤ 2000) :
    macroFor exp st rest = .ok (st',
      joinSpec fsep ((List.range (forLen start stop step)).map
        (fun (i : Nat) => (replace var (intStr (start + (i : Int) * step)) s, sep))), r', false) := by
  rw [macroFor_ok exp st st' rest r r' start stop step var s sep fsep hp hs hhtml hstep hlen,
    for_join_spec, for_range_ordered, List.map_map]
  rfl

/-! ## `#MAP` -/

/-- `#MAP` is assignment in order into a dictionary with a default: a key that
is not listed gives the default, the last binding of a key wins. -/
theorem map_lookup_spec (d : Text) (ps : List (Int × Text)) (k k' : Int) (v : Text) :
    mapLookup d [] k = d ∧
    mapLookup d (ps ++ [(k, v)]) k = v ∧
    (k' ≠ k → mapLookup d (ps ++ [(k', v)]) k = mapLookup d ps k) ∧
    ((∀ p ∈ ps, p.1 ≠ k) → mapLookup d ps k = d) :=
  ⟨rfl, mapLookup_snoc_same d ps k v, mapLookup_snoc_other d ps k k' v, mapLookup_absent d ps k⟩

/-! ## Snapshot stack: `#PUSHS` / `#POPS` / `#POKES` / `#PEEK` -/

/-- `#POPS` undoes `#PUSHS`: memory and the rest of the stack are exactly as before. -/
theorem pops_pushs (s : Snap) (name : Text) : (s.push name).pop = some s := rfl

/-- Well-bracketed sequences of snapshot operations. -/
inductive Balanced : List SnapOp → Prop
  | nil : Balanced []
  | poke (a b l st : Int) {ops} : Balanced ops → Balanced (.poke a b l st :: ops)
  | nest (name : Text) {inner ops} : Balanced inner → Balanced ops →
      Balanced (.push name :: inner ++ .pop :: ops)

/-- A balanced sequence never fails and leaves the stack as it found it. -/
theorem balanced_keeps_stack {ops : List SnapOp} (h : Balanced ops) :
    ∀ s : Snap, ∃ m, s.run ops = some { mem := m, stack := s.stack } := by
  induction h with
  | nil => intro s; exact ⟨s.mem, rfl⟩
  | poke a b l st _ ih =>
    intro s
    obtain ⟨m, hm⟩ := ih (s.poke a b l st)
    exact ⟨m, by simpa [Snap.run, Snap.step, Snap.poke] using hm⟩
  | nest name _ _ ih1 ih2 =>
    intro s
    obtain ⟨m1, h1⟩ := ih1 (s.push name)
    obtain ⟨m2, h2⟩ := ih2 s
    refine ⟨m2, ?_⟩
    simp only [List.cons_append, Snap.run, Snap.step]
    rw [run_append, h1]
    simp only [Option.bind_some, Snap.run, Snap.step, Snap.pop, Snap.push]
    exact h2

/-- Snapshot push/pop restores memory exactly: whatever balanced sequence of
`#POKES`/`#PUSHS`/`#POPS` runs between a `#PUSHS` and its matching `#POPS`,
the memory image and the stack afterwards are those before the `#PUSHS`. -/
theorem balanced_restores (s : Snap) (name : Text) {inner : List SnapOp} (h : Balanced inner) :
    s.run (.push name :: inner ++ [.pop]) = some s := by
  obtain ⟨m, hm⟩ := balanced_keeps_stack h (s.push name)
  simp only [List.cons_append, Snap.run, Snap.step]
  rw [run_append, hm]
  rfl

/-- `#POKESaddr,byte,length,step` changes exactly the cells
`addr, addr+step, …` (`length` of them, addresses modulo 65536) to `byte` and
nothing else; a zero step changes nothing. -/
theorem pokes_frame (m : Mem) (addr byte length step : Int) (c : Nat) :
    pokes m addr byte length step c =
      if step ≠ 0 ∧ ∃ i : Nat, i < length.toNat ∧ cell (addr + (i : Int) * step) = c then byte else m c := by
  unfold pokes
  by_cases hs : step = 0
  · simp [hs]
  · simp only [hs, ↓reduceIte, ne_eq, not_false_eq_true, true_and]
    exact pokeFrom_spec byte step length.toNat m addr c

/-- `#PEEK` after `#POKES` reads the poked byte at every poked address. -/
theorem peek_after_pokes (m : Mem) (addr byte length step : Int) (i : Nat) (hi : i < length.toNat) (hs : step ≠ 0) :
    peek (pokes m addr byte length step) (addr + (i : Int) * step) = byte := by
  unfold peek
  rw [pokes_frame, if_pos ⟨hs, i, hi, rfl⟩]

/-! ## `#LET` -/

/-- Variables set by `#LET` are visible to later macros: after any sequence of
assignments, a replacement field reads the most recent value bound to its
name, and names never assigned keep their previous value. -/
theorem let_visible_later (binds : List (Text × Val)) (f : Fields) (k : Text) :
    (binds.foldl (fun g p => g.set p.1 p.2) f).get k =
      match binds.reverse.find? (fun p => p.1 = k) with
      | some p => some p.2
      | none => f.get k :=
  get_foldl_set binds f k

/-- `#LET(name=value)` at the macro level: when the value expands, formats and
evaluates to `n`, the macro succeeds with empty output, a later replacement
field `{name}` prints `n`, and every other field is unchanged. -/
theorem let_binds_field (exp : Exp) (st st1 : St) (rest r stmt name value v v' : Text) (n : Int)
    (hps : parseString1 rest = .ok (stmt, r))
    (hpart : partitionChar '=' stmt = (name, true, value))
    (hne : name ≠ []) (hplain : (isDictName name || reservedName name || name.contains '\n') = false)
    (hint : name.getLast? ≠ some '$')
    (hsp : name.any fieldSpecial = false) (hcl : '}' ∉ name) (hdig : name.all isDigit = false)
    (hexp : exp st value = .ok (st1, v)) (hfmt : MacroArgs.format st1.fields v = .ok v') (hev : evaluate v' = .ok n) :
    ∃ st2, macroLet exp st rest = .ok (st2, [], r, false) ∧
      MacroArgs.format st2.fields ('{' :: name ++ ['}']) = .ok (intStr n) ∧
      ∀ k, k ≠ name → st2.fields.get k = st1.fields.get k := by
  refine ⟨_, macroLet_ok exp st st1 rest r stmt name value v v' n hps hpart hne hplain hint hexp hfmt hev, ?_, ?_⟩
  · exact format_single_field _ name n hne hsp hcl hdig (get_set_same _ _ _)
  · intro k hk; exact get_set_other _ _ _ _ hk

/-! ## The expansion loop -/

/-- `RE_MACRO.search` semantics: the marker found is the leftmost `#` followed
by an upper-case letter, and its name is the maximal run of upper-case letters. -/
theorem marker_search_leftmost (t b n a : Text) (h : findMarker t = some (b, n, a)) :
    t = b ++ '#' :: n ++ a ∧ n ≠ [] ∧ (∀ c ∈ n, isUpper c = true) ∧
    (∀ c, a.head? = some c → isUpper c = false) ∧
    (∀ (b1 : Text) (c : Char) (r : Text), t = b1 ++ '#' :: c :: r → isUpper c = true → b.length ≤ b1.length) := by
  obtain ⟨h1, h2, h3, h4⟩ := findMarker_sound t b n a h
  exact ⟨h1, h2, h3, h4, findMarker_leftmost t b n a h⟩

/-- Text without macro markers is returned unchanged, whatever the writer state. -/
theorem expand_without_marker (n : Nat) (st : St) (t : Text)
    (h : ∀ (b1 : Text) (c : Char) (r : Text), t = b1 ++ '#' :: c :: r → isUpper c = false) :
    expandMacros (n + 1) st t = .ok (st, t) := by
  have hf : findMarker t = none := by
    cases hfm : findMarker t with
    | none => rfl
    | some r =>
      obtain ⟨b, nm, a⟩ := r
      obtain ⟨h1, h2, h3, _⟩ := findMarker_sound t b nm a hfm
      cases nm with
      | nil => exact absurd rfl h2
      | cons c cs =>
        have := h b c (cs ++ a) (by rw [h1]; simp)
        rw [h3 c (by simp)] at this
        exact absurd this (by simp)
  simp [expandMacros, expandLoop, hf]

/-- One iteration of the loop: the leftmost macro is expanded first, in the
state left by the `#(…)` pre-expansion; its replacement is spliced in and
scanning resumes at the start of the replacement (so macros in the
replacement are expanded next), or after it when the macro says so (`#RAW`). -/
theorem expand_step_leftmost (n : Nat) (st st1 st2 : St) (acc t before name after after1 rep remaining : Text) (isRaw : Bool)
    (hf : findMarker t = some (before, name, after)) (hk : known name = true)
    (hp : preExpand (fun s x => expandLoop n s [] x) n st after = .ok (st1, after1))
    (hm : runMacro (writerExpand fun s x => expandLoop n s [] x) n name st1 after1 = .ok (st2, rep, remaining, isRaw)) :
    expandLoop (n + 1) st acc t =
      if isRaw then expandLoop n st2 (acc ++ before ++ rep) remaining
      else expandLoop n st2 (acc ++ before) (rep ++ remaining) := by
  rw [expandLoop]
  simp [hf, hk, hp, hm]

/-- The expansion is the same wherever the text appears: plain text (without
`#`) in front of a macro text is copied to the output and changes neither
the expansion of what follows nor the writer state. -/
theorem expand_position_independent (n : Nat) (st : St) (pre t : Text) (h : '#' ∉ pre) :
    expandMacros n st (pre ++ t) = mapOut pre (expandMacros n st t) := by
  unfold expandMacros
  rw [expandLoop_prefix n st [] pre t h]
  have := expandLoop_acc n st pre [] t
  simpa using this

/-- Fuel is only a recursion bound of the model: an expansion that succeeds
with fuel `n` gives the same text and state with any larger fuel.
`_partial`: that some fuel suffices (termination) is not claimed — it is false
in general (`#WHILE(1)(x)` does not terminate in the real code either) — so
the statement is about the results of terminating expansions only. -/
theorem expand_fuel_monotone_partial (n m : Nat) (st : St) (t : Text) (r : St × Text)
    (hnm : n ≤ m) (h : expandMacros n st t = .ok r) : expandMacros m st t = .ok r :=
  expandLoop_le n m st [] t hnm r h

/-! ## Non-vacuity / concrete values (all computed by the model the driver runs) -/

example : evaluate ['-', '7', '/', '2'] = .ok (-4) := by decide +kernel
example : evaluate ['7', '%', '-', '2'] = .ok (-1) := by decide +kernel
example : evaluate ['-', '5', '&', '3'] = .ok 3 := by decide +kernel
example : evaluate ['1', '<', '2', '<', '3'] = .ok 1 := by decide +kernel
example : evaluate ['0', '&', '&', 'a'] = .ok 0 := by decide +kernel
example : evaluate ['2', '*', '*', '3', '*', '*', '2'] = .ok 512 := by decide +kernel
example : evaluate ['0', '1', '+', '1'] = .error .err := by decide +kernel
example : wf false (.cmp (.num 1) .lt (.link (.bin .add (.num 2) (.neg (.num 3))) .le (.num 4))) = true := by decide
example : render false (.bin .pow (.num 2) (.neg (.num 1))) =
    [.lp, .num 2, .rp, .op .pow, .lp, .op .sub, .lp, .num 1, .rp, .rp] := by decide
example : fmtInt 2 false 8 (-5) = ['-', '0', '0', '0', '0', '1', '0', '1'] := by decide +kernel
example : fmtInt 16 true 4 255 = ['0', '0', 'f', 'f'] := by decide +kernel
example : forRange 1 7 3 = [1, 4, 7] := by decide +kernel
example : forRange 3 1 (-1) = [3, 2, 1] := by decide +kernel
example : forJoin [(['1'], [',', ' ']), (['2'], [',', ' ']), (['3'], [',', ' '])] (some [' ', 'a', 'n', 'd', ' '])
    = ['1', ',', ' ', '2', ' ', 'a', 'n', 'd', ' ', '3'] := by decide +kernel
example : mapLookup ['x'] [(1, ['a']), (2, ['b']), (2, ['c'])] 2 = ['c'] := by decide +kernel
example : Balanced [.poke 0 1 1 1, .push [], .poke 5 2 3 1, .pop] :=
  .poke 0 1 1 1 (.nest [] (.poke 5 2 3 1 .nil) .nil)
example : findMarker ['a', ' ', '#', '#', 'I', 'F', '1', '(', 'x', ')'] = some (['a', ' ', '#'], ['I', 'F'], ['1', '(', 'x', ')']) := by decide +kernel

-- whole-model runs, evaluated by the kernel
-- #EVAL(#PEEK(0)+2*3,2,8)
example : outText (expand 20 (initSt false 0 0 (fun _ => 0))
    ['#','E','V','A','L','(','#','P','E','E','K','(','0',')','+','2','*','3',',','2',',','8',')']) =
    some ['0','0','0','0','0','1','1','0'] := by decide +kernel
-- #LET(a=5)#FOR1,3(n,[#EVAL(n*{a})], )
example : outText (expand 40 (initSt false 0 0 (fun _ => 0))
    ['#','L','E','T','(','a','=','5',')','#','F','O','R','1',',','3','(','n',',','[','#','E','V','A','L','(','n','*','{','a','}',')',']',',',' ',')']) =
    some ['[','5',']',' ','[','1','0',']',' ','[','1','5',']'] := by decide +kernel
-- #PUSHS #POKES0,9 #POPS #PEEK0  (space-separated)
example : outText (expand 40 (initSt false 0 0 (fun _ => 0))
    ['#','P','U','S','H','S',' ','#','P','O','K','E','S','0',',','9',' ','[','#','P','E','E','K','0',']','#','P','O','P','S',' ','#','P','E','E','K','0']) =
    some ['[','9',']',' ','0'] := by decide +kernel

end C17
