import SkoolVerif.Props.C05
import SkoolVerif.Props.C06
/-!
C05 for the C simulators — the C handler bodies (translated from `c/csimulator.c` on every run, see C06)
execute every instruction exactly as the independent Z80 specification does: corollaries of C06's
`c_step_eq_python` / `c_run_eq_python` and C05's `sim_refines_spec`.  Hypotheses: the range invariant,
the C representation bounds `CRep` (the 64-bit clock and 32-bit frame constants do not wrap) and, for
port writes on 128K memory, an attached tracer (`OutOk`; known finding `c-pages-128k-without-tracer`).
Property theorems only.
-/
namespace C05
open Z80

/-- one instruction of the plain C simulator = one step of the executable Z80 specification -/
theorem c_refines_spec {μ : Type} [MemLike μ] [CellMem μ] [AdjMem μ] (cfg : Cfg) (s : St μ) (hi : RInv s)
    (hrep : CRep cfg s) (hout : CSimH.OutOk cfg s) : CSimH.step cfg s = Spec.step cfg s := by
  rw [C06.c_step_eq_python cfg s hi hrep hout]
  exact sim_refines_spec cfg s hi

/-- runs of any length of the plain C simulator follow the specification's trajectory -/
theorem c_run_refines_spec {μ : Type} [MemLike μ] [CellMem μ] [AdjMem μ] (cfg : Cfg) (hcfg : CSimH.CfgRep cfg)
    (hout : CSimH.OutOkAll μ cfg) (n : Nat) (s : St μ) (hi : RInv s)
    (ht : s.t + n * Tshift.maxDur < 9223372036854775808) : CSimH.runN cfg n s = specRunN cfg n s := by
  rw [C06.c_run_eq_python cfg hcfg hout n s hi ht]
  exact run_refines_spec cfg n s hi

/-- one instruction of the contended C simulator: the specification's step except T, MEMPTR and F bits 5/3 -/
theorem c_cmio_refines_spec {μ : Type} [MemLike μ] [CellMem μ] [AdjMem μ] [PageStable μ] (cfg : Cfg) (s : St μ)
    (hi : RInv s) (hrep : CRep cfg s) (hout : CCmioH.OutOk cfg s) (hcfg : CmioVsSim.CfgOk cfg) :
    CmioVsSim.SameModF53 (Spec.step cfg s) (CCmioH.step cfg s) := by
  rw [C06.c_cmio_step_eq_python cfg s hi hrep hout]
  exact cmio_refines_spec cfg s hi hcfg

end C05
