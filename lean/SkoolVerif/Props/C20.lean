import SkoolVerif.Proofs.RzxInputLemmas
import SkoolVerif.Proofs.RzxSim
import SkoolVerif.Proofs.RzxSimRange
import SkoolVerif.Proofs.RzxCmio
import SkoolVerif.Proofs.RzxFetchCmio
import SkoolVerif.Proofs.RzxResume
import SkoolVerif.Proofs.RzxFileLemmas
import SkoolVerif.Proofs.RzxConventionLemmas
import SkoolVerif.Proofs.ExecFrameC
import SkoolVerif.Proofs.FrameLoopPy
import SkoolVerif.Proofs.RunLoop
/-!
C20 — RZX playback is reproducible, implementation-independent and resumable.

Models: `Model/RzxInput.lean` (frame stream of an input recording block: `parse_rzx`, `write_rzx`,
`rzxinfo --frames`), `Model/RzxPlay.lean` (`process_block` frame loop, `RZXTracer`, end-of-frame
interrupt rules, `exec_frame`, and a recorder), both hand models tied to /repo by the
correspondence checks in `harness/props/c20.py`; the instruction step is the *generated*
`Sim.step` / `Cmio.step` (`Gen/SimHandlers.lean`, `Gen/CmioHandlers.lean`) and the per-closure
facts come from `Gen/RzxSimThms.lean` / `Gen/RzxCmioThms.lean` (`translate/gen_c20.py`).
Property theorems only.
-/
namespace C20
open Z80 Rzx
open RzxInput (parseValues parseFrames parseLoop writeFrames writeFrame writeRep FramesOk infoFrames InfoRow FrameIx
  readings slice getWord getWord_writeFrame parseLoop_writeFrames parseLoop_writeRep infoLoop_eq_parseLoop)

/-! ### 1. The input recording block: write → parse, and the two readers agree -/

/-- `parse_rzx` inverts `write_rzx` on the frame stream, for every list of frames whose counters
fit their fields and whose IN counter is not the marker value 65535; whatever follows the frames
in the block is never touched. -/
theorem input_roundtrip (fs : List RzxInput.Frame) (hok : FramesOk fs) (post : List Nat) :
    parseValues fs.length (writeFrames fs ++ post) = .ok fs :=
  parseValues_writeFrames fs hok post

/-- The same for a recorder that writes the repeated-frame marker (`in_counter = 65535`, "same
port readings as the previous frame") wherever it can: `parse_rzx` gives every frame its own
readings back. -/
theorem input_roundtrip_marker (fs : List RzxInput.Frame) (hok : FramesOk fs) (post : List Nat) :
    parseValues fs.length (writeRep [] fs ++ post) = .ok fs := by
  obtain ⟨ixs, hp, hm⟩ := parseLoop_writeRep fs hok [] post [] 0 0 (fun _ => by simp [slice]) (by simp)
  simp only [List.nil_append, List.length_nil] at hp hm
  simp only [parseValues, parseFrames, hp, hm]

/-- The excluded case, made explicit: a frame with exactly 65535 port readings cannot be written -
its IN counter *is* the marker, and it is read back with the (empty) readings of "the previous
frame". (A frame of at most 69888/70908 T-states has at most 6446 port reads.) -/
theorem input_roundtrip_fails_at_65535 (f : RzxInput.Frame) (h1 : f.fetch < 65536) (h2 : f.ins.length = 65535) :
    parseValues 1 (writeFrames [f]) = .ok [⟨f.fetch, []⟩] := by
  have w := getWord_writeFrame [] [] f
  simp only [List.nil_append, List.length_nil, List.append_nil, Nat.zero_add] at w
  simp only [parseValues, parseFrames, parseLoop, writeFrames, List.append_nil, w.1, w.2, h2, if_true,
    List.map_cons, List.map_nil, readings, slice]
  simp

/-- `rzxinfo --frames` and `rzxplay` read every frame stream alike (truncated or not, with or
without markers): same frames, same fetch counters, and the readings `rzxinfo` lists (count,
first ten, `...`) are those `rzxplay` serves. -/
theorem rzxinfo_agrees_with_rzxplay (n : Nat) (d : List Nat) :
    match infoFrames n d, parseFrames n d with
    | .ok rows, .ok ixs => rows.map InfoRow.view = ixs.map (FrameIx.view d)
    | .error _, .error _ => True
    | _, _ => False :=
  infoLoop_eq_parseLoop d n 0 0 0 [] (by simp [slice])

/-- Hence for a written block `rzxinfo` reports exactly what was recorded: per frame the fetch
counter, the number of port readings, the first ten of them and whether there are more. -/
theorem rzxinfo_reports_recorded (fs : List RzxInput.Frame) (hok : FramesOk fs) (post : List Nat) :
    ∃ rows, infoFrames fs.length (writeFrames fs ++ post) = .ok rows ∧
      rows.map InfoRow.view = fs.map fun f => (f.fetch, f.ins.length, f.ins.take 10, decide (f.ins.length > 10)) := by
  obtain ⟨ixs, hp, hm⟩ := parseLoop_writeFrames fs hok [] post 0 0
  simp only [List.nil_append, List.length_nil] at hp hm
  have h := rzxinfo_agrees_with_rzxplay fs.length (writeFrames fs ++ post)
  simp only [parseFrames, hp] at h
  cases hi : infoFrames fs.length (writeFrames fs ++ post) with
  | error e => rw [hi] at h; exact h.elim
  | ok rows =>
    rw [hi] at h
    refine ⟨rows, rfl, ?_⟩
    simp only at h
    rw [h]
    have e : (fs.map fun f => (f.fetch, f.ins.length, f.ins.take 10, decide (f.ins.length > 10))) =
        ((ixs.map fun f => RzxInput.Frame.mk f.fetch (readings (writeFrames fs ++ post) f)).map
          fun f => (f.fetch, f.ins.length, f.ins.take 10, decide (f.ins.length > 10))) := by rw [hm]
    rw [e, List.map_map]
    rfl

/-! ### 2. Fetch counting = M1 cycles = R increments, for every dispatch slot -/

/-- Per closure (generic tactic over whatever closures `simulator.py` has now): the closure's update
of R is the table its `r_inc` says (`R1`, `R2` or its `r_inc` argument) applied to the old R - unless
a register-index argument it writes through is 15 (LD R,A). -/
theorem closure_r_update {μ : Type} [MemLike μ] (cfg : Cfg) (i : Sim.Instr) (t : TblI1)
    (ht : Sim.rIncOf i = some t) (hw : Sim.writesR i = false) (s : St μ) (hs : 15 < s.reg.size) :
    rget (Sim.execLeaf cfg i s).reg 15 = TblI1.get t (rget s.reg 15) :=
  Sim.rupd_execLeaf cfg i t ht hw s hs

/-- the same for every closure of `cmiosimulator.py` -/
theorem closure_r_update_cmio {μ : Type} [MemLike μ] (cfg : Cfg) (i : Cmio.Instr) (t : TblI1)
    (ht : Cmio.rIncOf i = some t) (hw : Cmio.writesR i = false) (s : St μ) (hs : 15 < s.reg.size) :
    rget (Cmio.execLeaf cfg i s).reg 15 = TblI1.get t (rget s.reg 15) :=
  Cmio.rupd_execLeaf cfg i t ht hw s hs

/-- Kernel-decided over all 7 × 256 slots of the generated dispatch tables: MAIN slots add 1 to R
(the four prefix bytes dispatch on), CB/ED slots add 2 (and only ED 4F writes R), a DD/FD slot adds 2
exactly when the documentation says the prefix modifies the opcode (`Spec.indexable`) and is the
1-byte "prefix alone" closure adding 1 otherwise, DDCB/FDCB slots add 2. -/
theorem dispatch_r_increments :
    ckMAIN = true ∧ ckCBED = true ∧ ckXY Sim.tbl_DD .DDCB = true ∧ ckXY Sim.tbl_FD .FDCB = true ∧ ckXYCB = true :=
  ⟨ckMAIN_ok, ckCBED_ok, ckDD_ok, ckFD_ok, ckXYCB_ok⟩

/-- **Python frame loop.**  What `process_block` subtracts from the fetch counter after executing the
instruction at PC (`2 - ((R' ^ R) % 2)` for DD/FD, 2 for CB/ED, else 1) is the number of M1 cycles
of that instruction (independent spec from the opcode bytes). -/
theorem fetch_dec_eq_m1 {μ : Type} [MemLike μ] (cfg : Cfg) (s : St μ) (h : Good s) :
    fetchDec (mget s.mem s.pc) (rget s.reg 15) (rget (Sim.step cfg s).reg 15) =
      Spec.m1 (mget s.mem s.pc) (mget s.mem ((s.pc + 1) % 65536)) :=
  fetchDec_eq_m1 cfg s h.1 h.2.1 h.2.2.1 h.2.2.2.1 h.2.2.2.2

theorem fetch_dec_eq_m1_cmio {μ : Type} [MemLike μ] (cfg : Cfg) (s : St μ) (h : Good s) :
    fetchDec (mget s.mem s.pc) (rget s.reg 15) (rget (Cmio.step cfg s).reg 15) =
      Spec.m1 (mget s.mem s.pc) (mget s.mem ((s.pc + 1) % 65536)) :=
  fetchDec_eq_m1_cmio cfg s h.1 h.2.1 h.2.2.1 h.2.2.2.1 h.2.2.2.2

/-- The R register advances by that same number (7-bit counter, bit 7 kept), for every instruction but
LD R,A - fetch count, M1 cycles and R increments are one quantity. -/
theorem r_increment_eq_m1 {μ : Type} [MemLike μ] (cfg : Cfg) (s : St μ) (h : Good s)
    (hne : ¬ (mget s.mem s.pc = 0xED ∧ mget s.mem ((s.pc + 1) % 65536) = 0x4F)) :
    rget (Sim.step cfg s).reg 15 = TblI1.get (rTbl (Spec.m1 (mget s.mem s.pc) (mget s.mem ((s.pc + 1) % 65536)))) (rget s.reg 15) ∧
    rget (Cmio.step cfg s).reg 15 = TblI1.get (rTbl (Spec.m1 (mget s.mem s.pc) (mget s.mem ((s.pc + 1) % 65536)))) (rget s.reg 15) :=
  ⟨step_R_eq_m1 cfg s h.1 h.2.2.1 h.2.2.2.1 h.2.2.2.2 hne, step_R_eq_m1_cmio cfg s h.1 h.2.2.1 h.2.2.2.1 h.2.2.2.2 hne⟩

/-- **C frame loop.**  `CSimulator_exec_frame` subtracts exactly what the Python loop subtracts
(plain and contended). -/
theorem c_fetch_dec_eq_py {μ : Type} [MemLike μ] (cfg : Cfg) (s : St μ) (h : Good s) :
    fetchDecC (mget s.mem s.pc) (mget s.mem ((s.pc + 1) % 65536)) (rget s.reg 15) (rget (Sim.step cfg s).reg 15) =
      fetchDec (mget s.mem s.pc) (rget s.reg 15) (rget (Sim.step cfg s).reg 15) ∧
    fetchDecC (mget s.mem s.pc) (mget s.mem ((s.pc + 1) % 65536)) (rget s.reg 15) (rget (Cmio.step cfg s).reg 15) =
      fetchDec (mget s.mem s.pc) (rget s.reg 15) (rget (Cmio.step cfg s).reg 15) :=
  ⟨fetchDecC_eq cfg s h.1 h.2.1 h.2.2.1 h.2.2.2.1 h.2.2.2.2, fetchDecC_eq_cmio cfg s h.1 h.2.1 h.2.2.1 h.2.2.2.1 h.2.2.2.2⟩

/-- Hence a whole frame: `exec_frame`'s `do … while (fetch_count > 0)` and `process_block`'s
`while fetch_counter > 0` run the same instructions and report the same last address, for every
frame with a positive fetch counter from every in-range state (`RInv`: C08's invariant, preserved by
every instruction), any memory model, any port readings. -/
theorem c_frame_eq_py_frame {μ : Type} [MemLike μ] [CellMem μ] (cfg : Cfg) (fc : Int) (s : St μ)
    (hr : RInv s) (hfc : 0 < fc) :
    innerLoop .c (Sim.step cfg) fc s = innerLoop .py (Sim.step cfg) fc s := by
  unfold innerLoop
  exact cFrame_eq_runFrame cfg fc.toNat fc s (good_iter_of_rinv cfg s hr) hfc (by omega)

/-! ### 3. Playback is a fold; stopping and resuming -/

/-- Playing `fs₁ ++ fs₂` = playing `fs₁` (its last end-of-frame decision looking ahead at the first
playable frame of `fs₂`), then `fs₂` from the state and frame count reached. Any step function. -/
theorem play_append {μ : Type} [MemLike μ] (impl : Impl) (cmio : Bool) (flags : Int) (step : St μ → St μ)
    (fs₁ fs₂ : List Rzx.Frame) (cnt : Nat) (s : St μ) :
    playBlock impl cmio flags step none (fs₁ ++ fs₂) cnt s =
      match playG impl cmio flags step none (peekFetch (-1) fs₂) fs₁ cnt s with
      | .ok (.finished s' cnt') => playBlock impl cmio flags step none fs₂ cnt' s'
      | .ok (.stopped s' cnt' r) => .ok (.stopped s' cnt' r)
      | .error e => .error e :=
  playG_append impl cmio flags step (-1) fs₁ fs₂ cnt s

/-- `--stop k` cuts uninterrupted playback at an end of frame and nothing else: continuing from the
state at the stop with the frames that `write_rzx` writes gives the uninterrupted result - for
every stop count, every block (incl. zero-fetch frames), every flag combination, any step function. -/
theorem stop_then_continue {μ : Type} [MemLike μ] (impl : Impl) (cmio : Bool) (flags : Int) (step : St μ → St μ)
    (k : Nat) (fs : List Rzx.Frame) (cnt : Nat) (s : St μ) :
    match playBlock impl cmio flags step (some k) fs cnt s with
    | .ok (.stopped s' cnt' rem) =>
        playBlock impl cmio flags step none fs cnt s = playBlock impl cmio flags step none rem cnt' s'
    | .ok (.finished s' cnt') => playBlock impl cmio flags step none fs cnt s = .ok (.finished s' cnt')
    | .error e => playBlock impl cmio flags step none fs cnt s = .error e :=
  playG_stop_resume impl cmio flags step k (-1) fs cnt s

/-- The plain simulator never reads what an embedded snapshot does not carry (HALT, MEMPTR, and -
with `int_active = 0`, `rzxplay`'s configuration - the clock): playback from two states that agree
on the rest runs alike, errors and frame counts included. -/
theorem playback_ignores_unsaved_state {μ : Type} [MemLike μ] (cfg : Cfg) (hia : cfg.int_active = 0)
    (hfd : 0 < cfg.frame_duration) (impl : Impl) (cmio : Bool) (flags : Int) (stop : Option Nat)
    (fs : List Rzx.Frame) (cnt : Nat) (s s' : St μ) (h : SnapEq s s') :
    RelRes RelOut (playBlock impl cmio flags (Sim.step cfg) stop fs cnt s)
      (playBlock impl cmio flags (Sim.step cfg) stop fs cnt s') :=
  playG_cong impl cmio flags (Sim.step cfg) (stepCong_sim cfg hia hfd) stop (-1) fs cnt s s' h

/-- **Resume.**  Stop at any frame count `k`; write the remaining frames (`write_rzx`) and a snapshot;
read both back: the frames come back as written (`input_roundtrip`) and the restored state `s''`
agrees with the state at the stop on everything a snapshot carries (hypothesis `SnapEq`: C09/C10's
round trip). Then playing the written file to the end = uninterrupted playback - same error or same
final state up to `SnapEq`, same frame count. -/
theorem resume_rzx {μ : Type} [MemLike μ] (cfg : Cfg) (hia : cfg.int_active = 0) (hfd : 0 < cfg.frame_duration)
    (impl : Impl) (cmio : Bool) (flags : Int) (k : Nat) (fs : List RzxInput.Frame) (hok : FramesOk fs)
    (cnt : Nat) (s s' : St μ) (cnt' : Nat) (rem : List Rzx.Frame)
    (hstop : playBlock impl cmio flags (Sim.step cfg) (some k) (fs.map Frame.ofInput) cnt s = .ok (.stopped s' cnt' rem)) :
    ∃ remN : List RzxInput.Frame, rem = remN.map Frame.ofInput ∧
      parseValues remN.length (writeFrames remN) = .ok remN ∧
      ∀ s'', SnapEq s' s'' →
        RelRes RelOut (playBlock impl cmio flags (Sim.step cfg) none (fs.map Frame.ofInput) cnt s)
          (playBlock impl cmio flags (Sim.step cfg) none (remN.map Frame.ofInput) cnt' s'') :=
  resume_generic impl cmio flags (Sim.step cfg) (relOk_snapEq cmio flags) (stepCong_sim cfg hia hfd) k fs hok cnt s s' cnt' rem hstop

/-- In the contention-aware simulator the T-state clock feeds nothing but itself (`int_active = 0`):
contention only ever adds T-states.  Playback from two states that differ in the clock alone runs
alike (same instructions, same port reads, same errors) and ends in states that differ in the clock
alone. -/
theorem playback_ignores_clock_cmio {μ : Type} [MemLike μ] (cfg : Cfg) (hia : cfg.int_active = 0)
    (hfd : 0 < cfg.frame_duration) (impl : Impl) (cmio : Bool) (flags : Int) (stop : Option Nat)
    (fs : List Rzx.Frame) (cnt : Nat) (s s' : St μ) (h : ClockEq s s') :
    RelRes (RelOutE ClockEq) (playBlock impl cmio flags (Cmio.step cfg) stop fs cnt s)
      (playBlock impl cmio flags (Cmio.step cfg) stop fs cnt s') :=
  playG_congE impl cmio flags (Cmio.step cfg) (relOk_clockEq cmio flags) (stepCong_cmio cfg hia hfd) stop (-1) fs cnt s s' h

/-- **Resume, `--cmio`.**  With an embedded SZX snapshot (which carries MEMPTR and the HALT flag) the
restored state differs from the state at the stop only in the clock - the written block starts at
T = 0 while uninterrupted playback continues at the 13/19 T-states of the interrupt just accepted.
Playing the written file to the end = uninterrupted playback, up to the clock. -/
theorem resume_rzx_cmio {μ : Type} [MemLike μ] (cfg : Cfg) (hia : cfg.int_active = 0) (hfd : 0 < cfg.frame_duration)
    (impl : Impl) (cmio : Bool) (flags : Int) (k : Nat) (fs : List RzxInput.Frame) (hok : FramesOk fs)
    (cnt : Nat) (s s' : St μ) (cnt' : Nat) (rem : List Rzx.Frame)
    (hstop : playBlock impl cmio flags (Cmio.step cfg) (some k) (fs.map Frame.ofInput) cnt s = .ok (.stopped s' cnt' rem)) :
    ∃ remN : List RzxInput.Frame, rem = remN.map Frame.ofInput ∧
      parseValues remN.length (writeFrames remN) = .ok remN ∧
      ∀ s'', ClockEq s' s'' →
        RelRes (RelOutE ClockEq) (playBlock impl cmio flags (Cmio.step cfg) none (fs.map Frame.ofInput) cnt s)
          (playBlock impl cmio flags (Cmio.step cfg) none (remN.map Frame.ofInput) cnt' s'') :=
  resume_generic impl cmio flags (Cmio.step cfg) (relOk_clockEq cmio flags) (stepCong_cmio cfg hia hfd) k fs hok cnt s s' cnt' rem hstop

/-- **Playback flag 4** ("ignore snapshots after the first"), over the block loop of `rzxplay.run`:
for a file whose later snapshot blocks describe - up to what a snapshot carries - the state playback
has reached when they come up (as in a recording made from the simulator's own run), playing with
`flags + 4` and with `flags` (0..3) gives the same errors, the same stop and equivalent states;
plain simulator up to `SnapEq`, contended simulator up to the clock. -/
theorem flag4_irrelevant_for_faithful_snapshots {μ : Type} [MemLike μ] (cfg : Cfg) (hia : cfg.int_active = 0)
    (hfd : 0 < cfg.frame_duration) (impl : Impl) (cmio : Bool) (flags : Int)
    (hf : flags = 0 ∨ flags = 1 ∨ flags = 2 ∨ flags = 3) (stop : Option Nat) (blocks : List (Block μ)) (c : Ctx μ) :
    (Faithful SnapEq impl cmio flags (Sim.step cfg) stop blocks c →
      RelFile SnapEq (playFile impl cmio (flags + 4) (Sim.step cfg) stop blocks c)
        (playFile impl cmio flags (Sim.step cfg) stop blocks c)) ∧
    (Faithful ClockEq impl cmio flags (Cmio.step cfg) stop blocks c →
      RelFile ClockEq (playFile impl cmio (flags + 4) (Cmio.step cfg) stop blocks c)
        (playFile impl cmio flags (Cmio.step cfg) stop blocks c)) := by
  have hrefl : ∀ (E : St μ → St μ → Prop), (∀ s, E s s) → RelCtx E c c := by
    intro E hR
    refine ⟨rfl, Iff.rfl, ?_⟩
    cases h : c.eff with
    | none => trivial
    | some x => exact hR x
  exact ⟨fun h => playFile_flag4 impl cmio flags (Sim.step cfg) hf (relOk_snapEq cmio flags) SnapEq.refl
            snapEq_ignoresClock (stepCong_sim cfg hia hfd) stop blocks c c (hrefl _ SnapEq.refl) h,
         fun h => playFile_flag4 impl cmio flags (Cmio.step cfg) hf (relOk_clockEq cmio flags) ClockEq.refl
            clockEq_ignoresClock (stepCong_cmio cfg hia hfd) stop blocks c c (hrefl _ ClockEq.refl) h⟩

/-- **End of frame = the documented convention.**  `process_block`'s end-of-frame code (clock reset, the
`if memory[pc] == 0x76 … elif flags_ldair … elif flags_ei … else` chain over `accept_interrupt(registers,
memory, 0)`) is the convention of `rzxplay.py --flags help` over the Z80's interrupt acknowledge
(`Spec/RzxConvention.lean`), for every flag value, interrupt mode and next fetch counter - provided the
byte at address 0, which `accept_interrupt(…, prev_pc = 0)` inspects, is not EI or a DD/FD prefix (it is
DI, F3, in every Spectrum ROM, and C08 proves the ROM is never modified). -/
theorem end_of_frame_implements_convention {μ : Type} [MemLike μ] (cmio : Bool) (flags : Int) (k : Last)
    (nextFc : Int) (s : St μ) (h0 : Rom0Ok s.mem) :
    boundaryK cmio flags k nextFc s =
      Spec.frameEnd cmio (decide (PyInt.land flags 1 ≠ 0)) (decide (PyInt.land flags 2 ≠ 0)) k.toSpec (decide (nextFc ≤ 2)) s :=
  boundaryK_eq_frameEnd cmio flags k nextFc s h0

/-! ### 4. A recording of the simulator's own run plays back to the recorder's state -/

/-- Port input of one instruction of the generated simulators is local: at most the head of the
reading stream is consumed, exactly one port is logged per reading, and the unread tail influences
nothing - what makes "record the values consumed, serve them again" sound. -/
theorem port_input_is_local {μ : Type} [MemLike μ] (cfg : Cfg) (s : St μ) :
    InLocal (Sim.step cfg) s ∧ ∀ i, InLocal (Cmio.execLeaf cfg i) s :=
  ⟨inloc_step cfg s, fun i => Cmio.inloc_execLeaf cfg i s⟩

/-- **Record → play.**  Record a block from a run of the (plain) simulator: per frame any number
`n ≥ 1` of instructions with a port source that outlasts the frame; log the M1 count (`Spec.m1`) as
fetch counter and the port values consumed as readings; apply the RZX end-of-frame convention
(`boundaryK`, with the recorder's own knowledge of the last instruction). Provided the run stays in
range (`Good`, via `FrameOk`), the last instruction of each frame still reads as itself afterwards
and the announced next fetch counters are the ones produced (`PlanOk`): playing the recording
executes exactly the recorded instructions - never "port readings exhausted", never readings left -
counts every frame, and ends in the recorder's final state. -/
theorem record_then_play {μ : Type} [MemLike μ] (cfg : Cfg) (cmio : Bool) (flags : Int)
    (plan : List (Nat × List Int × Int)) (s : St μ) (cnt : Nat)
    (h : PlanOk (Sim.step cfg) cmio flags m1At plan s) :
    playBlock .py cmio flags (Sim.step cfg) none (recBlock cmio flags (Sim.step cfg) m1At plan s).1 cnt s =
      .ok (.finished (recBlock cmio flags (Sim.step cfg) m1At plan s).2 (cnt + plan.length)) :=
  record_replay (Sim.step cfg) (inloc_step cfg) cmio flags m1At plan s cnt h

/-- **Record → play, for every in-range machine.**  From any state satisfying C08's range invariant,
with byte-valued port sources: the recording hypotheses that remain are the ones about the plan
itself (`PlanOkR`: frames of ≥ 1 instructions, sources that outlast them, last instructions that read
back as themselves, announced = produced fetch counters) - that the run stays in range is a theorem. -/
theorem record_then_play_in_range {μ : Type} [MemLike μ] [CellMem μ] (cfg : Cfg) (cmio : Bool) (flags : Int)
    (plan : List (Nat × List Int × Int)) (s : St μ) (cnt : Nat) (hr : RInv s) (h : PlanOkR cfg cmio flags plan s) :
    playBlock .py cmio flags (Sim.step cfg) none (recBlock cmio flags (Sim.step cfg) m1At plan s).1 cnt s =
      .ok (.finished (recBlock cmio flags (Sim.step cfg) m1At plan s).2 (cnt + plan.length)) :=
  record_then_play cfg cmio flags plan s cnt (planOk_of_rinv cfg cmio flags plan s hr h)

/-- The range invariant is kept by the RZX end-of-frame code too (interrupt acknowledge included), so
it holds at every frame boundary of a playback that started in range. -/
theorem end_of_frame_keeps_ranges {μ : Type} [MemLike μ] [CellMem μ] (cmio : Bool) (flags : Int) (k : Last)
    (nextFc : Int) (s : St μ) (h : RInv s) : RInv (boundaryK cmio flags k nextFc s) :=
  rinv_boundaryK cmio flags k nextFc s h

/-! ### Non-vacuity and concrete values -/

-- a stream with the repeated-frame marker, as `rzxplay` and `rzxinfo` read it
example : parseValues 2 [3, 0, 2, 0, 7, 8, 5, 0, 255, 255] = .ok [⟨3, [7, 8]⟩, ⟨5, [7, 8]⟩] := by decide
example : writeRep [] [⟨3, [7, 8]⟩, ⟨5, [7, 8]⟩] = [3, 0, 2, 0, 7, 8, 5, 0, 255, 255] := by decide
example : writeFrames [⟨300, [7]⟩, ⟨5, []⟩] = [44, 1, 1, 0, 7, 5, 0, 0, 0] := by decide
example : FramesOk [⟨300, [7]⟩, ⟨5, []⟩] := by intro f hf; simp at hf; rcases hf with rfl | rfl <;> simp [RzxInput.Frame.Ok]
example : parseValues 1 [3, 0, 2, 0, 7] = .ok [⟨3, [7]⟩] := by decide     -- truncated readings: silently short
example : parseValues 1 [3, 0, 2] = .error RzxInput.Err.indexError := by decide         -- truncated header: IndexError
-- fetch decrements
example : fetchDec 0xDD 5 6 = 1 ∧ fetchDec 0xDD 5 7 = 2 ∧ fetchDec 0xED 5 7 = 2 ∧ fetchDec 0x00 5 6 = 1 := by decide
example : Spec.m1 0xDD 0x21 = 2 ∧ Spec.m1 0xDD 0x00 = 1 ∧ Spec.m1 0xFD 0xCB = 2 ∧ Spec.m1 0xCB 0x00 = 2 ∧ Spec.m1 0x76 0 = 1 := by decide
example : Spec.indexable.length = 86 := by decide
-- a concrete machine (`Rzx.Ex`): IN A,(FE) ; EI ; HALT at 8000, IM 1 handler RET at 0038
example : Good Ex.s0 := by unfold Good IsByte; decide +kernel
example : Rom0Ok Ex.s0.mem := by unfold Rom0Ok; decide +kernel
example : RInv Ex.s0 := Ex.s0_rinv
example : PlanOkR Ex.cfg0 false 0 Ex.plan0 Ex.s0 := by simp only [Ex.plan0, PlanOkR]; decide +kernel
example : PlanOkR Ex.cfg0 false 2 Ex.plan2 Ex.s0 := by simp only [Ex.plan2, PlanOkR]; decide +kernel
-- the recorder's output for it, and the hypotheses of `record_then_play` hold (flags 0, and flags 2 with a short frame after EI)
example : (recBlock false 0 (Sim.step Ex.cfg0) m1At Ex.plan0 Ex.s0).1 = [⟨3, [191]⟩, ⟨1, []⟩] := by decide +kernel
example : PlanOk (Sim.step Ex.cfg0) false 0 m1At Ex.plan0 Ex.s0 := by
  simp only [Ex.plan0, PlanOk, FrameOk]; decide +kernel
example : PlanOk (Sim.step Ex.cfg0) false 2 m1At Ex.plan2 Ex.s0 := by
  simp only [Ex.plan2, PlanOk, FrameOk]; decide +kernel
-- playing that recording: 2 frames, A = 191 read from the port, interrupt accepted after HALT (PC past it pushed), handler returned
example : Ex.obs (playBlock .py false 0 (Sim.step Ex.cfg0) none [⟨3, [191]⟩, ⟨1, []⟩] 0 Ex.s0) = [0, 191, 0x8004, 0, 0xFF00, 2, 5, 0] := by
  decide +kernel
example : Ex.obs (playBlock .c false 0 (Sim.step Ex.cfg0) none [⟨3, [191]⟩, ⟨1, []⟩] 0 Ex.s0) = [0, 191, 0x8004, 0, 0xFF00, 2, 5, 0] := by
  decide +kernel
-- --stop 1: stopped after frame 1 inside the interrupt handler, one frame left to write
example : Ex.obs (playBlock .py false 0 (Sim.step Ex.cfg0) (some 1) [⟨3, [191]⟩, ⟨1, []⟩] 0 Ex.s0) = [1, 191, 0x38, 0, 0xFEFE, 1, 4, 13] := by
  decide +kernel
-- desynchronised recordings are rejected as `RZXTracer` does
example : Ex.obs (playBlock .py false 0 (Sim.step Ex.cfg0) none [⟨3, []⟩] 0 Ex.s0) = [2] := by decide +kernel          -- exhausted
example : Ex.obs (playBlock .py false 0 (Sim.step Ex.cfg0) none [⟨3, [191, 7]⟩] 0 Ex.s0) = [3] := by decide +kernel   -- left over
-- `rzxplay`'s configuration satisfies the hypotheses of `resume_rzx` / `playback_ignores_unsaved_state`
example : Ex.cfg0.int_active = 0 ∧ 0 < Ex.cfg0.frame_duration := by decide


/-! ### The C frame loop is translated from source (`translate/cloop2lean.py`)

`CSimulator_exec_frame` (both builds) is translated on every run into `Gen/CLoops/exec_frame.lean` / `Gen/CCmioLoops/exec_frame.lean`: the
`while (1) { … if (fetch_count <= 0) break; }` body as an iteration function — its inline fetch (`switch (opcode)` with `r_inc`, `r0`) and the
fetch-counter arithmetic in C integer semantics (`int fetch_count -= unsigned`), the `exec_map` / `trace` callbacks as an output log — iterated
with fuel.  The hand model `cFrame` / `fetchDecC` of this file (theorems `c_fetch_dec_eq_py`, `c_frame_eq_py_frame`) is hereby derived from
the C source instead of tied to it by correspondence only. -/

/-- **`CSimulator_exec_frame`, translated (plain build), is `cFrame`** over `Simulator`'s step (C06 `c_step_eq_python`): for every frame
with a positive fetch counter (below 2^31: the C `int`), from every in-range state, any memory model and port readings — whenever the
model's frame ends without the "port readings exhausted" error (which in the real code is a Python exception raised by
`RZXTracer.read_port`, outside the translated subset) the translated function returns the same final state and the same address of the last
instruction; the callbacks influence neither. -/
theorem c_exec_frame_derived_from_source {μ : Type} [MemLike μ] [CellMem μ] (cfg : Cfg) (hcfg : CSimH.CfgRep cfg) (hout : CSimH.OutOkAll μ cfg)
    (fc : Int) (exec_map trace : PyObj) (log0 : List (List Int)) (s : St μ) (h : RInv s) (hfc : 0 < fc ∧ fc < 2147483648)
    (ht : s.t + fc.toNat * Tshift.maxDur < 9223372036854775808) (r : St μ × Int)
    (hok : cFrame (fun s => Sim.step cfg s) fc.toNat fc s = .ok r) :
    CSimH.Loop.exec_frame cfg fc.toNat fc exec_map trace log0 s = ((r.1, r.2), true) :=
  RunLoop.c_exec_frame cfg hcfg hout fc exec_map trace log0 s h hfc ht r hok

/-- the `-DCONTENTION` build over `CMIOSimulator`'s step -/
theorem c_cmio_exec_frame_derived_from_source {μ : Type} [MemLike μ] [CellMem μ] [PageStable μ] (cfg : Cfg) (hcfg : CSimH.CfgRep cfg)
    (hout : CSimH.OutOkAll μ cfg) (fc : Int) (exec_map trace : PyObj) (log0 : List (List Int)) (s : St μ) (h : RInv s)
    (hfc : 0 < fc ∧ fc < 2147483648) (ht : s.t + fc.toNat * Tshift.maxDurCmio < 9223372036854775808) (r : St μ × Int)
    (hok : cFrame (fun s => Cmio.step cfg s) fc.toNat fc s = .ok r) :
    CCmioH.Loop.exec_frame cfg fc.toNat fc exec_map trace log0 s = ((r.1, r.2), true) :=
  RunLoop.c_cmio_exec_frame cfg hcfg hout fc exec_map trace log0 s h hfc ht r hok

/-- One pass of the translated loop, read off its text: the inline fetch selects the row `GET_OPCODE_FUNC` selects, and the counter drops by
`fetchDecC` of the two opcode bytes and R before / after — in C arithmetic, with no wrap for counters in the `int` range. -/
theorem c_exec_frame_pass {μ : Type} [MemLike μ] [CellMem μ] (cfg : Cfg) (exec_map trace : PyObj) (s : St μ) (l : CSimH.Loop.Exec_frameLocals)
    (h : RInv s) (hs' : RInv (CSimH.step cfg s)) (hfc : -2147483648 ≤ l.fetch_count - 2 ∧ l.fetch_count < 2147483648) :
    CSimH.Loop.exec_frame_loop1_body cfg exec_map trace s l =
      ((CSimH.step cfg s, ⟨l.fetch_count - RunLoop.cDec cfg s, s.pc,
          RunLoop.frameLog exec_map trace s.pc s.t (l.fetch_count - RunLoop.cDec cfg s) l.cblog⟩),
        if l.fetch_count - RunLoop.cDec cfg s ≤ 0 then .break_ else .continue_) :=
  RunLoop.c_frame_body cfg exec_map trace s l h hs' hfc

/-- `accept_interrupt` at the frame boundary: the function this file's `boundary` applies IS the translation of
`Simulator.accept_interrupt` / `CMIOSimulator.accept_interrupt` (`translate/pyloop2lean.py`) and of the C `accept_interrupt` (C06). -/
theorem accept_interrupt_derived_from_source {μ : Type} [MemLike μ] (cfg : Cfg) (prevPc : Int) (s : St μ) :
    (PyLoop.Sim.accept_interrupt cfg prevPc s).1 = acceptInterrupt false prevPc s ∧
    (PyLoop.Cmio.accept_interrupt cfg prevPc s).1 = acceptInterrupt true prevPc s := by
  rw [RunLoop.py_accept_eq, RunLoop.py_cmio_accept_eq, RunLoop.traceLoop_accept_eq_rzx, RunLoop.traceLoop_accept_eq_rzx]
  exact ⟨rfl, rfl⟩

/-- **The Python frame loop of `process_block`, translated** (`translate/pyloop2lean.py`, loop core `while fetch_counter > 0:`; `Gen/PyLoopCores.lean`),
**is `runFrame`** — what `innerLoop .py` runs: whenever the model's frame ends without the "port readings exhausted" error, the translated loop
(with one more pass of fuel, for the failing `while` test) ends in the same state, and its `pc` is the address of the last instruction
executed (the incoming `pc` if the counter was not positive); any state, any counter. -/
theorem python_frame_loop_derived_from_source {μ : Type} [MemLike μ] (cfg : Cfg) (exec_map tracefile : Bool) (fc pc0 : Int) (log0 : List (List Int))
    (s : St μ) (n : Nat) (hn : fc ≤ n) (r : St μ × Int) (hok : runFrame (fun s => Sim.step cfg s) n fc s pc0 = .ok r) :
    (PyLoop.Sim.frame_loop cfg (n + 1) exec_map tracefile fc pc0 log0 s).1.1 = r.1 ∧
      (PyLoop.Sim.frame_loop cfg (n + 1) exec_map tracefile fc pc0 log0 s).1.2.pc = r.2 ∧
      (PyLoop.Sim.frame_loop cfg (n + 1) exec_map tracefile fc pc0 log0 s).2 = true :=
  RunLoop.py_frame cfg exec_map tracefile fc pc0 log0 s n hn r hok

/-- the same over `CMIOSimulator` -/
theorem python_cmio_frame_loop_derived_from_source {μ : Type} [MemLike μ] (cfg : Cfg) (exec_map tracefile : Bool) (fc pc0 : Int)
    (log0 : List (List Int)) (s : St μ) (n : Nat) (hn : fc ≤ n) (r : St μ × Int) (hok : runFrame (fun s => Cmio.step cfg s) n fc s pc0 = .ok r) :
    (PyLoop.Cmio.frame_loop cfg (n + 1) exec_map tracefile fc pc0 log0 s).1.1 = r.1 ∧
      (PyLoop.Cmio.frame_loop cfg (n + 1) exec_map tracefile fc pc0 log0 s).1.2.pc = r.2 ∧
      (PyLoop.Cmio.frame_loop cfg (n + 1) exec_map tracefile fc pc0 log0 s).2 = true :=
  RunLoop.py_cmio_frame cfg exec_map tracefile fc pc0 log0 s n hn r hok

/-- **The end-of-frame interrupt rules of `process_block`, translated** (loop core `registers[25] = 0; fetch_counter = tracer.next_frame();
if registers[26]: …`), **are `boundary`**: the HALT / LD A,I-R (flag 1) / EI-and-short-frame (flag 2) chain with the memory re-read at the last
instruction's address, for every state, flags, address and next fetch counter; plain and contended (`accept_interrupt` translated too). -/
theorem python_frame_boundary_derived_from_source {μ : Type} [MemLike μ] (cfg : Cfg) (flags pc nextFc : Int) (s : St μ) :
    (PyLoop.Sim.frame_boundary cfg (PyInt.land flags 1) (PyInt.land flags 2) pc nextFc s).1 = boundary false flags pc nextFc s ∧
    (PyLoop.Cmio.frame_boundary cfg (PyInt.land flags 1) (PyInt.land flags 2) pc nextFc s).1 = boundary true flags pc nextFc s :=
  ⟨(RunLoop.py_boundary cfg flags pc nextFc s).1, (RunLoop.py_cmio_boundary cfg flags pc nextFc s).1⟩

/-- **`c_frame_eq_py_frame`, on the translated loops**: for a frame with a positive fetch counter (below 2^31) from an in-range state, if the
frame plays without the "port readings exhausted" error then `CSimulator_exec_frame` and the Python frame loop, both translated from source,
end in the same state and report the same last address. -/
theorem translated_c_frame_eq_translated_python_frame {μ : Type} [MemLike μ] [CellMem μ] (cfg : Cfg) (hcfg : CSimH.CfgRep cfg)
    (hout : CSimH.OutOkAll μ cfg) (fc : Int) (emC trC : PyObj) (emP tfP : Bool) (logC logP : List (List Int)) (s : St μ) (h : RInv s)
    (hfc : 0 < fc ∧ fc < 2147483648) (ht : s.t + fc.toNat * Tshift.maxDur < 9223372036854775808) (r : St μ × Int)
    (hok : innerLoop .py (Sim.step cfg) fc s = .ok r) :
    CSimH.Loop.exec_frame cfg fc.toNat fc emC trC logC s = ((r.1, r.2), true) ∧
      (PyLoop.Sim.frame_loop cfg (fc.toNat + 1) emP tfP fc s.pc logP s).1.1 = r.1 ∧
      (PyLoop.Sim.frame_loop cfg (fc.toNat + 1) emP tfP fc s.pc logP s).1.2.pc = r.2 := by
  have hc : innerLoop .c (Sim.step cfg) fc s = .ok r := by rw [c_frame_eq_py_frame cfg fc s h hfc.1]; exact hok
  have p := RunLoop.py_frame cfg emP tfP fc s.pc logP s fc.toNat (by omega) r hok
  exact ⟨RunLoop.c_exec_frame cfg hcfg hout fc emC trC logC s h hfc ht r hc, p.1, p.2.1⟩

/-- non-vacuity: a frame of 3 fetches on the all-zero 128K state (NOPs) through the translated loop: three passes, last instruction at 2 -/
theorem c_exec_frame_example :
    (CSimH.Loop.exec_frame RunLoop.witCfg 3 3 PyObj.none PyObj.none [] RunLoop.wit).1.2 = 2 ∧
    (CSimH.Loop.exec_frame RunLoop.witCfg 3 3 PyObj.none PyObj.none [] RunLoop.wit).1.1.pc = 3 ∧
    (CSimH.Loop.exec_frame RunLoop.witCfg 3 3 PyObj.none PyObj.none [] RunLoop.wit).2 = true := by
  refine ⟨?_, ?_, ?_⟩ <;> decide +kernel

/-- the hypothesis `… = .ok r` of the frame-loop theorems is satisfiable: on the all-zero 128K state (NOPs) the model's frame of 3 fetches ends
normally after the instruction at address 2, in the C shape and in the Python shape -/
theorem frame_loop_hypothesis_holds :
    RunLoop.frameObs (cFrame (fun s => Sim.step RunLoop.witCfg s) 3 3 RunLoop.wit) = some (2, 3) ∧
    RunLoop.frameObs (runFrame (fun s => Sim.step RunLoop.witCfg s) 3 3 RunLoop.wit 0) = some (2, 3) := by
  constructor <;> decide +kernel

end C20
