import SkoolVerif.Proofs.SnaCtlAlign
import SkoolVerif.Proofs.SnaCtlTerm2
import SkoolVerif.Proofs.SnaCtlNoU
import SkoolVerif.Proofs.SnaCtlCover
import SkoolVerif.Proofs.SnaCtlClear
import SkoolVerif.Proofs.SnaCtlVals
/-!
C14 — sna2ctl always emits a complete, ordered, non-overlapping control file.

Property theorems only; lemmas live in `SkoolVerif/Proofs/SnaCtl*.lean`. Model:
`SkoolVerif/Model/SnaCtl.lean` (hand model of `skoolkit/snactl.py`, tied to /repo by the
correspondence check `harness/props/c14.py`). All theorems quantify over an **arbitrary decode
stream** `dec : Nat → Op` (what `opcodes.decode` yields at each address), an arbitrary memory
image `mem`, arbitrary text configuration `cfg` and arbitrary `start ≤ end_`; the only hypothesis
on `dec` is `SizesPos dec` (every instruction occupies ≥ 1 byte).
-/
namespace C14
open SnaCtl

/-- A directive dict as written by `write_ctl`: addresses strictly increasing, first directive at
`start`, last directive the terminator `i` at `end_`, every directive inside `[start, end_]`, no
`i` (ignored) block inside the range. -/
def WellFormed (start end_ : Nat) (d : Dict) : Prop :=
  (keys d).Pairwise (· < ·) ∧ (keys d).head? = some start ∧ d.getLast? = some (end_, Ctl.i) ∧
    (∀ k ∈ keys d, start ≤ k ∧ k ≤ end_) ∧ (∀ kv ∈ d, kv.2 = Ctl.i → kv.1 = end_)

theorem wellFormed_of_inv {start end_ : Nat} {d : Dict} (h : Inv start end_ d) : WellFormed start end_ d :=
  ⟨h.sorted, inv_head h, inv_last h, h.bounds,
    fun kv hkv hi => h.inner kv.1 (by rw [dget_of_mem h.sorted (k := kv.1) (v := kv.2) hkv, hi])⟩

/-! ## Without a code map -/

/-- The list built by the single pass of `_generate_ctls_without_code_map` has strictly increasing
addresses, so `ctls = dict(ctls)` loses nothing: the dict *is* the list. -/
theorem raw_ctls_strictly_increasing (dec : Dec) (hs : SizesPos dec) (mem : Mem) (start end_ : Nat)
    (hse : start ≤ end_) :
    (keys (genRaw dec mem start end_)).Pairwise (· < ·) ∧
      dictOf (genRaw dec mem start end_) = genRaw dec mem start end_ :=
  ⟨(genRaw_ok hs mem hse).sorted, dictOf_sorted _ (genRaw_ok hs mem hse).sorted⟩

/-- **`ctls_wellformed`** — for every decode stream, image, text configuration and range, the
directives produced without a code map (single pass + zero marking + joining + text search) are
strictly increasing, begin at `start`, end with the terminator at `end_`, and stay inside the range. -/
theorem ctls_wellformed (dec : Dec) (hs : SizesPos dec) (mem : Mem) (cfg : Cfg) (start end_ : Nat)
    (hse : start ≤ end_) : WellFormed start end_ (genNoMap dec mem cfg start end_) :=
  wellFormed_of_inv (genNoMap_inv hs mem cfg hse)

/-- … hence they tile `[start, end_)` exactly: every address lies in one and only one block. -/
theorem nomap_tiles_range (dec : Dec) (hs : SizesPos dec) (mem : Mem) (cfg : Cfg) (start end_ : Nat)
    (hse : start ≤ end_) (a : Nat) (h1 : start ≤ a) (h2 : a < end_) :
    ∃ p ∈ pairs (keys (genNoMap dec mem cfg start end_)), (p.1 ≤ a ∧ a < p.2) ∧
      ∀ q ∈ pairs (keys (genNoMap dec mem cfg start end_)), q.1 ≤ a → a < q.2 → q = p :=
  inv_tiles (genNoMap_inv hs mem cfg hse) a h1 h2

/-- The internal "unknown" letter `U` never appears in the output written without a code map. -/
theorem nomap_no_unknown_directive (dec : Dec) (mem : Mem) (cfg : Cfg) (start end_ : Nat) :
    ∀ kv ∈ genNoMap dec mem cfg start end_, kv.2 ≠ Ctl.U :=
  genNoMap_vals dec mem cfg start end_

/-- The two mutation primitives every pass is made of preserve well-formedness: a write strictly
inside the range (never of an `i`), and the deletion of an interior directive. -/
theorem primitives_preserve_wellformed {start end_ : Nat} {d : Dict} (h : Inv start end_ d) (k : Nat) (v : Ctl) :
    (start ≤ k → k < end_ → v ≠ Ctl.i → Inv start end_ (dset d k v)) ∧
    (k ≠ start → k ≠ end_ → Inv start end_ (ddel d k)) :=
  ⟨fun h1 h2 h3 => inv_dset h h1 h2 h3, fun h1 h2 => inv_ddel h h1 h2⟩

/-- Before the text pass every block boundary is an instruction boundary of the stream decoded
linearly from `start`; so decoding any block from its own start lands exactly on the next block's
start (no instruction runs over a directive), except possibly at `end_` itself (the image's last
instruction may straddle END). Needs: a zero byte decodes as a 1-byte instruction (NOP).

`_partial`: the text pass is excluded — see `not_nomap_blocks_aligned_full` below. -/
theorem nomap_blocks_aligned_partial (dec : Dec) (hs : SizesPos dec) (mem : Mem)
    (hz : ∀ x, mem x = 0 → (dec x).size = 1) (start end_ : Nat) (hse : start ≤ end_) (a b : Nat)
    (hp : (a, b) ∈ pairs (keys (joinBS (markZero mem (dictOf (genRaw dec mem start end_))))))
    (hb : b ≠ end_) : Reach dec a b :=
  invS_pairs_reach hs (preText_invS hs mem hz hse) hp hb

/-- The full-strength alignment statement for the generator's final output. -/
def nomap_blocks_aligned_full : Prop :=
  ∀ (dec : Dec) (mem : Mem) (cfg : Cfg) (start end_ : Nat), SizesPos dec →
    (∀ x, mem x = 0 → (dec x).size = 1) → start ≤ end_ →
    ∀ a b, (a, b) ∈ pairs (keys (genNoMap dec mem cfg start end_)) →
      dget (genNoMap dec mem cfg start end_) a = some Ctl.c → b ≠ end_ → Reach dec a b

/-- Witness (known finding `nomap:overlap-warning:code-after-text`): bytes
`(24 25)x5 24 21 DD 21 C9 C9 07x10`. -/
def witMem : Mem := fun a =>
  [0x24, 0x25, 0x24, 0x25, 0x24, 0x25, 0x24, 0x25, 0x24, 0x25, 0x24, 0x21, 0xDD, 0x21, 0xC9, 0xC9,
   7, 7, 7, 7, 7, 7, 7, 7, 7, 7].getD a 0

/-- `opcodes.decode` on those bytes (INC H / DEC H / LD HL,nn / LD IX,nn / RET / RLCA). -/
def witDec : Dec := fun a =>
  if witMem a = 0x21 then ⟨3, 2, 0x21⟩
  else if witMem a = 0xDD then ⟨4, 2, 0xDD21⟩
  else if witMem a = 0xC9 then ⟨1, 2, 0xC9⟩
  else if witMem a = 0x24 then ⟨1, 5, 0x24⟩
  else if witMem a = 0x25 then ⟨1, 5, 0x25⟩
  else if witMem a = 7 then ⟨1, 8, 7⟩
  else ⟨1, 5, 0⟩

def witCfg : Cfg := { isText := fun b => decide (32 ≤ b ∧ b < 96), minCode := 12, minData := 3, words := [] }

theorem witDec_sizesPos : SizesPos witDec := by
  intro a; unfold witDec; split <;> (try split) <;> (try split) <;> (try split) <;> (try split) <;> (try split) <;> simp

theorem witDec_zero : ∀ x, witMem x = 0 → (witDec x).size = 1 := by
  intro x hx; unfold witDec; simp [hx]

/-- what the real generator prints for the witness: `t 0 / c 12 / c 15 / b 16 / i 26` -/
theorem wit_output : genNoMap witDec witMem witCfg 0 26 =
    [(0, Ctl.t), (12, Ctl.c), (15, Ctl.c), (16, Ctl.b), (26, Ctl.i)] := by decide +kernel

/-- The text pass breaks alignment: the code block it starts at 12 (the end of the text run) is
not an instruction boundary of the original stream, and decoding from 12 (`DD 21 C9 C9`, four
bytes) runs over the next directive at 15. This is what makes `sna2skool` warn. -/
theorem not_nomap_blocks_aligned_full : ¬ nomap_blocks_aligned_full := by
  intro h
  have hr := h witDec witMem witCfg 0 26 witDec_sizesPos witDec_zero (by omega) 12 15
    (by rw [wit_output]; decide) (by rw [wit_output]; decide) (by omega)
  obtain ⟨n, hn⟩ := hr
  match n, hn with
  | 0, hn => simp [walk] at hn
  | 1, hn => revert hn; decide
  | n + 2, hn =>
    have h1 : walk witDec 12 1 < walk witDec 12 (n + 2) := walk_mono witDec_sizesPos 12 (by omega)
    have h2 : walk witDec 12 1 = 16 := by decide
    omega

/-! ## With a code map -/

/-- `_find_terminal_instruction` with `ctl=None` (step (2), deletes the directives it walks over):
started after `start` and asked to stop at `end_ ≤ gEnd`, it keeps the dict well formed for
`[start, gEnd]` — in particular it never deletes or moves the terminator — and never returns an
address beyond `end_`. -/
theorem find_terminal_none_preserves_wellformed (dec : Dec) (start gEnd end_ : Nat) (hge : end_ ≤ gEnd)
    (d d' : Dict) (from_ a' : Nat) (h : Inv start gEnd d) (hs : start < from_)
    (hr : findTerminal dec end_ none d from_ = .ok (d', a')) :
    Inv start gEnd d' ∧ (from_ ≤ end_ → a' ≤ end_) ∧ from_ ≤ a' :=
  ftLoop_inv_none hge _ d .U from_ d' a' h (by simp) hs hr

/-- … and it leaves **no directive inside the range it walked over** (`[from_, a')`), including
— since commit ae2db51 — the part of an END-straddling last instruction that lies before END;
directives before `from_` are untouched. So a block extended by step (2) contains no stale
block start in the middle of one of its instructions. -/
theorem find_terminal_none_clears_walked_range (dec : Dec) (start gEnd end_ : Nat) (hge : end_ ≤ gEnd)
    (d d' : Dict) (from_ a' : Nat) (h : Inv start gEnd d) (hs : start < from_)
    (hr : findTerminal dec end_ none d from_ = .ok (d', a')) :
    (∀ k ∈ keys d', ¬ (from_ ≤ k ∧ k < a')) ∧ (∀ k, k < from_ → (k ∈ keys d' ↔ k ∈ keys d)) :=
  ftLoop_none_clears hge _ d .U from_ d' a' h (by simp) hs hr

/-- `_find_terminal_instruction` with a directive letter (steps (3) and (4); inserts at most one
directive after a terminal instruction): same guarantee, from any start address in the range. -/
theorem find_terminal_ctl_preserves_wellformed (dec : Dec) (start gEnd end_ : Nat) (hge : end_ ≤ gEnd)
    (c : Ctl) (hc : c ≠ Ctl.i) (d d' : Dict) (from_ a' : Nat) (h : Inv start gEnd d) (hs : start ≤ from_)
    (hr : findTerminal dec end_ (some c) d from_ = .ok (d', a')) :
    Inv start gEnd d' ∧ (from_ ≤ end_ → a' ≤ end_) ∧ from_ ≤ a' :=
  ftLoop_inv_some hc hge _ d .U from_ d' a' h hs hr

/-- **Code-map generator**: whenever `_generate_ctls_with_code_map` returns (for any decode streams `dec0`
(without) / `dec` (with the RST handler), any second decoder `dis`, any image, any set of executed addresses inside the range), its
directives are well formed for `[start, end_]`. -/
theorem codemap_ctls_wellformed (dec0 dec : Dec) (dis : Dis) (mem : Mem) (cfg : Cfg) (start end_ : Nat)
    (hse : start ≤ end_) (addrs : List Nat) (ha : ∀ a ∈ addrs, start ≤ a ∧ a < end_) (d : Dict)
    (hr : genMap dec0 dec dis mem cfg start end_ addrs = .ok d) : WellFormed start end_ d :=
  wellFormed_of_inv (genMap_inv mem cfg hse addrs ha hr)

/-- … and tile the range exactly. -/
theorem codemap_tiles_range (dec0 dec : Dec) (dis : Dis) (mem : Mem) (cfg : Cfg) (start end_ : Nat)
    (hse : start ≤ end_) (addrs : List Nat) (ha : ∀ a ∈ addrs, start ≤ a ∧ a < end_) (d : Dict)
    (hr : genMap dec0 dec dis mem cfg start end_ addrs = .ok d) (a : Nat) (h1 : start ≤ a) (h2 : a < end_) :
    ∃ p ∈ pairs (keys d), (p.1 ≤ a ∧ a < p.2) ∧ ∀ q ∈ pairs (keys d), q.1 ≤ a → a < q.2 → q = p :=
  inv_tiles (genMap_inv mem cfg hse addrs ha hr) a h1 h2

/-- First half of "every executed address lies inside a code block": the `[address, length]`
blocks `read_map` builds from the (ascending) executed addresses cover every one of them.

`_partial`: that the later steps (2)–(7) never take an executed address out of a `c` block is
modelled and checked by correspondence / end-to-end, not proved. -/
theorem read_map_blocks_cover_partial (dec0 : Dec) (hs : SizesPos dec0) (addrs : List Nat)
    (hsort : addrs.Pairwise (· ≤ ·)) (a : Nat) (ha : a ∈ addrs) :
    ∃ b ∈ codeBlocks dec0 addrs, b.1 ≤ a ∧ a < b.1 + b.2 :=
  codeBlocks_cover hs addrs hsort a ha

/-! ## Termination -/

/-- `_find_terminal_instruction` terminates (the walk advances ≥ 1 byte per iteration; measure
`end_ - address`), and a walk that starts before `end_` makes progress and stops at or before `end_`. -/
theorem find_terminal_terminates (dec : Dec) (hs : SizesPos dec) (end_ : Nat) (ctl : Option Ctl) (d : Dict)
    (from_ : Nat) :
    ∃ d' a', findTerminal dec end_ ctl d from_ = .ok (d', a') ∧
      (from_ ≤ end_ → (from_ < end_ → from_ < a') ∧ a' ≤ end_) := by
  obtain ⟨⟨d', a'⟩, hr⟩ := findTerminal_total hs end_ ctl d from_
  refine ⟨d', a', hr, fun hle => ?_⟩
  have := ftLoop_progress hs _ d .U from_ d' a' hle hr
  exact ⟨this.1, this.2.1⟩

/-- Step (4) (split code blocks on RET/JP/JR) terminates for every block list. -/
theorem step4_terminates (dec : Dec) (hs : SizesPos dec) (bl : List (Ctl × Nat × Nat)) (d : Dict) :
    ∃ d', step4 dec bl d = .ok d' :=
  step4_total hs bl d

/-- Step (5) (third `while 1` loop: join a block with the next one it jumps into) terminates
within `len(ctls) + 1` iterations for **any** second decoder: every pass that asks for another
iteration has deleted at least one directive. -/
theorem step5_terminates (dis : Dis) (d : Dict) (hs : (keys d).Pairwise (· < ·)) :
    ∃ d', step5 dis (d.length + 1) d = .ok d' :=
  step5_total (d.length + 1) d hs (by omega)

/-- Step (2) (first `while 1` loop: extend code blocks to the next RET/JP/JR): one pass of the
`for` loop that asks for a restart has strictly decreased the measure
`phi = Σ (end - address)` over all directives — the directive at the block end it started from is
deleted and at most one directive at a larger address is added, even though the pass iterates over
a block list that goes stale while the dict is mutated. -/
theorem step2_pass_decreases_measure (dec : Dec) (hs : SizesPos dec) (end_ : Nat) (d d' : Dict)
    (hd : (keys d).Pairwise (· < ·)) (hr : step2Pass dec end_ (getBlocks d) d = .ok (d', false)) :
    phi end_ d' < phi end_ d :=
  step2Pass_phi hs (getBlocks d) d d' hd (getBlocks_endsAll d d hd (fun _ h => h)) hr

/-- … hence step (2) terminates within `phi + 1` iterations. -/
theorem step2_terminates (dec : Dec) (hs : SizesPos dec) (end_ : Nat) (d : Dict) (hd : (keys d).Pairwise (· < ·)) :
    ∃ d', step2 dec end_ (phi end_ d + 1) d = .ok d' :=
  step2_total hs _ d hd (by omega)

/-- Step (3) (second `while 1` loop: entry points called/jumped to from code) terminates within
`psi + 1` iterations, `psi = Σ (end - address)` over the `U` directives: each iteration turns one
`U` into `c` and adds at most one `U` at a larger address. -/
theorem step3_terminates (dec : Dec) (dis : Dis) (hs : SizesPos dec) (start end_ : Nat) (d : Dict)
    (h : Inv start end_ d) : ∃ d', step3 dec dis (psi end_ d + 1) d = .ok d' :=
  step3_total hs _ d h (by omega)

/-- **The code-map generator terminates and its output is well formed**, for every pair of decode
streams with positive sizes, every second decoder, image, text configuration, range and set of
executed addresses inside the range; and no internal `U` directive is left in the output. -/
theorem codemap_generator_total_wellformed (dec0 dec : Dec) (dis : Dis) (hs : SizesPos dec) (mem : Mem) (cfg : Cfg)
    (start end_ : Nat) (hse : start ≤ end_) (addrs : List Nat) (ha : ∀ a ∈ addrs, start ≤ a ∧ a < end_) :
    ∃ d, genMap dec0 dec dis mem cfg start end_ addrs = .ok d ∧ WellFormed start end_ d ∧
      ∀ kv ∈ d, kv.2 ≠ Ctl.U := by
  obtain ⟨d, hr⟩ := genMap_total (dec0 := dec0) (dis := dis) hs mem cfg hse addrs ha
  have hinv := genMap_inv mem cfg hse addrs ha hr
  refine ⟨d, hr, wellFormed_of_inv hinv, ?_⟩
  intro kv hkv hU
  exact genMap_no_U mem cfg hse addrs ha hr kv.1 (by rw [dget_of_mem hinv.sorted (k := kv.1) (v := kv.2) hkv, hU])

/-! ## Non-vacuity / concrete values (each mirrors a run of the real tool) -/

-- `sna2ctl -o 0 -e 11` on 00x10, C3 00 80 (the F1 image): the last instruction straddles END
def f1Dec : Dec := fun a => if a = 10 then ⟨3, 2, 0xC9⟩ else ⟨1, 5, 0⟩
example : genNoMap f1Dec (fun a => if a = 10 then 0xC3 else 0) witCfg 0 11 = [(0, Ctl.s), (10, Ctl.c), (11, Ctl.i)] := by
  decide +kernel
example : SizesPos f1Dec := by intro a; unfold f1Dec; split <;> simp
-- hypotheses of `find_terminal_*` are satisfiable and the guard bites: walking from 3 towards end 5
-- over a 3-byte instruction returns end; the terminator stays, the directive inside the
-- instruction goes (ctl=None) or stays (ctl given)
example : findTerminal (fun _ => ⟨3, 2, 0xC9⟩) 5 none [(0, Ctl.c), (3, Ctl.U), (4, Ctl.U), (5, Ctl.i)] 3 =
    .ok ([(0, Ctl.c), (5, Ctl.i)], 5) := by rfl
example : findTerminal (fun _ => ⟨3, 2, 0xC9⟩) 5 (some Ctl.c) [(0, Ctl.c), (3, Ctl.U), (5, Ctl.i)] 3 =
    .ok ([(0, Ctl.c), (3, Ctl.U), (5, Ctl.i)], 5) := by rfl
-- a terminal instruction inside the range: the directive under it is deleted, a new one follows it
example : findTerminal (fun _ => ⟨2, 2, 0xC9⟩) 9 none [(0, Ctl.c), (3, Ctl.U), (9, Ctl.i)] 3 =
    .ok ([(0, Ctl.c), (5, Ctl.U), (9, Ctl.i)], 5) := by rfl
-- code-map generator on the known-finding J image 18 00 00 01 C9 C9 C9 with map {0, 4}
def jDec : Dec := fun a => if a = 0 then ⟨2, 2, 0xC9⟩ else if a = 3 then ⟨3, 2, 1⟩ else if a = 2 then ⟨1, 5, 0⟩ else ⟨1, 2, 0xC9⟩
def jDis : Dis := fun a => if a = 0 then ⟨2, some 2, none⟩ else if a = 3 then ⟨3, none, none⟩ else ⟨1, none, none⟩
def jMem : Mem := fun a => [0x18, 0, 0, 1, 0xC9, 0xC9, 0xC9].getD a 0
example : genMap jDec jDec jDis jMem witCfg 0 7 [0, 4] =
    .ok [(0, Ctl.c), (2, Ctl.c), (4, Ctl.c), (5, Ctl.b), (7, Ctl.i)] := by rfl
example : codeBlocks jDec [0, 1, 4] = [(0, 2), (4, 1)] := by decide
example : Inv 0 7 [(0, Ctl.c), (2, Ctl.c), (4, Ctl.c), (5, Ctl.b), (7, Ctl.i)] :=
  genMap_inv jMem witCfg (by omega) [0, 4] (by decide) (dec0 := jDec) (dec := jDec) (dis := jDis) (by rfl)

end C14
