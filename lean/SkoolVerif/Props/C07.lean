import SkoolVerif.Proofs.C07Chk.Shape
import SkoolVerif.Proofs.C07Chk.DisLen
import SkoolVerif.Proofs.C07Chk.Dec
import SkoolVerif.Proofs.C07Chk.Sim
import SkoolVerif.Proofs.C07Chk.Timing
import SkoolVerif.Proofs.C07Chk.Text
import SkoolVerif.Proofs.C07Chk.TextAny
import SkoolVerif.Proofs.C07Chk.Pair
import SkoolVerif.Proofs.C07SimBranch
import SkoolVerif.Proofs.CmioVsSimStep
/-!
C07 — all instruction tables agree on length, mnemonic and timing of every opcode.

Objects.  `C07Gen.disTables / trTables / decTables / tmTables` are the instruction tables of
`disassembler.py`, `traceutils.py`, `opcodes.py`, `z80.py`, dumped from the working tree on every run;
`InstrDec.disasm / traceDis / decodeStep / getTiming` are the models of the decode wrappers around them
(`Model/InstrDecode.lean`, tied to the real functions by exhaustive correspondence); `Sim.step` is the
simulator model generated from `simulator.py`, `Sim.instrTstates / instrSize / instrFalls` the per-closure
facts derived from the Python AST and proved against that model (`Gen/C07SimFacts.lean`).

Every theorem below quantifies over ALL memories (`mem : Nat → Nat` with byte values), ALL addresses
`a < 65536` (so also the ones next to the 64K boundary), ALL additional-opcode configurations
(`c.opts` is any bit mask, `c.lower`, `c.wrap` any) and, on the simulator side, all machine states.  The
finite part — the 1786 opcode slots × the entries every option can put there — is evaluated by the kernel
on the dumped tables (`Proofs/C07Chk/*`); the rest is proved once, for arbitrary tables.
-/
namespace C07
open InstrDec C07Gen C07Chk Z80

/-- the opcode bytes at `a` select this slot -/
abbrev slotAt (mem : Mem) (a : Nat) : Slot := slotOf (mem a) (mem ((a + 1) % 65536)) (mem ((a + 3) % 65536))

/-! ### no lookup fails -/

/-- The skool disassembler never raises (KeyError, str.format IndexError, wrong decoder shape) — for any
additional-opcode set, letter case, wrap setting, memory and address. -/
theorem lookup_total_disassembler (c : DCfg) (mem : Mem) (hm : ∀ x, mem x < 256) (a : Nat) :
    ∃ r, disasm disTables c mem a = .ok r := by
  obtain ⟨so, h, _⟩ := disasm_ok disShape_ok disLen_ok c mem hm a
  exact ⟨_, h⟩

/-- `traceutils.disassemble` never raises (no `None` function, no missing format field) and returns the
slot's length `L`. -/
theorem lookup_total_trace (mem : Mem) (hm : ∀ x, mem x < 256) (a : Nat) :
    ∃ ps, traceDis trTables mem a = .ok (ps, L (slotAt mem a)) :=
  traceDis_ok trShape_ok trOk_ok mem hm a

/-- `opcodes.decode` never raises KeyError, and sizes the instruction at `a` as `min L (65536 - a)`. -/
theorem lookup_total_decode (mem : Mem) (hm : ∀ x, mem x < 256) (a : Nat) (ha : a < 65536) :
    ∃ r, decodeStep decTables mem a = some r ∧ r.size = min (L (slotAt mem a)) (65536 - a) := by
  have h := decodeStep_size decOk_ok mem hm a ha
  cases hd : decodeStep decTables mem a with
  | none => simp [hd] at h
  | some r => exact ⟨r, rfl, by simpa [hd] using h⟩

/-- `z80.get_timing` never raises KeyError or IndexError on an instruction object made by the skool
disassembler (any additional-opcode set, any address, with or without wrap). -/
theorem lookup_total_timing (c : DCfg) (mem : Mem) (hm : ∀ x, mem x < 256) (a : Nat) (ha : a < 65536) (r : DOut)
    (hr : disasm disTables c mem a = .ok r) :
    getTiming tmTables (startsWithDef r.op) r.bytes ≠ .keyError ∧
    getTiming tmTables (startsWithDef r.op) r.bytes ≠ .indexError := by
  have hdef := defb_ok
  simp only [Bool.and_eq_true] at hdef
  have ht : ForallDis disTables (fun s r => timingP tmTables L s (TS s) r) := by
    intro s hv cand hmem lw
    have := overSimAll_spec timing_ok s hv
    simp only [timingChk, List.all_eq_true, Bool.and_eq_true] at this
    cases lw
    · exact (this cand hmem).1
    · exact (this cand hmem).2
  rcases timing_lift disShape_ok disLen_ok ht hdef c mem hm a ha r hr with h | ⟨t, h, _, _⟩ <;> simp [h]

/-! ### lengths -/

/-- Without `wrap` the skool disassembler and the control-file generator's decoder agree on the number of
bytes of the statement at `a`, for every address up to 65535: both give `min L (65536 - a)`, i.e. the
trace disassembler's (and the simulators') length `L`, cut at the end of memory. -/
theorem len_dis_eq_decode (c : DCfg) (hw : c.wrap = false) (mem : Mem) (hm : ∀ x, mem x < 256) (a : Nat) (ha : a < 65536) :
    ∃ r d, disasm disTables c mem a = .ok r ∧ decodeStep decTables mem a = some d ∧
      r.bytes.length = d.size ∧ d.size = min (L (slotAt mem a)) (65536 - a) := by
  obtain ⟨so, h, hwf, hnom, _⟩ := disasm_ok disShape_ok disLen_ok c mem hm a
  obtain ⟨d, hd, hsz⟩ := lookup_total_decode mem hm a ha
  refine ⟨_, d, h, hd, ?_, hsz⟩
  rw [finish_len_nowrap disTables c mem a so hw hwf ha, hnom, hsz]

/-- Away from the end of memory the three static decoders and the trace disassembler all report the same
length (any additional-opcode set, any letter case, with or without wrap). -/
theorem len_dis_eq_trace (c : DCfg) (mem : Mem) (hm : ∀ x, mem x < 256) (a : Nat) (hfit : a + L (slotAt mem a) ≤ 65536) :
    ∃ r ps d, disasm disTables c mem a = .ok r ∧ traceDis trTables mem a = .ok (ps, L (slotAt mem a)) ∧
      decodeStep decTables mem a = some d ∧ r.bytes.length = L (slotAt mem a) ∧ d.size = L (slotAt mem a) := by
  have hL : 1 ≤ L (slotAt mem a) := by
    have h := allSlots_slotOf decOk_ok (hm a) (hm ((a + 1) % 65536)) (hm ((a + 3) % 65536))
    simp only [Bool.and_eq_true, decide_eq_true_eq] at h
    exact h.1.1.2
  have ha : a < 65536 := by omega
  obtain ⟨so, h, hwf, hnom, hn4⟩ := disasm_ok disShape_ok disLen_ok c mem hm a
  obtain ⟨ps, hps⟩ := lookup_total_trace mem hm a
  obtain ⟨d, hd, hsz⟩ := lookup_total_decode mem hm a ha
  simp only [slotAt] at *
  refine ⟨_, ps, d, h, hps, hd, ?_, by rw [hsz]; omega⟩
  cases hwr : c.wrap with
  | false => rw [finish_len_nowrap disTables c mem a so hwr hwf ha, hnom]; omega
  | true =>
    rw [finish_len_wrap disTables c mem a so hwr hwf ha (by omega), hnom]
    split <;> omega

/-- With `wrap` an instruction that crosses the 64K boundary keeps the trace disassembler's length; only
what the skool disassembler prints as DEFB (no instruction, or a relative jump whose target is outside
0..65535) is still cut at 65536. -/
theorem len_dis_wrap (c : DCfg) (hw : c.wrap = true) (mem : Mem) (hm : ∀ x, mem x < 256) (a : Nat) (ha : a < 65536) :
    ∃ r, disasm disTables c mem a = .ok r ∧
      (r.bytes.length = L (slotAt mem a) ∨
       (startsWithDef r.op = true ∧ r.bytes.length = min (L (slotAt mem a)) (65536 - a))) := by
  have hdef := defb_ok
  simp only [Bool.and_eq_true] at hdef
  obtain ⟨so, h, hwf, hnom, hn4⟩ := disasm_ok disShape_ok disLen_ok c mem hm a
  refine ⟨_, h, ?_⟩
  have hlen := finish_len_wrap disTables c mem a so hw hwf ha (by omega)
  by_cases hd : isDefbAt mem a so = true
  · right
    refine ⟨finish_isDef disTables c mem a so hwf ha ?_ (Or.inl hd), by rw [hlen, hnom]; simp [hd]⟩
    unfold directiveOf; split
    · exact hdef.2
    · exact hdef.1
  · left
    rw [hlen, hnom]; simp [hd]

/-! ### mnemonics and operands -/

/-- The additional-opcode options assign pairwise different keys (so the order in which `Opcodes=` lists them
cannot matter) and there are no options beyond the eight dumped ones. -/
theorem overlay_keys_disjoint :
    (disTables.overlays.map (fun o => (o.tbl, o.key))).Nodup ∧ ∀ o ∈ disTables.overlays, o.opt < 8 := by
  have h := overlays_ok
  simp only [overlaysOk, Bool.and_eq_true, List.all_eq_true, decide_eq_true_eq] at h
  exact ⟨by simpa using h.1, h.2⟩

/-- The two disassemblers print the same mnemonic and operands, character for character: with all additional
opcodes enabled and upper case, for every memory and every address at which the instruction fits below 65536,
the operation text of `Disassembler.disassemble` under a byte formatter `v ↦ prefix ++ byte_fmt v` and a word
formatter `v ↦ prefix ++ word_fmt v` equals the text of `traceutils.disassemble(memory, a, prefix, byte_fmt,
word_fmt)` — for ALL `prefix`, `byte_fmt`, `word_fmt` (so for hexadecimal, decimal, or any other rendering),
including the DEFB statements both print for byte sequences that are not instructions.  The one documented
difference is excluded by `hj`: a relative jump whose target lies outside 0..65535, which the skool
disassembler prints as DEFB (it could not be assembled back) and the trace disassembler as a wrapped jump. -/
theorem text_dis_eq_trace (c : DCfg) (hall : ∀ n, n < 8 → optOn c n = true) (hlow : c.lower = false)
    (mem : Mem) (hm : ∀ x, mem x < 256) (a : Nat) (hfit : a + L (slotAt mem a) ≤ 65536) (ha : a < 65536)
    (r : DOut) (hr : disasm disTables c mem a = .ok r) (out : List TOut) (n : Nat)
    (ht : traceDis trTables mem a = .ok (out, n))
    (hj : jrInRange mem a ∨ startsWithDef r.op = false) (p : List Nat) (fb fw : Nat → List Nat) :
    render (fun v => p ++ fb v) (fun v => p ++ fw v) r.op = renderT p fb fw out := by
  have hdef := defb_ok
  simp only [Bool.and_eq_true] at hdef
  have hc : ∀ o ∈ disTables.overlays, optOn c o.opt = true := fun o ho => hall _ (overlay_keys_disjoint.2 o ho)
  exact text_lift disShape_ok disLen_ok trShape_ok text_ok hdef.1 c hc hlow mem hm a hfit ha r hr out n ht hj p fb fw

/-- For ANY additional-opcode set (upper case): whenever the skool disassembler prints an instruction — not a
DEFB statement — for the bytes at `a`, the trace disassembler prints exactly the same text under matching
formatters.  (With fewer options enabled the skool disassembler declines more byte sequences as DEFB; it
never prints a different mnemonic.) -/
theorem text_dis_eq_trace_any_opcodes (c : DCfg) (hlow : c.lower = false)
    (mem : Mem) (hm : ∀ x, mem x < 256) (a : Nat) (hfit : a + L (slotAt mem a) ≤ 65536) (ha : a < 65536)
    (r : DOut) (hr : disasm disTables c mem a = .ok r) (out : List TOut) (n : Nat)
    (ht : traceDis trTables mem a = .ok (out, n))
    (hnd : startsWithDef r.op = false) (p : List Nat) (fb fw : Nat → List Nat) :
    render (fun v => p ++ fb v) (fun v => p ++ fw v) r.op = renderT p fb fw out := by
  have hdef := defb_ok
  simp only [Bool.and_eq_true] at hdef
  exact text_lift_any disShape_ok disLen_ok trShape_ok textAny_ok hdef.1 c hlow mem hm a hfit ha r hr out n ht hnd p fb fw

/-- Every instruction has a timing: when the skool disassembler prints an instruction (not DEFB) with at least
one byte, `get_timing` returns a timing — never `None`, never an exception. -/
theorem timing_defined_for_instructions (c : DCfg) (mem : Mem) (hm : ∀ x, mem x < 256) (a : Nat) (ha : a < 65536)
    (r : DOut) (hr : disasm disTables c mem a = .ok r) (hnd : startsWithDef r.op = false) (hb : r.bytes ≠ []) :
    ∃ t, getTiming tmTables (startsWithDef r.op) r.bytes = .timing t := by
  have h := lookup_total_timing c mem hm a ha r hr
  cases hg : getTiming tmTables (startsWithDef r.op) r.bytes with
  | timing t => exact ⟨t, rfl⟩
  | keyError => exact absurd hg h.1
  | indexError => exact absurd hg h.2
  | none_ =>
    exfalso
    rw [hnd] at hg
    cases hbs : r.bytes with
    | nil => exact hb hbs
    | cons b rest =>
      rw [hbs] at hg
      simp only [getTiming, Bool.false_eq_true, if_false] at hg
      repeat' split at hg
      all_goals first | cases hg | (simp only [zGet] at hg; split at hg <;> cases hg)

/-! ### the simulator -/

section sim
variable {μ : Type} [MemLike μ]

/-- the simulator's memory as the decoders see it -/
abbrev memOf (s : St μ) : Mem := Sim.memOf s

/-- Where the closure that the simulator runs for the opcode sequence at PC has a fall-through path, it skips
exactly the number of bytes the trace disassembler (hence, by the theorems above, every decoder) reports. -/
theorem len_trace_eq_sim (s : St μ) (hpc : 0 ≤ s.pc ∧ s.pc < 65536) (hmem : ∀ x : Int, 0 ≤ mget s.mem x ∧ mget s.mem x < 256)
    (k : Int) (hk : Sim.instrSize (Sim.leafOf s) = some k) :
    ∃ ps, traceDis trTables (memOf s) s.pc.toNat = .ok (ps, k.toNat) ∧ 0 ≤ k := by
  have hm : ∀ x, memOf s x < 256 := by
    intro x; have := hmem (x : Int); simp only [Sim.memOf]; omega
  obtain ⟨ps, hps⟩ := lookup_total_trace (memOf s) hm s.pc.toNat
  rw [Sim.leafOf_eq simShape_ok s hpc hmem] at hk
  have hv := slotOf_valid (hm s.pc.toNat) (hm ((s.pc.toNat + 1) % 65536)) (hm ((s.pc.toNat + 3) % 65536))
  have := overSimAll_spec simSize_ok _ hv
  simp only [simSizeP, hk, beq_iff_eq] at this
  subst this
  exact ⟨ps, by simpa using hps, by omega⟩

/-- If every path of that closure falls through (no jump, call, return, repeat or halt), one step of the
simulator advances PC by the length all decoders report, wrapping at 64K — from any state. -/
theorem pc_advances_by_length (cfg : Cfg) (s : St μ) (hpc : 0 ≤ s.pc ∧ s.pc < 65536)
    (hmem : ∀ x : Int, 0 ≤ mget s.mem x ∧ mget s.mem x < 256) (hf : Sim.instrFalls (Sim.leafOf s) = true) :
    (Sim.step cfg s).pc = (s.pc + L (slotAt (memOf s) s.pc.toNat)) % 65536 := by
  have hm : ∀ x, memOf s x < 256 := by
    intro x; have := hmem (x : Int); simp only [Sim.memOf]; omega
  have hv := slotOf_valid (hm s.pc.toNat) (hm ((s.pc.toNat + 1) % 65536)) (hm ((s.pc.toNat + 3) % 65536))
  have hsz := overSimAll_spec simSize_ok _ hv
  have hle := Sim.leafOf_eq simShape_ok s hpc hmem
  cases hk : Sim.instrSize (Sim.leafOf s) with
  | none =>
    -- a closure whose paths all fall through has a size
    exfalso
    generalize Sim.leafOf s = i at hk hf
    cases i <;> simp_all [Sim.instrSize, Sim.instrFalls]
  | some k =>
    rw [Sim.pc_step cfg s k hk hf]
    rw [hle] at hk
    simp only [simSizeP, hk, beq_iff_eq] at hsz
    rw [hsz]

/-- The static timing table gives exactly the T-states the simulator takes: whenever `get_timing` returns a
value for the instruction object that the skool disassembler makes for the bytes at PC (any configuration),
one step of the simulator from that state takes one of its members, and every member is one of the T-state
increments of the closure the simulator runs (both members for conditional and repeating instructions). -/
theorem timing_eq_sim (cfg : Cfg) (c : DCfg) (s : St μ) (hpc : 0 ≤ s.pc ∧ s.pc < 65536)
    (hmem : ∀ x : Int, 0 ≤ mget s.mem x ∧ mget s.mem x < 256) (r : DOut)
    (hr : disasm disTables c (memOf s) s.pc.toNat = .ok r) (t : Timing)
    (ht : getTiming tmTables (startsWithDef r.op) r.bytes = .timing t) :
    (Sim.step cfg s).t - s.t ∈ t.toList ∧ ∀ x, x ∈ t.toList ↔ x ∈ Sim.instrTstates (Sim.leafOf s) := by
  have hm : ∀ x, memOf s x < 256 := by
    intro x; have := hmem (x : Int); simp only [Sim.memOf]; omega
  have hdef := defb_ok
  simp only [Bool.and_eq_true] at hdef
  have hT : ForallDis disTables (fun s r => timingP tmTables L s (TS s) r) := by
    intro s hv cand hmem lw
    have := overSimAll_spec timing_ok s hv
    simp only [timingChk, List.all_eq_true, Bool.and_eq_true] at this
    cases lw
    · exact (this cand hmem).1
    · exact (this cand hmem).2
  have ha : s.pc.toNat < 65536 := by omega
  rcases timing_lift disShape_ok disLen_ok hT hdef c (memOf s) hm s.pc.toNat ha r hr with h | ⟨t', h, _, hiff⟩
  · rw [h] at ht; cases ht
  · rw [h] at ht
    injection ht with ht
    subst ht
    have hle := Sim.leafOf_eq simShape_ok s hpc hmem
    have hiff' : ∀ x, x ∈ t'.toList ↔ x ∈ Sim.instrTstates (Sim.leafOf s) := by
      intro x; rw [hle]; exact hiff x
    exact ⟨(hiff' _).2 (Sim.tstates_step cfg s), hiff'⟩

/-- The two members of a timing pair: when `get_timing` returns a pair for the instruction at PC, one member
`tf` is the T-states of the fall-through case and the other, `tj`, of the jump / repeat case: the step takes
`tf` or `tj` and nothing else, and if it took `tf`, PC advanced by exactly the length all decoders report. -/
theorem timing_pair_members (cfg : Cfg) (c : DCfg) (s : St μ) (hpc : 0 ≤ s.pc ∧ s.pc < 65536)
    (hmem : ∀ x : Int, 0 ≤ mget s.mem x ∧ mget s.mem x < 256) (r : DOut)
    (hr : disasm disTables c (memOf s) s.pc.toNat = .ok r) (t1 t2 : Int)
    (ht : getTiming tmTables (startsWithDef r.op) r.bytes = .timing (.two t1 t2)) :
    ∃ tf tj, ((tf = t2 ∧ tj = t1) ∨ (tf = t1 ∧ tj = t2)) ∧ tf ≠ tj ∧
      ((Sim.step cfg s).t - s.t = tf ∨ (Sim.step cfg s).t - s.t = tj) ∧
      ((Sim.step cfg s).t - s.t = tf → (Sim.step cfg s).pc = (s.pc + L (slotAt (memOf s) s.pc.toNat)) % 65536) := by
  have hm : ∀ x, memOf s x < 256 := by
    intro x; have := hmem (x : Int); simp only [Sim.memOf]; omega
  have hmemb := (timing_eq_sim cfg c s hpc hmem r hr _ ht).1
  have hdef := defb_ok
  simp only [Bool.and_eq_true] at hdef
  have hT : ForallDis disTables (fun s r => timingP tmTables L s (TS s) r) := by
    intro s hv cand hmem lw
    have := overSimAll_spec timing_ok s hv
    simp only [timingChk, List.all_eq_true, Bool.and_eq_true] at this
    cases lw
    · exact (this cand hmem).1
    · exact (this cand hmem).2
  have ha : s.pc.toNat < 65536 := by omega
  have hv := slotOf_valid (hm s.pc.toNat) (hm ((s.pc.toNat + 1) % 65536)) (hm ((s.pc.toNat + 3) % 65536))
  have hle := Sim.leafOf_eq simShape_ok s hpc hmem
  rcases timing_lift disShape_ok disLen_ok hT hdef c (memOf s) hm s.pc.toNat ha r hr with h | ⟨t', h, hz, _⟩
  · rw [h] at ht; cases ht
  · rw [h] at ht
    injection ht with ht
    subst ht
    have hp := overSimAll_spec pair_ok _ hv
    simp only [pairP, hz, Bool.and_eq_true, Bool.or_eq_true, beq_iff_eq, bne_iff_ne, ne_eq] at hp
    obtain ⟨⟨hord, hne⟩, hsize⟩ := hp
    simp only [Timing.toList, List.mem_cons, List.not_mem_nil, or_false] at hmemb
    -- the fall-through member `tf` and the other member `tj`, whichever way round the table lists them
    have key : ∀ tf tj, Sim.instrFallT (Sim.simAt (slotAt (memOf s) s.pc.toNat)) = [tf] →
        Sim.instrSameT (Sim.simAt (slotAt (memOf s) s.pc.toNat)) ++
          Sim.instrJumpT (Sim.simAt (slotAt (memOf s) s.pc.toNat)) = [tj] → tf ≠ tj →
        ((Sim.step cfg s).t - s.t = tf → (Sim.step cfg s).pc = (s.pc + L (slotAt (memOf s) s.pc.toNat)) % 65536) := by
      intro tf tj hfall hsj hne' h2
      rw [Sim.step_eq, hle]
      have hbt := (Sim.pcByT_execLeaf cfg (Sim.simAt (slotAt (memOf s) s.pc.toNat)) s).1
      rw [Sim.step_eq, hle] at h2
      refine hbt (by rw [hfall, h2]; simp) ?_ _ hsize
      intro x hx
      rw [hfall] at hx
      simp only [List.mem_singleton] at hx
      subst hx
      have hmemsj : ∀ y, y ∈ Sim.instrSameT (Sim.simAt (slotAt (memOf s) s.pc.toNat)) ++
          Sim.instrJumpT (Sim.simAt (slotAt (memOf s) s.pc.toNat)) → y = tj := by
        intro y hy; rw [hsj] at hy; simpa using hy
      constructor
      · intro hx; exact hne' (hmemsj _ (List.mem_append_left _ hx))
      · intro hx; exact hne' (hmemsj _ (List.mem_append_right _ hx))
    rcases hord with ⟨hf, hj⟩ | ⟨hf, hj⟩
    · exact ⟨t2, t1, Or.inl ⟨rfl, rfl⟩, fun e => hne e.symm, hmemb.symm, key t2 t1 hf hj (fun e => hne e.symm)⟩
    · exact ⟨t1, t2, Or.inr ⟨rfl, rfl⟩, hne, hmemb, key t1 t2 hf hj hne⟩

/-- Conditional relative jumps, stated on `step`: when the closure at PC is `jr c_and c_val` (JR / JR cc), the
jump is taken — 12 T-states — exactly when `F & c_and = c_val`, and otherwise the step takes 7 T-states and
PC advances by 2. -/
theorem jr_step (cfg : Cfg) (s : St μ) (c_and c_val : Int) (hl : Sim.leafOf s = .jr c_and c_val) :
    (PyInt.land (rget s.reg 1) c_and = c_val → (Sim.step cfg s).t = s.t + 12) ∧
    (PyInt.land (rget s.reg 1) c_and ≠ c_val →
      (Sim.step cfg s).t = s.t + 7 ∧ (Sim.step cfg s).pc = (s.pc + 2) % 65536) := by
  rw [Sim.step_eq, hl]
  exact ⟨fun h => ((Sim.jr_branches cfg c_and c_val s).1 h).1, (Sim.jr_branches cfg c_and c_val s).2⟩

/-- CALL cc / RET cc / DJNZ / JP cc on `step`: the not-taken case takes the second member of the timing pair
(10 / 5 / 8 T-states; JP: 10 either way) and advances PC by the instruction length (3 / 1 / 2 / 3). -/
theorem not_taken_step (cfg : Cfg) (s : St μ) :
    (∀ c_and c_val, Sim.leafOf s = .call c_and c_val → c_and ≠ 0 → PyInt.land (rget s.reg 1) c_and = c_val →
      (Sim.step cfg s).t = s.t + 10 ∧ (Sim.step cfg s).pc = (s.pc + 3) % 65536) ∧
    (∀ c_and c_val, Sim.leafOf s = .ret c_and c_val → c_and ≠ 0 → PyInt.land (rget s.reg 1) c_and = c_val →
      (Sim.step cfg s).t = s.t + 5 ∧ (Sim.step cfg s).pc = (s.pc + 1) % 65536) ∧
    (Sim.leafOf s = .djnz → (rget s.reg 2 - 1) % 256 = 0 →
      (Sim.step cfg s).t = s.t + 8 ∧ (Sim.step cfg s).pc = (s.pc + 2) % 65536) ∧
    (∀ c_and c_val, Sim.leafOf s = .jp c_and c_val → PyInt.land (rget s.reg 1) c_and ≠ c_val →
      (Sim.step cfg s).t = s.t + 10 ∧ (Sim.step cfg s).pc = (s.pc + 3) % 65536) := by
  refine ⟨fun a v hl h1 h2 => ?_, fun a v hl h1 h2 => ?_, fun hl h => ?_, fun a v hl h => ?_⟩
  · rw [Sim.step_eq, hl]; exact (Sim.call_branches cfg a v s).1 ⟨h1, h2⟩
  · rw [Sim.step_eq, hl]; exact (Sim.ret_branches cfg a v s).1 h1 h2
  · rw [Sim.step_eq, hl]; exact (Sim.djnz_branches cfg s).2 h
  · rw [Sim.step_eq, hl]; exact ⟨(Sim.jp_branches cfg a v s).1, (Sim.jp_branches cfg a v s).2.2 h⟩

/-- ... and the taken case takes the first member (17 / 11 / 13 T-states). -/
theorem taken_step (cfg : Cfg) (s : St μ) :
    (∀ c_and c_val, Sim.leafOf s = .call c_and c_val → ¬ (c_and ≠ 0 ∧ PyInt.land (rget s.reg 1) c_and = c_val) →
      (Sim.step cfg s).t = s.t + 17) ∧
    (∀ c_and c_val, Sim.leafOf s = .ret c_and c_val → c_and ≠ 0 → PyInt.land (rget s.reg 1) c_and ≠ c_val →
      (Sim.step cfg s).t = s.t + 11) ∧
    (Sim.leafOf s = .djnz → (rget s.reg 2 - 1) % 256 ≠ 0 → (Sim.step cfg s).t = s.t + 13) := by
  refine ⟨fun a v hl h => ?_, fun a v hl h1 h2 => ?_, fun hl h => ?_⟩
  · rw [Sim.step_eq, hl]; exact ((Sim.call_branches cfg a v s).2 h).1
  · rw [Sim.step_eq, hl]; exact ((Sim.ret_branches cfg a v s).2.1 h1 h2).1
  · rw [Sim.step_eq, hl]; exact ((Sim.djnz_branches cfg s).1 h).1

/-! ### the other three simulator implementations -/

/-- `len_dis_eq_sim`: the number of bytes in the skool disassembler's instruction object equals the simulator's
fall-through size for the opcode sequence at PC, wherever the simulator defines one and the instruction fits
below 65536 (any additional-opcode set). -/
theorem len_dis_eq_sim (c : DCfg) (s : St μ) (hpc : 0 ≤ s.pc ∧ s.pc < 65536)
    (hmem : ∀ x : Int, 0 ≤ mget s.mem x ∧ mget s.mem x < 256) (k : Int) (hk : Sim.instrSize (Sim.leafOf s) = some k)
    (hfit : s.pc + k ≤ 65536) :
    ∃ r, disasm disTables c (memOf s) s.pc.toNat = .ok r ∧ (r.bytes.length : Int) = k := by
  have hm : ∀ x, memOf s x < 256 := by
    intro x; have := hmem (x : Int); simp only [Sim.memOf]; omega
  obtain ⟨ps, hps, hk0⟩ := len_trace_eq_sim s hpc hmem k hk
  obtain ⟨ps', hps'⟩ := lookup_total_trace (memOf s) hm s.pc.toNat
  rw [hps] at hps'
  have hL : k.toNat = L (slotAt (memOf s) s.pc.toNat) := by
    have := Except.ok.inj hps'
    exact (Prod.mk.inj this).2
  obtain ⟨r, _, _, hr, _, _, hlen, _⟩ := len_dis_eq_trace c (memOf s) hm s.pc.toNat (by rw [← hL]; omega)
  exact ⟨r, hr, by rw [hlen, ← hL]; omega⟩

/-- The C simulator's seven dispatch tables carry, slot for slot, the same closures with the same size and
timing arguments as the Python tables (so `Sim.simAt`, `instrSize`, `instrTstates` above are also the C
simulator's), and the contended Python simulator dispatches every opcode sequence to the same closure. -/
theorem other_simulators_same_dispatch :
    (CSim.tbl_MAIN = Sim.tbl_MAIN ∧ CSim.tbl_CB = Sim.tbl_CB ∧ CSim.tbl_ED = Sim.tbl_ED ∧ CSim.tbl_DD = Sim.tbl_DD ∧
      CSim.tbl_FD = Sim.tbl_FD ∧ CSim.tbl_DDCB = Sim.tbl_DDCB ∧ CSim.tbl_FDCB = Sim.tbl_FDCB) ∧
    ∀ s : St μ, Cmio.leafOf s = CmioVsSim.toCmio (Sim.leafOf s) :=
  ⟨⟨DispatchEq.c_MAIN, DispatchEq.c_CB, DispatchEq.c_ED, DispatchEq.c_DD, DispatchEq.c_FD, DispatchEq.c_DDCB,
    DispatchEq.c_FDCB⟩, CmioVsSim.leafOf_map⟩

/-- The contended simulator advances PC by the same length — every closure, any state with byte registers,
under the frame layout `CfgOk` — and outside the display-fetch part of the frame it takes exactly the
T-states the timing table gives. -/
theorem contended_simulator_agrees (cfg : Cfg) (c : DCfg) (s : St μ) (hpc : 0 ≤ s.pc ∧ s.pc < 65536)
    (hmem : ∀ x : Int, 0 ≤ mget s.mem x ∧ mget s.mem x < 256) :
    (Sim.instrFalls (Sim.leafOf s) = true → RegsOk s.reg → CmioVsSim.CfgOk cfg →
      (Cmio.step cfg s).pc = (s.pc + L (slotAt (memOf s) s.pc.toNat)) % 65536) ∧
    (¬ (cfg.t0 < s.t % cfg.frame_duration ∧ s.t % cfg.frame_duration < cfg.t1) →
      ∀ r, disasm disTables c (memOf s) s.pc.toNat = .ok r →
        ∀ t, getTiming tmTables (startsWithDef r.op) r.bytes = .timing t → (Cmio.step cfg s).t - s.t ∈ t.toList) := by
  constructor
  · intro hf hr hcfg
    rw [(CmioVsSim.sameModF53_step cfg s hr hcfg).2.2.2.1]
    exact pc_advances_by_length cfg s hpc hmem hf
  · intro hout r hr t ht
    have hT : (Cmio.step cfg s).t = (Sim.step cfg s).t := by
      rw [Sim.step_eq, Cmio.step_eq, CmioVsSim.leafOf_map]
      exact CmioVsSim.sameT_execLeaf cfg _ s hout
    rw [hT]
    exact (timing_eq_sim cfg c s hpc hmem r hr t ht).1

end sim

/-! ### non-vacuity and concrete values -/

/-- a memory holding `DD 36 05 07` (LD (IX+5),7) at 0x8000 and `ED B0` (LDIR) at 0xFFFF/0x0000 -/
def memEx : Mem := fun x =>
  if x = 0x8000 then 0xDD else if x = 0x8001 then 0x36 else if x = 0x8002 then 5 else if x = 0x8003 then 7
  else if x = 0xFFFF then 0xED else if x = 0 then 0xB0 else 0

example : ∀ x, memEx x < 256 := by intro x; unfold memEx; (repeat' split) <;> omega
example : L (slotAt memEx 0x8000) = 4 := by decide +kernel
example : L (slotAt memEx 0xFFFF) = 2 := by decide +kernel
example : L ⟨0, 0x21⟩ = 3 ∧ L ⟨3, 0x00⟩ = 1 ∧ L ⟨2, 0x00⟩ = 2 ∧ L ⟨5, 0x46⟩ = 4 ∧ L ⟨2, 0x63⟩ = 4 := by decide +kernel
-- the hypotheses of `text_dis_eq_trace` are met by `Opcodes=ALL` at 0x8000
example : ∀ n, n < 8 → optOn { opts := 255 } n = true := by decide
example : 0x8000 + L (slotAt memEx 0x8000) ≤ 65536 := by decide +kernel
example : (match disasm disTables { opts := 255 } memEx 0x8000 with
    | .ok r => r.bytes == [0xDD, 0x36, 5, 7] && !startsWithDef r.op
    | .error _ => false) = true := by decide +kernel
-- an instruction that wraps: 2 bytes with `wrap`, a 1-byte DEFB without; `decode` says 1 as well
example : (match disasm disTables { wrap := true } memEx 0xFFFF with
    | .ok r => r.bytes == [0xED, 0xB0] && !startsWithDef r.op
    | .error _ => false) = true := by decide +kernel
example : (match disasm disTables { } memEx 0xFFFF with
    | .ok r => r.bytes == [0xED] && startsWithDef r.op
    | .error _ => false) = true := by decide +kernel
example : (decodeStep decTables memEx 0xFFFF).map (·.size) = some 1 := by decide +kernel
-- timings: a pair for a conditional / repeating instruction, a single value otherwise
example : getTiming tmTables false [0xED, 0xB0] = .timing (.two 21 16) ∨ getTiming tmTables false [0xED, 0xB0] = .timing (.two 16 21) := by
  decide +kernel
example : getTiming tmTables false [0x20, 5] = .timing (.two 12 7) ∨ getTiming tmTables false [0x20, 5] = .timing (.two 7 12) := by
  decide +kernel
example : getTiming tmTables false [0xDD, 0xCB, 5, 0x46] = .timing (.one 20) := by decide +kernel
example : getTiming tmTables false [0xED, 0x4C] = .timing (.one 8) := by decide +kernel
-- the simulator side: derived facts for the closures behind those slots
example : 21 ∈ Sim.instrTstates (Sim.simAt ⟨2, 0xB0⟩) ∧ 16 ∈ Sim.instrTstates (Sim.simAt ⟨2, 0xB0⟩) ∧
    Sim.instrSize (Sim.simAt ⟨2, 0xB0⟩) = some 2 := by decide +kernel
example : 12 ∈ Sim.instrTstates (Sim.simAt ⟨0, 0x20⟩) ∧ 7 ∈ Sim.instrTstates (Sim.simAt ⟨0, 0x20⟩) ∧
    Sim.instrFalls (Sim.simAt ⟨0, 0x20⟩) = false := by decide +kernel
example : Sim.instrFalls (Sim.simAt ⟨3, 0x36⟩) = true ∧ Sim.instrSize (Sim.simAt ⟨3, 0x36⟩) = some 4 := by decide +kernel
-- DD before a non-indexable opcode: one byte everywhere, a 4 T-state NOP in the simulator
example : Sim.simAt ⟨3, 0x00⟩ = .nop .R1 4 1 ∧ decRaw decTables ⟨3, 0x00⟩ = some 1 := by decide +kernel

-- states meeting the hypotheses of the simulator theorems: LD (IX+5),7 at 0x8000 (falls through, 19 T-states),
-- JR NZ at 0x9000 with Z clear (taken) — evaluated on the generated model by the kernel
def stEx : St Sim.FnMem := Sim.exState (fun x => (memEx x.toNat : Int)) 0x8000
def stJr : St Sim.FnMem := Sim.exState (fun x => if x = 0x9000 then 0x20 else 5) 0x9000

example : 0 ≤ stEx.pc ∧ stEx.pc < 65536 := by decide
example : Sim.instrFalls (Sim.leafOf stEx) = true := by decide +kernel
example : Sim.leafOf stEx = .ld_xy_n 8 9 := by decide +kernel
example : (Sim.step {} stEx).pc = 0x8004 ∧ (Sim.step {} stEx).t = 19 := by decide +kernel
example : Sim.leafOf stJr = .jr 64 0 := by decide +kernel
example : PyInt.land (rget stJr.reg 1) 64 = 0 := by decide +kernel
example : (Sim.step {} stJr).t = 12 ∧ (Sim.step {} stJr).pc = 0x9007 := by decide +kernel
-- the frame-layout hypothesis of `contended_simulator_agrees` holds for the default (48K) configuration
example : CmioVsSim.CfgOk {} := by decide

end C07
